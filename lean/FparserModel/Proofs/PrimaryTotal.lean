import FparserModel.Primary
import FparserModel.Proofs.IoStmtBasic
import FparserModel.Proofs.IoStmtTotal
import FparserModel.Proofs.IoStmtLayoutCombi
/-!
Property (c) of the `Primary` slice: WHICH EXCEPTIONS CAN ESCAPE from a `match` of the operand layer
(`FparserModel/Primary.lean`), and which `tostr` of a freshly matched node cannot raise.

* `planX_rt : ResTotal (planX s)` for every plan of the layer except `planIntrinsic`
  (`ResTotal x` = `x` raises at most `KeyError` (string_replace_map's) and its slots carry no `Slot.raise`);
* `planComplex`'s `ValueError` and the combinators' `TypeError` (`ofCombiSlot .crash`) are UNREACHABLE;
* `planIntrinsic_raise` : the only explicit raises of `Intrinsic_Function_Reference.match` are the two table verdicts;
* `Plan.run_raises`, `planOf_planT`, `match_total`, `match_total_intrinsic`;
* `tostrOf_total` : `str(node)` of a freshly matched node does not raise, for every class of the layer except
  `Char_Literal_Constant` (whose `tostr` has an `InternalError` guard on an empty value; not attempted).
-/
namespace Fp.Primary
open Fp Fp.Splitline
open Fp.IoStmt (Res Exc Slot Item Oracle Std runSlots runSlot tok combiPlan combiStr specList inner
  startsC endsC splitC ResTotal NoRaise PlanTotal echoO)
open Fp.IoStmt

variable {Node : Type}

/-! ## per-plan lemmas -/

theorem planNumber_rt (scan : Str → Option (Str × Option Str)) (s : Str) : ResTotal (planNumber scan s) := by
  unfold planNumber
  repeat rt_step

theorem planName_rt (s : Str) : ResTotal (planName s) := by
  unfold planName
  repeat rt_step

theorem planTypeName_rt (s : Str) : ResTotal (planTypeName s) := by
  unfold planTypeName
  split
  · rt_leaf
  · exact planName_rt s

theorem planBoz_rt (l : Char) (d : Char → Bool) (s : Str) : ResTotal (planBoz l d s) := by
  unfold planBoz
  repeat rt_step

theorem planIntrinsicName_rt (std : Std) (s : Str) : ResTotal (planIntrinsicName std s) := by
  unfold planIntrinsicName
  repeat rt_step

/-- the regex `abs_complex_literal_constant` accepts only texts with exactly ONE top-level-or-not comma:
    the unpacking `r, i = string[1:-1].split(",")` cannot fail -/
theorem scanComplex_split {s : Str} (h : scanComplex s = true) : ∃ a b, splitC ',' (inner s) = [a, b] := by
  unfold scanComplex at h
  split at h
  · rename_i r
    split at h
    · cases h
    · split at h
      · rename_i a b hab
        exact ⟨a, b, by simpa [inner] using hab⟩
      · cases h
  · cases h

/-- `Complex_Literal_Constant.match` : the `ValueError` branch of the model is unreachable -/
theorem planComplex_rt (s : Str) : ResTotal (planComplex s) := by
  unfold planComplex
  split
  · rt_leaf
  split
  · rt_leaf
  split
  · rt_leaf
  rename_i h3
  obtain ⟨a, b, hab⟩ := scanComplex_split (s := s) (by simpa using h3)
  rw [hab]
  dsimp only
  rt_leaf

theorem planComplex_no_valueError (s : Str) : planComplex s ≠ .raises .valueError := by
  intro h
  have := (planComplex_rt s).1 _ h
  cases this

theorem planCharLit_rt (s : Str) : ResTotal (planCharLit s) := by
  unfold planCharLit
  repeat rt_step

theorem planBinStr_rt (l : ClassId) (op : Str) (r : ClassId) (right : Bool) (s : Str) :
    ResTotal (planBinStr l op r right s) := by
  unfold planBinStr
  repeat rt_step

theorem planBinPercent_rt (l r : ClassId) (s : Str) : ResTotal (planBinPercent l r s) := by
  unfold planBinPercent
  repeat rt_step

theorem planSubscriptTriplet_rt (s : Str) : ResTotal (planSubscriptTriplet s) := by
  unfold planSubscriptTriplet
  repeat rt_step

theorem planAcSpec_rt (s : Str) : ResTotal (planAcSpec s) := by
  unfold planAcSpec
  repeat rt_step

theorem planAcImpliedDo_rt (s : Str) : ResTotal (planAcImpliedDo s) := by
  unfold planAcImpliedDo
  repeat rt_step

theorem planAcImpliedDoControl_rt (s : Str) : ResTotal (planAcImpliedDoControl s) := by
  unfold planAcImpliedDoControl
  split
  · rt_leaf
  apply ResTotal.tok_bind
  intro r
  dsimp only
  split
  · rt_leaf
  · refine ResTotal.ok (NoRaise.append ?_ ?_)
    · exact NoRaise.map_child _ _ _
    · simp

theorem planAltReturnSpec_rt (s : Str) : ResTotal (planAltReturnSpec s) := by
  unfold planAltReturnSpec
  repeat rt_step

/-- a generic-combinator class of the layer: `ofCombiSlot .crash = .raise TypeError` is unreachable -/
theorem combiPlan_rt (sp : Combi.Spec) (hg : specGood sp = true) (s : Str) : ResTotal (combiPlan sp s) :=
  resTotal_of_planTotal (combiPlan_total sp hg) s

theorem planDataRefOld_rt (s : Str) : ResTotal (planDataRefOld s) := by
  unfold planDataRefOld
  have h := combiPlan_rt specDataRefSeq (by decide) s
  constructor
  · intro e he
    rcases Res.bind_eq_raises he with h1 | ⟨sl, _, h1⟩
    · exact h.1 e h1
    · split at h1 <;> cases h1
  · intro slots hs
    obtain ⟨sl, h1, h2⟩ := Res.bind_eq_ok hs
    have hn := h.2 sl h1
    split at h2
    · cases h2; exact hn
    · cases h2; exact NoRaise.append hn (by simp)

/-- since /repo 2a636f5: the early `string_replace_map` (its `KeyError`), then the old matcher -/
theorem planDataRef_rt (s : Str) : ResTotal (planDataRef s) := by
  unfold planDataRef
  have h := planDataRefOld_rt s
  constructor
  · intro e he
    rcases Res.bind_eq_raises he with h1 | ⟨r, _, h1⟩
    · exact (tok_raises h1).1
    · split at h1
      · cases h1
      · exact h.1 e h1
  · intro slots hs
    obtain ⟨r, _, h2⟩ := Res.bind_eq_ok hs
    split at h2
    · cases h2
    · exact h.2 slots h2

/-! ### Intrinsic_Function_Reference -/

/-- the two explicit raises of `Intrinsic_Function_Reference.match` -/
def IntrRaise (iv : Str → Nat → SymTab.IntrRes) (e : Exc) : Prop :=
  (e = .child "InternalSyntaxError".toList ∧ ∃ name n, iv name n = .syntaxError) ∨
  (e = .keyError ∧ ∃ name n, iv name n = .keyErrorEscapes)

theorem planIntrinsic_not_raises (iv : Str → Nat → SymTab.IntrRes) (s : Str) (e : Exc) :
    planIntrinsic iv s ≠ .raises e := by
  intro h
  unfold planIntrinsic at h
  rcases Res.bind_eq_raises h with h1 | ⟨sl, _, h1⟩
  · exact combiPlan_not_raises _ _ _ h1
  · split at h1
    · dsimp only at h1
      generalize iv _ _ = v at h1
      cases v <;> cases h1
    · cases h1

/-- a `Slot.raise` among the slots of `Intrinsic_Function_Reference.match` is one of the table verdicts -/
theorem planIntrinsic_raise (iv : Str → Nat → SymTab.IntrRes) (s : Str) (slots : List Slot)
    (h : planIntrinsic iv s = .ok slots) (e : Exc) (he : Slot.raise e ∈ slots) : IntrRaise iv e := by
  unfold planIntrinsic at h
  obtain ⟨sl, h1, h2⟩ := Res.bind_eq_ok h
  have hn : NoRaise sl := (combiPlan_rt specIntrinsicCall (by decide) s).2 sl h1
  split at h2
  · rename_i c name rhs
    dsimp only at h2
    split at h2
    · cases h2; exact absurd he (hn.not_mem e)
    · cases h2
      rcases List.mem_append.1 he with h3 | h3
      · exact absurd h3 (hn.not_mem e)
      · simp at h3
    · rename_i hiv
      cases h2
      rcases List.mem_append.1 he with h3 | h3
      · exact absurd h3 (hn.not_mem e)
      · simp only [List.mem_singleton, Slot.raise.injEq] at h3
        exact .inl ⟨h3, _, _, hiv⟩
    · rename_i hiv
      cases h2
      rcases List.mem_append.1 he with h3 | h3
      · exact absurd h3 (hn.not_mem e)
      · simp only [List.mem_singleton, Slot.raise.injEq] at h3
        exact .inr ⟨h3, _, _, hiv⟩
  · cases h2; exact absurd he (hn.not_mem e)

theorem planIntLit_rt (s : Str) : ResTotal (planIntLit s) := planNumber_rt _ _
theorem planSignedIntLit_rt (s : Str) : ResTotal (planSignedIntLit s) := planNumber_rt _ _
theorem planRealLit_rt (s : Str) : ResTotal (planRealLit s) := planNumber_rt _ _
theorem planSignedRealLit_rt (s : Str) : ResTotal (planSignedRealLit s) := planNumber_rt _ _
theorem planLogicalLit_rt (s : Str) : ResTotal (planLogicalLit s) := planNumber_rt _ _
theorem planBinary_rt (s : Str) : ResTotal (planBinary s) := planBoz_rt _ _ _
theorem planOctal_rt (s : Str) : ResTotal (planOctal s) := planBoz_rt _ _ _
theorem planHex_rt (s : Str) : ResTotal (planHex s) := planBoz_rt _ _ _
theorem planAssignment_rt (s : Str) : ResTotal (planAssignment s) := planBinStr_rt _ _ _ _ _
theorem planProcComponentRef_rt (s : Str) : ResTotal (planProcComponentRef s) := planBinStr_rt _ _ _ _ _
theorem planDataPointerObject_rt (s : Str) : ResTotal (planDataPointerObject s) := planBinStr_rt _ _ _ _ _
theorem planTypeParamInquiry_rt (s : Str) : ResTotal (planTypeParamInquiry s) := planBinPercent_rt _ _ _
theorem planProcedureDesignator_rt (s : Str) : ResTotal (planProcedureDesignator s) := planBinPercent_rt _ _ _

/-! ## plans with a second attempt -/

/-- both attempts of a plan are total -/
def PlanT (p : Plan) : Prop := ResTotal p.first ∧ ∀ q, p.second = some q → ResTotal q

theorem PlanT.one {r : Res (List Slot)} (h : ResTotal r) : PlanT (.one r) :=
  ⟨h, fun _ hq => by cases hq⟩

theorem planArrayConstructor_planT (s : Str) : PlanT (planArrayConstructor s) := by
  refine ⟨combiPlan_rt _ (by decide) s, fun q hq => ?_⟩
  simp only [planArrayConstructor, Option.some.injEq] at hq
  subst hq
  exact combiPlan_rt _ (by decide) s

theorem planPointerAssignment_planT (s : Str) : PlanT (planPointerAssignment s) := by
  unfold planPointerAssignment
  split
  · rename_i e he
    have := (tok_raises he).1; subst this
    exact PlanT.one ResTotal.keyError
  · exact PlanT.one ResTotal.noMatch
  · split
    · exact PlanT.one ResTotal.noMatch
    · dsimp only
      split
      · split
        · exact PlanT.one ResTotal.noMatch
        · refine ⟨by rt_leaf, fun q hq => ?_⟩
          simp only [Option.some.injEq] at hq
          subst hq
          rt_leaf
      · refine ⟨by rt_leaf, fun q hq => ?_⟩
        simp only [Option.some.injEq] at hq
        subst hq
        rt_leaf

/-- `Plan.run` inversion: an exception escapes from the first attempt, or from the second one -/
theorem Plan.run_raises {o : Oracle Node} {p : Plan} {e : Exc} (h : p.run o = .raises e) :
    p.first.bind (runSlots o) = .raises e ∨ ∃ q, p.second = some q ∧ q.bind (runSlots o) = .raises e := by
  unfold Plan.run at h
  cases hx : p.first.bind (runSlots o) with
  | ok a => rw [hx] at h; cases h
  | noMatch =>
    rw [hx] at h
    dsimp only at h
    cases hq : p.second with
    | none => rw [hq] at h; cases h
    | some q => rw [hq] at h; exact .inr ⟨q, rfl, h⟩
  | raises e' => rw [hx] at h; exact .inl h

theorem Plan.run_ok_t {o : Oracle Node} {p : Plan} {items : List (Item Node)} (h : p.run o = .ok items) :
    p.first.bind (runSlots o) = .ok items ∨ ∃ q, p.second = some q ∧ q.bind (runSlots o) = .ok items := by
  unfold Plan.run at h
  cases hx : p.first.bind (runSlots o) with
  | ok a => rw [hx] at h; exact .inl h
  | noMatch =>
    rw [hx] at h
    dsimp only at h
    cases hq : p.second with
    | none => rw [hq] at h; cases h
    | some q => rw [hq] at h; exact .inr ⟨q, rfl, h⟩
  | raises e' => rw [hx] at h; cases h

/-- a total outcome run against an oracle: `KeyError` or a child's exception -/
theorem resTotal_run {o : Oracle Node} {x : Res (List Slot)} (hx : ResTotal x) {e : Exc}
    (h : x.bind (runSlots o) = .raises e) : e = .keyError ∨ ∃ c t, o.call c t = .raises e := by
  rcases Res.bind_eq_raises h with h1 | ⟨slots, h1, h2⟩
  · exact .inl (hx.1 e h1)
  · exact .inr (runSlots_noRaise_raises (hx.2 slots h1) h2)

theorem planT_run {o : Oracle Node} {p : Plan} (hp : PlanT p) {e : Exc} (h : p.run o = .raises e) :
    e = .keyError ∨ ∃ c t, o.call c t = .raises e := by
  rcases Plan.run_raises h with h1 | ⟨q, hq, h1⟩
  · exact resTotal_run hp.1 h1
  · exact resTotal_run (hp.2 q hq) h1

/-! ## the dispatch -/

/-- one step through an if-chain ending in `none` (`split` exceeds simp's step limit on the 45-deep chain) -/
theorem ite_goal {α : Type} {cnd : Prop} [Decidable cnd] {a b : Option α} {G : α → Prop}
    (h1 : cnd → ∀ p, a = some p → G p) (h2 : ∀ p, b = some p → G p) :
    ∀ p, (if cnd then a else b) = some p → G p := by
  intro p hp
  split at hp
  · exact h1 ‹_› p hp
  · exact h2 p hp

/-- every plan of `planOf` except the one of `Intrinsic_Function_Reference` is total -/
theorem planOf_planT (std : Std) (iv : Str → Nat → SymTab.IntrRes) (c : ClassId) (s : Str) (p : Plan)
    (h : planOf std iv c s = some p) (hc : c ≠ C.Intrinsic_Function_Reference) : PlanT p := by
  revert p
  unfold planOf
  repeat (refine ite_goal ?_ ?_; rotate_left)
  · intro p hp; cases hp
  all_goals
    intro hx p hp
    obtain rfl := Option.some.inj hp
    with_reducible first
      | exact planArrayConstructor_planT _
      | exact planPointerAssignment_planT _
      | exact absurd (eq_of_beq hx) hc
      | (apply PlanT.one
         first
          | exact planName_rt _
          | exact planIntLit_rt _
          | exact planSignedIntLit_rt _
          | exact planRealLit_rt _
          | exact planSignedRealLit_rt _
          | exact planLogicalLit_rt _
          | exact planComplex_rt _
          | exact planCharLit_rt _
          | exact planBinary_rt _
          | exact planOctal_rt _
          | exact planHex_rt _
          | exact planTypeName_rt _
          | exact planAssignment_rt _
          | exact planTypeParamInquiry_rt _
          | exact planProcComponentRef_rt _
          | exact planDataPointerObject_rt _
          | exact planProcedureDesignator_rt _
          | exact planSubscriptTriplet_rt _
          | exact planAcSpec_rt _
          | exact planAcImpliedDo_rt _
          | exact planAcImpliedDoControl_rt _
          | exact planAltReturnSpec_rt _
          | exact planDataRef_rt _
          | exact planIntrinsicName_rt _ _
          | exact combiPlan_rt _ (by decide) _)

theorem planOf_intrinsic (std : Std) (iv : Str → Nat → SymTab.IntrRes) (s : Str) :
    planOf std iv C.Intrinsic_Function_Reference s = some (.one (planIntrinsic iv s)) := rfl

/-- `Intrinsic_Function_Reference.match` : exactly three sources of an escaping exception -/
theorem match_total_intrinsic (std : Std) (iv : Str → Nat → SymTab.IntrRes) (o : Oracle Node) (s : Str) (e : Exc)
    (h : matchOf std iv o C.Intrinsic_Function_Reference s = some (.raises e)) :
    (e = .child "InternalSyntaxError".toList ∧ ∃ name n, iv name n = .syntaxError) ∨
    (e = .keyError ∧ ∃ name n, iv name n = .keyErrorEscapes) ∨
    ∃ c' t, o.call c' t = .raises e := by
  unfold matchOf at h
  rw [planOf_intrinsic] at h
  have h1 := Res.map_eq_raises (Option.some.inj h)
  rcases Plan.run_raises h1 with h2 | ⟨q, hq, _⟩
  · rcases Res.bind_eq_raises h2 with h3 | ⟨slots, h3, h4⟩
    · exact absurd h3 (planIntrinsic_not_raises iv s e)
    · rcases runSlots_raises h4 with h5 | ⟨c, t, _, h5⟩
      · rcases planIntrinsic_raise iv s slots h3 e h5 with h6 | h6
        · exact .inl h6
        · exact .inr (.inl h6)
      · exact .inr (.inr ⟨c, t, h5⟩)
  · cases hq

/-- **match_total** for EVERY class of the operand layer (both standards, any intrinsic-table decision `iv`, any
    oracle): an exception escaping from `cls.match(string)` is
    * the `KeyError` of string_replace_map's un-nesting loop (or, for `Intrinsic_Function_Reference`, the `KeyError`
      of the `generic_function_names[...]` lookup: see `match_total_intrinsic`), or
    * the `InternalSyntaxError` of `Intrinsic_Function_Reference.match` (wrong number of arguments), or
    * an exception raised inside a child call.
    In particular NO `ValueError` (Complex_Literal_Constant's unpacking), `TypeError` (a combinator calling a
    non-callable), `IndexError`, `AssertionError` or `InternalError` originates in a `match` of this layer. -/
theorem match_total (std : Std) (iv : Str → Nat → SymTab.IntrRes) (o : Oracle Node) (c : ClassId) (s : Str)
    (e : Exc) (h : matchOf std iv o c s = some (.raises e)) :
    e = .keyError ∨
    (c = C.Intrinsic_Function_Reference ∧ e = .child "InternalSyntaxError".toList ∧
      ∃ name n, iv name n = .syntaxError) ∨
    ∃ c' t, o.call c' t = .raises e := by
  by_cases hc : c = C.Intrinsic_Function_Reference
  · subst hc
    rcases match_total_intrinsic std iv o s e h with h1 | h1 | h1
    · exact .inr (.inl ⟨rfl, h1⟩)
    · exact .inl h1.1
    · exact .inr (.inr h1)
  · unfold matchOf at h
    cases hp : planOf std iv c s with
    | none => rw [hp] at h; cases h
    | some p =>
      rw [hp] at h
      have h1 := Res.map_eq_raises (Option.some.inj h)
      rcases planT_run (planOf_planT std iv c s p hp hc) h1 with h2 | h2
      · exact .inl h2
      · exact .inr (.inr h2)

/-- with children that let nothing escape and a table decision that never says "syntax error" / "KeyError", only
    string_replace_map's `KeyError` is left -/
theorem match_total_closed (std : Std) (iv : Str → Nat → SymTab.IntrRes) (o : Oracle Node) (ho : OracleTotal o)
    (hiv : ∀ name n, iv name n ≠ .syntaxError) (c : ClassId) (s : Str) (e : Exc)
    (h : matchOf std iv o c s = some (.raises e)) : e = .keyError := by
  rcases match_total std iv o c s e h with h1 | ⟨_, _, name, n, h1⟩ | ⟨c', t, h1⟩
  · exact h1
  · exact absurd h1 (hiv name n)
  · exact absurd h1 (ho c' t e)

/-! ### non-vacuity -/

/-- an oracle whose `Expr` raises -/
def boomO : Oracle Str :=
  { echoO with call := fun c t => if c == C.Expr then .raises (.child "boom".toList) else .ok t }

/-- the child's exception escapes from `Parenthesis.match` -/
example : matchOf .f2003 (ivNoScope .f2003) boomO C.Parenthesis "(x)".toList
    = some (.raises (.child "boom".toList)) := by decide +kernel

def boomO2 : Oracle Str :=
  { echoO with call := fun c t => if c == C.Ac_Spec then .raises (.child "boom".toList) else .ok t }

/-- … and from the SECOND attempt of `Array_Constructor.match` (`[ … ]`) -/
example : matchOf .f2003 (ivNoScope .f2003) boomO2 C.Array_Constructor "[x]".toList
    = some (.raises (.child "boom".toList)) := by decide +kernel

/-- a toy table decision: two arguments are a syntax error -/
def ivToy : Str → Nat → SymTab.IntrRes := fun _ n => if n == 2 then .syntaxError else .isIntrinsic

/-- `sin(x, y)` : `InternalSyntaxError` escapes (after both child calls) -/
example : matchOf .f2003 ivToy echoO C.Intrinsic_Function_Reference "sin(x, y)".toList
    = some (.raises (.child "InternalSyntaxError".toList)) := by decide +kernel

example : ivToy "sin".toList 2 = .syntaxError := rfl

/-- `match_total_closed`'s hypotheses are satisfiable -/
example : OracleTotal echoO := by intro c t e h; cases h
example : ∀ name n, (fun (_ : Str) (_ : Nat) => SymTab.IntrRes.isIntrinsic) name n ≠ .syntaxError := by
  intro _ _ h; cases h

/-! ## the `tostr` side: `str(node)` of a freshly matched node does not raise -/

theorem runSlots_length {o : Oracle Node} : ∀ {slots : List Slot} {items : List (Item Node)},
    runSlots o slots = .ok items → items.length = slots.length
  | [], items, h => by cases h; rfl
  | sl :: ss, items, h => by
    obtain ⟨i, is, rfl, _, his⟩ := runSlots_cons_ok h
    simp [runSlots_length his]

/-- the shape of a successful level-A match -/
theorem matchOf_ok_inv {std : Std} {iv : Str → Nat → SymTab.IntrRes} {o : Oracle Node} {c : ClassId} {s : Str}
    {items : List (Item Node)} (h : matchOf std iv o c s = some (.ok items)) :
    ∃ p slots its, planOf std iv c s = some p ∧ (p.first = .ok slots ∨ p.second = some (.ok slots)) ∧
      runSlots o slots = .ok its ∧ items = arrangeOf c its := by
  unfold matchOf at h
  cases hp : planOf std iv c s with
  | none => rw [hp] at h; cases h
  | some p =>
    rw [hp] at h
    obtain ⟨its, h1, h2⟩ := Res.map_eq_ok (Option.some.inj h)
    rcases Plan.run_ok_t h1 with h3 | ⟨q, hq, h3⟩
    · obtain ⟨slots, h4, h5⟩ := Res.bind_eq_ok h3
      exact ⟨p, slots, its, rfl, .inl h4, h5, h2.symm⟩
    · obtain ⟨slots, h4, h5⟩ := Res.bind_eq_ok h3
      subst h4
      exact ⟨p, slots, its, rfl, .inr hq, h5, h2.symm⟩

/-- the workhorse: the plan fixes the number of items (up to `Q`), `tostr` accepts that number -/
theorem tostr_total_of {std : Std} {iv : Str → Nat → SymTab.IntrRes} {o : Oracle Node} {c : ClassId} {s : Str}
    {items : List (Item Node)} (Q : Nat → Prop) (p : Plan) (hp : planOf std iv c s = some p)
    (hf : ∀ its : List (Item Node), Q its.length → ∃ t, tostrOf o c (arrangeOf c its) = .ok t)
    (hl1 : ∀ slots, p.first = .ok slots → Q slots.length)
    (hl2 : ∀ slots, p.second = some (.ok slots) → Q slots.length)
    (h : matchOf std iv o c s = some (.ok items)) : ∃ t, tostrOf o c items = .ok t := by
  obtain ⟨p', slots, its, hp', hsl, hrun, rfl⟩ := matchOf_ok_inv h
  rw [hp] at hp'
  obtain rfl := Option.some.inj hp'
  apply hf
  rw [runSlots_length hrun]
  rcases hsl with h1 | h1
  · exact hl1 _ h1
  · exact hl2 _ h1

/-- close `h : (nest of ifs / matches ending in `.ok [literal]` / `.noMatch`) = .ok slots ⊢ slots.length = n` -/
macro "len_tac" h:ident : tactic =>
  `(tactic| ((repeat' (first | split at $h:ident | dsimp only at $h:ident)) <;> first | (cases $h:ident; rfl) | cases $h:ident))

theorem planNumber_len {scan : Str → Option (Str × Option Str)} {s : Str} {slots : List Slot}
    (h : planNumber scan s = .ok slots) : slots.length = 2 := by
  unfold planNumber at h
  len_tac h

theorem planName_len {s : Str} {slots : List Slot} (h : planName s = .ok slots) : slots.length = 1 := by
  unfold planName at h
  len_tac h

theorem planTypeName_len {s : Str} {slots : List Slot} (h : planTypeName s = .ok slots) : slots.length = 1 := by
  unfold planTypeName at h
  split at h
  · cases h
  · exact planName_len h

theorem planBoz_len {l : Char} {d : Char → Bool} {s : Str} {slots : List Slot} (h : planBoz l d s = .ok slots) :
    slots.length = 1 := by
  unfold planBoz at h
  len_tac h

theorem planIntrinsicName_len {std : Std} {s : Str} {slots : List Slot} (h : planIntrinsicName std s = .ok slots) :
    slots.length = 1 := by
  unfold planIntrinsicName at h
  len_tac h

theorem planComplex_len {s : Str} {slots : List Slot} (h : planComplex s = .ok slots) : slots.length = 2 := by
  unfold planComplex at h
  len_tac h

theorem planBinStr_len {l : ClassId} {op : Str} {r : ClassId} {right : Bool} {s : Str} {slots : List Slot}
    (h : planBinStr l op r right s = .ok slots) : slots.length = 3 := by
  unfold planBinStr at h
  obtain ⟨r, _, h⟩ := Res.bind_eq_ok h
  len_tac h

theorem planBinPercent_len {l r : ClassId} {s : Str} {slots : List Slot}
    (h : planBinPercent l r s = .ok slots) : slots.length = 3 := by
  unfold planBinPercent at h
  obtain ⟨r, _, h⟩ := Res.bind_eq_ok h
  len_tac h

theorem planSubscriptTriplet_len {s : Str} {slots : List Slot} (h : planSubscriptTriplet s = .ok slots) :
    slots.length = 3 := by
  unfold planSubscriptTriplet at h
  obtain ⟨r, _, h⟩ := Res.bind_eq_ok h
  dsimp only at h
  split at h
  · cases h; rfl
  · cases h; rfl
  · cases h

theorem planAcSpec_len {s : Str} {slots : List Slot} (h : planAcSpec s = .ok slots) : slots.length = 2 := by
  unfold planAcSpec at h
  split at h
  · cases h; rfl
  · obtain ⟨r, _, h⟩ := Res.bind_eq_ok h
    len_tac h

theorem planAcImpliedDo_len {s : Str} {slots : List Slot} (h : planAcImpliedDo s = .ok slots) :
    slots.length = 2 := by
  unfold planAcImpliedDo at h
  split at h
  · cases h
  split at h
  · cases h
  obtain ⟨r, _, h⟩ := Res.bind_eq_ok h
  len_tac h

theorem planAcImpliedDoControl_len {s : Str} {slots : List Slot} (h : planAcImpliedDoControl s = .ok slots) :
    0 < slots.length := by
  unfold planAcImpliedDoControl at h
  split at h
  · cases h
  obtain ⟨r, _, h⟩ := Res.bind_eq_ok h
  dsimp only at h
  split at h
  · cases h
  · cases h; simp

theorem planAltReturnSpec_len {s : Str} {slots : List Slot} (h : planAltReturnSpec s = .ok slots) :
    slots.length = 1 := by
  unfold planAltReturnSpec at h
  len_tac h

theorem planPointerAssignment_len {s : Str} {slots : List Slot} :
    ((planPointerAssignment s).first = .ok slots → slots.length = 3) ∧
    ((planPointerAssignment s).second = some (.ok slots) → slots.length = 3) := by
  unfold planPointerAssignment
  split
  · exact ⟨fun h => (by cases h), fun h => (by cases h)⟩
  · exact ⟨fun h => (by cases h), fun h => (by cases h)⟩
  · split
    · exact ⟨fun h => (by cases h), fun h => (by cases h)⟩
    · dsimp only
      split
      · split
        · exact ⟨fun h => (by cases h), fun h => (by cases h)⟩
        · exact ⟨fun h => (by cases h; rfl), fun h => (by cases h; rfl)⟩
      · exact ⟨fun h => (by cases h; rfl), fun h => (by cases h; rfl)⟩

/-- `BracketBase.match` returns `(left, obj, right)` with non-empty brackets -/
theorem bracketSplit_shape {b : Str} {c : Option ClassId} {r : Bool} {s : Str} {cs : List Combi.Slot}
    (h : Combi.bracketSplit b c r s = some cs) :
    ∃ l m rr, cs = [.str l, m, .str rr] ∧ l ≠ [] ∧ rr ≠ [] ∧ m ≠ .crash ∧ m ≠ .fail ∧ (∀ t, m ≠ .str t) := by
  unfold Combi.bracketSplit at h
  split at h
  · cases h
  split at h
  · cases h
  dsimp only at h
  split at h
  · cases h
  split at h
  · cases h
  rename_i hne
  split at h
  · cases h
  rename_i hodd
  have hlen : 2 ≤ (Combi.noSpaces b).length := by
    have h1 : (Combi.noSpaces b).length ≠ 0 := by
      intro h0
      exact hne (by simp [List.length_eq_zero_iff.1 h0])
    have h2 : (Combi.noSpaces b).length % 2 ≠ 1 := by simpa using hodd
    omega
  have hl : (Combi.noSpaces b).take ((Combi.noSpaces b).length / 2) ≠ [] := by
    intro h0
    have := congrArg List.length h0
    rw [List.length_take, List.length_nil] at this
    omega
  have hr : (Combi.noSpaces b).drop ((Combi.noSpaces b).length - (Combi.noSpaces b).length / 2) ≠ [] := by
    intro h0
    have := congrArg List.length h0
    rw [List.length_drop, List.length_nil] at this
    omega
  split at h
  · cases h
  split at h
  · cases h
  split at h
  · cases h
  split at h
  · cases h
    exact ⟨_, _, _, rfl, hl, hr, by simp, by simp, by simp⟩
  · split at h
    · cases h
      exact ⟨_, _, _, rfl, hl, hr, by simp, by simp, by simp⟩
    · cases h

/-- `BracketBase.tostr` after a `BracketBase.match`: neither `InternalError` -/
theorem bracket_tostr_total {o : Oracle Node} {b : Str} {c : Option ClassId} {r : Bool} {s : Str}
    {its : List (Item Node)} (sp' : Combi.Spec) (hsp' : ∃ b' c' r', sp' = .bracket b' c' r')
    (h : (combiPlan (.bracket b c r) s).bind (runSlots o) = .ok its) : ∃ t, combiStr o sp' its = .ok t := by
  obtain ⟨cs, hsp, hr⟩ := combiPlan_bind_ok h
  obtain ⟨l, m, rr, rfl, hl, hrr, hm1, hm2, hm3⟩ := bracketSplit_shape (show Combi.bracketSplit b c r s = some _ from hsp)
  obtain ⟨b', c', r', rfl⟩ := hsp'
  simp only [List.map_cons, List.map_nil] at hr
  obtain ⟨i, is, rfl, hi, his⟩ := runSlots_cons_ok hr
  obtain ⟨j, js, rfl, hj, hjs⟩ := runSlots_cons_ok his
  obtain ⟨k, ks, rfl, hk, hks⟩ := runSlots_cons_ok hjs
  obtain rfl := runSlots_nil_ok hks
  obtain rfl := runSlot_str_ok (by simpa [ofCombiSlot] using hi)
  obtain rfl := runSlot_str_ok (by simpa [ofCombiSlot] using hk)
  have hle : l.isEmpty = false := by cases l <;> simp_all
  have hre : rr.isEmpty = false := by cases rr <;> simp_all
  cases m with
  | crash => exact absurd rfl hm1
  | fail => exact absurd rfl hm2
  | str t => exact absurd rfl (hm3 t)
  | none =>
    obtain rfl := runSlot_none_ok (by simpa [ofCombiSlot] using hj)
    simp [combiStr, Combi.Spec.str, Combi.bracketStr, toCombiItem, hle, hre]
  | child cc t =>
    obtain ⟨n, rfl, _⟩ := runSlot_child_ok (by simpa [ofCombiSlot] using hj)
    simp [combiStr, Combi.Spec.str, Combi.bracketStr, toCombiItem, hle, hre]

/-- every inherited `tostr` except `BracketBase`'s is total on ANY item list -/
theorem combiStr_total_nonbracket (o : Oracle Node) (sp : Combi.Spec) (its : List (Item Node))
    (hsp : (∃ a b, sp = .seq a b) ∨ (∃ a b c d, sp = .call a b c d) ∨ (∃ a b c d, sp = .kv a b c d) ∨
      (∃ a b c d, sp = .sep a b c d)) : ∃ t, combiStr o sp its = .ok t := by
  rcases hsp with ⟨a, b, rfl⟩ | ⟨a, b, c, d, rfl⟩ | ⟨a, b, c, d, rfl⟩ | ⟨a, b, c, d, rfl⟩ <;>
    simp [combiStr, Combi.Spec.str]

/-- the inherited `tostr`s that cannot raise whatever the items are -/
def strTotal : Combi.Spec → Bool
  | .seq _ _ => true
  | .call _ _ _ _ => true
  | .kv _ _ _ _ => true
  | .sep _ _ _ _ => true
  | _ => false

theorem combiStr_total (o : Oracle Node) (sp : Combi.Spec) (h : strTotal sp = true) (its : List (Item Node)) :
    ∃ t, combiStr o sp its = .ok t := by
  apply combiStr_total_nonbracket
  cases sp <;> simp_all [strTotal]

/-- a class printing with `SequenceBase/CallBase/KeywordValueBase/SeparatorBase.tostr`: total on any items -/
theorem tostrOf_nonbracket (o : Oracle Node) (c : ClassId) (sp : Combi.Spec) (hs : specOf c = some sp)
    (h : strTotal sp = true) (items : List (Item Node)) : ∃ t, tostrOf o c items = .ok t := by
  unfold tostrOf
  rw [hs]
  exact combiStr_total o sp h items

/-! ### the hand-written `tostr`s accept the number of items their `match` produces -/

theorem tostrString_len (o : Oracle Node) (its : List (Item Node)) (h : its.length = 1) :
    ∃ t, tostrString o its = .ok t := by
  rcases its with _ | ⟨a, _ | ⟨b, l⟩⟩ <;> simp at h
  exact ⟨_, rfl⟩

theorem tostrNumber_len (o : Oracle Node) (its : List (Item Node)) (h : its.length = 2) :
    ∃ t, tostrNumber o its = .ok t := by
  rcases its with _ | ⟨a, _ | ⟨b, _ | ⟨c, l⟩⟩⟩ <;> simp at h
  cases b <;> exact ⟨_, rfl⟩

theorem tostrPair_len (o : Oracle Node) (its : List (Item Node)) (h : its.length = 2) :
    ∃ t, tostrPair o its = .ok t := by
  rcases its with _ | ⟨a, _ | ⟨b, _ | ⟨c, l⟩⟩⟩ <;> simp at h
  exact ⟨_, rfl⟩

theorem tostrAcSpec_len (o : Oracle Node) (its : List (Item Node)) (h : its.length = 2) :
    ∃ t, tostrAcSpec o its = .ok t := by
  rcases its with _ | ⟨a, _ | ⟨b, _ | ⟨c, l⟩⟩⟩ <;> simp at h
  cases a <;> cases b <;> exact ⟨_, rfl⟩

theorem tostrBin_len (o : Oracle Node) (right : Bool) (its : List (Item Node)) (h : its.length = 3) :
    ∃ t, tostrBin o (arrangeBin right its) = .ok t := by
  rcases its with _ | ⟨a, _ | ⟨b, _ | ⟨c, _ | ⟨d, l⟩⟩⟩⟩ <;> simp at h
  cases right <;> exact ⟨_, rfl⟩

theorem tostrSubscriptTriplet_len (o : Oracle Node) (its : List (Item Node)) (h : its.length = 3) :
    ∃ t, tostrSubscriptTriplet o (arrangeTriplet its) = .ok t := by
  rcases its with _ | ⟨a, _ | ⟨b, _ | ⟨c, _ | ⟨d, l⟩⟩⟩⟩ <;> simp at h
  exact ⟨_, rfl⟩

theorem tostrAltReturnSpec_len (o : Oracle Node) (its : List (Item Node)) (h : its.length = 1) :
    ∃ t, tostrAltReturnSpec o its = .ok t := by
  rcases its with _ | ⟨a, _ | ⟨b, l⟩⟩ <;> simp at h
  exact ⟨_, rfl⟩

theorem tostrPointerAssignment_len (o : Oracle Node) (its : List (Item Node)) (h : its.length = 3) :
    ∃ t, tostrPointerAssignment o its = .ok t := by
  rcases its with _ | ⟨a, _ | ⟨b, _ | ⟨c, _ | ⟨d, l⟩⟩⟩⟩ <;> simp at h
  cases b <;> exact ⟨_, rfl⟩

theorem tostrAcControl_len (o : Oracle Node) (its : List (Item Node)) (h : 0 < its.length) :
    ∃ t, tostrAcControl o (arrangeAcControl its) = .ok t := by
  unfold arrangeAcControl
  cases hl : its.getLast? with
  | none =>
    have : its = [] := List.getLast?_eq_none_iff.1 hl
    subst this; simp at h
  | some v => exact ⟨_, rfl⟩

theorem planAssignment_len {s : Str} {slots : List Slot} (h : planAssignment s = .ok slots) : slots.length = 3 :=
  planBinStr_len h
theorem planProcComponentRef_len {s : Str} {slots : List Slot} (h : planProcComponentRef s = .ok slots) :
    slots.length = 3 := planBinStr_len h
theorem planDataPointerObject_len {s : Str} {slots : List Slot} (h : planDataPointerObject s = .ok slots) :
    slots.length = 3 := planBinStr_len h

/-! ### per class -/

section
variable (std : Std) (iv : Str → Nat → SymTab.IntrRes) (o : Oracle Node) (s : Str) (items : List (Item Node))

theorem Name_tostr_total (h : matchOf std iv o C.Name s = some (.ok items)) :
    ∃ t, tostrOf o C.Name items = .ok t :=
  tostr_total_of (· = 1) (.one (planName s)) rfl (fun its hl => tostrString_len o its hl)
    (fun _ h => planName_len h) (fun _ h => by cases h) h

theorem Type_Name_tostr_total (h : matchOf std iv o C.Type_Name s = some (.ok items)) :
    ∃ t, tostrOf o C.Type_Name items = .ok t :=
  tostr_total_of (· = 1) (.one (planTypeName s)) rfl (fun its hl => tostrString_len o its hl)
    (fun _ h => planTypeName_len h) (fun _ h => by cases h) h

theorem Binary_Constant_tostr_total (h : matchOf std iv o C.Binary_Constant s = some (.ok items)) :
    ∃ t, tostrOf o C.Binary_Constant items = .ok t :=
  tostr_total_of (· = 1) (.one (planBinary s)) rfl (fun its hl => tostrString_len o its hl)
    (fun _ h => planBoz_len h) (fun _ h => by cases h) h

theorem Octal_Constant_tostr_total (h : matchOf std iv o C.Octal_Constant s = some (.ok items)) :
    ∃ t, tostrOf o C.Octal_Constant items = .ok t :=
  tostr_total_of (· = 1) (.one (planOctal s)) rfl (fun its hl => tostrString_len o its hl)
    (fun _ h => planBoz_len h) (fun _ h => by cases h) h

theorem Hex_Constant_tostr_total (h : matchOf std iv o C.Hex_Constant s = some (.ok items)) :
    ∃ t, tostrOf o C.Hex_Constant items = .ok t :=
  tostr_total_of (· = 1) (.one (planHex s)) rfl (fun its hl => tostrString_len o its hl)
    (fun _ h => planBoz_len h) (fun _ h => by cases h) h

theorem Intrinsic_Name_tostr_total (h : matchOf std iv o C.Intrinsic_Name s = some (.ok items)) :
    ∃ t, tostrOf o C.Intrinsic_Name items = .ok t :=
  tostr_total_of (· = 1) (.one (planIntrinsicName std s)) rfl (fun its hl => tostrString_len o its hl)
    (fun _ h => planIntrinsicName_len h) (fun _ h => by cases h) h

theorem Int_Literal_Constant_tostr_total (h : matchOf std iv o C.Int_Literal_Constant s = some (.ok items)) :
    ∃ t, tostrOf o C.Int_Literal_Constant items = .ok t :=
  tostr_total_of (· = 2) (.one (planIntLit s)) rfl (fun its hl => tostrNumber_len o its hl)
    (fun _ h => planNumber_len h) (fun _ h => by cases h) h

theorem Signed_Int_Literal_Constant_tostr_total (h : matchOf std iv o C.Signed_Int_Literal_Constant s = some (.ok items)) :
    ∃ t, tostrOf o C.Signed_Int_Literal_Constant items = .ok t :=
  tostr_total_of (· = 2) (.one (planSignedIntLit s)) rfl (fun its hl => tostrNumber_len o its hl)
    (fun _ h => planNumber_len h) (fun _ h => by cases h) h

theorem Real_Literal_Constant_tostr_total (h : matchOf std iv o C.Real_Literal_Constant s = some (.ok items)) :
    ∃ t, tostrOf o C.Real_Literal_Constant items = .ok t :=
  tostr_total_of (· = 2) (.one (planRealLit s)) rfl (fun its hl => tostrNumber_len o its hl)
    (fun _ h => planNumber_len h) (fun _ h => by cases h) h

theorem Signed_Real_Literal_Constant_tostr_total (h : matchOf std iv o C.Signed_Real_Literal_Constant s = some (.ok items)) :
    ∃ t, tostrOf o C.Signed_Real_Literal_Constant items = .ok t :=
  tostr_total_of (· = 2) (.one (planSignedRealLit s)) rfl (fun its hl => tostrNumber_len o its hl)
    (fun _ h => planNumber_len h) (fun _ h => by cases h) h

theorem Logical_Literal_Constant_tostr_total (h : matchOf std iv o C.Logical_Literal_Constant s = some (.ok items)) :
    ∃ t, tostrOf o C.Logical_Literal_Constant items = .ok t :=
  tostr_total_of (· = 2) (.one (planLogicalLit s)) rfl (fun its hl => tostrNumber_len o its hl)
    (fun _ h => planNumber_len h) (fun _ h => by cases h) h

theorem Complex_Literal_Constant_tostr_total (h : matchOf std iv o C.Complex_Literal_Constant s = some (.ok items)) :
    ∃ t, tostrOf o C.Complex_Literal_Constant items = .ok t :=
  tostr_total_of (· = 2) (.one (planComplex s)) rfl (fun its hl => tostrPair_len o its hl)
    (fun _ h => planComplex_len h) (fun _ h => by cases h) h

theorem Ac_Implied_Do_tostr_total (h : matchOf std iv o C.Ac_Implied_Do s = some (.ok items)) :
    ∃ t, tostrOf o C.Ac_Implied_Do items = .ok t :=
  tostr_total_of (· = 2) (.one (planAcImpliedDo s)) rfl (fun its hl => tostrPair_len o its hl)
    (fun _ h => planAcImpliedDo_len h) (fun _ h => by cases h) h

theorem Ac_Spec_tostr_total (h : matchOf std iv o C.Ac_Spec s = some (.ok items)) :
    ∃ t, tostrOf o C.Ac_Spec items = .ok t :=
  tostr_total_of (· = 2) (.one (planAcSpec s)) rfl (fun its hl => tostrAcSpec_len o its hl)
    (fun _ h => planAcSpec_len h) (fun _ h => by cases h) h

theorem Ac_Implied_Do_Control_tostr_total (h : matchOf std iv o C.Ac_Implied_Do_Control s = some (.ok items)) :
    ∃ t, tostrOf o C.Ac_Implied_Do_Control items = .ok t :=
  tostr_total_of (0 < ·) (.one (planAcImpliedDoControl s)) rfl (fun its hl => tostrAcControl_len o its hl)
    (fun _ h => planAcImpliedDoControl_len h) (fun _ h => by cases h) h

theorem Subscript_Triplet_tostr_total (h : matchOf std iv o C.Subscript_Triplet s = some (.ok items)) :
    ∃ t, tostrOf o C.Subscript_Triplet items = .ok t :=
  tostr_total_of (· = 3) (.one (planSubscriptTriplet s)) rfl (fun its hl => tostrSubscriptTriplet_len o its hl)
    (fun _ h => planSubscriptTriplet_len h) (fun _ h => by cases h) h

theorem Alt_Return_Spec_tostr_total (h : matchOf std iv o C.Alt_Return_Spec s = some (.ok items)) :
    ∃ t, tostrOf o C.Alt_Return_Spec items = .ok t :=
  tostr_total_of (· = 1) (.one (planAltReturnSpec s)) rfl (fun its hl => tostrAltReturnSpec_len o its hl)
    (fun _ h => planAltReturnSpec_len h) (fun _ h => by cases h) h

theorem Assignment_Stmt_tostr_total (h : matchOf std iv o C.Assignment_Stmt s = some (.ok items)) :
    ∃ t, tostrOf o C.Assignment_Stmt items = .ok t :=
  tostr_total_of (· = 3) (.one (planAssignment s)) rfl (fun its hl => tostrBin_len o false its hl)
    (fun _ h => planAssignment_len h) (fun _ h => by cases h) h

theorem Proc_Component_Ref_tostr_total (h : matchOf std iv o C.Proc_Component_Ref s = some (.ok items)) :
    ∃ t, tostrOf o C.Proc_Component_Ref items = .ok t :=
  tostr_total_of (· = 3) (.one (planProcComponentRef s)) rfl (fun its hl => tostrBin_len o true its hl)
    (fun _ h => planProcComponentRef_len h) (fun _ h => by cases h) h

theorem Data_Pointer_Object_tostr_total (h : matchOf std iv o C.Data_Pointer_Object s = some (.ok items)) :
    ∃ t, tostrOf o C.Data_Pointer_Object items = .ok t :=
  tostr_total_of (· = 3) (.one (planDataPointerObject s)) rfl (fun its hl => tostrBin_len o true its hl)
    (fun _ h => planDataPointerObject_len h) (fun _ h => by cases h) h

theorem Type_Param_Inquiry_tostr_total (h : matchOf std iv o C.Type_Param_Inquiry s = some (.ok items)) :
    ∃ t, tostrOf o C.Type_Param_Inquiry items = .ok t :=
  tostr_total_of (· = 3) (.one (planTypeParamInquiry s)) rfl (fun its hl => tostrBin_len o true its hl)
    (fun _ h => planBinPercent_len h) (fun _ h => by cases h) h

theorem Procedure_Designator_tostr_total (h : matchOf std iv o C.Procedure_Designator s = some (.ok items)) :
    ∃ t, tostrOf o C.Procedure_Designator items = .ok t :=
  tostr_total_of (· = 3) (.one (planProcedureDesignator s)) rfl (fun its hl => tostrBin_len o true its hl)
    (fun _ h => planBinPercent_len h) (fun _ h => by cases h) h

theorem Pointer_Assignment_Stmt_tostr_total (h : matchOf std iv o C.Pointer_Assignment_Stmt s = some (.ok items)) :
    ∃ t, tostrOf o C.Pointer_Assignment_Stmt items = .ok t :=
  tostr_total_of (· = 3) (planPointerAssignment s) rfl (fun its hl => tostrPointerAssignment_len o its hl)
    (fun _ h => planPointerAssignment_len.1 h) (fun _ h => planPointerAssignment_len.2 h) h

theorem Parenthesis_tostr_total (h : matchOf std iv o C.Parenthesis s = some (.ok items)) :
    ∃ t, tostrOf o C.Parenthesis items = .ok t := by
  obtain ⟨p, slots, its, hp, hsl, hrun, rfl⟩ := matchOf_ok_inv h
  obtain rfl : Plan.one (combiPlan specParenthesis s) = p := Option.some.inj hp
  rcases hsl with h1 | h1
  · have h2 : (combiPlan specParenthesis s).bind (runSlots o) = .ok items := by
      have h1' : combiPlan specParenthesis s = .ok slots := h1
      rw [h1']; exact hrun
    exact bracket_tostr_total specParenthesis ⟨_, _, _, rfl⟩ h2
  · cases h1

theorem Array_Constructor_tostr_total (h : matchOf std iv o C.Array_Constructor s = some (.ok items)) :
    ∃ t, tostrOf o C.Array_Constructor items = .ok t := by
  obtain ⟨p, slots, its, hp, hsl, hrun, rfl⟩ := matchOf_ok_inv h
  obtain rfl : planArrayConstructor s = p := Option.some.inj hp
  rcases hsl with h1 | h1
  · have h2 : (combiPlan specArrayCtor1 s).bind (runSlots o) = .ok items := by
      have h1' : combiPlan specArrayCtor1 s = .ok slots := h1
      rw [h1']; exact hrun
    exact bracket_tostr_total specArrayCtor1 ⟨_, _, _, rfl⟩ h2
  · have h2 : (combiPlan specArrayCtor2 s).bind (runSlots o) = .ok items := by
      have h1' : combiPlan specArrayCtor2 s = .ok slots := by
        simpa [planArrayConstructor] using h1
      rw [h1']; exact hrun
    exact bracket_tostr_total specArrayCtor1 ⟨_, _, _, rfl⟩ h2

end

/-- **tostrOf_total** : `str(node)` of a node just built by `cls.match(string)` does not raise, for EVERY class of
    the layer except `Char_Literal_Constant` (no `IndexError` from `self.items[k]`, no `TypeError` from the `%`
    formatting, none of `BracketBase.tostr`'s `InternalError`s). -/
theorem tostrOf_total (std : Std) (iv : Str → Nat → SymTab.IntrRes) (o : Oracle Node) (c : ClassId) (s : Str)
    (items : List (Item Node)) (hc : c ≠ C.Char_Literal_Constant)
    (h : matchOf std iv o c s = some (.ok items)) : ∃ t, tostrOf o c items = .ok t := by
  have key : ∀ p, planOf std iv c s = some p → ∃ t, tostrOf o c items = .ok t := by
    unfold planOf
    repeat (refine ite_goal ?_ ?_; rotate_left)
    · intro p hp; cases hp
    all_goals
      intro hx p _
      first
        | exact absurd (eq_of_beq hx) hc
        | (obtain rfl := eq_of_beq hx
           with_reducible first
            | exact tostrOf_nonbracket o _ _ rfl rfl items
            | exact Name_tostr_total std iv o s items h
            | exact Type_Name_tostr_total std iv o s items h
            | exact Binary_Constant_tostr_total std iv o s items h
            | exact Octal_Constant_tostr_total std iv o s items h
            | exact Hex_Constant_tostr_total std iv o s items h
            | exact Intrinsic_Name_tostr_total std iv o s items h
            | exact Int_Literal_Constant_tostr_total std iv o s items h
            | exact Signed_Int_Literal_Constant_tostr_total std iv o s items h
            | exact Real_Literal_Constant_tostr_total std iv o s items h
            | exact Signed_Real_Literal_Constant_tostr_total std iv o s items h
            | exact Logical_Literal_Constant_tostr_total std iv o s items h
            | exact Complex_Literal_Constant_tostr_total std iv o s items h
            | exact Ac_Implied_Do_tostr_total std iv o s items h
            | exact Ac_Spec_tostr_total std iv o s items h
            | exact Ac_Implied_Do_Control_tostr_total std iv o s items h
            | exact Subscript_Triplet_tostr_total std iv o s items h
            | exact Alt_Return_Spec_tostr_total std iv o s items h
            | exact Assignment_Stmt_tostr_total std iv o s items h
            | exact Proc_Component_Ref_tostr_total std iv o s items h
            | exact Data_Pointer_Object_tostr_total std iv o s items h
            | exact Type_Param_Inquiry_tostr_total std iv o s items h
            | exact Procedure_Designator_tostr_total std iv o s items h
            | exact Pointer_Assignment_Stmt_tostr_total std iv o s items h
            | exact Parenthesis_tostr_total std iv o s items h
            | exact Array_Constructor_tostr_total std iv o s items h)
  cases hp : planOf std iv c s with
  | none => unfold matchOf at h; rw [hp] at h; cases h
  | some p => exact key p hp

/-! non-vacuity -/
example : matchOf .f2003 ivToy echoO C.Subscript_Triplet "a : b : 2".toList
    = some (.ok [.node "a".toList, .node "b".toList, .node "2".toList]) := by decide +kernel
example : tostrOf echoO C.Subscript_Triplet [.node "a".toList, .node "b".toList, .node "2".toList]
    = .ok "a : b : 2".toList := by decide +kernel
example : matchOf .f2003 ivToy echoO C.Array_Constructor "[x]".toList
    = some (.ok [.str "[".toList, .node "x".toList, .str "]".toList]) := by decide +kernel
example : matchOf .f2003 ivToy echoO C.Int_Literal_Constant "12_k".toList
    = some (.ok [.str "12".toList, .str "k".toList]) := by decide +kernel

#print axioms planNumber_rt
#print axioms planName_rt
#print axioms planTypeName_rt
#print axioms planBoz_rt
#print axioms planIntrinsicName_rt
#print axioms scanComplex_split
#print axioms planComplex_rt
#print axioms planComplex_no_valueError
#print axioms planCharLit_rt
#print axioms planBinStr_rt
#print axioms planBinPercent_rt
#print axioms planSubscriptTriplet_rt
#print axioms planAcSpec_rt
#print axioms planAcImpliedDo_rt
#print axioms planAcImpliedDoControl_rt
#print axioms planAltReturnSpec_rt
#print axioms combiPlan_rt
#print axioms planDataRef_rt
#print axioms planIntrinsic_not_raises
#print axioms planIntrinsic_raise
#print axioms planArrayConstructor_planT
#print axioms planPointerAssignment_planT
#print axioms Plan.run_raises
#print axioms Plan.run_ok_t
#print axioms planOf_planT
#print axioms match_total_intrinsic
#print axioms match_total
#print axioms match_total_closed
#print axioms bracketSplit_shape
#print axioms bracket_tostr_total
#print axioms combiStr_total
#print axioms tostrOf_nonbracket
#print axioms tostrOf_total

end Fp.Primary
