import FparserModel.Proofs.ReaderJoinO
import FparserModel.Proofs.ReaderCpp

/-!
# ReaderStmts — a LIST of source chunks read by repeated `_next` (properties C11, C12)

A `Chunk` is a run of physical lines that `get_source_item` turns into ONE item plus comments
buffered behind it (`Chunk.ok` is that contract; instances: comment line, one-line statement,
continued statement, preprocessor directive). `runs_chunks` is the induction over a list of
chunks: repeated `_next` delivers, for every chunk in order, its item and then its buffered
comments, each exactly once — or, when comments are ignored, exactly the non-comment items.
-/
namespace Fp.Reader
open Fp

/-- successive `_next` calls delivering the items `xs` -/
inductive Steps : Rd → List Item → Rd → Prop where
  | nil (r : Rd) : Steps r [] r
  | cons {r r1 r' : Rd} {x : Item} {xs : List Item} :
      next1 r = (.ok x, r1) → Steps r1 xs r' → Steps r (x :: xs) r'

/-- the comment-skipping loop of `_next` gives `p` on `r` for every fuel `≥ k` -/
def After (r : Rd) (k : Nat) (p : Res Item × Rd) : Prop := ∀ n, k ≤ n → nextRaw n r = p

/-- after delivering `xs`, the next round of the comment-skipping loop gives `p` -/
def Runs (r : Rd) (xs : List Item) (p : Res Item × Rd) : Prop :=
  ∃ r_mid k, Steps r xs r_mid ∧ After r_mid k p ∧ k ≤ nextRawFuel r_mid

theorem Runs.deliver {r r1 : Rd} {x : Item} {xs : List Item} {p : Res Item × Rd}
    (h : next1 r = (.ok x, r1)) (hr : Runs r1 xs p) : Runs r (x :: xs) p := by
  obtain ⟨rm, k, hs, ha, hk⟩ := hr
  exact ⟨rm, k, Steps.cons h hs, ha, hk⟩

theorem Runs.skipSource {r r1 : Rd} {it : Item} {xs : List Item} {p : Res Item × Rd}
    (hfifo : r.fifo = []) (hg : getSourceItem r = (.ok it, r1))
    (hc : (it.isComment && r1.ignoreComments) = true) (hfuel : nextRawFuel r1 < nextRawFuel r)
    (hr : Runs r1 xs p) : Runs r xs p := by
  obtain ⟨rm, k, hs, ha, hk⟩ := hr
  cases hs with
  | nil =>
    refine ⟨r, k + 1, Steps.nil r, ?_, by omega⟩
    intro n hn
    obtain ⟨m, rfl⟩ : ∃ m, n = m + 1 := ⟨n - 1, by omega⟩
    have h1 : nextRaw (m + 1) r = nextRaw m r1 := by
      conv => lhs; unfold nextRaw popOrRead
      simp only [hfifo, hg, hc, if_true]
    rw [h1]; exact ha m (by omega)
  | cons hn hs' =>
    exact ⟨rm, k, Steps.cons (next1_skip r r1 _ it _ hfifo hg hc hfuel hn) hs', ha, hk⟩

theorem Runs.skipPop {r : Rd} {it : Item} {f xs : List Item} {p : Res Item × Rd}
    (hfifo : r.fifo = it :: f) (hc : (it.isComment && r.ignoreComments) = true)
    (hr : Runs { r with fifo := f } xs p) : Runs r xs p := by
  obtain ⟨rm, k, hs, ha, hk⟩ := hr
  cases hs with
  | nil =>
    refine ⟨r, k + 1, Steps.nil r, ?_, ?_⟩
    · intro n hn
      obtain ⟨m, rfl⟩ : ∃ m, n = m + 1 := ⟨n - 1, by omega⟩
      have h1 : nextRaw (m + 1) r = nextRaw m { r with fifo := f } := by
        conv => lhs; unfold nextRaw popOrRead
        simp only [hfifo, hc, if_true]
      rw [h1]; exact ha m (by omega)
    · simp only [nextRawFuel, hfifo, List.length_cons] at hk ⊢; omega
  | cons hn hs' =>
    exact ⟨rm, k, Steps.cons (next1_skip_pop r _ it _ f hfifo hc hn) hs', ha, hk⟩

/-- keep an item? (`not item.isempty(ignore_comments)` for the items considered here) -/
def keep (ic : Bool) (x : Item) : Bool := !(x.isComment && ic)

/-- the buffered comments are delivered in order (or skipped when comments are ignored) -/
theorem Runs.fifo (ic : Bool) : ∀ (f : List Item) (r : Rd) (xs : List Item) (p : Res Item × Rd),
    r.ignoreComments = ic → r.fifo = f → (∀ x ∈ f, x.isComment = true) →
    Runs { r with fifo := [] } xs p → Runs r (f.filter (keep ic) ++ xs) p
  | [], r, xs, p, _, hf, _, hr => by
    have : ({ r with fifo := [] } : Rd) = r := by cases r; simp only [] at hf; subst hf; rfl
    rw [this] at hr; simpa using hr
  | x :: f, r, xs, p, hic, hf, hc, hr => by
    have ih := Runs.fifo ic f { r with fifo := f } xs p hic rfl
      (fun y hy => hc y (List.mem_cons_of_mem _ hy)) hr
    have hx := hc x List.mem_cons_self
    obtain ⟨t, s, e, b, rfl⟩ : ∃ t s e b, x = .comment t s e b := by
      cases x <;> simp [Item.isComment] at hx
      exact ⟨_, _, _, _, rfl⟩
    cases ic with
    | true =>
      have hk : keep true (.comment t s e b) = false := rfl
      simp only [List.filter_cons, hk, Bool.false_eq_true, if_false]
      exact Runs.skipPop hf (by simp [Item.isComment, hic]) ih
    | false =>
      have hk : keep false (.comment t s e b) = true := rfl
      simp only [List.filter_cons, hk, if_true, List.cons_append]
      exact Runs.deliver (next1_pop r _ f hf (by simp [Item.isComment, hic]) (NoSemi.comment _ _ _ _)) ih

/-! ### chunks -/

structure Chunk where
  lines : List Str
  item : Nat → Item            -- as a function of `linecount` before the chunk
  comments : Nat → List Item   -- buffered behind the item

/-- the reader state after a chunk has been consumed and its buffered comments delivered -/
def afterChunk (r : Rd) (c : Chunk) (rest : List Str) : Rd :=
  { r with src := rest, linecount := r.linecount + c.lines.length,
           linesRev := (c.lines.map cook).reverse ++ r.linesRev, fifo := [] }

/-- the contract of a chunk for free-form readers with `include_omp_conditional_lines = o` -/
structure Chunk.ok (o : Bool) (c : Chunk) : Prop where
  nonempty : 1 ≤ c.lines.length
  comments : ∀ lc, ∀ x ∈ c.comments lc, x.isComment = true
  few : ∀ lc, (c.comments lc).length < 2 * c.lines.length
  nosemi : ∀ lc, NoSemi (c.item lc)
  first : ∀ lc, (c.item lc).first = lc + 1
  last : ∀ lc, (c.item lc).last ≤ lc + c.lines.length
  read : ∀ (r : Rd) (rest : List Str), r.omp = o → r.fifo = [] → r.filo = [] → r.closed = false →
    r.isFree = true → r.src = c.lines ++ rest →
    getSourceItem r = (.ok (c.item r.linecount), { afterChunk r c rest with fifo := c.comments r.linecount })

def srcOf : List Chunk → List Str
  | [] => []
  | c :: cs => c.lines ++ srcOf cs

def endState (r : Rd) : List Chunk → List Str → Rd
  | [], _ => r
  | c :: cs, rest => endState (afterChunk r c (srcOf cs ++ rest)) cs rest

/-- what repeated `_next` delivers for a list of chunks starting at `linecount = lc` -/
def chunkItems (ic : Bool) : Nat → List Chunk → List Item
  | _, [] => []
  | lc, c :: cs => (c.item lc :: c.comments lc).filter (keep ic) ++ chunkItems ic (lc + c.lines.length) cs

theorem chunkItems_ignore : ∀ (lc : Nat) (cs : List Chunk),
    chunkItems true lc cs = (chunkItems false lc cs).filter (fun x => !x.isComment)
  | _, [] => rfl
  | lc, c :: cs => by
    simp only [chunkItems, List.filter_append, List.filter_filter, chunkItems_ignore]
    congr 1
    apply List.filter_congr
    intro x _
    simp [keep]

/-- one chunk: its item, then its buffered comments -/
theorem Runs.chunk (o : Bool) (c : Chunk) (hok : c.ok o) (r : Rd) (rest : List Str) (xs : List Item)
    (p : Res Item × Rd) (h0 : r.omp = o) (hfifo : r.fifo = []) (h1 : r.filo = [])
    (h2 : r.closed = false) (h3 : r.isFree = true) (hsrc : r.src = c.lines ++ rest)
    (hr : Runs (afterChunk r c rest) xs p) :
    Runs r ((c.item r.linecount :: c.comments r.linecount).filter (keep r.ignoreComments) ++ xs) p := by
  have hg := hok.read r rest h0 hfifo h1 h2 h3 hsrc
  have hf := Runs.fifo r.ignoreComments (c.comments r.linecount)
    { afterChunk r c rest with fifo := c.comments r.linecount }
    xs p rfl rfl (hok.comments r.linecount) hr
  by_cases hk : keep r.ignoreComments (c.item r.linecount) = true
  · simp only [List.filter_cons, hk, if_true, List.cons_append]
    refine Runs.deliver (next1_of_getSourceItem r _ _ hfifo hg ?_ (hok.nosemi _)) hf
    show ((c.item r.linecount).isComment && r.ignoreComments) = false
    simp only [keep, Bool.not_eq_true'] at hk; exact hk
  · simp only [List.filter_cons, hk, Bool.false_eq_true, if_false]
    refine Runs.skipSource hfifo hg ?_ ?_ hf
    · show ((c.item r.linecount).isComment && r.ignoreComments) = true
      simp only [keep, Bool.not_eq_true', Bool.not_eq_false] at hk; exact hk
    · have := hok.few r.linecount
      simp only [nextRawFuel, afterChunk, hfifo, h1, hsrc, List.length_append, List.length_nil]
      omega

/-- C11/C12 for a list of chunks: repeated `_next` delivers `chunkItems` -/
theorem runs_chunks (o : Bool) : ∀ (cs : List Chunk) (r : Rd) (rest : List Str) (p : Res Item × Rd),
    (∀ c ∈ cs, c.ok o) → r.omp = o → r.fifo = [] → r.filo = [] → r.closed = false →
    r.isFree = true → r.src = srcOf cs ++ rest → Runs (endState r cs rest) [] p →
    Runs r (chunkItems r.ignoreComments r.linecount cs) p
  | [], r, rest, p, _, _, _, _, _, _, _, hr => hr
  | c :: cs, r, rest, p, hok, h0, hfifo, h1, h2, h3, hsrc, hr => by
    have ih := runs_chunks o cs (afterChunk r c (srcOf cs ++ rest)) rest p
      (fun d hd => hok d (List.mem_cons_of_mem _ hd)) h0 rfl h1 h2 h3 rfl hr
    have := Runs.chunk o c (hok c List.mem_cons_self) r (srcOf cs ++ rest) _ p h0 hfifo h1 h2 h3
      (by simpa [srcOf, List.append_assoc] using hsrc) ih
    exact this

/-! ### fields of the end state -/

def totalLines : List Chunk → Nat
  | [] => 0
  | c :: cs => c.lines.length + totalLines cs

theorem endState_fields : ∀ (cs : List Chunk) (r : Rd) (rest : List Str), r.fifo = [] →
    r.src = srcOf cs ++ rest →
    endState r cs rest = { r with src := rest, linecount := r.linecount + totalLines cs,
                                  linesRev := ((srcOf cs).map cook).reverse ++ r.linesRev }
  | [], r, rest, hf, hs => by
    cases r; simp only [srcOf, List.nil_append] at hs; subst hs
    simp [endState, totalLines, srcOf]
  | c :: cs, r, rest, hf, hs => by
    simp only [endState]
    rw [endState_fields cs _ rest rfl rfl]
    simp only [afterChunk, totalLines, srcOf, List.map_append, List.reverse_append, List.append_assoc,
      Rd.mk.injEq, true_and, and_true]
    exact ⟨hf.symm, by omega⟩

/-! ### spans -/

theorem chunkItems_first_gt (ic : Bool) : ∀ (cs : List Chunk) (lc : Nat) (o : Bool),
    (∀ c ∈ cs, c.ok o) → ∀ x ∈ chunkItems ic lc cs, x.isComment = false → lc < x.first
  | [], _, _, _, x, hx, _ => by cases hx
  | c :: cs, lc, o, hok, x, hx, hnc => by
    simp only [chunkItems, List.mem_append, List.mem_filter, List.mem_cons] at hx
    rcases hx with ⟨h | h, _⟩ | h
    · subst h; rw [(hok c List.mem_cons_self).first]; omega
    · rw [(hok c List.mem_cons_self).comments lc x h] at hnc; cases hnc
    · have := chunkItems_first_gt ic cs (lc + c.lines.length) o
        (fun d hd => hok d (List.mem_cons_of_mem _ hd)) x h hnc
      omega

/-- C12 `read_spans_ordered` (chunk layouts): the spans of the successive non-comment items are
    strictly increasing and disjoint -/
theorem chunkItems_spans_ordered (ic : Bool) : ∀ (cs : List Chunk) (lc : Nat) (o : Bool),
    (∀ c ∈ cs, c.ok o) →
    List.Pairwise (fun a b => a.last < b.first) ((chunkItems ic lc cs).filter (fun x => !x.isComment))
  | [], _, _, _ => by simp [chunkItems]
  | c :: cs, lc, o, hok => by
    have hc := hok c List.mem_cons_self
    have ih := chunkItems_spans_ordered ic cs (lc + c.lines.length) o
      (fun d hd => hok d (List.mem_cons_of_mem _ hd))
    have hlater : ∀ b ∈ (chunkItems ic (lc + c.lines.length) cs).filter (fun x => !x.isComment),
        lc + c.lines.length < b.first := fun b hb => by
      simp only [List.mem_filter, Bool.not_eq_true'] at hb
      exact chunkItems_first_gt ic cs _ o (fun d hd => hok d (List.mem_cons_of_mem _ hd)) b hb.1 hb.2
    have hcm : (c.comments lc).filter (fun x => !x.isComment && keep ic x) = [] := by
      rw [List.filter_eq_nil_iff]
      intro x hx
      simp [hc.comments lc x hx]
    simp only [chunkItems, List.filter_append]
    rw [List.filter_filter, List.filter_cons, hcm]
    split
    · simp only [List.cons_append, List.nil_append, List.pairwise_cons]
      refine ⟨fun b hb => ?_, ih⟩
      have := hlater b hb
      have := hc.last lc
      omega
    · simpa using ih

end Fp.Reader
