import FparserModel.Proofs.PrimaryLit
import FparserModel.Proofs.PrimaryHand
/-!
`Char_Literal_Constant` (Fortran2003.py): token preservation of `tostr ∘ match`.

`match`: `strip`, the last character must be a quote `q`, `line, repmap = string_replace_map(…)`,
the regex `\A((?P<kind_param>(\d+|[A-Z][\w$]*))\s*_)?\s*(?P<value>(q\s*(\w)*\s*q)+)\Z` runs on the
TOKENISED line, `value = repmap(value)`; the kind is NOT mapped back.  `tostr` prints `kind_value`
or `value`.

The natural statement

    theorem Char_Literal_Constant_tostr_match_tokens (o) (s) (items)
        (hm : (planCharLit s).bind (runSlots o) = .ok items) (hs : SrmOK (strip s)) :
        ∃ t, tostrCharLit o items = .ok t ∧ toks t = toks s ∧ (… → net t = 0)

is FALSE: `1.5e3_'a'` prints `F2PY_REAL_CONSTANT_1__'a'` (`charLit_prints_placeholder`,
Proofs/PrimaryHandMore.lean; replayed below as `charKindPlain_necessary`).  It is proved under the
decidable hypothesis `CharKindPlain s`: the part of the tokenised line before the first quote
contains no placeholder.  The `InternalError` branch of `tostr` (empty value) is shown unreachable
(no extra hypothesis): the value starts with the quote, a non-word character, which `repmap` keeps.
-/
namespace Fp.Primary
open Fp Fp.Splitline
open Fp.IoStmt
open Fp.Combi (noBlank noBlank_append noBlank_rstrip)

variable {Node : Type}

/-! ## the hypothesis -/

/-- the part of the tokenised line before the first quote `q` (= the last character of the
    stripped string) is left alone by `repmap`: no placeholder in the kind part -/
def charKindPlainb (s : Str) : Bool :=
  match (strip s).getLast?, Combi.tokenise (strip s) with
  | some q, some r =>
    applyMap r.map (r.text.takeWhile (· != q)) == r.text.takeWhile (· != q)
  | _, _ => true

def CharKindPlain (s : Str) : Prop := charKindPlainb s = true

instance (s : Str) : Decidable (CharKindPlain s) := by unfold CharKindPlain; exact inferInstance

theorem CharKindPlain.spec {s : Str} (h : CharKindPlain s) {q : Char} {r : SrmResult}
    (hq : (strip s).getLast? = some q) (hr : Combi.tokenise (strip s) = some r) :
    applyMap r.map (r.text.takeWhile (· != q)) = r.text.takeWhile (· != q) := by
  unfold CharKindPlain charKindPlainb at h
  rw [hq, hr] at h
  simpa using h

/-- the form asked for: for every tokenisation result `r` of the stripped string -/
theorem CharKindPlain_iff (s : Str) (q : Char) (hq : (strip s).getLast? = some q) :
    CharKindPlain s ↔ ∀ r, Combi.tokenise (strip s) = some r →
      applyMap r.map (r.text.takeWhile (· != q)) = r.text.takeWhile (· != q) := by
  constructor
  · intro h r hr; exact h.spec hq hr
  · intro h
    unfold CharKindPlain charKindPlainb
    rw [hq]
    cases hr : Combi.tokenise (strip s) with
    | none => rfl
    | some r => simpa using h r hr

/-! ## the scanner -/

/-- the text printed in front of the value: `kind` + `_` -/
def kindPrefix : Option Str → Str
  | none => []
  | some k => k ++ ['_']

theorem quotedRun_head {q : Char} {n : Nat} {v : Str} (h : quotedRun q n v = true) :
    ∃ v', v = q :: v' := by
  cases n with
  | zero => simp [quotedRun] at h
  | succ f =>
    cases v with
    | nil => simp [quotedRun] at h
    | cons c r =>
      by_cases hc : c = q
      · subst hc; exact ⟨r, rfl⟩
      · unfold quotedRun at h
        simp [hc] at h

theorem takeWhile_drop (p : Char → Bool) (l : Str) :
    l = l.takeWhile p ++ l.drop (l.takeWhile p).length := by
  induction l with
  | nil => rfl
  | cons c cs ih =>
    by_cases h : p c = true
    · simp only [List.takeWhile_cons, h, if_true, List.length_cons, List.drop_succ_cons,
        List.cons_append]
      rw [← ih]
    · simp [h]

theorem dropLast_getLast {p : Str} {c : Char} (h : p.getLast? = some c) : p = p.dropLast ++ [c] := by
  induction p with
  | nil => simp at h
  | cons a r ih =>
    cases r with
    | nil =>
      have : a = c := by simpa using h
      subst this; rfl
    | cons b r' =>
      have h' : (b :: r').getLast? = some c := by simpa [List.getLast?_cons_cons] using h
      have := ih h'
      simp only [List.dropLast_cons_cons, List.cons_append]
      rw [← this]

/-- what a match of the regex says about the tokenised line: `line = pre ++ value`, `pre` is the
    text up to the first quote, the value starts with the quote, and `pre` is — up to blanks —
    nothing or `kind_` -/
theorem scanCharLit_inv {q : Char} {line v : Str} {ko : Option Str}
    (h : scanCharLit q line = some (v, ko)) :
    ∃ v', v = q :: v' ∧ line = line.takeWhile (· != q) ++ q :: v' ∧
      noBlank (line.takeWhile (· != q)) = kindPrefix ko ∧
      (∀ k, ko = some k → isKindParam k = true) := by
  unfold scanCharLit at h
  dsimp only at h
  split at h
  · cases h
  rename_i hq
  have hq' : quotedRun q ((line.drop (line.takeWhile (· != q)).length).length + 1)
      (line.drop (line.takeWhile (· != q)).length) = true := by simpa using hq
  obtain ⟨v', hv'⟩ := quotedRun_head hq'
  have hline := takeWhile_drop (· != q) line
  split at h
  · rename_i hp
    cases h
    have hp' : rstrip (line.takeWhile (· != q)) = [] := by simpa using hp
    refine ⟨v', hv', ?_, ?_, ?_⟩
    · rw [← hv']; exact hline
    · rw [← noBlank_rstrip, hp']; rfl
    · intro k hk; cases hk
  · rename_i hp
    split at h
    · cases h
    rename_i hlast
    split at h
    · rename_i hkp
      cases h
      refine ⟨v', hv', ?_, ?_, ?_⟩
      · rw [← hv']; exact hline
      · have hl : (rstrip (line.takeWhile (· != q))).getLast? = some '_' := by simpa using hlast
        have e := dropLast_getLast hl
        have e1 : noBlank (line.takeWhile (· != q))
            = noBlank (rstrip (line.takeWhile (· != q))) := (noBlank_rstrip _).symm
        have e2 : noBlank (rstrip (line.takeWhile (· != q)))
            = noBlank ((rstrip (line.takeWhile (· != q))).dropLast ++ ['_']) := congrArg noBlank e
        rw [e1, e2, noBlank_append, ← noBlank_rstrip (rstrip (line.takeWhile (· != q))).dropLast,
          noBlank_kindParam hkp]
        rfl
      · intro k hk; cases hk; exact hkp
    · cases h

/-! ## the core: the shape of a match -/

theorem quote_nonword {q : Char} (h : ¬ ((q != '"' && q != '\'') = true)) : isWord q = false := by
  have : q = '"' ∨ q = '\'' := by
    by_cases h1 : q = '"'
    · exact .inl h1
    · by_cases h2 : q = '\''
      · exact .inr h2
      · exact absurd (by simp [h1, h2]) h
  rcases this with e | e <;> subst e <;> decide

/-- a successful `match`: the two slots are the value `q :: val` (mapped back) and the optional
    kind `ko`; the blank-free stripped string is exactly `kind_` followed by the value -/
theorem charLit_core (s : Str) (slots : List Slot) (hp : planCharLit s = .ok slots)
    (hs : SrmOK (strip s)) (hk : CharKindPlain s) :
    ∃ (q : Char) (val : Str) (ko : Option Str),
      (q = '"' ∨ q = '\'') ∧
      slots = [.str (q :: val), (match ko with | none => Slot.none | some k => Slot.str k)] ∧
      (∀ k, ko = some k → isKindParam k = true) ∧
      noBlank (strip s) = kindPrefix ko ++ noBlank (q :: val) := by
  unfold planCharLit at hp
  split at hp
  · cases hp
  dsimp only at hp
  split at hp
  · cases hp
  rename_i q hlast
  split at hp
  · cases hp
  rename_i hquote
  have hw : isWord q = false := quote_nonword hquote
  have hqq : q = '"' ∨ q = '\'' := by
    by_cases h1 : q = '"'
    · exact .inl h1
    · by_cases h2 : q = '\''
      · exact .inr h2
      · exact absurd (by simp [h1, h2]) hquote
  obtain ⟨r, htok, hp⟩ := Res.bind_eq_ok hp
  have htk := tok_ok htok
  obtain ⟨hseg, hexp⟩ := seg_of_tokenise hs htk
  have hplain := hk.spec hlast htk
  -- the scanner
  have key : ∀ (v : Str) (ko : Option Str), scanCharLit q r.text = some (v, ko) →
      ∃ val, applyMap r.map v = q :: val ∧
        noBlank (strip s) = kindPrefix ko ++ noBlank (q :: val) ∧
        (∀ k, ko = some k → isKindParam k = true) := by
    intro v ko hscan
    obtain ⟨v', rfl, hline, hpre, hkp⟩ := scanCharLit_inv hscan
    rw [hline] at hseg
    obtain ⟨_, sV, e⟩ := Seg.split hseg (.inr (.inr (.inr ⟨q, rfl, hw⟩)))
    obtain ⟨_, e2⟩ := Seg.drop1 hw sV
    refine ⟨applyMap r.map v', e2, ?_, hkp⟩
    rw [← hexp]
    conv => lhs; rw [hline]
    rw [e, hplain, noBlank_append, hpre, e2]
  split at hp
  · cases hp
  · rename_i v hscan
    cases hp
    obtain ⟨val, e, hn, hkp⟩ := key v none hscan
    exact ⟨q, val, none, hqq, by rw [e], hkp, hn⟩
  · rename_i v k hscan
    cases hp
    obtain ⟨val, e, hn, hkp⟩ := key v (some k) hscan
    exact ⟨q, val, some k, hqq, by rw [e], hkp, hn⟩

theorem kindParam_ne_nil {k : Str} (h : isKindParam k = true) : k ≠ [] := by
  intro e; subst e; cases h

/-! ## the theorems -/

/-- **Char_Literal_Constant, exact form** (under `SrmOK` and `CharKindPlain`): the items are the
    value `q :: val` (it starts with the quote) and the optional kind `ko`; the printed text is
    `kind ++ "_" ++ value` with NO blank between the kind, `_` and the quote (or the value alone);
    `tostr` does not reach its `InternalError`; and the printed text is the stripped input up to
    the blanks only (case kept). -/
theorem Char_Literal_Constant_tostr_exact_partial (o : Oracle Node) (s : Str) (items : List (Item Node))
    (hm : (planCharLit s).bind (runSlots o) = .ok items) (hs : SrmOK (strip s))
    (hk : CharKindPlain s) :
    ∃ (q : Char) (val : Str) (ko : Option Str),
      (q = '"' ∨ q = '\'') ∧
      items = [.str (q :: val), kindItem ko] ∧
      (∀ k, ko = some k → isKindParam k = true) ∧
      tostrCharLit o items = .ok (kindPrefix ko ++ q :: val) ∧
      noBlank (kindPrefix ko ++ q :: val) = noBlank s := by
  obtain ⟨slots, hp, hr⟩ := Res.bind_eq_ok hm
  obtain ⟨q, val, ko, hq, rfl, hkp, hn⟩ := charLit_core s slots hp hs hk
  obtain ⟨i, j, rfl, hi, hj⟩ := run2 hr
  have := runSlot_str_ok hi; subst this
  have hnb : noBlank (kindPrefix ko ++ q :: val) = noBlank s := by
    cases ko with
    | none => rw [← Combi.noBlank_strip s, hn]; rfl
    | some k =>
      have hkk := noBlank_kindParam (hkp k rfl)
      rw [← Combi.noBlank_strip s, hn, noBlank_append]
      congr 1
      show noBlank (k ++ ['_']) = k ++ ['_']
      rw [noBlank_append, hkk]; rfl
  cases ko with
  | none =>
    have := runSlot_none_ok hj; subst this
    exact ⟨q, val, none, hq, rfl, hkp, rfl, hnb⟩
  | some k =>
    have := runSlot_str_ok hj; subst this
    refine ⟨q, val, some k, hq, rfl, hkp, ?_, hnb⟩
    have hne : k ≠ [] := kindParam_ne_nil (hkp k rfl)
    cases k with
    | nil => exact absurd rfl hne
    | cons a r => simp [tostrCharLit, Item.text, kindPrefix]

/-- **Char_Literal_Constant** (PARTIAL: `CharKindPlain`, see the head of the file): the printed
    text has the tokens of the matched string -/
theorem Char_Literal_Constant_tostr_match_tokens_partial (o : Oracle Node) (s : Str)
    (items : List (Item Node)) (hm : (planCharLit s).bind (runSlots o) = .ok items)
    (hs : SrmOK (strip s)) (hk : CharKindPlain s) :
    ∃ t, tostrCharLit o items = .ok t ∧ toks t = toks s ∧
      ((∀ i ∈ items, net (i.text o) = 0) → net t = 0) := by
  obtain ⟨q, val, ko, hq, rfl, hkp, ht, hnb⟩ :=
    Char_Literal_Constant_tostr_exact_partial o s items hm hs hk
  refine ⟨_, ht, toks_of_noBlank hnb, ?_⟩
  intro hbal
  have h1 : net (q :: val) = 0 := hbal (.str (q :: val)) (by simp)
  cases ko with
  | none => exact h1
  | some k =>
    have h2 : net k = 0 := hbal (.str k) (by simp [kindItem])
    show net (k ++ ['_'] ++ q :: val) = 0
    rw [net_append, net_append, h1, h2]; rfl

/-! ## non-vacuity and the witnesses -/

example : SrmOK (strip "k_'pre'".toList) ∧ CharKindPlain "k_'pre'".toList ∧
    (planCharLit "k_'pre'".toList).bind (runSlots echoO)
      = .ok [.str "'pre'".toList, .str "k".toList] ∧
    tostrCharLit echoO [.str "'pre'".toList, .str "k".toList] = .ok "k_'pre'".toList := by
  decide +kernel

example : SrmOK (strip "'don''t'".toList) ∧ CharKindPlain "'don''t'".toList ∧
    (planCharLit "'don''t'".toList).bind (runSlots echoO)
      = .ok [.str "'don''t'".toList, .none] ∧
    tostrCharLit echoO [.str "'don''t'".toList, .none] = .ok "'don''t'".toList := by
  decide +kernel

example : SrmOK (strip "\"a\"\"b\"".toList) ∧ CharKindPlain "\"a\"\"b\"".toList ∧
    (planCharLit "\"a\"\"b\"".toList).bind (runSlots echoO)
      = .ok [.str "\"a\"\"b\"".toList, .none] ∧
    tostrCharLit echoO [.str "\"a\"\"b\"".toList, .none] = .ok "\"a\"\"b\"".toList := by
  decide +kernel

/-- the blank after `_` is dropped, the blank inside the literal is kept -/
example : SrmOK (strip "1_ 'a b'".toList) ∧ CharKindPlain "1_ 'a b'".toList ∧
    (planCharLit "1_ 'a b'".toList).bind (runSlots echoO)
      = .ok [.str "'a b'".toList, .str "1".toList] ∧
    tostrCharLit echoO [.str "'a b'".toList, .str "1".toList] = .ok "1_'a b'".toList := by
  decide +kernel

/-- `CharKindPlain` is NECESSARY: `1.5e3_'a'` satisfies `SrmOK`, is matched, fails `CharKindPlain`
    and prints a placeholder (`charLit_prints_placeholder`): the tokens differ -/
theorem charKindPlain_necessary :
    SrmOK (strip "1.5e3_'a'".toList) ∧ ¬ CharKindPlain "1.5e3_'a'".toList ∧
    (planCharLit "1.5e3_'a'".toList).bind (runSlots echoO)
      = .ok [.str "'a'".toList, .str "F2PY_REAL_CONSTANT_1_".toList] ∧
    tostrCharLit echoO [.str "'a'".toList, .str "F2PY_REAL_CONSTANT_1_".toList]
      = .ok "F2PY_REAL_CONSTANT_1__'a'".toList ∧
    toks "F2PY_REAL_CONSTANT_1__'a'".toList ≠ toks "1.5e3_'a'".toList := by decide +kernel

end Fp.Primary

#print axioms Fp.Primary.CharKindPlain_iff
#print axioms Fp.Primary.scanCharLit_inv
#print axioms Fp.Primary.charLit_core
#print axioms Fp.Primary.Char_Literal_Constant_tostr_exact_partial
#print axioms Fp.Primary.Char_Literal_Constant_tostr_match_tokens_partial
#print axioms Fp.Primary.charKindPlain_necessary
