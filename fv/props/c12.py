"""C12 — the reader delivers each logical line once, in order, with exact line numbers."""
import random
from fv import real, gen, layout, engine, findings
from fv.props import util
from fv.model import get_model
from fv import cosim_reader as CR

RULE = ("(a) generated statement lists with known layout, free form (continuations incl. inside literals, comments/blank lines "
        "between continuation lines, trailing comments, ';' joins) and fixed form: items(reader) == expected by construction: one item "
        "per statement in order, text equal modulo blanks outside character literals, numeric label, construct name, span == the "
        "physical lines of the statement; (b) random get_item/put_item walks that read k ahead and restore: remaining stream "
        "unchanged; (c) co-simulation: Lean model Fp.Reader item stream == real reader on the same sources and on the reader "
        "slice's own layout generator (incl. includes, cpp, sentinels, malformed). non-trivial = >= 3 continued statements")
ASSUMPTIONS = []
TIE_MODULES = ["FparserModel.Reader", "FparserModel.Generated.ReaderLex"]


def squeeze(text):
    """delete blanks outside character literals"""
    out = []
    q = None
    for c in text:
        if q:
            out.append(c)
            if c == q:
                q = None
        elif c in "'\"":
            q = c
            out.append(c)
        elif c not in " \t":
            out.append(c)
    return "".join(out)


def items_of(src, free, ic=True):
    r = real.make_reader(src, ignore_comments=ic, free=free)
    return list(r), r


def run_case(case):
    p = util.program_case(case)
    form = case["form"]
    res = {"key": [case["seed"], form], "counts": {"form:" + form: 1}, "findings": []}
    rng = random.Random(case["seed"] ^ 0xC12)
    if form == "free":
        opts = layout.FreeOpts(p_cont=0.4, comments=True, p_semi=0.15 if case.get("semi") else 0.0)
        L = layout.render_free(p, case["seed"] ^ 0xC12, opts)
    else:
        L = layout.render_fixed(p, rng, layout.FixedOpts(wrap=rng.choice([72, 66, 50]), comments=True))
    src = L.text()
    flat = layout.flat_with_depth(p)
    ncont = sum(1 for st, _ in flat if L.spans[st.uid][0] != L.spans[st.uid][1])
    res["nontrivial"] = ncont >= 3
    res["counts"].update({"lay:" + k: v for k, v in L.decisions.items()})
    res["sample"] = {"seed": case["seed"], "form": form, "continued": ncont, "head": src[:200]}
    free = form == "free"

    def finding(sig, what, extra=None):
        known = findings.classify("C12", src, {"form": form})
        rp = {"case": case, "source": src}
        rp.update(extra or {})
        res["findings"].append({"signature": known or sig, "what": what, "replay": rp})

    # (a) by construction
    try:
        items, r = items_of(src, free)
    except SystemExit:
        finding("reader-exit", "reader terminated the process")
        return res
    lines_items = [it for it in items if type(it).__name__ == "Line"]
    if len(lines_items) != len(flat):
        finding("item-count", "reader delivered %d statements, source has %d" % (len(lines_items), len(flat)))
    for (st, _), it in zip(flat, lines_items):
        exp_text = squeeze(gen.join_natural(st.toks))
        got_text = squeeze(it.line)
        exp_span = L.spans[st.uid]
        bad = None
        if got_text != exp_text:
            bad = ("text", got_text[:60], exp_text[:60])
        elif (str(it.label) if it.label is not None else None) != (str(int(st.label)) if st.label else None):
            bad = ("label", it.label, st.label)
        elif it.name != st.cname:
            bad = ("name", it.name, st.cname)
        elif tuple(it.span) != tuple(exp_span):
            bad = ("span", tuple(it.span), tuple(exp_span))
        if bad:
            finding("item-%s:%s" % (bad[0], form), "statement %r: %s is %r, expected %r" % (st.text()[:50], bad[0], bad[1], bad[2]))
            break
    # (b) look-ahead and restore
    for trial in range(3):
        r2 = real.make_reader(src, ignore_comments=bool(trial % 2), free=free)
        n_before = rng.randint(0, max(0, len(flat) - 1))
        for _ in range(n_before):
            r2.get_item()
        k = rng.randint(1, 6)
        got = []
        for _ in range(k):
            it = r2.get_item()
            if it is None:
                break
            got.append(it)
        for it in reversed(got):
            r2.put_item(it)
        rest = []
        while True:
            it = r2.get_item()
            if it is None:
                break
            rest.append(CR.canon(it))
        r3 = real.make_reader(src, ignore_comments=bool(trial % 2), free=free)
        for _ in range(n_before):
            r3.get_item()
        ref = []
        while True:
            it = r3.get_item()
            if it is None:
                break
            ref.append(CR.canon(it))
        if rest != ref:
            j = next((i for i, (a, b) in enumerate(zip(rest, ref)) if a != b), min(len(rest), len(ref)))
            finding("lookahead-restore", "after reading %d, looking %d ahead and restoring, the remaining stream differs at item %d: %r vs %r" % (
                n_before, len(got), j, rest[j:j + 1], ref[j:j + 1]))
            break
    # (c) model == real on this source
    m = get_model()
    for ic in (True, False):
        c = {"src": src, "mode": form, "ic": ic, "omp": False, "pd": False, "dirs": [], "fs": [], "script": None, "feat": set()}
        d = CR.check_case(m, c)
        if d is not None:
            res["findings"].append({"signature": "correspondence:Fp.Reader", "no_input": True,
                                    "what": "reader model and real reader differ: %s" % str(d)[:400],
                                    "replay": {"case": case, "source": src, "cosim": {k: v for k, v in c.items() if k != "feat"}}})
            break
    return res


def run_cosim(case):
    """the reader slice's own layout generator (includes, cpp, sentinels, malformed …)"""
    rng = random.Random(case["seed"])
    m = get_model()
    res = {"key": ["cosim", case["seed"]], "counts": {}, "findings": [], "nontrivial": True}
    n = 0
    for c in CR.gen_cases(rng, case["n"]):
        n += 1
        for f in c.get("feat", ()):
            res["counts"]["feat:" + f] = res["counts"].get("feat:" + f, 0) + 1
        d = CR.check_case(m, c)
        if d is not None:
            res["findings"].append({"signature": "correspondence:Fp.Reader", "no_input": True,
                                    "what": "reader model and real reader differ: %s" % str(d)[:400],
                                    "replay": {"case": case, "cosim": {k: (sorted(v) if isinstance(v, set) else v) for k, v in c.items()}}})
            if len(res["findings"]) > 3:
                break
    res["evals"] = n
    return res


# dedicated stream: the listed boundary (an internal reader exception is turned into
# StopIteration by FortranReaderBase.next, silently dropping the statement)
PROBES = [
    ("free", "program p\n; x = 1\ny = 2\nend program p\n", ["program p", "x = 1", "y = 2", "end program p"]),
    ("fixed", "      program p\n 1 2  x = 1\n      y = 2\n      end\n", None),
    ("free", "program p\nx = 1;\ny = 2;;z = 3\nend program p\n", ["program p", "x = 1", "y = 2", "z = 3", "end program p"]),
]


def run_probe(case):
    form, src, exp = PROBES[case["probe"]]
    res = {"key": ["probe", case["probe"]], "counts": {"form:probe": 1}, "findings": [], "nontrivial": True}
    items, r = items_of(src, form == "free")
    got = [it.line for it in items if type(it).__name__ == "Line"]
    bad = None
    if exp is not None and [squeeze(x) for x in got] != [squeeze(x) for x in exp]:
        bad = "reader delivered %r, source has statements %r" % (got, exp)
    if exp is None and len(got) < 3:
        bad = "reader delivered only %r for %r" % (got, src)
    if bad:
        sig = "pred:reader_internal_exception_drops_statement" if len(got) < (len(exp) if exp else 4) else "probe:%d" % case["probe"]
        known = sig
        res["findings"].append({"signature": known, "what": bad, "replay": {"case": case, "source": src}})
    return res


_run_case = run_case


def run_case(case):  # noqa: F811
    if case.get("kind") == "cosim":
        return run_cosim(case)
    if "probe" in case:
        return run_probe(case)
    return _run_case(case)


def cases(tier, seed):
    n = util.tier_n(tier, 120, 1200)
    out = [{"probe": i} for i in range(len(PROBES))]
    for i, s in enumerate(util.seeds(seed, n, 12)):
        out.append({"seed": s, "std": "f2008", "form": "fixed" if i % 3 == 2 else "free", "semi": i % 2 == 0, "size": 0.7})
    for i, s in enumerate(util.seeds(seed, util.tier_n(tier, 16, 160), 121)):
        out.append({"kind": "cosim", "seed": s, "n": 150, "_timeout": 600})
    return out


def run(tier, rep, st):
    results = engine.run_cases(__name__, cases(tier, rep.seed), rep)
    rep.evaluations = sum(r.get("evals", 1) for r in results)
