import FparserModel.Proofs.Tree
import FparserModel.Generated.Classes2008
/-!
# Properties of the tree-link / copy-protocol model (C10, C18)
-/
namespace Fp.Tree

/-! ## parents (C10) -/

/-- `n` was listed by a `_set_parent(c, items)` call and no later event assigned `n.parent` -/
def LastAttachedBy (evs : List Ev) (n c : Nat) : Prop :=
  ∃ pre items post, evs = pre ++ Ev.attach c items :: post ∧ n ∈ spList items
    ∧ n < (run [] pre).length ∧ ∀ ev ∈ post, ev.touches n = false

/-- the last event that assigned `r.parent` is `Base.__init__` (`parent = None`) -/
def LastReset (evs : List Ev) (r : Nat) : Prop :=
  ∃ pre post, evs = pre ++ Ev.reset r :: post ∧ ∀ ev ∈ post, ev.touches r = false

theorem parent_of_lastAttachedBy (evs : List Ev) (n c : Nat) (h : LastAttachedBy evs n c) :
    parentOf (run [] evs) n = some c := by
  obtain ⟨pre, items, post, rfl, hn, hl, hpost⟩ := h
  rw [run_append]
  show parentOf (run (run [] pre) (Ev.attach c items :: post)) n = some c
  have : run (run [] pre) (Ev.attach c items :: post) = run (step (run [] pre) (.attach c items)) post := rfl
  rw [this, parentOf_run_untouched post _ n hpost]
  simp [step, parentOf_foldl_setParent, hn, hl]

theorem parent_of_lastReset (evs : List Ev) (r : Nat) (h : LastReset evs r) :
    parentOf (run [] evs) r = none := by
  obtain ⟨pre, post, rfl, hpost⟩ := h
  rw [run_append]
  have : run (run [] pre) (Ev.reset r :: post) = run (step (run [] pre) (.reset r)) post := rfl
  rw [this, parentOf_run_untouched post _ r hpost]
  simp [step, parentOf_setParent]
  intro _; unfold parentOf; simp_all

/-- **parents_consistent** (C10), the link part, for EVERY event history.  Let `a` be the
    arena after the history.  If every node `n` that the final tree lists under a container
    `c` (through nested tuples/lists, as `_set_parent` sees them) was last attached by `c`
    (`Fresh`: no later `_set_parent` from a discarded parse attempt and no later `__init__`
    re-run on a re-used object), and the root was last touched by its `__init__`, then
    `n.parent is c` for every such pair, `root.parent is None`, and `get_root()` of any node
    that reaches the root by at most `|a|` parent steps is the root. -/
theorem parents_consistent (evs : List Ev) (root : Nat)
    (fresh : ∀ c nd, (run [] evs)[c]? = some nd → ∀ n ∈ spList nd.children, LastAttachedBy evs n c)
    (hroot : LastReset evs root) :
    (∀ c nd, (run [] evs)[c]? = some nd → ∀ n ∈ spList nd.children, parentOf (run [] evs) n = some c)
    ∧ parentOf (run [] evs) root = none
    ∧ (∀ n k, UpChain (run [] evs) n root k → k ≤ (run [] evs).length → getRoot (run [] evs) n = some root) := by
  refine ⟨?_, parent_of_lastReset evs root hroot, ?_⟩
  · intro c nd hc n hn
    exact parent_of_lastAttachedBy evs n c (fresh c nd hc n hn)
  · intro n k hch hk
    exact getRootF_of_chain _ n root k hch _ (by omega)

/-- What `Fresh` rules out (the "cached object gets a stale parent" worry): if a node is
    re-listed by ANOTHER container later (an abandoned parse attempt re-using the object),
    its parent is that other container, not the one of the final tree. -/
theorem stale_parent_witness :
    let evs : List Ev := [.alloc 0, .reset 0, .alloc 1, .reset 1, .attach 1 [.node 0],
                          .children 1 [.node 0],
                          -- an abandoned attempt lists node 0 under a new node 2
                          .alloc 2, .attach 2 [.tup [.node 0, .none]], .reset 2]
    parentOf (run [] evs) 0 = some 2 ∧ spList ((run [] evs)[1]?.map (·.children) |>.getD []) = [0]
    ∧ getRoot (run [] evs) 0 = some 2 := by
  decide

/-- a root (node 3) holding the list `[n1, ("s", (n0, None)), n2]` -/
def demoEvs : List Ev :=
  [.alloc 5, .reset 0, .alloc 6, .reset 1, .alloc 7, .reset 2,
   .alloc 1, .attach 3 [.lst [.node 1, .tup [.str "s", .tup [.node 0, .none]], .node 2]],
   .children 3 [.node 1, .tup [.str "s", .tup [.node 0, .none]], .node 2],
   .reset 3]

/-- non-vacuity of `parents_consistent`, and the walk part on a concrete history: `walk`
    lists every node once, in left-to-right pre-order, and passes strings / `None` / the
    outer tuple through but not the inner tuple (exactly as `utils.walk` does);
    `get_child` only looks at immediate children. -/
example :
    LastAttachedBy demoEvs 0 3 ∧ LastReset demoEvs 3
    ∧ (List.range 4).map (parentOf (run [] demoEvs)) = [some 3, some 3, some 3, none]
    ∧ (List.range 4).map (getRoot (run [] demoEvs)) = [some 3, some 3, some 3, some 3]
    ∧ walkIds (run [] demoEvs) 3 = [3, 1, 0, 2]
    ∧ Item.keyL (walk (run [] demoEvs) 3) = "n3 n1 ('s' (n0 N ) ) 's' n0 N n2 "
    ∧ getChild (run [] demoEvs) 3 (fun _ => true) = some 1
    ∧ getChild (run [] demoEvs) 3 (fun c => c == 5) = none := by
  refine ⟨⟨[.alloc 5, .reset 0, .alloc 6, .reset 1, .alloc 7, .reset 2, .alloc 1], _, [_, _], rfl,
            by decide, by decide, by decide⟩,
          ⟨[.alloc 5, .reset 0, .alloc 6, .reset 1, .alloc 7, .reset 2,
            .alloc 1, .attach 3 [.lst [.node 1, .tup [.str "s", .tup [.node 0, .none]], .node 2]],
            .children 3 [.node 1, .tup [.str "s", .tup [.node 0, .none]], .node 2]], [], rfl, by simp⟩, by decide, by decide, by decide, by decide, by decide, by decide⟩

/-! ## the copy protocol (C18) -/

open Fp.Generated Fp.Registry

/-- **copyok_generated** (C18) — the LIVE obligation on the pinned tree: every rule class
    the real fparser can put into a tree (Fortran2003, Fortran2008, C99Preprocessor, as
    extracted from the live classes) supports the copy protocol: if its `__getnewargs__`
    reads `self.string` its instances have `.string`, and its `__new__` accepts the
    `__getnewargs__` tuple with `_deepcopy=True`.
    (Before the repair of F-C18-1 this failed for `Comment` and `Directive`; a regression
    — dropping `_deepcopy` from a `__new__`, or the `.string` assignment — flips the
    generated facts and breaks this `decide`.) -/
theorem copyok_generated : ∀ c ∈ allClasses, c.isRule = true → CopyOK c := by
  decide +kernel

/-- in particular the four classes with a custom `__new__` / `__getnewargs__` -/
theorem copyok_custom_new :
    ((allClasses.filter (fun c => c.isRule && c.customNew)).map fun c => (names.getD c.name "", decide (CopyOK c)))
      = [("Comment", true), ("Directive", true), ("Program", true), ("Base", true)] := by
  decide +kernel

/-- **copyok_fails_witness** on a hypothetical class table: a class with a custom `__new__`
    whose instances have no `.string` (the pre-repair `Comment`), and one whose `__new__`
    does not take `_deepcopy`, are not `CopyOK`. -/
theorem copyok_fails_witness :
    let oldComment : ClassFacts := ⟨0, 0, 0, true, false, false, some [], none, false, false, true, true, false, false⟩
    let noDeepcopy : ClassFacts := ⟨1, 1, 0, true, false, false, some [], none, false, false, true, true, true, false⟩
    ¬ CopyOK oldComment ∧ ¬ CopyOK noDeepcopy := by
  decide

/-- `copy.deepcopy(x)` fails at once when the class of `x` is not CopyOK: with
    `AttributeError` (no `.string`) in preference to `TypeError` (`__new__` signature) -/
theorem deepcopy_fails_at_start (facts : Nat → CopyFacts) (a : Arena) (n : Nat) (nd : Node)
    (hn : a[n]? = some nd) (hbad : (facts nd.cls).ok = false) :
    deepcopy facts a n = .error (if (facts nd.cls).argsNeedString && !(facts nd.cls).hasString
                                 then .noString nd.cls else .newRejects nd.cls) := by
  unfold deepcopy
  have hfuel : 2 * arenaFuel a + 2 = (2 * arenaFuel a + 1) + 1 := by omega
  rw [hfuel]
  unfold copyNode
  simp only [memoGet, nGet, hn]
  unfold CopyFacts.ok at hbad
  by_cases h1 : ((facts nd.cls).argsNeedString && !(facts nd.cls).hasString) = true
  · simp [h1]
  · have h2 : (facts nd.cls).newAccepts = false := by
      cases h3 : (facts nd.cls).newAccepts
      · rfl
      · cases h4 : (facts nd.cls).argsNeedString <;> cases h5 : (facts nd.cls).hasString <;> simp_all
    simp [h1, h2]

def okOf {α} : Except CopyErr α → Option α
  | .ok x => some x
  | .error _ => none

def errOf {α} : Except CopyErr α → Option CopyErr
  | .error e => some e
  | .ok _ => none

def cpA : Arena := [⟨10, [], some 2⟩, ⟨11, [], some 2⟩, ⟨12, [.node 0, .tup [.node 1, .str "s"]], none⟩]
def cpOk : Nat → CopyFacts := fun _ => ⟨true, true, true⟩
def cpBad : Nat → CopyFacts := fun c =>
  if c == 10 then ⟨true, false, false⟩ else if c == 11 then ⟨true, true, false⟩ else ⟨true, true, true⟩

/-- (id of the copy, the first 3 nodes are the untouched original, size, root of the copy) -/
def cpSum1 (r : Arena × Nat) : Nat × Bool × Nat × Option Nat :=
  (r.2, (r.1.take 3).map Node.key == cpA.map Node.key, r.1.length, getRoot r.1 r.2)
/-- (walk of the copy, classes of the new nodes, children of the copied root, all parents) -/
def cpSum2 (r : Arena × Nat) : List Nat × List Nat × Option String × List (Option Nat) :=
  (walkIds r.1 4, (r.1.drop 3).map (·.cls), (r.1[4]?).map (fun nd => Item.keyL nd.children),
   (List.range 6).map (parentOf r.1))

/-- `deepcopy` on a concrete tree (`cpA`) whose classes are all CopyOK (root 2 = `[n0, (n1, "s")]`,
    started from the INNER node 1, so the copy runs through the `parent` back-edge): the copy
    is a fresh, id-disjoint, isomorphic tree with consistent parent links; the original is
    untouched.  With a not-CopyOK class anywhere in the tree the copy fails with the error
    of the first such node in copy order; `pickle` reports a missing `.string` first. -/
example :
    (okOf (deepcopy cpOk cpA 1)).map cpSum1 = some (3, true, 6, some 4)
    ∧ (okOf (deepcopy cpOk cpA 1)).map cpSum2
        = some ([4, 5, 3], [11, 12, 10], some "n5 (n3 's' ) ", [some 2, some 2, none, some 4, none, some 4])
    ∧ errOf (deepcopy cpBad cpA 2) = some (.noString 10)
    ∧ errOf (deepcopy cpBad cpA 1) = some (.newRejects 11)
    ∧ errOf (pickleRoundTrip cpBad cpA 1) = some (.noString 10) := by
  refine ⟨by decide, by decide, by decide, by decide, by decide⟩

end Fp.Tree
