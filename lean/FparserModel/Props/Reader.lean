import FparserModel.Proofs.ReaderWalk
import FparserModel.Proofs.ReaderFree
import FparserModel.Proofs.ReaderJoin

/-!
# Props/Reader — property theorems of the reader model M-B

Serves C12 (each logical line once / look-ahead restore), C07 (linecount), C04/C14/C13 witnesses.
All statements are for every reader state, every abstract file system, every item.
-/
namespace Fp.Reader
open Fp

/-! ## (a) put_item / get_item -/

/-- C12: `put_item x` followed by `get_item` returns `x` and restores the complete reader chain,
    whatever the state; with active INCLUDE readers the item goes to (and comes back from) the
    innermost one. `returnable` = `x` is not a comment while comments are ignored, its
    tokenised text has no top-level `;`, and it is not a resolvable INCLUDE line. -/
theorem get_put_inverse (d : Nat) (fs : Fs) (st : List Rd) (r : Rd) (x : Item)
    (hi : innermost st = some r) (hr : returnable fs r x = true) :
    getItem (d + 1) fs (putItem x st) = (.ok x, st) :=
  getItem_putItem d fs st r x hi hr

/-- C12: reading `k` items and putting them back in reverse order leaves the drain unchanged:
    the restored state and the original state have the same complete future. -/
theorem lookahead_restore (d : Nat) (fs : Fs) (k : Nat) (st st' : List Rd) (xs : List Item) (r : Rd)
    (evs : List Ev) (fin : List Rd)
    (hg : getN (d + 1) fs k st = some (xs, st')) (hi : innermost st' = some r)
    (hr : ∀ x ∈ xs, returnable fs r x = true) (hd : Drains (d + 1) fs st' evs fin) :
    Drains (d + 1) fs st (evItems xs ++ evs) fin ∧
    Drains (d + 1) fs (putMany xs st') (evItems xs ++ evs) fin := by
  obtain ⟨_, _, _, h⟩ := Drains_putMany d fs r xs st' evs fin hi hr hd
  exact ⟨Drains_getN (d + 1) fs k st st' xs evs fin hg hd, h⟩

/-- C12: any walk of `get_item` / `put_item` (put back = most recently read, not yet restored
    item) that ends with nothing held leaves the drain unchanged. -/
theorem walk_restore (d : Nat) (fs : Fs) (w : List Op) (st st' : List Rd) (evs : List Ev) (fin : List Rd)
    (hw : runWalk d fs w st [] = some (st', [])) (hd : Drains (d + 1) fs st' evs fin) :
    Drains (d + 1) fs st evs fin := by
  obtain ⟨evs0, h0, he⟩ := runWalk_future d fs w st [] st' [] evs fin hw hd
  simp only [List.reverse_nil, evItems, List.map_nil, List.nil_append] at he
  rw [← he]; exact h0

/-- the drain of a state is a function of the state -/
theorem drain_unique {d : Nat} {fs : Fs} {st : List Rd} {e1 e2 : List Ev} {f1 f2 : List Rd}
    (h1 : Drains d fs st e1 f1) (h2 : Drains d fs st e2 f2) : e1 = e2 ∧ f1 = f2 :=
  Drains_det h1 h2

/-! ## (b) linecount, source_lines, spans -/

/-- user-level operations -/
inductive UOp where
  | get
  | put (x : Item)

def applyOp (d : Nat) (fs : Fs) (st : List Rd) : UOp → List Rd
  | .get => (getItem d fs st).2
  | .put x => putItem x st

def applyOps (d : Nat) (fs : Fs) (st : List Rd) (ops : List UOp) : List Rd :=
  ops.foldl (applyOp d fs) st

/-- C07: `linecount` never decreases under any sequence of `get_item` / `put_item` -/
theorem linecount_monotone (d : Nat) (fs : Fs) (ops : List UOp) :
    ∀ st : List Rd, linecount st ≤ linecount (applyOps d fs st ops) := by
  induction ops with
  | nil => intro st; exact Nat.le_refl _
  | cons o os ih =>
    intro st
    have h1 : linecount st ≤ linecount (applyOp d fs st o) := by
      cases o with
      | get => exact (next_post fs d st).lc
      | put x => simp only [applyOp]; rw [putItem_linecount]; exact Nat.le_refl _
    exact Nat.le_trans h1 (ih (applyOp d fs st o))

/-- C07: for every reader of the chain, after any sequence of `get_item` / `put_item`,
    `linecount + len(filo_line) = len(source_lines)`: `linecount` is the number of physical lines
    pulled from the source minus the lines pushed back for peeking. -/
theorem linecount_is_lines_read (d : Nat) (fs : Fs) (ops : List UOp) :
    ∀ st : List Rd, (∀ r ∈ st, Inv r) → ∀ r ∈ applyOps d fs st ops, Inv r := by
  induction ops with
  | nil => intro st h; exact h
  | cons o os ih =>
    intro st h
    apply ih (applyOp d fs st o)
    cases o with
    | get => exact (next_post fs d st).inv h
    | put x => exact putItem_inv x st h

/-- C07 (free form): a free-form reader never pushes a line back, so `linecount` is exactly
    `len(source_lines)`, and it stays a free-form reader. -/
theorem free_linecount_is_source_lines (r : Rd) (hf : r.isFree = true) (hfilo : r.filo = [])
    (hi : Inv r) :
    (next1 r).2.isFree = true ∧ (next1 r).2.filo = [] ∧
    (next1 r).2.linecount = (next1 r).2.sourceLines.length :=
  next1_free_linecount r hf hfilo hi

/-- C12: every item delivered by `get_item` has `1 ≤ first ≤ last ≤ linecount` of the reader
    (of the chain) that produced it, provided the buffered items did (`AllOK`, true initially and
    preserved by `get_item`). -/
theorem item_span_bounds (d : Nat) (fs : Fs) (st st' : List Rd) (x : Item) (h : AllOK st)
    (hg : getItem d fs st = (.ok x, st')) :
    AllOK st' ∧ ∃ r ∈ st', 1 ≤ x.first ∧ x.first ≤ x.last ∧ x.last ≤ r.linecount := by
  have hp := next_post fs d st
  unfold getItem at hg
  rw [hg] at hp
  exact ⟨hp.ok h, hp.item h x rfl⟩

/-- single reader version with the reader's own `linecount` -/
theorem item_span_bounds_single (r r' : Rd) (x : Item) (h : FifoOK r)
    (hg : next1 r = (.ok x, r')) :
    1 ≤ x.first ∧ x.first ≤ x.last ∧ x.last ≤ r'.linecount ∧ r.linecount ≤ r'.linecount := by
  have hp := next1_post r
  rw [hg] at hp
  have := hp.item h x rfl
  exact ⟨this.1, this.2.1, this.2.2, hp.le.lc⟩

/-! ## (d)/(e) free-form continuation, clean case -/

/-- C04 `join_continuation` (clean case: no quotes / `!` / `&` inside the pieces; arbitrary label
    and construct name on the first line; comment and blank lines between continuation lines;
    optional leading `&`; arbitrary indentation): `_next` delivers exactly ONE `Line` whose text
    is the stripped concatenation of the pieces, span = (first, last physical line); the comment
    lines inside the statement are queued behind it, each once, in order, with its own line number
    (C11 `read_comments_once` for one statement), and nothing else is consumed.
    Partial w.r.t. the design's `read_layout_invariant`: character literals cut by a continuation
    and the induction over a list of statements are not covered (validated by co-simulation). -/
theorem join_continuation (r0 : Rd) (l1 l2 : Str) (ls rest : List Str) (t1 b1 : Str)
    (lab : Option Nat) (nam : Option Str) (c : CLine) (cs : List CLine)
    (hfifo : r0.fifo = []) (h1 : r0.filo = []) (h2 : r0.closed = false) (h3 : r0.isFree = true)
    (h4 : r0.omp = false) (hsrc : r0.src = l1 :: l2 :: (ls ++ rest))
    (hcpp : startsWith (lstrip (cook l1)) ['#'] = false)
    (hlab : extractLabel (cook l1) = (lab, t1)) (hnam : extractName t1 = (nam, b1 ++ ['&']))
    (hb1 : CleanBody b1) (hc2 : cook l2 = c.text) (hck : Cooked ls cs) (hw : WFc (c :: cs))
    (hne : strip (b1 ++ joinPieces (c :: cs)) ≠ [])
    (hsemi : (stringReplaceMap (strip (b1 ++ joinPieces (c :: cs))) true).1.contains ';' = false) :
    next1 r0 =
      (.ok (.line (strip (b1 ++ joinPieces (c :: cs))) lab nam (r0.linecount + 1)
              (r0.linecount + 2 + cs.length)),
       { r0 with src := rest, linecount := r0.linecount + 2 + cs.length,
                 linesRev := ((l1 :: l2 :: ls).map cook).reverse ++ r0.linesRev,
                 fifo := joinComments (r0.linecount + 2) (c :: cs) }) := by
  have hg := getSourceItem_join r0 l1 l2 ls rest t1 b1 lab nam c cs hfifo h1 h2 h3 h4 hsrc hcpp hlab hnam
    hb1 hc2 hck hw hne
  refine next1_of_getSourceItem r0 _ _ hfifo hg (by simp [Item.isComment]) ?_
  intro text l nm s e hv
  simp only [Item.lineView, Option.some.injEq, Prod.mk.injEq] at hv
  rw [← hv.1]; exact hsemi

/-! ## non-vacuity and witnesses -/

/-- an instance of `join_continuation`: label, name, leading `&`, a comment and a blank line inside -/
example :
    next1 (Rd.mk' ["10 nm: x = &".toList, "  ! note".toList, "".toList, "   & a + &".toList, " b".toList,
                   "y = 2".toList] true false false false []) =
      (.ok (.line "x =  a +  b".toList (some 10) (some "nm".toList) 1 5),
       { Rd.mk' ["10 nm: x = &".toList, "  ! note".toList, "".toList, "   & a + &".toList, " b".toList,
                 "y = 2".toList] true false false false [] with
         src := ["y = 2".toList], linecount := 5,
         linesRev := [" b".toList, "   & a + &".toList, [], "  ! note".toList, "10 nm: x = &".toList],
         fifo := [.comment "! note".toList 2 2 false] }) := by
  have h := join_continuation
    (Rd.mk' ["10 nm: x = &".toList, "  ! note".toList, "".toList, "   & a + &".toList, " b".toList,
             "y = 2".toList] true false false false [])
    "10 nm: x = &".toList "  ! note".toList ["".toList, "   & a + &".toList, " b".toList] ["y = 2".toList]
    "nm: x = &".toList "x = ".toList (some 10) (some "nm".toList)
    (.comment "  ! note".toList)
    [.blank, .cont "   ".toList " a + ".toList true true, .cont " ".toList "b".toList false false]
    rfl rfl rfl rfl rfl rfl (by decide) (by decide) (by decide)
    (by unfold CleanBody NoC; decide) (by decide)
    (Cooked.cons (by decide) (Cooked.cons (by decide) (Cooked.cons (by decide) Cooked.nil)))
    (by simp only [WFc, CLine.ok, CLine.isLast, CleanBody, Blanks, NoC]; decide)
    (by decide) (by decide)
  rw [h]
  decide +kernel


def mkFree (src : List String) (ic : Bool := true) : List Rd :=
  [Rd.mk' (src.map String.toList) true ic false false []]
def mkFixed (src : List String) (ic : Bool := true) : List Rd :=
  [Rd.mk' (src.map String.toList) false ic false false []]

def evTexts (o : Option (List Ev × List Rd)) : List String :=
  match o with
  | none => ["<fuel>"]
  | some p => p.1.map fun
    | .item (.line t _ _ _ _) => String.ofList t
    | .item (.cpp t _ _) => "#cpp " ++ String.ofList t
    | .item (.synerr t _ _) => "#syn " ++ String.ofList t
    | .item (.comment t _ _ _) => "!" ++ String.ofList t
    | .none => "<None>"
    | .exit => "<exit>"
    | .unsup => "<unsup>"

/-- a fresh reader satisfies the invariants -/
example : AllOK (mkFree ["x = 1"]) ∧ ∀ r ∈ mkFree ["x = 1"], Inv r := by
  constructor
  · intro r hr; simp only [mkFree, List.mem_singleton] at hr; subst hr; exact mk'_ok _ _ _ _ _ _
  · intro r hr; simp only [mkFree, List.mem_singleton] at hr; subst hr; exact (mk'_ok _ _ _ _ _ _).1

/-- `returnable` holds for an ordinary statement item, fails for a `;` line -/
example : returnable [] (Rd.mk' [] true true false false []) (.line "x = 1".toList none none 1 1) = true := by
  decide +kernel
example : returnable [] (Rd.mk' [] true true false false []) (.line "x = 1; y = 2".toList none none 1 1) = false := by
  decide +kernel

/-- a concrete read-ahead walk: g g p p (instance of `walk_restore`'s hypothesis) -/
example : (runWalk 2 [] [.g, .g, .p, .p] (mkFree ["a = 1", "b = 2", "c = 3"]) []).isSome = true := by
  decide +kernel

/-- F-C04-2 is repaired at HEAD: the continuation line `'&' // c` keeps its first characters -/
example : evTexts (drainEv 3 [] 10 (mkFree ["a = b // &", "'&' // c"])) = ["a = b // '&' // c"] := by
  decide +kernel

/-- F-C04-1 is repaired at HEAD: `;`-separated statements keep the case of names … -/
example : evTexts (drainEv 3 [] 10 (mkFree ["Aa = Bb; Cc = 1"])) = ["Aa = Bb", "Cc = 1"] := by
  decide +kernel

/-- … while label and construct name are re-extracted for every part, span = the physical line -/
example : (drainEv 3 [] 10 (mkFree ["x = 1; 20 nm: do i = 1, 2"])).map (·.1) =
    some [.item (.line "x = 1".toList none none 1 1),
          .item (.line "do i = 1, 2".toList (some 20) (some "nm".toList) 1 1)] := by
  decide +kernel

/-- F-C12-1, leading `;`: repaired at HEAD (42102a3). An empty first part is skipped and a
    separators-only line reads on, so `x = 1` is delivered. -/
theorem leading_semicolon_repaired_witness :
    evTexts (drainEv 3 [] 10 (mkFree ["program p", "; x = 1", ";", " ; ; ", "y = 2", "end program p"])) =
      ["program p", "x = 1", "y = 2", "end program p"] := by
  decide +kernel

/-- F-C12-1 (still open): a label (or construct name) in front of an empty first part: `Line("")`
    raises inside `next`, the exception becomes `StopIteration`, `get_item` returns `None` once and
    `x = 1` is silently lost. -/
theorem label_semicolon_drops_statement_witness :
    evTexts (drainEv 3 [] 10 (mkFree ["program p", "10 ; x = 1", "y = 2", "end program p"])) =
      ["program p", "<None>", "y = 2", "end program p"] := by
  decide +kernel

/-- F-C12-1 (open), fixed form: a label field with an embedded blank (`int("1 2")`) -/
theorem fixed_label_blank_drops_statement_witness :
    evTexts (drainEv 3 [] 10 (mkFixed ["      x = 1", " 1 2  y = 2", "      z = 3"])) =
      ["x = 1", "<None>", "z = 3"] := by
  decide +kernel

/-- F-C12-1 (open): a label alone on the first line: the *warning* raises `IndexError`
    (`source_lines[-2]` with one line read) and the blank-statement comment is lost; on any
    later line the same input is delivered as an empty comment. -/
theorem label_only_first_line_witness :
    evTexts (drainEv 3 [] 10 (mkFree ["10", "x = 1"] false)) = ["<None>", "x = 1"] ∧
    evTexts (drainEv 3 [] 10 (mkFree ["x = 1", "10"] false)) = ["x = 1", "!"] := by
  decide +kernel

/-- C14 surprise: a preprocessor line is a `Line`, so `_next` splits it at `;` into *statements* -/
theorem cpp_semicolon_split_witness :
    evTexts (drainEv 3 [] 10 (mkFree ["#define X a;b", "y = 1"])) = ["#define X a", "b", "y = 1"] := by
  decide +kernel

/-- C14: a backslash-continued directive is one item spanning its lines -/
example : (drainEv 3 [] 10 (mkFree ["#define X \\", "  1", "y = 1"])).map (·.1) =
    some [.item (.cpp "#define X   1".toList 1 2), .item (.line "y = 1".toList none none 3 3)] := by
  decide +kernel

end Fp.Reader
