import FparserModel.Header
import FparserModel.Proofs.IoStmtLayoutCtl
import FparserModel.Proofs.IoStmtLayoutMisc
import FparserModel.Proofs.IoStmtLayoutCombi
import FparserModel.Proofs.IoStmtTotal
/-!
`*_tostr_match_tokens` (C02/C08), fixpoints (C01) and totality (C06) for the derived-type /
type-bound-procedure / procedure-declaration statements of the Header slice:
`Derived_Type_Stmt`, `Generic_Binding`, `Specific_Binding`, `Final_Binding` / `Import_Stmt` /
`Enumerator_Def_Stmt` (`WORDClsBase` with `tostr_a`), `Procedure_Declaration_Stmt`,
`Proc_Component_Def_Stmt`, `Proc_Decl` / `Association`.
-/
namespace Fp.Header
open Fp Fp.Splitline Fp.IoStmt

variable {Node : Type}

/-- toy oracle: nodes are texts, every class accepts every text as it is -/
def t_echoH : Oracle Str :=
  { call := fun _ t => .ok t, str := id, head := fun _ => none, rhsStr := fun _ => [],
    heads := fun _ => [], isDataEdit := fun _ => false }

theorem t_echoH_tok : OracleTok t_echoH := by
  intro c t n h
  have : t = n := by simpa [t_echoH] using h
  subst this; rfl

/-! ## helpers -/

theorem t_nameMatch_spec {s nm rest : Str} (h : nameMatch s = some (nm, rest)) : s = nm ++ rest := by
  unfold nameMatch at h
  split at h
  · cases h
  · split at h
    · cases h
      simp [List.takeWhile_append_dropWhile]
    · cases h

theorem t_parenEnds_shape {s : Str} (h : parenEnds s = true) : s = '(' :: inner s ++ [')'] := by
  unfold parenEnds at h
  split at h
  · rename_i a b ha hb
    have hc : a = '(' ∧ b = ')' := by simpa using h
    obtain ⟨rfl, rfl⟩ := hc
    exact paren_shape_ctl ha hb
  · cases h

theorem t_toks_parenEnds {s : Str} (h : parenEnds s = true) :
    toks s = toks "(".toList ++ (toks (inner s) ++ toks ")".toList) := by
  conv => lhs; rw [t_parenEnds_shape h]
  rw [List.cons_append, consL]
  simp only [toks_append]
  rfl

theorem t_toks_empty {x : Str} (h : x.isEmpty = true) : toks x = [] := toks_isEmpty h

theorem t_toks_cutSub2 {a b : Char} {s x y : Str} (h : cutSub2 a b s = some (x, y)) :
    toks s = toks x ++ (toks [a, b] ++ toks y) := by
  rw [cutSub2_spec _ _ _ h]
  have : x ++ a :: b :: y = x ++ ([a, b] ++ y) := rfl
  rw [this]; simp only [toks_append]

theorem t_net_none (o : Oracle Node) : net ((Item.none : Item Node).text o) = 0 := net_none_ctl o

/-! ## Derived_Type_Stmt -/

/-- the `step2` of `planDerivedType` (name and optional parameter list) -/
def t_step2 (attr : List Slot) (line : Str) : Res (List Slot) :=
  match nameMatch line with
  | none => .ok (attr ++ [.fail])
  | some (nm, rest) =>
    if (lstrip rest).isEmpty then .ok (attr ++ [Slot.child C.Type_Name nm, .none]) else
    if !parenEnds (lstrip rest) then .ok (attr ++ [Slot.child C.Type_Name nm, .fail]) else
    .ok (attr ++ [Slot.child C.Type_Name nm,
      .child C.Type_Param_Name_List (strip (inner (lstrip rest)))])

theorem t_planDerivedType_eq (s : Str) : planDerivedType s =
    (if !kwIs "TYPE".toList (strip s) then .noMatch else
     match cutSub2 ':' ':' (lstrip ((strip s).drop 4)) with
     | none => t_step2 [.none] (lstrip ((strip s).drop 4))
     | some (pre, post) =>
       if startsC ',' (lstrip ((strip s).drop 4)) then
         if (strip (pre.drop 1)).isEmpty then .noMatch
         else t_step2 [.child C.Type_Attr_Spec_List (strip (pre.drop 1))] (lstrip post)
       else if !(strip pre).isEmpty then .noMatch
       else t_step2 [.none] (lstrip post)) := rfl

/-- the text after `TYPE` contains `::` -/
def DtColons (s : Str) : Bool := (cutSub2 ':' ':' (lstrip ((strip s).drop 4))).isSome

theorem t_step2_spec (o : Oracle Node) (ho : OracleTok o) (a : Slot) (line : Str) (slots : List Slot)
    (h : t_step2 [a] line = .ok slots) (items : List (Item Node)) (hr : runSlots o slots = .ok items) :
    ∃ ia n p, items = [ia, .node n, p] ∧ runSlot o a = .ok ia ∧
      ((p = .none ∧ toks line = toks (o.str n)) ∨
       (∃ q, p = .node q ∧
          toks line = toks (o.str n) ++ (toks "(".toList ++ (toks (o.str q) ++ toks ")".toList)))) := by
  unfold t_step2 at h
  split at h
  · cases h
    obtain ⟨i, j, rfl, _, hj⟩ := run2 hr
    exact absurd hj (runSlot_fail o j)
  rename_i nm rest hnm
  have hline := t_nameMatch_spec hnm
  split at h
  · rename_i hemp
    cases h
    obtain ⟨i, j, k, rfl, hi, hj, hk⟩ := run3 hr
    have hj' := toks_item_of_child ho hj
    obtain ⟨n, rfl, _⟩ := runSlot_child_ok hj
    have := runSlot_none_ok hk; subst this
    refine ⟨i, n, .none, rfl, hi, .inl ⟨rfl, ?_⟩⟩
    have : toks rest = [] := by rw [← toks_lstrip]; exact t_toks_empty hemp
    rw [hline, toks_append, this, List.append_nil]; exact hj'.symm
  split at h
  · cases h
    obtain ⟨i, j, k, rfl, _, _, hk⟩ := run3 hr
    exact absurd hk (runSlot_fail o k)
  rename_i hpe
  have hpe' : parenEnds (lstrip rest) = true := by simpa using hpe
  cases h
  obtain ⟨i, j, k, rfl, hi, hj, hk⟩ := run3 hr
  have hj' := toks_item_of_child ho hj
  have hk' := toks_item_of_child ho hk
  obtain ⟨n, rfl, _⟩ := runSlot_child_ok hj
  obtain ⟨q, rfl, _⟩ := runSlot_child_ok hk
  refine ⟨i, n, .node q, rfl, hi, .inr ⟨q, rfl, ?_⟩⟩
  simp only [Item.text] at hj' hk'
  rw [hline, toks_append, ← toks_lstrip rest, t_toks_parenEnds hpe', hj', hk', toks_strip]

theorem t_drop4 (X : Str) : (toks "TYPE".toList ++ X).drop 4 = X := by
  have : toks "TYPE".toList = ['T', 'Y', 'P', 'E'] := by decide
  rw [this]; rfl

/-- **Derived_Type_Stmt**: the printer ALWAYS writes `::`.  Exact relation: the printed text has
    the tokens of the input when the input has `::` after `TYPE`, otherwise the tokens of the
    input with `::` inserted after the keyword (`type t` → `TYPE :: t`). -/
theorem Derived_Type_Stmt_tostr_match_tokens (o : Oracle Node) (ho : OracleTok o) (s : Str)
    (items : List (Item Node)) (hm : (planDerivedType s).bind (runSlots o) = .ok items) :
    ∃ t, tostrDerivedType o items = .ok t ∧
      toks t = (if DtColons s then toks s
                else toks "TYPE".toList ++ (toks "::".toList ++ (toks s).drop 4)) ∧
      ((∀ i ∈ items, net (i.text o) = 0) → net t = 0) := by
  obtain ⟨slots, hp, hr⟩ := Res.bind_eq_ok hm
  rw [t_planDerivedType_eq] at hp
  split at hp
  · cases hp
  rename_i hkw
  have hS : toks s = toks "TYPE".toList ++ toks (lstrip ((strip s).drop 4)) := by
    rw [← toks_strip s, toks_of_kwIs (kwIs_of_not (by simpa using hkw)), toks_lstrip]; rfl
  have k1 : toks "TYPE :: ".toList = toks "TYPE".toList ++ toks "::".toList := by decide
  have k2 : toks "TYPE, ".toList = toks "TYPE".toList ++ toks ",".toList := by decide
  have k3 : toks " :: ".toList = toks "::".toList := by decide
  have k4 : toks [':', ':'] = toks "::".toList := rfl
  have n1 : net "TYPE :: ".toList = 0 := by decide
  have n2 : net "TYPE, ".toList = 0 := by decide
  have n3 : net " :: ".toList = 0 := by decide
  -- the two printers' tails
  have fin : ∀ (ia : Item Node) (n : Node) (p : Item Node) (line head : Str),
      ((p = .none ∧ toks line = toks (o.str n)) ∨
       (∃ q, p = .node q ∧
          toks line = toks (o.str n) ++ (toks "(".toList ++ (toks (o.str q) ++ toks ")".toList)))) →
      ∃ t, (match p with
            | .none => Res.ok (head ++ o.str n)
            | p => .ok (head ++ o.str n ++ "(".toList ++ p.text o ++ ")".toList)) = .ok t ∧
        toks t = toks head ++ toks line ∧
        (net head = 0 → net (o.str n) = 0 → net (p.text o) = 0 → net t = 0) := by
    intro ia n p line head hcase
    rcases hcase with ⟨rfl, hl⟩ | ⟨q, rfl, hl⟩
    · refine ⟨_, rfl, ?_, ?_⟩
      · rw [toks_append, hl]
      · intro h1 h2 _; rw [net_append, h1, h2]; rfl
    · refine ⟨_, rfl, ?_, ?_⟩
      · simp only [toks_append, hl, Item.text, List.append_assoc]
      · intro h1 h2 h3
        simp only [Item.text] at h3
        simp only [net_append, h1, h2, h3, net_lp, net_rp, Item.text]; rfl
  split at hp
  · -- no `::`
    rename_i hcut
    have hdc : DtColons s = false := by simp [DtColons, hcut]
    obtain ⟨ia, n, p, rfl, hia, hcase⟩ := t_step2_spec o ho _ _ _ hp items hr
    have := runSlot_none_ok hia; subst this
    obtain ⟨t, ht, htk, hnet⟩ := fin .none n p _ "TYPE :: ".toList hcase
    refine ⟨t, ?_, ?_, ?_⟩
    · rw [← ht]; cases p <;> rfl
    · rw [hdc, htk, hS, t_drop4, k1]; simp
    · intro hb
      exact hnet n1 (hb (.node n) (by simp)) (hb p (by simp))
  · rename_i pre post hcut
    have hdc : DtColons s = true := by simp [DtColons, hcut]
    have hL := t_toks_cutSub2 hcut
    rw [k4] at hL
    split at hp
    · rename_i hcomma
      obtain ⟨l1, hl1⟩ := startsC_cons hcomma
      have hpre : ∃ pre', pre = ',' :: pre' := by
        have e := cutSub2_spec _ _ _ hcut
        rw [hl1] at e
        cases pre with
        | nil => simp at e
        | cons d pre' =>
          have : d = ',' := by
            have := congrArg List.head? e; simpa using this.symm
          exact ⟨pre', by rw [this]⟩
      obtain ⟨pre', rfl⟩ := hpre
      split at hp
      · cases hp
      obtain ⟨ia, n, p, rfl, hia, hcase⟩ := t_step2_spec o ho _ _ _ hp items hr
      have hia' := toks_item_of_child ho hia
      obtain ⟨na, rfl, _⟩ := runSlot_child_ok hia
      simp only [Item.text, List.drop_succ_cons, List.drop_zero, toks_strip] at hia'
      obtain ⟨t, ht, htk, hnet⟩ :=
        fin (.node na) n p _ ("TYPE, ".toList ++ o.str na ++ " :: ".toList) hcase
      refine ⟨t, ?_, ?_, ?_⟩
      · rw [← ht]; cases p <;> simp [tostrDerivedType, Item.text, List.append_assoc]
      · rw [hdc, htk, hS, hL, consC]
        simp only [toks_append, k2, k3, hia', toks_lstrip, List.append_assoc, if_true]
      · intro hb
        have h1 := hb (.node na) (by simp)
        simp only [Item.text] at h1
        refine hnet ?_ (hb (.node n) (by simp)) (hb p (by simp))
        simp only [net_append, n2, n3, h1]; rfl
    · split at hp
      · cases hp
      rename_i hpe
      have hpe' : toks pre = [] := by
        rw [← toks_strip]; exact t_toks_empty (by simpa using hpe)
      obtain ⟨ia, n, p, rfl, hia, hcase⟩ := t_step2_spec o ho _ _ _ hp items hr
      have := runSlot_none_ok hia; subst this
      obtain ⟨t, ht, htk, hnet⟩ := fin .none n p _ "TYPE :: ".toList hcase
      refine ⟨t, ?_, ?_, ?_⟩
      · rw [← ht]; cases p <;> rfl
      · rw [hdc, htk, hS, hL, hpe', k1]
        simp only [toks_lstrip, List.append_assoc, List.nil_append, if_true]
      · intro hb
        exact hnet n1 (hb (.node n) (by simp)) (hb p (by simp))

/-- `typet` (keyword and name GLUED) is accepted: `kwIs "TYPE"` looks at four characters only and
    `nameMatch` takes the rest; printed `TYPE :: t` -/
theorem Derived_Type_Stmt_glued_witness :
    (planDerivedType "typet".toList).bind (runSlots t_echoH)
      = .ok [.none, .node "t".toList, .none] ∧
    tostrDerivedType t_echoH [.none, .node "t".toList, .none] = .ok "TYPE :: t".toList ∧
    DtColons "typet".toList = false := by
  decide +kernel

example : (planDerivedType "type, abstract :: t(k)".toList).bind (runSlots t_echoH)
      = .ok [.node "abstract".toList, .node "t".toList, .node "k".toList] ∧
    DtColons "type, abstract :: t(k)".toList = true := by
  decide +kernel

/-! ## Generic_Binding -/

/-- nothing but blanks between `GENERIC` and `::` unless the text starts with a comma (the real
    `match` IGNORES `line[:i]` when the line does not start with `,`) -/
def GbPrefixOK (s : Str) : Bool :=
  match cutSub2 ':' ':' (lstrip (s.drop 7)) with
  | none => true
  | some (pre, _) => startsC ',' (lstrip (s.drop 7)) || (strip pre).isEmpty

/-- kept under its old name: since /repo 98a89ee (`line[i + 2:]`) the only condition left is the one on
    the text before `::` (the former second conjunct "a blank follows `=>`" is gone) -/
def GbOK (s : Str) : Bool := GbPrefixOK s

theorem t_toks_all_space {w : Str} (h : w.all isSpace = true) : toks w = [] :=
  toks_blanks (by simpa using h)

/-- **Generic_Binding**, exact relation for ALL accepted inputs: the printed tokens are those of the
    input with the text `p` between `GENERIC` and `::` removed (it is blank unless the input has
    junk there and no leading comma).  Nothing is lost at `=>` any more (/repo 98a89ee). -/
theorem Generic_Binding_exact (o : Oracle Node) (ho : OracleTok o) (s : Str)
    (items : List (Item Node)) (hm : (planGenericBinding s).bind (runSlots o) = .ok items) :
    ∃ t, tostrGenericBinding o items = .ok t ∧
      (∃ a p b : Str, toks s = a ++ (toks p ++ b) ∧ toks t = a ++ b ∧
        (GbPrefixOK s = true → toks p = [])) ∧
      ((∀ i ∈ items, net (i.text o) = 0) → net t = 0) := by
  obtain ⟨slots, hp, hr⟩ := Res.bind_eq_ok hm
  unfold planGenericBinding at hp
  split at hp
  · cases hp
  rename_i hkw
  have hS : toks s = toks "GENERIC".toList ++ toks (lstrip (s.drop 7)) := by
    rw [toks_of_kwIs (kwIs_of_not (by simpa using hkw)), toks_lstrip]; rfl
  dsimp only at hp
  split at hp
  · cases hp
  rename_i pre post hcut
  have hL := t_toks_cutSub2 hcut
  have k4 : toks [':', ':'] = toks "::".toList := rfl
  have k5 : toks ['=', '>'] = toks "=>".toList := rfl
  rw [k4] at hL
  cases hcut2 : cutSub2 '=' '>' (lstrip post) with
  | none =>
    simp only [hcut2] at hp
    cases hp
    exfalso
    by_cases hc : startsC ',' (lstrip (s.drop 7)) = true
    · simp only [hc, if_true, List.cons_append, List.nil_append] at hr
      obtain ⟨i, j, rfl, _, hj⟩ := run2 hr
      exact runSlot_fail o j hj
    · simp only [hc, List.cons_append, List.nil_append] at hr
      obtain ⟨i, j, rfl, _, hj⟩ := run2 hr
      exact runSlot_fail o j hj
  | some lr =>
    obtain ⟨l, r⟩ := lr
    simp only [hcut2] at hp
    cases hp
    have hP := t_toks_cutSub2 hcut2
    rw [k5, toks_lstrip] at hP
    have k1 : toks "GENERIC :: ".toList = toks "GENERIC".toList ++ toks "::".toList := by decide
    have k2 : toks "GENERIC, ".toList = toks "GENERIC".toList ++ toks ",".toList := by decide
    have k3 : toks " :: ".toList = toks "::".toList := by decide
    have k6 : toks " => ".toList = toks "=>".toList := by decide
    have n1 : net "GENERIC :: ".toList = 0 := by decide
    have n2 : net "GENERIC, ".toList = 0 := by decide
    have n3 : net " :: ".toList = 0 := by decide
    have n4 : net " => ".toList = 0 := by decide
    by_cases hc : startsC ',' (lstrip (s.drop 7)) = true
    · simp only [hc, if_true, List.cons_append, List.nil_append] at hr
      obtain ⟨l1, hl1⟩ := startsC_cons hc
      have hpre : ∃ pre', pre = ',' :: pre' := by
        have e := cutSub2_spec _ _ _ hcut
        rw [hl1] at e
        cases pre with
        | nil => simp at e
        | cons d pre' =>
          have : d = ',' := by
            have := congrArg List.head? e; simpa using this.symm
          exact ⟨pre', by rw [this]⟩
      obtain ⟨pre', rfl⟩ := hpre
      obtain ⟨i, j, k, rfl, hi, hj, hk⟩ := run3 hr
      have hi' := toks_item_of_child ho hi
      have hj' := toks_item_of_child ho hj
      have hk' := toks_item_of_child ho hk
      obtain ⟨ni, rfl, _⟩ := runSlot_child_ok hi
      obtain ⟨nj, rfl, _⟩ := runSlot_child_ok hj
      obtain ⟨nk, rfl, _⟩ := runSlot_child_ok hk
      simp only [Item.text, List.drop_succ_cons, List.drop_zero, toks_strip, toks_rstrip,
        toks_lstrip] at hi' hj' hk'
      refine ⟨_, rfl, ⟨toks "GENERIC".toList, [],
        toks ",".toList ++ (toks pre' ++ (toks "::".toList ++ (toks l ++ (toks "=>".toList ++ toks r)))),
        ?_, ?_, fun _ => rfl⟩, ?_⟩
      · rw [hS, hL, hP, consC]
        simp only [toks_append, toks_nil, List.append_assoc, List.nil_append]
      · simp only [toks_append, Item.text, k2, k3, k6, hi', hj', hk', List.append_assoc]
      · intro hb
        have h1 := hb (.node ni) (by simp)
        have h2 := hb (.node nj) (by simp)
        have h3 := hb (.node nk) (by simp)
        simp only [Item.text] at h1 h2 h3
        simp only [net_append, Item.text, n2, n3, n4, h1, h2, h3]; rfl
    · simp only [hc, List.cons_append, List.nil_append] at hr
      obtain ⟨i, j, k, rfl, hi, hj, hk⟩ := run3 hr
      have := runSlot_none_ok hi; subst this
      have hj' := toks_item_of_child ho hj
      have hk' := toks_item_of_child ho hk
      obtain ⟨nj, rfl, _⟩ := runSlot_child_ok hj
      obtain ⟨nk, rfl, _⟩ := runSlot_child_ok hk
      simp only [Item.text, toks_rstrip, toks_lstrip] at hj' hk'
      have hPre : GbPrefixOK s = true → toks pre = [] := by
        intro h
        simp only [GbPrefixOK, hcut] at h
        have : (strip pre).isEmpty = true := by simpa [hc] using h
        rw [← toks_strip]; exact t_toks_empty this
      refine ⟨_, rfl, ⟨toks "GENERIC".toList, pre,
        toks "::".toList ++ (toks l ++ (toks "=>".toList ++ toks r)), ?_, ?_, hPre⟩, ?_⟩
      · rw [hS, hL, hP]
      · simp only [toks_append, Item.text, k1, k6, hj', hk', List.append_assoc]
      · intro hb
        have h2 := hb (.node nj) (by simp)
        have h3 := hb (.node nk) (by simp)
        simp only [Item.text] at h2 h3
        simp only [net_append, Item.text, n1, n4, h2, h3]; rfl

/- full statement (still FALSE for the real code: the text before `::` is not checked, witness
   `Generic_Binding_drops_prefix`):
   theorem Generic_Binding_tostr_match_tokens … : ∃ t, tostrGenericBinding o items = .ok t ∧ toks t = toks s ∧ … -/

/-- **Generic_Binding** under `GbOK` (= `GbPrefixOK`: nothing between `GENERIC` and `::` unless a
    leading comma; NO condition on `=>` any more since /repo 98a89ee): the printed text has exactly
    the tokens of the input -/
theorem Generic_Binding_tostr_match_tokens_partial (o : Oracle Node) (ho : OracleTok o) (s : Str)
    (items : List (Item Node)) (hm : (planGenericBinding s).bind (runSlots o) = .ok items)
    (hok : GbOK s = true) :
    ∃ t, tostrGenericBinding o items = .ok t ∧ toks t = toks s ∧
      ((∀ i ∈ items, net (i.text o) = 0) → net t = 0) := by
  obtain ⟨t, ht, ⟨a, p, b, e1, e2, hp⟩, hn⟩ := Generic_Binding_exact o ho s items hm
  refine ⟨t, ht, ?_, hn⟩
  rw [e1, e2, hp hok]; simp

/-- REGRESSION witnesses for /repo 98a89ee (`line[i + 3:]` → `line[i + 2:]`): `generic :: a =>xb` now
    binds `xb` (was: `b`, the `x` silently dropped), `generic :: a=>b` and `generic::a=>b` are now
    accepted (were: `Binding_Name_List("")`, rejected); all three keep their tokens -/
theorem Generic_Binding_arrow_regression :
    (planGenericBinding "generic :: a =>xb".toList).bind (runSlots t_echoH)
      = .ok [.none, .node "a".toList, .node "xb".toList] ∧
    tostrGenericBinding t_echoH [.none, .node "a".toList, .node "xb".toList]
      = .ok "GENERIC :: a => xb".toList ∧
    toks "GENERIC :: a => xb".toList = toks "generic :: a =>xb".toList ∧
    (planGenericBinding "generic :: a=>b".toList).bind (runSlots t_echoH)
      = .ok [.none, .node "a".toList, .node "b".toList] ∧
    planGenericBinding "generic::a=>b".toList
      = .ok [.none, .child C.Generic_Spec "a".toList, .child C.Binding_Name_List "b".toList] ∧
    GbOK "generic :: a =>xb".toList = true ∧ GbOK "generic::a=>b".toList = true := by
  decide +kernel

/-- STILL TRUE after 98a89ee: `generic xyz :: a => b` (and `genericxyz :: a => b`): the text between
    the keyword and `::` is silently DROPPED when it does not start with a comma -/
theorem Generic_Binding_drops_prefix :
    (planGenericBinding "generic xyz :: a => b".toList).bind (runSlots t_echoH)
      = .ok [.none, .node "a".toList, .node "b".toList] ∧
    tostrGenericBinding t_echoH [.none, .node "a".toList, .node "b".toList]
      = .ok "GENERIC :: a => b".toList ∧
    toks "GENERIC :: a => b".toList ≠ toks "generic xyz :: a => b".toList ∧
    GbPrefixOK "generic xyz :: a => b".toList = false ∧
    (planGenericBinding "genericxyz :: a => b".toList).bind (runSlots t_echoH)
      = .ok [.none, .node "a".toList, .node "b".toList] := by
  decide +kernel

example : (planGenericBinding "generic, public :: a => b, c".toList).bind (runSlots t_echoH)
      = .ok [.node "public".toList, .node "a".toList, .node "b, c".toList] ∧
    GbOK "generic, public :: a => b, c".toList = true := by
  decide +kernel

/-! ## Specific_Binding -/

theorem t_run5 {o : Oracle Node} {a b c d e : Slot} {items : List (Item Node)}
    (h : runSlots o [a, b, c, d, e] = .ok items) :
    ∃ i j k l m, items = [i, j, k, l, m] ∧ runSlot o a = .ok i ∧ runSlot o b = .ok j ∧
      runSlot o c = .ok k ∧ runSlot o d = .ok l ∧ runSlot o e = .ok m := by
  obtain ⟨i, is, rfl, hi, his⟩ := runSlots_cons_ok h
  obtain ⟨j, k, l, m, rfl, hj, hk, hl, hm⟩ := run4 his
  exact ⟨i, j, k, l, m, rfl, hi, hj, hk, hl, hm⟩

/-- the `cont` of `planSpecificBinding` (the `=>` part) -/
def t_sbCont (hasI sa : Bool) (a b c : Slot) (dcolon : Bool) (line : Str) : Res (List Slot) :=
  if !hasI && !dcolon && !sa then .ok ([a, b, c] ++ [.fail]) else
  match cutSub2 '=' '>' line with
  | some (l, r) =>
    if !dcolon then .ok ([a, b, c] ++ [Slot.child C.Procedure_Name (lstrip r), .fail]) else
    if hasI then .ok ([a, b, c] ++ [Slot.child C.Procedure_Name (lstrip r), .fail]) else
    .ok ([a, b, c] ++ [Slot.child C.Procedure_Name (lstrip r), .child C.Binding_Name (rstrip l)])
  | none => .ok ([a, b, c] ++ [.none, .child C.Binding_Name line])

/-- the `step3` of `planSpecificBinding` (the `::` part) -/
def t_sb3 (sa : Bool) (iS : Slot) (line : Str) : Res (List Slot) :=
  match cutSub2 ':' ':' line with
  | some (pre, post) =>
    if startsC ',' line then
      t_sbCont (iS != Slot.none) sa iS (.child C.Binding_Attr_List (strip (pre.drop 1)))
        (.str "::".toList) true (lstrip post)
    else if !(strip pre).isEmpty then .ok [iS, .fail]
    else t_sbCont (iS != Slot.none) sa iS .none (.str "::".toList) true (lstrip post)
  | none => t_sbCont (iS != Slot.none) sa iS .none .none false line

theorem t_planSpecificBinding_eq (s : Str) : planSpecificBinding s =
    (if !kwIs "PROCEDURE".toList (strip s) then .noMatch else
     if (strip s).length < 11 then .noMatch else
     if startsC '(' (lstrip ((strip s).drop 9)) then
       match Combi.cutFirst ')' (lstrip ((strip s).drop 9)) with
       | none => .noMatch
       | some (pre, post) =>
         t_sb3 (((strip s).drop 9).head? == some ' ')
           (.child C.Interface_Name (strip (pre.drop 1))) (lstrip post)
     else t_sb3 (((strip s).drop 9).head? == some ' ') .none (lstrip ((strip s).drop 9))) := rfl

def t_sbS2 (o : Oracle Node) (s1 : Str) (l d : Item Node) : Str :=
  match l, d with
  | .none, .none => s1
  | .none, d => s1 ++ " ".toList ++ d.text o
  | _, .none => s1
  | l, d => s1 ++ ", ".toList ++ l.text o ++ " ".toList ++ d.text o

def t_sbS3 (o : Oracle Node) (s2 : Str) (n p : Item Node) : Str :=
  match p with
  | .none => s2 ++ " ".toList ++ n.text o
  | p => s2 ++ " ".toList ++ n.text o ++ " => ".toList ++ p.text o

def t_sbS1 (o : Oracle Node) (i : Item Node) : Str :=
  match i with
  | .none => "PROCEDURE".toList
  | i => "PROCEDURE".toList ++ "(".toList ++ i.text o ++ ")".toList

theorem t_tostrSpecificBinding_eq (o : Oracle Node) (i l d n p : Item Node) :
    tostrSpecificBinding o [i, l, d, n, p] = .ok (t_sbS3 o (t_sbS2 o (t_sbS1 o i) l d) n p) := by
  cases p <;> rfl

theorem t_sbCont_spec (o : Oracle Node) (ho : OracleTok o) (hasI sa : Bool) (a b c : Slot) (dc : Bool)
    (line : Str) (slots : List Slot) (h : t_sbCont hasI sa a b c dc line = .ok slots)
    (items : List (Item Node)) (hr : runSlots o slots = .ok items) :
    ∃ ia ib ic p n, items = [ia, ib, ic, p, .node n] ∧ runSlot o a = .ok ia ∧ runSlot o b = .ok ib ∧
      runSlot o c = .ok ic ∧
      ∀ s2, toks (t_sbS3 o s2 (.node n) p) = toks s2 ++ toks line ∧
        (net (p.text o) = 0 → net (o.str n) = 0 → net (t_sbS3 o s2 (.node n) p) = net s2) := by
  have k0 : toks " ".toList = [] := by decide
  have k6 : toks " => ".toList = toks "=>".toList := by decide
  have k5 : toks ['=', '>'] = toks "=>".toList := rfl
  have n0 : net " ".toList = 0 := by decide
  have n4 : net " => ".toList = 0 := by decide
  unfold t_sbCont at h
  split at h
  · cases h
    obtain ⟨i, j, k, l, rfl, _, _, _, hl⟩ := run4 hr
    exact absurd hl (runSlot_fail o l)
  split at h
  · rename_i l r hcut
    have hP := t_toks_cutSub2 hcut
    rw [k5] at hP
    split at h
    · cases h
      obtain ⟨i, j, k, l, m, rfl, _, _, _, _, hm⟩ := t_run5 hr
      exact absurd hm (runSlot_fail o m)
    split at h
    · cases h
      obtain ⟨i, j, k, l, m, rfl, _, _, _, _, hm⟩ := t_run5 hr
      exact absurd hm (runSlot_fail o m)
    cases h
    obtain ⟨i, j, k, p, m, rfl, hi, hj, hk, hp, hm⟩ := t_run5 hr
    have hp' := toks_item_of_child ho hp
    have hm' := toks_item_of_child ho hm
    obtain ⟨np, rfl, _⟩ := runSlot_child_ok hp
    obtain ⟨nm, rfl, _⟩ := runSlot_child_ok hm
    simp only [Item.text, toks_lstrip, toks_rstrip] at hp' hm'
    refine ⟨i, j, k, .node np, nm, rfl, hi, hj, hk, fun s2 => ⟨?_, ?_⟩⟩
    · simp only [t_sbS3, Item.text, toks_append, k0, k6, hP, hp', hm', List.append_assoc,
        List.nil_append]
    · intro h1 h2
      simp only [Item.text] at h1
      simp only [t_sbS3, Item.text, net_append, n0, n4, h1, h2]; omega
  · cases h
    obtain ⟨i, j, k, p, m, rfl, hi, hj, hk, hp, hm⟩ := t_run5 hr
    have := runSlot_none_ok hp; subst this
    have hm' := toks_item_of_child ho hm
    obtain ⟨nm, rfl, _⟩ := runSlot_child_ok hm
    simp only [Item.text] at hm'
    refine ⟨i, j, k, .none, nm, rfl, hi, hj, hk, fun s2 => ⟨?_, ?_⟩⟩
    · simp only [t_sbS3, Item.text, toks_append, k0, hm', List.append_assoc, List.nil_append]
    · intro _ h2
      simp only [t_sbS3, Item.text, net_append, n0, h2]; omega

theorem t_sb3_spec (o : Oracle Node) (ho : OracleTok o) (sa : Bool) (iS : Slot)
    (line : Str) (slots : List Slot) (h : t_sb3 sa iS line = .ok slots)
    (items : List (Item Node)) (hr : runSlots o slots = .ok items) :
    ∃ i l d p n, items = [i, l, d, p, .node n] ∧ runSlot o iS = .ok i ∧
      ∀ s1, toks (t_sbS3 o (t_sbS2 o s1 l d) (.node n) p) = toks s1 ++ toks line ∧
        (net (l.text o) = 0 → net (p.text o) = 0 → net (o.str n) = 0 →
          net (t_sbS3 o (t_sbS2 o s1 l d) (.node n) p) = net s1) := by
  have k4 : toks [':', ':'] = toks "::".toList := rfl
  have k1 : toks ", ".toList = toks ",".toList := by decide
  have k0 : toks " ".toList = [] := by decide
  have n0 : net " ".toList = 0 := by decide
  have n1 : net ", ".toList = 0 := by decide
  have n2 : net "::".toList = 0 := by decide
  unfold t_sb3 at h
  split at h
  · rename_i pre post hcut
    have hL := t_toks_cutSub2 hcut
    rw [k4] at hL
    split at h
    · rename_i hcomma
      obtain ⟨l1, hl1⟩ := startsC_cons hcomma
      have hpre : ∃ pre', pre = ',' :: pre' := by
        have e := cutSub2_spec _ _ _ hcut
        rw [hl1] at e
        cases pre with
        | nil => simp at e
        | cons d pre' =>
          have : d = ',' := by
            have := congrArg List.head? e; simpa using this.symm
          exact ⟨pre', by rw [this]⟩
      obtain ⟨pre', rfl⟩ := hpre
      obtain ⟨ia, ib, ic, p, n, rfl, hia, hib, hic, hsp⟩ := t_sbCont_spec o ho _ _ _ _ _ _ _ _ h items hr
      have hib' := toks_item_of_child ho hib
      obtain ⟨nb, rfl, _⟩ := runSlot_child_ok hib
      have := runSlot_str_ok hic; subst this
      simp only [Item.text, List.drop_succ_cons, List.drop_zero, toks_strip] at hib'
      refine ⟨ia, .node nb, .str "::".toList, p, n, rfl, hia, fun s1 => ⟨?_, ?_⟩⟩
      · rw [(hsp _).1, hL, consC]
        simp only [t_sbS2, Item.text, toks_append, k0, k1, hib', toks_lstrip, List.append_assoc,
          List.nil_append]
      · intro h1 h2 h3
        rw [(hsp _).2 h2 h3]
        simp only [Item.text] at h1
        simp only [t_sbS2, Item.text, net_append, n0, n1, n2, h1]; omega
    split at h
    · cases h
      obtain ⟨i, j, rfl, _, hj⟩ := run2 hr
      exact absurd hj (runSlot_fail o j)
    rename_i hpe
    have hpe' : toks pre = [] := by
      rw [← toks_strip]; exact t_toks_empty (by simpa using hpe)
    obtain ⟨ia, ib, ic, p, n, rfl, hia, hib, hic, hsp⟩ := t_sbCont_spec o ho _ _ _ _ _ _ _ _ h items hr
    have := runSlot_none_ok hib; subst this
    have := runSlot_str_ok hic; subst this
    refine ⟨ia, .none, .str "::".toList, p, n, rfl, hia, fun s1 => ⟨?_, ?_⟩⟩
    · rw [(hsp _).1, hL, hpe']
      simp only [t_sbS2, Item.text, toks_append, k0, toks_lstrip, List.append_assoc,
        List.nil_append]
    · intro h1 h2 h3
      rw [(hsp _).2 h2 h3]
      simp only [t_sbS2, Item.text, net_append, n0, n2]; omega
  · obtain ⟨ia, ib, ic, p, n, rfl, hia, hib, hic, hsp⟩ := t_sbCont_spec o ho _ _ _ _ _ _ _ _ h items hr
    have := runSlot_none_ok hib; subst this
    have := runSlot_none_ok hic; subst this
    refine ⟨ia, .none, .none, p, n, rfl, hia, fun s1 => ⟨?_, ?_⟩⟩
    · rw [(hsp _).1]; rfl
    · intro h1 h2 h3
      rw [(hsp _).2 h2 h3]; rfl

/-- **Specific_Binding** (`PROCEDURE [(iface)] [[, attrs] ::] name [=> proc]`), all branches: the
    printed text has exactly the tokens of the input (FULL) -/
theorem Specific_Binding_tostr_match_tokens (o : Oracle Node) (ho : OracleTok o) (s : Str)
    (items : List (Item Node))
    (hm : ((planSpecificBinding s).bind (runSlots o)).map arrangeSpecificBinding = .ok items) :
    ∃ t, tostrSpecificBinding o items = .ok t ∧ toks t = toks s ∧
      ((∀ i ∈ items, net (i.text o) = 0) → net t = 0) := by
  obtain ⟨items0, hm0, rfl⟩ := Res.map_eq_ok hm
  obtain ⟨slots, hp, hr⟩ := Res.bind_eq_ok hm0
  rw [t_planSpecificBinding_eq] at hp
  split at hp
  · cases hp
  rename_i hkw
  have hS : toks s = toks "PROCEDURE".toList ++ toks (lstrip ((strip s).drop 9)) := by
    rw [← toks_strip s, toks_of_kwIs (kwIs_of_not (by simpa using hkw)), toks_lstrip]; rfl
  split at hp
  · cases hp
  split at hp
  · rename_i hst
    split at hp
    · cases hp
    rename_i pre post hcut
    obtain ⟨htext, _⟩ := Combi.cutFirst_spec _ _ _ hcut
    obtain ⟨pre', rfl⟩ := head_of_append_cons (c := '(') (d := ')') (by decide)
      (by simpa [startsC] using hst) htext
    obtain ⟨i, l, d, p, n, rfl, hi, hsp⟩ := t_sb3_spec o ho _ _ _ _ hp items0 hr
    have hi' := toks_item_of_child ho hi
    obtain ⟨ni, rfl, _⟩ := runSlot_child_ok hi
    simp only [Item.text, List.drop_succ_cons, List.drop_zero, toks_strip] at hi'
    obtain ⟨e1, e2⟩ := hsp (t_sbS1 o (.node ni))
    have harr : arrangeSpecificBinding [Item.node ni, l, d, p, .node n] = [.node ni, l, d, .node n, p] := rfl
    rw [harr]
    refine ⟨t_sbS3 o (t_sbS2 o (t_sbS1 o (.node ni)) l d) (.node n) p,
      t_tostrSpecificBinding_eq o _ _ _ _ _, ?_, ?_⟩
    · show toks (t_sbS3 o (t_sbS2 o (t_sbS1 o (.node ni)) l d) (.node n) p) = toks s
      have hs1 : t_sbS1 o (.node ni) = "PROCEDURE".toList ++ "(".toList ++ o.str ni ++ ")".toList := rfl
      have hT : toks (lstrip (List.drop 9 (strip s))) =
          toks "(".toList ++ (toks pre' ++ (toks ")".toList ++ toks post)) := by
        rw [htext, List.cons_append, consL, consR]
        simp only [toks_append]
      rw [e1, hS, hT, hs1]
      simp only [toks_append, hi', toks_lstrip, List.append_assoc]
    · intro hb
      have h0 := hb (.node ni) (by simp)
      simp only [Item.text] at h0
      rw [e2 (hb l (by simp)) (hb p (by simp)) (hb (.node n) (by simp))]
      have n9 : net "PROCEDURE".toList = 0 := by decide
      show net ("PROCEDURE".toList ++ "(".toList ++ o.str ni ++ ")".toList) = 0
      rw [net_append, net_append, net_append, n9, net_lp, net_rp, h0]
      rfl
  · obtain ⟨i, l, d, p, n, rfl, hi, hsp⟩ := t_sb3_spec o ho _ _ _ _ hp items0 hr
    have := runSlot_none_ok hi; subst this
    obtain ⟨e1, e2⟩ := hsp (t_sbS1 o .none)
    have harr : arrangeSpecificBinding [Item.none, l, d, p, .node n] = [.none, l, d, .node n, p] := rfl
    rw [harr]
    refine ⟨t_sbS3 o (t_sbS2 o (t_sbS1 o .none) l d) (.node n) p,
      t_tostrSpecificBinding_eq o _ _ _ _ _, ?_, ?_⟩
    · have hs1 : t_sbS1 o (.none : Item Node) = "PROCEDURE".toList := rfl
      rw [e1, hs1, hS]
    · intro hb
      have hs1 : t_sbS1 o (.none : Item Node) = "PROCEDURE".toList := rfl
      rw [e2 (hb l (by simp)) (hb p (by simp)) (hb (.node n) (by simp)), hs1]
      decide

example : ((planSpecificBinding "procedure, pass :: a => b".toList).bind (runSlots t_echoH)).map
      arrangeSpecificBinding
      = .ok [.none, .node "pass".toList, .str "::".toList, .node "a".toList, .node "b".toList] := by
  decide +kernel

example : ((planSpecificBinding "procedure(iface), deferred :: a".toList).bind (runSlots t_echoH)).map
      arrangeSpecificBinding
      = .ok [.node "iface".toList, .node "deferred".toList, .str "::".toList, .node "a".toList, .none] := by
  decide +kernel

/-! ## Final_Binding / Import_Stmt / Enumerator_Def_Stmt — `WORDClsBase` with `colons=True`, `tostr_a` -/

/-- the text after the keyword -/
def t_waRest (kw s : Str) : Str := (lstrip s).drop kw.length

/-- the input has `::` right after the keyword -/
def WaColons (kw s : Str) : Bool := Combi.isPrefix [':', ':'] (lstrip (t_waRest kw s))

/-- the printer changes nothing: the input has `::`, or there is nothing after the keyword -/
def WaPlain (kw s : Str) : Bool := WaColons kw s || (lstrip (t_waRest kw s)).isEmpty

/-- **WORDClsBase** with `colons=True` printed by `tostr_a` (` :: ` ALWAYS inserted before the child):
    exact relation: the printed text has the tokens of the input when the input has `::` after the
    keyword or nothing follows the keyword (`import` → `IMPORT`); otherwise `::` is INSERTED after
    the keyword (`final f` → `FINAL :: f`, `import a` → `IMPORT :: a`). -/
theorem wordA_tostr_match_tokens (o : Oracle Node) (ho : OracleTok o) (kw : Str)
    (c : ClassId) (req : Bool) (s : Str) (items : List (Item Node)) (hk : net kw = 0)
    (hm : (combiPlan (.word [kw] false (some c) true req true) s).bind (runSlots o) = .ok items) :
    ∃ t, combiStr o (.word [kw] false (some c) true req true) items = .ok t ∧
      toks s = toks kw ++ toks (t_waRest kw s) ∧
      toks t = (if WaPlain kw s then toks s
                else toks kw ++ (toks "::".toList ++ toks (t_waRest kw s))) ∧
      ((∀ i ∈ items, net (i.text o) = 0) → net t = 0) := by
  obtain ⟨cs, hsp, hr⟩ := combiPlan_bind_ok hm
  have hsp' : Combi.wordSplit1 kw (some c) true req s = some cs := hsp
  unfold Combi.wordSplit1 at hsp'
  dsimp only at hsp'
  split at hsp'
  · cases hsp'
  rename_i hne
  have hkw : upper ((lstrip s).take kw.length) = upper kw := by simpa using hne
  have hS : toks s = toks kw ++ toks (t_waRest kw s) := by
    unfold t_waRest
    rw [← toks_lstrip s]
    conv => lhs; rw [← List.take_append_drop kw.length (lstrip s)]
    rw [toks_append, ← toks_upper (List.take kw.length (lstrip s)), hkw, toks_upper]
  have bare : cs = [.str kw, .none] → (lstrip (t_waRest kw s)).isEmpty = true →
      ∃ t, combiStr o (.word [kw] false (some c) true req true) items = .ok t ∧
        toks s = toks kw ++ toks (t_waRest kw s) ∧
        toks t = (if WaPlain kw s then toks s
                  else toks kw ++ (toks "::".toList ++ toks (t_waRest kw s))) ∧
        ((∀ i ∈ items, net (i.text o) = 0) → net t = 0) := by
    intro hcs h0
    subst hcs
    obtain ⟨i, j, rfl, hi, hj⟩ := runSlots_pair_ok hr
    have := runSlot_str_ok hi; subst this
    have := runSlot_none_ok hj; subst this
    have hpl : WaPlain kw s = true := by simp [WaPlain, h0]
    have h0' : toks (t_waRest kw s) = [] := by rw [← toks_lstrip]; exact t_toks_empty h0
    refine ⟨kw, rfl, hS, ?_, fun _ => hk⟩
    rw [hpl, hS, h0']; simp
  split at hsp'
  · rename_i hnil
    have hnil' : t_waRest kw s = [] := hnil
    split at hsp'
    · cases hsp'
    · cases hsp'
      exact bare rfl (by rw [hnil']; rfl)
  · rename_i ch rest hcons
    have hcons' : t_waRest kw s = ch :: rest := hcons
    split at hsp'
    · cases hsp'
    have hrest : List.drop (List.length kw) (lstrip s) = t_waRest kw s := rfl
    rw [hrest] at hsp'
    simp only [Bool.true_and] at hsp'
    have k3 : toks " :: ".toList = toks "::".toList := by decide
    have n3 : net " :: ".toList = 0 := by decide
    by_cases hcol : Combi.isPrefix [':', ':'] (lstrip (t_waRest kw s)) = true
    · simp only [hcol, if_true, Bool.true_or] at hsp'
      split at hsp'
      · cases hsp'
      cases hsp'
      obtain ⟨i, j, rfl, hi, hj⟩ := runSlots_pair_ok hr
      have := runSlot_str_ok hi; subst this
      have hj' := toks_item_of_child ho hj
      obtain ⟨n, rfl, _⟩ := runSlot_child_ok hj
      simp only [Item.text, toks_lstrip] at hj'
      have hpl : WaPlain kw s = true := by simp [WaPlain, WaColons, hcol]
      have hR : toks (t_waRest kw s) = toks "::".toList ++ toks ((lstrip (t_waRest kw s)).drop 2) := by
        rw [← toks_lstrip (t_waRest kw s)]
        conv => lhs; rw [Combi.isPrefix_spec _ _ hcol]
        rw [toks_append]; rfl
      refine ⟨kw ++ " :: ".toList ++ o.str n, rfl, hS, ?_, ?_⟩
      · rw [hpl, hS, hR]
        simp only [toks_append, k3, hj', List.append_assoc, if_true]
      · intro hb
        have h1 := hb (.node n) (by simp)
        simp only [Item.text] at h1
        simp only [net_append, hk, n3, h1]; rfl
    · have hcol' : Combi.isPrefix [':', ':'] (lstrip (t_waRest kw s)) = false := by simpa using hcol
      simp only [hcol', Bool.false_or, Bool.false_eq_true, if_false] at hsp'
      by_cases hemp : (lstrip (t_waRest kw s)).isEmpty = true
      · rw [if_pos hemp] at hsp'
        by_cases hreq : req = true
        · rw [if_pos hreq] at hsp'; cases hsp'
        · rw [if_neg hreq] at hsp'
          have hcs : cs = [.str kw, .none] := (Option.some.inj hsp').symm
          exact bare hcs hemp
      · rw [if_neg hemp] at hsp'
        have hcs : cs = [.str kw, .child c (lstrip (t_waRest kw s))] := (Option.some.inj hsp').symm
        subst hcs
        obtain ⟨i, j, rfl, hi, hj⟩ := runSlots_pair_ok hr
        have := runSlot_str_ok hi; subst this
        have hj' := toks_item_of_child ho hj
        obtain ⟨n, rfl, _⟩ := runSlot_child_ok hj
        simp only [Item.text, toks_lstrip] at hj'
        have hpl : WaPlain kw s = false := by
          simp only [WaPlain, WaColons, hcol', Bool.false_or]
          simpa using hemp
        refine ⟨kw ++ " :: ".toList ++ o.str n, rfl, hS, ?_, ?_⟩
        · rw [hpl]
          simp only [toks_append, k3, hj', List.append_assoc, Bool.false_eq_true, if_false]
        · intro hb
          have h1 := hb (.node n) (by simp)
          simp only [Item.text] at h1
          simp only [net_append, hk, n3, h1]; rfl

theorem Final_Binding_tostr_match_tokens (o : Oracle Node) (ho : OracleTok o) (s : Str)
    (items : List (Item Node)) (hm : (combiPlan specFinalBinding s).bind (runSlots o) = .ok items) :
    ∃ t, combiStr o specFinalBinding items = .ok t ∧
      toks t = (if WaPlain "FINAL".toList s then toks s
                else toks "FINAL".toList ++ (toks "::".toList ++ toks (t_waRest "FINAL".toList s))) ∧
      ((∀ i ∈ items, net (i.text o) = 0) → net t = 0) := by
  obtain ⟨t, h1, _, h3, h4⟩ := wordA_tostr_match_tokens o ho "FINAL".toList
    C.Final_Subroutine_Name_List true s items (by decide) hm
  exact ⟨t, h1, h3, h4⟩

theorem Import_Stmt_tostr_match_tokens (o : Oracle Node) (ho : OracleTok o) (s : Str)
    (items : List (Item Node)) (hm : (combiPlan specImport s).bind (runSlots o) = .ok items) :
    ∃ t, combiStr o specImport items = .ok t ∧
      toks t = (if WaPlain "IMPORT".toList s then toks s
                else toks "IMPORT".toList ++ (toks "::".toList ++ toks (t_waRest "IMPORT".toList s))) ∧
      ((∀ i ∈ items, net (i.text o) = 0) → net t = 0) := by
  obtain ⟨t, h1, _, h3, h4⟩ := wordA_tostr_match_tokens o ho "IMPORT".toList
    C.Import_Name_List false s items (by decide) hm
  exact ⟨t, h1, h3, h4⟩

theorem Enumerator_Def_Stmt_tostr_match_tokens (o : Oracle Node) (ho : OracleTok o) (s : Str)
    (items : List (Item Node)) (hm : (combiPlan specEnumerator s).bind (runSlots o) = .ok items) :
    ∃ t, combiStr o specEnumerator items = .ok t ∧
      toks t = (if WaPlain "ENUMERATOR".toList s then toks s
                else toks "ENUMERATOR".toList ++
                  (toks "::".toList ++ toks (t_waRest "ENUMERATOR".toList s))) ∧
      ((∀ i ∈ items, net (i.text o) = 0) → net t = 0) := by
  obtain ⟨t, h1, _, h3, h4⟩ := wordA_tostr_match_tokens o ho "ENUMERATOR".toList
    C.Enumerator_List true s items (by decide) hm
  exact ⟨t, h1, h3, h4⟩

/-- `final f` → `FINAL :: f`, `import` → `IMPORT`, `import :: a` → `IMPORT :: a` -/
theorem wordA_witness :
    (combiPlan specFinalBinding "final f".toList).bind (runSlots t_echoH)
      = .ok [.str "FINAL".toList, .node "f".toList] ∧
    combiStr t_echoH specFinalBinding [.str "FINAL".toList, .node "f".toList] = .ok "FINAL :: f".toList ∧
    WaPlain "FINAL".toList "final f".toList = false ∧
    (combiPlan specImport "import".toList).bind (runSlots t_echoH)
      = .ok [.str "IMPORT".toList, .none] ∧
    WaPlain "IMPORT".toList "import".toList = true ∧
    (combiPlan specImport "import :: a".toList).bind (runSlots t_echoH)
      = .ok [.str "IMPORT".toList, .node "a".toList] ∧
    WaPlain "IMPORT".toList "import :: a".toList = true := by
  decide +kernel

/-! ## Proc_Decl / Association — `BinaryOpBase.match(lhs, "=>", rhs, string)` -/

theorem t_isWord_gt : isWord '>' = false := by decide

theorem t_rcut2_go_spec (a b : Char) : ∀ (s x y : Str), rcut2.go a b s = some (x, y) →
    s = x ++ a :: b :: y
  | [], x, y, h => by simp [rcut2.go] at h
  | c :: rest, x, y, h => by
    unfold rcut2.go at h
    split at h
    · rename_i p hp
      cases h
      have := t_rcut2_go_spec a b rest p.1 p.2 (by rw [hp])
      rw [List.cons_append, ← this]
    · split at h
      · rename_i d r2
        split at h
        · rename_i hc
          simp only [Bool.and_eq_true, beq_iff_eq] at hc
          cases h
          simp [hc.1, hc.2]
        · cases h
      · cases h

theorem t_rcut2_spec {a b : Char} {s x y : Str} (h : rcut2 a b s = some (x, y)) :
    s = x ++ a :: b :: y := t_rcut2_go_spec a b s x y h

/-- `BinaryOpBase` with the operator `=>` (right-most occurrence on the tokenised line), the items
    in tuple order `(lhs, "=>", rhs)`: under `SrmOK s` the printed text `lhs => rhs` has exactly
    the tokens of the input -/
theorem binaryArrow_tostr_match_tokens_partial (o : Oracle Node) (ho : OracleTok o) (lhsC rhsC : ClassId)
    (s : Str) (items : List (Item Node))
    (hm : ((planBinaryArrow lhsC rhsC s).bind (runSlots o)).map List.reverse = .ok items)
    (hs : SrmOK s) :
    ∃ t, tostrBinary o items = .ok t ∧ toks t = toks s ∧
      ((∀ i ∈ items, net (i.text o) = 0) → net t = 0) := by
  obtain ⟨items0, hm0, rfl⟩ := Res.map_eq_ok hm
  obtain ⟨slots, hp, hr⟩ := Res.bind_eq_ok hm0
  unfold planBinaryArrow at hp
  obtain ⟨r, htok, hp⟩ := Res.bind_eq_ok hp
  have htk := tok_ok htok
  obtain ⟨hseg, hexp⟩ := seg_of_tokenise hs htk
  have hL : toks s = toks (applyMap r.map r.text) := (toks_of_noBlank hexp).symm
  dsimp only at hp
  split at hp
  · cases hp
  rename_i l rr hcut
  have htext := t_rcut2_spec hcut
  split at hp
  · cases hp
  split at hp
  · cases hp
  cases hp
  rw [htext] at hseg hL
  obtain ⟨sl, sgr, e1⟩ := Seg.sep isWord_eq hseg
  obtain ⟨sr, e2⟩ := Seg.drop1 t_isWord_gt sgr
  have hA : toks (applyMap r.map (rstrip l)) = toks (applyMap r.map l) :=
    toks_of_noBlank (Seg.rstrip sl).2
  have hB : toks (applyMap r.map (lstrip rr)) = toks (applyMap r.map rr) :=
    toks_of_noBlank (Seg.lstrip sr).2
  obtain ⟨i, j, k, rfl, hi, hj, hk⟩ := run3 hr
  have hi' := toks_item_of_child ho hi
  have hk' := toks_item_of_child ho hk
  have := runSlot_str_ok hj; subst this
  obtain ⟨ni, rfl, _⟩ := runSlot_child_ok hi
  obtain ⟨nk, rfl, _⟩ := runSlot_child_ok hk
  simp only [Item.text] at hi' hk'
  have k0 : toks " ".toList = [] := by decide
  have k5 : ∀ X : Str, '=' :: '>' :: X = "=>".toList ++ X := fun _ => rfl
  have n0 : net " ".toList = 0 := by decide
  have n5 : net "=>".toList = 0 := by decide
  refine ⟨o.str nk ++ " ".toList ++ "=>".toList ++ " ".toList ++ o.str ni, rfl, ?_, ?_⟩
  · rw [hL, e1, e2, k5]
    simp only [toks_append, k0, hi', hk', hA, hB, List.append_assoc, List.nil_append]
  · intro hb
    have h1 := hb (.node ni) (by simp)
    have h2 := hb (.node nk) (by simp)
    simp only [Item.text] at h1 h2
    simp only [net_append, n0, n5, h1, h2]; rfl

/-- **Association** (`associate-name => selector`) -/
theorem Association_tostr_match_tokens_partial (o : Oracle Node) (ho : OracleTok o)
    (s : Str) (items : List (Item Node))
    (hm : ((planBinaryArrow C.Associate_Name C.Selector s).bind (runSlots o)).map List.reverse = .ok items)
    (hs : SrmOK s) :
    ∃ t, tostrBinary o items = .ok t ∧ toks t = toks s ∧
      ((∀ i ∈ items, net (i.text o) = 0) → net t = 0) :=
  binaryArrow_tostr_match_tokens_partial o ho _ _ s items hm hs

/-- **Proc_Decl** (`procedure-entity-name => null-init`; F2008 also `=> name`), both standards -/
theorem Proc_Decl_tostr_match_tokens_partial (std : Std) (o : Oracle Node) (ho : OracleTok o)
    (s : Str) (items : List (Item Node)) (hm : matchProcDecl std o s = .ok items) (hs : SrmOK s) :
    ∃ t, tostrBinary o items = .ok t ∧ toks t = toks s ∧
      ((∀ i ∈ items, net (i.text o) = 0) → net t = 0) := by
  unfold matchProcDecl at hm
  cases std with
  | f2003 => exact binaryArrow_tostr_match_tokens_partial o ho _ _ s items hm hs
  | f2008 =>
    dsimp only at hm
    split at hm
    · cases hm
    split at hm
    · rename_i its hits
      cases hm
      exact binaryArrow_tostr_match_tokens_partial o ho C.Procedure_Entity_Name C.Null_Init s _
        (by rw [hits]; rfl) hs
    · cases hm
    · exact binaryArrow_tostr_match_tokens_partial o ho _ _ s items hm hs

example : SrmOK "p => null()".toList ∧
    matchProcDecl .f2008 t_echoH "p => null()".toList
      = .ok [.node "p".toList, .str "=>".toList, .node "null()".toList] := by
  decide +kernel

/-! ## totality (C06): the plans raise nothing but `tok`'s `KeyError`, and contain no `Slot.raise` -/

macro "t_leaf" : tactic =>
  `(tactic| first
    | with_reducible exact ResTotal.noMatch
    | (with_reducible refine ResTotal.ok ?_
       simp only [List.cons_append, List.nil_append, noRaise_cons, noRaise_nil, isRaise_none,
        isRaise_str, isRaise_child, isRaise_fail, isRaise_ite, ite_self, and_self]))

macro "t_step" : tactic =>
  `(tactic| first
    | t_leaf
    | (with_reducible apply ResTotal.tok_bind; intro r)
    | split
    | dsimp only)

theorem planDerivedType_total : PlanTotal planDerivedType := by
  apply planTotal_of_resTotal
  intro s
  unfold planDerivedType
  repeat t_step

theorem planGenericBinding_total : PlanTotal planGenericBinding := by
  apply planTotal_of_resTotal
  intro s
  unfold planGenericBinding
  repeat t_step

theorem planSpecificBinding_total : PlanTotal planSpecificBinding := by
  apply planTotal_of_resTotal
  intro s
  unfold planSpecificBinding
  repeat t_step

theorem planProcedureDeclaration_total : PlanTotal planProcedureDeclaration := by
  apply planTotal_of_resTotal
  intro s
  unfold planProcedureDeclaration
  repeat t_step

theorem planProcComponentDef_total : PlanTotal planProcComponentDef := by
  apply planTotal_of_resTotal
  intro s
  unfold planProcComponentDef
  repeat t_step

theorem planBinaryArrow_total (a b : ClassId) : PlanTotal (planBinaryArrow a b) := by
  apply planTotal_of_resTotal
  intro s
  unfold planBinaryArrow
  repeat t_step

#print axioms Derived_Type_Stmt_tostr_match_tokens
#print axioms Derived_Type_Stmt_glued_witness
#print axioms Specific_Binding_tostr_match_tokens
#print axioms wordA_tostr_match_tokens
#print axioms Final_Binding_tostr_match_tokens
#print axioms Import_Stmt_tostr_match_tokens
#print axioms Enumerator_Def_Stmt_tostr_match_tokens
#print axioms wordA_witness
#print axioms planDerivedType_total
#print axioms planGenericBinding_total
#print axioms planSpecificBinding_total
#print axioms planProcedureDeclaration_total
#print axioms planProcComponentDef_total
#print axioms planBinaryArrow_total
#print axioms binaryArrow_tostr_match_tokens_partial
#print axioms Association_tostr_match_tokens_partial
#print axioms Proc_Decl_tostr_match_tokens_partial
#print axioms Generic_Binding_exact
#print axioms Generic_Binding_tostr_match_tokens_partial
#print axioms Generic_Binding_drops_prefix
#print axioms Generic_Binding_arrow_regression
end Fp.Header
