import FparserModel.Proofs.SymGlueStmt
import FparserModel.Props.SymTab
import FparserModel.Generated.SymGlueSites
/-!
# Properties of the statement ↔ symbol-table glue (C16)

`run std sk st` is the one-pass interpretation of a program skeleton that the parser performs
(`Fp.SymGlue`); `specRun` reads the same skeleton with a stack of *frames* (per open scoping
unit: the lower-cased names recorded so far, wildcard flag, submodule flag).

* (a) `use_entries_all_recorded`, `use_never_aborts`, `only_skips_non_names`, `use_dtio_regression_witness`
* (b) `decl_entities_all_recorded`, `decl_derived_records_nothing`, `silent_records_nothing`
* (c) `run_refines_spec`, `reference_intrinsic_iff`, `specResolve_intrinsic_iff`,
      `specResolve_syntaxError_iff`, `wildcard_does_not_shadow` (+ witness)
* (d) `later_items_do_not_change_earlier_references`, `decl_after_reference_witness`
* the call-site obligations over `Generated/SymGlueSites.lean`
-/
namespace Fp.SymGlue
open Fp Fp.SymTab

/-- outcomes can be compared by `decide` -/
instance {α} [DecidableEq α] : DecidableEq (Except Abort α) := fun a b =>
  match a, b with
  | .ok x, .ok y => if h : x = y then isTrue (h ▸ rfl) else isFalse (fun e => by cases e; exact h rfl)
  | .error x, .error y => if h : x = y then isTrue (h ▸ rfl) else isFalse (fun e => by cases e; exact h rfl)
  | .ok _, .error _ => isFalse (fun e => by cases e)
  | .error _, .ok _ => isFalse (fun e => by cases e)

/-- how a run ended -/
def abortOf {α} : Except Abort α → Option Abort
  | .ok _ => none
  | .error a => some a

/-! ## (a) USE statements -/

/-- **use_entries_all_recorded** (C16).  In ANY state with a current scope `p`, EVERY USE
    statement succeeds (no exception: since repo commit bf50e4e a DTIO generic spec in the
    only-list is skipped like an operator entry), leaves the scope, the children, the data
    symbols and the log alone, and afterwards the table of `p` has a `ModuleUse` for the
    (lower-cased) module in which the lower-cased local name of EVERY `Name` and every
    `local => use` entry is a symbol — whatever `OPERATOR(..)`, `ASSIGNMENT(=)` or operator-rename
    / DTIO (`READ(FORMATTED)` …) entries precede or follow it — and `table.lookup(local)` from `p` finds it.  Same for the
    entries of a rename-list; a statement without ONLY leaves a wildcard import. -/
theorem use_entries_all_recorded (std : Std) (st : St) (p : Path) (t : Table) (mod : Str)
    (tail : UseTail) (hc : st.tabs.cur = some p) (ht : st.tabs.tableAt p = some t) :
    ∃ st' t' m, execStmt std st (.use mod tail) = .ok st' ∧ st'.log = st.log
      ∧ st'.tabs.cur = some p ∧ st'.tabs.tableAt p = some t'
      ∧ t'.children = t.children ∧ t'.loc.syms = t.loc.syms
      ∧ dGet t'.loc.mods (lower mod) = some m
      ∧ (useWild tail = true → m.wildcard = true)
      ∧ (∀ x ∈ useLocals tail, x ∈ m.symbols)
      ∧ (∀ es, tail = .only es → ∀ e ∈ es, ∀ n, e.localName = some n →
            lower n ∈ m.symbols ∧ ∃ sym, st'.tabs.lookupAt p n = .ok sym)
      ∧ (∀ es, tail = .renames es → ∀ e ∈ es, ∀ n, e.localName = some n →
            lower n ∈ m.symbols ∧ ∃ sym, st'.tabs.lookupAt p n = .ok sym) := by
  obtain ⟨h2, h3⟩ := use_args_ok tail
  have h1 : execStmt std st (.use mod tail)
      = .ok { st with tabs := addUse st.tabs mod (useArgs tail).1 (useArgs tail).2 } := rfl
  cases hu : useArgs tail with
  | mk only ren =>
  simp only [hu] at h1 h2 h3
  obtain ⟨m, hm1, hm2, hm3⟩ := addUse_records t.loc mod only ren
  have htab : (addUse st.tabs mod only ren).tableAt p
      = some (.mk (t.loc.addUseSymbols mod only ren) t.children) := by
    simp only [addUse, onCurrent, hc, tableAt_updTable_same, ht]; rfl
  have hcur : (addUse st.tabs mod only ren).cur = some p := by
    simp only [addUse, onCurrent, hc, updTable_cur]
  have hlook : ∀ n, lower n ∈ useLocals tail →
      ∃ sym, (addUse st.tabs mod only ren).lookupAt p n = .ok sym := by
    intro n hx
    obtain ⟨rest, hch⟩ := chain_of_tableAt _ _ _ htab
    have hhas : hasName (t.loc.addUseSymbols mod only ren) (lower n) = true := by
      have : (useLocals tail).contains (lower n) = true := by simpa using hx
      rw [addUse_hasName, h2, this]; simp
    have hsome : ((Table.mk (t.loc.addUseSymbols mod only ren) t.children).loc.lookupHere (lower n)).isSome
        = true := by
      rw [lookupHere_isSome]; exact hhas
    simp only [Tables.lookupAt, hch, lookupChain]
    cases hl : (Table.mk (t.loc.addUseSymbols mod only ren) t.children).loc.lookupHere (lower n) with
    | none => rw [hl] at hsome; simp at hsome
    | some sym => exact ⟨sym, rfl⟩
  refine ⟨{ st with tabs := addUse st.tabs mod only ren }, _, m, ?_, rfl, hcur, htab, rfl,
    addUse_syms _ _ _ _, hm1, ?_, ?_, ?_, ?_⟩
  · exact h1
  · intro hw; exact hm3 (by rw [h3]; exact hw)
  · intro x hx; exact hm2 x (by rw [h2]; exact hx)
  · intro es hes e he n hn
    subst hes
    have := only_entry_local es e n he hn
    exact ⟨hm2 _ (by rw [h2]; exact this), hlook n this⟩
  · intro es hes e he n hn
    subst hes
    have := rename_entry_local es e n he hn
    exact ⟨hm2 _ (by rw [h2]; exact this), hlook n this⟩

/-- **use_never_aborts**: `Use_Stmt.match` has no failing branch left for the children the
    parser can build (`only_loop_branches_as_assumed`): a USE statement never aborts the run,
    changes nothing but the tables, and with no current scope changes nothing at all. -/
theorem use_never_aborts (std : Std) (st : St) (mod : Str) (tail : UseTail) :
    ∃ st', execStmt std st (.use mod tail) = .ok st' ∧ st'.log = st.log
      ∧ (st.tabs.cur = none → st'.tabs = st.tabs) := by
  refine ⟨_, rfl, rfl, ?_⟩
  intro hc
  simp only [addUse, onCurrent, hc]

/-- **only_skips_non_names**: the only-list loop keeps exactly the entries that have a local name
    (`Name`, `local => use`), in order; `OPERATOR(..)`, `ASSIGNMENT(=)`, operator renames and DTIO
    generic specs are all skipped, wherever they stand: the arguments of `add_use_symbols` are
    those of the list without them. -/
theorem only_skips_non_names (es : List OEntry) :
    onlyLoop es = onlyLoop (es.filter fun e => e.localName.isSome)
    ∧ (onlyLoop es).map (fun e => e.1) = es.filterMap OEntry.localName := by
  refine ⟨?_, onlyLoop_names es⟩
  induction es with
  | nil => rfl
  | cons e r ih =>
    rw [List.filter_cons]
    cases e with
    | name n =>
      simp only [show (OEntry.name n).localName.isSome = true from rfl, ↓reduceIte, onlyLoop]
      rw [← ih]
    | generic g =>
      simp only [show (OEntry.generic g).localName.isSome = false from rfl, Bool.false_eq_true, ↓reduceIte,
        onlyLoop]
      exact ih
    | dtio g =>
      simp only [show (OEntry.dtio g).localName.isSome = false from rfl, Bool.false_eq_true, ↓reduceIte,
        onlyLoop]
      exact ih
    | ren re =>
      cases re with
      | sym lo u =>
        simp only [show (OEntry.ren (.sym lo u)).localName.isSome = true from rfl, ↓reduceIte, onlyLoop]
        rw [← ih]
      | op lo u =>
        simp only [show (OEntry.ren (.op lo u)).localName.isSome = false from rfl, Bool.false_eq_true,
          ↓reduceIte, onlyLoop]
        exact ih

/-- a DTIO entry anywhere in the list has the same effect as an `OPERATOR(..)` entry there, namely none -/
theorem dtio_like_operator (pre post : List OEntry) (g h : Str) :
    onlyLoop (pre ++ .dtio g :: post) = onlyLoop (pre ++ post)
    ∧ onlyLoop (pre ++ .generic h :: post) = onlyLoop (pre ++ post) := by
  constructor
  · rw [(only_skips_non_names (pre ++ .dtio g :: post)).1, (only_skips_non_names (pre ++ post)).1,
      List.filter_append, List.filter_append, List.filter_cons]
    simp only [show (OEntry.dtio g).localName.isSome = false from rfl, Bool.false_eq_true, ↓reduceIte]
  · rw [(only_skips_non_names (pre ++ .generic h :: post)).1, (only_skips_non_names (pre ++ post)).1,
      List.filter_append, List.filter_append, List.filter_cons]
    simp only [show (OEntry.generic h).localName.isSome = false from rfl, Bool.false_eq_true, ↓reduceIte]

/-- regression witness for the former defect F-symglue-1 (repaired in /repo by commit bf50e4e):
    `module m / use b, only: x, read(formatted), y / end module m` used to raise `InternalError`;
    now the parse succeeds and records exactly what the same list with `operator(+)` in place of
    the DTIO entry records (replayed on the real parser by `fv.cosim_symglue`, directed case
    "DTIO entry in an only-list"). -/
theorem use_dtio_regression_witness :
    abortOf (populate .f2003 (.scope .module "m".toList
        (.stmt (.use "b".toList (.only [.name "x".toList, .dtio "read(formatted)".toList, .name "y".toList])) .nil) .nil))
      = none
    ∧ ((populate .f2003 (.scope .module "m".toList
        (.stmt (.use "b".toList (.only [.name "x".toList, .dtio "read(formatted)".toList, .name "y".toList])) .nil) .nil)).toOption.bind
          fun tb => (tb.tableAt ("m".toList, [])).bind fun t =>
            (dGet t.loc.mods "b".toList).map fun m => (m.symbols, m.onlySet, m.wildcard))
      = some (["x".toList, "y".toList], some ["x".toList, "y".toList], false)
    ∧ ((populate .f2003 (.scope .module "m".toList
        (.stmt (.use "b".toList (.only [.name "x".toList, .generic "operator(+)".toList, .name "y".toList])) .nil) .nil)).toOption.bind
          fun tb => (tb.tableAt ("m".toList, [])).bind fun t =>
            (dGet t.loc.mods "b".toList).map fun m => (m.symbols, m.onlySet, m.wildcard))
      = some (["x".toList, "y".toList], some ["x".toList, "y".toList], false)
    -- an only-list of DTIO entries alone: an empty, non-wildcard module use
    ∧ ((populate .f2008 (.scope .module "m".toList
        (.stmt (.use "b".toList (.only [.dtio "write(unformatted)".toList])) .nil) .nil)).toOption.bind
          fun tb => (tb.tableAt ("m".toList, [])).bind fun t =>
            (dGet t.loc.mods "b".toList).map fun m => (m.symbols, m.onlySet, m.wildcard))
      = some ([], some [], false) := by
  refine ⟨by decide +kernel, by decide +kernel, by decide +kernel, by decide +kernel⟩

/-! ## (b) type declarations -/

/-- **decl_entities_all_recorded** (C16).  In ANY state with a current scope `p` whose table has
    checks off (the parser never switches them on), a type declaration of intrinsic type whose
    inner references parse records EVERY entity — with or without array spec, character length
    or initialisation: the skeleton does not even distinguish them — as a data symbol
    `(lower name, lower str(type-spec))` of the table of `p`; names not declared by the
    statement keep their entry; module uses, children and the current scope are untouched. -/
theorem decl_entities_all_recorded (std : Std) (st st1 : St) (p : Path) (t : Table) (text : Str)
    (ents : List Entity) (hc : st.tabs.cur = some p) (ht : st.tabs.tableAt p = some t)
    (hchk : t.loc.checking = false) (hin : logInner std st ents = .ok st1) :
    ∃ st' t', execStmt std st (.decl (.intrinsic text) ents) = .ok st' ∧ st'.log = st1.log
      ∧ st'.tabs.cur = some p ∧ st'.tabs.tableAt p = some t'
      ∧ t'.children = t.children ∧ t'.loc.mods = t.loc.mods
      ∧ (∀ e ∈ ents, dGet t'.loc.syms (lower e.name) = some ⟨lower e.name, lower text⟩)
      ∧ (∀ n, n ∉ ents.map (fun e => lower e.name) → dGet t'.loc.syms n = dGet t.loc.syms n) := by
  obtain ⟨htabs, _⟩ := logInner_tabs std ents st st1 hin
  obtain ⟨s', h1, h2, h3⟩ := addSyms_spec text p ents st1.tabs t (by rw [htabs]; exact hc)
    (by rw [htabs]; exact ht) hchk
  obtain ⟨hs1, hs2⟩ := declLocal_syms text ents t.loc
  refine ⟨{ st1 with tabs := s' }, _, ?_, rfl, h2, h3, rfl, (declLocal_flags text ents t.loc).2.1, hs1, hs2⟩
  simp only [execStmt, hin, h1]

/-- a declaration of derived type (`TYPE(t) :: x`) records nothing -/
theorem decl_derived_records_nothing (std : Std) (st st1 : St) (text : Str) (ents : List Entity)
    (hin : logInner std st ents = .ok st1) :
    execStmt std st (.decl (.derived text) ents) = .ok st1 ∧ st1.tabs = st.tabs := by
  refine ⟨by simp only [execStmt, hin], (logInner_tabs std ents st st1 hin).1⟩

/-- components, PARAMETER / DIMENSION / EXTERNAL statements, statement functions and implicitly
    typed names record nothing -/
theorem silent_records_nothing (std : Std) (st : St) (k : Silent) (n : Str) :
    execStmt std st (.silent k n) = .ok st := rfl

/-! ## (c) references -/

/-- **run_refines_spec** (C16).  For EVERY skeleton the table-driven run and the frame-based
    reading agree: they abort in the same way or they both succeed with the same kinds for
    all references. -/
theorem run_refines_spec (std : Std) (sk : Sk) :
    refKinds std sk = (specRun std sk {}).map (·.log) := by
  have := run_sim std sk {} {} sim_init
  unfold refKinds
  cases h1 : run std sk {} with
  | error a =>
    cases h2 : specRun std sk {} with
    | error b => simp only [Rel2, h1, h2] at this; subst this; rfl
    | ok σ => simp [Rel2, h1, h2] at this
  | ok st =>
    cases h2 : specRun std sk {} with
    | error b => simp [Rel2, h1, h2] at this
    | ok σ =>
      simp only [Rel2, h1, h2] at this
      simp [Except.map, this.log_eq]

/-- **tables_agree_with_frames** (C16).  The stronger form of `run_refines_spec`: when the run of a
    skeleton succeeds so does the frame-based reading and the final states are related by `Sim`:
    same log; no scope is left open (`cur = none` ↔ empty stack: every `enter_scope` was matched
    by its `exit_scope`); and for every top-level unit the table and the frame kept for it agree
    (`Agree`: checks off, the names found by `lookup` in the table — data symbols and symbols of
    its module uses — are exactly the frame's names, wildcard flag, submodule flag).  `Sim`
    holds at every intermediate point as well (`run_sim`), with the chain of tables of the
    current scope agreeing frame by frame with the stack of open units. -/
theorem tables_agree_with_frames (std : Std) (sk : Sk) (st : St) (h : run std sk {} = .ok st) :
    ∃ σ, specRun std sk {} = .ok σ ∧ Sim st σ ∧ st.tabs.cur = none ∧ σ.stack = [] := by
  have := run_sim std sk {} {} sim_init
  rw [h] at this
  cases h2 : specRun std sk {} with
  | error b => simp [Rel2, h2] at this
  | ok σ =>
    simp only [Rel2, h2] at this
    have hlen := specRun_stack_length std sk {} σ h2
    have hnil : σ.stack = [] := List.eq_nil_of_length_eq_zero hlen
    refine ⟨σ, rfl, this, ?_, hnil⟩
    cases this with
    | top _ _ hc _ _ => exact hc
    | inner _ _ p hcp _ ch hch hag _ =>
      rw [hnil] at hag
      cases hag
      exact absurd rfl (chain_ne_nil _ _ _ hch)
where
  modHead_length {α} (g : α → α) (l : List α) : (modHead g l).length = l.length := by
    cases l <;> rfl
  specLog_stack (std : Std) (σ σ' : Sp) (r : Ref) (h : specLog std σ r = .ok σ') : σ'.stack = σ.stack := by
    unfold specLog at h
    cases hr : specResolve (itOf std) σ.stack r with
    | error a => simp [hr] at h
    | ok k => simp only [hr, Except.ok.injEq] at h; subst h; rfl
  specInner_stack (std : Std) : ∀ (ents : List Entity) (σ σ' : Sp),
      specInner std σ ents = .ok σ' → σ'.stack = σ.stack := by
    intro ents
    induction ents with
    | nil => intro σ σ' h; simp only [specInner, Except.ok.injEq] at h; subst h; rfl
    | cons e r ih =>
      intro σ σ' h
      cases he : e.inner with
      | none => simp only [specInner, he] at h; exact ih σ σ' h
      | some rf =>
        simp only [specInner, he] at h
        cases h1 : specLog std σ rf with
        | error a => simp [h1] at h
        | ok σ1 =>
          simp only [h1] at h
          rw [ih σ1 σ' h, specLog_stack std σ σ1 rf h1]
  specStmt_stack_length (std : Std) (σ σ' : Sp) (s : Stmt) (h : specStmt std σ s = .ok σ') :
      σ'.stack.length = σ.stack.length := by
    cases s with
    | use mod tail =>
      simp only [specStmt, Except.ok.injEq] at h
      subst h; exact modHead_length _ _
    | decl ts ents =>
      simp only [specStmt] at h
      cases h1 : specInner std σ ents with
      | error a => simp [h1] at h
      | ok σ1 =>
        have hst := specInner_stack std ents σ σ1 h1
        simp only [h1] at h
        cases ts with
        | derived t => simp only [Except.ok.injEq] at h; subst h; rw [hst]
        | intrinsic text =>
          simp only [Except.ok.injEq] at h
          subst h
          simp only []
          rw [modHead_length, hst]
    | assign r => rw [specLog_stack std σ σ' r h]
    | silent k n => simp only [specStmt, Except.ok.injEq] at h; subst h; rfl
  specRun_stack_length (std : Std) : ∀ (sk : Sk) (σ σ' : Sp),
      specRun std sk σ = .ok σ' → σ'.stack.length = σ.stack.length := by
    intro sk
    induction sk with
    | nil => intro σ σ' h; simp only [specRun, Except.ok.injEq] at h; subst h; rfl
    | stmt s rest ih =>
      intro σ σ' h
      simp only [specRun] at h
      cases h1 : specStmt std σ s with
      | error a => simp [h1] at h
      | ok σ1 =>
        simp only [h1] at h
        rw [ih σ1 σ' h, specStmt_stack_length std σ σ1 s h1]
    | scope k name body rest ihb ihr =>
      intro σ σ' h
      simp only [specRun] at h
      by_cases hstd : scopeInStd std k = true
      · simp only [hstd, Bool.not_true, Bool.false_eq_true, ↓reduceIte] at h
        revert h
        cases hb : specRun std body _ with
        | error a => intro h; simp at h
        | ok σ2 =>
          intro h
          simp only [] at h
          have hl2 := ihb _ σ2 hb
          cases hst : σ.stack with
          | nil =>
            simp only [hst, List.length_cons, List.length_nil] at hl2
            cases h2 : σ2.stack with
            | nil => rw [h2] at hl2; simp at hl2
            | cons f fs =>
              rw [h2] at hl2 h
              cases fs with
              | nil =>
                simp only [] at h
                rw [ihr _ σ' h]
              | cons g gs => simp at hl2
          | cons f0 fs0 =>
            simp only [hst, List.length_cons] at hl2
            cases h2 : σ2.stack with
            | nil => rw [h2] at hl2; simp at hl2
            | cons f fs =>
              rw [h2] at hl2 h
              cases fs with
              | nil => simp at hl2
              | cons g gs =>
                simp only [] at h
                rw [ihr _ σ' h]
                simp only [List.length_cons] at hl2 ⊢
                omega
      · have : scopeInStd std k = false := by simpa using hstd
        simp [this] at h

theorem ofIntrRes_intrinsic (r : Ref) (x : IntrRes) :
    ofIntrRes r x = .ok .intrinsic ↔ x = .isIntrinsic := by
  cases x <;> simp [ofIntrRes, fallback]
  split <;> simp

theorem inRange_iff (mn : Nat) (mx : Option Nat) (k : Nat) :
    inRange mn mx k = true ↔ ArgsInRange mn mx k := by
  unfold inRange ArgsInRange
  cases mx with
  | none => simp
  | some mx =>
    by_cases h1 : mn = mx
    · subst h1; simp
    · by_cases h2 : mn < mx
      · simp [h1, h2]
      · simp [h1, h2]

/-- **reference_intrinsic_iff** (C16), composing `Fp.SymTab.intrinsic_iff_not_shadowed` with the
    simulation: at ANY point of the run of ANY skeleton (`Sim st σ` holds there by `run_sim`),
    `name(args)` is represented as `Intrinsic_Function_Reference` iff the upper-cased name is
    in the table of the standard, NO frame of an enclosing scoping unit (the scope of the
    reference included) has recorded the lower-cased name so far — as a declared entity or
    as the local name of a USE entry — and the number of arguments is admissible for the
    (generic name of the) intrinsic.  Wildcard imports play no role here. -/
theorem reference_intrinsic_iff (std : Std) (st : St) (σ : Sp) (hs : Sim st σ) (r : Ref) :
    resolve st.tabs std r = .ok .intrinsic ↔
      (upper r.name ∈ (itOf std).names
        ∧ (∀ f ∈ σ.stack, lower (upper r.name) ∉ f.names)
        ∧ ∃ mn mx, arityEntry (itOf std) r.name = some (mn, mx) ∧ ArgsInRange mn mx r.args.length) := by
  unfold resolve Tables.intrinsicAt
  rw [ofIntrRes_intrinsic]
  cases hs with
  | top checks log hc hs' ht =>
    simp only [hc, hs', intrinsic_iff_not_shadowed, Shadowed]
    simp
  | inner checks log p hc htop ch hch hag ht =>
    simp only [hc, hch, intrinsic_iff_not_shadowed, Shadowed]
    have := lookupChain_isSome ch σ.stack hag (lower (upper r.name))
    constructor
    · rintro ⟨h1, h2, h3⟩
      refine ⟨h1, ?_, h3⟩
      intro f hf hmem
      apply h2
      refine ⟨ch, rfl, ?_⟩
      rw [this, List.any_eq_true]
      exact ⟨f, hf, by simpa using hmem⟩
    · rintro ⟨h1, h2, h3⟩
      refine ⟨h1, ?_, h3⟩
      rintro ⟨c, hc', hsome⟩
      simp only [Option.some.injEq] at hc'
      subst hc'
      rw [this, List.any_eq_true] at hsome
      obtain ⟨f, hf, hmem⟩ := hsome
      exact h2 f hf (by simpa using hmem)

/-- the same characterisation for the frame-based reading (what `specRun` logs) -/
theorem specResolve_intrinsic_iff (it : IntrTable) (stack : List Frame) (r : Ref) :
    specResolve it stack r = .ok .intrinsic ↔
      (upper r.name ∈ it.names
        ∧ (∀ f ∈ stack, lower (upper r.name) ∉ f.names)
        ∧ ∃ mn mx, arityEntry it r.name = some (mn, mx) ∧ ArgsInRange mn mx r.args.length) := by
  have hfb : ∀ r : Ref, fallback r ≠ .intrinsic := by
    intro r; unfold fallback; split <;> simp
  unfold specResolve arityEntry
  simp only []
  by_cases hn : it.names.contains (upper r.name) = true
  · have hn' : upper r.name ∈ it.names := by simpa using hn
    simp only [hn, Bool.not_true, Bool.false_eq_true, ↓reduceIte, hn', true_and]
    by_cases hs : stack.any (fun f => f.names.contains (lower (upper r.name))) = true
    · simp only [hs, ↓reduceIte, Except.ok.injEq]
      rw [List.any_eq_true] at hs
      obtain ⟨f, hf, hm⟩ := hs
      constructor
      · intro h; exact absurd h (hfb r)
      · rintro ⟨h, _⟩; exact absurd (by simpa using hm) (h f hf)
    · simp only [hs, Bool.false_eq_true, ↓reduceIte]
      have hs' : ∀ f ∈ stack, lower (upper r.name) ∉ f.names := by
        intro f hf hm
        apply hs
        rw [List.any_eq_true]
        exact ⟨f, hf, by simpa using hm⟩
      unfold arityOf
      cases hg : dGet it.generic (match dGet it.specific (upper r.name) with
          | some g => g | none => upper r.name) with
      | none => simp
      | some e =>
        obtain ⟨mn, mx⟩ := e
        simp only []
        by_cases hr : inRange mn mx r.args.length = true
        · simp only [hr, ↓reduceIte, true_iff]
          exact ⟨hs', mn, mx, rfl, (inRange_iff _ _ _).1 hr⟩
        · simp only [hr, Bool.false_eq_true, ↓reduceIte]
          constructor
          · intro h
            split at h
            · simp only [Except.ok.injEq] at h; exact absurd h (hfb r)
            · simp at h
          · rintro ⟨_, mn', mx', heq, hin⟩
            simp only [Option.some.injEq, Prod.mk.injEq] at heq
            obtain ⟨rfl, rfl⟩ := heq
            exact absurd ((inRange_iff _ _ _).2 hin) hr
  · have hn' : ¬ upper r.name ∈ it.names := by simpa using hn
    simp only [hn, Bool.not_false, ↓reduceIte, Except.ok.injEq, hn', false_and, iff_false]
    exact hfb r

/-- the conservative part: a wrong number of arguments is a syntax error exactly when no
    enclosing unit has a wildcard import and none is a submodule; otherwise the reference is
    silently left to the other alternatives -/
theorem specResolve_syntaxError_iff (it : IntrTable) (stack : List Frame) (r : Ref) :
    specResolve it stack r = .error .syntaxError ↔
      (upper r.name ∈ it.names
        ∧ (∀ f ∈ stack, lower (upper r.name) ∉ f.names)
        ∧ (∃ mn mx, arityEntry it r.name = some (mn, mx) ∧ ¬ ArgsInRange mn mx r.args.length)
        ∧ (∀ f ∈ stack, f.wild = false ∧ f.submod = false)) := by
  unfold specResolve arityEntry
  simp only []
  by_cases hn : it.names.contains (upper r.name) = true
  · have hn' : upper r.name ∈ it.names := by simpa using hn
    simp only [hn, Bool.not_true, Bool.false_eq_true, ↓reduceIte, hn', true_and]
    by_cases hs : stack.any (fun f => f.names.contains (lower (upper r.name))) = true
    · simp only [hs, ↓reduceIte]
      rw [List.any_eq_true] at hs
      obtain ⟨f, hf, hm⟩ := hs
      constructor
      · intro h; simp at h
      · rintro ⟨h, _⟩; exact absurd (by simpa using hm) (h f hf)
    · simp only [hs, Bool.false_eq_true, ↓reduceIte]
      have hs' : ∀ f ∈ stack, lower (upper r.name) ∉ f.names := by
        intro f hf hm
        apply hs
        rw [List.any_eq_true]
        exact ⟨f, hf, by simpa using hm⟩
      unfold arityOf
      cases hg : dGet it.generic (match dGet it.specific (upper r.name) with
          | some g => g | none => upper r.name) with
      | none => simp
      | some e =>
        obtain ⟨mn, mx⟩ := e
        simp only []
        by_cases hr : inRange mn mx r.args.length = true
        · simp only [hr, ↓reduceIte]
          constructor
          · intro h; simp at h
          · rintro ⟨_, ⟨mn', mx', heq, hnin⟩, _⟩
            simp only [Option.some.injEq, Prod.mk.injEq] at heq
            obtain ⟨rfl, rfl⟩ := heq
            exact absurd ((inRange_iff _ _ _).1 hr) hnin
        · simp only [hr, Bool.false_eq_true, ↓reduceIte]
          have hnr : ¬ ArgsInRange mn mx r.args.length := fun h => hr ((inRange_iff _ _ _).2 h)
          by_cases hw : (stack.any (fun f => f.wild) || stack.any (fun f => f.submod)) = true
          · simp only [hw, ↓reduceIte]
            constructor
            · intro h; simp at h
            · rintro ⟨_, _, hall⟩
              simp only [Bool.or_eq_true, List.any_eq_true] at hw
              rcases hw with ⟨f, hf, h⟩ | ⟨f, hf, h⟩
              · rw [(hall f hf).1] at h; simp at h
              · rw [(hall f hf).2] at h; simp at h
          · simp only [hw, Bool.false_eq_true, ↓reduceIte, true_iff]
            refine ⟨hs', ⟨mn, mx, rfl, hnr⟩, ?_⟩
            intro f hf
            simp only [Bool.or_eq_true, List.any_eq_true, not_or, not_exists, not_and] at hw
            exact ⟨by simpa using hw.1 f hf, by simpa using hw.2 f hf⟩
  · have hn' : ¬ upper r.name ∈ it.names := by simpa using hn
    simp [hn, hn']

/-- **wildcard_does_not_shadow**: whether a reference with an admissible argument count is an
    intrinsic does not depend on wildcard imports (`USE m` without ONLY) in any enclosing unit:
    only recorded names shadow.  (The code documents the wildcard as making the decision
    conservative; it does so only for inadmissible counts — `specResolve_syntaxError_iff`.) -/
theorem wildcard_does_not_shadow (it : IntrTable) (stack : List Frame) (r : Ref) (w : Frame → Bool) :
    specResolve it (stack.map fun f => { f with wild := w f }) r = .ok .intrinsic
      ↔ specResolve it stack r = .ok .intrinsic := by
  rw [specResolve_intrinsic_iff, specResolve_intrinsic_iff]
  simp

/-- witness: `use a` (wildcard) then `sin(x)`, `sin(x, 2)`: the first IS an intrinsic reference,
    the second is left to `Part_Ref`; without the USE the second is a syntax error
    (replayed by `fv.cosim_symglue`, directed cases "wildcard import …", "wrong count …") -/
theorem wildcard_witness :
    refKinds .f2003 (.scope .subroutine "s".toList
        (.stmt (.use "a".toList .plain) (.stmt (.assign ⟨"sin".toList, [.sub]⟩)
          (.stmt (.assign ⟨"sin".toList, [.sub, .sub]⟩) .nil))) .nil) = .ok [.intrinsic, .partRef]
    ∧ refKinds .f2003 (.scope .subroutine "s".toList
        (.stmt (.assign ⟨"sin".toList, [.sub, .sub]⟩) .nil) .nil) = .error .syntaxError := by
  decide +kernel

/-! ## (d) order -/

/-- **later_items_do_not_change_earlier_references** (C16, one-pass).  Whatever follows — in the
    same scoping unit (`st` is any state, so this holds at every nesting depth) — the
    references met so far keep the kinds they got: the run of `sk ++ later` is the run of
    `later` started from the end of `sk`, and a run only ever appends to the log.  In
    particular a declaration AFTER a reference in the same scope does NOT shadow it. -/
theorem later_items_do_not_change_earlier_references (std : Std) (sk later : Sk) (st st1 : St)
    (h : run std sk st = .ok st1) :
    run std (sk.append later) st = run std later st1
    ∧ ∀ st2, run std later st1 = .ok st2 → ∃ ks, st2.log = st1.log ++ ks := by
  refine ⟨by rw [run_append, h], fun st2 h2 => run_log std later st1 st2 h2⟩

/-- witness of order sensitivity (replayed by `fv.cosim_symglue`, directed case "initialised
    entities are recorded; reference inside the declaration comes first"):
    `real :: v = sin(x)` / `real :: sin` / `r2 = sin(x)` in one scope — the reference inside the
    first declaration is an intrinsic although the SAME scope declares `sin` (later); the one
    after the declaration is shadowed.  And within ONE statement `real :: cos = cos(1.0)`:
    the reference is parsed before the entity is recorded. -/
theorem decl_after_reference_witness :
    refKinds .f2003 (.scope .subroutine "s".toList
        (.stmt (.decl (.intrinsic "REAL".toList) [⟨"v".toList, some ⟨"sin".toList, [.sub]⟩⟩])
          (.stmt (.decl (.intrinsic "REAL".toList) [⟨"sin".toList, none⟩])
            (.stmt (.assign ⟨"sin".toList, [.sub]⟩) .nil))) .nil) = .ok [.intrinsic, .partRef]
    ∧ refKinds .f2003 (.scope .subroutine "s".toList
        (.stmt (.decl (.intrinsic "REAL".toList) [⟨"cos".toList, some ⟨"cos".toList, [.nonsub]⟩⟩])
          (.stmt (.assign ⟨"cos".toList, [.nonsub]⟩) .nil)) .nil) = .ok [.intrinsic, .structCons] := by
  decide +kernel

/-- findings about what is NOT recorded, as witnesses (replayed by `fv.cosim_symglue`):
    a contained procedure `abs` does not shadow the intrinsic in its sibling; two program units of
    one name share one table, so the module's `sin` shadows in the subroutine of the same name -/
theorem scoping_witnesses :
    refKinds .f2003 (.scope .module "m".toList
        (.scope .function "abs".toList .nil
          (.scope .subroutine "t".toList (.stmt (.assign ⟨"abs".toList, [.sub]⟩) .nil) .nil)) .nil)
      = .ok [.intrinsic]
    ∧ refKinds .f2003 (.scope .module "a".toList (.stmt (.decl (.intrinsic "REAL".toList) [⟨"sin".toList, none⟩]) .nil)
        (.scope .subroutine "A".toList (.stmt (.assign ⟨"sin".toList, [.sub]⟩) .nil) .nil))
      = .ok [.partRef]
    ∧ refKinds .f2003 (.scope .subroutine "s".toList (.scope .block "b".toList .nil .nil) .nil)
      = .error .noMatch := by
  decide +kernel

/-! ## the call sites (kernel obligations over the generated file) -/

open Generated.SymGlueSites in
/-- the symbol-table operations are called exactly where the model assumes: a new, removed or
    moved call site changes `Generated/SymGlueSites.lean` and breaks this proof -/
theorem sites_as_assumed : callSites = assumedSites := by decide

open Generated.SymGlueSites in
theorem scoping_as_assumed :
    scoping2003 = assumedScoping .f2003 ∧ scoping2008 = assumedScoping .f2008 := by decide

open Generated.SymGlueSites in
/-- the classification `OEntry` is exhaustive: an `Only` is a `Generic_Spec`, an `Only_Use_Name`
    (→ `Name`) or a `Rename`; a `Generic_Spec` is itself, a `Generic_Name` (→ `Name`) or a
    `Dtio_Generic_Spec`, which is (still) not a Python subclass of `Generic_Spec` -/
theorem only_alternatives_as_assumed :
    onlyAlternatives = assumedOnlyAlternatives
    ∧ genericSpecAlternatives = ["Generic_Name", "Dtio_Generic_Spec"]
    ∧ dtioIsGenericSpec = false := by decide

open Generated.SymGlueSites in
/-- the `if / elif / else` chain of the only-list loop is the one `onlyLoop` mirrors: `Name` and
    `Rename` append, `Generic_Spec` AND `Dtio_Generic_Spec` pass (repo commit bf50e4e), the final
    `else` raises — and is unreachable by `only_alternatives_as_assumed`.  A change of a branch
    (class tested or action) breaks this proof. -/
theorem only_loop_branches_as_assumed : onlyLoopBranches = assumedOnlyLoopBranches := by decide

open Generated.SymGlueSites in
theorem primary_alternatives_as_assumed : primaryAlternatives = assumedPrimaryAlternatives := by decide

open Generated.SymGlueSites in
/-- the loops of the glue functions have no `break` / `continue` / `return`: every entry of a
    list is visited (the model's `onlyLoop` / `renameLoop` / `addSyms` run to the end) -/
theorem loops_run_to_the_end :
    loopEscapes = [("Use_Stmt.match", 0), ("Type_Declaration_Stmt.add_to_symbol_table", 0),
                   ("Intrinsic_Function_Reference.match", 0)] := by decide

open Generated.SymGlueSites in
theorem names_and_guards_as_assumed :
    mainProgramTableName.toList = scopeName .main0 []
    ∧ declRecordsOnlyIf = ["Intrinsic_Type_Spec"] := by decide

/-! ## non-vacuity -/

/-- hypotheses of `use_entries_all_recorded` / `decl_entities_all_recorded` hold in a state
    reached by the run itself (inside `module m`) -/
example :
    let st : St := { tabs := ({} : Tables).enterScope "m".toList }
    st.tabs.cur = some ("m".toList, []) ∧ (st.tabs.tableAt ("m".toList, [])).isSome = true
    ∧ ((st.tabs.tableAt ("m".toList, [])).map (·.loc.checking)) = some false
    ∧ useLocals (.only [.generic "operator(+)".toList, .name "x".toList, .ren (.op "p".toList "q".toList),
                        .dtio "read(formatted)".toList, .ren (.sym "Sin".toList "z".toList),
                        .generic "assignment(=)".toList])
        = ["x".toList, "sin".toList]
    ∧ (logInner .f2003 st [⟨"w".toList, none⟩, ⟨"v".toList, none⟩]).toOption.map (·.log) = some [] := by
  decide +kernel

/-- `Sim` is inhabited beyond the initial state, and `reference_intrinsic_iff` has both outcomes:
    in `subroutine s` after `real :: dsin`, `dsin(1)` is shadowed while `sin(x)` (its generic
    name) is an intrinsic -/
example :
    let sk : Sk := .scope .subroutine "s".toList
      (.stmt (.decl (.intrinsic "REAL".toList) [⟨"dsin".toList, none⟩])
        (.stmt (.assign ⟨"dsin".toList, [.sub]⟩) (.stmt (.assign ⟨"sin".toList, [.sub]⟩) .nil))) .nil
    refKinds .f2003 sk = .ok [.partRef, .intrinsic]
    ∧ (specRun .f2003 sk {}).toOption.map (·.log) = some [.partRef, .intrinsic] := by
  decide +kernel

example : Sim {} {} := sim_init

end Fp.SymGlue
