"""Translator for the SymGlue model (lean/FparserModel/SymGlue.lean): which rule classes of the
LIVE fparser.two source drive the symbol tables, written to
lean/FparserModel/Generated/SymGlueSites.lean.

Everything is read from the imported repo modules with `inspect.getsource` + `ast` (never
re-typed here):

  callSites            every call `<x>.enter_scope / exit_scope / add_data_symbol /
                       add_use_symbols / add_to_symbol_table (...)` in a module of fparser.two
                       (except symbol_table.py itself), as (module, Class.method, callee), in
                       source order per module, modules sorted
  scoping2003/2008     the classes that are `ScopingRegionMixin` (whose instances make
                       `BlockBase.match` open a scope) per standard
  onlyAlternatives     `Only.subclass_names`  (what an Only_List entry can be)
  genericSpecAlternatives, dtioIsGenericSpec
                       `Generic_Spec.subclass_names`, `issubclass(Dtio_Generic_Spec, Generic_Spec)`
                       (the `else: raise InternalError` branch of Use_Stmt.match is reachable
                       iff this is False while Dtio_Generic_Spec is an alternative)
  onlyLoopBranches     the `if / elif / else` chain inside `for child in result[4].children:` of
                       Use_Stmt.match: per branch the classes of its `isinstance(child, …)` test
                       (joined by `|`, `else` for the final branch) and what it does
                       (`append` / `pass` / `raise`)
  primaryAlternatives  `Primary.subclass_names` (Intrinsic_Function_Reference is tried first;
                       Designator / Structure_Constructor / Function_Reference take over)
  loopEscapes          per glue function: number of `break` / `continue` / `return` statements
                       inside its `for` loops (the model's loops run to the end of the list)
  mainProgramTableName the constant `table_name` of Main_Program0.match
  declRecordsOnlyIf    the `isinstance(result[0], X)` class guarding add_data_symbol

Props/SymGlue.lean proves (by `decide`) that these equal what the model assumes, so a new,
removed or moved call site breaks the build.
"""
import ast
import importlib
import inspect
import os
import pkgutil
import sys
import textwrap

from fv import repo

CALLEES = ("enter_scope", "exit_scope", "add_data_symbol", "add_use_symbols",
           "add_to_symbol_table")
GLUE_FUNCS = [("Fortran2003", "Use_Stmt", "match"),
              ("Fortran2003", "Type_Declaration_Stmt", "add_to_symbol_table"),
              ("Fortran2003", "Intrinsic_Function_Reference", "match")]


def _modules():
    """all modules of the package fparser.two (live), except the symbol table itself"""
    repo.activate()
    import fparser.two as two
    names = []
    for m in pkgutil.walk_packages(two.__path__, "fparser.two."):
        if ".tests" in m.name or m.name.endswith(".symbol_table"):
            continue
        names.append(m.name)
    mods = []
    for n in sorted(names):
        try:
            mods.append(importlib.import_module(n))
        except Exception:      # optional modules that do not import are not part of the parser
            continue
    return mods


def _short(modname):
    return modname[len("fparser.two."):]


def call_sites():
    out = []
    for mod in _modules():
        try:
            src = inspect.getsource(mod)
        except (OSError, TypeError):
            continue
        tree = ast.parse(src)
        found = []

        def visit_func(fn, qual):
            for node in ast.walk(fn):
                if isinstance(node, ast.Call) and isinstance(node.func, ast.Attribute) \
                        and node.func.attr in CALLEES:
                    found.append((node.lineno, node.col_offset, qual, node.func.attr))

        for top in tree.body:
            if isinstance(top, ast.ClassDef):
                for item in top.body:
                    if isinstance(item, (ast.FunctionDef, ast.AsyncFunctionDef)):
                        visit_func(item, top.name + "." + item.name)
            elif isinstance(top, (ast.FunctionDef, ast.AsyncFunctionDef)):
                visit_func(top, top.name)
        for _, _, qual, attr in sorted(found):
            out.append((_short(mod.__name__), qual, attr))
    return out


def scoping_classes():
    repo.activate()
    from fparser.two.utils import ScopingRegionMixin
    from fparser.two import Fortran2003, Fortran2008
    s03 = sorted(n for n, c in vars(Fortran2003).items()
                 if inspect.isclass(c) and issubclass(c, ScopingRegionMixin)
                 and c is not ScopingRegionMixin and c.__module__.startswith("fparser.two.Fortran2003"))
    own08 = sorted(n for n, c in vars(Fortran2008).items()
                   if inspect.isclass(c) and issubclass(c, ScopingRegionMixin)
                   and c is not ScopingRegionMixin and c.__module__.startswith("fparser.two.Fortran2008"))
    return s03, sorted(set(s03) | set(own08))


def _func_ast(modname, cls, meth):
    repo.activate()
    mod = importlib.import_module("fparser.two." + modname)
    fn = inspect.getattr_static(getattr(mod, cls), meth)
    fn = getattr(fn, "__func__", fn)
    return ast.parse(textwrap.dedent(inspect.getsource(fn))).body[0]


def loop_escapes():
    out = []
    for modname, cls, meth in GLUE_FUNCS:
        fn = _func_ast(modname, cls, meth)
        n = 0
        for loop in [x for x in ast.walk(fn) if isinstance(x, (ast.For, ast.While))]:
            for node in ast.walk(loop):
                if isinstance(node, (ast.Break, ast.Continue, ast.Return)):
                    n += 1
        out.append((cls + "." + meth, n))
    return out


def only_loop_branches():
    """the branches of the loop over the children of the Only_List in Use_Stmt.match"""
    fn = _func_ast("Fortran2003", "Use_Stmt", "match")
    loops = [x for x in ast.walk(fn) if isinstance(x, ast.For)
             and isinstance(x.target, ast.Name) and x.target.id == "child"]
    if len(loops) != 1 or len(loops[0].body) != 1 or not isinstance(loops[0].body[0], ast.If):
        return [("?", "unrecognised loop shape")]

    def action(body):
        if len(body) == 1 and isinstance(body[0], ast.Pass):
            return "pass"
        nodes = [n for b in body for n in ast.walk(b)]
        if any(isinstance(n, ast.Raise) for n in nodes):
            return "raise"
        if any(isinstance(n, (ast.Break, ast.Continue, ast.Return)) for n in nodes):
            return "escape"
        if any(isinstance(n, ast.Call) and isinstance(n.func, ast.Attribute) and n.func.attr == "append"
               for n in nodes):
            return "append"
        return "other"

    def classes(test):
        if isinstance(test, ast.Call) and isinstance(test.func, ast.Name) and test.func.id == "isinstance" \
                and len(test.args) == 2 and isinstance(test.args[0], ast.Name) and test.args[0].id == "child":
            c = test.args[1]
            if isinstance(c, ast.Name):
                return c.id
            if isinstance(c, ast.Tuple) and all(isinstance(e, ast.Name) for e in c.elts):
                return "|".join(e.id for e in c.elts)
        return "?" + ast.unparse(test)

    out = []
    node = loops[0].body[0]
    while True:
        out.append((classes(node.test), action(node.body)))
        if len(node.orelse) == 1 and isinstance(node.orelse[0], ast.If):
            node = node.orelse[0]
            continue
        if node.orelse:
            out.append(("else", action(node.orelse)))
        break
    return out


def main_program_table_name():
    fn = _func_ast("Fortran2003", "Main_Program0", "match")
    for node in ast.walk(fn):
        if isinstance(node, ast.Assign) and len(node.targets) == 1 \
                and isinstance(node.targets[0], ast.Name) and node.targets[0].id == "table_name" \
                and isinstance(node.value, ast.Constant) and isinstance(node.value.value, str):
            return node.value.value
    return ""


def decl_guard():
    """the class name X of `isinstance(result[0], X)` in the test that guards add_data_symbol"""
    fn = _func_ast("Fortran2003", "Type_Declaration_Stmt", "add_to_symbol_table")
    names = []
    for node in ast.walk(fn):
        if isinstance(node, ast.If):
            guarded = any(isinstance(c, ast.Call) and isinstance(c.func, ast.Attribute)
                          and c.func.attr == "add_data_symbol" for c in ast.walk(node))
            if not guarded:
                continue
            for c in ast.walk(node.test):
                if isinstance(c, ast.Call) and isinstance(c.func, ast.Name) and c.func.id == "isinstance" \
                        and len(c.args) == 2 and isinstance(c.args[1], ast.Name):
                    names.append(c.args[1].id)
    return sorted(set(names))


def facts():
    repo.activate()
    from fparser.two import Fortran2003 as F
    s03, s08 = scoping_classes()
    return {
        "callSites": call_sites(),
        "scoping2003": s03,
        "scoping2008": s08,
        "onlyAlternatives": list(F.Only.subclass_names),
        "genericSpecAlternatives": list(F.Generic_Spec.subclass_names),
        "dtioIsGenericSpec": issubclass(F.Dtio_Generic_Spec, F.Generic_Spec),
        "onlyLoopBranches": only_loop_branches(),
        "primaryAlternatives": list(F.Primary.subclass_names),
        "loopEscapes": loop_escapes(),
        "mainProgramTableName": main_program_table_name(),
        "declRecordsOnlyIf": decl_guard(),
    }


def _s(x):
    return '"' + x.replace("\\", "\\\\").replace('"', '\\"') + '"'


def _slist(xs):
    return "[" + ", ".join(_s(x) for x in xs) + "]"


def render():
    f = facts()
    L = []
    L.append("/- GENERATED by fv/extract_symglue.py from the live fparser source (inspect + ast) -- do not edit. -/")
    L.append("")
    L.append("namespace Fp.Generated.SymGlueSites")
    L.append("")
    L.append("/-- (module, Class.method, callee) of every call of a symbol-table operation -/")
    L.append("def callSites : List (String × String × String) := [")
    L.append(",\n".join("  (%s, %s, %s)" % (_s(a), _s(b), _s(c)) for a, b, c in f["callSites"]))
    L.append("]")
    L.append("")
    L.append("/-- `ScopingRegionMixin` classes -/")
    L.append("def scoping2003 : List String := " + _slist(f["scoping2003"]))
    L.append("def scoping2008 : List String := " + _slist(f["scoping2008"]))
    L.append("")
    L.append("/-- `Only.subclass_names` -/")
    L.append("def onlyAlternatives : List String := " + _slist(f["onlyAlternatives"]))
    L.append("/-- `Generic_Spec.subclass_names` -/")
    L.append("def genericSpecAlternatives : List String := " + _slist(f["genericSpecAlternatives"]))
    L.append("/-- `issubclass(Dtio_Generic_Spec, Generic_Spec)` -/")
    L.append("def dtioIsGenericSpec : Bool := " + ("true" if f["dtioIsGenericSpec"] else "false"))
    L.append("/-- branches of the only-list loop of `Use_Stmt.match`: (classes tested, action) -/")
    L.append("def onlyLoopBranches : List (String × String) := ["
             + ", ".join("(%s, %s)" % (_s(a), _s(b)) for a, b in f["onlyLoopBranches"]) + "]")
    L.append("/-- `Primary.subclass_names` -/")
    L.append("def primaryAlternatives : List String := " + _slist(f["primaryAlternatives"]))
    L.append("")
    L.append("/-- number of break / continue / return statements inside the loops of the glue functions -/")
    L.append("def loopEscapes : List (String × Nat) := ["
             + ", ".join("(%s, %d)" % (_s(a), n) for a, n in f["loopEscapes"]) + "]")
    L.append("/-- `table_name` of `Main_Program0.match` -/")
    L.append("def mainProgramTableName : String := " + _s(f["mainProgramTableName"]))
    L.append("/-- `isinstance(result[0], …)` guard of `add_data_symbol` -/")
    L.append("def declRecordsOnlyIf : List String := " + _slist(f["declRecordsOnlyIf"]))
    L.append("")
    L.append("end Fp.Generated.SymGlueSites")
    L.append("")
    return "\n".join(L), f


def generate(outdir=None):
    """Write SymGlueSites.lean into `outdir` (default: lean/FparserModel/Generated of this tree);
    rewritten only when the facts change.  Returns the facts."""
    if outdir is None:
        outdir = os.path.join(os.path.dirname(os.path.dirname(os.path.abspath(__file__))),
                              "lean", "FparserModel", "Generated")
    os.makedirs(outdir, exist_ok=True)
    text, f = render()
    path = os.path.join(outdir, "SymGlueSites.lean")
    old = None
    if os.path.exists(path):
        with open(path, encoding="utf-8") as fh:
            old = fh.read()
    if old != text:
        with open(path, "w", encoding="utf-8") as fh:
            fh.write(text)
    return f


if __name__ == "__main__":
    import json
    print(json.dumps(generate(sys.argv[1] if len(sys.argv) > 1 else None), indent=1))
