import FparserModel.IoStmt
/-!
# Rest — executable mirror of the remaining HAND-WRITTEN rule classes of `fparser/two/Fortran2003.py`

The classes with an own `match` (and, where separately written, `tostr`) that no other slice
(Cpp, Decl, IoStmt, Header, Primary, Incl08, the Combi / Expr / Block tables) pins:

    Flush_Stmt  Backspace_Stmt  Endfile_Stmt  Rewind_Stmt  Position_Spec  Flush_Spec  Wait_Spec
    Return_Stmt  Bind_Stmt  Target_Stmt  Target_Entity_Decl (`Entity_Decl.match(.., target=True)`)
    Type_Param_Decl  Enumerator  Type_Param_Def_Stmt  Stmt_Function_Stmt  Where_Construct_Stmt
    Declaration_Type_Spec  Intrinsic_Type_Spec  Rename  Use_Stmt (`_match`, `tostr`)  Include_Stmt
    Deferred_Shape_Spec  Allocate_Shape_Spec  Explicit_Shape_Spec  Assumed_Size_Spec
    Cray_Pointer_Decl  Cray_Pointer_Stmt  Io_Implied_Do  Io_Implied_Do_Control
    Char_Expr  Default_Char_Expr  Int_Expr  Logical_Expr  Numeric_Expr  Stop_Code  Defined_Op
    Data_Edit_Desc  Data_Edit_Desc_C1002  Hollerith_Item  Position_Edit_Desc  Format_Item_C1002

Same conventions as `IoStmt.lean`, whose types are reused (`Res`, `Exc`, `Slot`, `Item`, `Oracle`,
`runSlots`): children are OPAQUE (the oracle answers `cls(text)` and prints nodes), a `planX`
returns the child calls in EVALUATION order (`Slot.fail` / `Slot.raise` = `return None` / an
exception AFTER the preceding calls), an `arrange` permutation follows where the tuple order differs.
Classes whose control flow depends on a child (`Use_Stmt`, the keyword tables, the `isinstance`
filters, `Format_Item_C1002`) are written directly against the oracle.
Class ids extend those of `IoStmt.clsNames` (so that `IoStmt.C.*`, `unitDefault`, `kvTable` apply).
A result is a tuple (`Out.tuple`) or, for the classes that `return` the child object itself
(`Char_Expr` …, `Stop_Code`), that object (`Out.pass`): `Base.__new__` returns it unchanged.
ASCII domain as in `Py.lean`; no `"\n"` inside a statement text.
-/
namespace Fp.Rest
open Fp Fp.Splitline Fp.IoStmt

variable {Node : Type}

/-! ## class ids -/

def newNames : List String := [
  "Position_Spec_List", "Wait_Spec_List", "Language_Binding_Spec", "Bind_Entity_List",
  "Target_Entity_Decl_List", "Type_Param_Name", "Scalar_Int_Initialization_Expr", "Named_Constant",
  "Kind_Selector", "Type_Param_Attr_Spec", "Type_Param_Decl_List", "Function_Name",
  "Dummy_Arg_Name_List", "Scalar_Expr", "Derived_Type_Spec", "Local_Defined_Operator",
  "Use_Defined_Operator", "Local_Name", "Use_Name", "Include_Filename", "Lower_Bound_Expr",
  "Upper_Bound_Expr", "Lower_Bound", "Upper_Bound", "Explicit_Shape_Spec_List", "Cray_Pointer_Name",
  "Cray_Pointee_Decl", "Cray_Pointee_Name", "Io_Implied_Do_Object_List", "Io_Implied_Do_Control",
  "Expr", "Level_3_Expr", "Cray_Pointer_Decl_List", "Name", "Array_Spec", "Char_Selector", "W", "M",
  "D", "E", "N", "V_List", "Char_Literal_Constant", "Module_Nature", "Module_Name", "Only_List",
  "Rename_List", "Flush_Stmt", "Backspace_Stmt", "Endfile_Stmt", "Rewind_Stmt", "Position_Spec",
  "Flush_Spec", "Wait_Spec", "Return_Stmt", "Bind_Stmt", "Target_Stmt", "Type_Param_Decl",
  "Enumerator", "Type_Param_Def_Stmt", "Stmt_Function_Stmt", "Where_Construct_Stmt",
  "Declaration_Type_Spec", "Rename", "Include_Stmt", "Deferred_Shape_Spec", "Allocate_Shape_Spec",
  "Explicit_Shape_Spec", "Assumed_Size_Spec", "Cray_Pointer_Decl", "Cray_Pointer_Stmt",
  "Io_Implied_Do", "Char_Expr", "Default_Char_Expr", "Int_Expr", "Logical_Expr", "Numeric_Expr",
  "Target_Entity_Decl", "Defined_Op", "Intrinsic_Type_Spec", "Data_Edit_Desc_C1002",
  "Position_Edit_Desc", "Format_Item_C1002", "Use_Stmt", "Comment", "Directive"]

namespace R
def Position_Spec_List : ClassId := 101
def Wait_Spec_List : ClassId := 102
def Language_Binding_Spec : ClassId := 103
def Bind_Entity_List : ClassId := 104
def Target_Entity_Decl_List : ClassId := 105
def Type_Param_Name : ClassId := 106
def Scalar_Int_Initialization_Expr : ClassId := 107
def Named_Constant : ClassId := 108
def Kind_Selector : ClassId := 109
def Type_Param_Attr_Spec : ClassId := 110
def Type_Param_Decl_List : ClassId := 111
def Function_Name : ClassId := 112
def Dummy_Arg_Name_List : ClassId := 113
def Scalar_Expr : ClassId := 114
def Derived_Type_Spec : ClassId := 115
def Local_Defined_Operator : ClassId := 116
def Use_Defined_Operator : ClassId := 117
def Local_Name : ClassId := 118
def Use_Name : ClassId := 119
def Include_Filename : ClassId := 120
def Lower_Bound_Expr : ClassId := 121
def Upper_Bound_Expr : ClassId := 122
def Lower_Bound : ClassId := 123
def Upper_Bound : ClassId := 124
def Explicit_Shape_Spec_List : ClassId := 125
def Cray_Pointer_Name : ClassId := 126
def Cray_Pointee_Decl : ClassId := 127
def Cray_Pointee_Name : ClassId := 128
def Io_Implied_Do_Object_List : ClassId := 129
def Io_Implied_Do_Control : ClassId := 130
def Expr : ClassId := 131
def Level_3_Expr : ClassId := 132
def Cray_Pointer_Decl_List : ClassId := 133
def Name : ClassId := 134
def Array_Spec : ClassId := 135
def Char_Selector : ClassId := 136
def W : ClassId := 137
def M : ClassId := 138
def D : ClassId := 139
def E : ClassId := 140
def N : ClassId := 141
def V_List : ClassId := 142
def Char_Literal_Constant : ClassId := 143
def Module_Nature : ClassId := 144
def Module_Name : ClassId := 145
def Only_List : ClassId := 146
def Rename_List : ClassId := 147
def Flush_Stmt : ClassId := 148
def Backspace_Stmt : ClassId := 149
def Endfile_Stmt : ClassId := 150
def Rewind_Stmt : ClassId := 151
def Position_Spec : ClassId := 152
def Flush_Spec : ClassId := 153
def Wait_Spec : ClassId := 154
def Return_Stmt : ClassId := 155
def Bind_Stmt : ClassId := 156
def Target_Stmt : ClassId := 157
def Type_Param_Decl : ClassId := 158
def Enumerator : ClassId := 159
def Type_Param_Def_Stmt : ClassId := 160
def Stmt_Function_Stmt : ClassId := 161
def Where_Construct_Stmt : ClassId := 162
def Declaration_Type_Spec : ClassId := 163
def Rename : ClassId := 164
def Include_Stmt : ClassId := 165
def Deferred_Shape_Spec : ClassId := 166
def Allocate_Shape_Spec : ClassId := 167
def Explicit_Shape_Spec : ClassId := 168
def Assumed_Size_Spec : ClassId := 169
def Cray_Pointer_Decl : ClassId := 170
def Cray_Pointer_Stmt : ClassId := 171
def Io_Implied_Do : ClassId := 172
def Char_Expr : ClassId := 173
def Default_Char_Expr : ClassId := 174
def Int_Expr : ClassId := 175
def Logical_Expr : ClassId := 176
def Numeric_Expr : ClassId := 177
def Target_Entity_Decl : ClassId := 178
def Defined_Op : ClassId := 179
def Intrinsic_Type_Spec : ClassId := 180
def Data_Edit_Desc_C1002 : ClassId := 181
def Position_Edit_Desc : ClassId := 182
def Format_Item_C1002 : ClassId := 183
def Use_Stmt : ClassId := 184
def Comment : ClassId := 185
def Directive : ClassId := 186
end R

def clsNames : List String := IoStmt.clsNames ++ newNames

/-! ## extension flags (`EXTENSIONS()`; the translator checks them against the live list) -/
def crayPointerExt : Bool := true
def hollerithExt : Bool := true
def xFormatExt : Bool := true
def extendedStopExt : Bool := true

/-- what a `match` hands back to `Base.__new__`: a tuple, or (the classes that `return` the child
    object itself) that object, which `Base.__new__` returns unchanged -/
inductive Out (Node : Type) where
  | tuple (items : List (Item Node))
  | pass (n : Node)
deriving Repr, DecidableEq

/-- `not x` for an item: `None` and `""` are falsy, rule objects are truthy -/
def _root_.Fp.IoStmt.Item.falsy : Item Node → Bool
  | .none => true
  | .str [] => true
  | _ => false

def _root_.Fp.IoStmt.Item.isNone : Item Node → Bool
  | .none => true
  | _ => false

/-- `tok` when child calls `pre` have already been made: the `KeyError` comes after them -/
def tokAfter (pre : List Slot) (x : Str) (k : SrmResult → Res (List Slot)) : Res (List Slot) :=
  match tok x with
  | .ok r => k r
  | .noMatch => .noMatch
  | .raises e => .ok (pre ++ [.raise e])

/-! ## FLUSH / BACKSPACE / ENDFILE / REWIND

    if string[:n].upper() != KW: return
    line = string[n:].lstrip()
    if line.startswith("("):
        if not line.endswith(")"): return
        return None, Position_Spec_List(line[1:-1].strip())
    return File_Unit_Number(line), None
-/
def planPos (kw : Str) (s : Str) : Res (List Slot) :=
  if !kwIs kw s then .noMatch else
  let line := lstrip (s.drop kw.length)
  if startsC '(' line then
    if !endsC ')' line then .noMatch
    else .ok [.none, .child R.Position_Spec_List (strip (inner line))]
  else .ok [.child C.File_Unit_Number line, .none]

/-- `if items[0] is not None: assert items[1] is None; return "KW %s" % items[0]` /
    `return "KW(%s)" % items[1]` -/
def tostrPos (kw : Str) (o : Oracle Node) : List (Item Node) → Res Str
  | [] => .raises .indexError
  | .none :: b :: _ => .ok (kw ++ "(".toList ++ b.text o ++ ")".toList)
  | [_] => .raises .indexError
  | a :: .none :: _ => .ok (kw ++ " ".toList ++ a.text o)
  | _ :: _ :: _ => .raises .assertionError

def kwFlush : Str := "FLUSH".toList
def kwBackspace : Str := "BACKSPACE".toList
def kwEndfile : Str := "ENDFILE".toList
def kwRewind : Str := "REWIND".toList

/-! ## Position_Spec / Flush_Spec / Wait_Spec: keyword tables with `try … except NoMatchError`,
    default `return "UNIT", File_Unit_Number(string)` -/

def positionTableS : List (String × ClassId) :=
  flat ["ERR"] C.Label ++ flat ["IOSTAT"] C.Scalar_Int_Variable ++ flat ["IOMSG"] C.Iomsg_Variable ++
  flat ["UNIT"] C.File_Unit_Number
def positionTable : List (Str × ClassId) := strTable positionTableS

def waitTableS : List (String × ClassId) :=
  flat ["END", "EOR", "ERR"] C.Label ++ flat ["IOSTAT"] C.Scalar_Int_Variable ++
  flat ["IOMSG"] C.Iomsg_Variable ++ flat ["ID"] C.Scalar_Int_Expr ++ flat ["UNIT"] C.File_Unit_Number
def waitTable : List (Str × ClassId) := strTable waitTableS

/-- `Position_Spec.match` = `Flush_Spec.match` (same table, same code) -/
def matchPositionSpec (o : Oracle Node) (s : Str) : Res (List (Item Node)) :=
  tableOr (kvTable o true positionTable s) (unitDefault o s)

def matchWaitSpec (o : Oracle Node) (s : Str) : Res (List (Item Node)) :=
  tableOr (kvTable o true waitTable s) (unitDefault o s)

/-! ## Return_Stmt -/

def planReturn (s : Str) : Res (List Slot) :=
  if !kwIs "RETURN".toList s then .noMatch else
  if s.length == 6 then .ok [.none]
  else .ok [.child C.Scalar_Int_Expr (lstrip (s.drop 6))]

/-- `if items[0] is None: return "RETURN"` / `return "RETURN %s" % self.items` -/
def tostrReturn (o : Oracle Node) : List (Item Node) → Res Str
  | [] => .raises .indexError
  | .none :: _ => .ok "RETURN".toList
  | [a] => .ok ("RETURN ".toList ++ a.text o)
  | _ => .raises .typeError

/-! ## Bind_Stmt -/

def planBind (s : Str) : Res (List Slot) :=
  let cut : Option (Str × Str) :=
    match cutSub2 ':' ':' s with
    | some p => some p
    | none => Combi.cutFirst ')' s
  match cut with
  | none => .noMatch
  | some (l, r) =>
    let lhs := rstrip l
    let rhs := lstrip r
    if lhs.isEmpty || rhs.isEmpty then .noMatch
    else .ok [.child R.Language_Binding_Spec lhs, .child R.Bind_Entity_List rhs]

/-- `"%s :: %s" % self.items` -/
def tostrBind (o : Oracle Node) : List (Item Node) → Res Str
  | [a, b] => .ok (a.text o ++ " :: ".toList ++ b.text o)
  | _ => .raises .typeError

/-! ## Target_Stmt -/

def planTarget (s : Str) : Res (List Slot) :=
  if !kwIs "TARGET".toList s then .noMatch else
  let line := lstrip (s.drop 6)
  let line := if Combi.isPrefix "::".toList line then lstrip (line.drop 2) else line
  .ok [.child R.Target_Entity_Decl_List line]

def tostrTarget (o : Oracle Node) : List (Item Node) → Res Str
  | a :: _ => .ok ("TARGET :: ".toList ++ a.text o)
  | [] => .raises .indexError

/-! ## Target_Entity_Decl: `Entity_Decl.match(string, target=True)` -/

/-- `pattern.name.match(string)`: `[A-Z]\w*` (re.I) at the start — (the name, the rest) -/
def nameMatch (s : Str) : Option (Str × Str) :=
  match s with
  | c :: cs => if isAlpha c then some (c :: cs.takeWhile isWord, cs.dropWhile isWord) else none
  | [] => none

def planTargetEntityDecl (s : Str) : Res (List Slot) :=
  match nameMatch s with
  | none => .noMatch
  | some (nm, rest) =>
    let name := Slot.child R.Name nm
    let newline := lstrip rest
    if newline.isEmpty then .ok [name, .none, .none, .none] else
    if startsC '(' newline then
      tokAfter [name] newline fun r =>
      match Combi.cutFirst ')' r.text with
      | none => .ok [name, .fail]
      | some (a, b) =>
        let arr := Slot.child R.Array_Spec (applyMap r.map (strip (a.drop 1)))
        if !(applyMap r.map (lstrip b)).isEmpty then .ok [name, arr, .fail]
        else .ok [name, arr, .none, .none]
    else .ok [name, .fail]

/-- `Entity_Decl.tostr` -/
def tostrEntityDecl (o : Oracle Node) : List (Item Node) → Res Str
  | n :: a :: c :: i :: _ =>
    .ok (n.text o
      ++ (if a.isNone then [] else "(".toList ++ a.text o ++ ")".toList)
      ++ (if c.isNone then [] else "*".toList ++ c.text o)
      ++ (if i.isNone then [] else " ".toList ++ i.text o))
  | _ => .raises .indexError

/-! ## Type_Param_Decl / Enumerator (own `match`, `BinaryOpBase.tostr`) -/

def planTypeParamDecl (s : Str) : Res (List Slot) :=
  match Combi.cutFirst '=' s with
  | none => .noMatch
  | some (l, r) =>
    let lhs := rstrip l
    let rhs := lstrip r
    if lhs.isEmpty || rhs.isEmpty then .noMatch
    else .ok [.child R.Type_Param_Name lhs, .str "=".toList, .child R.Scalar_Int_Initialization_Expr rhs]

def planEnumerator (s : Str) : Res (List Slot) :=
  match Combi.cutFirst '=' s with
  | none => .noMatch
  | some (l, r) =>
    .ok [.child R.Named_Constant (rstrip l), .str "=".toList,
         .child R.Scalar_Int_Initialization_Expr (lstrip r)]

/-- `BinaryOpBase.tostr`: `" ".join([str(items[0]), str(items[1]), str(items[2])])` -/
def tostrBinary (o : Oracle Node) : List (Item Node) → Res Str
  | a :: b :: c :: _ => .ok (a.text o ++ " ".toList ++ b.text o ++ " ".toList ++ c.text o)
  | _ => .raises .indexError

/-! ## Type_Param_Def_Stmt -/

def planTypeParamDef (s : Str) : Res (List Slot) :=
  if !kwIs "INTEGER".toList s then .noMatch else
  (tok (lstrip (s.drop 7))).bind fun r =>
  if r.text.isEmpty then .noMatch else
  match Combi.cutFirst ',' r.text with
  | none => .noMatch
  | some (a, b) =>
    let ks := applyMap r.map (rstrip a)
    let line := applyMap r.map (lstrip b)
    match cutSub2 ':' ':' line with
    | none => .noMatch
    | some (x, y) =>
      let l1 := rstrip x
      let l2 := lstrip y
      if l1.isEmpty || l2.isEmpty then .noMatch else
      .ok [if ks.isEmpty then .none else .child R.Kind_Selector ks,
           .child R.Type_Param_Attr_Spec l1, .child R.Type_Param_Decl_List l2]

def tostrTypeParamDef (o : Oracle Node) : List (Item Node) → Res Str
  | [] => .raises .indexError
  | [.none, b, c] => .ok ("INTEGER, ".toList ++ b.text o ++ " :: ".toList ++ c.text o)
  | [a, b, c] => .ok ("INTEGER".toList ++ a.text o ++ ", ".toList ++ b.text o ++ " :: ".toList ++ c.text o)
  | _ => .raises .typeError

/-! ## Stmt_Function_Stmt -/

def planStmtFunction (s : Str) : Res (List Slot) :=
  match Combi.cutFirst '=' s with
  | none => .noMatch
  | some (l, r) =>
    let expr := lstrip r
    if expr.isEmpty then .noMatch else
    let line := rstrip l
    if line.isEmpty || !endsC ')' line then .noMatch else
    match Combi.cutFirst '(' line with
    | none => .noMatch
    | some (a, b) =>
      let name := rstrip a
      if name.isEmpty then .noMatch else
      let args := strip b.dropLast
      if !args.isEmpty then
        .ok [.child R.Function_Name name, .child R.Dummy_Arg_Name_List args, .child R.Scalar_Expr expr]
      else .ok [.child R.Function_Name name, .none, .child R.Scalar_Expr expr]

def tostrStmtFunction (o : Oracle Node) : List (Item Node) → Res Str
  | [] => .raises .indexError
  | [_] => .raises .indexError
  | a :: .none :: c :: _ => .ok (a.text o ++ " () = ".toList ++ c.text o)
  | [_, .none] => .raises .indexError
  | [a, b, c] => .ok (a.text o ++ " (".toList ++ b.text o ++ ") = ".toList ++ c.text o)
  | _ => .raises .typeError

/-! ## Where_Construct_Stmt -/

def planWhereConstruct (s : Str) : Res (List Slot) :=
  if !kwIs "WHERE".toList s then .noMatch else
  let line := lstrip (s.drop 5)
  if line.isEmpty then .noMatch else
  if !(startsC '(' line && endsC ')' line) then .noMatch else
  let x := strip (inner line)
  if x.isEmpty then .noMatch else .ok [.child C.Mask_Expr x]

/-- `"WHERE (%s)" % tuple(self.items)` -/
def tostrWhereConstruct (o : Oracle Node) : List (Item Node) → Res Str
  | [a] => .ok ("WHERE (".toList ++ a.text o ++ ")".toList)
  | _ => .raises .typeError

/-! ## Declaration_Type_Spec -/

def planDeclTypeSpec (s : Str) : Res (List Slot) :=
  if s.isEmpty then .noMatch else
  if !endsC ')' s then .noMatch else
  if kwIs "TYPE".toList s then
    let line := lstrip (s.drop 4)
    if !startsC '(' line then .noMatch
    else .ok [.str "TYPE".toList, .child R.Derived_Type_Spec (strip (inner line))]
  else if kwIs "CLASS".toList s then
    let line := lstrip (s.drop 5)
    if !startsC '(' line then .noMatch else
    let x := strip (inner line)
    if x == ['*'] then .ok [.str "CLASS".toList, .str "*".toList]
    else .ok [.str "CLASS".toList, .child R.Derived_Type_Spec x]
  else .noMatch

/-- `"%s(%s)" % self.items` -/
def tostrDeclTypeSpec (o : Oracle Node) : List (Item Node) → Res Str
  | [a, b] => .ok (a.text o ++ "(".toList ++ b.text o ++ ")".toList)
  | _ => .raises .typeError

/-! ## Intrinsic_Type_Spec: `WORDClsBase.match(w, cls, string)` in a loop with `try/except` -/

inductive WordRow where
  | kw (k : String) (c : Option ClassId)
  | dbl (w value : String)        -- `abs(DOUBLE\s*<w>)` with `value`
deriving Repr, DecidableEq

def intrinsicTypeRows : List WordRow :=
  [.kw "INTEGER" (some R.Kind_Selector), .kw "REAL" (some R.Kind_Selector),
   .kw "COMPLEX" (some R.Kind_Selector), .kw "LOGICAL" (some R.Kind_Selector),
   .kw "CHARACTER" (some R.Char_Selector), .dbl "COMPLEX" "DOUBLE COMPLEX",
   .dbl "PRECISION" "DOUBLE PRECISION", .kw "BYTE" none]

/-- `\ADOUBLE\s*<w>\Z` with re.I -/
def isDouble (w : Str) (s : Str) : Bool :=
  let u := upper s
  Combi.isPrefix "DOUBLE".toList u && lstrip (u.drop 6) == w

def wordRows (o : Oracle Node) : List WordRow → Str → Res (List (Item Node))
  | [], _ => .noMatch
  | .kw k c :: rest, s =>
    match Combi.wordSplit1 k.toList c false false s with
    | none => wordRows o rest s
    | some slots =>
      match runSlots o (slots.map ofCombiSlot) with
      | .ok items => .ok items
      | .noMatch => wordRows o rest s
      | .raises e => .raises e
  | .dbl w v :: rest, s =>
    if isDouble w.toList s then .ok [.str v.toList, .none] else wordRows o rest s

def matchIntrinsicTypeSpec (o : Oracle Node) (s : Str) : Res (List (Item Node)) :=
  wordRows o intrinsicTypeRows s

def specWordPlain : Combi.Spec := .word [] false none false false false

/-! ## Rename -/

def planRename (s : Str) : Res (List Slot) :=
  match cutSub2 '=' '>' s with
  | none => .noMatch
  | some (p0, p1) =>
    let lhs := rstrip p0
    let rhs := lstrip p1
    if lhs.isEmpty || rhs.isEmpty then .noMatch else
    let plain : Res (List Slot) := .ok [.none, .child R.Local_Name lhs, .child R.Use_Name rhs]
    if kwIs "OPERATOR".toList lhs && kwIs "OPERATOR".toList rhs then
      let tmp := lstrip (lhs.drop 8)
      let rop := lstrip (rhs.drop 8)
      if !tmp.isEmpty && !rop.isEmpty && startsC '(' tmp && endsC ')' tmp then
        if !startsC '(' rop || !endsC ')' rop then .noMatch else
        let t := strip (inner tmp)
        let u := strip (inner rop)
        if t.isEmpty || u.isEmpty then .noMatch
        else .ok [.str "OPERATOR".toList, .child R.Local_Defined_Operator t,
                  .child R.Use_Defined_Operator u]
      else plain
    else plain

def tostrRename (o : Oracle Node) : List (Item Node) → Res Str
  | a :: b :: c :: _ =>
    if a.falsy then .ok (b.text o ++ " => ".toList ++ c.text o)
    else .ok (a.text o ++ "(".toList ++ b.text o ++ ") => ".toList ++ a.text o ++ "(".toList ++ c.text o ++ ")".toList)
  | _ => .raises .indexError

/-! ## Include_Stmt -/

def planInclude (s : Str) : Res (List Slot) :=
  if s.isEmpty then .noMatch else
  let line := strip s
  if !kwIs "INCLUDE".toList line then .noMatch else
  let rhs := strip (line.drop 7)
  if rhs.length < 3 then .noMatch else
  if !((startsC '\'' rhs && endsC '\'' rhs) || (startsC '"' rhs && endsC '"' rhs)) then .noMatch
  else .ok [.child R.Include_Filename (inner rhs)]

def tostrInclude (o : Oracle Node) : List (Item Node) → Res Str
  | a :: _ => .ok ("INCLUDE '".toList ++ a.text o ++ "'".toList)
  | [] => .raises .indexError

/-! ## shape specs -/

def planDeferredShape (s : Str) : Res (List Slot) :=
  if s == [':'] then .ok [.none, .none] else .noMatch

/-- `SeparatorBase.tostr` -/
def tostrSeparator (o : Oracle Node) : List (Item Node) → Res Str
  | a :: b :: _ =>
    .ok ((if a.isNone then ":".toList else a.text o ++ " :".toList)
      ++ (if b.isNone then [] else " ".toList ++ b.text o))
  | _ => .raises .indexError

/-- `Allocate_Shape_Spec.match` / `Explicit_Shape_Spec.match` (the two child classes as parameters) -/
def planShapeSpec (lowerC upperC : ClassId) (s : Str) : Res (List Slot) :=
  (tok s).bind fun r =>
  match Combi.cutFirst ':' r.text with
  | none => .ok [.none, .child upperC s]
  | some (lo, up) =>
    let lower := rstrip lo
    let upper := lstrip up
    if upper.isEmpty then .noMatch else
    if lower.isEmpty then .noMatch else
    .ok [.child lowerC (applyMap r.map lower), .child upperC (applyMap r.map upper)]

/-- `if items[0] is None: return str(items[1])` / `SeparatorBase.tostr(self)` -/
def tostrShapeSpec (o : Oracle Node) : List (Item Node) → Res Str
  | [] => .raises .indexError
  | [_] => .raises .indexError
  | .none :: b :: _ => .ok (b.text o)
  | items => tostrSeparator o items

def planAssumedSize (s : Str) : Res (List Slot) :=
  if !endsC '*' s then .noMatch else
  let line := rstrip s.dropLast
  if line.isEmpty then .ok [.none, .none] else
  if endsC ':' line then
    (tok (rstrip line.dropLast)).bind fun r =>
    match Combi.cutLast ',' r.text with
    | none => .ok [.none, .child R.Lower_Bound (applyMap r.map r.text)]
    | some (a, b) =>
      .ok [.child R.Explicit_Shape_Spec_List (applyMap r.map (rstrip a)),
           .child R.Lower_Bound (applyMap r.map (lstrip b))]
  else if !endsC ',' line then .noMatch
  else .ok [.child R.Explicit_Shape_Spec_List (rstrip line.dropLast), .none]

def tostrAssumedSize (o : Oracle Node) : List (Item Node) → Res Str
  | a :: b :: _ =>
    .ok ((if a.isNone then [] else a.text o ++ ", ".toList)
      ++ (if b.isNone then [] else b.text o ++ " : ".toList) ++ "*".toList)
  | _ => .raises .indexError

/-! ## Cray pointers -/

def planCrayPointerDecl (s : Str) : Res (List Slot) :=
  if s.isEmpty then .noMatch else
  let ss := strip s
  if ss.isEmpty then .noMatch else
  if !startsC '(' ss then .noMatch else
  if !endsC ')' ss then .noMatch else
  (tok (strip (inner ss))).bind fun r =>
  match splitC ',' r.text with
  | [a, b] =>
    let pointer := strip (applyMap r.map a)
    let pointee := strip (applyMap r.map b)
    -- `if not pointee_str: return None` (repaired: `pointee_str[-1]` used to raise IndexError here)
    if pointee.isEmpty then .noMatch else
    if endsC ')' pointee then
      .ok [.child R.Cray_Pointer_Name pointer, .child R.Cray_Pointee_Decl pointee]
    else .ok [.child R.Cray_Pointer_Name pointer, .child R.Cray_Pointee_Name pointee]
  | _ => .noMatch

def tostrCrayPointerDecl (o : Oracle Node) : List (Item Node) → Res Str
  | [a, b] =>
    if a.falsy || b.falsy then .raises .internalError
    else .ok ("(".toList ++ a.text o ++ ", ".toList ++ b.text o ++ ")".toList)
  | _ => .raises .internalError

def specCrayPointerStmt : Combi.Spec :=
  .word ["POINTER".toList] false (some R.Cray_Pointer_Decl_List) false true false

def planCrayPointerStmt (s : Str) : Res (List Slot) :=
  if !crayPointerExt then .noMatch else combiPlan specCrayPointerStmt s

/-! ## implied DO of an i/o list -/

def planIoImpliedDo (s : Str) : Res (List Slot) :=
  if s.length ≤ 9 || !startsC '(' s || !endsC ')' s then .noMatch else
  (tok (strip (inner s))).bind fun r =>
  match Combi.cutLast '=' r.text with
  | none => .noMatch
  | some (pre, post) =>
    match Combi.cutLast ',' pre with
    | none => .noMatch
    | some (a, b) =>
      .ok [.child R.Io_Implied_Do_Object_List (applyMap r.map (rstrip a)),
           .child R.Io_Implied_Do_Control (applyMap r.map (lstrip (b ++ '=' :: post)))]

/-- `"(%s, %s)" % self.items` -/
def tostrIoImpliedDo (o : Oracle Node) : List (Item Node) → Res Str
  | [a, b] => .ok ("(".toList ++ a.text o ++ ", ".toList ++ b.text o ++ ")".toList)
  | _ => .raises .typeError

def planIoImpliedDoControl (s : Str) : Res (List Slot) :=
  (tok s).bind fun r =>
  match Combi.cutFirst '=' r.text with
  | none => .noMatch
  | some (v, exprs) =>
    let first := Slot.child C.Do_Variable (applyMap r.map (rstrip v))
    let es := splitC ',' (lstrip exprs)
    if es.length != 2 && es.length != 3 then .ok [first, .fail] else
    .ok (first :: es.map (fun e => Slot.child C.Scalar_Int_Expr (applyMap r.map (strip e)))
          ++ (if es.length == 2 then [.none] else []))

def tostrIoImpliedDoControl (o : Oracle Node) : List (Item Node) → Res Str
  | [a, b, c, .none] => .ok (a.text o ++ " = ".toList ++ b.text o ++ ", ".toList ++ c.text o)
  | [a, b, c, d] =>
    .ok (a.text o ++ " = ".toList ++ b.text o ++ ", ".toList ++ c.text o ++ ", ".toList ++ d.text o)
  | _ :: _ :: _ :: _ :: _ :: _ => .raises .typeError
  | _ => .raises .indexError

/-! ## the `isinstance` filters: Char_Expr, Default_Char_Expr, Int_Expr, Logical_Expr, Numeric_Expr

    result = Expr(string)
    if isinstance(result, excluded): return None
    return result
-/

def exclChar : List String :=
  ["Signed_Int_Literal_Constant", "Int_Literal_Constant", "Binary_Constant", "Octal_Constant",
   "Hex_Constant", "Signed_Real_Literal_Constant", "Real_Literal_Constant",
   "Complex_Literal_Constant", "Logical_Literal_Constant"]
def exclInt : List String :=
  ["Binary_Constant", "Octal_Constant", "Hex_Constant", "Signed_Real_Literal_Constant",
   "Real_Literal_Constant", "Complex_Literal_Constant", "Char_Literal_Constant",
   "Logical_Literal_Constant"]
def exclLogical : List String :=
  ["Signed_Int_Literal_Constant", "Int_Literal_Constant", "Binary_Constant", "Octal_Constant",
   "Hex_Constant", "Signed_Real_Literal_Constant", "Real_Literal_Constant",
   "Complex_Literal_Constant", "Char_Literal_Constant"]
def exclNumeric : List String :=
  ["Binary_Constant", "Octal_Constant", "Hex_Constant", "Char_Literal_Constant",
   "Logical_Literal_Constant"]

/-- what the model needs to know about a child object beyond its text -/
structure Kinds (Node : Type) where
  /-- `isinstance(node, <class named name>)` -/
  isInst : Node → String → Bool
  /-- `Format_Item_C1002`: `isinstance(rhs, Format_Item)`, `rhs.items[1]` is a `Data_Edit_Desc(_C1002)`
      whose `items[0].upper()` is one of F, E, EN, ES, D, G -/
  pOK : Node → Bool

def matchExprKind (k : Kinds Node) (excluded : List String) (o : Oracle Node) (s : Str) : Res (Out Node) :=
  match o.call R.Expr s with
  | .ok n => if excluded.any (k.isInst n) then .noMatch else .ok (.pass n)
  | .noMatch => .noMatch
  | .raises e => .raises e

/-! ## Stop_Code -/

/-- `pattern.abs_label`: `\A\d{1,5}\Z` -/
def isLabelStr (s : Str) : Bool := 1 ≤ s.length && s.length ≤ 5 && s.all isDigit

def matchStopCode (o : Oracle Node) (s : Str) : Res (Out Node) :=
  if isLabelStr s then .ok (.tuple [.str s])
  else if !extendedStopExt then .noMatch
  else (o.call R.Level_3_Expr s).map .pass

/-- `StringBase.tostr`: `str(self.string)` (`init(string)`: exactly one item) -/
def tostrString (o : Oracle Node) : List (Item Node) → Res Str
  | [a] => .ok (a.text o)
  | _ => .raises .typeError

/-! ## Defined_Op -/

def nonDefinedWords : List String :=
  ["EQ", "NE", "LT", "LE", "GT", "GE", "NOT", "AND", "OR", "EQV", "NEQV", "TRUE", "FALSE"]

def isUpperLetter (c : Char) : Bool := 'A' ≤ c && c ≤ 'Z'

/-- `len ≤ 65`, not an intrinsic operator / logical literal (`non_defined_binary_op.match`), and
    `\A[.][A-Z]+[.]\Z` on the upper-cased text: the upper-cased text -/
def definedOp (s : Str) : Option Str :=
  let ss := strip s
  if ss.length > 65 then none else
  let u := upper ss
  match u with
  | '.' :: rest =>
    if endsC '.' rest then
      let w := rest.dropLast
      if !w.isEmpty && w.all isUpperLetter && !nonDefinedWords.contains (String.ofList w) then some u
      else none
    else none
  | _ => none

def planDefinedOp (s : Str) : Res (List Slot) :=
  match definedOp s with
  | some u => .ok [.str u]
  | none => .noMatch

/-! ## Use_Stmt (`_match`; the symbol-table part of `match` is the SymGlue slice) -/

/-- `re.findall(r"[\w']+", line)` -/
def useWords : Str → List Str
  | [] => []
  | c :: cs =>
    if isWord c || c == '\'' then
      match useWords cs with
      | w :: ws =>
        -- does the run continue?  (`cs` starts with a word character)
        (match cs with
          | d :: _ => if isWord d || d == '\'' then (c :: w) :: ws else [c] :: w :: ws
          | [] => [c] :: w :: ws)
      | [] => [[c]]
    else useWords cs

/-- `for item in items: try: nature = Module_Nature(item) except NoMatchError: pass` -/
def natureScan (o : Oracle Node) : List Str → Option Node → Res (Option Node)
  | [], acc => .ok acc
  | w :: ws, acc =>
    match o.call R.Module_Nature w with
    | .ok n => natureScan o ws (some n)
    | .noMatch => natureScan o ws acc
    | .raises e => .raises e

def useTail (o : Oracle Node) (nat dc : Item Node) (line : Str) : Res (List (Item Node)) :=
  match Combi.cutFirst ',' line with
  | none => (o.call R.Module_Name line).map fun n => [nat, dc, .node n, .str [], .none]
  | some (a, b) =>
    let name := rstrip a
    if name.isEmpty then .noMatch else
    (o.call R.Module_Name name).bind fun nm =>
    let l := lstrip b
    if l.isEmpty then .noMatch else
    let after := (l.drop 4).head?
    let onlyWord := kwIs "ONLY".toList l &&
      !(match after with
        | some c => c.isAlphanum || c == '_'
        | none => false)
    if onlyWord then
      let l := lstrip (l.drop 4)
      if l.isEmpty then .noMatch else
      if !startsC ':' l then .noMatch else
      let l := lstrip (l.drop 1)
      if l.isEmpty then .ok [nat, dc, .node nm, .str ", ONLY:".toList, .none]
      else (o.call R.Only_List l).map fun ol => [nat, dc, .node nm, .str ", ONLY:".toList, .node ol]
    else (o.call R.Rename_List l).map fun rl => [nat, dc, .node nm, .str ",".toList, .node rl]

def matchUse (o : Oracle Node) (s : Str) : Res (List (Item Node)) :=
  let line := strip s
  if !kwIs "USE".toList line then .noMatch else
  let line := line.drop 3
  match line with
  | [] => .noMatch
  | c :: _ =>
    if c.isAlphanum then .noMatch else
    let line := lstrip line
    match cutSub2 ':' ':' line with
    | some (pre, post) =>
      let natR : Res (Item Node) :=
        if startsC ',' line then
          let ln := strip (pre.drop 1)
          if ln.isEmpty then .noMatch else (o.call R.Module_Nature ln).map .node
        -- `elif line[:idx].strip(): return None` (repaired: only `, Module_Nature` may stand before the `::`)
        else if !(strip pre).isEmpty then .noMatch
        else .ok .none
      natR.bind fun nat =>
      let l2 := lstrip post
      if l2.isEmpty then .noMatch else useTail o nat (.str "::".toList) l2
    | none =>
      (natureScan o (useWords line) none).bind fun f =>
      match f with
      | some _ => .noMatch
      | none => useTail o .none .none line

def tostrUse (o : Oracle Node) : List (Item Node) → Res Str
  | [nat, dc, name, sep, lst] =>
    if name.falsy then .raises .internalError else
    if sep.isNone then .raises .internalError else
    let head : Str :=
      if !nat.falsy && !dc.falsy then "USE, ".toList ++ nat.text o ++ " ".toList ++ dc.text o
      else if nat.falsy && !dc.falsy then "USE ".toList ++ dc.text o
      else "USE".toList
    .ok (head ++ " ".toList ++ name.text o ++ sep.text o
      ++ (if lst.isNone then [] else " ".toList ++ lst.text o))
  | _ => .raises .internalError

/-! ## edit descriptors -/

def classMarker : Str := "<class Int_Literal_Constant>".toList

def planDataEditDesc (s : Str) : Res (List Slot) :=
  match s with
  | [] => .raises .indexError                    -- `string[0]`
  | c0 :: rest =>
    let c := upperC c0
    if c == 'I' || c == 'B' || c == 'O' || c == 'Z' then
      let line := lstrip rest
      match Combi.cutFirst '.' line with
      | some (i1, i2) =>
        .ok [.str [c], .child R.W (rstrip i1), .child R.M (lstrip i2), .none, .str classMarker]
      | none => .ok [.str [c], .child R.W line, .none, .none]
    else if c == 'L' then
      let line := lstrip rest
      if line.isEmpty then .noMatch else .ok [.str [c], .child R.W line, .none, .none]
    else if c == 'A' then
      let line := lstrip rest
      if line.isEmpty then .ok [.str [c], .none, .none, .none]
      else .ok [.str [c], .child R.W line, .none, .none]
    else
      let c2 := upper (s.take 2)
      if c2.length != 2 then .noMatch else
      if c2 == "DT".toList then
        let line := lstrip (s.drop 2)
        if line.isEmpty then .ok [.str c2, .none, .none, .none] else
        if endsC ')' line then
          match Combi.cutLast '(' line with
          | none => .noMatch
          | some (a, b) =>
            let tmp := strip b.dropLast
            if tmp.isEmpty then .noMatch else
            let line2 := rstrip a
            -- call order: V_List first, then Char_Literal_Constant
            if line2.isEmpty then .ok [.child R.V_List tmp, .str c2, .none, .none]
            else .ok [.child R.V_List tmp, .str c2, .child R.Char_Literal_Constant line2, .none]
        else .ok [.str c2, .child R.Char_Literal_Constant line, .none, .none]
      else .noMatch

/-- call order → tuple order (`(c, Char_Literal_Constant(line), lst, None)`) -/
def arrangeDataEdit : List (Item Node) → List (Item Node)
  | [.node v, .str c, l, n] => [.str c, l, .node v, n]
  | xs => xs

def exNotImplemented : Exc := .child "NotImplementedError".toList

def tostrDataEditDesc (o : Oracle Node) : List (Item Node) → Res Str
  | [] => .raises .indexError
  | .str c :: rest =>
    if ["I", "B", "O", "Z", "A", "L"].contains (String.ofList c) then
      match rest with
      | i1 :: i2 :: _ =>
        if i2.isNone then (if i1.isNone then .ok c else .ok (c ++ i1.text o))
        else .ok (c ++ i1.text o ++ ".".toList ++ i2.text o)
      | _ => .raises .indexError
    else if c == "DT".toList then
      match rest with
      | i1 :: i2 :: _ =>
        if i1.isNone then
          (if i2.isNone then .ok c else .ok (c ++ "(".toList ++ i2.text o ++ ")".toList))
        else if i2.isNone then .ok (c ++ i1.text o)
        else .ok (c ++ i1.text o ++ "(".toList ++ i2.text o ++ ")".toList)
      | [_] => .raises .indexError
      | [] => .raises .indexError
    else .raises exNotImplemented
  | _ :: _ => .raises exNotImplemented

def planDataEditDescC1002 (s : Str) : Res (List Slot) :=
  if s.isEmpty then .noMatch else
  match strip s with
  | [] => .noMatch
  | c0 :: rest =>
    let ch := upperC c0
    if ch == 'F' || ch == 'D' then
      let my := upper (lstrip rest)
      match Combi.cutFirst '.' my with
      | some (l, r) => .ok [.str [ch], .child R.W (rstrip l), .child R.D (lstrip r), .none]
      | none => .noMatch
    else if ch == 'E' || ch == 'G' then
      let my := upper (lstrip rest)
      match my with
      | [] => .noMatch                            -- `if not my_str: return None` (repaired: `my_str[0]` raised IndexError)
      | c2 :: my' =>
        let two := ch == 'E' && (c2 == 'S' || c2 == 'N')
        let my2 := if two then lstrip my' else my
        let name := if two then [ch, c2] else [ch]
        match Combi.cutFirst '.' my2 with
        | none => .noMatch
        | some (l, r0) =>
          let left := rstrip l
          let right := lstrip r0
          match Combi.cutFirst 'E' right with
          | some (m, r) => .ok [.str name, .child R.W left, .child R.D (rstrip m), .child R.E (lstrip r)]
          | none => .ok [.str name, .child R.W left, .child R.D right, .none]
    else .noMatch

def tostrDataEditDescC1002 (o : Oracle Node) : List (Item Node) → Res Str
  | [nm, w, d, e] =>
    if nm.falsy || w.falsy || d.falsy then .raises .internalError else
    match nm with
    | .str n =>
      if n == "F".toList || n == "D".toList then
        if !e.falsy then .raises .internalError
        else .ok (n ++ w.text o ++ ".".toList ++ d.text o)
      else if ["E", "EN", "ES", "G"].contains (String.ofList n) then
        if e.isNone then .ok (n ++ w.text o ++ ".".toList ++ d.text o)
        else .ok (n ++ w.text o ++ ".".toList ++ d.text o ++ "E".toList ++ e.text o)
      else .raises .internalError
    | _ => .raises .internalError
  | _ => .raises .internalError

def planHollerith (s : Str) : Res (List Slot) :=
  if !hollerithExt then .noMatch else
  if s.isEmpty then .noMatch else
  let ss := lstrip s
  match hollerithPrefix ss with
  | none => .noMatch
  | some m =>
    match pyInt (Combi.noSpaces m.dropLast) with
    | none => .raises .valueError
    | some n =>
      let num := m.length + n
      if ss.length < num then .noMatch else
      if ss.length > num && !(strip (ss.drop num)).isEmpty then .noMatch
      else .ok [.str ((ss.drop m.length).take n)]

def tostrHollerith (_o : Oracle Node) : List (Item Node) → Res Str
  | [.str t] => if t.isEmpty then .raises .internalError else .ok (natToStr t.length ++ 'H' :: t)
  | [.none] => .raises .internalError
  | [_] => .raises .typeError
  | _ => .raises .internalError

def planPositionEditDesc (s : Str) : Res (List Slot) :=
  if s.isEmpty then .noMatch else
  let u := upper (strip s)
  match u with
  | [] => .noMatch
  | 'T' :: rest =>
    (match rest with
      | [] => .noMatch
      | c1 :: rest2 =>
        if c1 == 'L' || c1 == 'R' then .ok [.str ['T', c1], .child R.N (lstrip rest2)]
        else .ok [.str ['T'], .child R.N (lstrip rest)])
  | _ =>
    if endsC 'X' u then
      if xFormatExt && u.length == 1 then .ok [.none, .str "X".toList]
      else .ok [.child R.N (rstrip u.dropLast), .str "X".toList]
    else .noMatch

def tostrPositionEditDesc (o : Oracle Node) : List (Item Node) → Res Str
  | [a, b] =>
    if b.falsy then .raises .internalError
    else if !a.falsy then .ok (a.text o ++ b.text o) else .ok (b.text o)
  | _ => .raises .internalError

/-- `Format_Item_C1002.match` -/
def matchFormatItemC1002 (k : Kinds Node) (o : Oracle Node) (s : Str) : Res (List (Item Node)) :=
  if s.isEmpty then .noMatch else
  let ss := strip s
  if ss.length ≤ 1 then .noMatch else
  match ss, ss.getLast? with
  | c0 :: rest0, some cl =>
    if c0 == ':' || c0 == '/' then
      runSlots o [.child C.Control_Edit_Desc [c0], .child C.Format_Item (lstrip rest0)]
    else if cl == ':' || cl == '/' then
      runSlots o [.child C.Format_Item (rstrip ss.dropLast), .child C.Control_Edit_Desc [cl]]
    else
      let fallthrough : Res (List (Item Node)) :=
        (tok ss).bind fun r =>
        match Combi.cutFirst '/' r.text with
        | some (l, rt) =>
          runSlots o [.child C.Format_Item (applyMap r.map (rstrip l)),
                      .child C.Format_Item ('/' :: applyMap r.map (lstrip rt))]
        | none =>
          match Combi.cutFirst ':' r.text with
          | some (l, rt) =>
            runSlots o [.child C.Format_Item (applyMap r.map (rstrip l)),
                        .child C.Format_Item (':' :: applyMap r.map (lstrip rt))]
          | none => .noMatch
      let sd := skipDigits ss
      if sd.1 then
        let result := upperC ((ss.drop sd.2).headD ' ')
        let pair : List Slot :=
          [.child C.Control_Edit_Desc (ss.take (sd.2 + 1)), .child C.Format_Item (lstrip (ss.drop (sd.2 + 1)))]
        if result == '/' then runSlots o pair
        else if result == 'P' then
          match runSlots o pair with
          | .ok [l, .node r] => if k.pOK r then .ok [l, .node r] else .noMatch
          | .ok _ => .noMatch
          | .noMatch => .noMatch
          | .raises e => .raises e
        else fallthrough
      else fallthrough
  | _, _ => .noMatch

def tostrFormatItemC1002 (o : Oracle Node) : List (Item Node) → Res Str
  | [a, b] =>
    if a.falsy || b.falsy then .raises .internalError
    else .ok (a.text o ++ ", ".toList ++ b.text o)
  | _ => .raises .internalError

/-! ## Comment / Directive: own `tostr` only (`str(self.items[0])`; their `__new__` is the Block slice) -/

def tostrFirst (o : Oracle Node) : List (Item Node) → Res Str
  | a :: _ => .ok (a.text o)
  | [] => .raises .indexError

/-! ## dispatch (what the driver and the co-simulation run) -/

/-- the classes whose `match` is a plan (control flow independent of the children) -/
def planOf (c : ClassId) : Option (Str → Res (List Slot)) :=
  if c == R.Flush_Stmt then some (planPos kwFlush)
  else if c == R.Backspace_Stmt then some (planPos kwBackspace)
  else if c == R.Endfile_Stmt then some (planPos kwEndfile)
  else if c == R.Rewind_Stmt then some (planPos kwRewind)
  else if c == R.Return_Stmt then some planReturn
  else if c == R.Bind_Stmt then some planBind
  else if c == R.Target_Stmt then some planTarget
  else if c == R.Target_Entity_Decl then some planTargetEntityDecl
  else if c == R.Type_Param_Decl then some planTypeParamDecl
  else if c == R.Enumerator then some planEnumerator
  else if c == R.Type_Param_Def_Stmt then some planTypeParamDef
  else if c == R.Stmt_Function_Stmt then some planStmtFunction
  else if c == R.Where_Construct_Stmt then some planWhereConstruct
  else if c == R.Declaration_Type_Spec then some planDeclTypeSpec
  else if c == R.Rename then some planRename
  else if c == R.Include_Stmt then some planInclude
  else if c == R.Deferred_Shape_Spec then some planDeferredShape
  else if c == R.Allocate_Shape_Spec then some (planShapeSpec R.Lower_Bound_Expr R.Upper_Bound_Expr)
  else if c == R.Explicit_Shape_Spec then some (planShapeSpec R.Lower_Bound R.Upper_Bound)
  else if c == R.Assumed_Size_Spec then some planAssumedSize
  else if c == R.Cray_Pointer_Decl then some planCrayPointerDecl
  else if c == R.Cray_Pointer_Stmt then some planCrayPointerStmt
  else if c == R.Io_Implied_Do then some planIoImpliedDo
  else if c == R.Io_Implied_Do_Control then some planIoImpliedDoControl
  else if c == R.Defined_Op then some planDefinedOp
  else if c == C.Data_Edit_Desc then some planDataEditDesc
  else if c == R.Data_Edit_Desc_C1002 then some planDataEditDescC1002
  else if c == C.Hollerith_Item then some planHollerith
  else if c == R.Position_Edit_Desc then some planPositionEditDesc
  else none

def arrangeOf (c : ClassId) : List (Item Node) → List (Item Node) :=
  if c == C.Data_Edit_Desc then arrangeDataEdit else id

def matchOf (k : Kinds Node) (o : Oracle Node) (c : ClassId) (s : Str) : Option (Res (Out Node)) :=
  match planOf c with
  | some plan => some ((((plan s).bind (runSlots o)).map (arrangeOf c)).map .tuple)
  | none =>
    if c == R.Position_Spec || c == R.Flush_Spec then some ((matchPositionSpec o s).map .tuple)
    else if c == R.Wait_Spec then some ((matchWaitSpec o s).map .tuple)
    else if c == R.Intrinsic_Type_Spec then some ((matchIntrinsicTypeSpec o s).map .tuple)
    else if c == R.Use_Stmt then some ((matchUse o s).map .tuple)
    else if c == R.Format_Item_C1002 then some ((matchFormatItemC1002 k o s).map .tuple)
    else if c == R.Char_Expr || c == R.Default_Char_Expr then some (matchExprKind k exclChar o s)
    else if c == R.Int_Expr then some (matchExprKind k exclInt o s)
    else if c == R.Logical_Expr then some (matchExprKind k exclLogical o s)
    else if c == R.Numeric_Expr then some (matchExprKind k exclNumeric o s)
    else if c == C.Stop_Code then some (matchStopCode o s)
    else none

/-- `str(obj)` for an object of class `c` built from the tuple `items` -/
def tostrOf (o : Oracle Node) (c : ClassId) (items : List (Item Node)) : Option (Res Str) :=
  if c == R.Flush_Stmt then some (tostrPos kwFlush o items)
  else if c == R.Backspace_Stmt then some (tostrPos kwBackspace o items)
  else if c == R.Endfile_Stmt then some (tostrPos kwEndfile o items)
  else if c == R.Rewind_Stmt then some (tostrPos kwRewind o items)
  else if c == R.Position_Spec || c == R.Flush_Spec || c == R.Wait_Spec then some (kvStr o items)
  else if c == R.Return_Stmt then some (tostrReturn o items)
  else if c == R.Bind_Stmt then some (tostrBind o items)
  else if c == R.Target_Stmt then some (tostrTarget o items)
  else if c == R.Target_Entity_Decl then some (tostrEntityDecl o items)
  else if c == R.Type_Param_Decl || c == R.Enumerator then some (tostrBinary o items)
  else if c == R.Type_Param_Def_Stmt then some (tostrTypeParamDef o items)
  else if c == R.Stmt_Function_Stmt then some (tostrStmtFunction o items)
  else if c == R.Where_Construct_Stmt then some (tostrWhereConstruct o items)
  else if c == R.Declaration_Type_Spec then some (tostrDeclTypeSpec o items)
  else if c == R.Intrinsic_Type_Spec || c == R.Cray_Pointer_Stmt then some (combiStr o specWordPlain items)
  else if c == R.Rename then some (tostrRename o items)
  else if c == R.Include_Stmt then some (tostrInclude o items)
  else if c == R.Deferred_Shape_Spec then some (tostrSeparator o items)
  else if c == R.Allocate_Shape_Spec || c == R.Explicit_Shape_Spec then some (tostrShapeSpec o items)
  else if c == R.Assumed_Size_Spec then some (tostrAssumedSize o items)
  else if c == R.Cray_Pointer_Decl then some (tostrCrayPointerDecl o items)
  else if c == R.Io_Implied_Do then some (tostrIoImpliedDo o items)
  else if c == R.Io_Implied_Do_Control then some (tostrIoImpliedDoControl o items)
  else if c == R.Defined_Op || c == C.Stop_Code then some (tostrString o items)
  else if c == R.Use_Stmt then some (tostrUse o items)
  else if c == C.Data_Edit_Desc then some (tostrDataEditDesc o items)
  else if c == R.Data_Edit_Desc_C1002 then some (tostrDataEditDescC1002 o items)
  else if c == C.Hollerith_Item then some (tostrHollerith o items)
  else if c == R.Position_Edit_Desc then some (tostrPositionEditDesc o items)
  else if c == R.Format_Item_C1002 then some (tostrFormatItemC1002 o items)
  else if c == R.Comment || c == R.Directive then some (tostrFirst o items)
  else none

/-- the classes this file mirrors (names; the translator resolves and pins their methods) -/
def modelled : List ClassId :=
  [R.Flush_Stmt, R.Backspace_Stmt, R.Endfile_Stmt, R.Rewind_Stmt, R.Position_Spec, R.Flush_Spec,
   R.Wait_Spec, R.Return_Stmt, R.Bind_Stmt, R.Target_Stmt, R.Target_Entity_Decl, R.Type_Param_Decl,
   R.Enumerator, R.Type_Param_Def_Stmt, R.Stmt_Function_Stmt, R.Where_Construct_Stmt,
   R.Declaration_Type_Spec, R.Intrinsic_Type_Spec, R.Rename, R.Use_Stmt, R.Include_Stmt,
   R.Deferred_Shape_Spec, R.Allocate_Shape_Spec, R.Explicit_Shape_Spec, R.Assumed_Size_Spec,
   R.Cray_Pointer_Decl, R.Cray_Pointer_Stmt, R.Io_Implied_Do, R.Io_Implied_Do_Control, R.Char_Expr,
   R.Default_Char_Expr, R.Int_Expr, R.Logical_Expr, R.Numeric_Expr, C.Stop_Code, R.Defined_Op,
   C.Data_Edit_Desc, R.Data_Edit_Desc_C1002, C.Hollerith_Item, R.Position_Edit_Desc,
   R.Format_Item_C1002]

end Fp.Rest
