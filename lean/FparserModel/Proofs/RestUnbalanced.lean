import FparserModel.Proofs.RestPlain2
import FparserModel.Proofs.RestUse
/-!
`X_rejects_unbalanced` (C08) for the Rest classes whose token theorem states an EXACT relation other
than `toks t = toks s` (the other classes get theirs as a one-line corollary in `Props/Rest.lean`).
-/
namespace Fp.Rest
open Fp Fp.Splitline Fp.IoStmt

variable {Node : Type}

theorem net_of_toks_eq {a b : Str} (h : toks a = toks b) : net a = net b := net_eq_of_toks h

theorem net_toks_append (a b : Str) : net (a ++ b) = net a + net b := net_append a b

/-- the four position statements: accepted + balanced children ⟹ balanced statement -/
theorem pos_rejects_unbalanced (kw : Str) (hk : net kw = 0) (o : Oracle Node) (ho : OracleTok o) (s : Str)
    (items : List (Item Node)) (hm : (planPos kw s).bind (runSlots o) = .ok items)
    (hbal : ∀ i ∈ items, net (i.text o) = 0) : net s = 0 := by
  obtain ⟨t, _, h1, h2⟩ := pos_tostr_match_tokens kw o ho s items hm
  rw [← net_eq_of_toks h1, h2 hbal, hk]

theorem net_unit_eq : net (toks "UNIT=".toList) = 0 := by decide

/-- Position_Spec / Flush_Spec / Wait_Spec -/
theorem specTable_rejects_unbalanced (tbl : List (Str × ClassId)) (o : Oracle Node) (ho : OracleTok o)
    (s : Str) (items : List (Item Node))
    (hm : tableOr (kvTable o true tbl s) (unitDefault o s) = .ok items)
    (hbal : ∀ i ∈ items, net (i.text o) = 0) : net s = 0 := by
  obtain ⟨t, _, h1, h2⟩ := specTable_tostr_match_tokens tbl o ho s items hm
  rcases h1 with ⟨_, h⟩ | ⟨_, h⟩
  · rw [← net_eq_of_toks h]; exact h2 hbal
  · have := congrArg net h
    rw [net_toks, net_append, net_unit_eq, net_toks] at this
    have h3 := h2 hbal
    omega

/-- Bind_Stmt: ONLY with a `::` (without one the first `)` is dropped: `bind_drops_paren`) -/
theorem bind_rejects_unbalanced_partial (o : Oracle Node) (ho : OracleTok o) (s : Str)
    (items : List (Item Node)) (hm : (planBind s).bind (runSlots o) = .ok items)
    (hc : BindColons s) (hbal : ∀ i ∈ items, net (i.text o) = 0) : net s = 0 := by
  obtain ⟨t, ht, h1, _⟩ := bind_tostr_match_tokens o ho s items hm
  rw [← net_eq_of_toks (h1 hc)]
  -- the printed text: `a :: b`
  unfold tostrBind at ht
  match items, ht, hbal with
  | [a, b], ht, hbal =>
    cases ht
    have ha := hbal a (by simp)
    have hb := hbal b (by simp)
    simp only [net_append, ha, hb]; decide

/-- the full statement is false: accepted, children balanced, statement unbalanced -/
theorem bind_unbalanced_accepted :
    (planBind "bind c) x".toList).bind (runSlots echoOracle) = .ok [.node "bind c".toList, .node "x".toList] ∧
    net "bind c".toList = 0 ∧ net "x".toList = 0 ∧ net "bind c) x".toList ≠ 0 := by decide

theorem target_rejects_unbalanced (o : Oracle Node) (ho : OracleTok o) (s : Str)
    (items : List (Item Node)) (hm : (planTarget s).bind (runSlots o) = .ok items)
    (hbal : ∀ i ∈ items, net (i.text o) = 0) : net s = 0 := by
  obtain ⟨t, _, h1, h2, h3⟩ := target_tostr_match_tokens o ho s items hm
  have ht := h3 hbal
  cases hp : Combi.isPrefix "::".toList (lstrip (s.drop 6)) with
  | true => rw [← net_eq_of_toks (h1 hp)]; exact ht
  | false =>
    obtain ⟨e1, e2⟩ := h2 hp
    have a := congrArg net e1
    have b := congrArg net e2
    rw [net_toks, net_append, net_toks] at a b
    have k1 : net "TARGET::".toList = 0 := by decide
    have k2 : net "TARGET".toList = 0 := by decide
    rw [k1] at a; rw [k2] at b
    omega

theorem include_rejects_unbalanced (o : Oracle Node) (ho : OracleTok o) (s : Str)
    (items : List (Item Node)) (hm : (planInclude s).bind (runSlots o) = .ok items)
    (hbal : ∀ i ∈ items, net (i.text o) = 0) : net s = 0 := by
  obtain ⟨t, _, ⟨q, f, hq, e1, e2⟩, h3⟩ := include_tostr_match_tokens o ho s items hm
  have ht := h3 hbal
  have a := congrArg net e1
  have b := congrArg net e2
  simp only [net_toks, net_append] at a b
  have k0 : net "INCLUDE".toList = 0 := by decide
  have k1 : net "'".toList = 0 := by decide
  have kq : net [q] = 0 := by rcases hq with rfl | rfl <;> decide
  rw [k0, kq] at a
  rw [k0, k1] at b
  omega

/-- Use_Stmt (after the repair of `Use_Stmt._match`): unconditional -/
theorem use_rejects_unbalanced (o : Oracle Node) (ho : OracleTok o) (s : Str)
    (items : List (Item Node)) (hm : matchUse o s = .ok items)
    (hbal : ∀ i ∈ items, net (i.text o) = 0) : net s = 0 := by
  obtain ⟨t, _, h1, h2⟩ := use_tostr_match_tokens o ho s items hm
  rw [← net_eq_of_toks h1]; exact h2 hbal

/-- REGRESSION witness: `use (a + :: m` (an unbalanced parenthesis before the `::`) was accepted; now rejected -/
theorem use_unbalanced_rejected :
    matchUse echoOracle "use (a + :: m".toList = .noMatch ∧ net "use (a + :: m".toList ≠ 0 := by decide

end Fp.Rest

#print axioms Fp.Rest.use_rejects_unbalanced
#print axioms Fp.Rest.pos_rejects_unbalanced
#print axioms Fp.Rest.specTable_rejects_unbalanced
#print axioms Fp.Rest.bind_rejects_unbalanced_partial
#print axioms Fp.Rest.target_rejects_unbalanced
#print axioms Fp.Rest.include_rejects_unbalanced
