"""Translator of the Rest slice.

PART A - the inventory and the completeness obligation.  From the LIVE classes of both standards
(`fparser.two.Fortran2003`, the `fparser.two.Fortran2008` package, `C99Preprocessor`):

(i)   every rule class (subclass of `fparser.two.utils.Base` defined in one of these modules) that defines
      its OWN `match` (a function object in the class `__dict__`) and/or its own `tostr` / `tofortran`;
(ii)  for each such method, WHERE it is pinned: the position of its key in the pin table of an existing
      slice, read from the Lean sources - `IoStmtPins`, `HeaderPins`, `PrimaryPins` (`Pins.expected`),
      `Proofs/DeclGenerated` (`pinnedFingerprints`), `Generated/CppTables` (`sources`: full source texts),
      `Incl08Pins` (`Pins.modules`: the defining module of the Fortran2008 package), the tables of the
      generic delegations `Generated/Combi` (`specs`), `Generated/Blocks2003/8` (`nonLeaf`),
      `Generated/ExprLevels` (the operator chain), an own `tostr` that IS a function of utils.py pinned by
      Decl (`tostr = WORDClsBase.tostr_a`), or `RestPins` (this slice);
(iii) the rest: methods pinned by nobody.

`Generated/RestTables.lean` carries the inventory with the evidence and the kernel obligations
  `evidence_valid`                 every piece of evidence names the key found AT THAT POSITION of THAT table
                                   (the tables are the Lean definitions of the other slices, not copies);
  `all_handwritten_methods_pinned` `unpinned = []` (own `match` / `tostr`);
  `block_tofortran_unmirrored`     the exact list of own `tofortran` methods of block classes (tree printers,
                                   mirrored by nobody): a new one breaks the build;
  `delegations_as_tabulated`       for every class whose `match` is one `return <Base>.match(<constants>, string)`
                                   the arguments, read here SYNTACTICALLY (ast of the source, each argument
                                   evaluated in the module namespace) and rendered, equal the rendering of the
                                   entry of `Generated/Combi.lean` (which is obtained by interception);
  `block_delegations`              the same for the one-line `BlockBase.match(...)` classes no parse reaches;
  `pin_*`                          one per mirrored method of THIS slice: live fingerprint = `RestPins`;
  tables / flags / patterns        the keyword tables, `EXTENSIONS()`, the regex sources and closed forms.

    python -m fv.extract_rest <lean dir>                        (re)generate
    python -m fv.extract_rest --write-pins <lean dir> [key...]  after re-validation: record the pins
    python -m fv.extract_rest --inventory                       print the inventory
"""
import ast
import inspect
import json
import os
import re
import sys
import textwrap

from fv import repo
from fv.common import write_if_changed

repo.activate()

from fparser.two import utils as U                     # noqa: E402
from fparser.two import Fortran2003 as F3              # noqa: E402
from fparser.two import Fortran2008 as F8              # noqa: E402
from fparser.two import C99Preprocessor as CPP         # noqa: E402
from fparser.two import pattern_tools as pattern       # noqa: E402
from fv.extract_iostmt import fingerprint, _fn, _table_from_source   # noqa: E402

MODELLED = [
    "Flush_Stmt", "Backspace_Stmt", "Endfile_Stmt", "Rewind_Stmt", "Position_Spec", "Flush_Spec",
    "Wait_Spec", "Return_Stmt", "Bind_Stmt", "Target_Stmt", "Target_Entity_Decl", "Type_Param_Decl",
    "Enumerator", "Type_Param_Def_Stmt", "Stmt_Function_Stmt", "Where_Construct_Stmt",
    "Declaration_Type_Spec", "Intrinsic_Type_Spec", "Rename", "Use_Stmt", "Include_Stmt",
    "Deferred_Shape_Spec", "Allocate_Shape_Spec", "Explicit_Shape_Spec", "Assumed_Size_Spec",
    "Cray_Pointer_Decl", "Cray_Pointer_Stmt", "Io_Implied_Do", "Io_Implied_Do_Control", "Char_Expr",
    "Default_Char_Expr", "Int_Expr", "Logical_Expr", "Numeric_Expr", "Stop_Code", "Defined_Op",
    "Data_Edit_Desc", "Data_Edit_Desc_C1002", "Hollerith_Item", "Position_Edit_Desc",
    "Format_Item_C1002",
]
# methods of the modelled classes that are mirrored (resolved through the MRO), plus helpers
METHODS = ("match", "tostr", "init", "_match")
EXTRA = [("Fortran2003", "Block", "match"), ("Fortran2003", "Do_Block", "match"),
         ("Fortran2003", "Comment", "tostr"), ("Fortran2003", "Directive", "tostr"),
         ("Fortran2003", "Entity_Decl", "match"), ("Fortran2003", "Entity_Decl", "tostr"),
         ("utils", "BinaryOpBase", "tostr"), ("utils", "SeparatorBase", "tostr"),
         ("utils", "KeywordValueBase", "match"), ("utils", "KeywordValueBase", "tostr"),
         ("utils", "WORDClsBase", "match"), ("utils", "WORDClsBase", "tostr"),
         ("utils", "StringBase", "match"), ("utils", "StringBase", "tostr"), ("utils", "StringBase", "init"),
         ("utils", "STRINGBase", "match"), ("utils", "Base", "__new__")]

INSTRUCTION = ("MIRRORED METHOD EDITED in /repo: re-validate its mirror in FparserModel/Rest.lean "
               "(read the diff, run fv/cosim_rest.py), then record the new fingerprint with "
               "`python -m fv.extract_rest --write-pins <lean dir> [<method>]`")

COMBI_BASES = ["SequenceBase", "BracketBase", "CallBase", "CALLBase", "KeywordValueBase",
               "WORDClsBase", "EndStmtBase", "SeparatorBase", "StringBase", "STRINGBase", "NumberBase"]
EXPR_CHAIN = ["Expr", "Level_5_Expr", "Equiv_Operand", "Or_Operand", "And_Operand", "Level_4_Expr",
              "Level_3_Expr", "Level_2_Expr", "Level_2_Unary_Expr", "Add_Operand", "Mult_Operand",
              "Level_1_Expr"]


# ------------------------------------------------------------------------------- (i) inventory

def modkey(c):
    m = c.__module__
    if m.startswith("fparser.two.Fortran2008"):
        return "Fortran2008"
    if m == "fparser.two.Fortran2003":
        return "Fortran2003"
    if m == "fparser.two.C99Preprocessor":
        return "C99Preprocessor"
    return None


def all_classes():
    out = {}
    for mod in (F3, CPP, F8):
        for _, c in inspect.getmembers(mod, inspect.isclass):
            if issubclass(c, U.Base) and modkey(c):
                out[(modkey(c), c.__name__)] = c
    return out


def combi_key(m, n):
    return n + "@2008" if m == "Fortran2008" else n


def own_methods(classes):
    """[(qualified name, module key, class name, attribute, raw)] sorted"""
    out = []
    for (m, n), c in sorted(classes.items()):
        for a in ("match", "tostr", "tofortran"):
            if a in c.__dict__:
                out.append(("%s.%s.%s" % (m, n, a), m, n, a, c.__dict__[a]))
    return out


# ------------------------------------------------------------------------------- (ii) evidence

_PAIR = re.compile(r'\(\s*"((?:[^"\\]|\\.)*)"\s*,')


def _lean_list_keys(text, defname):
    """the first components of the pairs of `def <defname> : List (String × …) := [ … ]`, in order"""
    m = re.search(r"def %s\b[^\n]*:=\s*\[" % re.escape(defname), text)
    if not m:
        raise RuntimeError("no `def %s` found" % defname)
    i = m.end()
    depth, j, instr = 1, i, False
    while j < len(text) and depth:
        ch = text[j]
        if instr:
            if ch == "\\":
                j += 1
            elif ch == '"':
                instr = False
        elif ch == '"':
            instr = True
        elif ch == "[":
            depth += 1
        elif ch == "]":
            depth -= 1
        j += 1
    body = text[i:j - 1]
    # only pairs at nesting depth 0 of the list
    keys, depth, k, instr = [], 0, 0, False
    while k < len(body):
        ch = body[k]
        if instr:
            if ch == "\\":
                k += 1
            elif ch == '"':
                instr = False
        elif ch == '"':
            instr = True
        elif ch in "([":
            if ch == "(" and depth == 0:
                mm = _PAIR.match(body, k)
                if mm:
                    keys.append(mm.group(1))
            depth += 1
        elif ch in ")]":
            depth -= 1
        k += 1
    return keys


def read_tables(lean):
    fm = os.path.join(lean, "FparserModel")

    def rd(p):
        with open(os.path.join(fm, p), encoding="utf-8") as fh:
            return fh.read()
    t = {}
    t["iostmt"] = _lean_list_keys(rd("IoStmtPins.lean"), "expected")
    t["header"] = _lean_list_keys(rd("HeaderPins.lean"), "expected")
    t["primary"] = _lean_list_keys(rd("PrimaryPins.lean"), "expected")
    t["decl"] = _lean_list_keys(rd("Proofs/DeclGenerated.lean"), "pinnedFingerprints")
    t["cpp"] = _lean_list_keys(rd("Generated/CppTables.lean"), "sources")
    t["incl08"] = _lean_list_keys(rd("Incl08Pins.lean"), "modules")
    try:
        t["rest"] = _lean_list_keys(rd("RestPins.lean"), "expected")
    except (OSError, RuntimeError):
        t["rest"] = []
    with open(os.path.join(fm, "Generated", "combi.json"), encoding="utf-8") as fh:
        cj = json.load(fh)
    t["combiClasses"] = cj["classes"]
    t["combiSpecs"] = [c for c in cj["classes"] if c["kind"] == "generic"]      # = order of `specs`
    t["combiRegex"] = cj["regex"]
    t["block"] = {}
    for std in ("2003", "2008"):
        with open(os.path.join(fm, "Generated", "blocks_f%s.json" % std), encoding="utf-8") as fh:
            bj = json.load(fh)
        nl = [c for c in bj["classes"] if c["kind"] in ("block", "many", "seqNR", "main0", "program")]
        t["block"][std] = {"all": bj["classes"], "nonLeaf": nl}
    return t


def evidence_for(q, m, n, a, raw, cls, T):
    """-> (src, index, key) or None"""
    for src in ("rest", "iostmt", "header", "primary", "decl"):
        if q in T[src]:
            return (src, T[src].index(q), q)
    if m == "C99Preprocessor":
        k = "%s.%s" % (n, a)
        if k in T["cpp"]:
            return ("cpp", T["cpp"].index(k), k)
    if m == "Fortran2008":
        mod = cls.__module__.split(".")[-1]
        if mod == "Fortran2008":
            mod = "__init__"
        k = "Fortran2008." + mod
        if k in T["incl08"]:
            return ("incl08", T["incl08"].index(k), k)
    if a == "match":
        ck = combi_key(m, n)
        for i, c in enumerate(T["combiSpecs"]):
            if c["key"] == ck:
                return ("combi", i, ck)
    if a in ("match",) and issubclass(cls, U.BlockBase):
        for std in ("2003", "2008"):
            for c in T["block"][std]["nonLeaf"]:
                if c["module"] == cls.__module__ and c["name"] == n:
                    return ("block" + std, c["id"], c["key"])
    if a == "match" and m == "Fortran2003" and n in EXPR_CHAIN:
        return ("expr", EXPR_CHAIN.index(n), n)
    if a == "tostr":
        f = _fn(raw)
        for bn in ("WORDClsBase", "SequenceBase", "CallBase", "BracketBase", "KeywordValueBase"):
            b = getattr(U, bn)
            for attr, v in b.__dict__.items():
                if _fn(v) is f:
                    k = "utils.%s.%s" % (bn, attr)
                    for src in ("decl", "iostmt", "header", "primary", "rest"):
                        if k in T[src]:
                            return (src, T[src].index(k), k)
    return None


# ------------------------------------------------------------------------------- delegations

def _one_return_call(fn):
    """the Call node when the body (doc string aside) is exactly `return <Name>.match(...)`"""
    try:
        src = textwrap.dedent(inspect.getsource(fn))
    except (OSError, TypeError):
        return None
    f = ast.parse(src).body[0]
    body = [s for s in f.body if not (isinstance(s, ast.Expr) and isinstance(s.value, ast.Constant))]
    if len(body) != 1 or not isinstance(body[0], ast.Return) or not isinstance(body[0].value, ast.Call):
        return None
    call = body[0].value
    fnode = call.func
    if isinstance(fnode, ast.Attribute) and fnode.attr == "match" and isinstance(fnode.value, ast.Name):
        return call
    return None


def _clsname(x):
    if x is None:
        return "-"
    if inspect.isclass(x) and issubclass(x, U.Base):
        mk = modkey(x)
        return combi_key(mk, x.__name__) if mk else "?" + x.__name__
    return "?"


def _argtxt(x):
    if isinstance(x, str):
        return "kw:" + x
    if inspect.isclass(x) and issubclass(x, U.Base) and modkey(x):
        return "cls:" + _clsname(x)
    return "bad"


def _b(x):
    return "1" if x else "0"


def _atoms(p, out):
    if isinstance(p, (list, tuple)):
        for q in p:
            _atoms(q, out)
    elif isinstance(p, str):
        out.append("lit:" + p)
    else:
        out.append("re:" + (getattr(p, "label", None) or getattr(p, "pattern", None) or "re"))


def render(base, d, pre, cls):
    """the canonical pieces of the arguments (mirrored by `renderSpec` in RestPins.lean)"""
    if base == "SequenceBase":
        return ["seq", d["separator"], _clsname(d["subcls"])]
    if base == "BracketBase":
        return ["bracket", d["brackets"], _clsname(d["cls"]), _b(d["require_cls"])]
    if base in ("CallBase", "CALLBase"):
        up = True if base == "CALLBase" else d["upper_lhs"]
        return ["call", _argtxt(d["lhs_cls"]), _argtxt(d["rhs_cls"]), _b(up), _b(d["require_rhs"])]
    if base == "KeywordValueBase":
        return ["kv", _argtxt(d["lhs_cls"]), _clsname(d["rhs_cls"]), _b(d["require_lhs"]), _b(d["upper_lhs"])]
    if base == "WORDClsBase":
        k = d["keyword"]
        is_list = isinstance(k, (list, tuple))
        kws = list(k) if is_list else [k]
        if not all(isinstance(x, str) for x in kws):
            return None
        print_a = "tostr" in cls.__dict__ and _fn(cls.__dict__["tostr"]) is _fn(U.WORDClsBase.__dict__["tostr_a"])
        return ["word"] + kws + ["|", _b(is_list), _clsname(d["cls"]), _b(d["colons"]), _b(d["require_cls"]), _b(print_a)]
    if base == "EndStmtBase":
        return ["end", d["stmt_type"], _clsname(d["stmt_name"]), _b(d["require_stmt_type"])]
    if base == "SeparatorBase":
        return ["sep", _clsname(d["lhs_cls"]), _clsname(d["rhs_cls"]), _b(d["require_lhs"]), _b(d["require_rhs"])]
    if base in ("StringBase", "STRINGBase"):
        at = []
        key = "pattern" if "pattern" in d else "my_pattern"
        _atoms(d[key], at)
        return ["string", _b(base == "STRINGBase"), pre] + at
    if base == "NumberBase":
        at = []
        _atoms(d["number_pattern"], at)
        return ["number", pre] + at
    return None


def delegation_of(cls):
    """(base name, rendered arguments) for a one-line delegation with constant parameters, else None"""
    raw = cls.__dict__.get("match")
    fn = _fn(raw)
    call = _one_return_call(fn)
    if call is None:
        # the exec-generated `*_List` classes have no source: `SequenceBase.match(",", X, string)`
        try:
            inspect.getsource(fn)
        except (OSError, TypeError):
            got = []
            orig = U.SequenceBase.__dict__["match"]

            def rec(*a, **kw):
                got.append(a)
                return None
            U.SequenceBase.match = staticmethod(rec)
            try:
                try:
                    cls.match("pR0be")
                except Exception:  # noqa: BLE001
                    got = []
            finally:
                U.SequenceBase.match = orig
            if len(got) == 1 and len(got[0]) == 3 and got[0][2] == "pR0be":
                return "SequenceBase", ["seq", got[0][0], _clsname(got[0][1])]
        return None
    base = call.func.value.id
    env = dict(fn.__globals__)
    env[cls.__name__] = cls
    try:
        args = [eval(compile(ast.Expression(a), "<arg>", "eval"), env) for a in call.args[:-1]]   # noqa: S307
        kws = {k.arg: eval(compile(ast.Expression(k.value), "<arg>", "eval"), env) for k in call.keywords}  # noqa: S307
    except Exception:  # noqa: BLE001
        return base, None
    last = call.args[-1] if call.args else None
    pre = None
    if isinstance(last, ast.Name) and last.id == "string":
        pre = "id"
    elif isinstance(last, ast.Call) and isinstance(last.func, ast.Attribute) and isinstance(last.func.value, ast.Name) \
            and last.func.value.id == "string" and not last.args and last.func.attr in ("strip", "upper"):
        pre = last.func.attr
    if pre is None:
        return base, None
    b = getattr(U, base, None)
    if b is None or "match" not in b.__dict__:
        return base, None
    f = _fn(b.__dict__["match"])
    f = getattr(f, "__wrapped__", f)
    try:
        bound = inspect.signature(f).bind(*(args + ["<string>"]), **kws)
    except TypeError:
        return base, None
    bound.apply_defaults()
    d = dict(bound.arguments)
    if base == "BlockBase":
        def nm(x):
            if isinstance(x, (list, tuple)):
                return "[" + ",".join(nm(y) for y in x) + "]"
            if inspect.isclass(x):
                return x.__name__
            return repr(x)
        return base, "block|" + "|".join("%s=%s" % (k, nm(v)) for k, v in d.items() if k not in ("reader",))
    if base not in COMBI_BASES:
        return base, None
    if pre != "id" and base not in ("StringBase", "STRINGBase", "NumberBase"):
        return base, None
    return base, render(base, d, pre, cls)


# ------------------------------------------------------------------------------- collect

def collect(lean):
    classes = all_classes()
    T = read_tables(lean)
    inv = []
    for q, m, n, a, raw in own_methods(classes):
        cls = classes[(m, n)]
        inv.append((q, a, evidence_for(q, m, n, a, raw, cls, T)))
    # delegations
    deleg, blockdeleg, elsewhere = [], [], []
    spec_index = {c["key"]: i for i, c in enumerate(T["combiSpecs"])}
    for (m, n), cls in sorted(classes.items(), key=lambda kv: combi_key(*kv[0])):
        if "match" not in cls.__dict__:
            continue
        got = delegation_of(cls)
        if got is None or got[1] is None:
            continue
        base, txt = got
        key = combi_key(m, n)
        if base == "BlockBase":
            tabulated = any(c["module"] == cls.__module__ and c["name"] == n
                            for std in ("2003", "2008") for c in T["block"][std]["nonLeaf"])
            if not tabulated:
                blockdeleg.append((key, txt))
        elif key in spec_index:
            deleg.append((spec_index[key], key, txt))
        else:
            elsewhere.append((key, txt))
    confirmed = {k for _, k, _ in deleg}
    unconfirmed = [c["key"] for c in T["combiSpecs"] if c["key"] not in confirmed]
    return {"classes": classes, "tables": T, "inventory": inv, "delegations": deleg,
            "blockDelegations": blockdeleg, "delegationsElsewhere": elsewhere, "unconfirmed": unconfirmed}


def collect_fingerprints():
    out = {}
    for name in MODELLED:
        cls = getattr(F3, name)
        for meth in METHODS:
            for k in cls.__mro__:
                if meth in k.__dict__:
                    pk = "Fortran2003" if k.__module__ == "fparser.two.Fortran2003" else k.__module__.split(".")[-1]
                    try:
                        fp = fingerprint(_fn(k.__dict__[meth]))
                    except (OSError, TypeError):
                        fp = "generated"
                    out["%s.%s.%s" % (pk, k.__name__, meth)] = fp
                    break
    for pk, cn, meth in EXTRA:
        mod = F3 if pk == "Fortran2003" else U
        out["%s.%s.%s" % (pk, cn, meth)] = fingerprint(_fn(getattr(mod, cn).__dict__[meth]))
    out["Fortran2003.skip_digits"] = fingerprint(F3.skip_digits)
    # own tostr/tofortran-free block delegations are pinned by their rendered text (blockDelegations)
    return sorted(out.items())


def collect_tables():
    t = {}
    t["position"] = _table_from_source(F3.Position_Spec)
    t["flush"] = _table_from_source(F3.Flush_Spec)
    t["wait"] = _table_from_source(F3.Wait_Spec)
    return t


def excluded_lists():
    """the `excluded = (...)` tuples of the isinstance filters"""
    out = {}
    for name in ("Char_Expr", "Default_Char_Expr", "Int_Expr", "Logical_Expr", "Numeric_Expr"):
        src = textwrap.dedent(inspect.getsource(_fn(getattr(F3, name).__dict__["match"])))
        for n in ast.walk(ast.parse(src)):
            if isinstance(n, ast.Assign) and isinstance(n.targets[0], ast.Name) and n.targets[0].id == "excluded":
                out[name] = [e.id for e in n.value.elts]
    return out


def intrinsic_rows():
    """the rows of the `for w, cls in [...]` loop of Intrinsic_Type_Spec.match"""
    src = textwrap.dedent(inspect.getsource(_fn(F3.Intrinsic_Type_Spec.__dict__["match"])))
    rows = []
    for n in ast.walk(ast.parse(src)):
        if isinstance(n, ast.For) and isinstance(n.iter, ast.List):
            for e in n.iter.elts:
                w, c = e.elts
                cn = "-" if isinstance(c, ast.Constant) and c.value is None else c.id
                if isinstance(w, ast.Constant):
                    rows.append("kw:%s:%s" % (w.value, cn))
                else:
                    p = getattr(pattern, w.attr)
                    rows.append("re:%s:%s:%s:%s" % (p.pattern, p.value, cn, p._flags if hasattr(p, "_flags") else ""))
    return rows


def regex_sources():
    return [("abs_label", pattern.abs_label.pattern), ("name", pattern.name.pattern),
            ("abs_defined_op", pattern.abs_defined_op.pattern),
            ("non_defined_binary_op", pattern.non_defined_binary_op.pattern),
            ("hollerith", F3.Hollerith_Item.match_pattern)]


DEFINED_OP_WORDS = ["EQ", "NE", "LT", "LE", "GT", "GE", "NOT", "AND", "OR", "EQV", "NEQV", "TRUE", "FALSE"]


def closed_form_checks():
    """the closed forms Rest.lean uses for regexes, tested on the real patterns; -> list of failures"""
    bad = []
    import itertools
    # non_defined_binary_op on `.W.` texts: exactly the 13 words
    letters = ["EQ", "NE", "LT", "LE", "GT", "GE", "NOT", "AND", "OR", "EQV", "NEQV", "TRUE", "FALSE", "EQX", "N", "E",
               "NEQ", "TRU", "FALS", "TRUEX", "ANDX", "X", "XOR", "EQVV", "T", "F", "A", "Z", "LTE", "GTE"]
    for w in letters:
        for v in (w, w.lower(), w.capitalize()):
            s = "." + v + "."
            got = bool(pattern.non_defined_binary_op.match(s))
            if got != (w in DEFINED_OP_WORDS):
                bad.append("non_defined_binary_op.match(%r) = %r" % (s, got))
    for s, want in [("1", True), ("12345", True), ("123456", False), ("", False), ("1 2", False), ("a", False), ("12a", False),
                    (" 1", False), ("1 ", False)]:
        if bool(pattern.abs_label.match(s)) != want:
            bad.append("abs_label.match(%r)" % s)
    for s, want in [("a", "a"), ("a1_b(", "a1_b"), ("_a", None), ("1a", None), ("", None), ("Ab c", "Ab"), ("a-b", "a")]:
        m = pattern.name.match(s)
        if (m.group() if m else None) != want:
            bad.append("name.match(%r)" % s)
    for w in ("COMPLEX", "PRECISION"):
        p = pattern.abs_double_complex_name if w == "COMPLEX" else pattern.abs_double_precision_name
        for s, want in [("DOUBLE " + w, True), ("double" + w.lower(), True), ("Double \t " + w, True), ("DOUBLE " + w + " ", False),
                        (" DOUBLE " + w, False), ("DOUBLE", False), ("DOUBLE " + w + "X", False), ("DOUBLE_" + w, False)]:
            if bool(p.match(s)) != want:
                bad.append("abs_double_%s.match(%r)" % (w.lower(), s))
    del itertools
    return bad


# ------------------------------------------------------------------------------- Lean text

def lq(s):
    return '"' + s.replace("\\", "\\\\").replace('"', '\\"').replace("\n", "\\n").replace("\t", "\\t") + '"'


def ident(k):
    return re.sub(r"[^A-Za-z0-9_]", "_", k)


SRC_LEAN = {"rest": ".rest", "iostmt": ".iostmt", "header": ".header", "primary": ".primary", "decl": ".decl",
            "cpp": ".cpp", "incl08": ".incl08", "combi": ".combi", "block2003": ".block03", "block2008": ".block08",
            "expr": ".expr"}


def lean_text(lean):
    D = collect(lean)
    fps = collect_fingerprints()
    tabs = collect_tables()
    L = []
    A = L.append
    A("import FparserModel.Rest")
    A("import FparserModel.RestPins")
    A("import FparserModel.IoStmtPins")
    A("import FparserModel.HeaderPins")
    A("import FparserModel.PrimaryPins")
    A("import FparserModel.Incl08Pins")
    A("import FparserModel.Proofs.DeclGenerated")
    A("import FparserModel.Generated.CppTables")
    A("import FparserModel.Generated.Combi")
    A("import FparserModel.Generated.Blocks2003")
    A("import FparserModel.Generated.Blocks2008")
    A("import FparserModel.Generated.ExprLevels")
    A("/-! GENERATED by fv/extract_rest.py from the fparser working tree - do not edit.")
    A("")
    A("The inventory of every hand-written `match` / `tostr` / `tofortran` of the rule classes of both standards with the")
    A("place where it is pinned, the completeness obligation, the delegation check against Generated/Combi.lean, and the")
    A("fingerprints / tables / flags of the methods FparserModel/Rest.lean mirrors.")
    A("A failing `pin_*` theorem means: " + INSTRUCTION.replace("`", "'"))
    A("-/")
    A("namespace Fp.Rest.Generated")
    A("open Fp.Rest")
    A("")
    A("/-- where every own `match` / `tostr` / `tofortran` is pinned: per slice, (position in its table, key found there,")
    A("    the methods pinned by that entry) sorted by position -/")
    order = ["rest", "iostmt", "header", "primary", "decl", "cpp", "incl08", "combi", "block2003", "block2008", "expr"]
    groups = {k: {} for k in order}
    for q, a, ev in D["inventory"]:
        if ev is not None:
            groups[ev[0]].setdefault((ev[1], ev[2]), []).append((q, a))
    for src in order:
        A("def groups_%s : List Group := [" % src)
        A(",\n".join("  (%d, %s, [%s])" % (i, lq(k), ", ".join("(%s, %s)" % (lq(q), lq(a)) for q, a in ms))
                     for (i, k), ms in sorted(groups[src].items())))
        A("]")
    A("def evidence : List (Src × List Group) := [%s]" % ", ".join("(%s, groups_%s)" % (SRC_LEAN[s_], s_) for s_ in order))
    A("/-- own methods pinned by nobody: (qualified method, kind) -/")
    A("def unpinnedRows : List (String × String) := [%s]"
      % ", ".join("(%s, %s)" % (lq(q), lq(a)) for q, a, ev in D["inventory"] if ev is None))
    A("")
    A("/-- (i) every own `match` / `tostr` / `tofortran`, with the slice that pins it -/")
    A("def inventory : List (String × String × Option Src) :=")
    A("  (evidence.flatMap fun e => e.2.flatMap fun g => g.2.2.map fun m => (m.1, m.2, some e.1)) ++")
    A("  unpinnedRows.map fun m => (m.1, m.2, none)")
    A("def handWritten : List String := inventory.map (·.1)")
    A("/-- (ii) the pinned ones -/")
    A("def pinned : List (String × Src) := inventory.filterMap fun e => e.2.2.map fun v => (e.1, v)")
    A("/-- (iii) own `match` / `tostr` pinned by nobody -/")
    A("def unpinned : List String := (unpinnedRows.filter fun e => e.2 != \"tofortran\").map (·.1)")
    A("/-- own `tofortran` (the tree printers of block classes) mirrored by nobody -/")
    A("def unmirroredTofortran : List String := (unpinnedRows.filter fun e => e.2 == \"tofortran\").map (·.1)")
    A("")
    A("def inventoryCount : Nat := %d" % len(D["inventory"]))
    A("theorem inventory_count : inventory.length = inventoryCount := by decide +kernel")
    A("")
    A("/-- every piece of evidence names the key that stands AT THAT POSITION of THAT slice's table -/")
    for src in order:
        A("theorem evidence_valid_%s : evidenceOk %s groups_%s = true := by decide +kernel" % (src, SRC_LEAN[src], src))
    A("")
    A("/-- THE COMPLETENESS OBLIGATION: every hand-written `match` / `tostr` of a rule class of either standard is pinned by")
    A("    a slice (fingerprint / source text / module fingerprint / tabulated delegation).  A NEW hand-written class, or a")
    A("    class that loses its pin, makes this fail; the failing proposition shows the list that names it. -/")
    A("theorem unpinned_names : unpinned = [%s] := by decide +kernel"
      % ", ".join(lq(q) for q, a_, ev in D["inventory"] if ev is None and a_ != "tofortran"))
    A("theorem all_handwritten_methods_pinned : PinnedL %s unpinned Pins.knownUnpinned := by decide +kernel"
      % lq("HAND-WRITTEN METHOD PINNED BY NO SLICE: mirror it (FparserModel/Rest.lean + fv/cosim_rest.py + `--write-pins`) or have "
           "its slice pin it; `python -m fv.extract_rest --inventory <lean dir>` lists the inventory"))
    A("")
    A("theorem block_tofortran_unmirrored : PinnedL %s unmirroredTofortran Pins.unmirroredTofortran := by decide +kernel"
      % lq("the set of own `tofortran` methods of block classes changed"))
    A("")
    # delegations
    A("/-- (position in `Fp.Combi.Generated.specs`, class, the arguments of its one-line `return <Base>.match(...)`")
    A("    read from the SOURCE of the class) -/")
    A("def delegations : List (Nat × String × List String) := [")
    A(",\n".join("  (%d, %s, [%s])" % (i, lq(k), ", ".join(lq(x) for x in t)) for i, k, t in D["delegations"]))
    A("]")
    A("")
    A("theorem delegations_as_tabulated : walkDeleg renderSpec 0 Fp.Combi.Generated.specs delegations = true := by decide +kernel")
    A("/-- the entries of `Generated/Combi.lean` whose arguments are NOT constants of the source (`cls.attributes`,")
    A("    `cls.loop_control_cls()`, the intrinsic-name table): read by interception there, pinned by IoStmt / Primary / Incl08 -/")
    A("def unconfirmed : List String := ((List.range Fp.Combi.Generated.specs.length).filter fun i =>")
    A("    !(delegations.any (·.1 == i))).map fun i => rcls ((Fp.Combi.Generated.specs[i]?).map (·.1))")
    A("theorem delegations_complete : PinnedL %s unconfirmed Pins.unconfirmedDelegations := by decide +kernel"
      % lq("a tabulated delegation of Generated/Combi.lean can no longer be confirmed from the source (or a new one can)"))
    A("/-- one-line delegations with constant arguments of classes with an own `tostr` (hand-written for the Combi slice;")
    A("    pinned by the slice named in the inventory) -/")
    A("def delegationsElsewhere : List (String × List String) := [%s]"
      % ", ".join("(%s, [%s])" % (lq(k), ", ".join(lq(x) for x in t)) for k, t in D["delegationsElsewhere"]))
    A("")
    A("/-- one-line `BlockBase.match(...)` delegations of classes outside the block tables (no rule refers to them) -/")
    A("def blockDelegations : List (String × String) := [")
    bd = [(k, t) for k, t in D["blockDelegations"]]
    A(",\n".join("  (%s, %s)" % (lq(k), lq(t)) for k, t in bd))
    A("]")
    A("theorem block_delegations : PinnedP %s blockDelegations Pins.blockDelegations := by decide +kernel"
      % lq("A BlockBase delegation changed / appeared: see Generated/Blocks*.lean and RestPins.lean"))
    A("")
    # fingerprints
    A("def liveFingerprints : List (String × String) := [")
    A(",\n".join("  (%s, %s)" % (lq(k), lq(v)) for k, v in fps))
    A("]")
    A("")
    for i, (k, v) in enumerate(fps):
        A("theorem pin_%s : Pinned %s (some (%s, %s)) Pins.expected[%d]? := by decide +kernel"
          % (ident(k), lq(INSTRUCTION.replace("`", "'") + " -- edited: " + k), lq(k), lq(v), i))
    A("theorem pins_count : PinnedN %s liveFingerprints.length Pins.expected.length := by decide +kernel"
      % lq("the set of mirrored methods changed"))
    A("")
    # tables
    ids = {}
    with open(os.path.join(lean, "FparserModel", "IoStmt.lean"), encoding="utf-8") as fh:
        io_txt = fh.read()
    with open(os.path.join(lean, "FparserModel", "Rest.lean"), encoding="utf-8") as fh:
        rest_txt = fh.read()
    names = re.findall(r'"([A-Za-z_0-9]+)"', re.search(r"def clsNames : List String := \[(.*?)\]", io_txt, re.S).group(1))
    names += re.findall(r'"([A-Za-z_0-9]+)"', re.search(r"def newNames : List String := \[(.*?)\]", rest_txt, re.S).group(1))
    ids = {n: i for i, n in enumerate(names)}
    for nm, lean_nm in (("position", "positionTableS"), ("flush", "positionTableS"), ("wait", "waitTableS")):
        A("def %sTable : List (String × Nat) := [%s]" % (nm, ", ".join("(%s, %d)" % (lq(k), ids[v]) for k, v in tabs[nm])))
        A("theorem table_%s : PinnedT %s %sTable %s := by decide +kernel"
          % (nm, lq("the keyword table of %s changed" % nm), nm, lean_nm))
    A("")
    ex = excluded_lists()
    for nm, lean_nm in (("Char_Expr", "exclChar"), ("Default_Char_Expr", "exclChar"), ("Int_Expr", "exclInt"),
                        ("Logical_Expr", "exclLogical"), ("Numeric_Expr", "exclNumeric")):
        A("theorem excluded_%s : PinnedL %s [%s] %s := by decide +kernel"
          % (nm, lq("the `excluded` tuple of %s.match changed" % nm), ", ".join(lq(x) for x in ex[nm]), lean_nm))
    A("")
    A("def intrinsicRows : List String := [%s]" % ", ".join(lq(x) for x in intrinsic_rows()))
    A("theorem intrinsic_rows : PinnedL %s intrinsicRows Pins.intrinsicRows := by decide +kernel"
      % lq("the keyword rows of Intrinsic_Type_Spec.match changed"))
    A("")
    A("def regexSources : List (String × String) := [%s]" % ", ".join("(%s, %s)" % (lq(k), lq(v)) for k, v in regex_sources()))
    A("theorem regex_sources : PinnedP %s regexSources Pins.regexSources := by decide +kernel"
      % lq("a regex the model has a closed form for changed"))
    bad = closed_form_checks()
    A("def closedFormFailures : List String := [%s]" % ", ".join(lq(x) for x in bad))
    A("theorem closed_forms_hold : closedFormFailures = [] := by decide")
    A("")
    ext = U.EXTENSIONS()
    flags = [("cray-pointer", "crayPointerExt"), ("hollerith", "hollerithExt"), ("x-format", "xFormatExt"),
             ("extended-stop-args", "extendedStopExt")]
    A("def extensions : List (String × Bool) := [%s]" % ", ".join("(%s, %s)" % (lq(k), "true" if k in ext else "false") for k, _ in flags))
    A("theorem extension_flags : extensions = [%s] := by decide"
      % ", ".join("(%s, %s)" % (lq(k), v) for k, v in flags))
    A("")
    live = {n for (_, n) in D["classes"]}
    missing = [n for n in names if n not in live]
    A("def missingClasses : List String := [%s]" % ", ".join(lq(x) for x in missing))
    A("/-- every class id of the model names a live rule class -/")
    A("theorem classes_live : missingClasses = [] := by decide")
    A("theorem class_count : Fp.Rest.clsNames.length = %d := by decide +kernel" % len(names))
    A("")
    A("end Fp.Rest.Generated")
    return "\n".join(L) + "\n"


def generate(outdir):
    """outdir = the lean dir or its FparserModel/Generated dir"""
    lean = outdir
    if os.path.basename(os.path.normpath(outdir)) == "Generated":
        lean = os.path.dirname(os.path.dirname(os.path.normpath(outdir)))
    path = os.path.join(lean, "FparserModel", "Generated", "RestTables.lean")
    return write_if_changed(path, lean_text(lean))


def main(argv):
    if argv and argv[0] == "--inventory":
        lean = argv[1] if len(argv) > 1 else os.path.join(os.path.dirname(os.path.dirname(os.path.abspath(__file__))), "lean")
        D = collect(lean)
        for q, a, ev in D["inventory"]:
            print("%-60s %s" % (q, "UNPINNED" if ev is None else "%s[%d] %s" % ev))
        return 0
    if argv and argv[0] == "--write-pins":
        lean = argv[1]
        only = set(argv[2:]) or None
        write_pins(lean, only)
        return 0
    if not argv:
        print(__doc__)
        return 2
    changed = generate(argv[0])
    print("RestTables.lean %s" % ("written" if changed else "unchanged"))
    return 0


def write_pins(lean, only=None):
    """rewrite the `def expected` / `blockDelegations` / `intrinsicRows` / `regexSources` blocks of RestPins.lean"""
    path = os.path.join(lean, "FparserModel", "RestPins.lean")
    with open(path, encoding="utf-8") as fh:
        txt = fh.read()
    fps = dict(collect_fingerprints())
    if only:
        old = dict(re.findall(r'\("([^"]+)", "([^"]*)"\)', txt.split("def expected")[1].split("\n]")[0]))
        for k in list(fps):
            if k not in only and k in old:
                fps[k] = old[k]
    D = collect(lean)

    def block(name, ty, body):
        return "def %s : %s := [\n%s\n]" % (name, ty, body)
    new_expected = block("expected", "List (String × String)",
                         ",\n".join("  (%s, %s)" % (lq(k), lq(v)) for k, v in sorted(fps.items())))
    new_bd = block("blockDelegations", "List (String × String)",
                   ",\n".join("  (%s, %s)" % (lq(k), lq(t)) for k, t in D["blockDelegations"]))
    new_ir = block("intrinsicRows", "List String", "  " + ", ".join(lq(x) for x in intrinsic_rows()))
    new_rs = block("regexSources", "List (String × String)",
                   "  " + ", ".join("(%s, %s)" % (lq(k), lq(v)) for k, v in regex_sources()))
    for name, new in (("expected", new_expected), ("blockDelegations", new_bd), ("intrinsicRows", new_ir),
                      ("regexSources", new_rs)):
        txt, n = re.subn(r"def %s : [^\n]*:= \[\n(?:[^\n]*\n)*?\]" % name, lambda _m, new=new: new, txt, count=1, flags=re.S)
        if n != 1:
            raise RuntimeError("block `def %s` not found in RestPins.lean" % name)
    with open(path, "w", encoding="utf-8") as fh:
        fh.write(txt)


if __name__ == "__main__":
    sys.exit(main(sys.argv[1:]))
