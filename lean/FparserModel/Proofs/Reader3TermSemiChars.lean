import FparserModel.Reader

/-!
# Reader3TermSemiChars — strings without the character `;` (closure lemmas)

`NS s`: the character `;` does not occur in `s`. All the `str` operations the reader applies to
line text (slicing, stripping, concatenation, `expandtabs`, lower-casing, `replace`) preserve it.
-/
namespace Fp.Reader
open Fp

def NS (s : Str) : Prop := ∀ c ∈ s, c ≠ ';'

theorem NS.nil : NS [] := fun _ h => by cases h

theorem NS.of_sub {s t : Str} (h : NS t) (hs : ∀ c ∈ s, c ∈ t) : NS s := fun c hc => h c (hs c hc)

theorem NS.append {s t : Str} (h1 : NS s) (h2 : NS t) : NS (s ++ t) := fun c hc => by
  rcases List.mem_append.mp hc with h | h
  · exact h1 c h
  · exact h2 c h

theorem NS.left {s t : Str} (h : NS (s ++ t)) : NS s := fun c hc => h c (List.mem_append_left _ hc)
theorem NS.right {s t : Str} (h : NS (s ++ t)) : NS t := fun c hc => h c (List.mem_append_right _ hc)

theorem NS.cons {a : Char} {s : Str} (ha : a ≠ ';') (h : NS s) : NS (a :: s) := fun c hc => by
  rcases List.mem_cons.mp hc with rfl | h'
  · exact ha
  · exact h c h'

theorem NS.head {a : Char} {s : Str} (h : NS (a :: s)) : a ≠ ';' := h a List.mem_cons_self
theorem NS.tail {a : Char} {s : Str} (h : NS (a :: s)) : NS s := fun c hc => h c (List.mem_cons_of_mem _ hc)

theorem NS.take {s : Str} (h : NS s) (n : Nat) : NS (s.take n) :=
  h.of_sub fun _ hc => List.mem_of_mem_take hc
theorem NS.drop {s : Str} (h : NS s) (n : Nat) : NS (s.drop n) :=
  h.of_sub fun _ hc => List.mem_of_mem_drop hc
theorem NS.dropWhile {s : Str} (h : NS s) (p : Char → Bool) : NS (s.dropWhile p) :=
  h.of_sub fun _ hc => (List.dropWhile_sublist p).subset hc
theorem NS.takeWhile {s : Str} (h : NS s) (p : Char → Bool) : NS (s.takeWhile p) :=
  h.of_sub fun _ hc => (List.takeWhile_sublist p).subset hc
theorem NS.reverse {s : Str} (h : NS s) : NS s.reverse :=
  h.of_sub fun _ hc => List.mem_reverse.mp hc
theorem NS.dropLast {s : Str} (h : NS s) : NS s.dropLast :=
  h.of_sub fun _ hc => (List.dropLast_sublist _).subset hc
theorem NS.replicate (n : Nat) {a : Char} (ha : a ≠ ';') : NS (List.replicate n a) := fun c hc => by
  rw [List.eq_of_mem_replicate hc]; exact ha

theorem NS.lstrip {s : Str} (h : NS s) : NS (lstrip s) := h.dropWhile _
theorem NS.rstrip {s : Str} (h : NS s) : NS (rstrip s) := (h.reverse.dropWhile _).reverse
theorem NS.strip {s : Str} (h : NS s) : NS (strip s) := h.rstrip.lstrip

theorem NS.flatten {l : List Str} (h : ∀ s ∈ l, NS s) : NS l.flatten := fun c hc => by
  obtain ⟨s, hs, hcs⟩ := List.mem_flatten.mp hc
  exact h s hs c hcs

theorem NS.contains {s : Str} (h : NS s) : s.contains ';' = false := by
  cases hc : s.contains ';' with
  | false => rfl
  | true => exact absurd rfl (h ';' (by simpa using hc))

theorem NS.of_getLast? {s : Str} (h : NS s) : NS (match s.getLast? with | some c => [c] | none => []) := by
  cases hl : s.getLast? with
  | none => exact NS.nil
  | some c => exact NS.cons (h c (List.mem_of_getLast? hl)) NS.nil

/-! ### lower-casing -/

theorem lowerC_semi (c : Char) (h : lowerC c = ';') : c = ';' := by
  unfold lowerC at h
  split at h
  · rename_i hr
    exfalso
    have h1 : 65 ≤ c.toNat := hr.1
    have h2 : c.toNat ≤ 90 := hr.2
    have key : ∀ n, n < 26 → Char.ofNat (65 + n + 32) ≠ ';' := by decide
    have := key (c.toNat - 65) (by omega)
    rw [show 65 + (c.toNat - 65) = c.toNat from by omega] at this
    exact this h
  · exact h

theorem NS.lower {s : Str} (h : NS s) : NS (lower s) := fun c hc => by
  unfold Fp.lower at hc
  obtain ⟨a, ha, rfl⟩ := List.mem_map.mp hc
  exact fun he => h a ha (lowerC_semi a he)

/-! ### decimal numerals -/

theorem NS.natToStr (n : Nat) : NS (natToStr n) := fun c hc he => by
  subst he
  have : (';' : Char) ∈ Nat.toDigits 10 n := by
    simpa [Fp.natToStr, Nat.repr] using hc
  have := Nat.isDigit_of_mem_toDigits (by decide) (by decide) this
  revert this; decide

/-! ### `expandtabs`, `cook` -/

theorem NS.expandtabsAux : ∀ (s : Str) (col : Nat) (acc : Str), NS s → NS acc →
    NS (Fp.Reader.expandtabsAux s col acc)
  | [], _, acc, _, h => by simp only [Fp.Reader.expandtabsAux]; exact h.reverse
  | c :: cs, col, acc, h1, h2 => by
    unfold Fp.Reader.expandtabsAux
    split
    · exact NS.expandtabsAux cs _ _ h1.tail ((NS.replicate _ (by decide)).append h2)
    · split
      · exact NS.expandtabsAux cs _ _ h1.tail (NS.cons h1.head h2)
      · exact NS.expandtabsAux cs _ _ h1.tail (NS.cons h1.head h2)

theorem NS.cook {s : Str} (h : NS s) : NS (cook s) := by
  unfold Fp.Reader.cook
  apply NS.rstrip
  intro c hc
  obtain ⟨a, ha, rfl⟩ := List.mem_map.mp hc
  have := NS.expandtabsAux s 0 [] h NS.nil a ha
  split
  · decide
  · exact this

end Fp.Reader
