import FparserModel.Proofs.Reader3FixLoop

/-!
# Reader3FixItem — one fixed-form statement, any reader state (C05/C12)

`getSourceItem_fixed`: the first `get_single_line` returns an initial line (not a `#` line, not a
comment line, columns 1-5 blanks/digits), its statement field (columns 7…, after the construct
name) is clean and not blank; the following `get_single_line` calls return follow lines `ls`
(`ReadsAt`), the one after that returns `nxt` (no follow line, or nothing). Then
`get_source_item` returns exactly one `Line`.
-/
namespace Fp.Reader
open Fp

theorem exists_nonspace (s : Str) (h : strip s ≠ []) : ∃ c ∈ s, isSpace c = false := by
  cases ha : s.all isSpace with
  | true =>
    exfalso; apply h
    exact strip_allSpace (fun c hc => (List.all_eq_true.mp ha) c hc)
  | false =>
    obtain ⟨x, hx, hp⟩ := List.all_eq_false.mp ha
    exact ⟨x, hx, by simpa using hp⟩

theorem strip_append_ne_nil (a b : Str) (h : strip a ≠ []) : strip (a ++ b) ≠ [] := by
  obtain ⟨c, hc, hs⟩ := exists_nonspace a h
  exact strip_ne_nil (List.mem_append_left _ hc) hs

/-- `fixedItem` on an initial line with clean, non-blank statement field -/
theorem fixedItem_run (r1 r_end r_fin : Rd) (line line' : Str) (s : Nat) (lab : Option Nat)
    (nam : Option Str) (ls : List (Str × Nat)) (nxt : Option Str)
    (hlab : fixedLabel line = some lab) (hnam : fixedName line = (nam, line'))
    (hcl : fixClean (line'.drop 6) = true) (hne : strip (line'.drop 6) ≠ [])
    (hr : ReadsAt r1 ls r_end) (hok : FollowOk ls) (hn : getSingleLine r_end = (nxt, r_fin))
    (hstop : (isFixCont nxt || isFixComment nxt) = false) :
    fixedItem r1 line s =
      (.ok (.line (strip (line'.drop 6 ++ fixPieces ls)) lab nam s (fixEnd r1.linecount ls)),
       unread { r_fin with fifo := r1.fifo ++ fixComments ls } nxt) := by
  unfold fixedItem
  simp only [hlab, hnam, hne, if_false, hic_fixClean _ s hcl, List.append_nil]
  have hm := hr.measure
  have hrun := fixLoop_run ls r1 r_end r_fin nxt r1.fifo (line'.drop 6) r1.linecount
    (r1.src.length + r1.filo.length + 2) hr hok hn hstop (by omega)
  have he : ({ r1 with fifo := r1.fifo } : Rd) = r1 := rfl
  rw [he] at hrun
  rw [hrun]
  unfold mkLine
  simp only [strip_append_ne_nil _ _ hne, if_false]

/-- C05/C12, ONE fixed-form statement, any reader state (lines may come from `filo_line` or from
    the source, comments may or may not be skipped by `get_single_line`). -/
theorem getSourceItem_fixed (r0 r1 r_end r_fin : Rd) (line line' : Str) (lab : Option Nat)
    (nam : Option Str) (ls : List (Str × Nat)) (nxt : Option Str)
    (hg : getSingleLine r0 = (some line, r1)) (hfx : r1.isFree = false)
    (hcpp : startsWith (lstrip line) ['#'] = false) (hnc : isFixCommentS line = false)
    (hcol : colCheck line = .fine)
    (hlab : fixedLabel line = some lab) (hnam : fixedName line = (nam, line'))
    (hcl : fixClean (line'.drop 6) = true) (hne : strip (line'.drop 6) ≠ [])
    (hr : ReadsAt r1 ls r_end) (hok : FollowOk ls) (hn : getSingleLine r_end = (nxt, r_fin))
    (hstop : (isFixCont nxt || isFixComment nxt) = false) :
    getSourceItem r0 =
      (.ok (.line (strip (line'.drop 6 ++ fixPieces ls)) lab nam r1.linecount (fixEnd r1.linecount ls)),
       unread { r_fin with fifo := r1.fifo ++ fixComments ls } nxt) := by
  unfold getSourceItem
  simp only [hg, hcpp, Bool.and_false, Bool.false_eq_true, if_false, hfx, Bool.false_and,
    Bool.not_false, if_true, hnc, hcol]
  exact fixedItem_run r1 r_end r_fin line line' r1.linecount lab nam ls nxt hlab hnam hcl hne hr hok hn hstop

/-- a fixed-form comment line (first character one of `*cC!`, empty line, or first non-blank `!`
    not in column 6), any reader state: one Comment item holding the whole line -/
theorem getSourceItem_fixed_comment (r0 r1 : Rd) (line : Str)
    (hg : getSingleLine r0 = (some line, r1)) (hfx : r1.isFree = false)
    (hcpp : startsWith (lstrip line) ['#'] = false) (hc : isFixCommentS line = true) :
    getSourceItem r0 = (.ok (.comment line r1.linecount r1.linecount false), r1) := by
  unfold getSourceItem
  simp only [hg, hcpp, Bool.and_false, Bool.false_eq_true, if_false, hfx, Bool.false_and,
    Bool.not_false, if_true, hc]

end Fp.Reader
