import FparserModel.NormLayout

/-! scanning lemmas of the independent lexer: character classes, `takeWhile`, `scanKind`,
`scanExp`, `scanNum`, `scanChr`, `dottedLen` on well-formed token text followed by any text
the token accepts (`okAfter`).  No Mathlib. -/
namespace Fp.Norm
open Fp

/-! ### character classes -/

theorem digit_not_alpha {c : Char} (h : c.isDigit = true) : c.isAlpha = false := by
  simp only [Char.isDigit, Char.isAlpha, Char.isUpper, Char.isLower, Bool.and_eq_true,
    decide_eq_true_eq, Bool.or_eq_false_iff, Bool.and_eq_false_iff, decide_eq_false_iff_not] at *
  simp only [UInt32.le_iff_toNat_le, ge_iff_le] at *
  simp at *
  omega

theorem alpha_not_digit {c : Char} (h : c.isAlpha = true) : c.isDigit = false := by
  cases hd : c.isDigit
  · rfl
  · rw [digit_not_alpha hd] at h; cases h

theorem digit_isWord {c : Char} (h : c.isDigit = true) : isWord c = true := by
  simp [isWord, Char.isAlphanum, h]

theorem alpha_isWord {c : Char} (h : c.isAlpha = true) : isWord c = true := by
  simp [isWord, Char.isAlphanum, h]

theorem expLetter_alpha {c : Char} (h : isExpLetter c = true) : c.isAlpha = true := by
  simp only [isExpLetter, Bool.or_eq_true, beq_iff_eq] at h
  rcases h with ((((h | h) | h) | h) | h) | h <;> subst h <;> decide

theorem notWord_not_digit {c : Char} (h : isWord c = false) : c.isDigit = false := by
  cases hd : c.isDigit
  · rfl
  · rw [digit_isWord hd] at h; cases h

theorem notWord_not_alpha {c : Char} (h : isWord c = false) : c.isAlpha = false := by
  cases hd : c.isAlpha
  · rfl
  · rw [alpha_isWord hd] at h; cases h

theorem notWord_ne_us {c : Char} (h : isWord c = false) : c ≠ '_' := by
  intro e; subst e; revert h; decide

theorem notWord_not_exp {c : Char} (h : isWord c = false) : isExpLetter c = false := by
  cases hd : isExpLetter c
  · rfl
  · rw [alpha_isWord (expLetter_alpha hd)] at h; cases h

theorem quote_not_word {c : Char} (h : isQuote c = true) : isWord c = false := by
  simp only [isQuote, Bool.or_eq_true, beq_iff_eq] at h
  rcases h with h | h <;> subst h <;> decide

/-! ### takeWhile / drop on `w ++ s` -/

theorem takeWhile_append_stop (p : Char → Bool) (w s : Str) (hw : w.all p = true)
    (hs : headIs p s = false) : (w ++ s).takeWhile p = w := by
  induction w with
  | nil =>
    cases s with
    | nil => rfl
    | cons c r => simp only [headIs] at hs; simp [hs]
  | cons c cs ih =>
    simp only [List.all_cons, Bool.and_eq_true] at hw
    simp [hw.1, ih hw.2]

theorem drop_length_append (w s : Str) : (w ++ s).drop w.length = s := by simp

theorem headIs_mono {p q : Char → Bool} (h : ∀ c, p c = true → q c = true) {s : Str}
    (hs : headIs q s = false) : headIs p s = false := by
  cases s with
  | nil => rfl
  | cons c r =>
    simp only [headIs] at hs ⊢
    cases hp : p c
    · rfl
    · rw [h c hp] at hs; cases hs

theorem headIs_digit_of_word {s : Str} (h : headIs isWord s = false) :
    headIs isDigit s = false := headIs_mono (fun _ hc => digit_isWord hc) h

theorem headIs_alpha_of_word {s : Str} (h : headIs isWord s = false) :
    headIs Char.isAlpha s = false := headIs_mono (fun _ hc => alpha_isWord hc) h

/-! ### dottedLen -/

theorem dottedLen_none_of_head {s : Str} (h : headIs Char.isAlpha s = false) :
    dottedLen s = none := by
  cases s with
  | nil => simp [dottedLen]
  | cons c r =>
    simp only [headIs] at h
    simp [dottedLen, List.takeWhile, h]

theorem dottedLen_letters (ls s : Str) (h1 : ls ≠ []) (h2 : ls.all Char.isAlpha = true) :
    dottedLen (ls ++ '.' :: s) = some ls.length := by
  have ht : (ls ++ '.' :: s).takeWhile Char.isAlpha = ls :=
    takeWhile_append_stop _ ls ('.' :: s) h2 (by simp [headIs])
  have hl : 0 < ls.length := by cases ls <;> simp_all
  simp only [dottedLen, ht]
  simp [hl]

/-! ### scanKind -/

theorem scanKind_some (k s : Str) (h1 : k ≠ []) (h2 : k.all isWord = true)
    (hs : headIs isWord s = false) : scanKind ('_' :: (k ++ s)) = ('_' :: k, s) := by
  have ht : (k ++ s).takeWhile isWord = k := takeWhile_append_stop _ k s h2 hs
  have hk : k.isEmpty = false := by cases k <;> simp_all
  simp [scanKind, ht, hk]

theorem scanKind_none {s : Str} (hs : headIs (· == '_') s = false) : scanKind s = ([], s) := by
  cases s with
  | nil => rfl
  | cons c r =>
    simp only [headIs, beq_eq_false_iff_ne, ne_eq] at hs
    unfold scanKind
    split
    · rename_i r' heq
      simp at heq
      exact absurd heq.1 hs
    · rfl

theorem scanKind_text (kd : Option Str) (s : Str) (hk : kindOK kd = true)
    (hs : if kd.isSome then headIs isWord s = false else headIs (· == '_') s = false) :
    scanKind (kindText kd ++ s) = (kindText kd, s) := by
  cases kd with
  | none => simpa [kindText] using scanKind_none (by simpa using hs)
  | some k =>
    simp only [kindOK, Bool.and_eq_true, Bool.not_eq_true'] at hk
    have : k ≠ [] := by intro e; subst e; simp at hk
    simpa [kindText] using scanKind_some k s this hk.2 (by simpa using hs)

theorem headIs_us_of_word {s : Str} (h : headIs isWord s = false) :
    headIs (· == '_') s = false :=
  headIs_mono (fun c hc => by simp at hc; subst hc; decide) h

/-! ### scanExp -/

theorem digit_ne_plus {c : Char} (h : c.isDigit = true) : c ≠ '+' ∧ c ≠ '-' := by
  constructor <;> (intro e; subst e; revert h; decide)

theorem scanExp_none {s : Str} (hs : headIs isExpLetter s = false) : scanExp s = ([], s) := by
  cases s with
  | nil => rfl
  | cons c r =>
    simp only [headIs] at hs
    simp [scanExp, hs]

theorem scanExp_some (e : Char) (sg ds s : Str) (he : isExpLetter e = true)
    (hsg : sg = [] ∨ sg = ['+'] ∨ sg = ['-']) (h1 : ds ≠ []) (h2 : ds.all isDigit = true)
    (hs : headIs isDigit s = false) :
    scanExp (e :: (sg ++ ds) ++ s) = (e :: (sg ++ ds), s) := by
  have ht : (ds ++ s).takeWhile isDigit = ds := takeWhile_append_stop _ ds s h2 hs
  have hne : ds.isEmpty = false := by cases ds <;> simp_all
  rcases hsg with rfl | rfl | rfl
  · cases ds with
    | nil => exact absurd rfl h1
    | cons d ds' =>
      have hd : d.isDigit = true := by
        simp only [List.all_cons, Bool.and_eq_true] at h2; exact h2.1
      obtain ⟨hp, hm⟩ := digit_ne_plus hd
      simp only [List.nil_append, List.cons_append] at ht ⊢
      simp only [scanExp, he, if_true]
      split
      · rename_i heq; simp at heq; exact absurd heq.1 hp
      · rename_i heq; simp at heq; exact absurd heq.1 hm
      · simp [ht]
  · simp only [List.cons_append, List.nil_append]
    simp [scanExp, he, ht, hne]
  · simp only [List.cons_append, List.nil_append]
    simp [scanExp, he, ht, hne]

def expOK : Option (Char × Str × Str) → Bool
  | none => true
  | some (e, sg, ds) =>
    isExpLetter e && (sg == [] || sg == ['+'] || sg == ['-']) && !ds.isEmpty && ds.all isDigit

theorem scanExp_text (ex : Option (Char × Str × Str)) (s : Str) (hok : expOK ex = true)
    (hs1 : headIs isExpLetter s = false) (hs2 : headIs isDigit s = false) :
    scanExp (expText ex ++ s) = (expText ex, s) := by
  cases ex with
  | none => simpa [expText] using scanExp_none hs1
  | some p =>
    obtain ⟨e, sg, ds⟩ := p
    simp only [expOK, Bool.and_eq_true, Bool.or_eq_true, beq_iff_eq, Bool.not_eq_true'] at hok
    obtain ⟨⟨⟨he, hsg⟩, h1⟩, h2⟩ := hok
    have h1' : ds ≠ [] := by intro e; subst e; simp at h1
    have hsg' : sg = [] ∨ sg = ['+'] ∨ sg = ['-'] := by
      rcases hsg with (h | h) | h <;> simp [h]
    simpa [expText] using scanExp_some e sg ds s he hsg' h1' h2 hs2

/-- `1.e5`, `1.d+0`: the `.` is not the start of a dotted operator -/
theorem dottedLen_exp (e : Char) (sg ds s : Str) (he : isExpLetter e = true)
    (hsg : sg = [] ∨ sg = ['+'] ∨ sg = ['-']) (h1 : ds ≠ []) (h2 : ds.all isDigit = true) :
    dottedLen (e :: (sg ++ ds) ++ s) = none := by
  cases ds with
  | nil => exact absurd rfl h1
  | cons d ds' =>
    have hd : d.isDigit = true := by
      simp only [List.all_cons, Bool.and_eq_true] at h2; exact h2.1
    have hda : d.isAlpha = false := digit_not_alpha hd
    have hea : e.isAlpha = true := expLetter_alpha he
    have hdd : d ≠ '.' := by intro e; subst e; revert hd; decide
    rcases hsg with rfl | rfl | rfl
    · simp [dottedLen, List.takeWhile, hea, hda, hdd]
    · have : ('+' : Char).isAlpha = false := by decide
      simp [dottedLen, List.takeWhile, hea, this]
    · have : ('-' : Char).isAlpha = false := by decide
      simp [dottedLen, List.takeWhile, hea, this]

/-! ### scanNum -/

theorem headIs_append_of_ne {p : Char → Bool} {a s : Str} (ha : a ≠ []) :
    headIs p (a ++ s) = headIs p a := by
  cases a with
  | nil => exact absurd rfl ha
  | cons c r => rfl

theorem headIs_kindText (p : Char → Bool) (kd : Option Str) (s : Str) (hp : p '_' = false)
    (hs : headIs p s = false) : headIs p (kindText kd ++ s) = false := by
  cases kd with
  | none => simpa [kindText] using hs
  | some k => simp [kindText, headIs, hp]

theorem headIs_expText (p : Char → Bool) (ex : Option (Char × Str × Str)) (s : Str)
    (hok : expOK ex = true) (hp : ∀ c, isExpLetter c = true → p c = false)
    (hs : headIs p s = false) : headIs p (expText ex ++ s) = false := by
  cases ex with
  | none => simpa [expText] using hs
  | some q =>
    obtain ⟨e, sg, ds⟩ := q
    simp only [expOK, Bool.and_eq_true] at hok
    simp [expText, headIs, hp e hok.1.1.1]

theorem expLetter_not_digit {c : Char} (h : isExpLetter c = true) : isDigit c = false :=
  alpha_not_digit (expLetter_alpha h)

theorem NumLit.ok_parts {n : NumLit} (h : n.ok = true) :
    n.int.all isDigit = true ∧ expOK n.exp = true ∧ kindOK n.kind = true
    ∧ (match n.frac with
       | none => n.int ≠ []
       | some d => d.all isDigit = true ∧ (n.int ≠ [] ∨ d ≠ [])) := by
  simp only [NumLit.ok, Bool.and_eq_true] at h
  obtain ⟨⟨⟨h1, h2⟩, h3⟩, h4⟩ := h
  refine ⟨h1, ?_, h4, ?_⟩
  · cases he : n.exp with
    | none => rfl
    | some q => obtain ⟨e, sg, ds⟩ := q; rw [he] at h3; simpa [expOK] using h3
  · cases hf : n.frac with
    | none => rw [hf] at h2; simpa using h2
    | some d =>
      rw [hf] at h2
      simp only [Bool.and_eq_true, Bool.or_eq_true, Bool.not_eq_true', List.isEmpty_eq_false_iff] at h2
      exact h2

/-- the fraction step of `scanNum`, named -/
def scanFrac (r1 : Str) : Str × Str :=
  match r1 with
  | '.' :: r =>
    if (dottedLen r).isSome then ([], r1)
    else
      let d2 := r.takeWhile isDigit
      ('.' :: d2, r.drop d2.length)
  | _ => ([], r1)

theorem scanNum_eq (s : Str) :
    scanNum s =
      let d1 := s.takeWhile isDigit
      let fr := scanFrac (s.drop d1.length)
      let ex := scanExp fr.2
      let kd := scanKind ex.2
      (d1 ++ fr.1 ++ ex.1 ++ kd.1, kd.2) := by
  unfold scanNum scanFrac
  rfl

theorem scanFrac_none {t : Str} (h : match t with
    | '.' :: r => (dottedLen r).isSome = true
    | _ => True) : scanFrac t = ([], t) := by
  unfold scanFrac
  split
  · rename_i r
    simp only at h
    simp [h]
  · rfl

theorem scanFrac_some (d t : Str) (hd : d.all isDigit = true) (ht : headIs isDigit t = false)
    (hdl : dottedLen (d ++ t) = none) : scanFrac ('.' :: (d ++ t)) = ('.' :: d, t) := by
  have hd2 : (d ++ t).takeWhile isDigit = d := takeWhile_append_stop _ _ _ hd ht
  simp [scanFrac, hdl, hd2]

theorem scanNum_text (n : NumLit) (s : Str) (hok : n.ok = true)
    (hs : okAfter (.num n) s = true) : scanNum (n.text ++ s) = (n.text, s) := by
  obtain ⟨hint, hexp, hkind, hfrac⟩ := NumLit.ok_parts hok
  simp only [okAfter, Bool.and_eq_true, Bool.not_eq_true'] at hs
  obtain ⟨hw, hdot⟩ := hs
  -- tails
  have hk : scanKind (kindText n.kind ++ s) = (kindText n.kind, s) :=
    scanKind_text n.kind s hkind (by
      cases n.kind with
      | none => simpa using headIs_us_of_word hw
      | some k => simpa using hw)
  have t3e : headIs isExpLetter (kindText n.kind ++ s) = false :=
    headIs_kindText _ _ _ (by decide)
      (headIs_mono (fun c hc => alpha_isWord (expLetter_alpha hc)) hw)
  have t3d : headIs isDigit (kindText n.kind ++ s) = false :=
    headIs_kindText _ _ _ (by decide) (headIs_digit_of_word hw)
  have he : scanExp (expText n.exp ++ (kindText n.kind ++ s)) = (expText n.exp, kindText n.kind ++ s) :=
    scanExp_text n.exp _ hexp t3e t3d
  have t2d : headIs isDigit (expText n.exp ++ (kindText n.kind ++ s)) = false :=
    headIs_expText _ _ _ hexp (fun c hc => expLetter_not_digit hc) t3d
  have t1d : headIs isDigit (fracText n.frac ++ (expText n.exp ++ (kindText n.kind ++ s))) = false := by
    cases n.frac with
    | none => simpa [fracText] using t2d
    | some d => simp [fracText, headIs]; decide
  have hd1 : (n.int ++ (fracText n.frac ++ (expText n.exp ++ (kindText n.kind ++ s)))).takeWhile isDigit
      = n.int := takeWhile_append_stop _ _ _ hint t1d
  have htext : n.text ++ s
      = n.int ++ (fracText n.frac ++ (expText n.exp ++ (kindText n.kind ++ s))) := by
    simp [NumLit.text, List.append_assoc]
  have hfr : scanFrac (fracText n.frac ++ (expText n.exp ++ (kindText n.kind ++ s)))
      = (fracText n.frac, expText n.exp ++ (kindText n.kind ++ s)) := by
    cases hf : n.frac with
    | some d =>
      rw [hf] at hfrac
      obtain ⟨hdd, _⟩ := hfrac
      have hdl : dottedLen (d ++ (expText n.exp ++ (kindText n.kind ++ s))) = none := by
        cases d with
        | cons c r =>
          apply dottedLen_none_of_head
          simp only [List.all_cons, Bool.and_eq_true] at hdd
          simp [headIs, digit_not_alpha hdd.1]
        | nil =>
          simp only [List.nil_append]
          cases hx : n.exp with
          | some q =>
            obtain ⟨e, sg, ds⟩ := q
            rw [hx] at hexp
            simp only [expOK, Bool.and_eq_true, Bool.or_eq_true, beq_iff_eq, Bool.not_eq_true'] at hexp
            obtain ⟨⟨⟨he1, hsg⟩, h1⟩, h2⟩ := hexp
            have h1' : ds ≠ [] := by intro e; subst e; simp at h1
            have hsg' : sg = [] ∨ sg = ['+'] ∨ sg = ['-'] := by
              rcases hsg with (h | h) | h <;> simp [h]
            simpa [expText] using dottedLen_exp e sg ds (kindText n.kind ++ s) he1 hsg' h1' h2
          | none =>
            simp only [expText, List.nil_append]
            apply dottedLen_none_of_head
            exact headIs_kindText _ _ _ (by decide) (headIs_alpha_of_word hw)
      simpa [fracText] using scanFrac_some d _ hdd t2d hdl
    | none =>
      simp only [fracText, List.nil_append]
      apply scanFrac_none
      split
      · rename_i r heq
        cases hx : n.exp with
        | some q =>
          obtain ⟨e, sg, ds⟩ := q
          rw [hx] at heq hexp
          simp only [expOK, Bool.and_eq_true] at hexp
          simp [expText] at heq
          have := hexp.1.1.1
          rw [heq.1] at this
          exact absurd this (by decide)
        | none =>
          rw [hx] at heq
          cases hkd : n.kind with
          | some k => rw [hkd] at heq; simp [expText, kindText] at heq
          | none =>
            rw [hkd] at heq
            simp only [expText, kindText, List.nil_append] at heq
            rw [hf, hx, hkd, heq] at hdot
            simpa [dotCond] using hdot
      · trivial
  rw [htext, scanNum_eq]
  simp only [hd1, drop_length_append, hfr, he, hk]
  simp [NumLit.text, List.append_assoc]

/-! ### scanChr -/

theorem quote_props {q : Char} (h : isQuote q = true) :
    isBlank q = false ∧ q ≠ '\n' ∧ q ≠ '&' := by
  simp only [isQuote, Bool.or_eq_true, beq_iff_eq] at h
  rcases h with h | h <;> subst h <;> decide

theorem trailingAmp_none_of_head {s : Str} {c : Char} {r : Str}
    (h : s.dropWhile isBlank = c :: r) (hc : c ≠ '\n') : trailingAmp s = none := by
  unfold trailingAmp
  rw [h]
  split
  · rename_i r' heq
    simp at heq
    exact absurd heq.1 hc
  · rfl

theorem encBody_cons (q c : Char) (r : Str) :
    encBody q (c :: r) = (if c == q then [q, q] else [c]) ++ encBody q r := by
  simp [encBody]

theorem trailingAmp_body (q : Char) (raw s : Str) (hq : isQuote q = true)
    (hraw : rawOK raw = true) : trailingAmp (encBody q raw ++ q :: s) = none := by
  obtain ⟨hqb, hqn, _⟩ := quote_props hq
  induction raw with
  | nil =>
    apply trailingAmp_none_of_head (c := q) (r := s) _ hqn
    simp [encBody, hqb]
  | cons c r ih =>
    simp only [rawOK, List.all_cons, Bool.and_eq_true, bne_iff_ne, ne_eq] at hraw
    rw [encBody_cons]
    by_cases hcq : c = q
    · subst hcq
      apply trailingAmp_none_of_head (c := c) (r := c :: (encBody c r ++ c :: s)) _ hqn
      simp [hqb]
    · simp only [beq_iff_eq, hcq, if_false, List.cons_append, List.nil_append]
      cases hb : isBlank c
      · apply trailingAmp_none_of_head (c := c) (r := encBody q r ++ q :: s) _ hraw.1
        simp [hb]
      · have := ih (by simpa [rawOK] using hraw.2)
        unfold trailingAmp at this ⊢
        simpa [List.dropWhile, hb] using this

theorem scanChr_body (q : Char) (hq : isQuote q = true) (s : Str)
    (hs : headIs (· == q) s = false) :
    ∀ (raw : Str) (n : Nat) (acc : Str), rawOK raw = true → raw.length < n →
      scanChr q n (encBody q raw ++ q :: s) acc = (acc.reverse ++ (encBody q raw ++ [q]), s) := by
  intro raw
  induction raw with
  | nil =>
    intro n acc _ hn
    cases n with
    | zero => omega
    | succ n =>
      cases s with
      | nil => simp [encBody, scanChr]
      | cons c2 cs2 =>
        simp only [headIs, beq_eq_false_iff_ne, ne_eq] at hs
        simp [encBody, scanChr, hs]
  | cons c r ih =>
    intro n acc hraw hn
    cases n with
    | zero => omega
    | succ n =>
      have hn' : r.length < n := by simp at hn; omega
      simp only [rawOK, List.all_cons, Bool.and_eq_true, bne_iff_ne, ne_eq] at hraw
      have hr : rawOK r = true := by simpa [rawOK] using hraw.2
      rw [encBody_cons]
      by_cases hcq : c = q
      · subst hcq
        simp only [beq_self_eq_true, if_true, List.cons_append, List.nil_append]
        simp only [scanChr, beq_self_eq_true, if_true]
        rw [ih n _ hr hn']
        simp
      · simp only [beq_iff_eq, hcq, if_false, List.cons_append, List.nil_append]
        have hta := trailingAmp_body q r s hq hr
        simp only [scanChr, beq_iff_eq, hcq, if_false, hraw.1]
        split
        · rw [hta]
          simp only
          rw [ih n _ hr hn']
          simp
        · rw [ih n _ hr hn']
          simp

theorem encBody_length_ge (q : Char) (raw : Str) : raw.length ≤ (encBody q raw).length := by
  induction raw with
  | nil => simp [encBody]
  | cons c r ih =>
    rw [encBody_cons]
    by_cases h : c = q <;> simp [h] <;> omega

/-- the call made by the lexer: fuel = length of the text after the opening delimiter + 1 -/
theorem scanChr_lit (q : Char) (hq : isQuote q = true) (raw s : Str) (hraw : rawOK raw = true)
    (hs : headIs (· == q) s = false) :
    scanChr q ((encBody q raw ++ q :: s).length + 1) (encBody q raw ++ q :: s) []
      = (encBody q raw ++ [q], s) := by
  have := scanChr_body q hq s hs raw ((encBody q raw ++ q :: s).length + 1) [] hraw
    (by have := encBody_length_ge q raw; simp; omega)
  simpa using this

end Fp.Norm
