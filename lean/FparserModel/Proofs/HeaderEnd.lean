import FparserModel.Header
import FparserModel.Proofs.IoStmtBasic
import FparserModel.Proofs.IoStmtLayoutCombi
import FparserModel.Proofs.IoStmtTotal
import FparserModel.Proofs.IoStmtFixpoint
import FparserModel.Proofs.CombiRT
/-!
# The END family: `EndStmtBase.match` / `EndStmtBase.tostr`

`planEnd r = combiPlan (endSpec r)`, `endSpec r = .endStmt r.ty.toList (name class) r.req`,
`Spec.split (.endStmt ty nc req) = Combi.endSplit ty nc req`, `tostrEnd = combiStr … = Combi.endStr`.

Everything is proved GENERICALLY over `ty : Str` (`ty ≠ []`), `nc : Option ClassId`, `req : Bool`
and then instantiated for every row of `endTable`.
-/
namespace Fp.Header
open Fp Fp.Splitline Fp.IoStmt
open Fp.Combi (noSpaces noBlank)

variable {Node : Type}

/-! ## helpers -/

theorem e_END : "END".toList = ['E', 'N', 'D'] := by decide

theorem e_noBlank_noSpaces (a : Str) : noBlank (noSpaces a) = noBlank a := by
  unfold Combi.noBlank Combi.noSpaces
  rw [List.filter_filter]
  apply List.filter_congr
  intro c _
  by_cases h : c = ' '
  · subst h; decide
  · simp [h]

theorem e_toks_noSpaces (a : Str) : toks (noSpaces a) = toks a := by
  unfold toks; rw [e_noBlank_noSpaces]

theorem e_split_eq (ty : Str) (nc : Option ClassId) (req : Bool) (s : Str) :
    (Combi.Spec.endStmt ty nc req).split s = Combi.endSplit ty nc req s := rfl

/-- the three possible slot tuples, without any hypothesis -/
theorem e_endSplit_slots {ty : Str} {nc : Option ClassId} {req : Bool} {s : Str}
    {slots : List Combi.Slot} (h : Combi.endSplit ty nc req s = some slots) :
    slots = [.none, .none] ∨ slots = [.str ty, .none] ∨ ∃ c l, nc = some c ∧ slots = [.str ty, .child c l] := by
  unfold Combi.endSplit at h
  split at h
  · cases h
  dsimp only at h
  split at h
  · split at h
    · cases h
    split at h
    · split at h
      · cases h
      · cases h; exact .inr (.inr ⟨_, _, rfl, rfl⟩)
    · cases h; exact .inr (.inl rfl)
  · split at h
    · cases h
    · cases h; exact .inl rfl

/-! ## 2. `End_Stmt_shape`: the ONLY accepted shapes -/

/-- **End_Stmt_shape** (forward): the text starts with `END` (any case); then either nothing but
    blanks follows (bare `END`, only when `require_stmt_type` is false), or the next `len(ty)`
    characters of the left-stripped rest are `ty` up to case and up to BLANKS (`" "` only, deleted on
    both sides), followed by blanks only, or by a non-empty rest that is handed (left-stripped) to
    the name class. -/
theorem e_endSplit_shape {ty : Str} {nc : Option ClassId} {req : Bool} {s : Str}
    {slots : List Combi.Slot} (hty0 : ty ≠ [])
    (h : Combi.endSplit ty nc req s = some slots) :
    upper (s.take 3) = "END".toList ∧
    ((lstrip (s.drop 3) = [] ∧ req = false ∧ slots = [.none, .none]) ∨
     (lstrip (s.drop 3) ≠ [] ∧
      noSpaces (upper ((lstrip (s.drop 3)).take ty.length)) = noSpaces ty ∧
      ((lstrip ((lstrip (s.drop 3)).drop ty.length) = [] ∧ slots = [.str ty, .none]) ∨
       (∃ c, nc = some c ∧ lstrip ((lstrip (s.drop 3)).drop ty.length) ≠ [] ∧
          slots = [.str ty, .child c (lstrip ((lstrip (s.drop 3)).drop ty.length))])))) := by
  unfold Combi.endSplit at h
  split at h
  · cases h
  rename_i h3
  have h3' : upper (s.take 3) = "END".toList := by rw [e_END]; simpa using h3
  refine ⟨h3', ?_⟩
  dsimp only at h
  split at h
  · rename_i hs
    have hline : lstrip (s.drop 3) ≠ [] := by
      intro e; rw [e] at hs; simp [upper] at hs
    split at h
    · cases h
    rename_i hns
    have hns' : noSpaces (upper ((lstrip (s.drop 3)).take ty.length)) = noSpaces ty := by
      simpa using hns
    refine .inr ⟨hline, hns', ?_⟩
    split at h
    · rename_i hr
      have hr' : lstrip ((lstrip (s.drop 3)).drop ty.length) ≠ [] := by
        intro e; rw [e] at hr; simp at hr
      split at h
      · cases h
      · cases h; exact .inr ⟨_, rfl, hr', rfl⟩
    · rename_i hr
      have hr' : lstrip ((lstrip (s.drop 3)).drop ty.length) = [] := by
        simpa using hr
      cases h; exact .inl ⟨hr', rfl⟩
  · rename_i hs
    have hline : lstrip (s.drop 3) = [] := by
      cases hl : lstrip (s.drop 3) with
      | nil => rfl
      | cons c l =>
        exfalso; apply hs
        rw [hl]
        cases ty with
        | nil => exact absurd rfl hty0
        | cons a ty => simp [upper]
    split at h
    · cases h
    · rename_i hq
      cases h
      exact .inl ⟨hline, by simpa using hq, rfl⟩

/-! ## 1. `End_Stmt_tostr_match_tokens` -/

theorem e_toks_s {s : Str} (h3 : upper (s.take 3) = "END".toList) :
    toks s = toks "END".toList ++ toks (lstrip (s.drop 3)) := by
  conv => lhs; rw [← List.take_append_drop 3 s]
  rw [toks_append, ← toks_upper (s.take 3), h3, toks_lstrip]

theorem e_toks_line {ty line : Str}
    (h : noSpaces (upper (line.take ty.length)) = noSpaces ty) :
    toks line = toks ty ++ toks (lstrip (line.drop ty.length)) := by
  conv => lhs; rw [← List.take_append_drop ty.length line]
  rw [toks_append, toks_lstrip, ← toks_upper (line.take ty.length), ← e_toks_noSpaces, h,
    e_toks_noSpaces]

theorem e_combiStr_bare (o : Oracle Node) (ty : Str) (nc : Option ClassId) (req : Bool) :
    combiStr o (.endStmt ty nc req) [.none, .none] = .ok "END".toList := rfl

theorem e_combiStr_typed (o : Oracle Node) (ty : Str) (nc : Option ClassId) (req : Bool) :
    combiStr o (.endStmt ty nc req) [.str ty, .none] = .ok ("END ".toList ++ ty) := rfl

theorem e_combiStr_named (o : Oracle Node) (ty : Str) (nc : Option ClassId) (req : Bool) (n : Node) :
    combiStr o (.endStmt ty nc req) [.str ty, .node n] =
      .ok ("END ".toList ++ ty ++ ' ' :: o.str n) := rfl

/-- the items of a successful END match, with the exact printed text -/
theorem e_end_match_items {o : Oracle Node} {ty : Str} {nc : Option ClassId} {req : Bool} {s : Str}
    {items : List (Item Node)} (hty0 : ty ≠ [])
    (hm : (combiPlan (.endStmt ty nc req) s).bind (runSlots o) = .ok items) :
    upper (s.take 3) = "END".toList ∧
    ((lstrip (s.drop 3) = [] ∧ req = false ∧ items = [.none, .none]) ∨
     (lstrip (s.drop 3) ≠ [] ∧
      noSpaces (upper ((lstrip (s.drop 3)).take ty.length)) = noSpaces ty ∧
      ((lstrip ((lstrip (s.drop 3)).drop ty.length) = [] ∧ items = [.str ty, .none]) ∨
       (∃ c n, nc = some c ∧ lstrip ((lstrip (s.drop 3)).drop ty.length) ≠ [] ∧
          o.call c (lstrip ((lstrip (s.drop 3)).drop ty.length)) = .ok n ∧
          items = [.str ty, .node n])))) := by
  obtain ⟨cs, hsp, hr⟩ := combiPlan_bind_ok hm
  rw [e_split_eq] at hsp
  obtain ⟨h3, hsh⟩ := e_endSplit_shape hty0 hsp
  refine ⟨h3, ?_⟩
  rcases hsh with ⟨hl, hq, rfl⟩ | ⟨hl, hns, ⟨hr0, rfl⟩ | ⟨c, rfl, hr0, rfl⟩⟩
  · obtain ⟨i, j, rfl, hi, hj⟩ := runSlots_pair_ok hr
    cases runSlot_none_ok hi; cases runSlot_none_ok hj
    exact .inl ⟨hl, hq, rfl⟩
  · obtain ⟨i, j, rfl, hi, hj⟩ := runSlots_pair_ok hr
    cases runSlot_str_ok hi; cases runSlot_none_ok hj
    exact .inr ⟨hl, hns, .inl ⟨hr0, rfl⟩⟩
  · obtain ⟨i, j, rfl, hi, hj⟩ := runSlots_pair_ok hr
    cases runSlot_str_ok hi
    obtain ⟨n, rfl, hn⟩ := runSlot_child_ok hj
    exact .inr ⟨hl, hns, .inr ⟨c, n, rfl, hr0, hn, rfl⟩⟩

/-- **End_Stmt_tostr_match_tokens** (generic): whatever an END class accepts is printed with the
    same tokens: `ENDDO` → `END DO`, `endblockdata` → `END BLOCK DATA`, `end  if  x` → `END IF x`
    (keyword in the case of `ty`, one blank between the parts).  Holds without any hypothesis on the
    case of `ty` (the comparison is on `toks`); `ty ≠ []` is NECESSARY (with `ty = ""` every
    `END…` would be a bare END printed as `END`). -/
theorem e_end_tostr_match_tokens (o : Oracle Node) (ho : OracleTok o) (ty : Str)
    (nc : Option ClassId) (req : Bool) (hty0 : ty ≠ []) (s : Str) (items : List (Item Node))
    (hm : (combiPlan (.endStmt ty nc req) s).bind (runSlots o) = .ok items) :
    ∃ t, combiStr o (.endStmt ty nc req) items = .ok t ∧ toks t = toks s ∧
      ((∀ i ∈ items, net (i.text o) = 0) → net ty = 0 → net t = 0) := by
  obtain ⟨h3, hsh⟩ := e_end_match_items hty0 hm
  have hs := e_toks_s h3
  have hnE : net "END ".toList = 0 := by decide
  rcases hsh with ⟨hl, _, rfl⟩ | ⟨hl, hns, ⟨hr0, rfl⟩ | ⟨c, n, rfl, hr0, hn, rfl⟩⟩
  · refine ⟨_, e_combiStr_bare o ty nc req, ?_, fun _ _ => by decide⟩
    rw [hs, hl]; rfl
  · refine ⟨_, e_combiStr_typed o ty nc req, ?_, fun _ h => ?_⟩
    · have e1 : toks "END ".toList = toks "END".toList := by decide
      rw [hs, e_toks_line hns, hr0, toks_append, e1, toks_nil, List.append_nil]
    · rw [net_append, hnE, h]; rfl
  · refine ⟨_, e_combiStr_named o ty _ req n, ?_, fun hi h => ?_⟩
    · rw [hs, e_toks_line hns, ← ho c _ n hn, cons_eq_append ' ', toks_append, toks_append,
        toks_append]
      have e1 : toks "END ".toList = toks "END".toList := by decide
      have e2 : toks [' '] = [] := by decide
      rw [e1, e2]; simp
    · have hn0 : net (o.str n) = 0 := hi (.node n) (by simp)
      rw [cons_eq_append ' ', net_append, net_append, net_append, hnE, h, hn0]; rfl

/-! ### the table -/

theorem e_endTable_ty_ne : ∀ r ∈ endTable, r.ty.toList ≠ [] := by decide
theorem e_endTable_ty_net : ∀ r ∈ endTable, net r.ty.toList = 0 := by decide
theorem e_endTable_ty_upper : ∀ r ∈ endTable, upper r.ty.toList = r.ty.toList := by decide
theorem e_endTable_ty_lstrip : ∀ r ∈ endTable, lstrip r.ty.toList = r.ty.toList := by decide
/-- every name class of the table is a known class -/
theorem e_endTable_nameCls : ∀ r ∈ endTable, r.nameCls.isSome = (r.nameCls.bind clsId).isSome := by
  decide

/-- **End_Stmt_tostr_match_tokens**, every END class of the table -/
theorem e_End_Stmt_tostr_match_tokens (o : Oracle Node) (ho : OracleTok o) (r : EndRow)
    (hr : r ∈ endTable) (s : Str) (items : List (Item Node))
    (hm : (planEnd r s).bind (runSlots o) = .ok items) :
    ∃ t, tostrEnd o r items = .ok t ∧ toks t = toks s ∧
      ((∀ i ∈ items, net (i.text o) = 0) → net t = 0) := by
  obtain ⟨t, h1, h2, h3⟩ := e_end_tostr_match_tokens o ho r.ty.toList (r.nameCls.bind clsId) r.req
    (e_endTable_ty_ne r hr) s items hm
  exact ⟨t, h1, h2, fun hi => h3 hi (e_endTable_ty_net r hr)⟩

/-- the exact printed text of a successful END match: `END`, `END <TY>`, `END <TY> <name>` -/
theorem e_End_Stmt_tostr_exact (o : Oracle Node) (r : EndRow) (hr : r ∈ endTable) (s : Str)
    (items : List (Item Node)) (hm : (planEnd r s).bind (runSlots o) = .ok items) :
    (items = [.none, .none] ∧ r.req = false ∧ tostrEnd o r items = .ok "END".toList) ∨
    (items = [.str r.ty.toList, .none] ∧ tostrEnd o r items = .ok ("END ".toList ++ r.ty.toList)) ∨
    (∃ n, items = [.str r.ty.toList, .node n] ∧
      tostrEnd o r items = .ok ("END ".toList ++ r.ty.toList ++ ' ' :: o.str n)) := by
  obtain ⟨_, hsh⟩ := e_end_match_items (e_endTable_ty_ne r hr) hm
  rcases hsh with ⟨_, hq, rfl⟩ | ⟨_, _, ⟨_, rfl⟩ | ⟨c, n, _, _, _, rfl⟩⟩
  · exact .inl ⟨rfl, hq, rfl⟩
  · exact .inr (.inl ⟨rfl, rfl⟩)
  · exact .inr (.inr ⟨n, rfl, rfl⟩)

/-! ## 2. corollaries of the shape theorem -/

/-- **End_Stmt_shape** for the rows of the table (`planEnd`) -/
theorem e_End_Stmt_shape (r : EndRow) (hr : r ∈ endTable) (s : Str) (slots : List Slot)
    (h : planEnd r s = .ok slots) :
    upper (s.take 3) = "END".toList ∧
    ((lstrip (s.drop 3) = [] ∧ r.req = false ∧ slots = [.none, .none]) ∨
     (lstrip (s.drop 3) ≠ [] ∧
      noSpaces (upper ((lstrip (s.drop 3)).take r.ty.length)) = noSpaces r.ty.toList ∧
      ((lstrip ((lstrip (s.drop 3)).drop r.ty.length) = [] ∧ slots = [.str r.ty.toList, .none]) ∨
       (∃ c, r.nameCls.bind clsId = some c ∧ lstrip ((lstrip (s.drop 3)).drop r.ty.length) ≠ [] ∧
          slots = [.str r.ty.toList, .child c (lstrip ((lstrip (s.drop 3)).drop r.ty.length))])))) := by
  unfold planEnd combiPlan at h
  rw [endSpec, e_split_eq] at h
  cases hs : Combi.endSplit r.ty.toList (r.nameCls.bind clsId) r.req s with
  | none => rw [hs] at h; cases h
  | some cs =>
    rw [hs] at h; simp only [ofCombi] at h; cases h
    obtain ⟨h3, hsh⟩ := e_endSplit_shape (e_endTable_ty_ne r hr) hs
    rw [String.length_toList] at hsh
    refine ⟨h3, ?_⟩
    rcases hsh with ⟨hl, hq, rfl⟩ | ⟨hl, hns, ⟨hr0, rfl⟩ | ⟨c, hc, hr0, rfl⟩⟩
    · exact .inl ⟨hl, hq, rfl⟩
    · exact .inr ⟨hl, hns, .inl ⟨hr0, rfl⟩⟩
    · exact .inr ⟨hl, hns, .inr ⟨c, hc, hr0, rfl⟩⟩

/-- **End_Stmt_requires_type**: with `require_stmt_type=True` a bare `END` (followed by blanks
    only) is rejected -/
theorem e_End_Stmt_requires_type (ty : Str) (nc : Option ClassId) (s : Str) (hty0 : ty ≠ [])
    (hl : lstrip (s.drop 3) = []) : Combi.endSplit ty nc true s = none := by
  cases h : Combi.endSplit ty nc true s with
  | none => rfl
  | some slots =>
    obtain ⟨_, hsh⟩ := e_endSplit_shape hty0 h
    rcases hsh with ⟨_, hq, _⟩ | ⟨hl', _⟩
    · cases hq
    · exact absurd hl hl'

theorem e_End_Stmt_requires_type_END (ty : Str) (nc : Option ClassId) (hty0 : ty ≠ []) :
    Combi.endSplit ty nc true "END".toList = none :=
  e_End_Stmt_requires_type ty nc _ hty0 (by decide)

/-- **End_Stmt_no_name_class** (`End_Enum_Stmt`): without a name class any text after the keyword
    is rejected -/
theorem e_End_Stmt_no_name_class (ty : Str) (req : Bool) (s : Str) (hty0 : ty ≠ [])
    (hrest : lstrip ((lstrip (s.drop 3)).drop ty.length) ≠ []) :
    Combi.endSplit ty none req s = none := by
  cases h : Combi.endSplit ty none req s with
  | none => rfl
  | some slots =>
    exfalso
    obtain ⟨_, hsh⟩ := e_endSplit_shape hty0 h
    rcases hsh with ⟨hl, _, _⟩ | ⟨_, _, ⟨hr0, _⟩ | ⟨c, hc, _⟩⟩
    · rw [hl] at hrest; simp [lstrip] at hrest
    · exact hrest hr0
    · cases hc

/-- **End_Stmt_other_keyword_rejected**: a text that does not start with `END`, or whose next
    `len(ty)` characters (after blanks) are not `ty` up to case and blanks, is rejected -/
theorem e_End_Stmt_other_keyword_rejected (ty : Str) (nc : Option ClassId) (req : Bool) (s : Str)
    (hty0 : ty ≠ [])
    (h : upper (s.take 3) ≠ "END".toList ∨
      (lstrip (s.drop 3) ≠ [] ∧
        noSpaces (upper ((lstrip (s.drop 3)).take ty.length)) ≠ noSpaces ty)) :
    Combi.endSplit ty nc req s = none := by
  cases hs : Combi.endSplit ty nc req s with
  | none => rfl
  | some slots =>
    exfalso
    obtain ⟨h3, hsh⟩ := e_endSplit_shape hty0 hs
    rcases h with h | ⟨hl, hne⟩
    · exact h h3
    · rcases hsh with ⟨hl', _⟩ | ⟨_, hns, _⟩
      · exact hl hl'
      · exact hne hns

/-! ## 3. witnesses on the real table rows (kernel-checked) -/

def e_rowProgram : EndRow := ⟨"End_Program_Stmt", "PROGRAM", some "Program_Name", false, false⟩
def e_rowBlockData : EndRow := ⟨"End_Block_Data_Stmt", "BLOCK DATA", some "Block_Data_Name", false, false⟩
def e_rowDo : EndRow := ⟨"End_Do_Stmt", "DO", some "Do_Construct_Name", true, false⟩
def e_rowIf : EndRow := ⟨"End_If_Stmt", "IF", some "If_Construct_Name", true, false⟩
def e_rowSelect : EndRow := ⟨"End_Select_Stmt", "SELECT", some "Case_Construct_Name", true, false⟩
def e_rowSelectType : EndRow :=
  ⟨"End_Select_Type_Stmt", "SELECT", some "Select_Construct_Name", true, false⟩
def e_rowEnum : EndRow := ⟨"End_Enum_Stmt", "ENUM", none, true, false⟩

theorem e_rows_mem : e_rowProgram ∈ endTable ∧ e_rowBlockData ∈ endTable ∧ e_rowDo ∈ endTable ∧
    e_rowIf ∈ endTable ∧ e_rowSelect ∈ endTable ∧ e_rowSelectType ∈ endTable ∧
    e_rowEnum ∈ endTable := by decide +kernel

/-- toy oracle: nodes are texts -/
def e_echoH : Oracle Str :=
  { call := fun _ t => .ok t, str := id, head := fun _ => none, rhsStr := fun _ => [],
    heads := fun _ => [], isDataEdit := fun _ => false }

theorem e_echoH_tok : OracleTok e_echoH := by intro c t n h; cases h; rfl
theorem e_echoH_total : OracleTotal e_echoH := by intro c t e h; cases h
theorem e_echoH_rt (c : ClassId) (n : Str) : OracleRT e_echoH c n := rfl

/-- F-C04-3, compound keyword: the blanks INSIDE `BLOCK DATA` are optional, but the keyword is
    recognised inside a window of exactly `len("BLOCK DATA") = 10` characters: `end block data`,
    `endblockdata`, `end blockdata`, `END BLOCK DATA x` are accepted; `end block  data` (two
    blanks: the window holds `block  dat`) and `endblockdatax` (`blockdatax`) are REJECTED. -/
theorem e_End_Block_Data_blanks_witness :
    planEnd e_rowBlockData "end block data".toList = .ok [.str "BLOCK DATA".toList, .none] ∧
    planEnd e_rowBlockData "endblockdata".toList = .ok [.str "BLOCK DATA".toList, .none] ∧
    planEnd e_rowBlockData "end blockdata".toList = .ok [.str "BLOCK DATA".toList, .none] ∧
    planEnd e_rowBlockData "END BLOCK DATA x".toList =
      .ok [.str "BLOCK DATA".toList, .child Fp.Header.C.Block_Data_Name "x".toList] ∧
    planEnd e_rowBlockData "end block  data".toList = .noMatch ∧
    planEnd e_rowBlockData "endblockdatax".toList = .noMatch := by decide +kernel

/-- and the printed forms: `endblockdata` → `END BLOCK DATA` -/
theorem e_End_Block_Data_print_witness :
    ((planEnd e_rowBlockData "endblockdata".toList).bind (runSlots e_echoH)).bind
      (tostrEnd e_echoH e_rowBlockData) = .ok "END BLOCK DATA".toList ∧
    ((planEnd e_rowDo "enddo".toList).bind (runSlots e_echoH)).bind
      (tostrEnd e_echoH e_rowDo) = .ok "END DO".toList ∧
    ((planEnd e_rowIf "end  if  x".toList).bind (runSlots e_echoH)).bind
      (tostrEnd e_echoH e_rowIf) = .ok "END IF x".toList := by decide +kernel

/-- **End_Stmt_glued_name_witness**: the keyword and the name may be GLUED: `END IFX`, `endifx`,
    `end ifx` are all accepted by `End_If_Stmt` as `END IF` with the NAME `X` (nothing at this level
    rejects them; the block matcher then compares `X` with the construct name) -/
theorem e_End_Stmt_glued_name_witness :
    planEnd e_rowIf "END IFX".toList =
      .ok [.str "IF".toList, .child Fp.Header.C.If_Construct_Name "X".toList] ∧
    planEnd e_rowIf "endifx".toList =
      .ok [.str "IF".toList, .child Fp.Header.C.If_Construct_Name "x".toList] ∧
    planEnd e_rowIf "end ifx".toList =
      .ok [.str "IF".toList, .child Fp.Header.C.If_Construct_Name "x".toList] ∧
    ((planEnd e_rowIf "endifx".toList).bind (runSlots e_echoH)).bind
      (tostrEnd e_echoH e_rowIf) = .ok "END IF x".toList := by decide +kernel

theorem e_End_Do_witness :
    planEnd e_rowDo "enddo".toList = .ok [.str "DO".toList, .none] ∧
    planEnd e_rowDo "end".toList = .noMatch ∧
    planEnd e_rowProgram "end".toList = .ok [.none, .none] ∧
    planEnd e_rowProgram "end do".toList = .noMatch := by decide +kernel

/-- `end select` is accepted by BOTH `End_Select_Stmt` and `End_Select_Type_Stmt` (same keyword;
    the enclosing block class decides) -/
theorem e_End_Select_both_witness :
    planEnd e_rowSelect "end select".toList = .ok [.str "SELECT".toList, .none] ∧
    planEnd e_rowSelectType "end select".toList = .ok [.str "SELECT".toList, .none] ∧
    planEnd e_rowSelect "end select x".toList =
      .ok [.str "SELECT".toList, .child Fp.Header.C.Case_Construct_Name "x".toList] ∧
    planEnd e_rowSelectType "end select x".toList =
      .ok [.str "SELECT".toList, .child Fp.Header.C.Select_Construct_Name "x".toList] := by decide +kernel

/-- `End_Enum_Stmt` has no name class -/
theorem e_End_Enum_witness :
    planEnd e_rowEnum "end enum".toList = .ok [.str "ENUM".toList, .none] ∧
    planEnd e_rowEnum "end enum x".toList = .noMatch ∧
    planEnd e_rowEnum "end".toList = .noMatch := by decide +kernel

/-! ## 5. `End_Stmt_match_total` -/

/-- **End_Stmt_match_total**: the string processing of `EndStmtBase.match` raises nothing, and with
    total children nothing escapes from the whole `match` -/
theorem e_end_match_total (ty : Str) (nc : Option ClassId) (req : Bool) (s : Str) (e : Exc) :
    combiPlan (.endStmt ty nc req) s ≠ .raises e ∧
    ∀ (o : Oracle Node), OracleTotal o →
      (combiPlan (.endStmt ty nc req) s).bind (runSlots o) ≠ .raises e := by
  refine ⟨combiPlan_not_raises _ s e, fun o ho h => ?_⟩
  rcases Res.bind_eq_raises h with h1 | ⟨slots, h1, h2⟩
  · exact combiPlan_not_raises _ s e h1
  · have ht := combiPlan_total (.endStmt ty nc req) rfl s
    rcases runSlots_raises h2 with h3 | ⟨c, t, _, h4⟩
    · exact ht.2 slots h1 e h3
    · exact ho c t e h4

theorem e_End_Stmt_match_total (r : EndRow) (s : Str) (e : Exc) :
    planEnd r s ≠ .raises e ∧
    ∀ (o : Oracle Node), OracleTotal o → (planEnd r s).bind (runSlots o) ≠ .raises e :=
  e_end_match_total _ _ _ s e

/-- and `tostr` of matched items does not raise either -/
theorem e_End_Stmt_tostr_total (o : Oracle Node) (r : EndRow) (items : List (Item Node)) (e : Exc) :
    tostrEnd o r items ≠ .raises e := by
  intro h; cases h

/-! ## 2'. the converse of the shape theorem: every such text IS accepted -/

theorem e_take_ne_nil {ty line : Str} (hty0 : ty ≠ []) (hl : line ≠ []) :
    upper (line.take ty.length) ≠ [] := by
  cases ty with
  | nil => exact absurd rfl hty0
  | cons a ty =>
    cases line with
    | nil => exact absurd rfl hl
    | cons c l => simp [upper]

/-- **End_Stmt_shape** (converse): the three shapes are accepted, with exactly these slots -/
theorem e_endSplit_of_shape {ty : Str} {nc : Option ClassId} {req : Bool} {s : Str}
    (hty0 : ty ≠ []) (h3 : upper (s.take 3) = "END".toList) :
    (lstrip (s.drop 3) = [] → req = false → Combi.endSplit ty nc req s = some [.none, .none]) ∧
    (lstrip (s.drop 3) ≠ [] →
      noSpaces (upper ((lstrip (s.drop 3)).take ty.length)) = noSpaces ty →
      (lstrip ((lstrip (s.drop 3)).drop ty.length) = [] →
        Combi.endSplit ty nc req s = some [.str ty, .none]) ∧
      (∀ c, nc = some c → lstrip ((lstrip (s.drop 3)).drop ty.length) ≠ [] →
        Combi.endSplit ty nc req s =
          some [.str ty, .child c (lstrip ((lstrip (s.drop 3)).drop ty.length))])) := by
  rw [e_END] at h3
  refine ⟨fun hl hq => ?_, fun hl hns => ⟨fun hr0 => ?_, fun c hc hr0 => ?_⟩⟩
  · unfold Combi.endSplit
    have hu : upper ([] : Str) = [] := rfl
    simp [h3, hl, hq, hu]
  · have := e_take_ne_nil hty0 hl
    unfold Combi.endSplit
    simp [h3, this, hns, hr0]
  · have := e_take_ne_nil hty0 hl
    unfold Combi.endSplit
    simp [h3, this, hns, hr0, hc]

/-! ## 4. `End_Stmt_match_tostr_fixpoint` -/

theorem e_end_fixpoint_bare (o : Oracle Node) (ty : Str) (nc : Option ClassId) :
    ∃ t, combiStr o (.endStmt ty nc false) [.none, .none] = .ok t ∧
      (combiPlan (.endStmt ty nc false) t).bind (runSlots o) = .ok [.none, .none] := by
  refine ⟨"END".toList, rfl, ?_⟩
  unfold combiPlan
  rw [e_split_eq, Combi.endSplit_bare ty nc]
  rfl

theorem e_end_fixpoint_typed (o : Oracle Node) (ty : Str) (nc : Option ClassId) (req : Bool)
    (hty0 : ty ≠ []) (htyl : lstrip ty = ty) (htyu : upper ty = ty) :
    ∃ t, combiStr o (.endStmt ty nc req) [.str ty, .none] = .ok t ∧
      (combiPlan (.endStmt ty nc req) t).bind (runSlots o) = .ok [.str ty, .none] := by
  refine ⟨"END ".toList ++ ty, rfl, ?_⟩
  unfold combiPlan
  rw [e_split_eq, Combi.endSplit_typed ty nc req hty0 htyl htyu]
  rfl

theorem e_end_fixpoint_named (o : Oracle Node) (ty : Str) (c : ClassId) (req : Bool) (x : Node)
    (hty0 : ty ≠ []) (htyl : lstrip ty = ty) (htyu : upper ty = ty)
    (hrt : OracleRT o c x) (hxl : lstrip (o.str x) = o.str x) (hx0 : o.str x ≠ []) :
    ∃ t, combiStr o (.endStmt ty (some c) req) [.str ty, .node x] = .ok t ∧
      (combiPlan (.endStmt ty (some c) req) t).bind (runSlots o) = .ok [.str ty, .node x] := by
  refine ⟨"END ".toList ++ ty ++ ' ' :: o.str x, rfl, ?_⟩
  unfold combiPlan
  rw [e_split_eq, Combi.endSplit_named ty _ c req hty0 htyl htyu hx0 hxl]
  simp [ofCombi, ofCombiSlot, runSlots, run_child o hrt]

/-- **End_Stmt_match_tostr_fixpoint**: for every END class of the table and items of each of the
    three shapes `match` can build, printing and matching again gives the same items -/
theorem e_End_Stmt_match_tostr_fixpoint (o : Oracle Node) (r : EndRow) (hr : r ∈ endTable) :
    (r.req = false →
      ∃ t, tostrEnd o r [.none, .none] = .ok t ∧
        (planEnd r t).bind (runSlots o) = .ok [.none, .none]) ∧
    (∃ t, tostrEnd o r [.str r.ty.toList, .none] = .ok t ∧
        (planEnd r t).bind (runSlots o) = .ok [.str r.ty.toList, .none]) ∧
    (∀ c x, r.nameCls.bind clsId = some c → OracleRT o c x → lstrip (o.str x) = o.str x →
      o.str x ≠ [] →
      ∃ t, tostrEnd o r [.str r.ty.toList, .node x] = .ok t ∧
        (planEnd r t).bind (runSlots o) = .ok [.str r.ty.toList, .node x]) := by
  have h0 := e_endTable_ty_ne r hr
  have hl := e_endTable_ty_lstrip r hr
  have hu := e_endTable_ty_upper r hr
  refine ⟨fun hq => ?_, ?_, fun c x hc hrt hxl hx0 => ?_⟩
  · have := e_end_fixpoint_bare o r.ty.toList (r.nameCls.bind clsId)
    unfold tostrEnd planEnd endSpec; rw [hq]; exact this
  · exact e_end_fixpoint_typed o _ _ _ h0 hl hu
  · have := e_end_fixpoint_named o r.ty.toList c r.req x h0 hl hu hrt hxl hx0
    unfold tostrEnd planEnd endSpec; rw [hc]; exact this

/-- the side conditions are necessary (toy oracle): a bare item tuple under `require_stmt_type`
    prints `END`, which the class rejects; a name with a leading blank comes back stripped; an
    empty name comes back as `None` -/
theorem e_End_Stmt_fixpoint_counterexamples :
    (tostrEnd e_echoH e_rowDo [.none, .none] = .ok "END".toList ∧
      (planEnd e_rowDo "END".toList).bind (runSlots e_echoH) = .noMatch) ∧
    (tostrEnd e_echoH e_rowIf [.str "IF".toList, .node " x".toList] = .ok "END IF  x".toList ∧
      (planEnd e_rowIf "END IF  x".toList).bind (runSlots e_echoH) =
        .ok [.str "IF".toList, .node "x".toList]) ∧
    (tostrEnd e_echoH e_rowIf [.str "IF".toList, .node []] = .ok "END IF ".toList ∧
      (planEnd e_rowIf "END IF ".toList).bind (runSlots e_echoH) =
        .ok [.str "IF".toList, .none]) := by decide +kernel

/-! ## 6. `get_name` / `get_type` of an END statement -/

/-- `EndStmtBase.get_name()` = `items[1]`, as the model's `enderOf` reads it -/
def e_endGetName (o : Oracle Node) (items : List (Item Node)) : Option Str :=
  (items[1]?).bind (itemStr o)

theorem e_enderOf_name (o : Oracle Node) (cls : String) (items : List (Item Node))
    (lbl : Option Nat) : (enderOf o cls items lbl).name = e_endGetName o items := rfl

/-- **enderOf_name_none_iff**: for the items of a successful END match the END statement has no
    name iff `items[1]` is `None`, and otherwise the name is the printed name node; `items[0]`
    (`get_type`) is `None` (bare END) or the keyword -/
theorem e_enderOf_name_none_iff (o : Oracle Node) (ty : Str) (nc : Option ClassId) (req : Bool)
    (hty0 : ty ≠ []) (s : Str) (items : List (Item Node))
    (hm : (combiPlan (.endStmt ty nc req) s).bind (runSlots o) = .ok items) (cls : String)
    (lbl : Option Nat) :
    ((enderOf o cls items lbl).name = none ↔ items[1]? = some .none) ∧
    (∀ n, items[1]? = some (.node n) → (enderOf o cls items lbl).name = some (o.str n)) ∧
    ((∃ n, items[1]? = some (.node n)) ∨ items[1]? = some .none) ∧
    (items[0]? = some .none ∨ items[0]? = some (.str ty)) := by
  obtain ⟨_, hsh⟩ := e_end_match_items hty0 hm
  rcases hsh with ⟨_, _, rfl⟩ | ⟨_, _, ⟨_, rfl⟩ | ⟨c, n, _, _, _, rfl⟩⟩
  · simp [enderOf, itemStr]
  · simp [enderOf, itemStr]
  · simp [enderOf, itemStr]

theorem e_End_Stmt_enderOf_name (o : Oracle Node) (r : EndRow) (hr : r ∈ endTable) (s : Str)
    (items : List (Item Node)) (hm : (planEnd r s).bind (runSlots o) = .ok items)
    (lbl : Option Nat) :
    ((enderOf o r.cls items lbl).name = none ↔ items[1]? = some .none) ∧
    (∀ n, items[1]? = some (.node n) → (enderOf o r.cls items lbl).name = some (o.str n)) :=
  let h := e_enderOf_name_none_iff o _ _ _ (e_endTable_ty_ne r hr) s items hm r.cls lbl
  ⟨h.1, h.2.1⟩

/-! ## non-vacuity (real statement texts through the echo oracle) and necessity of `ty ≠ []` -/

/-- `ty ≠ []` is necessary in `End_Stmt_tostr_match_tokens` / `End_Stmt_shape`: with an empty
    `stmt_type` (no class of the table) `ENDfoo` would be a bare END, printed as `END` -/
theorem e_end_empty_type_witness :
    (combiPlan (.endStmt [] (some 0) false) "ENDfoo".toList).bind (runSlots e_echoH) =
      .ok [.none, .none] ∧
    combiStr e_echoH (.endStmt [] (some 0) false) [.none, .none] = .ok "END".toList ∧
    toks "END".toList ≠ toks "ENDfoo".toList := by decide +kernel

example := e_end_tostr_match_tokens e_echoH e_echoH_tok "IF".toList (some 7) true (by decide)
  "endif x".toList [.str "IF".toList, .node "x".toList] (by decide +kernel)
example := e_End_Stmt_tostr_match_tokens e_echoH e_echoH_tok e_rowBlockData e_rows_mem.2.1
  "endblockdata  foo".toList [.str "BLOCK DATA".toList, .node "foo".toList] (by decide +kernel)
example := e_End_Stmt_tostr_exact e_echoH e_rowIf e_rows_mem.2.2.2.1
  "endif x".toList [.str "IF".toList, .node "x".toList] (by decide +kernel)
example := e_endSplit_shape (ty := "IF".toList) (nc := some 7) (req := true) (s := "endif x".toList)
  (slots := [.str "IF".toList, .child 7 "x".toList]) (by decide) (by decide +kernel)
example := e_End_Stmt_shape e_rowIf e_rows_mem.2.2.2.1 "endif x".toList
  [.str "IF".toList, .child 7 "x".toList] (by decide +kernel)
example := e_End_Stmt_requires_type "DO".toList (some 6) "end  ".toList (by decide) (by decide)
example := e_End_Stmt_no_name_class "ENUM".toList true "end enum x".toList (by decide)
  (by decide +kernel)
example := e_End_Stmt_other_keyword_rejected "IF".toList (some 7) true "end do".toList (by decide)
  (.inr (by decide +kernel))
example := e_End_Stmt_other_keyword_rejected "IF".toList (some 7) true "else if".toList (by decide)
  (.inl (by decide +kernel))
example := (e_endSplit_of_shape (ty := "IF".toList) (nc := some 7) (req := true)
  (s := "endif x".toList) (by decide) (by decide +kernel)).2 (by decide +kernel) (by decide +kernel)
example := (e_End_Stmt_match_tostr_fixpoint e_echoH e_rowIf e_rows_mem.2.2.2.1).2.2 7 "x".toList
  (by decide +kernel) (e_echoH_rt _ _) (by decide) (by decide)
example := (e_End_Stmt_match_tostr_fixpoint e_echoH e_rowProgram e_rows_mem.1).1 rfl
example := (e_End_Stmt_match_total e_rowIf "endif x".toList .typeError).2 e_echoH e_echoH_total
example := e_End_Stmt_enderOf_name e_echoH e_rowIf e_rows_mem.2.2.2.1
  "endif x".toList [.str "IF".toList, .node "x".toList] (by decide +kernel) none

#print axioms e_endSplit_slots
#print axioms e_endSplit_shape
#print axioms e_endSplit_of_shape
#print axioms e_end_match_items
#print axioms e_end_tostr_match_tokens
#print axioms e_End_Stmt_tostr_match_tokens
#print axioms e_End_Stmt_tostr_exact
#print axioms e_End_Stmt_shape
#print axioms e_End_Stmt_requires_type
#print axioms e_End_Stmt_requires_type_END
#print axioms e_End_Stmt_no_name_class
#print axioms e_End_Stmt_other_keyword_rejected
#print axioms e_End_Block_Data_blanks_witness
#print axioms e_End_Block_Data_print_witness
#print axioms e_End_Stmt_glued_name_witness
#print axioms e_End_Do_witness
#print axioms e_End_Select_both_witness
#print axioms e_End_Enum_witness
#print axioms e_end_match_total
#print axioms e_End_Stmt_match_total
#print axioms e_End_Stmt_tostr_total
#print axioms e_end_fixpoint_bare
#print axioms e_end_fixpoint_typed
#print axioms e_end_fixpoint_named
#print axioms e_End_Stmt_match_tostr_fixpoint
#print axioms e_End_Stmt_fixpoint_counterexamples
#print axioms e_enderOf_name_none_iff
#print axioms e_End_Stmt_enderOf_name
#print axioms e_end_empty_type_witness

end Fp.Header
