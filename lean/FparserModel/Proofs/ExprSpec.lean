import FparserModel.Expr

/-!
# Specification side of C03: the expression grammar of the Fortran standard

Written from the Fortran 2003 standard (ISO/IEC 1539-1:2004, section 7.1.1, rules R701-R723),
NOT from the fparser code. `Derives s e` says: tree `e` is a derivation of nonterminal `s`.
The grouping of operands mandated by the standard (precedence, associativity, retained
parentheses) is exactly the shape of `e`.

    R701 primary        is constant | designator | … | ( expr )
    R702 level-1-expr   is [ defined-unary-op ] primary
    R704 mult-operand   is level-1-expr [ power-op mult-operand ]
    R705 add-operand    is [ add-operand mult-op ] mult-operand
    R706 level-2-expr   is [ [ level-2-expr ] add-op ] add-operand
    R710 level-3-expr   is [ level-3-expr concat-op ] level-2-expr
    R712 level-4-expr   is [ level-3-expr rel-op ] level-3-expr
    R714 and-operand    is [ not-op ] level-4-expr
    R715 or-operand     is [ or-operand and-op ] and-operand
    R716 equiv-operand  is [ equiv-operand or-op ] or-operand
    R717 level-5-expr   is [ level-5-expr equiv-op ] equiv-operand
    R722 expr           is [ expr defined-binary-op ] level-5-expr
-/
namespace Fp.Expr

/-- the nonterminals of R701-R722 (the standard has no `level-2-unary-expr`) -/
inductive SLv where
  | prim | l1 | mult | add | l2 | l3 | l4 | andOp | orOp | equivOp | l5 | expr
deriving DecidableEq, Repr

def Op.isAddOp : Op → Bool | .plus | .minus => true | _ => false        -- R709
def Op.isMultOp : Op → Bool | .mul | .div => true | _ => false          -- R708
def Op.isRelOp : Op → Bool | .rel _ _ => true | _ => false              -- R713
def Op.isEquivOp : Op → Bool | .eqv | .neqv => true | _ => false        -- R721

inductive Derives : SLv → Ex → Prop
  /-- R701: constant, designator, array/structure constructor, function reference … (opaque) -/
  | operand (i : Nat) (d g : Bool) : Derives .prim (.atom i d g)
  /-- R701: ( expr ) -/
  | parens {e} : Derives .expr e → Derives .prim (.paren e)
  | l1_prim {e} : Derives .prim e → Derives .l1 e
  /-- R702/R703 defined-unary-op primary -/
  | l1_defun (n : Nat) (g : Bool) {e} : Derives .prim e → Derives .l1 (.un (.op (.dot n) g) e)
  | mult_l1 {e} : Derives .l1 e → Derives .mult e
  /-- R704: `**` is right-recursive -/
  | mult_pow (g : Bool) {a b} : Derives .l1 a → Derives .mult b → Derives .mult (.bin (.op .pow g) a b)
  | add_mult {e} : Derives .mult e → Derives .add e
  /-- R705: left-recursive -/
  | add_bin (o : Op) (g : Bool) {a b} : o.isMultOp = true → Derives .add a → Derives .mult b →
      Derives .add (.bin (.op o g) a b)
  | l2_add {e} : Derives .add e → Derives .l2 e
  /-- R706: add-op add-operand -/
  | l2_sign (o : Op) (g : Bool) {e} : o.isAddOp = true → Derives .add e → Derives .l2 (.un (.op o g) e)
  /-- R706: level-2-expr add-op add-operand -/
  | l2_bin (o : Op) (g : Bool) {a b} : o.isAddOp = true → Derives .l2 a → Derives .add b →
      Derives .l2 (.bin (.op o g) a b)
  | l3_l2 {e} : Derives .l2 e → Derives .l3 e
  | l3_bin (g : Bool) {a b} : Derives .l3 a → Derives .l2 b → Derives .l3 (.bin (.op .concat g) a b)
  | l4_l3 {e} : Derives .l3 e → Derives .l4 e
  /-- R712: not associative -/
  | l4_bin (o : Op) (g : Bool) {a b} : o.isRelOp = true → Derives .l3 a → Derives .l3 b →
      Derives .l4 (.bin (.op o g) a b)
  | and_l4 {e} : Derives .l4 e → Derives .andOp e
  | and_not (g : Bool) {e} : Derives .l4 e → Derives .andOp (.un (.op .not g) e)
  | or_and {e} : Derives .andOp e → Derives .orOp e
  | or_bin (g : Bool) {a b} : Derives .orOp a → Derives .andOp b → Derives .orOp (.bin (.op .and g) a b)
  | equiv_or {e} : Derives .orOp e → Derives .equivOp e
  | equiv_bin (g : Bool) {a b} : Derives .equivOp a → Derives .orOp b →
      Derives .equivOp (.bin (.op .or g) a b)
  | l5_equiv {e} : Derives .equivOp e → Derives .l5 e
  | l5_bin (o : Op) (g : Bool) {a b} : o.isEquivOp = true → Derives .l5 a → Derives .equivOp b →
      Derives .l5 (.bin (.op o g) a b)
  | expr_l5 {e} : Derives .l5 e → Derives .expr e
  /-- R722/R723 -/
  | expr_bin (n : Nat) (g : Bool) {a b} : Derives .expr a → Derives .l5 b →
      Derives .expr (.bin (.op (.dot n) g) a b)

/-- the class of the chain that implements a nonterminal -/
def SLv.toLv : SLv → Lv
  | .prim => .prim | .l1 => .l1 | .mult => .multOp | .add => .addOp | .l2 => .l2 | .l3 => .l3
  | .l4 => .l4 | .andOp => .andOp | .orOp => .orOp | .equivOp => .equivOp | .l5 => .l5
  | .expr => .expr

/-! ## the boundary of the code's correctness (decidable) -/

/-- the tokens of `render e` that are outside every parenthesis -/
def topToks : Ex → List T
  | .atom i d g => [.atom i d g]
  | .paren _ => []
  | .un o e => o :: topToks e
  | .bin o l r => topToks l ++ o :: topToks r

/-- No defined *binary* operator has, to its right and at its own parenthesis level, a token
spelled `.letters.` (`.AND.`, `.EQ.`, `.NOT.`, `.TRUE.`, a defined unary operator …).
`Expr.match` splits at the right-most such token only. -/
def noDottedRightOfDefinedBinary : Ex → Bool
  | .atom _ _ _ => true
  | .paren e => noDottedRightOfDefinedBinary e
  | .un _ e => noDottedRightOfDefinedBinary e
  | .bin o l r =>
    (match o with
     | .op (.dot _) _ => (topToks r).all (fun t => !t.isDotted)
     | _ => true) && noDottedRightOfDefinedBinary l && noDottedRightOfDefinedBinary r

def allCls : List OpCls := [.defined, .equiv, .or, .and, .not, .rel, .concat, .add, .mult, .power, .none]

/-- two neighbouring tokens matched by pattern `p`, the second written without white space -/
def touching (p : T → Bool) : List T → Bool
  | t1 :: t2 :: rest => (p t1 && p t2 && t2.glued) || touching p (t2 :: rest)
  | _ => false

/-- No two neighbouring tokens that one operator pattern matches are written without white
space between them (`a.and..not.b`, `.true..x.b`; `a.and.b`, `a+b`, `a .and. .not.b` are fine).
`Pattern.rsplit` gives up when two matches touch. -/
def glueFree (ts : List T) : Bool := allCls.all (fun c => !touching c.test ts)

end Fp.Expr
