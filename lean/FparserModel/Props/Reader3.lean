import FparserModel.Proofs.Reader3IncLine
import FparserModel.Props.Reader

/-!
# Props/Reader3 — reader model M-B, third batch: INCLUDE files (C13)

`include_first_dir_wins`, `include_transparent_step` (induction step over the include depth, any
reader), `include_transparent` (clean chunk sources, any nesting depth: same cores as the
flattened source), `include_transparent_one` (one level, exact items with spans),
`include_boundary_putback`; witnesses for the two places where the code is NOT transparent
(a directory shadowing a file of a later include directory; an include file that delivers nothing).
Fixed form / termination: see Props/Reader3Fixed.lean, Props/Reader3Term.lean.
-/
namespace Fp.Reader
open Fp

/-! ## the directory search -/

/-- C13 `include_first_dir_wins`: the include directories are tried in order; the FIRST one in
    which the name exists decides, whatever later directories contain. If what exists there is a
    regular (non-strict) file, a reader for it is started, with the holder's `ignore_comments`
    and include directories, OpenMP handling off; if it is a directory the INCLUDE line is kept
    as an ordinary line (later directories are NOT tried: `include_dir_shadows_witness`). -/
theorem include_first_dir_wins (fs : Fs) (r : Rd) (text : Str) (pre post : List Str) (dir : Str)
    (hdirs : r.includeDirs = pre ++ dir :: post)
    (hpre : ∀ d' ∈ pre, fs.get (pathJoin d' (includeFilename text)) = none) :
    (∀ isFree lines, fs.get (pathJoin dir (includeFilename text)) = some (.file isFree false lines) →
      resolveInclude fs r text =
        .reader (Rd.mk' lines isFree r.ignoreComments false false r.includeDirs)) ∧
    (fs.get (pathJoin dir (includeFilename text)) = some .dir →
      (resolveInclude fs r text).isMissing = true) := by
  constructor
  · intro isFree lines hf
    unfold resolveInclude
    simp only [hdirs, searchPath_first fs _ pre dir post _ hpre (by rw [hf]; rfl), hf,
      Bool.false_eq_true, if_false]
  · intro hf
    unfold resolveInclude
    simp only [hdirs, searchPath_first fs _ pre dir post _ hpre (by rw [hf]; rfl), hf]
    rfl

/-- the name exists in no include directory: the path finally tested is the one built from the
    LAST directory (the bare name when there are no directories) -/
theorem include_search_exhausted (fs : Fs) (f : Str) (dirs : List Str)
    (h : ∀ d' ∈ dirs, fs.get (pathJoin d' f) = none) :
    searchPath fs f dirs f = (dirs.getLast?.map (pathJoin · f)).getD f :=
  searchPath_none fs f dirs f h

/-! ## transparency -/

/-- C13 `include_transparent`, induction step over the include depth, for ARBITRARY readers (free
    or fixed form, any buffers): `r` delivers an INCLUDE line `x` that resolves to the reader `nr`;
    if `nr` alone is drained with budget `d` to the items `ys` (at least one, no `None` event in
    between) then the drain of `r` with budget `d + 1` is `ys` followed by the drain of `r` after
    the INCLUDE line. The INCLUDE line itself is not delivered. Nested includes: apply the theorem
    to `nr` with budget `d - 1`; the budget needed is 1 + the nesting depth. -/
theorem include_transparent_step (d : Nat) (fs : Fs) (r r1 nr : Rd) (x : Item) (text : Str)
    (l : Option Nat) (n : Option Str) (s e : Nat) (ys : List Item) (finI : List Rd)
    (evs : List Ev) (fin : List Rd)
    (h : next1 r = (.ok x, r1)) (hv : x.lineView = some (text, l, n, s, e))
    (hinc : (includeRe text).isSome = true) (hres : resolveInclude fs r1 text = .reader nr)
    (hI : Drains d fs [nr] (evItems ys) finI) (hne : ys ≠ [])
    (hM : Drains (d + 1) fs [r1] evs fin) :
    Drains (d + 1) fs [r] (evItems ys ++ evs) fin :=
  Drains_include d fs r r1 nr x text l n s e ys finI evs fin h hv hinc hres hI hne hM

/-- the include budget is monotone: more budget never changes an answer other than `unsup` -/
theorem include_budget_monotone (fs : Fs) (d : Nat) (st : List Rd)
    (h : (getItem d fs st).1 ≠ .unsup) : getItem (d + 1) fs st = getItem d fs st :=
  getItem_mono fs d st h

/-- C13 `include_transparent` (free form, clean chunks, nesting depth ≤ `d`, by induction on the
    depth): `IncSrc fs ic dirs d src flat lc xs` says that `src` consists of clean chunks and of
    INCLUDE lines resolving (first directory of `dirs` that has the name) to free-form files that
    are again such sources and deliver at least one item; `flat` is `src` with every INCLUDE line
    replaced by the lines of its file. Then draining `src` (budget `d + 1`) delivers exactly `xs`
    (no INCLUDE line, no `None`, reader closed at the end), `flat` read by a reader with the same
    flags in ANY file system delivers `xs'`, and `xs'` and `xs` have the same cores — kind, text,
    label, construct name, in the same order (the spans differ: items of an include file are
    numbered within that file). -/
theorem include_transparent (fs : Fs) (ic : Bool) (dirs : List Str) (d : Nat) (src flat : List Str)
    (xs : List Item) (r r' : Rd) (fs' : Fs) (d' : Nat)
    (h : IncSrc fs ic dirs d src flat r.linecount xs)
    (hsrc : r.src = src) (hfifo : r.fifo = []) (h1 : r.filo = []) (h2 : r.closed = false)
    (h3 : r.isFree = true) (h0 : r.omp = false) (hic : r.ignoreComments = ic)
    (hdirs : r.includeDirs = dirs)
    (hsrc' : r'.src = flat) (hfifo' : r'.fifo = []) (h1' : r'.filo = []) (h2' : r'.closed = false)
    (h3' : r'.isFree = true) (h0' : r'.omp = false) (hic' : r'.ignoreComments = ic) :
    ∃ xs' fin', Drains (d + 1) fs [r] (evItems xs) [finalOf r src] ∧
      Drains (d' + 1) fs' [r'] (evItems xs') fin' ∧
      xs'.map Item.core = xs.map Item.core := by
  obtain ⟨cs, c1, c2, c3, c4⟩ := incSrc_flat fs ic dirs h
  have := drains_chunks d' fs' false cs r' c1 h0' hfifo' h1' h2' h3' (hsrc'.trans c2.symm)
    (by rw [hic']; exact c4 _)
  rw [hic'] at this
  exact ⟨chunkItems ic r'.linecount cs, _,
    incSrc_drains fs ic dirs r h hsrc hfifo h1 h2 h3 h0 hic hdirs, this, c3 _⟩

/-- C13 `include_transparent`, one level, exact items: the source is `pre`, an INCLUDE statement
    `c` (any chunk without inner comment lines whose text is an INCLUDE line — also a continued
    or labelled one), `post`; the file consists of the chunks `inc`. The drain is: the items of
    `pre`, the items of the file numbered from line 1 of the file, the items of `post` numbered
    as in the main file. -/
theorem include_transparent_one (fs : Fs) (pre inc post : List Chunk) (c : Chunk) (text : Str)
    (lab : Option Nat) (nam : Option Str) (s e : Nat) (r : Rd)
    (hpre : ∀ c ∈ pre, c.ok false ∧ c.plain) (hinc : ∀ c ∈ inc, c.ok false ∧ c.plain)
    (hpost : ∀ c ∈ post, c.ok false ∧ c.plain) (hc : c.ok false)
    (hcom : c.comments (r.linecount + totalLines pre) = [])
    (hv : (c.item (r.linecount + totalLines pre)).lineView = some (text, lab, nam, s, e))
    (hre : (includeRe text).isSome = true)
    (hfile : fs.get (searchPath fs (includeFilename text) r.includeDirs (includeFilename text))
      = some (.file true false (srcOf inc)))
    (hne : chunkItems r.ignoreComments 0 inc ≠ [])
    (hsrc : r.src = srcOf pre ++ (c.lines ++ srcOf post)) (hfifo : r.fifo = []) (h1 : r.filo = [])
    (h2 : r.closed = false) (h3 : r.isFree = true) (h0 : r.omp = false) :
    Drains 2 fs [r]
      (evItems (chunkItems r.ignoreComments r.linecount pre ++
        (chunkItems r.ignoreComments 0 inc ++
         chunkItems r.ignoreComments (r.linecount + totalLines pre + c.lines.length) post)))
      [finalOf r r.src] := by
  have hI := IncSrc.ofChunks (fs := fs) (ic := r.ignoreComments) (dirs := r.includeDirs) 0 inc 0 hinc
  have hP := IncSrc.ofChunks (fs := fs) (ic := r.ignoreComments) (dirs := r.includeDirs) 1 post
    (r.linecount + totalLines pre + c.lines.length) hpost
  have hC := IncSrc.incl 0 c text lab nam s e _ _ _ _ _ _ _ hc hcom hv hre hfile hI hne hP
  have hA := IncSrc.prepend pre _ _ r.linecount _ hpre hC
  have := incSrc_drains fs r.ignoreComments r.includeDirs r hA hsrc hfifo h1 h2 h3 h0 rfl rfl
  rw [hsrc]
  exact this

/-! ## put-back at the include boundary -/

/-- C13/C12 `include_boundary_putback` (corollary of `get_put_inverse`). `r` holds the active
    include chain `st0`.
    (a) an item read from the include chain and put back goes to the innermost include reader
    (the holder is untouched) and is read again from there;
    (b) when the include chain is at its end it is dropped and the holder reads on; the item it
    delivers, put back (now there is no include reader any more), is still delivered next. -/
theorem include_boundary_putback (d : Nat) (fs : Fs) (r : Rd) (st0 : List Rd) (x : Item)
    (hne0 : st0 ≠ []) :
    (∀ st rin, getItem (d + 1) fs st0 = (.ok x, st) → innermost st = some rin →
      returnable fs rin x = true →
      getItem (d + 1) fs (r :: st0) = (.ok x, r :: st) ∧
      putItem x (r :: st) = r :: putItem x st ∧
      getItem (d + 1) fs (putItem x (r :: st)) = (.ok x, r :: st)) ∧
    (((getItem (d + 1) fs st0).1 = .stop ∨ (getItem (d + 1) fs st0).1 = .err) →
      ∀ r1, getItem (d + 1) fs [r] = (.ok x, [r1]) → returnable fs r1 x = true →
      getItem (d + 1) fs (r :: st0) = (.ok x, [r1]) ∧
      getItem (d + 1) fs (putItem x [r1]) = (.ok x, [r1])) := by
  constructor
  · intro st rin hg hi hr
    have hne : st ≠ [] := by
      have := getItem_nonempty (d + 1) fs st0 hne0
      rw [hg] at this; exact this
    refine ⟨getItem_chain_ok d fs r st0 st x hne0 hg, putItem_cons x r st hne, ?_⟩
    exact getItem_putItem d fs (r :: st) rin x (by rw [innermost_cons r st hne]; exact hi) hr
  · intro hs r1 hg hr
    refine ⟨by rw [getItem_chain_stop d fs r st0 hne0 hs]; exact hg, ?_⟩
    exact getItem_putItem d fs [r1] r1 x rfl hr

/-! ## non-vacuity and witnesses -/

def incFs : Fs :=
  [("inc/a.h".toList, .file true false ["x = 1".toList, "include 'b.h'".toList]),
   ("inc/b.h".toList, .file true false ["! why".toList, "y = 2".toList]),
   ("shadow/b.h".toList, .dir)]

def incDirs : List Str := ["nodir".toList, "inc".toList, "shadow".toList]

def incMain (ic : Bool) : Rd :=
  Rd.mk' ["include 'a.h'".toList, "z = 3".toList] true ic false false incDirs

/-- `include_first_dir_wins`: `nodir` has no `a.h`, `inc` has it -/
example : resolveInclude incFs (incMain true) "include 'a.h'".toList =
    .reader (Rd.mk' ["x = 1".toList, "include 'b.h'".toList] true true false false incDirs) :=
  (include_first_dir_wins incFs (incMain true) "include 'a.h'".toList ["nodir".toList]
    ["shadow".toList] "inc".toList rfl (by decide +kernel)).1 true _ rfl

/-- the directory `shadow/b.h` of an EARLIER include directory hides the file `inc/b.h`:
    `os.path.exists` stops the search, `os.path.isfile` then fails, the INCLUDE line is kept -/
theorem include_dir_shadows_witness :
    (resolveInclude incFs { incMain true with includeDirs := ["shadow".toList, "inc".toList] }
      "include 'b.h'".toList).isMissing = true ∧
    (resolveInclude incFs { incMain true with includeDirs := ["inc".toList, "shadow".toList] }
      "include 'b.h'".toList).isMissing = false := by
  constructor <;> decide +kernel

/-- an include file that delivers nothing (empty, or only comments while comments are ignored) is
    NOT transparent: `get_item` returns `None` at the INCLUDE line (the `StopIteration` of the fresh
    include reader escapes `next`), although the main file continues -/
theorem include_empty_file_witness :
    evTexts (drainEv 3 [("e.h".toList, .file true false ["! only a comment".toList])] 10
      (mkFree ["a = 1", "include 'e.h'", "b = 2"])) = ["a = 1", "<None>", "b = 2"] ∧
    evTexts (drainEv 3 [("e.h".toList, .file true false ["! only a comment".toList])] 10
      (mkFree ["a = 1", "include 'e.h'", "b = 2"] false)) = ["a = 1", "!! only a comment", "b = 2"] := by
  constructor <;> decide +kernel

/-- `include_transparent` needs `omp = false`: the include reader is created WITHOUT the
    `include_omp_conditional_lines` flag of its holder, so a `!$ ` line is a statement in the main
    file and a comment in an include file -/
theorem include_omp_flag_lost_witness :
    evTexts (drainEv 3 [("o.h".toList, .file true false ["!$ y = 2".toList])] 10
      [Rd.mk' ["!$ x = 1".toList, "include 'o.h'".toList, "z = 3".toList] true false true false []])
      = ["x = 1", "!!$ y = 2", "z = 3"] ∧
    evTexts (drainEv 3 [] 10
      [Rd.mk' ["!$ x = 1".toList, "!$ y = 2".toList, "z = 3".toList] true false true false []])
      = ["x = 1", "y = 2", "z = 3"] := by
  constructor <;> decide +kernel

/-- budget: the model's include budget is used up by INCLUDE lines that are the FIRST item of an
    include file (and by the outermost one); here 2 is enough, 1 is not (`unsup` = outside the
    modelled domain, not a behaviour of the code) -/
example : evTexts (drainEv 2 incFs 10 [incMain true]) = ["x = 1", "y = 2", "z = 3"] ∧
    evTexts (drainEv 1 incFs 10 [incMain true]) = ["<unsup>"] := by
  constructor <;> decide +kernel

def cInc (f : String) : Chunk :=
  stmtChunk ("include '" ++ f ++ "'").toList ("include '" ++ f ++ "'").toList none none
def cStmt (t : String) : Chunk := stmtChunk t.toList t.toList none none
def cStmtC (l t : String) : Chunk := stmtChunk l.toList t.toList none none

theorem cInc_a_ok : (cInc "a.h").ok false :=
  stmtChunk_ok_step false _ _ _ _ (by decide) (fun h => by cases h) (fun _ => rfl) (by decide)
    (by decide +kernel)
theorem cInc_b_ok : (cInc "b.h").ok false :=
  stmtChunk_ok_step false _ _ _ _ (by decide) (fun h => by cases h) (fun _ => rfl) (by decide)
    (by decide +kernel)
theorem cStmt_ok (t : String) (h1 : startsWith (lstrip (cook t.toList)) ['#'] = false)
    (h2 : ∀ n, freeStep false (cook t.toList) n none none none = ⟨none, none, ⟨t.toList, none, false, []⟩, t.toList, false⟩)
    (h3 : strip t.toList ≠ []) (h4 : (stringReplaceMap (strip t.toList) true).1.contains ';' = false)
    (h5 : includeRe (strip t.toList) = none) : (cStmt t).ok false ∧ (cStmt t).plain :=
  ⟨stmtChunk_ok_step false _ _ _ _ h1 (fun h => by cases h) h2 h3 h4, stmtChunk_plain _ _ _ _ h5⟩

theorem cWhy_ok : (commentChunk "! why".toList " why".toList).ok false ∧
    (commentChunk "! why".toList " why".toList).plain :=
  ⟨commentChunk_ok false _ [] _ (by decide) (fun _ h => by cases h) (fun h => by cases h) (by decide),
   commentChunk_plain _ _⟩

/-- the nested demo as an `IncSrc` derivation of depth 2 (ignore_comments on):
    main = `include 'a.h'` / `z = 3`; a.h = `x = 1` / `include 'b.h'`; b.h = `! why` / `y = 2` -/
theorem incDemo : IncSrc incFs true incDirs 2
    ["include 'a.h'".toList, "z = 3".toList]
    ["x = 1".toList, "! why".toList, "y = 2".toList, "z = 3".toList] 0
    [.line "x = 1".toList none none 1 1, .line "y = 2".toList none none 2 2,
     .line "z = 3".toList none none 2 2] := by
  have hX := cStmt_ok "x = 1" (by decide) (fun _ => rfl) (by decide) (by decide +kernel) (by decide)
  have hYs := cStmt_ok "y = 2" (by decide) (fun _ => rfl) (by decide) (by decide +kernel) (by decide)
  have hZ := cStmt_ok "z = 3" (by decide) (fun _ => rfl) (by decide) (by decide +kernel) (by decide)
  -- b.h
  have hY : IncSrc incFs true incDirs 0 ["! why".toList, "y = 2".toList] ["! why".toList, "y = 2".toList] 0
      [.line "y = 2".toList none none 2 2] :=
    IncSrc.ofChunks 0 [commentChunk "! why".toList " why".toList, cStmt "y = 2"] 0 (by
      intro c hc
      simp only [List.mem_cons, List.not_mem_nil, or_false] at hc
      rcases hc with rfl | rfl
      · exact cWhy_ok
      · exact hYs)
  -- a.h
  have hA : IncSrc incFs true incDirs 1 ["x = 1".toList, "include 'b.h'".toList]
      ["x = 1".toList, "! why".toList, "y = 2".toList] 0
      [.line "x = 1".toList none none 1 1, .line "y = 2".toList none none 2 2] :=
    IncSrc.chunk 1 (cStmt "x = 1") _ _ 0 _ hX.1 hX.2.noinc (fun lc' => hX.2.core 0 lc')
      (IncSrc.incl 0 (cInc "b.h") "include 'b.h'".toList none none 2 2 _ _ _ [] [] 1 [] cInc_b_ok rfl rfl
        (by decide) rfl hY (by simp) (IncSrc.nil _ _))
  exact IncSrc.incl 1 (cInc "a.h") "include 'a.h'".toList none none 1 1 _ _ _ _ _ 0 _ cInc_a_ok rfl rfl
    (by decide) rfl hA (by simp)
    (IncSrc.chunk 2 (cStmt "z = 3") [] [] 1 [] hZ.1 hZ.2.noinc (fun lc' => hZ.2.core 1 lc') (IncSrc.nil _ _))

/-- instance of `include_transparent` (depth 2) -/
example : ∃ xs' fin',
    Drains 3 incFs [incMain true]
      (evItems [.line "x = 1".toList none none 1 1, .line "y = 2".toList none none 2 2,
                .line "z = 3".toList none none 2 2]) [finalOf (incMain true) (incMain true).src] ∧
    Drains 1 [] [Rd.mk' ["x = 1".toList, "! why".toList, "y = 2".toList, "z = 3".toList] true true false false []]
      (evItems xs') fin' ∧
    xs'.map Item.core = [.line "x = 1".toList none none, .line "y = 2".toList none none,
                         .line "z = 3".toList none none] :=
  include_transparent incFs true incDirs 2 _ _ _ (incMain true) _ [] 0 incDemo rfl rfl rfl rfl rfl rfl rfl
    rfl rfl rfl rfl rfl rfl rfl rfl

/-- instance of `include_transparent_step` / `include_boundary_putback`, computed: read `x = 1`
    from a.h, put it back, read it again from a.h; the chain is [main, a.h] -/
example :
    let st1 := (getItem 3 incFs [incMain true]).2
    (getItem 3 incFs [incMain true]).1 = .ok (.line "x = 1".toList none none 1 1) ∧ st1.length = 2 ∧
    getItem 3 incFs (putItem (.line "x = 1".toList none none 1 1) st1) =
      (.ok (.line "x = 1".toList none none 1 1), st1) := by
  decide +kernel

end Fp.Reader
