import FparserModel.SymTab
/-!
Helper lemmas for `Props/SymTab.lean` (no Mathlib needed).
-/
namespace Fp.SymTab
open Fp

/-! ## ordered dict -/

theorem dGet_dSet_same {β} (d : List (Str × β)) (k : Str) (v : β) : dGet (dSet d k v) k = some v := by
  induction d with
  | nil => simp [dSet, dGet]
  | cons e r ih =>
    obtain ⟨k', v'⟩ := e
    by_cases h : k' = k
    · simp [dSet, dGet, h]
    · simp [dSet, dGet, h, ih]

theorem dGet_dSet_ne {β} (d : List (Str × β)) (k k2 : Str) (v : β) (h : k ≠ k2) :
    dGet (dSet d k v) k2 = dGet d k2 := by
  induction d with
  | nil => simp [dSet, dGet, h]
  | cons e r ih =>
    obtain ⟨k', v'⟩ := e
    by_cases h1 : k' = k
    · subst h1; simp [dSet, dGet, h]
    · by_cases h2 : k' = k2
      · subst h2; simp [dSet, dGet, h1]
      · simp [dSet, dGet, h1, h2, ih]

theorem dSet_dSet {β} (d : List (Str × β)) (k : Str) (v v2 : β) :
    dSet (dSet d k v) k v2 = dSet d k v2 := by
  induction d with
  | nil => simp [dSet]
  | cons e r ih =>
    obtain ⟨k', v'⟩ := e
    by_cases h : k' = k
    · simp [dSet, h]
    · simp [dSet, h, ih]

theorem dSet_of_dGet {β} (d : List (Str × β)) (k : Str) (v : β) (h : dGet d k = some v) :
    dSet d k v = d := by
  induction d with
  | nil => simp [dGet] at h
  | cons e r ih =>
    obtain ⟨k', v'⟩ := e
    by_cases h1 : k' = k
    · subst h1; simp [dGet] at h; simp [dSet, h]
    · simp [dGet, h1] at h; simp [dSet, h1, ih h]

theorem dHas_iff {β} (d : List (Str × β)) (k : Str) : dHas d k = true ↔ ∃ v, dGet d k = some v := by
  unfold dHas; cases dGet d k <;> simp

theorem dDel_dSet_new {β} (d : List (Str × β)) (k : Str) (v : β) (h : dGet d k = none) :
    dDel (dSet d k v) k = d := by
  induction d with
  | nil => simp [dSet, dDel]
  | cons e r ih =>
    obtain ⟨k', v'⟩ := e
    by_cases h1 : k' = k
    · simp [dGet, h1] at h
    · simp [dGet, h1] at h
      have := ih h
      simp [dDel] at this
      simp [dSet, h1, dDel, this]

/-! ## trees and paths -/

theorem Table.eta (t : Table) : Table.mk t.loc t.children = t := by cases t; rfl

theorem chainFrom_updAt_off (f : Table → Table) :
    ∀ (p q : Rel) (t : Table), ¬ q <+: p → chainFrom (updAt f q t) p = chainFrom t p := by
  intro p
  induction p with
  | nil =>
    intro q t h
    cases q with
    | nil => exact absurd (List.prefix_refl _) h
    | cons i is => cases t with | mk l ch => simp [updAt, chainFrom, Table.loc]
  | cons j ps ih =>
    intro q t h
    cases q with
    | nil => exact absurd (List.nil_prefix) h
    | cons i is =>
      cases t with
      | mk l ch =>
        simp only [updAt, chainFrom, Table.children, Table.loc]
        rw [List.getElem?_modify]
        by_cases hij : i = j
        · subst hij
          have h' : ¬ is <+: ps := by
            intro hp; apply h; exact (List.cons_prefix_cons).2 ⟨rfl, hp⟩
          cases hc : ch[i]? with
          | none => simp
          | some c => simp [ih is c h']
        · cases hc : ch[j]? with
          | none => simp
          | some c => simp [hij]

theorem getAt_updAt_same (f : Table → Table) :
    ∀ (p : Rel) (t : Table), getAt (updAt f p t) p = (getAt t p).map f := by
  intro p
  induction p with
  | nil => intro t; simp [updAt, getAt]
  | cons i is ih =>
    intro t
    cases t with
    | mk l ch =>
      simp only [updAt, getAt, Table.children]
      rw [List.getElem?_modify]
      cases hc : ch[i]? with
      | none => simp
      | some c => simp [ih]

theorem updAt_updAt (f g : Table → Table) :
    ∀ (p : Rel) (t : Table), updAt g p (updAt f p t) = updAt (g ∘ f) p t := by
  intro p
  induction p with
  | nil => intro t; simp [updAt]
  | cons i is ih =>
    intro t
    cases t with
    | mk l ch =>
      simp only [updAt]
      congr 1
      rw [List.modify_modify_eq]
      congr 1
      funext c
      exact ih c

theorem updAt_id_of (f : Table → Table) :
    ∀ (p : Rel) (t u : Table), getAt t p = some u → f u = u → updAt f p t = t := by
  intro p
  induction p with
  | nil => intro t u h hf; simp [getAt] at h; subst h; simp [updAt, hf]
  | cons i is ih =>
    intro t u h hf
    cases t with
    | mk l ch =>
      simp only [getAt, Table.children] at h
      simp only [updAt]
      congr 1
      cases hc : ch[i]? with
      | none => simp [hc] at h
      | some c =>
        simp [hc] at h
        have hc' := ih c u h hf
        apply List.ext_getElem?
        intro j
        rw [List.getElem?_modify]
        by_cases hij : i = j
        · subst hij; simp [hc, hc']
        · cases ch[j]? <;> simp [hij]

/-- a chain only grows at its inner end when children are appended to the table at `q` -/
theorem chainFrom_updAt_append (extra : List Table) :
    ∀ (p q : Rel) (t : Table) (c : List Local), chainFrom t p = some c →
      chainFrom (updAt (fun t => .mk t.loc (t.children ++ extra)) q t) p = some c := by
  intro p
  induction p with
  | nil =>
    intro q t c h
    cases q with
    | nil => cases t; simpa [updAt, chainFrom, Table.loc] using h
    | cons i is => cases t; simpa [updAt, chainFrom, Table.loc] using h
  | cons j ps ih =>
    intro q t c h
    cases t with
    | mk l ch =>
      simp only [chainFrom, Table.children, Table.loc] at h
      cases hc : ch[j]? with
      | none => simp [hc] at h
      | some cj =>
        simp [hc] at h
        obtain ⟨c', hc', rfl⟩ := h
        cases q with
        | nil =>
          have hj : j < ch.length := by
            have := List.getElem?_eq_some_iff.1 hc; exact this.1
          simp [updAt, chainFrom, Table.children, Table.loc, List.getElem?_append_left hj, hc, hc']
        | cons i is =>
          simp only [updAt, chainFrom, Table.children, Table.loc]
          rw [List.getElem?_modify]
          by_cases hij : i = j
          · subst hij
            have := ih is cj c' hc'
            simp only [Table.children, Table.loc] at this
            simp only [hc]
            simp only [Option.map_eq_map, Option.map_some, ite_true]
            rw [this]; simp
          · simp [hc, hij, hc']

/-! ## del_child -/

theorem delFirst_append_new (l : Str) (ch : List Table) (x : Table) (hx : x.name = l)
    (h : ∀ c ∈ ch, c.name ≠ l) : delFirst l (ch ++ [x]) = some ch := by
  induction ch with
  | nil => simp [delFirst, hx]
  | cons c cs ih =>
    have hc : c.name ≠ l := h c (by simp)
    have := ih (fun c' hc' => h c' (by simp [hc']))
    simp [delFirst, hc, this]

end Fp.SymTab
