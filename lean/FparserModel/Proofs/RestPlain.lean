import FparserModel.Proofs.RestBasic
/-!
Token theorems of the Rest classes that do not go through `string_replace_map`:
FLUSH / BACKSPACE / ENDFILE / REWIND, Position_Spec / Flush_Spec / Wait_Spec, Return_Stmt, Bind_Stmt,
Target_Stmt.
-/
namespace Fp.Rest
open Fp Fp.Splitline Fp.IoStmt
open Fp.Combi (noBlank)

variable {Node : Type}

theorem toks_sp : toks " ".toList = [] := by decide

/-! ## FLUSH / BACKSPACE / ENDFILE / REWIND -/

/-- `KW unit` / `KW(spec-list)`: printed with the tokens of the input.  In particular a statement
    whose `(` is not closed by the LAST character is rejected (`pos_rejects_unclosed`), never accepted
    with the last character of the spec list taken for the `)`. -/
theorem pos_tostr_match_tokens (kw : Str) (o : Oracle Node) (ho : OracleTok o) (s : Str)
    (items : List (Item Node)) (hm : (planPos kw s).bind (runSlots o) = .ok items) :
    ∃ t, tostrPos kw o items = .ok t ∧ toks t = toks s ∧
      ((∀ i ∈ items, net (i.text o) = 0) → net t = net kw) := by
  obtain ⟨slots, hp, hr⟩ := Res.bind_eq_ok hm
  unfold planPos at hp
  split at hp
  · cases hp
  rename_i hkw
  have hkw' : kwIs kw s = true := by simpa using hkw
  have e1 : toks s = toks kw ++ toks (lstrip (s.drop kw.length)) := by
    rw [toks_of_kwIs hkw', toks_lstrip]
  dsimp only at hp
  split at hp
  · rename_i h1
    split at hp
    · cases hp
    rename_i h2
    have h2' : endsC ')' (lstrip (s.drop kw.length)) = true := by simpa using h2
    cases hp
    obtain ⟨i, j, rfl, hi, hj⟩ := run2 hr
    have := runSlot_none_ok hi; subst this
    have hj' := child_toks ho hj
    obtain ⟨n, rfl, _⟩ := runSlot_child_ok hj
    refine ⟨_, rfl, ?_, ?_⟩
    · rw [e1, toks_paren_inner h1 h2']
      simp only [toks_append, hj', List.append_assoc]
    · intro hb
      have := hb (.node n) (by simp)
      simp only [net_append, this]
      have a : net "(".toList = 1 := by decide
      have b : net ")".toList = -1 := by decide
      rw [a, b]; omega
  · cases hp
    obtain ⟨i, j, rfl, hi, hj⟩ := run2 hr
    have := runSlot_none_ok hj; subst this
    have hi' := child_toks ho hi
    obtain ⟨n, rfl, _⟩ := runSlot_child_ok hi
    refine ⟨_, rfl, ?_, ?_⟩
    · rw [e1]
      simp only [toks_append, hi', toks_sp, List.append_nil, List.nil_append]
    · intro hb
      have := hb (.node n) (by simp)
      simp only [net_append, this]
      have a : net " ".toList = 0 := by decide
      rw [a]; omega

/-- **C08**: after `KW (` the LAST character must be the `)`: otherwise no match -/
theorem pos_rejects_unclosed (kw : Str) (o : Oracle Node) (s : Str)
    (h1 : startsC '(' (lstrip (s.drop kw.length)) = true)
    (h2 : endsC ')' (lstrip (s.drop kw.length)) = false) :
    (planPos kw s).bind (runSlots o) = .noMatch := by
  unfold planPos
  split
  · rfl
  · simp [h1, h2]

/-! ## Position_Spec / Flush_Spec / Wait_Spec -/

theorem specTable_tostr_match_tokens (tbl : List (Str × ClassId)) (o : Oracle Node) (ho : OracleTok o)
    (s : Str) (items : List (Item Node))
    (hm : tableOr (kvTable o true tbl s) (unitDefault o s) = .ok items) :
    ∃ t, kvStr o items = .ok t ∧
      ((kvTable o true tbl s = some (.ok items) ∧ toks t = toks s) ∨
       (kvTable o true tbl s = none ∧ toks t = toks "UNIT=".toList ++ toks s)) ∧
      ((∀ i ∈ items, net (i.text o) = 0) → net t = 0) := by
  rcases tableOr_ok hm with h | ⟨h, hd⟩
  · obtain ⟨t, h1, h2, h3⟩ := kvTable_tostr_match_tokens o ho _ _ s items h
    exact ⟨t, h1, .inl ⟨h, h2⟩, h3⟩
  · obtain ⟨t, h1, h2, h3⟩ := unitDefault_tostr_tokens o ho s items hd
    exact ⟨t, h1, .inr ⟨h, h2⟩, h3⟩

theorem positionSpec_tostr_match_tokens (o : Oracle Node) (ho : OracleTok o) (s : Str)
    (items : List (Item Node)) (hm : matchPositionSpec o s = .ok items) :
    ∃ t, kvStr o items = .ok t ∧
      ((kvTable o true positionTable s = some (.ok items) ∧ toks t = toks s) ∨
       (kvTable o true positionTable s = none ∧ toks t = toks "UNIT=".toList ++ toks s)) ∧
      ((∀ i ∈ items, net (i.text o) = 0) → net t = 0) :=
  specTable_tostr_match_tokens positionTable o ho s items hm

theorem waitSpec_tostr_match_tokens (o : Oracle Node) (ho : OracleTok o) (s : Str)
    (items : List (Item Node)) (hm : matchWaitSpec o s = .ok items) :
    ∃ t, kvStr o items = .ok t ∧
      ((kvTable o true waitTable s = some (.ok items) ∧ toks t = toks s) ∨
       (kvTable o true waitTable s = none ∧ toks t = toks "UNIT=".toList ++ toks s)) ∧
      ((∀ i ∈ items, net (i.text o) = 0) → net t = 0) :=
  specTable_tostr_match_tokens waitTable o ho s items hm

/-! ## Return_Stmt -/

theorem return_tostr_match_tokens (o : Oracle Node) (ho : OracleTok o) (s : Str)
    (items : List (Item Node)) (hm : (planReturn s).bind (runSlots o) = .ok items) :
    ∃ t, tostrReturn o items = .ok t ∧ toks t = toks s ∧
      ((∀ i ∈ items, net (i.text o) = 0) → net t = 0) := by
  obtain ⟨slots, hp, hr⟩ := Res.bind_eq_ok hm
  unfold planReturn at hp
  split at hp
  · cases hp
  rename_i hkw
  have hkw' : kwIs "RETURN".toList s = true := by simpa using hkw
  have e1 : toks s = toks "RETURN".toList ++ toks (s.drop 6) := toks_of_kwIs hkw'
  split at hp
  · rename_i hl
    cases hp
    obtain ⟨i, rfl, hi⟩ := run1 hr
    have := runSlot_none_ok hi; subst this
    have hd : s.drop 6 = [] := by
      have : s.length = 6 := by simpa using hl
      exact List.drop_eq_nil_of_le (by omega)
    refine ⟨_, rfl, ?_, ?_⟩
    · rw [e1, hd]; rfl
    · intro _; decide
  · cases hp
    obtain ⟨i, rfl, hi⟩ := run1 hr
    have hi' := child_toks ho hi
    obtain ⟨n, rfl, _⟩ := runSlot_child_ok hi
    refine ⟨_, rfl, ?_, ?_⟩
    · rw [e1]
      have k : toks "RETURN ".toList = toks "RETURN".toList := by decide
      simp only [toks_append, hi', toks_lstrip, k]
    · intro hb
      have := hb (.node n) (by simp)
      simp only [net_append, this]; decide

/-! ## Bind_Stmt -/

/-- the statement is cut at the first `::`, or — when there is none — at the first `)`, WHICH IS DROPPED -/
def BindColons (s : Str) : Prop := (cutSub2 ':' ':' s).isSome = true
instance (s : Str) : Decidable (BindColons s) := by unfold BindColons; exact inferInstance

/-- exact relation: with a `::` the tokens are kept; without one the first `)` of the input is
    REPLACED by `::` (`toks s = a ++ ")" ++ b`, `toks t = a ++ "::" ++ b`) -/
theorem bind_tostr_match_tokens (o : Oracle Node) (ho : OracleTok o) (s : Str)
    (items : List (Item Node)) (hm : (planBind s).bind (runSlots o) = .ok items) :
    ∃ t, tostrBind o items = .ok t ∧
      (BindColons s → toks t = toks s) ∧
      (¬ BindColons s → ∃ a b, toks s = a ++ toks ")".toList ++ b ∧ toks t = a ++ toks "::".toList ++ b) := by
  obtain ⟨slots, hp, hr⟩ := Res.bind_eq_ok hm
  unfold planBind at hp
  dsimp only at hp
  cases hc : cutSub2 ':' ':' s with
  | some p =>
    obtain ⟨l, r⟩ := p
    rw [hc] at hp
    dsimp only at hp
    split at hp
    · cases hp
    cases hp
    obtain ⟨i, j, rfl, hi, hj⟩ := run2 hr
    have hi' := child_toks ho hi
    have hj' := child_toks ho hj
    have hs := cutSub2_spec s l r hc
    have e3 : ∀ X : Str, ':' :: ':' :: X = "::".toList ++ X := fun _ => rfl
    have k : toks " :: ".toList = toks "::".toList := by decide
    refine ⟨_, rfl, ?_, ?_⟩
    · intro _
      conv => rhs; rw [hs, e3]
      simp only [toks_append, hi', hj', toks_rstrip, toks_lstrip, k, List.append_assoc]
    · intro hn
      exact absurd (by simp [BindColons, hc]) hn
  | none =>
    rw [hc] at hp
    dsimp only at hp
    cases hd : Combi.cutFirst ')' s with
    | none => rw [hd] at hp; cases hp
    | some p =>
      obtain ⟨l, r⟩ := p
      rw [hd] at hp
      dsimp only at hp
      split at hp
      · cases hp
      cases hp
      obtain ⟨i, j, rfl, hi, hj⟩ := run2 hr
      have hi' := child_toks ho hi
      have hj' := child_toks ho hj
      obtain ⟨hs, _⟩ := Combi.cutFirst_spec s l r hd
      have e3 : ∀ X : Str, ')' :: X = ")".toList ++ X := fun _ => rfl
      have k : toks " :: ".toList = toks "::".toList := by decide
      refine ⟨_, rfl, ?_, ?_⟩
      · intro hb
        simp [BindColons, hc] at hb
      · intro _
        refine ⟨toks l, toks r, ?_, ?_⟩
        · conv => lhs; rw [hs, e3]
          simp only [toks_append, List.append_assoc]
        · simp only [toks_append, hi', hj', toks_rstrip, toks_lstrip, k]

/-- witness: `Bind_Stmt.match("bind(c) x")` cuts at the `)` and hands `bind(c` to Language_Binding_Spec;
    with an oracle that accepts it the printed text has lost the `)` -/
def echoOracle : Oracle Str :=
  { call := fun _ t => .ok t, str := id, head := fun _ => none, rhsStr := id, heads := fun _ => [],
    isDataEdit := fun _ => false }

theorem bind_drops_paren :
    (planBind "bind(c) x".toList).bind (runSlots echoOracle) = .ok [.node "bind(c".toList, .node "x".toList] ∧
    tostrBind echoOracle [.node "bind(c".toList, .node "x".toList] = .ok "bind(c :: x".toList ∧
    toks "bind(c :: x".toList ≠ toks "bind(c) x".toList := by decide

/-! ## Target_Stmt -/

theorem isPrefix_colons {z : Str} (h : Combi.isPrefix "::".toList z = true) : ∃ y, z = ':' :: ':' :: y := by
  match z with
  | [] => simp [Combi.isPrefix] at h
  | [a] => simp [Combi.isPrefix] at h
  | a :: b :: y =>
    change Combi.isPrefix [':', ':'] (a :: b :: y) = true at h
    simp only [Combi.isPrefix, Bool.and_eq_true, beq_iff_eq, Bool.and_true] at h
    exact ⟨y, by rw [← h.1, ← h.2]⟩

/-- exact relation: `TARGET [::] list` is printed `TARGET :: list` — the `::` is invented when absent -/
theorem target_tostr_match_tokens (o : Oracle Node) (ho : OracleTok o) (s : Str)
    (items : List (Item Node)) (hm : (planTarget s).bind (runSlots o) = .ok items) :
    ∃ t, tostrTarget o items = .ok t ∧
      (Combi.isPrefix "::".toList (lstrip (s.drop 6)) = true → toks t = toks s) ∧
      (Combi.isPrefix "::".toList (lstrip (s.drop 6)) = false →
        toks t = toks "TARGET::".toList ++ toks (s.drop 6) ∧ toks s = toks "TARGET".toList ++ toks (s.drop 6)) ∧
      ((∀ i ∈ items, net (i.text o) = 0) → net t = 0) := by
  obtain ⟨slots, hp, hr⟩ := Res.bind_eq_ok hm
  unfold planTarget at hp
  split at hp
  · cases hp
  rename_i hkw
  have hkw' : kwIs "TARGET".toList s = true := by simpa using hkw
  have e1 : toks s = toks "TARGET".toList ++ toks (s.drop 6) := toks_of_kwIs hkw'
  dsimp only at hp
  cases hp
  obtain ⟨i, rfl, hi⟩ := run1 hr
  have hi' := child_toks ho hi
  obtain ⟨n, rfl, _⟩ := runSlot_child_ok hi
  have k : toks "TARGET :: ".toList = toks "TARGET".toList ++ toks "::".toList := by decide
  have k2 : toks "TARGET::".toList = toks "TARGET".toList ++ toks "::".toList := by decide
  refine ⟨_, rfl, ?_, ?_, ?_⟩
  · intro hpre
    rw [if_pos hpre] at hi'
    rw [e1]
    -- the text after the keyword starts with `::`
    obtain ⟨y, hy⟩ := isPrefix_colons hpre
    have e3 : ':' :: ':' :: y = "::".toList ++ y := rfl
    have e4 : toks (s.drop 6) = toks "::".toList ++ toks y := by
      rw [← toks_lstrip, hy, e3, toks_append]
    simp only [toks_append, hi', toks_lstrip, k, e4, hy, List.drop_succ_cons, List.drop_zero, List.append_assoc]
  · intro hpre
    have hf : ¬ (Combi.isPrefix "::".toList (lstrip (s.drop 6)) = true) := by
      rw [hpre]; exact Bool.false_ne_true
    rw [if_neg hf] at hi'
    refine ⟨?_, e1⟩
    simp only [toks_append, hi', toks_lstrip, k, k2, List.append_assoc]
  · intro hb
    have := hb (.node n) (by simp)
    simp only [net_append, this]; decide

end Fp.Rest
