import FparserModel.Proofs.Block3Skel

/-!
# M-D proofs, part 10 (C16): a successful call adds exactly the scope skeleton of its tree

`TSpec`: if a class call returns `tree t` and no boundary event was logged (`B` unchanged), the
tables gained exactly `scopeSkeleton t` at the scope current at entry (`Gain`).
Part A: the loop of `BlockBase.match`.
-/
namespace Fp.Block

variable {env : Env} {S : Cls → Bool}

/-- success side of the spec of a call -/
def TSpec (tbl : Table) (s : St) (o : Outcome) (s' : St) : Prop :=
  B s' = B s → ∀ t, o = .tree t → Gain s s' (scopeSkeleton tbl t)

structure FT (env : Env) (S : Cls → Bool) (f : F) : Prop where
  base : FF f
  pl : FPl S f
  spec : ∀ c s o s', f c s = (o, s') → TSpec env.tbl s o s'

structure GT (env : Env) (S : Cls → Bool) (g : G) : Prop where
  base : GF g
  pl : GPl S g
  spec : ∀ c pc s o pc' s', g c pc s = (o, pc', s') → TSpec env.tbl s o s'

theorem fresh_T {g : G} (hg : GT env S g) : FT env S (fresh g) :=
  ⟨fresh_F hg.base, fresh_pl hg.pl, fun c s o s' h => by
    unfold fresh at h; inj2 h; exact hg.spec c [] s _ (g c [] s).2.1 _ rfl⟩

theorem callCatch_tree {f : F} {c : Cls} {s : St} {t : Tree} {s' : St}
    (heq : callCatch f c s = (.tree t, s')) : f c s = (.tree t, s') := by
  unfold callCatch at heq
  split at heq
  · simp at heq
  · exact heq

theorem skL_rev_cons (tbl : Table) (t : Tree) (rc : List Tree) :
    skL tbl (t :: rc).reverse = skL tbl rc.reverse ++ scopeSkeleton tbl t := by
  simp [skL_append, skL]

theorem hookLead_pl (hd : Discipline env S) {fuel : Nat} {s : St} {lead : List Tree} {s' : St}
    (heq : hookLead env fuel s = (.ok lead, s')) : ∀ t ∈ lead, plainLeaf t := by
  unfold hookLead at heq
  split at heq
  · obtain ⟨new, hn, hl⟩ := addCID_pl hd heq
    simp at hn; subst hn; exact hl
  · simp only [Prod.mk.injEq, Except.ok.injEq] at heq
    rw [← heq.1]; simp

/-- the same-label hook appended `ts` -/
theorem doHook_G (hd : Discipline env S) {f : F} (hf : FT env S f) {fuel : Nat} {cfg : Cfg}
    {v : LoopVars} {s : St} {ts : List Tree} {s' : St}
    (hhook : cfg.doHook = true → ∀ d ∈ cfg.start.toList, S d = false)
    (heq : doHook env f fuel cfg v s = (.append ts, s')) (hB : B s' = B s) :
    Gain s s' (skL env.tbl ts.reverse) ∧ ∀ t ∈ ts, plainT t := by
  unfold doHook at heq
  split at heq
  · rename_i hdo
    split at heq
    · simp at heq
    · rename_i lead s0 h0
      obtain ⟨ss0, l0, _⟩ := hookLead_F h0
      have hlead := hookLead_pl hd h0
      have m0 := B_mono l0
      split at heq
      · simp at heq
      · rename_i sc hsc
        have hSsc : S sc = false := hhook hdo sc (by simp [hsc])
        split at heq
        · simp at heq
        · simp at heq
        · rename_i t s1 h1
          have l1 : LogExt s0 s1 := by have := hf.base.log sc s0; rw [h1] at this; exact this
          have m1 := B_mono l1
          split at heq
          · split at heq
            · simp at heq
            · split at heq
              · simp only [Prod.mk.injEq, HookRes.append.injEq] at heq
                obtain ⟨rfl, rfl⟩ := heq
                have hg := hf.spec _ _ _ _ h1 (by omega) t rfl
                have hpt : plainT t := hf.pl sc s0 t hSsc (by rw [h1])
                refine ⟨?_, ?_⟩
                · rw [skL_rev_cons, skL_leaves (fun x hx => (hlead x (by simpa using hx)).leaf)]
                  simpa using Gain.pre_ss ss0 hg
                · intro x hx
                  simp only [List.mem_cons] at hx
                  rcases hx with rfl | hx
                  · exact hpt
                  · exact (hlead x hx).plain
              · simp at heq
          · simp at heq
  · simp at heq

/-- the `while` loop of `BlockBase.match`, left normally: the content grew by `new`, the tables
by the skeletons of `new` -/
theorem blockLoop_G (hd : Discipline env S) {f : F} (hf : FT env S f) {cfg : Cfg}
    {classes : List Cls} {startT : Option Tree} {sn : Option (Option Name)}
    (hcls : ∀ c ∈ classes, S c = false)
    (hhook : cfg.doHook = true → ∀ d ∈ cfg.start.toList, S d = false)
    {k i : Nat} {v : LoopVars} {s : St} {v' : LoopVars} {fe : Bool} {s' : St}
    (heq : blockLoop env f cfg classes startT sn k i v s = (.done v' fe, s')) (hB : B s' = B s) :
    ∃ new, v'.rc = new ++ v.rc ∧ Gain s s' (skL env.tbl new.reverse) ∧ ∀ t ∈ new, plainT t := by
  induction k generalizing i v s with
  | zero => simp [blockLoop] at heq
  | succ k ih =>
    simp only [blockLoop] at heq
    split at heq
    · simp only [Prod.mk.injEq, LoopRes.done.injEq] at heq
      obtain ⟨⟨rfl, _⟩, rfl⟩ := heq
      exact ⟨[], rfl, by simpa [skL] using Gain.refl s, by simp⟩
    · rename_i cls hcl
      have hScls : S cls = false := hcls cls (List.mem_of_getElem? hcl)
      split at heq
      · simp at heq
      · rename_i ts s1 h1
        have l1 : LogExt s s1 := by
          have := doHook_rel (L env) hf.base.log k cfg v s; rw [h1] at this; exact this
        have l2 : LogExt s1 s' := by
          have := blockLoop_rel (L env) hf.base.log cfg classes startT sn k i
            { v with rc := ts ++ v.rc } s1
          rw [heq] at this; exact this
        have m1 := B_mono l1; have m2 := B_mono l2
        obtain ⟨g1, p1⟩ := doHook_G hd hf hhook h1 (by omega)
        obtain ⟨new, hn, g2, p2⟩ := ih (v := { v with rc := ts ++ v.rc }) heq (by omega)
        refine ⟨new ++ ts, by simp [hn], ?_, ?_⟩
        · have := g1.trans g2
          simpa [skL_append] using this
        · intro x hx
          simp only [List.mem_append] at hx
          rcases hx with hx | hx
          · exact p2 x hx
          · exact p1 x hx
      · rename_i sa h1
        have l1 : LogExt s sa := by
          have := doHook_rel (L env) hf.base.log k cfg v s; rw [h1] at this; exact this
        have m1 := B_mono l1
        split at heq
        · simp at heq
        · rename_i sb h2
          have l2 : LogExt sa sb := by
            have := callCatch_rel hf.base.log cls sa; rw [h2] at this; exact this
          have m2 := B_mono l2
          have l3 : LogExt sb s' := by
            have := blockLoop_rel (L env) hf.base.log cfg classes startT sn k (i + 1) v sb
            rw [heq] at this; exact this
          have m3 := B_mono l3
          have hh := doHook_F hf.base h1 (by omega)
          have hcc := callCatch_F hf.base h2 (by omega)
          simp only at hh hcc
          obtain ⟨new, hn, g2, p2⟩ := ih heq (by omega)
          exact ⟨new, hn, Gain.pre (hh.trans hcc) g2, p2⟩
        · rename_i t sb h2
          have l2 : LogExt sa sb := by
            have := callCatch_rel hf.base.log cls sa; rw [h2] at this; exact this
          have m2 := B_mono l2
          have h2' := callCatch_tree h2
          have hpt : plainT t := hf.pl cls sa t hScls (by rw [h2'])
          have hgain : B sb = B s → Gain s sb (scopeSkeleton env.tbl t) := by
            intro hb
            have hh := doHook_F hf.base h1 (by omega)
            simp only at hh
            exact Gain.pre hh (hf.spec _ _ _ _ h2' (by omega) t rfl)
          split at heq
          · simp at heq
          · simp at heq
          · rename_i v2 sc h3
            simp only [Prod.mk.injEq, LoopRes.done.injEq] at heq
            obtain ⟨⟨rfl, _⟩, rfl⟩ := heq
            obtain ⟨ss3, l3, hv⟩ := matchedStep_F h3
            have m3 := B_mono l3
            simp only at hv
            refine ⟨[t], by rw [hv]; rfl, ?_, by simpa using hpt⟩
            have := (hgain (by omega)).post_ss ss3
            simpa [skL] using this
          · rename_i i2 v2 sc h3
            obtain ⟨ss3, l3, hv⟩ := matchedStep_F h3
            have m3 := B_mono l3
            simp only at hv
            have l4 : LogExt sc s' := by
              have := blockLoop_rel (L env) hf.base.log cfg classes startT sn k i2 v2 sc
              rw [heq] at this; exact this
            have m4 := B_mono l4
            obtain ⟨new, hn, g2, p2⟩ := ih (v := v2) heq (by omega)
            refine ⟨new ++ [t], by simp [hn, hv], ?_, ?_⟩
            · have := ((hgain (by omega)).post_ss ss3).trans g2
              simpa [skL_append, skL] using this
            · intro x hx
              simp only [List.mem_append, List.mem_singleton] at hx
              rcases hx with hx | rfl
              · exact p2 x hx
              · exact hpt

end Fp.Block
