import FparserModel.Proofs.Tree3BottomUp
/-!
# Every ordinary construction obeys the discipline: `build t` is bottom-up for every term `t`
-/
namespace Fp.Tree3
open Fp.Tree

theorem buRun_append (e1 e2 : List Ev) : ∀ s : BuState,
    buRun s (e1 ++ e2) = (buRun s e1).bind (fun s' => buRun s' e2) := by
  induction e1 with
  | nil => intro s; rfl
  | cons ev rest ih =>
    intro s
    simp only [List.cons_append, buRun]
    by_cases h : buOk s ev = true
    · simp only [h, if_true]; exact ih _
    · simp [h]

theorem buRun_cons_ok (s : BuState) (ev : Ev) (rest : List Ev) (h : buOk s ev = true) :
    buRun s (ev :: rest) = buRun (buStep s ev) rest := by
  simp only [buRun, h, if_true]

mutual
theorem Term.size_pos : ∀ t : Term, 1 ≤ t.size
  | .mk _ ks => by simp [Term.size]
end

structure Frame (s s' : BuState) (base : Nat) : Prop where
  dead : s'.dead = s.dead
  parF : ∀ n, n < base → par s'.a n = par s.a n
  kidsF : ∀ n, n < base → kids s'.a n = kids s.a n

def DeadLow (s : BuState) : Prop := ∀ d ∈ s.dead, d < s.a.length

theorem par_none_unalloc (a : Arena) (n : Nat) (h : a.length ≤ n) : par a n = none := by
  have : a[n]? = none := by simp; omega
  simp [par, this]

theorem kids_nil_unalloc (a : Arena) (n : Nat) (h : a.length ≤ n) : kids a n = [] := by
  have : a[n]? = none := by simp; omega
  simp [kids, this]

theorem spList_kidIds_cons (base : Nat) (t : Term) (ts : List Term) :
    spList (kidIds base (t :: ts)) = (base + t.size - 1) :: spList (kidIds (base + t.size) ts) := by
  simp [kidIds, spList, spItem]

/-- the four events that finish a container `me` whose children `K` are complete and free -/
theorem finish_ok (s1 : BuState) (cls : Nat) (K : List Item) (hdl : DeadLow s1)
    (hK : ∀ m ∈ spList K, m < s1.a.length ∧ par s1.a m = none ∧ m ∉ s1.dead)
    (hnd : (spList K).Nodup) :
    ∃ s', buRun s1 [.alloc cls, .attach s1.a.length K, .children s1.a.length K, .reset s1.a.length] = some s'
      ∧ s'.a.length = s1.a.length + 1 ∧ s'.dead = s1.dead
      ∧ (∀ n, n ∉ spList K → n ≠ s1.a.length → par s'.a n = par s1.a n)
      ∧ (∀ n, n ≠ s1.a.length → kids s'.a n = kids s1.a n)
      ∧ par s'.a s1.a.length = none := by
  have hme_dead : s1.a.length ∉ s1.dead := fun h => by have := hdl _ h; omega
  generalize hme : s1.a.length = me at *
  -- alloc
  let s2 := buStep s1 (.alloc cls)
  have a2 : s2.a = s1.a ++ [({ cls := cls } : Node)] := rfl
  have d2 : s2.dead = s1.dead := rfl
  have len2 : s2.a.length = me + 1 := by simp [a2, hme]
  have par2 : ∀ n, par s2.a n = par s1.a n := fun n => by rw [a2, par_alloc]
  have kids2 : ∀ n, kids s2.a n = kids s1.a n := fun n => by rw [a2, kids_alloc]
  have ok2 : buOk s2 (.attach me K) = true := by
    simp only [buOk, Bool.and_eq_true, decide_eq_true_eq, List.all_eq_true, List.isEmpty_iff,
      Option.isNone_iff_eq_none, Bool.not_eq_true', List.contains_eq_mem, decide_eq_false_iff_not]
    refine ⟨⟨⟨⟨⟨by omega, ?_⟩, ?_⟩, ?_⟩, hnd⟩, ?_⟩
    · rw [kids2]; exact kids_nil_unalloc _ _ (by omega)
    · rw [par2]; exact par_none_unalloc _ _ (by omega)
    · rw [d2]; exact hme_dead
    · intro m hm
      obtain ⟨h1, h2, h3⟩ := hK m hm
      refine ⟨h1, ?_⟩
      simp only [freeNode, par2, h2, d2, Bool.and_eq_true, Bool.not_eq_true', List.contains_eq_mem,
        decide_eq_false_iff_not]
      exact ⟨h3, trivial⟩
  -- attach
  let s3 := buStep s2 (.attach me K)
  have d3 : s3.dead = s1.dead := rfl
  have len3 : s3.a.length = me + 1 := by
    show (step s2.a (.attach me K)).length = _
    simp only [step, length_foldl_setParent, len2]
  have par3 : ∀ n, par s3.a n = if n ∈ spList K then some me else par s1.a n := by
    intro n
    show parentOf (step s2.a (.attach me K)) n = _
    simp only [step, parentOf_foldl_setParent, len2]
    by_cases hn : n ∈ spList K
    · have := (hK n hn).1
      have hlt : n < me + 1 := by omega
      simp [hn, hlt]
    · simp only [hn, false_and, if_false]; exact par2 n
  have kids3 : ∀ n, kids s3.a n = kids s1.a n := by
    intro n
    show kids (step s2.a (.attach me K)) n = _
    simp only [step, kids_foldl_setParent]; exact kids2 n
  have ok3 : buOk s3 (.children me K) = true := by
    simp only [buOk, Bool.and_eq_true, Bool.or_eq_true, decide_eq_true_eq, List.all_eq_true,
      List.contains_eq_mem, beq_iff_eq]
    refine ⟨by omega, .inr ⟨hnd, fun n hn => ⟨(hK n hn).1, ?_⟩⟩⟩
    rw [par3]; simp [hn]
  -- children
  let s4 := buStep s3 (.children me K)
  have d4 : s4.dead = s1.dead := rfl
  have len4 : s4.a.length = me + 1 := by
    show (step s3.a (.children me K)).length = _
    simp only [step, List.length_modify, len3]
  have par4 : ∀ n, par s4.a n = par s3.a n := by
    intro n
    show par (step s3.a (.children me K)) n = _
    simp only [step, par_children]
  have kids4 : ∀ n, n ≠ me → kids s4.a n = kids s1.a n := by
    intro n hn
    show kids (step s3.a (.children me K)) n = _
    simp only [step, kids_children]
    have : ¬ (me = n ∧ n < s3.a.length) := fun h => hn h.1.symm
    simp only [this, if_false]; exact kids3 n
  have ok4 : buOk s4 (.reset me) = true := by
    simp only [buOk, decide_eq_true_eq]; omega
  -- reset
  let s5 := buStep s4 (.reset me)
  have hme_notK : me ∉ spList K := fun h => by have := (hK me h).1; omega
  have parme4 : par s4.a me = none := by
    rw [par4, par3]; simp only [hme_notK, if_false]; exact par_none_unalloc _ _ (by omega)
  have d5 : s5.dead = s1.dead := by
    show (buStep s4 (.reset me)).dead = _
    simp only [buStep, parme4]; exact d4
  have par5 : ∀ n, par s5.a n = if me = n then none else par s4.a n := by
    intro n
    show parentOf (step s4.a (.reset me)) n = _
    simp only [step, parentOf_setParent]
    by_cases h : me = n
    · subst h; simp [len4]
    · simp [h]; rfl
  have kids5 : ∀ n, kids s5.a n = kids s4.a n := by
    intro n
    show kids (step s4.a (.reset me)) n = _
    simp only [step, kids_setParent]
  refine ⟨s5, ?_, ?_, d5, ?_, ?_, ?_⟩
  · show buRun s1 [.alloc cls, .attach me K, .children me K, .reset me] = some s5
    rw [buRun_cons_ok s1 _ _ rfl, buRun_cons_ok s2 _ _ ok2, buRun_cons_ok s3 _ _ ok3,
      buRun_cons_ok s4 _ _ ok4]
    rfl
  · show (step s4.a (.reset me)).length = _
    simp only [step, length_setParent, len4]
  · intro n hnK hnme
    rw [par5]
    have : ¬ me = n := fun h => hnme h.symm
    simp only [this, if_false]
    rw [par4, par3]; simp [hnK]
  · intro n hnme
    rw [kids5, kids4 n hnme]
  · rw [par5]; simp

mutual
theorem build_ok : ∀ (t : Term) (s : BuState), DeadLow s →
    ∃ s', buRun s (build s.a.length t) = some s' ∧ s'.a.length = s.a.length + t.size
      ∧ Frame s s' s.a.length ∧ par s'.a (s.a.length + t.size - 1) = none
  | .mk cls ks, s, hdl => by
    obtain ⟨s1, hrun1, hlen1, hfr1, hkids1, hnd1⟩ := buildL_ok ks s hdl
    have hdl1 : DeadLow s1 := fun d hd => by
      rw [hfr1.dead] at hd; have := hdl d hd; omega
    obtain ⟨s', hrun2, hlen2, hdead2, hpar2, hkids2, hme⟩ := finish_ok s1 cls (kidIds s.a.length ks) hdl1
      (fun m hm => by
        obtain ⟨h1, h2, h3⟩ := hkids1 m hm
        refine ⟨by omega, h3, fun hd => ?_⟩
        rw [hfr1.dead] at hd; have := hdl m hd; omega) hnd1
    refine ⟨s', ?_, ?_, ⟨by rw [hdead2, hfr1.dead], ?_, ?_⟩, ?_⟩
    · simp only [build]
      rw [buRun_append, hrun1]
      simp only [Option.bind_some]
      rw [← hlen1]; exact hrun2
    · simp only [Term.size]; omega
    · intro n hn
      rw [hpar2 n (fun hm => by have := (hkids1 n hm).1; omega) (by omega)]
      exact hfr1.parF n hn
    · intro n hn
      rw [hkids2 n (by omega)]
      exact hfr1.kidsF n hn
    · have : s.a.length + (Term.mk cls ks).size - 1 = s1.a.length := by
        simp only [Term.size]; omega
      rw [this]; exact hme
theorem buildL_ok : ∀ (ts : List Term) (s : BuState), DeadLow s →
    ∃ s', buRun s (buildL s.a.length ts) = some s' ∧ s'.a.length = s.a.length + Term.sizeL ts
      ∧ Frame s s' s.a.length
      ∧ (∀ m ∈ spList (kidIds s.a.length ts),
            s.a.length ≤ m ∧ m < s.a.length + Term.sizeL ts ∧ par s'.a m = none)
      ∧ (spList (kidIds s.a.length ts)).Nodup
  | [], s, _ => ⟨s, rfl, by simp [Term.sizeL], ⟨rfl, fun _ _ => rfl, fun _ _ => rfl⟩,
      by simp [kidIds, spList], by simp [kidIds, spList]⟩
  | t :: ts, s, hdl => by
    obtain ⟨s1, hrun1, hlen1, hfr1, htop1⟩ := build_ok t s hdl
    have hdl1 : DeadLow s1 := fun d hd => by
      rw [hfr1.dead] at hd; have := hdl d hd; omega
    obtain ⟨s2, hrun2, hlen2, hfr2, hk2, hnd2⟩ := buildL_ok ts s1 hdl1
    have hsz := Term.size_pos t
    rw [hlen1] at hrun2 hk2 hnd2
    refine ⟨s2, ?_, ?_, ⟨by rw [hfr2.dead, hfr1.dead], ?_, ?_⟩, ?_, ?_⟩
    · simp only [buildL]
      rw [buRun_append, hrun1]
      exact hrun2
    · simp only [Term.sizeL]; omega
    · intro n hn
      rw [hfr2.parF n (by omega)]; exact hfr1.parF n hn
    · intro n hn
      rw [hfr2.kidsF n (by omega)]; exact hfr1.kidsF n hn
    · intro m hm
      rw [spList_kidIds_cons] at hm
      simp only [Term.sizeL]
      rcases List.mem_cons.1 hm with rfl | hm
      · refine ⟨by omega, by omega, ?_⟩
        rw [hfr2.parF _ (by omega)]; exact htop1
      · obtain ⟨h1, h2, h3⟩ := hk2 m hm
        exact ⟨by omega, by omega, h3⟩
    · rw [spList_kidIds_cons]
      refine List.nodup_cons.2 ⟨fun hm => ?_, hnd2⟩
      have := (hk2 _ hm).1
      omega
end

/-- the construction of ANY term from an empty arena is bottom-up; the new object is the root -/
theorem build_bottomUp' (t : Term) : BottomUp (build 0 t) (t.size - 1) := by
  obtain ⟨s', hrun, hlen, hfr, htop⟩ := build_ok t {} (fun d hd => by simp at hd)
  have hsz := Term.size_pos t
  refine ⟨s', hrun, ?_, ?_, ?_⟩
  · simp only [List.length_nil, Nat.zero_add] at hlen; omega
  · simpa using htop
  · rw [hfr.dead]; rfl

end Fp.Tree3
