import FparserModel.Proofs.CppTotal

/-!
# Property C14, directive level — `C99Preprocessor.match_cpp_directive` and the `Cpp_*_Stmt` classes

Model: `FparserModel/Cpp.lean` (tied to the repository by `Generated/CppTables.lean` — live
pattern strings = the patterns the hand scanners implement, kernel-replayed tables of the live
regexes and of the live classes — and by `fv/cosim_cpp.py`). ASCII domain (Py.lean).

Vocabulary: `classify l` = the node `match_cpp_directive` makes of a `CppDirective` item whose
`.line` is `l` (none = no class accepts: the item is NOT consumed and the enclosing block fails);
`matchCls c l` = `c(l)`; `render` = `tostr`; `squash` = the text without blanks;
`shape l = some (w, rest)`: `l` is `\s*#\s*` + the maximal word `w` + `rest`.

(a) `classify_render_content`      content is kept modulo blanks — unless the line is `#include <f>`
    `classify_render_content_angle`   … which is printed as `#include "f"` (`include_angle_witness`)
    `words_witness`                 the brief's `words (render n) = words l` is false (`#if(x)`)
(b) `render_classify_fixpoint`      printing is stable;  `render_classify_same` the node itself
    comes back (every class but the line marker, whose leading blanks are dropped by `tostr`)
(c) `classify_shaped`               a line `# KEYWORD rest` is classified iff `payloadOK`, and then by
    the keyword's class;  `classify_null`, `classify_linemarker`;  the directive-shaped lines that
    are NOT classified: `defect_*` (each replayed on the real code, see NOTES.md)
(d) `accept_unique`, `classify_of_match`, `classify_order_independent`, `exactly_one_class`
-/
namespace Fp.Cpp
open Fp

/-! ## (a) the printed node has the content of the line -/

/- full statement (false: `include_angle_witness`):
   theorem classify_render_content_full (l : Str) (n : Node) (h : classify l = some n) :
       squash (render n) = squash l -/

/-- every class, every line: the printed node is the line without its blanks — unless the line
is an `#include <…>` (decidable hypothesis `angleInclude l = false`) -/
theorem classify_render_content (l : Str) (n : Node) (h : classify l = some n)
    (hq : angleInclude l = false) : squash (render n) = squash l := by
  obtain ⟨c, hm⟩ := classify_some h
  exact content_cls hm hq

/-- the exception, exactly: `<f>` is printed as `"f"` -/
theorem classify_render_content_angle (l : Str) (n : Node) (h : classify l = some n)
    (hq : angleInclude l = true) :
    ∃ f, n = .include f ∧ squash l = '#' :: (kInclude ++ '<' :: (squash f ++ ['>'])) ∧
      squash (render n) = '#' :: (kInclude ++ '"' :: (squash f ++ ['"'])) := by
  obtain ⟨c, hm⟩ := classify_some h
  by_cases hc : c = .includeStmt
  · subst hc
    obtain ⟨f, hn, _, hcase⟩ := include_result hm
    refine ⟨f, hn, ?_, by rw [hn]; exact squash_render_include f⟩
    rcases hcase with hcase | hcase
    · exfalso
      have : (squash l).getLast? = some '"' := by
        rw [hcase, show '#' :: (kInclude ++ '"' :: (squash f ++ ['"']))
            = ('#' :: (kInclude ++ '"' :: squash f)) ++ ['"'] by simp, getLast?_append_ne (by simp)]
        rfl
      simp [angleInclude, this] at hq
    · exact hcase
  · rw [angleInclude_false_of_cls hm hc] at hq; cases hq

example : classify "  # if  defined(X) && Y ".toList
    = some (.word .ifStmt "#if".toList (some "defined(X) && Y".toList))
    ∧ angleInclude "  # if  defined(X) && Y ".toList = false := by decide

/-- `#include <f.h>` is classified, printed as `#include "f.h"`, and the two differ even modulo
blanks (known finding `pred:cpp_include_angle_brackets`) -/
theorem include_angle_witness :
    classify "#include <f.h>".toList = some (.include "f.h".toList)
    ∧ render (.include "f.h".toList) = "#include \"f.h\"".toList
    ∧ angleInclude "#include <f.h>".toList = true
    ∧ squash (render (.include "f.h".toList)) ≠ squash "#include <f.h>".toList := by decide

/-- splitting at blanks is too fine a relation: `tostr` inserts a blank after the keyword -/
theorem words_witness :
    classify "#if(x)".toList = some (.word .ifStmt "#if".toList (some "(x)".toList))
    ∧ words (render (.word .ifStmt "#if".toList (some "(x)".toList))) = ["#if".toList, "(x)".toList]
    ∧ words "#if(x)".toList = ["#if(x)".toList] := by decide

/-! ## (b) printing is stable -/

theorem render_classify_fixpoint (l : Str) (n : Node) (h : classify l = some n) :
    ∃ n', classify (render n) = some n' ∧ render n' = render n := by
  obtain ⟨c, hm⟩ := classify_some h
  obtain ⟨n', h1, h2⟩ := fix_cls hm
  exact ⟨n', classify_of_match h1, h2⟩

/-- for every class but the line marker, the very same node -/
theorem render_classify_same (l : Str) (n : Node) (h : classify l = some n)
    (hc : n.cls ≠ .linemarkerStmt) : classify (render n) = some n := by
  obtain ⟨c, hm⟩ := classify_some h
  have := matchCls_cls hm
  exact classify_of_match (fix_cls_same hm (by rw [← this]; exact hc))

example : classify "#define MAX(a,b)((a)>(b)?(a):(b))".toList
    = some (.macro "MAX".toList (some "(a,b)".toList) (some "((a)>(b)?(a):(b))".toList))
    ∧ render (.macro "MAX".toList (some "(a,b)".toList) (some "((a)>(b)?(a):(b))".toList))
      = "#define MAX(a,b) ((a)>(b)?(a):(b))".toList := by decide

/-- the line marker: leading blanks belong to the node but are not printed, so the node that
comes back differs (and prints the same) -/
theorem linemarker_node_changes :
    classify "  # 12 \"f.f90\" 2".toList = some (.word .linemarkerStmt "  # 12 \"f.f90\" 2".toList none)
    ∧ render (.word .linemarkerStmt "  # 12 \"f.f90\" 2".toList none) = "# 12 \"f.f90\" 2".toList
    ∧ classify "# 12 \"f.f90\" 2".toList = some (.word .linemarkerStmt "# 12 \"f.f90\" 2".toList none) := by
  decide

/-! ## (c) which directive-shaped lines are classified -/

/-- a line whose first non-blank characters are `#`, blanks, a known keyword `w` (of class `c`) and
a word boundary: it is classified iff the payload is acceptable to that class (`payloadOK`), the
node is made by class `c`, and no other class is involved -/
theorem classify_shaped (l w rest : Str) (c : Cls) (hs : shape l = some (w, rest))
    (hk : kwClass w = some c) :
    (payloadOK c w rest = true → ∃ n, classify l = some n ∧ n.cls = c) ∧
    (payloadOK c w rest = false → classify l = none) := by
  obtain ⟨h1, h2⟩ := classify_shaped' hs hk
  constructor
  · intro hp
    rw [← h2] at hp
    obtain ⟨n, hn⟩ := Option.isSome_iff_exists.mp hp
    exact ⟨n, by rw [h1, hn], matchCls_cls hn⟩
  · intro hp
    rw [← h2] at hp
    rw [h1]
    cases hm : matchCls c l with
    | none => rfl
    | some n => rw [hm] at hp; cases hp

example : shape " #  ifdef FOO ".toList = some ("ifdef".toList, " FOO ".toList)
    ∧ kwClass "ifdef".toList = some .ifStmt
    ∧ payloadOK .ifStmt "ifdef".toList " FOO ".toList = true := by decide
example : shape "#ifdef FOO /* c */".toList = some ("ifdef".toList, " FOO /* c */".toList)
    ∧ payloadOK .ifStmt "ifdef".toList " FOO /* c */".toList = false := by decide

/-- the null directive -/
theorem classify_null (l : Str) (h : strip l = ['#']) : classify l = some .null :=
  classify_of_match (matchNull_iff.mpr ⟨h, rfl⟩)

example : strip " #\t".toList = ['#'] := by decide

/-- line markers `# digits "file" flags`: always classified, the node keeps the whole text
(second item None) -/
theorem classify_linemarker (l a g ds g2 r3 : Str)
    (hl : l = a ++ '#' :: (g ++ (ds ++ (g2 ++ '"' :: r3))))
    (ha : ∀ c ∈ a, isSpace c = true) (hg : ∀ c ∈ g, isSpace c = true) (hgne : g ≠ [])
    (hds : ∀ c ∈ ds, isDigit c = true) (hdsne : ds ≠ [])
    (hg2 : ∀ c ∈ g2, isSpace c = true) (hg2ne : g2 ≠ [])
    (hb : noNl (chompNl r3) = true) (hq : (chompNl r3).contains '"' = true) :
    classify l = some (.word .linemarkerStmt (chompNl l) none) :=
  classify_of_match (matchLinemarker_intro ⟨hl, ha, hg, hgne, hds, hdsne, hg2, hg2ne, hb, hq⟩)

example : "# 12 \"f.f90\" 2".toList = [] ++ '#' :: (" ".toList ++ ("12".toList ++ (" ".toList ++ '"' :: "f.f90\" 2".toList))) := by
  decide

/-- directive-shaped lines that are valid C but are NOT classified (the item is then handed to
the Fortran statement classes and the whole parse fails). Replayed on the real code. -/
theorem defect_ifdef_trailing_comment : classify "#ifdef X /* c */".toList = none
    ∧ classify "#ifndef X // c".toList = none ∧ classify "#undef X /* gone */".toList = none := by decide
theorem defect_include_trailing_comment : classify "#include \"f.h\" // c".toList = none
    ∧ classify "#include <f.h> /* c */".toList = none := by decide
theorem defect_include_macro : classify "#include FOO".toList = none := by decide
theorem defect_variadic_blank : classify "#define F( ...) x".toList = none
    ∧ classify "#define F(...) x".toList
        = some (.macro "F".toList (some "(...)".toList) (some "x".toList))
    ∧ classify "#define F(a, ... ) x".toList
        = some (.macro "F".toList (some "(a, ... )".toList) (some "x".toList)) := by decide
/-- … and lines that are malformed C (rejected, as they should be) or unsupported (`#pragma`) -/
theorem unclassified_malformed : classify "#if".toList = none ∧ classify "#elif".toList = none
    ∧ classify "#line".toList = none ∧ classify "#define".toList = none
    ∧ classify "#ifdef A B".toList = none ∧ classify "#include \"\"".toList = none
    ∧ classify "#foo".toList = none ∧ classify "#definex".toList = none
    ∧ classify "#IF x".toList = none ∧ classify "#12 \"f\"".toList = none
    ∧ classify "#pragma once".toList = none ∧ classify "#include_next <f>".toList = none := by decide

/-! ## (d) determinism and independence of the class order -/

/-- at most one class accepts a line -/
theorem accept_unique' (c c' : Cls) (l : Str) (n n' : Node) (h : matchCls c l = some n)
    (h' : matchCls c' l = some n') : c = c' ∧ n = n' := by
  have := accept_unique h h'
  subst this
  rw [h] at h'; exact ⟨rfl, Option.some.inj h'⟩

/-- whatever class accepts, it is the one `match_cpp_directive` returns -/
theorem classify_of_match' (c : Cls) (l : Str) (n : Node) (h : matchCls c l = some n) :
    classify l = some n := classify_of_match h

/-- a `CppDirective` item that is consumed is consumed by exactly one class -/
theorem exactly_one_class (l : Str) (n : Node) (h : classify l = some n) :
    ∃ c, matchCls c l = some n ∧ n.cls = c ∧ ∀ c' n', matchCls c' l = some n' → c' = c ∧ n' = n := by
  obtain ⟨c, hm⟩ := classify_some h
  refine ⟨c, hm, matchCls_cls hm, fun c' n' h' => ?_⟩
  have := accept_unique' c c' l n n' hm h'
  exact ⟨this.1.symm, this.2.symm⟩

/-- the result does not depend on the order of `CPP_CLASS_NAMES` -/
theorem classify_order_independent (order : List Cls) (hall : ∀ c, c ∈ order) (l : Str) :
    classifyIn order l = classify l := by
  cases h : classify l with
  | some n =>
    obtain ⟨c, hm⟩ := classify_some h
    exact findSome?_of_unique (hall c) hm
  | none =>
    cases h' : classifyIn order l with
    | none => rfl
    | some n =>
      obtain ⟨c, _, hm⟩ := classifyIn_some h'
      rw [classify_of_match hm] at h; cases h

example : classifyIn realOrder.reverse "#ifdef X".toList = classify "#ifdef X".toList
    ∧ classify "#ifdef X".toList = some (.word .ifStmt "#ifdef".toList (some "X".toList)) := by decide

/-- the pairs the brief asks about: the `#if` pattern rejects `#ifdef`, `#else` rejects `#elif`
and `#elseif`, `#include` rejects `#include_next` (all by the `\b` after the keyword) -/
theorem prefix_keywords_disjoint :
    kwPrefix kIf "#ifdef X".toList = none ∧ kwPrefix kIf "#ifndef X".toList = none
    ∧ kwPrefix kElse "#elif X".toList = none ∧ kwPrefix kElse "#elseif".toList = none
    ∧ hashKw kInclude "#include_next <f>".toList = none
    ∧ kwPrefix kLine "# 12 \"f\"".toList = none := by decide

/-- the item as the reader makes it: `Line.__init__` strips the text first -/
theorem classifyItem_eq (raw : Str) (h : strip raw ≠ []) : classifyItem raw = classify (strip raw) := by
  simp [classifyItem, h]

example : strip "  #endif ".toList ≠ [] := by decide

end Fp.Cpp

#print axioms Fp.Cpp.classify_render_content
#print axioms Fp.Cpp.classify_render_content_angle
#print axioms Fp.Cpp.include_angle_witness
#print axioms Fp.Cpp.words_witness
#print axioms Fp.Cpp.render_classify_fixpoint
#print axioms Fp.Cpp.render_classify_same
#print axioms Fp.Cpp.linemarker_node_changes
#print axioms Fp.Cpp.classify_shaped
#print axioms Fp.Cpp.classify_null
#print axioms Fp.Cpp.classify_linemarker
#print axioms Fp.Cpp.defect_ifdef_trailing_comment
#print axioms Fp.Cpp.defect_include_trailing_comment
#print axioms Fp.Cpp.defect_include_macro
#print axioms Fp.Cpp.defect_variadic_blank
#print axioms Fp.Cpp.unclassified_malformed
#print axioms Fp.Cpp.accept_unique'
#print axioms Fp.Cpp.classify_of_match'
#print axioms Fp.Cpp.exactly_one_class
#print axioms Fp.Cpp.classify_order_independent
#print axioms Fp.Cpp.prefix_keywords_disjoint
#print axioms Fp.Cpp.classifyItem_eq
