import FparserModel.ExprLex

/-!
Generic facts about `Fp.ExprLex.scan` (= `re.split` with one capturing group): they hold for
every pattern, the only thing used about `matchAt` is `matchAt_pos_le`.
-/
namespace Fp.ExprLex
open Fp

theorem lastOr_nil (prev : Option Char) : lastOr prev [] = prev := rfl

theorem lastOr_cons (prev : Option Char) (c : Char) (t : Str) :
    lastOr prev (c :: t) = lastOr (some c) t := by
  cases t with
  | nil => rfl
  | cons d t' =>
    simp only [lastOr, List.getLast?_cons_cons]
    cases h : (d :: t').getLast? with
    | none => simp [List.getLast?_eq_none_iff] at h
    | some x => rfl

theorem lastOr_append (prev : Option Char) (a b : Str) :
    lastOr prev (a ++ b) = lastOr (lastOr prev a) b := by
  induction a generalizing prev with
  | nil => rfl
  | cons c t ih => simp only [List.cons_append, lastOr_cons, ih]

/-- skipping text in which the pattern matches nowhere -/
theorem scan_skip (q : Pat) : ∀ (u : Str) (prev : Option Char) (rest cur : Str),
    noHit q prev u rest = true →
    scan q prev (u ++ rest) 0 cur = scan q (lastOr prev u) rest 0 (u.reverse ++ cur)
  | [], prev, rest, cur, _ => by simp [lastOr_nil]
  | c :: t, prev, rest, cur, h => by
    simp only [noHit, Bool.and_eq_true, Option.isNone_iff_eq_none] at h
    have ih := scan_skip q t (some c) rest (c :: cur) h.2
    simp only [List.cons_append, lastOr_cons]
    rw [scan]
    simp only [List.cons_append] at h
    rw [h.1, ih]
    simp

theorem scan_in (q : Pat) : ∀ (m : Str) (prev : Option Char) (rest cur : Str), m ≠ [] →
    scan q prev (m ++ rest) m.length cur = (cur.reverse ++ m) :: scan q (lastOr prev m) rest 0 []
  | [], _, _, _, h => absurd rfl h
  | [c], prev, rest, cur, _ => by
    simp [scan, lastOr_cons, lastOr_nil]
  | c :: d :: t, prev, rest, cur, _ => by
    have ih := scan_in q (d :: t) (some c) rest (c :: cur) (by simp)
    simp only [List.cons_append, List.length_cons] at ih ⊢
    rw [scan]
    simp only [Nat.succ_ne_zero, ↓reduceIte]
    rw [ih]
    simp [lastOr_cons]

/-- taking a match -/
theorem scan_take (q : Pat) (m : Str) (prev : Option Char) (rest cur : Str) (hm : m ≠ [])
    (h : matchAt q prev (m ++ rest) = some m.length) :
    scan q prev (m ++ rest) 0 cur = cur.reverse :: m :: scan q (lastOr prev m) rest 0 [] := by
  cases m with
  | nil => exact absurd rfl hm
  | cons c t =>
    simp only [List.cons_append, List.length_cons] at h ⊢
    rw [scan, h]
    cases t with
    | nil => simp [lastOr_cons, lastOr_nil]
    | cons d t' =>
      have := scan_in q (d :: t') (some c) rest [c] (by simp)
      simp only [List.length_cons, List.cons_append] at this ⊢
      simp only [Nat.succ_ne_zero, ↓reduceIte]
      rw [this]
      simp [lastOr_cons]

/-- the pieces always concatenate to the subject -/
theorem scan_join (q : Pat) : ∀ (s : Str) (prev : Option Char) (k : Nat) (cur : Str),
    joinS (scan q prev s k cur) = cur.reverse ++ s
  | [], _, _, cur => by simp [scan, joinS]
  | c :: cs, prev, k+1, cur => by
    rw [scan]
    split
    · have := scan_join q cs (some c) 0 []
      simp [joinS] at this ⊢
      simp [this]
    · rw [scan_join q cs (some c) k (c :: cur)]; simp
  | c :: cs, prev, 0, cur => by
    rw [scan]
    split
    · rename_i n _
      split
      · have := scan_join q cs (some c) 0 []
        simp [joinS] at this ⊢
        simp [this]
      · have := scan_join q cs (some c) n [c]
        simp [joinS] at this ⊢
        simp [this]
    · rw [scan_join q cs (some c) 0 (c :: cur)]; simp

end Fp.ExprLex

namespace Fp.ExprLex
open Fp

theorem dropWhile_length_le (f : Char → Bool) : ∀ (s : Str), (s.dropWhile f).length ≤ s.length
  | [] => by simp
  | c :: t => by
    simp only [List.dropWhile_cons]
    split
    · exact Nat.le_trans (dropWhile_length_le f t) (by simp)
    · exact Nat.le_refl _

theorem dropSp_length_le (s : Str) : (dropSp s).length ≤ s.length := dropWhile_length_le _ _

theorem dotWord_bound (s : Str) (w : Str) (n : Nat) (h : dotWord s = some (w, n)) :
    0 < n ∧ n ≤ s.length := by
  unfold dotWord at h
  split at h
  · rename_i r
    simp only at h
    split at h
    · rename_i r3tail hr3
      split at h
      · cases h
      · simp only [Option.some.injEq, Prod.mk.injEq] at h
        have h1 : (dropSp (List.dropWhile isAlpha (dropSp r))).length ≤ r.length :=
          Nat.le_trans (dropSp_length_le _) (Nat.le_trans (dropWhile_length_le _ _) (dropSp_length_le _))
        rw [hr3] at h1
        simp only [List.length_cons] at h1 ⊢
        rw [hr3] at h
        simp only [List.length_cons] at h
        omega
    · cases h
  · cases h

theorem dotIn_bound (q : Pat) (s : Str) (n : Nat) (h : dotIn q s = some n) : 0 < n ∧ n ≤ s.length := by
  unfold dotIn at h
  split at h
  · rename_i w m hw
    split at h
    · cases h; exact dotWord_bound s w _ hw
    · cases h
  · cases h

theorem matchAt_pos_le (p : Pat) (prev : Option Char) (s : Str) (n : Nat)
    (h : matchAt p prev s = some n) : 0 < n ∧ n ≤ s.length := by
  cases p <;> simp only [matchAt] at h
  case not => exact dotIn_bound _ _ _ h
  case and => exact dotIn_bound _ _ _ h
  case or => exact dotIn_bound _ _ _ h
  case equiv => exact dotIn_bound _ _ _ h
  case defined => exact dotIn_bound _ _ _ h
  case power =>
    split at h
    · split at h
      · cases h
      · cases h; simp
    · cases h
  case mult =>
    split at h
    · split at h
      · cases h
      · cases h; simp
    · split at h
      · cases h
      · cases h; simp
    · cases h
  case add =>
    split at h
    · split at h
      · cases h; simp
      · cases h
    · cases h
  case concat =>
    split at h
    · rename_i r
      split at h
      · cases h
      · split at h
        · rename_i r2 hr1
          split at h
          · cases h
          · cases h
            have h1 := dropSp_length_le r
            rw [hr1] at h1
            simp only [List.length_cons] at h1 ⊢
            rw [hr1]
            simp only [List.length_cons]
            omega
        · cases h
    · cases h
  case rel =>
    split at h
    · exact dotIn_bound _ _ _ h
    all_goals (first | (cases h; simp) | cases h)

end Fp.ExprLex

namespace Fp.ExprLex
open Fp

theorem scan_nohit_unfold (q : Pat) (prev : Option Char) (c : Char) (cs cur : Str)
    (h : matchAt q prev (c :: cs) = none) :
    scan q prev (c :: cs) 0 cur = scan q (some c) cs 0 (c :: cur) := by
  rw [scan, h]

/-- first-match decomposition of `re.split` -/
theorem scan_spec (q : Pat) : ∀ (s : Str) (prev : Option Char) (cur : Str),
    (noHit q prev s [] = true ∧ scan q prev s 0 cur = [cur.reverse ++ s]) ∨
    (∃ u m rest, s = u ++ m ++ rest ∧ m ≠ [] ∧ noHit q prev u (m ++ rest) = true ∧
        matchAt q (lastOr prev u) (m ++ rest) = some m.length ∧
        scan q prev s 0 cur = (cur.reverse ++ u) :: m :: scan q (lastOr prev (u ++ m)) rest 0 [])
  | [], prev, cur => by left; simp [noHit, scan]
  | c :: cs, prev, cur => by
    cases hm : matchAt q prev (c :: cs) with
    | some n =>
      right
      have hb := matchAt_pos_le q prev (c :: cs) n hm
      refine ⟨[], (c :: cs).take n, (c :: cs).drop n, by simp, ?_, by simp [noHit], ?_, ?_⟩
      · intro h
        have : ((c :: cs).take n).length = 0 := by rw [h]; rfl
        rw [List.length_take] at this
        omega
      · simp only [lastOr_nil, List.take_append_drop, List.length_take]
        rw [hm, Nat.min_eq_left hb.2]
      · have hlen : ((c :: cs).take n).length = n := by rw [List.length_take]; omega
        have := scan_take q ((c :: cs).take n) prev ((c :: cs).drop n) cur
          (by intro h; rw [h] at hlen; simp at hlen; omega)
          (by rw [List.take_append_drop, hlen]; exact hm)
        rw [List.take_append_drop] at this
        rw [this]; simp
    | none =>
      rw [scan_nohit_unfold q prev c cs cur hm]
      rcases scan_spec q cs (some c) (c :: cur) with ⟨h1, h2⟩ | ⟨u, m, rest, hs, hne, hno, hmt, hsc⟩
      · left
        refine ⟨?_, ?_⟩
        · simp only [noHit, List.append_nil, hm, Option.isNone_none, Bool.true_and]
          simpa using h1
        · rw [h2]; simp
      · right
        refine ⟨c :: u, m, rest, by simp [hs], hne, ?_, ?_, ?_⟩
        · simp only [noHit, Bool.and_eq_true, Option.isNone_iff_eq_none]
          refine ⟨?_, hno⟩
          rw [← hm, hs]; simp
        · rw [lastOr_cons]; exact hmt
        · rw [hsc]; simp [lastOr_cons]

/-- the result of `re.split` is never empty -/
theorem scan_ne_nil (q : Pat) (s : Str) (prev : Option Char) (cur : Str) : scan q prev s 0 cur ≠ [] := by
  rcases scan_spec q s prev cur with ⟨_, h⟩ | ⟨_, _, _, _, _, _, _, h⟩ <;> rw [h] <;> simp

end Fp.ExprLex

namespace Fp.ExprLex
open Fp

/-- last-match decomposition of `re.split` -/
theorem scan_last (q : Pat) : ∀ (n : Nat) (s : Str), s.length ≤ n → ∀ (prev : Option Char) (cur : Str),
    3 ≤ (scan q prev s 0 cur).length →
    ∃ A u m r, scan q prev s 0 cur = A ++ [m, r] ∧ A ≠ [] ∧ joinS A = cur.reverse ++ u ∧ s = u ++ m ++ r ∧
      m ≠ [] ∧ matchAt q (lastOr prev u) (m ++ r) = some m.length ∧
      noHit q (lastOr prev (u ++ m)) r [] = true
  | 0, s, hn, prev, cur, h3 => by
    have : s = [] := List.eq_nil_of_length_eq_zero (Nat.le_zero.mp hn)
    subst this
    simp [scan] at h3
  | n+1, s, hn, prev, cur, h3 => by
    rcases scan_spec q s prev cur with ⟨_, h⟩ | ⟨u1, m1, rest, hs, hne, hno, hmt, hsc⟩
    · rw [h] at h3; simp at h3
    · have hlen : rest.length ≤ n := by
        have : 0 < m1.length := List.length_pos_iff.mpr hne
        have hl : s.length = u1.length + m1.length + rest.length := by rw [hs]; simp [Nat.add_assoc]
        omega
      rcases scan_spec q rest (lastOr prev (u1 ++ m1)) [] with ⟨h1, h2⟩ | hright
      · refine ⟨[cur.reverse ++ u1], u1, m1, rest, ?_, by simp, by simp [joinS], hs, hne, hmt, h1⟩
        rw [hsc, h2]; simp
      · have h3' : 3 ≤ (scan q (lastOr prev (u1 ++ m1)) rest 0 []).length := by
          rcases hright with ⟨u2, m2, rest2, _, _, _, _, h⟩
          rw [h]
          have hpos : 0 < (scan q (lastOr (lastOr prev (u1 ++ m1)) (u2 ++ m2)) rest2 0 []).length :=
            List.length_pos_iff.mpr (scan_ne_nil q _ _ [])
          simp only [List.length_cons]
          omega
        obtain ⟨A, u, m, r, ht, _, hj, hs', hm, hmt', hno'⟩ :=
          scan_last q n rest hlen (lastOr prev (u1 ++ m1)) [] h3'
        refine ⟨(cur.reverse ++ u1) :: m1 :: A, u1 ++ m1 ++ u, m, r, ?_, by simp, ?_, ?_, hm, ?_, ?_⟩
        · rw [hsc, ht]; simp
        · simp only [joinS, List.flatten_cons] at hj ⊢
          rw [hj]; simp
        · rw [hs, hs']; simp
        · rw [lastOr_append]; exact hmt'
        · rw [List.append_assoc (u1 ++ m1), lastOr_append]; exact hno'

theorem pieces_index (A : List Str) (m r : Str) (hA : A ≠ []) :
    (A ++ [m, r]).length = A.length + 2 ∧
    (A ++ [m, r]).take ((A ++ [m, r]).length - 2) = A ∧
    ((A ++ [m, r]).drop ((A ++ [m, r]).length - 2)).headD [] = m ∧
    (A ++ [m, r]).getLastD [] = r ∧
    ((A ++ [m, r]).drop 1).dropLast = A.drop 1 ++ [m] := by
  have hl : (A ++ [m, r]).length = A.length + 2 := by simp
  refine ⟨hl, ?_, ?_, ?_, ?_⟩
  · rw [hl]; simp
  · rw [hl]; simp
  · simp [List.getLastD_eq_getLast?]
  · cases A with
    | nil => exact absurd rfl hA
    | cons a A' =>
      simp only [List.cons_append, List.drop_succ_cons, List.drop_zero]
      have : A' ++ [m, r] = (A' ++ [m]) ++ [r] := by simp
      rw [this, List.dropLast_concat]

end Fp.ExprLex

namespace Fp.ExprLex
open Fp

theorem lsplitRaw_sound (p : Pat) (s l o r : Str) (h : lsplitRaw p s = some (l, o, r)) :
    s = l ++ o ++ r ∧ o ≠ [] ∧ matchAt p (lastOr none l) (o ++ r) = some o.length ∧
    noHit p none l (o ++ r) = true := by
  unfold lsplitRaw splitAll at h
  rcases scan_spec p s none [] with ⟨_, h2⟩ | ⟨u, m, rest, hs, hne, hno, hmt, hsc⟩
  · rw [h2] at h; simp at h
  · rw [hsc] at h
    have hj := scan_join p rest (lastOr none (u ++ m)) 0 []
    simp only [List.length_cons, List.reverse_nil, List.nil_append, List.headD_cons,
      List.drop_succ_cons, List.drop_zero] at h hj
    split at h
    · have := List.length_pos_iff.mpr (scan_ne_nil p rest (lastOr none (u ++ m)) [])
      omega
    · simp only [Option.some.injEq, Prod.mk.injEq] at h
      obtain ⟨rfl, rfl, rfl⟩ := h
      rw [hj]
      exact ⟨hs, hne, hmt, hno⟩

theorem rsplitRaw_sound (p : Pat) (s l o r : Str) (h : rsplitRaw p s = some (l, o, r)) :
    s = l ++ o ++ r ∧ o ≠ [] ∧ matchAt p (lastOr none l) (o ++ r) = some o.length ∧
    noHit p (lastOr none (l ++ o)) r [] = true := by
  unfold rsplitRaw rsplitPieces splitAll at h
  simp only [Bool.false_eq_true, ↓reduceIte] at h
  split at h
  · cases h
  · rename_i h3
    obtain ⟨A, u, m, r', ht, hA, hj, hs, hm, hmt, hno⟩ :=
      scan_last p s.length s (Nat.le_refl _) none [] (by omega)
    obtain ⟨_, htake, hdrop, hlast, _⟩ := pieces_index A m r' hA
    rw [ht] at h
    split at h
    · cases h
    · simp only [Option.some.injEq, Prod.mk.injEq] at h
      rw [htake, hdrop, hlast] at h
      obtain ⟨rfl, rfl, rfl⟩ := h
      simp only [List.reverse_nil, List.nil_append] at hj
      rw [hj]
      exact ⟨hs, hm, hmt, hno⟩

end Fp.ExprLex
