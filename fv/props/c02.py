"""C02 — regenerated source preserves the program's content token for token."""
import random
from fv import real, gen, layout, treeutil, engine, findings
from fv.props import util
from fv.model import get_model

RULE = ("generated programs x {canonical layout, random free layout (continuations, blanks, comments, case kept)}; "
        "oracle: Lean model normeq(canonical source, str(parse(layout))) = eq, i.e. norm(lexF(printed)) = norm(lexF(source)) "
        "with the independent lexer/normaliser Fp.Norm; non-trivial = >= 8 statements")
ASSUMPTIONS = ["the normaliser applies exactly the canonicalisations calibrated in fv/cosim_norm.py (negative controls: "
               "100% of single-token mutations detected there)",
               "leaf rule classes that drop an optional component are caught only on generated inputs"]
TIE_MODULES = ["FparserModel.Norm", "FparserModel.Combi", "FparserModel.Generated.Combi", "FparserModel.Decl", "FparserModel.Generated.DeclTables", "FparserModel.Proofs.DeclGenerated", "FparserModel.IoStmt", "FparserModel.IoStmtPins", "FparserModel.Generated.IoStmtTables", "FparserModel.Rest", "FparserModel.RestPins", "FparserModel.Generated.RestTables"]


def run_case(case):
    p = util.program_case(case)
    std = case["std"]
    canon = p.text()
    if case["layout"]:
        L = layout.render_free(p, case["seed"] ^ 0xC02, layout.FreeOpts(comments=True, p_semi=0.2))
        src = L.text()
    else:
        src = canon
    res = {"key": [case["seed"], std, case["layout"]], "counts": util.feature_counts(p), "findings": []}
    nst = len(canon.splitlines())
    res["nontrivial"] = nst >= 8
    res["sample"] = {"seed": case["seed"], "std": std, "layout": case["layout"], "head": src[:160]}
    o = real.try_parse(src, std=std, ignore_comments=True, free=True)
    if o.kind != "tree":
        # acceptance is C01/C04's business; here only note it
        res["counts"]["rejected(%s)" % util.outcome_signature(o)] = 1
        res["nontrivial"] = False
        return res
    printed = str(o.tree)
    if case["seed"] % 3 == 0:
        res["findings"] += util.token_cosim([st_.text() for st_ in p.flat()][::2], case=case)
    m = get_model()
    r = m.ask("normeq", canon, printed)
    if r[0] != "eq":
        what = "token %s: source %s vs printed %s" % tuple(r[1:4]) if len(r) >= 4 else str(r)
        cl = [x for x in canon.split("\n") if x.strip()]
        pl = [x for x in printed.split("\n") if x.strip()]
        found = 0
        if len(cl) == len(pl):
            reqs = [("normeq", a + "\n", b + "\n") for a, b in zip(cl, pl)]
            for (a, b), rr in zip(zip(cl, pl), m.ask_many(reqs)):
                if rr[0] != "eq":
                    found += 1
                    a_, b_ = a.strip(), b.strip()
                    known = findings.classify("C02", a_, {"std": std, "printed": b_})
                    res["findings"].append({"signature": known or ("token-change:" + util.stmt_kind(a_)),
                                            "what": "stmt %r -> %r (%s)" % (a_[:200], b_[:200], " ".join(rr[1:4])),
                                            "replay": {"case": case, "source": src, "canonical": canon, "printed": printed,
                                                       "statement": a_, "printed_statement": b_}})
        if not found:
            res["findings"].append({"signature": "token-change:program(%d vs %d statements)" % (len(cl), len(pl)),
                                    "what": what, "replay": {"case": case, "source": src, "canonical": canon, "printed": printed}})
    return res


def cases(tier, seed):
    n = util.tier_n(tier, 200, 2000)
    out = []
    for i, s in enumerate(util.seeds(seed, n, 2)):
        out.append({"seed": s, "std": "f2008" if i % 3 else "f2003", "layout": i % 2 == 1})
    return out


def run(tier, rep, st):
    util.sub_cosim(rep, tier, "cosim_rest", "Fp.Rest", 60, 600)
    util.sub_cosim(rep, tier, "cosim_iostmt", "Fp.IoStmt", 50, 600)
    util.sub_cosim(rep, tier, "cosim_decl", "Fp.Decl", 150, 1500)
    util.sub_cosim(rep, tier, "cosim_combi", "Fp.Combi", 40, 300, extra=["--max-seconds", "45" if tier != "thorough" else "600", "--classes-per-base", "6" if tier != "thorough" else "1000"])
    engine.run_cases(__name__, cases(tier, rep.seed), rep)
