import FparserModel.Proofs.Reader3FixOmp
import FparserModel.Proofs.ReaderStmts

/-!
# Reader3FixOmp2 — the flag-on / flag-off simulation lifted to `get_source_item` and `_next` (C15)

The simulation holds as long as the reader stays in fixed form: a line with a non-blank,
non-digit character in columns 2-5 switches the reader to free form, where a different sentinel
rule applies (`replaceSentinelFree`), so nothing can be said after such a switch.
-/
namespace Fp.Reader
open Fp

theorem getSourceItem_sim (r r' : Rd) (h : OmpSim r r') (hfx : (getSourceItem r').2.isFree = false) :
    (getSourceItem r').1 = (getSourceItem r).1 ∧ OmpSim (getSourceItem r).2 (getSourceItem r').2 := by
  have hg := getSingleLine_sim r r' h
  unfold getSourceItem at hfx ⊢
  cases hq : getSingleLine r with
  | mk o r1 =>
    cases hq' : getSingleLine r' with
    | mk o' r1' =>
      rw [hq, hq'] at hg
      simp only [] at hg
      obtain ⟨rfl, h1⟩ := hg
      rw [hq'] at hfx
      cases o' with
      | none => exact ⟨rfl, h1⟩
      | some line0 =>
        have hlen := h1.srclen
        obtain ⟨s1, hs1, rfl, ho1, hf1⟩ := h1
        have hS : OmpSim r1 (flagOff s1 r1) := ⟨s1, hs1, rfl, ho1, hf1⟩
        have hlen' : s1.length = r1.src.length := hlen
        simp only [] at hfx ⊢
        by_cases c0 : (line0 != [] && startsWith (lstrip line0) ['#']) = true
        · simp only [c0, if_true, hlen'] at hfx ⊢
          exact cppLoop_sim _ line0 [] r1.linecount r1 (flagOff s1 r1) hS
        · simp only [c0, Bool.false_eq_true, if_false, hf1, Bool.false_and, Bool.not_false, if_true] at hfx ⊢
          by_cases c2 : isFixCommentS line0 = true
          · simp only [c2, if_true]; exact ⟨trivial, hS⟩
          · simp only [c2, Bool.false_eq_true, if_false] at hfx ⊢
            cases hcc : colCheck line0 with
            | comment => simp only []; exact ⟨trivial, hS⟩
            | synerr =>
              rw [hcc] at hfx
              simp at hfx
            | switch =>
              rw [hcc] at hfx
              simp only [] at hfx
              have hk := freeItem_keep { flagOff s1 r1 with isFree := true } line0 false r1.linecount
              rw [hk.free] at hfx
              cases hfx
            | fine =>
              simp only []
              exact fixedItem_sim r1 (flagOff s1 r1) line0 r1.linecount hS

/-- once free form, always free form -/
theorem nextRaw_free_of_pop (n : Nat) (r : Rd) (h : (popOrRead r).2.isFree = true) :
    (nextRaw (n + 1) r).2.isFree = true := by
  unfold nextRaw
  simp only []
  cases hp : (popOrRead r).1 with
  | ok it =>
    simp only []
    split
    · rw [(nextRaw_keep n _ h).free]; exact h
    · exact h
  | stop => exact h
  | err => exact h
  | exit => exact h
  | unsup => exact h

theorem popOrRead_sim (r r' : Rd) (h : OmpSim r r') (hfx : (popOrRead r').2.isFree = false) :
    (popOrRead r').1 = (popOrRead r).1 ∧ OmpSim (popOrRead r).2 (popOrRead r').2 := by
  unfold popOrRead at hfx ⊢
  have hf := h.fifo
  cases hq : r.fifo with
  | nil =>
    rw [hq] at hf
    rw [hf] at hfx ⊢
    exact getSourceItem_sim r r' h hfx
  | cons x f =>
    rw [hq] at hf
    rw [hf]
    simp only []
    exact ⟨trivial, h.setFifo f⟩

theorem nextRaw_sim : ∀ (n : Nat) (r r' : Rd), OmpSim r r' → (nextRaw n r').2.isFree = false →
    (nextRaw n r').1 = (nextRaw n r).1 ∧ OmpSim (nextRaw n r).2 (nextRaw n r').2
  | 0, r, r', h, _ => by simp only [nextRaw]; exact ⟨trivial, h⟩
  | n + 1, r, r', h, hfx => by
    have hp : (popOrRead r').2.isFree = false := by
      cases hb : (popOrRead r').2.isFree with
      | false => rfl
      | true => rw [nextRaw_free_of_pop n r' hb] at hfx; cases hfx
    obtain ⟨h1, h2⟩ := popOrRead_sim r r' h hp
    unfold nextRaw at hfx ⊢
    simp only [] at hfx ⊢
    rw [h1] at hfx ⊢
    cases hq : (popOrRead r).1 with
    | ok it =>
      rw [hq] at hfx
      simp only [h2.ic] at hfx ⊢
      by_cases hc : (it.isComment && (popOrRead r).2.ignoreComments) = true
      · simp only [hc, if_true] at hfx ⊢
        exact nextRaw_sim n _ _ h2 hfx
      · simp only [hc, Bool.false_eq_true, if_false]
        exact ⟨h1, h2⟩
    | stop => exact ⟨h1, h2⟩
    | err => exact ⟨h1, h2⟩
    | exit => exact ⟨h1, h2⟩
    | unsup => exact ⟨h1, h2⟩

theorem OmpSim.fuel {r r' : Rd} (h : OmpSim r r') : nextRawFuel r' = nextRawFuel r := by
  unfold nextRawFuel; rw [h.fifo, h.srclen, h.filo]

theorem splitSemicolon_T (it : Item) (r : Rd) (s' : List Str) :
    splitSemicolon it (flagOff s' r) = (splitSemicolon it r).map (fun q => (q.1, flagOff s' q.2)) := by
  unfold splitSemicolon
  cases it.lineView with
  | none => rfl
  | some v =>
    obtain ⟨text, label, name, s, e⟩ := v
    simp only []
    split
    · rfl
    · split
      · rfl
      · split
        · split <;> rfl
        · rfl

theorem next1Loop_free_of_raw (n : Nat) (r : Rd) (h : (nextRaw (nextRawFuel r) r).2.isFree = true) :
    (next1Loop (n + 1) r).2.isFree = true := by
  unfold next1Loop
  simp only []
  cases hp : (nextRaw (nextRawFuel r) r).1 with
  | ok it =>
    simp only []
    cases hq : splitSemicolon it (nextRaw (nextRawFuel r) r).2 with
    | none => simp only []; rw [(next1Loop_keep n _ h).free]; exact h
    | some q =>
      simp only []
      obtain ⟨f, hst⟩ := splitSemicolon_state it _ q hq
      rw [hst]; exact h
  | stop => exact h
  | err => exact h
  | exit => exact h
  | unsup => exact h

theorem next1Loop_sim : ∀ (n : Nat) (r r' : Rd), OmpSim r r' → (next1Loop n r').2.isFree = false →
    (next1Loop n r').1 = (next1Loop n r).1 ∧ OmpSim (next1Loop n r).2 (next1Loop n r').2
  | 0, r, r', h, _ => by simp only [next1Loop]; exact ⟨trivial, h⟩
  | n + 1, r, r', h, hfx => by
    have hp : (nextRaw (nextRawFuel r') r').2.isFree = false := by
      cases hb : (nextRaw (nextRawFuel r') r').2.isFree with
      | false => rfl
      | true => rw [next1Loop_free_of_raw n r' hb] at hfx; cases hfx
    obtain ⟨h1, h2⟩ := nextRaw_sim (nextRawFuel r') r r' h hp
    rw [h.fuel] at h1 h2
    unfold next1Loop at hfx ⊢
    simp only [] at hfx ⊢
    rw [h.fuel] at hfx ⊢
    rw [h1] at hfx ⊢
    cases hq : (nextRaw (nextRawFuel r) r).1 with
    | ok it =>
      rw [hq] at hfx
      simp only [] at hfx ⊢
      obtain ⟨s2, hs2, he2, ho2, hf2⟩ := h2
      rw [he2, splitSemicolon_T] at hfx ⊢
      cases hs : splitSemicolon it (nextRaw (nextRawFuel r) r).2 with
      | none =>
        rw [hs] at hfx
        simp only [Option.map_none] at hfx ⊢
        exact next1Loop_sim n _ _ ⟨s2, hs2, rfl, ho2, hf2⟩ hfx
      | some q =>
        simp only [Option.map_some]
        obtain ⟨f, hst⟩ := splitSemicolon_state it _ q hs
        refine ⟨trivial, s2, ?_, rfl, ?_, ?_⟩
        · rw [hst]; exact hs2
        · rw [hst]; exact ho2
        · rw [hst]; exact hf2
    | stop => exact ⟨h1, h2⟩
    | err => exact ⟨h1, h2⟩
    | exit => exact ⟨h1, h2⟩
    | unsup => exact ⟨h1, h2⟩

/-- C15 fixed form, `_next` level: flag on + sentinel lines == flag off + blanked lines -/
theorem next1_sim (r r' : Rd) (h : OmpSim r r') (hfx : (next1 r').2.isFree = false) :
    (next1 r').1 = (next1 r).1 ∧ OmpSim (next1 r).2 (next1 r').2 := by
  unfold next1 at hfx ⊢
  rw [h.fuel] at hfx ⊢
  exact next1Loop_sim _ r r' h hfx

/-- successive `_next` calls -/
theorem Steps_sim : ∀ (xs : List Item) (r r' rm' : Rd), OmpSim r r' → Steps r' xs rm' → rm'.isFree = false →
    ∃ rm, Steps r xs rm ∧ OmpSim rm rm'
  | [], r, r', rm', h, hs, _ => by cases hs; exact ⟨r, Steps.nil r, h⟩
  | x :: xs, r, r', rm', h, hs, hfx => by
    cases hs with
    | cons hn hs' =>
      rename_i r1'
      have hf1 : r1'.isFree = false := by
        cases hb : r1'.isFree with
        | false => rfl
        | true =>
          exfalso
          have : ∀ (ys : List Item) (a b : Rd), Steps a ys b → a.isFree = true → b.isFree = true := by
            intro ys a b hst
            induction hst with
            | nil _ => exact id
            | cons hn' _ ih =>
              intro ha
              apply ih
              have := (next1_keep _ ha).free
              rw [hn'] at this
              rw [this]; exact ha
          rw [this xs r1' rm' hs' hb] at hfx; cases hfx
      have hsim := next1_sim r r' h (by rw [hn]; exact hf1)
      rw [hn] at hsim
      simp only [] at hsim
      obtain ⟨rm, hst, hsm⟩ := Steps_sim xs (next1 r).2 r1' rm' hsim.2 hs' hfx
      exact ⟨rm, Steps.cons (Prod.ext hsim.1.symm rfl) hst, hsm⟩

end Fp.Reader
