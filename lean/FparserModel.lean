import FparserModel.Py
import FparserModel.Wire
