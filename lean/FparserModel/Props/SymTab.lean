import FparserModel.Proofs.SymTab
/-!
# Properties of the symbol-table model (C16, C09)

`Path` = (top-level table, child indices).  `OnPath q p` : the table at `q` is the table at
`p` or one of its ancestors — exactly the tables `SymbolTable.lookup` visits from `p`.
-/
namespace Fp.SymTab
open Fp

/-- the table at `q` is the table at `p` or an ancestor of it -/
def OnPath (q p : Path) : Prop := q.1 = p.1 ∧ q.2 <+: p.2

instance (q p : Path) : Decidable (OnPath q p) := by unfold OnPath; infer_instance

/-! ## lookup_parents_only -/

/-- Replacing the whole subtree at `q` (its data, its children, anything) by an arbitrary
    other one leaves the chain of tables seen from `p` unchanged, unless `q` is `p` itself or
    an ancestor of `p`.  `q` ranges over siblings, cousins, other top-level trees AND inner
    scopes of `p`. -/
theorem chain_updTable_off (s : Tables) (p q : Path) (f : Table → Table) (h : ¬ OnPath q p) :
    (s.updTable q f).chain p = s.chain p := by
  unfold Tables.updTable Tables.chain
  cases hq : dGet s.tops q.1 with
  | none => rfl
  | some t =>
    by_cases h1 : q.1 = p.1
    · have h2 : ¬ q.2 <+: p.2 := fun hp => h ⟨h1, hp⟩
      simp only []
      rw [← h1, dGet_dSet_same, hq]
      simp [chainFrom_updAt_off f p.2 q.2 t h2]
    · simp only []
      rw [dGet_dSet_ne _ _ _ _ h1]

/-- **lookup_parents_only** (C16).  `table.lookup(name)` in the scope at `p` depends only on
    the tables on the path from `p` to its root: any change whatsoever to a table that is not
    on that path (a sibling scope, an inner scope, another program unit) — including changes
    to that table's own sub-scopes — leaves the result unchanged.  Same for
    `wildcard_imports` and `all_symbols_resolved`. -/
theorem lookup_parents_only (s : Tables) (p q : Path) (f : Table → Table) (h : ¬ OnPath q p)
    (name : Str) :
    (s.updTable q f).lookupAt p name = s.lookupAt p name
    ∧ (s.updTable q f).wildcardImportsAt p = s.wildcardImportsAt p
    ∧ (s.updTable q f).allResolvedAt p = s.allResolvedAt p := by
  simp [Tables.lookupAt, Tables.wildcardImportsAt, Tables.allResolvedAt, chain_updTable_off s p q f h]

/-- Opening new scopes anywhere (children appended to ANY table, even one on the path) does
    not change what an existing scope sees. -/
theorem chain_append_children (s : Tables) (p q : Path) (extra : List Table) (c : List Local)
    (h : s.chain p = some c) :
    (s.updTable q (fun t => .mk t.loc (t.children ++ extra))).chain p = some c := by
  unfold Tables.updTable
  unfold Tables.chain at h
  cases hq : dGet s.tops q.1 with
  | none => simpa [Tables.chain] using h
  | some t =>
    by_cases h1 : q.1 = p.1
    · unfold Tables.chain
      simp only []
      rw [← h1, dGet_dSet_same]
      rw [← h1, hq] at h
      simp only [Option.map_eq_some_iff] at h ⊢
      obtain ⟨c0, hc0, rfl⟩ := h
      exact ⟨c0, chainFrom_updAt_append extra p.2 q.2 t c0 hc0, rfl⟩
    · unfold Tables.chain
      simp only []
      rw [dGet_dSet_ne _ _ _ _ h1]
      exact h

/-- `enter_scope` (at whatever the current scope is) does not change what any existing
    scope sees: a declaration context opened later, in a sibling or an inner position, has no
    effect on lookups from `p`. -/
theorem enterScope_preserves_chain (s : Tables) (p : Path) (n : Str) (sub : Bool)
    (c : List Local) (h : s.chain p = some c) : (s.enterScope n sub).chain p = some c := by
  unfold Tables.enterScope
  cases hc : s.cur with
  | none =>
    simp only []
    by_cases hh : dHas s.tops (lower n) = true
    · simpa [hh, Tables.chain] using h
    · simp only [hh]
      unfold Tables.chain at h ⊢
      by_cases h1 : lower n = p.1
      · have : dGet s.tops p.1 = none := by
          rw [← h1]; unfold dHas at hh; cases hd : dGet s.tops (lower n) <;> simp_all
        simp [this] at h
      · simp only [Bool.false_eq_true, ↓reduceIte]
        rw [dGet_dSet_ne _ _ _ _ h1]; exact h
  | some cp =>
    simp only []
    cases ht : s.tableAt cp with
    | none => simpa using h
    | some t =>
      simp only []
      have := chain_append_children s p cp [Table.leaf (lower n) s.checks sub] c h
      simpa [Tables.chain, Tables.updTable] using this

/-! ## the intrinsic decision -/

/-- the arity test of `Intrinsic_Function_Reference.match`, as a predicate -/
def ArgsInRange (mn : Nat) (mx : Option Nat) (k : Nat) : Prop :=
  match mx with
  | none => mn ≤ k
  | some mx => (mn = mx → k = mn) ∧ (mn < mx → mn ≤ k ∧ k ≤ mx)

theorem argsVerdict_isIntrinsic_iff (mn : Nat) (mx : Option Nat) (k : Nat) (u : Bool) :
    argsVerdict mn mx k u = .isIntrinsic ↔ ArgsInRange mn mx k := by
  unfold argsVerdict ArgsInRange
  cases mx with
  | none => by_cases h : k < mn <;> cases u <;> simp [h] <;> omega
  | some mx =>
    by_cases h1 : mn = mx
    · subst h1
      by_cases h2 : k = mn <;> cases u <;> simp [h2]
    · by_cases h3 : mn < mx
      · by_cases h4 : k < mn
        · cases u <;> simp [h1, h3, h4] <;> omega
        · by_cases h5 : k > mx
          · cases u <;> simp [h1, h3, h4, h5] <;> omega
          · simp [h1, h3, h4, h5]; omega
      · simp [h1, h3]

/-- the name is visible (declared, or imported by name) from the scope whose chain is `ch` -/
def Shadowed (ch : Option (List Local)) (fname : Str) : Prop :=
  ∃ c, ch = some c ∧ (lookupChain c (lower (upper fname))).isSome = true

/-- the `(min, max)` entry the arity test uses for `fname` -/
def arityEntry (it : IntrTable) (fname : Str) : Option (Nat × Option Nat) :=
  dGet it.generic (match dGet it.specific (upper fname) with
    | some g => g
    | none => upper fname)

/-- **intrinsic_iff_not_shadowed** (C16).  `name(args)` becomes an
    `Intrinsic_Function_Reference` iff the (upper-cased) name is in the intrinsic table, the
    name is NOT found by the symbol-table lookup through the scopes visible from the current
    scope (`ch = none`: no current scope), and the number of arguments is in the range of
    the table.  (When the count is out of range the match is refused silently if some
    wildcard import / submodule could bring the name in, and is an `InternalSyntaxError`
    otherwise — see `intrinsic_syntaxError_iff`.) -/
theorem intrinsic_iff_not_shadowed (it : IntrTable) (ch : Option (List Local)) (fname : Str)
    (k : Nat) :
    intrinsicDecision it ch fname k = .isIntrinsic ↔
      (upper fname ∈ it.names ∧ ¬ Shadowed ch fname ∧
        ∃ mn mx, arityEntry it fname = some (mn, mx) ∧ ArgsInRange mn mx k) := by
  unfold intrinsicDecision Shadowed arityEntry
  by_cases hn : it.names.contains (upper fname) = true
  · have hn' : upper fname ∈ it.names := by simpa using hn
    cases ch with
    | none =>
      simp only [hn, Bool.not_true, Bool.false_eq_true, ↓reduceIte]
      cases hg : dGet it.generic (match dGet it.specific (upper fname) with
          | some g => g | none => upper fname) with
      | none => simp [hn']
      | some e =>
        obtain ⟨mn, mx⟩ := e
        simp only [hn', argsVerdict_isIntrinsic_iff, true_and]
        constructor
        · intro h; exact ⟨by simp, mn, mx, rfl, h⟩
        · rintro ⟨_, mn', mx', heq, h⟩
          simp only [Option.some.injEq, Prod.mk.injEq] at heq
          obtain ⟨rfl, rfl⟩ := heq; exact h
    | some c =>
      simp only [hn, Bool.not_true, Bool.false_eq_true, ↓reduceIte]
      by_cases hs : (lookupChain c (lower (upper fname))).isSome = true
      · simp [hs]
      · simp only [hs, Bool.false_eq_true, ↓reduceIte]
        cases hg : dGet it.generic (match dGet it.specific (upper fname) with
            | some g => g | none => upper fname) with
        | none => simp [hn']
        | some e =>
          obtain ⟨mn, mx⟩ := e
          simp only [hn', argsVerdict_isIntrinsic_iff, true_and]
          constructor
          · intro h
            refine ⟨?_, mn, mx, rfl, h⟩
            rintro ⟨c', hc', hs'⟩
            simp only [Option.some.injEq] at hc'; subst hc'; exact hs hs'
          · rintro ⟨_, mn', mx', heq, h⟩
            simp only [Option.some.injEq, Prod.mk.injEq] at heq
            obtain ⟨rfl, rfl⟩ := heq; exact h
  · have hn' : ¬ upper fname ∈ it.names := by simpa using hn
    simp [hn, hn']

/-- a shadowed name is never an intrinsic reference and never an error -/
theorem intrinsic_shadowed_noMatch (it : IntrTable) (c : List Local) (fname : Str) (k : Nat)
    (h : (lookupChain c (lower (upper fname))).isSome = true) :
    intrinsicDecision it (some c) fname k = .noMatch := by
  unfold intrinsicDecision
  by_cases hn : it.names.contains (upper fname) = true <;> simp [hn, h]

/-- The decision in the scope at `p` depends only on the tables on the path from `p` to its
    root (C16: "a declaration in a sibling or inner scope has no effect"). -/
theorem intrinsic_parents_only (s : Tables) (it : IntrTable) (p q : Path) (f : Table → Table)
    (h : ¬ OnPath q p) (fname : Str) (k : Nat) :
    intrinsicDecision it ((s.updTable q f).chain p) fname k
      = intrinsicDecision it (s.chain p) fname k := by
  rw [chain_updTable_off s p q f h]

/-! ## enter / exit / remove / clear -/

theorem remove_via_current (s : Tables) (p : Path) (t : Table) (cs : List Table) (n : Str)
    (hc : s.cur = some p) (ht : s.tableAt p = some t)
    (hdel : delFirst (lower n) t.children = some cs) :
    s.remove n = .ok (s.updTable p (fun t => .mk t.loc cs)) := by
  unfold Tables.remove
  simp [hc, ht, hdel]

/-- **enter_exit_balanced** (C09/C16), nested case: `enter_scope(n)` followed by
    `exit_scope()` restores the current scope, and the forest gains exactly one empty child
    table `n` (lower-cased), appended to the children of the current scope. -/
theorem enter_exit_balanced (s : Tables) (p : Path) (t : Table) (n : Str) (sub : Bool)
    (hc : s.cur = some p) (ht : s.tableAt p = some t) :
    (s.enterScope n sub).exitScope
      = .ok (s.updTable p (fun t => .mk t.loc (t.children ++ [Table.leaf (lower n) s.checks sub]))) := by
  obtain ⟨top, rel⟩ := p
  unfold Tables.enterScope
  simp only [hc, ht]
  unfold Tables.exitScope
  simp only []
  have hne : rel ++ [t.children.length] ≠ [] := by simp
  cases hr : rel ++ [t.children.length] with
  | nil => exact absurd hr hne
  | cons a as =>
    simp only []
    rw [← hr, List.dropLast_concat]
    unfold Tables.updTable
    unfold Tables.tableAt at ht
    cases hd : dGet s.tops top with
    | none => simp [hd] at ht
    | some tt => simp [hc]

/-- top-level case: with no current scope, `enter_scope(n); exit_scope()` leaves no current
    scope; the forest gains a new empty top-level table `n` unless one of that name exists
    already, in which case it is re-used and the forest is unchanged. -/
theorem enter_exit_balanced_top (s : Tables) (n : Str) (sub : Bool) (hc : s.cur = none) :
    (s.enterScope n sub).exitScope
      = .ok (if dHas s.tops (lower n) then s
             else { s with tops := dSet s.tops (lower n) (Table.leaf (lower n) s.checks sub) }) := by
  unfold Tables.enterScope
  simp only [hc]
  by_cases hh : dHas s.tops (lower n) = true
  · simp only [hh, ↓reduceIte]
    unfold Tables.exitScope
    cases s; simp_all
  · simp only [hh, Bool.false_eq_true, ↓reduceIte]
    unfold Tables.exitScope
    cases s; simp_all

/-- **remove_after_enter_exit_restores** (C09), nested case: `enter_scope(n); exit_scope();
    remove(n)` gives back exactly the original state, PROVIDED no earlier child of the
    current scope is already named `n` (`del_child` removes the first child of that name). -/
theorem remove_after_enter_exit_restores (s : Tables) (p : Path) (t : Table) (n : Str) (sub : Bool)
    (hc : s.cur = some p) (ht : s.tableAt p = some t)
    (hfresh : ∀ c ∈ t.children, c.name ≠ lower n) :
    ((s.enterScope n sub).exitScope >>= fun s' => s'.remove n) = .ok s := by
  rw [enter_exit_balanced s p t n sub hc ht]
  show Tables.remove _ n = .ok s
  obtain ⟨top, rel⟩ := p
  have ht0 := ht
  unfold Tables.tableAt at ht
  cases hd : dGet s.tops top with
  | none => simp [hd] at ht
  | some tt =>
    simp only [hd] at ht
    have hcur : (s.updTable (top, rel) (fun t => .mk t.loc (t.children ++ [Table.leaf (lower n) s.checks sub]))).cur
        = some (top, rel) := by simp [Tables.updTable, hd, hc]
    have htab : (s.updTable (top, rel) (fun t => .mk t.loc (t.children ++ [Table.leaf (lower n) s.checks sub]))).tableAt (top, rel)
        = some (.mk t.loc (t.children ++ [Table.leaf (lower n) s.checks sub])) := by
      simp [Tables.updTable, hd, Tables.tableAt, dGet_dSet_same, getAt_updAt_same, ht]
    have hdel : delFirst (lower n) (Table.mk t.loc (t.children ++ [Table.leaf (lower n) s.checks sub])).children
        = some t.children := by
      show delFirst (lower n) (t.children ++ [Table.leaf (lower n) s.checks sub]) = some t.children
      exact delFirst_append_new (lower n) t.children _ (by simp [Table.leaf, Table.name, Table.loc]) hfresh
    rw [remove_via_current _ _ _ _ _ hcur htab hdel]
    congr 1
    unfold Tables.updTable
    simp only [hd, dGet_dSet_same, dSet_dSet, updAt_updAt]
    have hid : updAt ((fun u => Table.mk u.loc t.children) ∘
        fun t => Table.mk t.loc (t.children ++ [Table.leaf (lower n) s.checks sub])) rel tt = tt := by
      apply updAt_id_of _ rel tt t ht
      simp [Function.comp, Table.loc, Table.eta]
      cases t; rfl
    rw [hid, dSet_of_dGet _ _ _ hd]

/-- What happens otherwise: `del_child` removes the FIRST child of that name.  Scope `a`
    already has a child `b` holding symbol `x`; a second `b` is entered, left and removed:
    the OLD table `b` (with `x`) is the one that disappears, the new empty one stays. -/
def witnessStart : Tables :=
  ((((({} : Tables).enterScope "a".toList).enterScope "b".toList).updTable ("a".toList, [0])
      (fun t => .mk { t.loc with syms := [("x".toList, ⟨"x".toList, "integer".toList⟩)] } t.children)).exitScope).toOption.getD {}

theorem remove_first_sibling_witness :
    -- before: the first child `b` of `a` knows `x`
    (witnessStart.lookupAt ("a".toList, [0]) "x".toList).toOption = some ⟨"x".toList, "integer".toList⟩
    ∧ (witnessStart.tableAt ("a".toList, [])).map (fun t => t.children.length) = some 1
    -- after enter b; exit; remove b: one child `b` is left, and it is the NEW, empty one
    ∧ (((witnessStart.enterScope "b".toList).exitScope >>= fun s => s.remove "b".toList).toOption.map
        fun s => ((s.tableAt ("a".toList, [])).map (fun t => t.children.map (fun c => (c.name, c.loc.syms.length))),
                  (s.lookupAt ("a".toList, [0]) "x".toList).toOption))
      = some (some [("b".toList, 0)], none) := by
  decide

/-- top-level counterpart: `enter_scope(n)` with no current scope RE-USES an existing
    top-level table `n`; `exit_scope(); remove(n)` then deletes that pre-existing table. -/
theorem remove_reused_toplevel_witness :
    let s0 : Tables := ((({} : Tables).enterScope "m".toList).exitScope).toOption.getD {}
    (s0.tops.map (·.1) = ["m".toList])
    ∧ (((s0.enterScope "M".toList).exitScope >>= fun s => s.remove "m".toList).toOption.map
        fun s => s.tops.map (·.1)) = some [] := by
  decide

/-- **clear_resets** (C09): after `clear()` there is no table and no current scope, whatever
    happened before; `_enable_checks` is the one field that survives. -/
theorem clear_resets (s : Tables) :
    s.clear.tops = [] ∧ s.clear.cur = none ∧ s.clear.checks = s.checks
    ∧ (∀ p, s.clear.chain p = none) ∧ (∀ p, s.clear.tableAt p = none) := by
  refine ⟨rfl, rfl, rfl, ?_, ?_⟩
  · intro p; simp [Tables.clear, Tables.chain, dGet]
  · intro p; simp [Tables.clear, Tables.tableAt, dGet]

/-! ## non-vacuity -/

/-- a forest with a sibling and an inner scope: module `m` { sub `s1` { block `b` }, sub `s2` } -/
def demo : Tables :=
  let s := (((({} : Tables).enterScope "m".toList).enterScope "s1".toList).enterScope "b".toList)
  let s := ((s.exitScope.toOption.getD {}).exitScope).toOption.getD {}
  s.enterScope "s2".toList

/-- hypotheses of `lookup_parents_only` are satisfiable with a visible effect: declaring
    `sin` in the SIBLING `s2` (path m/1) or in the INNER block (m/0/0) is not seen from `s1`
    (m/0), while declaring it in `m` (on the path) is. -/
example :
    ¬ OnPath ("m".toList, [1]) ("m".toList, [0]) ∧ ¬ OnPath ("m".toList, [0, 0]) ("m".toList, [0])
    ∧ OnPath ("m".toList, []) ("m".toList, [0])
    ∧ (let decl := fun (t : Table) => Table.mk { t.loc with syms := [("sin".toList, ⟨"sin".toList, "real".toList⟩)] } t.children
       ((demo.updTable ("m".toList, [1]) decl).lookupAt ("m".toList, [0]) "SIN".toList).toOption = none
       ∧ ((demo.updTable ("m".toList, [0, 0]) decl).lookupAt ("m".toList, [0]) "SIN".toList).toOption = none
       ∧ ((demo.updTable ("m".toList, []) decl).lookupAt ("m".toList, [0]) "SIN".toList).toOption
           = some ⟨"sin".toList, "real".toList⟩) := by
  decide

/-- `enter_exit_balanced` / `remove_after_enter_exit_restores` hypotheses hold on `demo` -/
example : demo.cur = some ("m".toList, [1]) ∧ (demo.tableAt ("m".toList, [1])).isSome = true
    ∧ (∀ c ∈ ((demo.tableAt ("m".toList, [1])).map Table.children).getD [], c.name ≠ lower "Blk".toList) := by
  decide

/-- the intrinsic decision on a small table: `sin(x)` in a scope that declares `sin`, in a
    sibling that does not, with a wrong argument count, and with a wildcard import -/
example :
    let it : IntrTable := ⟨["SIN".toList, "MAX".toList], [("SIN".toList, 1, some 1), ("MAX".toList, 2, none)], []⟩
    let shadow : Local := { name := "s".toList, syms := [("sin".toList, ⟨"sin".toList, "real".toList⟩)] }
    let plain : Local := { name := "t".toList }
    let wild : Local := { name := "w".toList, mods := [("m".toList, ModUse.new "m".toList none none)] }
    intrinsicDecision it (some [shadow]) "sin".toList 1 = .noMatch
    ∧ intrinsicDecision it (some [plain]) "Sin".toList 1 = .isIntrinsic
    ∧ intrinsicDecision it none "sin".toList 1 = .isIntrinsic
    ∧ intrinsicDecision it (some [plain]) "sin".toList 2 = .syntaxError
    ∧ intrinsicDecision it (some [plain, wild]) "sin".toList 2 = .noMatch
    ∧ intrinsicDecision it (some [plain]) "max".toList 5 = .isIntrinsic
    ∧ intrinsicDecision it (some [plain]) "foo".toList 1 = .noMatch := by
  decide

end Fp.SymTab
