import FparserModel.Proofs.SplitlineSrm2P1
/-!
* the string entries of the map survive phases 2, 3 and the un-nesting loop;
* the round trip for lines on which phases 2 and 3 have nothing to replace.
-/
namespace Fp.Splitline
open Fp

/-- the line as `splitquote(line, lower=lower)` hands it to `string_replace_map`: text outside
    character literals folded to lower case when `lower`, the literals untouched -/
def foldOutsideLiterals (lower : Bool) (l : Str) : Str := segsJoin (splitquote l none lower).1

/-- the text after the first loop (input of the exponent-constant scan) -/
def phase1Text (d : Discipline) (l : Str) (lower : Bool) : Str :=
  (phase1 d {} (splitquote l none lower).1).2

/-! ## string entries survive -/

theorem set_pres (m : Map) (k x k0 : Str) (h0 : k0.head? = some '_') (hk : k.head? = some 'F') :
    (Map.set m k x).get? k0 = m.get? k0 := by
  apply Map.get?_set_ne
  intro h; subst h; rw [h0] at hk; cases hk

def HeadF (ks : List Str) : Prop := ∀ k ∈ ks, k.head? = some 'F'

theorem HeadF_snoc {ks : List Str} {k : Str} (h : HeadF ks) (hk : k.head? = some 'F') :
    HeadF (ks ++ [k]) := by
  intro x hx
  rcases List.mem_append.mp hx with hx | hx
  · exact h x hx
  · simp at hx; subst hx; exact hk

theorem phase2Step_pres (acc : SrmState × Str) (found k0 : Str) (h0 : k0.head? = some '_')
    (hk : HeadF acc.1.constKeys) :
    (phase2Step acc found).1.map.get? k0 = acc.1.map.get? k0 ∧
    HeadF (phase2Step acc found).1.constKeys ∧
    (phase2Step acc found).1.exprKeys = acc.1.exprKeys := by
  unfold phase2Step
  simp only
  split
  · exact ⟨rfl, hk, rfl⟩
  · exact ⟨set_pres _ _ _ _ h0 (realKey_head _), HeadF_snoc hk (realKey_head _), rfl⟩

theorem foldl_phase2Step_pres (k0 : Str) (h0 : k0.head? = some '_') :
    ∀ (fs : List Str) (acc : SrmState × Str), HeadF acc.1.constKeys →
      (fs.foldl phase2Step acc).1.map.get? k0 = acc.1.map.get? k0 ∧
      HeadF (fs.foldl phase2Step acc).1.constKeys ∧
      (fs.foldl phase2Step acc).1.exprKeys = acc.1.exprKeys
  | [], _, hk => ⟨rfl, hk, rfl⟩
  | f :: fs, acc, hk => by
    obtain ⟨a, b, c⟩ := phase2Step_pres acc f k0 h0 hk
    obtain ⟨a', b', c'⟩ := foldl_phase2Step_pres k0 h0 fs _ b
    exact ⟨a'.trans a, b', c'.trans c⟩

theorem phase3Step_pres (d : Discipline) (st : SrmState) (it : PItem) (k0 : Str)
    (h0 : k0.head? = some '_') (hk : HeadF st.exprKeys) :
    (phase3Step d st it).1.map.get? k0 = st.map.get? k0 ∧
    HeadF (phase3Step d st it).1.exprKeys ∧
    (phase3Step d st it).1.constKeys = st.constKeys := by
  cases it with
  | plain s => exact ⟨rfl, hk, rfl⟩
  | paren s =>
    unfold phase3Step
    simp only
    split
    · split
      · exact ⟨rfl, hk, rfl⟩
      · exact ⟨set_pres _ _ _ _ h0 (exprKey_head _), HeadF_snoc hk (exprKey_head _), rfl⟩
    · exact ⟨rfl, hk, rfl⟩

theorem phase3_cons (d : Discipline) (st : SrmState) (it : PItem) (items : List PItem) :
    phase3 d st (it :: items) =
      ((phase3 d (phase3Step d st it).1 items).1,
        (phase3Step d st it).2 ++ (phase3 d (phase3Step d st it).1 items).2) := rfl

theorem phase3_pres (d : Discipline) (k0 : Str) (h0 : k0.head? = some '_') :
    ∀ (items : List PItem) (st : SrmState), HeadF st.exprKeys →
      (phase3 d st items).1.map.get? k0 = st.map.get? k0 ∧
      HeadF (phase3 d st items).1.exprKeys ∧
      (phase3 d st items).1.constKeys = st.constKeys
  | [], _, hk => ⟨rfl, hk, rfl⟩
  | it :: items, st, hk => by
    obtain ⟨a, b, c⟩ := phase3Step_pres d st it k0 h0 hk
    obtain ⟨a', b', c'⟩ := phase3_pres d k0 h0 items _ b
    rw [phase3_cons]
    exact ⟨a'.trans a, b', c'.trans c⟩

theorem unnest_pres (d : Discipline) (k0 : Str) (h0 : k0.head? = some '_') :
    ∀ (keys : List Str) (m m' : Map), HeadF keys → unnest d m keys = some m' →
      m'.get? k0 = m.get? k0
  | [], m, m', _, h => by simp [unnest] at h; subst h; rfl
  | key :: keys, m, m', hk, h => by
    have hk' : HeadF keys := fun x hx => hk x (by simp [hx])
    unfold unnest at h
    split at h
    · cases h
    · simp only at h
      split at h
      · exact unnest_pres d k0 h0 keys m m' hk' h
      · split at h
        · cases h
        · have := unnest_pres d k0 h0 keys _ m' hk' h
          rw [this]
          exact set_pres _ _ _ _ h0 (hk key (by simp))

/-- unfolding of `stringReplaceMapWith` -/
theorem srm_unfold (d : Discipline) (l : Str) (lower : Bool) (r : SrmResult)
    (h : stringReplaceMapWith d l lower = some r) :
    let r1 := phase1 d {} (splitquote l none lower).1
    let r2 := phase2 r1.1 r1.2
    let r3 := phase3 d r2.1 (splitparen r2.2)
    r.text = r3.2 ∧ unnest d r3.1.map (r3.1.exprKeys ++ r3.1.constKeys) = some r.map := by
  unfold stringReplaceMapWith at h
  simp only at h ⊢
  split at h
  · cases h
  · rename_i m hm
    cases h
    exact ⟨rfl, hm⟩

theorem quoted_fold_mem (segs : List Seg) (s : Str) :
    Seg.quoted s ∈ segs.map Seg.fold ↔ Seg.quoted s ∈ segs := by
  induction segs with
  | nil => simp
  | cons a segs ih =>
    cases a with
    | plain p => simp [Seg.fold, ih]
    | quoted q => simp [Seg.fold, ih]

theorem quoted_lower_mem (l : Str) (lower : Bool) (s : Str) :
    Seg.quoted s ∈ (splitquote l none lower).1 ↔ Seg.quoted s ∈ (splitquote l none false).1 := by
  cases lower with
  | false => rfl
  | true => rw [splitquote_lower]; exact quoted_fold_mem _ s

/-- every non-`\w*` literal interior is a value of the FINAL map, under a string key -/
theorem srm_literals_in_map' (d : Discipline) (hd : d.lookupTrimmed = true) (l : Str)
    (lower : Bool) (r : SrmResult) (h : stringReplaceMapWith d l lower = some r)
    (s : Str) (hs : Seg.quoted s ∈ (splitquote l none false).1)
    (hns : isSimple (interior s) = false) :
    ∃ n, r.map.get? (strKey n) = some (interior s) := by
  obtain ⟨_, hun⟩ := srm_unfold d l lower r h
  -- phase 1 (no F-freeness needed here: re-prove the literal part directly)
  have key : ∀ (segs : List Seg) (st : SrmState), P1Inv st → Seg.quoted s ∈ segs →
      ∃ n, (phase1 d st segs).1.map.get? (strKey n) = some (interior s) ∧
        SameAux st (phase1 d st segs).1 := by
    intro segs
    induction segs with
    | nil => intro st _ h; simp at h
    | cons seg segs ih =>
      intro st inv hmem
      obtain ⟨inv1, ext1, aux1, hstep⟩ := phase1Step_spec d hd st seg inv
      rw [phase1_cons]
      simp only
      -- extension of the map by the remaining iterations
      have hrest : MapExt (phase1Step d st seg).1.map (phase1 d (phase1Step d st seg).1 segs).1.map ∧
          SameAux (phase1Step d st seg).1 (phase1 d (phase1Step d st seg).1 segs).1 := by
        clear ih hmem hstep
        generalize (phase1Step d st seg).1 = st1 at inv1
        induction segs generalizing st1 with
        | nil => exact ⟨MapExt.refl _, SameAux.refl _⟩
        | cons x xs ih2 =>
          obtain ⟨i2, e2, a2, _⟩ := phase1Step_spec d hd st1 x inv1
          obtain ⟨e3, a3⟩ := ih2 _ i2
          rw [phase1_cons]
          exact ⟨e2.trans e3, a2.trans a3⟩
      rcases List.mem_cons.mp hmem with hm | hm
      · rcases hstep with ⟨_, hsim⟩ | ⟨s', j, hseg, _, _, hget⟩
        · have := hsim s hm.symm
          rw [this] at hns; cases hns
        · rw [← hm] at hseg; cases hseg
          exact ⟨j, hrest.1 _ _ hget, aux1.trans hrest.2⟩
      · obtain ⟨n, hn, ha⟩ := ih _ inv1 hm
        exact ⟨n, hn, aux1.trans ha⟩
  obtain ⟨n, hn, haux⟩ := key (splitquote l none lower).1 {} P1Inv_init
    ((quoted_lower_mem l lower s).mpr hs)
  refine ⟨n, ?_⟩
  generalize phase1 d {} (splitquote l none lower).1 = r1 at hn haux hun
  obtain ⟨_, _, _, hck, hek⟩ := haux
  have hc0 : HeadF r1.1.constKeys := by rw [hck]; intro k hk; simp at hk
  have he0 : HeadF r1.1.exprKeys := by rw [hek]; intro k hk; simp at hk
  obtain ⟨a2, b2, c2⟩ := foldl_phase2Step_pres (strKey n) (strKey_head n) (expConsts r1.2) (r1.1, r1.2) hc0
  have he2 : HeadF (phase2 r1.1 r1.2).1.exprKeys := by
    unfold phase2; rw [c2]; exact he0
  obtain ⟨a3, b3, c3⟩ := phase3_pres d (strKey n) (strKey_head n) (splitparen (phase2 r1.1 r1.2).2) _ he2
  have hkeys : HeadF ((phase3 d (phase2 r1.1 r1.2).1 (splitparen (phase2 r1.1 r1.2).2)).1.exprKeys ++
      (phase3 d (phase2 r1.1 r1.2).1 (splitparen (phase2 r1.1 r1.2).2)).1.constKeys) := by
    intro k hk
    rcases List.mem_append.mp hk with hk | hk
    · exact b3 k hk
    · rw [c3] at hk; exact b2 k hk
  rw [unnest_pres d (strKey n) (strKey_head n) _ _ _ hkeys hun, a3]
  unfold phase2
  rw [a2]; exact hn

/-! ## lines on which phases 2 and 3 replace nothing -/

theorem phase3_simple (d : Discipline) :
    ∀ (items : List PItem) (st : SrmState),
      (∀ s, PItem.paren s ∈ items → isSimple (strip (interior s)) = true) →
      phase3 d st items = (st, pjoin items)
  | [], st, _ => rfl
  | it :: items, st, h => by
    have hstep : phase3Step d st it = (st, it.str) := by
      cases it with
      | plain s => rfl
      | paren s =>
        have := h s (by simp)
        simp [phase3Step, this, PItem.str]
    rw [phase3_cons, hstep]
    simp only
    rw [phase3_simple d items st (fun s hs => h s (by simp [hs]))]
    simp

/-- **srm_roundtrip_flat**: lines without exponent constants whose groups are all `(\w*)`. -/
theorem srm_roundtrip_flat' (d : Discipline) (hd : d.lookupTrimmed = true) (l : Str) (lower : Bool)
    (hF : Free (foldOutsideLiterals lower l))
    (hE : expConsts (phase1Text d l lower) = [])
    (hP : ∀ s, PItem.paren s ∈ splitparen (phase1Text d l lower) →
      isSimple (strip (interior s)) = true) :
    ∃ r, stringReplaceMapWith d l lower = some r ∧
      applyMap r.map r.text = foldOutsideLiterals lower l := by
  obtain ⟨ts, h1, h2, h3', _, _, haux, _⟩ :=
    phase1_spec d hd (splitquote l none lower).1 {} P1Inv_init
  have h3 : WF (phase1 d {} (splitquote l none lower).1).1.map ts :=
    ⟨h3', by rw [h2]; exact hF⟩
  unfold phase1Text at hE hP
  unfold stringReplaceMapWith
  simp only
  generalize phase1 d {} (splitquote l none lower).1 = r1 at *
  have hp2 : phase2 r1.1 r1.2 = (r1.1, r1.2) := by
    unfold phase2; rw [hE]; rfl
  rw [hp2]
  simp only
  rw [phase3_simple d _ _ hP]
  simp only
  obtain ⟨_, _, _, hck, hek⟩ := haux
  rw [hck, hek]
  simp only [List.append_nil, unnest]
  refine ⟨_, rfl, ?_⟩
  simp only
  rw [splitparen_join', h1, applyMap_toks ts h3, h2]
  rfl

/-- **srm_strings_roundtrip**: the first loop alone (character literals) is undone by `applyMap`. -/
theorem srm_strings_roundtrip' (d : Discipline) (hd : d.lookupTrimmed = true) (l : Str) (lower : Bool)
    (hF : Free (foldOutsideLiterals lower l)) :
    applyMap (phase1 d {} (splitquote l none lower).1).1.map (phase1Text d l lower)
      = foldOutsideLiterals lower l := by
  obtain ⟨ts, h1, h2, h3', _⟩ :=
    phase1_spec d hd (splitquote l none lower).1 {} P1Inv_init
  have h3 : WF (phase1 d {} (splitquote l none lower).1).1.map ts :=
    ⟨h3', by rw [h2]; exact hF⟩
  unfold phase1Text
  rw [h1, applyMap_toks ts h3, h2]
  rfl

end Fp.Splitline
