import FparserModel.Proofs.Reader3IncChunks

/-!
# Reader3IncLine — one-line statements with quotes (the INCLUDE line itself) as chunks;
  chunk lists as `IncSrc`; put-back at the include boundary
-/
namespace Fp.Reader
open Fp

/-- `stmtChunk_ok` with the effect of `freeStep` as hypothesis instead of `CleanBody`: covers
    statements with character literals such as `include 'f.h'` (for a literal line the
    hypothesis is closed by `fun _ => rfl`). -/
theorem stmtChunk_ok_step (o : Bool) (l b1 : Str) (lab : Option Nat) (nam : Option Str)
    (hcpp : startsWith (lstrip (cook l)) ['#'] = false)
    (hom : o = true → (replaceSentinelFree (cook l)).2 = false)
    (hst : ∀ n, freeStep false (cook l) n none none none = ⟨lab, nam, ⟨b1, none, false, []⟩, b1, false⟩)
    (hne : strip b1 ≠ [])
    (hsemi : (stringReplaceMap (strip b1) true).1.contains ';' = false) :
    (stmtChunk l b1 lab nam).ok o where
  nonempty := by simp [stmtChunk]
  comments := fun _ x hx => by cases hx
  few := fun _ => by simp [stmtChunk]
  nosemi := fun _ text _ _ _ _ hv => by
    simp only [stmtChunk, Item.lineView, Option.some.injEq, Prod.mk.injEq] at hv
    rw [← hv.1]; exact hsemi
  first := fun _ => rfl
  last := fun _ => by simp [stmtChunk, Item.last]
  read := fun r rest h0 hfifo h1 h2 h3 hsrc => by
    rw [getSourceItem_plain_free r l rest h1 h2 h3 hsrc hcpp (fun h => hom (h0 ▸ h))]
    have hst' := hst (r.linecount + 1)
    rw [freeItem_single _ _ false _ (fun h => by cases h) (by rw [hst'])]
    rw [hst', afterChunk_eq]
    unfold singleOut
    simp only [hne, bne_iff_ne, ne_eq, not_false_eq_true, if_true, hfifo, List.append_nil,
      stmtChunk, List.length_cons, List.length_nil, List.map_cons, List.map_nil, List.reverse_cons,
      List.reverse_nil, List.nil_append, List.singleton_append]

/-- the chunk contract of `IncSrc.chunk` besides `ok`: no INCLUDE line, cores independent of the
    line number -/
structure Chunk.plain (c : Chunk) : Prop where
  noinc : ∀ lc, ∀ x ∈ c.item lc :: c.comments lc, NoInc x
  core : ∀ lc lc', (c.item lc').core = (c.item lc).core ∧
    (c.comments lc').map Item.core = (c.comments lc).map Item.core

/-- a list of plain chunks followed by an `IncSrc` tail -/
theorem IncSrc.prepend {fs : Fs} {ic : Bool} {dirs : List Str} {d : Nat} :
    ∀ (cs : List Chunk) (rest flat : List Str) (lc : Nat) (xs : List Item),
    (∀ c ∈ cs, c.ok false ∧ c.plain) →
    IncSrc fs ic dirs d rest flat (lc + totalLines cs) xs →
    IncSrc fs ic dirs d (srcOf cs ++ rest) (srcOf cs ++ flat) lc (chunkItems ic lc cs ++ xs)
  | [], rest, flat, lc, xs, _, h => by simpa [srcOf, chunkItems, totalLines] using h
  | c :: cs, rest, flat, lc, xs, hok, h => by
    have hc := hok c List.mem_cons_self
    have ih := IncSrc.prepend cs rest flat (lc + c.lines.length) xs
      (fun c' hc' => hok c' (List.mem_cons_of_mem _ hc'))
      (by simpa [totalLines, Nat.add_assoc] using h)
    have := IncSrc.chunk (fs := fs) (ic := ic) (dirs := dirs) d c _ _ lc _ hc.1 hc.2.noinc
      (fun lc' => hc.2.core lc lc') ih
    simpa [srcOf, chunkItems, List.append_assoc] using this

/-- a source without INCLUDE lines -/
theorem IncSrc.ofChunks {fs : Fs} {ic : Bool} {dirs : List Str} (d : Nat) (cs : List Chunk) (lc : Nat)
    (hok : ∀ c ∈ cs, c.ok false ∧ c.plain) :
    IncSrc fs ic dirs d (srcOf cs) (srcOf cs) lc (chunkItems ic lc cs) := by
  simpa using IncSrc.prepend (fs := fs) (ic := ic) (dirs := dirs) (d := d) cs [] [] lc [] hok
    (IncSrc.nil _ _)

theorem stmtChunk_plain (l b1 : Str) (lab : Option Nat) (nam : Option Str)
    (h : includeRe (strip b1) = none) : (stmtChunk l b1 lab nam).plain where
  noinc := fun lc x hx => by
    simp only [stmtChunk, List.mem_cons, List.not_mem_nil, or_false] at hx
    subst hx
    intro text l' n s e hv
    simp only [Item.lineView, Option.some.injEq, Prod.mk.injEq] at hv
    rw [← hv.1]; exact h
  core := fun _ _ => ⟨rfl, rfl⟩

theorem commentChunk_plain (l body : Str) : (commentChunk l body).plain where
  noinc := fun lc x hx => by
    simp only [commentChunk, List.mem_cons, List.not_mem_nil, or_false] at hx
    subst hx; exact NoInc.comment _ _ _ _
  core := fun _ _ => ⟨rfl, rfl⟩

theorem joinComments_core : ∀ (cs : List CLine) (n m : Nat),
    (joinComments n cs).map Item.core = (joinComments m cs).map Item.core
  | [], _, _ => rfl
  | .comment t :: cs, n, m => by
    simp only [joinComments, List.map_cons, Item.core, joinComments_core cs (n + 1) (m + 1)]
  | .blank :: cs, n, m => joinComments_core cs (n + 1) (m + 1)
  | .cont _ _ _ _ :: cs, n, m => joinComments_core cs (n + 1) (m + 1)

theorem contChunk_plain (l1 l2 : Str) (ls : List Str) (b1 : Str) (lab : Option Nat) (nam : Option Str)
    (c : CLine) (cs : List CLine) (h : includeRe (strip (b1 ++ joinPieces (c :: cs))) = none) :
    (contChunk l1 l2 ls b1 lab nam c cs).plain where
  noinc := fun lc x hx => by
    simp only [contChunk, List.mem_cons] at hx
    rcases hx with rfl | hx
    · intro text l' n s e hv
      simp only [Item.lineView, Option.some.injEq, Prod.mk.injEq] at hv
      rw [← hv.1]; exact h
    · have := joinComments_isComment (c :: cs) (lc + 2) x hx
      cases x <;> simp [Item.isComment] at this
      exact NoInc.comment _ _ _ _
  core := fun lc lc' => ⟨rfl, joinComments_core _ _ _⟩

/-! ### put-back at the include boundary -/

theorem putItem_cons (x : Item) (r : Rd) : ∀ st : List Rd, st ≠ [] → putItem x (r :: st) = r :: putItem x st
  | [], h => absurd rfl h
  | _ :: _, _ => rfl

theorem innermost_cons (r : Rd) : ∀ st : List Rd, st ≠ [] → innermost (r :: st) = innermost st
  | [], h => absurd rfl h
  | _ :: _, _ => rfl

end Fp.Reader
