import FparserModel.Proofs.Reader3FixIgn
import FparserModel.Proofs.Reader3FixOmpSrc
import FparserModel.Props.Reader

/-!
# Props/Reader3Fixed — reader model M-B, non-strict FIXED form (C05, C11, C12, C15)

What `get_source_item` really does in non-strict fixed form (deviations from the standard are
part of the statements and have witnesses at the end of the file):

* the initial line: label = `int(line[:5].strip())`, construct name from column 7 on, column 6 is
  dropped WHATEVER it contains, text = columns 7… with NO truncation at column 72;
* follow lines are consumed while the peeked line is a continuation line (`isFixCont`: more than
  5 characters, columns 1-5 five blanks, column 6 ANY non-blank — so `0` and `!` in column 6
  continue the statement) or a comment line (`isFixCommentS`: first character one of `*cC!`,
  empty line, or first non-blank `!` not in column 6);
* continuation lines contribute columns 7… verbatim; comment lines are queued as Comment items
  (whole line, own line number) — INCLUDING the comment lines after the last continuation line,
  while the span of the statement ends at the last continuation line;
* afterwards the next initial line has been peeked: it sits in `filo_line`;
* with `ignore_comments` the comment lines never leave `get_single_line`.
-/
namespace Fp.Reader
open Fp

/-! ## C05 / C12 — one statement -/

/-- C05/C12 `fixed_items`, ONE statement, ANY reader state (generic in the style of
    `cpp_line_item`): the first `get_single_line` returns an initial line `line` (not a `#` line,
    not a comment line, columns 1-5 blanks/digits) whose statement field `line'.drop 6` (columns 7…
    after the construct name) is clean (no `!`, no quote) and not blank; the following
    `get_single_line` calls return the follow lines `ls` (`ReadsAt`: each with `linecount` after
    it was read; `FollowOk`: comment line, or continuation line with clean columns 7…); the call
    after that returns `nxt` (no follow line, or end of source). Then `get_source_item` / `_next`
    return exactly ONE `Line`: text = `strip (columns 7… of the initial line ++ columns 7… of the
    continuation lines)`, label, name, span = (initial line, LAST CONTINUATION line); the comment
    lines — also those after the last continuation line — are queued in order with their own
    line numbers, and `nxt` is pushed back (`unread`). -/
theorem fixed_items (r0 r1 r_end r_fin : Rd) (line line' : Str) (lab : Option Nat)
    (nam : Option Str) (ls : List (Str × Nat)) (nxt : Option Str)
    (hg : getSingleLine r0 = (some line, r1)) (hfx : r1.isFree = false)
    (hcpp : startsWith (lstrip line) ['#'] = false) (hnc : isFixCommentS line = false)
    (hcol : colCheck line = .fine)
    (hlab : fixedLabel line = some lab) (hnam : fixedName line = (nam, line'))
    (hcl : fixClean (line'.drop 6) = true) (hne : strip (line'.drop 6) ≠ [])
    (hr : ReadsAt r1 ls r_end) (hok : FollowOk ls) (hn : getSingleLine r_end = (nxt, r_fin))
    (hstop : (isFixCont nxt || isFixComment nxt) = false) :
    getSourceItem r0 =
      (.ok (.line (strip (line'.drop 6 ++ fixPieces ls)) lab nam r1.linecount (fixEnd r1.linecount ls)),
       unread { r_fin with fifo := r1.fifo ++ fixComments ls } nxt) ∧
    (r0.fifo = [] →
     (stringReplaceMap (strip (line'.drop 6 ++ fixPieces ls)) true).1.contains ';' = false →
     next1 r0 =
      (.ok (.line (strip (line'.drop 6 ++ fixPieces ls)) lab nam r1.linecount (fixEnd r1.linecount ls)),
       unread { r_fin with fifo := r1.fifo ++ fixComments ls } nxt)) := by
  have h := getSourceItem_fixed r0 r1 r_end r_fin line line' lab nam ls nxt hg hfx hcpp hnc hcol hlab hnam
    hcl hne hr hok hn hstop
  refine ⟨h, fun hfifo hsemi => ?_⟩
  refine next1_of_getSourceItem r0 _ _ hfifo h (by simp [Item.isComment]) ?_
  intro text l nm s e hv
  simp only [Item.lineView, Option.some.injEq, Prod.mk.injEq] at hv
  rw [← hv.1]; exact hsemi

/-- C05/C12 `fixed_items` with the follow lines given as physical source lines and the explicit
    final state. `r0` is any reader whose next `get_single_line` returns the initial line and
    leaves a plain fixed-form reader `r1` (nothing pushed back, not closed, flag off) with source
    `ls ++ rest`: `r0` holds the initial line in `filo_line` (state after the previous statement) or
    pulls it from the source. `ls` = the follow lines (`followOk`), `rest` starts with something
    else (`stopsAt`). `srcPieces`/`srcEnd`/`srcComments`: columns 7… of the continuation lines,
    number of the last continuation line, the comment items (none with `ignore_comments`).
    `afterStmt`: `ls` consumed; at the end of the source the reader is closed, otherwise the next
    line has been peeked: `filo = [cook nx]`, recorded in `source_lines`, not counted in
    `linecount`. -/
theorem fixed_items_src (r0 r1 : Rd) (line line' : Str) (lab : Option Nat) (nam : Option Str)
    (ls rest : List Str)
    (hg : getSingleLine r0 = (some line, r1)) (hp : FixedPlain r1) (hsrc : r1.src = ls ++ rest)
    (hcpp : startsWith (lstrip line) ['#'] = false) (hnc : isFixCommentS line = false)
    (hcol : colCheck line = .fine)
    (hlab : fixedLabel line = some lab) (hnam : fixedName line = (nam, line'))
    (hcl : fixClean (line'.drop 6) = true) (hne : strip (line'.drop 6) ≠ [])
    (hfol : ∀ l ∈ ls, followOk l = true) (hnx : stopsAt rest = true) :
    getSourceItem r0 =
      (.ok (.line (strip (line'.drop 6 ++ srcPieces ls)) lab nam r1.linecount
              (srcEnd r1.linecount r1.linecount ls)),
       afterStmt r1 ls rest (r1.fifo ++ srcComments r1.ignoreComments r1.linecount ls)) :=
  getSourceItem_fixed_src r0 r1 line line' lab nam ls rest hg hp hsrc hcpp hnc hcol hlab hnam hcl hne hfol hnx

/-- the span of a fixed-form statement: starts at the initial line, ends at a line of the
    statement, at or after the initial line (the last continuation line) -/
theorem fixed_item_span (s : FStmt) (n : Nat) :
    (s.item n).first = n ∧ n ≤ (s.item n).last ∧ (s.item n).last ≤ n + s.follow.length :=
  s.item_span n

/-! ## C05 / C11 / C12 — a whole source -/

/-- C05/C11/C12 `fixed_items`, list level: a non-strict fixed-form source consisting of leading
    comment lines `pre` and the statements `s :: ss` (`FStmt`: initial line + follow lines;
    `FStmt.ok`: the hypotheses of `fixed_items_src`, no `;`, no INCLUDE) is drained to exactly
    `fixedItems`: the leading comments, then for every statement its ONE item followed by its
    queued comment lines, each once, in order, with its own line number; the reader ends closed,
    every line counted. With `ignore_comments` (second part) the same without the Comment items. -/
theorem fixed_items_drain (d : Nat) (fs : Fs) (pre : List Str) (s : FStmt) (ss : List FStmt) (r : Rd)
    (hp : FixedPlain r) (hfifo : r.fifo = [])
    (hpre : ∀ c ∈ pre, isFixCommentS (cook c) = true ∧ startsWith (lstrip (cook c)) ['#'] = false)
    (hok : ∀ t ∈ s :: ss, t.ok) (hsrc : r.src = pre ++ stmtSrc (s :: ss)) :
    Drains (d + 1) fs [r] (evItems (fixedItems r.ignoreComments r.linecount pre (s :: ss)))
      [finalFix r (pre ++ stmtSrc (s :: ss))] ∧
    fixedItems true r.linecount pre (s :: ss) =
      (fixedItems false r.linecount pre (s :: ss)).filter (fun x => !x.isComment) :=
  ⟨drains_fixed d fs pre s ss r hp hfifo hpre hok hsrc, fixedItems_ignore _ _ _⟩

/-- C12 `read_spans_ordered`, fixed form: the spans of the successive statements of a layout are
    strictly increasing and pairwise disjoint — although every statement also consumes the
    comment lines up to the next initial line, its span ends at its last continuation line. -/
theorem fixed_spans_ordered (ic : Bool) (ss : List FStmt) (n : Nat) :
    List.Pairwise (fun a b => a.last < b.first) ((stmtItems ic n ss).filter (fun x => !x.isComment)) :=
  stmtItems_spans_ordered ic ss n

/-! ## C15 — fixed form -/

/-- C15 `omp_fixed_disabled`: with `include_omp_conditional_lines = False` a fixed-form line
    beginning with `!$`, `c$`, `C$`, `*$` is a comment line: standing alone it is delivered as ONE
    Comment item holding the whole line (any reader state `r0` whose `get_single_line` returns
    it); after an initial line it is a follow line that is queued as a comment like any other
    (`followOk`, so `fixed_items_src` / `fixed_items_drain` apply to it). -/
theorem omp_fixed_disabled (a : Char) (x : Str) (ha : a = '!' ∨ a = '*' ∨ a = 'c' ∨ a = 'C') :
    (∀ r0 r1 : Rd, getSingleLine r0 = (some (a :: '$' :: x), r1) → r1.isFree = false →
      getSourceItem r0 = (.ok (.comment (a :: '$' :: x) r1.linecount r1.linecount false), r1)) ∧
    (∀ l : Str, cook l = a :: '$' :: x → followOk l = true ∧ isFixCommentS (cook l) = true) := by
  have hc : isFixCommentS (a :: '$' :: x) = true := by
    rcases ha with rfl | rfl | rfl | rfl <;> simp [isFixCommentS]
  refine ⟨fun r0 r1 hg hfx => ?_, fun l hl => ?_⟩
  · exact getSourceItem_fixed_comment r0 r1 _ hg hfx (fixComment_not_cpp _ hc (by simp)) hc
  · rw [hl]
    simp [followOk, isFollow, hl, hc]

/-- C15 `omp_fixed_enabled`, `pull` / `get_single_line` level, arbitrary sources: reading `src`
    with the flag on returns the same lines, counters and recorded `source_lines` as reading with
    the flag off a source `src'` whose lines cook to the blanked lines (`SrcSim`:
    `(replaceSentinelFixed (cook l)).1 = cook l'` line by line — the sentinel is replaced AFTER
    cooking, and `source_lines` records the already blanked line); the remaining sources stay
    related. -/
theorem omp_fixed_enabled_pull (sk : Bool) (src src' : List Str) (lc : Nat) (ls : List Str)
    (h : SrcSim src src') :
    (pull false sk src' lc ls).1 = (pull true sk src lc ls).1 ∧
    SrcSim (pull true sk src lc ls).2.1 (pull false sk src' lc ls).2.1 ∧
    (pull false sk src' lc ls).2.2 = (pull true sk src lc ls).2.2 :=
  pull_sim sk src src' lc ls h

/-- C15 `omp_fixed_enabled`: `OmpSim r r'` — `r` is a fixed-form reader with the flag ON, `r'` the
    same reader (any `filo`/`fifo`/counters) with the flag OFF and a `SrcSim`-related source. As
    long as the flag-off reader stays in fixed form, `get_single_line`, `get_source_item` and
    `_next` return the SAME result (item text, label, name, span; initial and continuation lines
    alike) and the final states are again related: they differ only in the flag and the unread
    source. (A line that switches the reader to free form ends the correspondence: free form has
    a different sentinel rule.) -/
theorem omp_fixed_enabled (r r' : Rd) (h : OmpSim r r') :
    ((getSingleLine r').1 = (getSingleLine r).1 ∧ OmpSim (getSingleLine r).2 (getSingleLine r').2) ∧
    ((getSourceItem r').2.isFree = false →
      (getSourceItem r').1 = (getSourceItem r).1 ∧ OmpSim (getSourceItem r).2 (getSourceItem r').2) ∧
    ((next1 r').2.isFree = false →
      (next1 r').1 = (next1 r).1 ∧ OmpSim (next1 r).2 (next1 r').2) :=
  ⟨getSingleLine_sim r r' h, getSourceItem_sim r r' h, next1_sim r r' h⟩

/-- C15 `omp_fixed_enabled` for EVERY source (no hypothesis on the text): `ompBlank l` is the
    cooked line `l` with a `!$`/`c$`/`C$`/`*$` sentinel blanked per the column-6 rule, and it is a
    fixed point of `cook`. A fixed-form reader with the flag ON behaves like the same reader with
    the flag OFF reading `src.map ompBlank`: same physical lines, and while the format stays
    fixed the same `_next` result with again related states. -/
theorem omp_fixed_enabled_any_source (r : Rd) (ho : r.omp = true) (hf : r.isFree = false) :
    (∀ l, cook (ompBlank l) = ompBlank l) ∧ OmpSim r (flagOff (r.src.map ompBlank) r) ∧
    (getSingleLine (flagOff (r.src.map ompBlank) r)).1 = (getSingleLine r).1 ∧
    ((next1 (flagOff (r.src.map ompBlank) r)).2.isFree = false →
      (next1 (flagOff (r.src.map ompBlank) r)).1 = (next1 r).1 ∧
      OmpSim (next1 r).2 (next1 (flagOff (r.src.map ompBlank) r)).2) :=
  ⟨cook_ompBlank, ompSim_blank r ho hf, (getSingleLine_sim r _ (ompSim_blank r ho hf)).1,
   next1_sim r _ (ompSim_blank r ho hf)⟩

/-- C15 `omp_fixed_enabled`, source level (corollary of `fixed_items_drain`): a fixed-form reader
    with the flag ON whose source blanks (`SrcSim`) to the layout `pre ++ stmtSrc (s :: ss)` is
    drained to exactly the items of that layout; the final state is the one of the flag-off
    reader with the flag on. -/
theorem omp_fixed_enabled_drain (d : Nat) (fs : Fs) (pre : List Str) (s : FStmt) (ss : List FStmt) (r : Rd)
    (h1 : r.filo = []) (h2 : r.closed = false) (h3 : r.isFree = false) (h4 : r.omp = true)
    (hfifo : r.fifo = [])
    (hpre : ∀ c ∈ pre, isFixCommentS (cook c) = true ∧ startsWith (lstrip (cook c)) ['#'] = false)
    (hok : ∀ t ∈ s :: ss, t.ok) (hsim : SrcSim r.src (pre ++ stmtSrc (s :: ss))) :
    Drains (d + 1) fs [r] (evItems (fixedItems r.ignoreComments r.linecount pre (s :: ss)))
      [{ finalFix (flagOff (pre ++ stmtSrc (s :: ss)) r) (pre ++ stmtSrc (s :: ss)) with omp := true }] :=
  drains_fixed_omp d fs pre s ss r h1 h2 h3 h4 hfifo hpre hok hsim

/-! ## non-vacuity -/

def fx (src : List String) (ic omp : Bool) : Rd := Rd.mk' (src.map String.toList) false ic omp false []

/-- `fixed_items` on a reader that holds the initial line in `filo_line` (the state after the
    first statement has been read): continuation mark `1`, trailing comment queued, end of source -/
def fxDemo : Rd := { (next1 (fx ["      x = 1", "      y = 2 +", "     1 3", "C done"] false false)).2 with fifo := [] }

example : fxDemo.filo = ["      y = 2 +".toList] ∧ fxDemo.src = ["     1 3".toList, "C done".toList] := by
  decide +kernel

example : next1 fxDemo =
    (.ok (.line "y = 2 + 3".toList none none 2 3),
     { fxDemo with filo := [], src := [], closed := true, linecount := 4,
                   linesRev := ["C done".toList, "     1 3".toList, "      y = 2 +".toList, "      x = 1".toList],
                   fifo := [.comment "C done".toList 4 4 false] }) := by
  have h := (fixed_items fxDemo (getSingleLine fxDemo).2
    (getSingleLine (getSingleLine (getSingleLine fxDemo).2).2).2
    (getSingleLine (getSingleLine (getSingleLine (getSingleLine fxDemo).2).2).2).2
    "      y = 2 +".toList "      y = 2 +".toList none none
    [("     1 3".toList, 3), ("C done".toList, 4)] none
    (by decide +kernel) (by decide +kernel) (by decide +kernel) (by decide +kernel) (by decide +kernel)
    (by decide +kernel) (by decide +kernel) (by decide +kernel) (by decide +kernel)
    (ReadsAt.cons (r1 := (getSingleLine (getSingleLine fxDemo).2).2) (by decide +kernel) (by decide +kernel)
      (ReadsAt.cons (r1 := (getSingleLine (getSingleLine (getSingleLine fxDemo).2).2).2)
        (by decide +kernel) (by decide +kernel) (ReadsAt.nil _)))
    (by unfold FollowOk; decide +kernel) (by decide +kernel) (by decide +kernel)).2
    (by decide +kernel) (by decide +kernel)
  rw [h]
  decide +kernel

/-- `fixed_items_src`: label, construct name, `0` as continuation mark, comment / blank lines
    between and AFTER the continuation lines, next initial line peeked -/
def fxSrc : List Str :=
  ["   10 nm: x = 1 +".toList, "     02 +".toList, "! note".toList, "".toList, "     & 3".toList,
   "c trailing".toList, "      y = 2".toList]

example : getSourceItem (Rd.mk' fxSrc false false false false []) =
    (.ok (.line "x = 1 +2 + 3".toList (some 10) (some "nm".toList) 1 5),
     { Rd.mk' fxSrc false false false false [] with
       src := [], filo := ["      y = 2".toList], linecount := 6, linesRev := fxSrc.reverse,
       fifo := [.comment "! note".toList 3 3 false, .comment [] 4 4 false,
                .comment "c trailing".toList 6 6 false] }) := by
  have h := fixed_items_src (Rd.mk' fxSrc false false false false [])
    (adv (Rd.mk' fxSrc false false false false []) ["   10 nm: x = 1 +".toList] (fxSrc.drop 1))
    "   10 nm: x = 1 +".toList "   10 x = 1 +".toList (some 10) (some "nm".toList)
    ((fxSrc.drop 1).take 5) ["      y = 2".toList]
    (by decide +kernel) ⟨rfl, rfl, rfl, rfl⟩ (by decide +kernel) (by decide +kernel) (by decide +kernel)
    (by decide +kernel) (by decide +kernel) (by decide +kernel) (by decide +kernel) (by decide +kernel)
    (by decide +kernel) (by decide +kernel)
  rw [h]
  decide +kernel

/-- a source for `fixed_items_drain`: two leading comment lines, three statements -/
def fxPre : List Str := ["C header".toList, "".toList]
def fxStmts : List FStmt :=
  [⟨"   10 nm: x = 1 +".toList, ["     02 +".toList, "! note".toList, "     & 3".toList, "c trailing".toList]⟩,
   ⟨"      y = 2".toList, []⟩,
   ⟨"      call f(a,".toList, ["*".toList, "     !  b)".toList]⟩]

theorem fxStmts_ok : ∀ t ∈ fxStmts, t.ok := by
  intro t ht
  simp only [fxStmts, List.mem_cons, List.not_mem_nil, or_false] at ht
  rcases ht with rfl | rfl | rfl <;>
    exact ⟨by decide +kernel, by decide +kernel, by decide +kernel, by decide +kernel, by decide +kernel,
      by decide +kernel, by decide +kernel, by decide +kernel, by decide +kernel⟩

example : fixedItems false 0 fxPre fxStmts =
    [.comment "C header".toList 1 1 false, .comment [] 2 2 false,
     .line "x = 1 +2 + 3".toList (some 10) (some "nm".toList) 3 6,
     .comment "! note".toList 5 5 false, .comment "c trailing".toList 7 7 false,
     .line "y = 2".toList none none 8 8,
     .line "call f(a,  b)".toList none none 9 11, .comment "*".toList 10 10 false] ∧
    fixedItems true 0 fxPre fxStmts =
    [.line "x = 1 +2 + 3".toList (some 10) (some "nm".toList) 3 6,
     .line "y = 2".toList none none 8 8, .line "call f(a,  b)".toList none none 9 11] := by
  constructor <;> decide +kernel

example (ic : Bool) : ∃ fin, Drains 1 [] [Rd.mk' (fxPre ++ stmtSrc fxStmts) false ic false false []]
    (evItems (fixedItems ic 0 fxPre fxStmts)) fin := by
  refine ⟨_, (fixed_items_drain 0 [] fxPre _ _ (Rd.mk' (fxPre ++ stmtSrc fxStmts) false ic false false [])
    ⟨rfl, rfl, rfl, rfl⟩ rfl (by decide +kernel) fxStmts_ok rfl).1⟩

/-- `omp_fixed_disabled` -/
example : getSourceItem (fx ["c$    x = 1", "      y = 2"] false false) =
    (.ok (.comment "c$    x = 1".toList 1 1 false), (getSingleLine (fx ["c$    x = 1", "      y = 2"] false false)).2) :=
  (omp_fixed_disabled 'c' "    x = 1".toList (by decide)).1 (fx ["c$    x = 1", "      y = 2"] false false)
    (getSingleLine (fx ["c$    x = 1", "      y = 2"] false false)).2 (by decide +kernel) (by decide +kernel)

/-- `omp_fixed_enabled`: sentinel on an initial line (label field kept) and on a continuation
    line; an `!$omp` directive and a sentinel with a bad column 6 stay comment lines -/
def ompSrc : List Str :=
  ["!$ 10 x = 1 +".toList, "c$   & 2".toList, "!$omp parallel".toList, "*$ 1 5 y".toList, "      z = 3".toList]
def ompSrc' : List Str :=
  ["   10 x = 1 +".toList, "     & 2".toList, "!$omp parallel".toList, "*$ 1 5 y".toList, "      z = 3".toList]

theorem ompSrc_sim : SrcSim ompSrc ompSrc' :=
  SrcSim.cons (by unfold Blanked; decide +kernel) (SrcSim.cons (by unfold Blanked; decide +kernel)
    (SrcSim.cons (by unfold Blanked; decide +kernel) (SrcSim.cons (by unfold Blanked; decide +kernel)
      (SrcSim.cons (by unfold Blanked; decide +kernel) SrcSim.nil))))

example : (next1 (Rd.mk' ompSrc false false true false [])).1 = .ok (.line "x = 1 + 2".toList (some 10) none 1 2) := by
  have h : OmpSim (Rd.mk' ompSrc false false true false []) (Rd.mk' ompSrc' false false false false []) :=
    ⟨ompSrc', ompSrc_sim, rfl, rfl, rfl⟩
  rw [← ((omp_fixed_enabled _ _ h).2.2 (by decide +kernel)).1]
  decide +kernel

/-- `omp_fixed_enabled_any_source`: the twin source is computed, not guessed -/
example : ompSrc.map ompBlank = ompSrc' := by decide +kernel

example : (next1 (Rd.mk' ompSrc false false true false [])).1 =
    (next1 (Rd.mk' (ompSrc.map ompBlank) false false false false [])).1 :=
  (((omp_fixed_enabled_any_source (Rd.mk' ompSrc false false true false []) rfl rfl).2.2.2)
    (by decide +kernel)).1.symm

def ompStmts : List FStmt :=
  [⟨"   10 x = 1 +".toList, ["     & 2".toList, "!$omp parallel".toList, "*$ 1 5 y".toList]⟩,
   ⟨"      z = 3".toList, []⟩]

example : ∃ fin, Drains 1 [] [Rd.mk' ompSrc false false true false []]
    (evItems [.line "x = 1 + 2".toList (some 10) none 1 2, .comment "!$omp parallel".toList 3 3 false,
              .comment "*$ 1 5 y".toList 4 4 false, .line "z = 3".toList none none 5 5]) fin := by
  have hok : ∀ t ∈ ompStmts, t.ok := by
    intro t ht
    simp only [ompStmts, List.mem_cons, List.not_mem_nil, or_false] at ht
    rcases ht with rfl | rfl <;>
      exact ⟨by decide +kernel, by decide +kernel, by decide +kernel, by decide +kernel, by decide +kernel,
        by decide +kernel, by decide +kernel, by decide +kernel, by decide +kernel⟩
  have := omp_fixed_enabled_drain 0 [] [] _ _ (Rd.mk' ompSrc false false true false []) rfl rfl rfl rfl rfl
    (fun c hc => by cases hc) hok ompSrc_sim
  have he : fixedItems false 0 [] ompStmts =
      [.line "x = 1 + 2".toList (some 10) none 1 2, .comment "!$omp parallel".toList 3 3 false,
       .comment "*$ 1 5 y".toList 4 4 false, .line "z = 3".toList none none 5 5] := by decide +kernel
  exact ⟨_, he ▸ this⟩

/-! ## witnesses of the deviations from the standard -/

/-- a `0` in column 6 is a continuation mark (the standard: `0` or blank = initial line) -/
theorem fixed_zero_col6_joins_witness :
    evTexts (drainEv 3 [] 10 (mkFixed ["      x = 1 +", "     0 2"])) = ["x = 1 + 2"] := by
  decide +kernel

/-- a `!` in column 6 after five blanks is a continuation mark, not a comment -/
theorem fixed_bang_col6_joins_witness :
    evTexts (drainEv 3 [] 10 (mkFixed ["      x = 1 +", "     ! 2"] false)) = ["x = 1 + 2"] := by
  decide +kernel

/-- column 6 of an INITIAL line is dropped whatever it contains -/
theorem fixed_initial_col6_dropped_witness :
    evTexts (drainEv 3 [] 10 (mkFixed ["     Xy = 1"])) = ["y = 1"] := by
  decide +kernel

/-- non-strict mode: no truncation at column 72, the text beyond it is kept (here: 80 columns) -/
theorem fixed_beyond_col72_kept_witness :
    evTexts (drainEv 3 [] 10 (mkFixed
      ["      x = 1111111111222222222233333333334444444444555555555566666666667777777777"])) =
      ["x = 1111111111222222222233333333334444444444555555555566666666667777777777"] := by
  decide +kernel

/-- the comment lines FOLLOWING the last continuation line are consumed with the statement (they
    are delivered before the next statement is read), while the span ends at the last
    continuation line -/
theorem fixed_trailing_comments_swallowed_witness :
    (drainEv 3 [] 10 (mkFixed ["      x = 1 +", "     & 2", "c trailing", "", "      y = 2"] false)).map (·.1) =
      some [.item (.line "x = 1 + 2".toList none none 1 2), .item (.comment "c trailing".toList 3 3 false),
            .item (.comment [] 4 4 false), .item (.line "y = 2".toList none none 5 5)] ∧
    ((getSourceItem (fx ["      x = 1 +", "     & 2", "c trailing", "", "      y = 2"] false false)).2.linecount = 4 ∧
     (getSourceItem (fx ["      x = 1 +", "     & 2", "c trailing", "", "      y = 2"] false false)).2.filo =
       ["      y = 2".toList]) := by
  decide +kernel

end Fp.Reader
