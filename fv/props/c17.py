"""C17 — the Fortran 2008 parser accepts everything the Fortran 2003 parser accepts."""
import random
from fv import real, gen, layout, treeutil, engine, findings
from fv.props import util
from fv.model import get_model
from fv import cosim_symtree as CS

RULE = ("(a) generated F2003 programs (incl. references to names of F2008-only intrinsics: erf, gamma, hypot, norm2, bessel_j0, "
        "shiftl, ...): parse08 accepts what parse03 accepts and str(parse08(P)) == str(parse03(P)) case-insensitively outside "
        "character literals, exactly when P uses no F2008-only intrinsic name; (b) one probe per F2008-only construct (submodule, "
        "CODIMENSION, BLOCK, CRITICAL, DO CONCURRENT, ERROR STOP, CONTIGUOUS, ALLOCATE MOLD=, OPEN NEWUNIT=) and generated F2008 "
        "programs using at least one: parse03 raises, parse08 succeeds; (c) registry model: setup(members std) over the generated "
        "class facts == the live Base.subclasses, create histories depend only on the last create. non-trivial = >= 10 statements")
ASSUMPTIONS = ["ordered choice is not monotone in its alternative lists: the theorems rule out dropped alternatives, the "
               "differential run covers the rest"]
TIE_MODULES = ["FparserModel.Registry", "FparserModel.Generated.Classes2003", "FparserModel.Generated.Classes2008", "FparserModel.Generated.Intrinsics", "FparserModel.Incl08", "FparserModel.Incl08Pins", "FparserModel.Generated.Incl08Tables", "FparserModel.Props.Incl08"]

# genuine references (correct argument counts) to intrinsics that exist only in F2008
F08_INTRINSICS = {"erf": ["x"], "gamma": ["x"], "hypot": ["x", ",", "y"], "norm2": ["arr"], "bessel_j0": ["x"],
                  "shiftl": ["k2", ",", "2"], "leadz": ["k2"], "popcnt": ["k2"], "storage_size": ["x"], "erfc": ["x"],
                  "log_gamma": ["x"], "merge_bits": ["k2", ",", "n", ",", "m"], "this_image": [], "num_images": []}
F08_PROBES = {
    "submodule": "submodule (parent_m) sm\ncontains\n  subroutine s\n  end subroutine s\nend submodule sm\n",
    "codimension": "program p\n  real, codimension[*] :: x\nend program p\n",
    "block": "program p\n  block\n    integer :: k\n    k = 1\n  end block\nend program p\n",
    "critical": "program p\n  critical\n    x = 1\n  end critical\nend program p\n",
    "do-concurrent": "program p\n  do concurrent (i = 1:n)\n    a(i) = 0\n  end do\nend program p\n",
    "error-stop": "program p\n  error stop 'bad'\nend program p\n",
    "contiguous": "subroutine s(a)\n  real, contiguous, pointer :: a(:)\nend subroutine s\n",
    "allocate-mold": "program p\n  allocate (a(10), mold = b)\nend program p\n",
    "open-newunit": "program p\n  open (newunit = lun, file = 'f.dat')\nend program p\n",
    # the same constructs in their other syntactic positions
    "contiguous-component": "module m\n  type t\n    real, pointer, contiguous :: v(:)\n  end type t\nend module m\n",
    "contiguous-component-first": "module m\n  type t\n    real, contiguous, pointer :: v(:)\n  end type t\nend module m\n",
    "contiguous-dummy": "subroutine s(a)\n  real, contiguous :: a(:)\nend subroutine s\n",
    "codimension-component-attr": "module m\n  type t\n    real, allocatable, codimension[:] :: c\n  end type t\nend module m\n",
    "codimension-alloc": "program p\n  real, allocatable, codimension[:] :: x\nend program p\n",
    "block-named": "program p\n  b1: block\n    integer :: k\n  end block b1\nend program p\n",
    "block-in-do": "program p\n  do i = 1, 2\n    block\n      k = i\n    end block\n  end do\nend program p\n",
    "block-in-if": "subroutine s\n  if (a) then\n    block\n      k = 1\n    end block\n  end if\nend subroutine s\n",
    "exit-block": "program p\n  b1: block\n    exit b1\n  end block b1\nend program p\n",
    "critical-named": "program p\n  c1: critical\n    x = 1\n  end critical c1\nend program p\n",
    "critical-in-do": "program p\n  do i = 1, 2\n    critical\n      x = 1\n    end critical\n  end do\nend program p\n",
    "do-concurrent-mask": "program p\n  do concurrent (i = 1:n, j = 1:m, a(i) > 0)\n    a(i) = 0\n  end do\nend program p\n",
    "do-concurrent-label": "program p\n  do 10 concurrent (i = 1:n)\n    a(i) = 0\n10 continue\nend program p\n",
    "do-concurrent-named": "program p\n  lp: do concurrent (i = 1:n)\n    a(i) = 0\n  end do lp\nend program p\n",
    "do-concurrent-comma": "program p\n  do, concurrent (i = 1:n)\n    a(i) = 0\n  end do\nend program p\n",
    "error-stop-int": "program p\n  error stop 3\nend program p\n",
    "error-stop-bare": "program p\n  error stop\nend program p\n",
    "error-stop-in-if": "program p\n  if (x > 0) error stop 'neg'\nend program p\n",
    "allocate-mold-only": "program p\n  allocate (a, mold = b)\nend program p\n",
    "allocate-mold-stat": "program p\n  allocate (a(10), stat = ierr, mold = b)\nend program p\n",
    "open-newunit-first": "program p\n  open (file = 'f.dat', newunit = lun, status = 'old')\nend program p\n",
    "submodule-ancestor": "submodule (parent_m:anc) sm\nend submodule sm\n",
    "submodule-bare-end": "submodule (parent_m) sm\nend\n",
    "format-unlimited": "program p\n10 format (*(i5, 1x))\nend program p\n",
}
# F2008 features the F2003 parser accepts as well (known finding F-C17-1: Prefix_Spec of the 2003
# grammar lists IMPURE and MODULE)
F08_ACCEPTED_BY_F03 = {
    "impure": "impure elemental subroutine s(a)\n  real, intent(in) :: a\nend subroutine s\n",
    "module-subroutine-prefix": "module m\n  interface\n    module subroutine s(a)\n      real :: a\n    end subroutine s\n  end interface\nend module m\n",
}
F08_PROBES.update(F08_ACCEPTED_BY_F03)


TEXT_PROBES = [
    ("procedure-in-interface", "module m\n  interface g\n    procedure a\n  end interface g\nend module m\n", "pred:f2003_procedure_stmt_invents_module"),
    ("module-procedure-in-interface", "module m\n  interface g\n    module procedure a, b\n  end interface g\nend module m\n", None),
]


def fold(text):
    out = []
    q = None
    for c in text:
        if q:
            out.append(c)
            if c == q:
                q = None
        else:
            if c in "'\"":
                q = c
            out.append(c.lower())
    return "".join(out)


def run_case(case):
    res = {"key": [case.get("kind"), case.get("seed"), case.get("probe")], "counts": {"kind:" + case["kind"]: 1}, "findings": [], "nontrivial": True}
    kind = case["kind"]
    if kind == "registry":
        m = get_model()
        rng = random.Random(case["seed"])
        n = 0
        for hist in [["f2003"], ["f2008"], ["f2008", "f2003"], ["f2003", "f2008"]] + [CS.gen_history(rng) for _ in range(case["n"])]:
            n += 1
            for pr in CS.check_registry_history(m, hist):
                res["findings"].append({"signature": "correspondence:Fp.Registry", "no_input": True,
                                        "what": "registry model vs live Base.subclasses: %s (history %s)" % (pr[:300], hist), "replay": {"case": case, "history": hist}})
        rc = m.ask("regcheck")
        if rc[0] != "1" or rc[1] != "1":
            res["findings"].append({"signature": "tie:setup_matches_generated", "no_input": True,
                                    "what": "setup(members std) over the generated class facts differs from the generated real Base.subclasses: f2003 %s f2008 %s" % (rc[0], rc[1]),
                                    "replay": {"case": case}})
        res["evals"] = n
        return res
    if kind == "intrargs":
        # every F2003 intrinsic (generic and specific) with every admissible number of
        # arguments (min, min+1, max): the F2008 parser must accept what the F2003 parser
        # accepts and print the same (exhaustive over the live F2003 table)
        real.get_parser("f2003", force=True)
        I = real.F03.Intrinsic_Name
        table = dict(I.generic_function_names)
        for sp, gname in I.specific_function_names.items():
            table.setdefault(sp, table.get(gname, {"min": 1, "max": 1}))
        names = sorted(table)[case["lo"]:case["hi"]]
        res["keys"] = []
        for nm in names:
            lo, hi = table[nm]["min"], table[nm]["max"]
            counts = sorted(set(x for x in (lo, lo + 1, hi) if x is not None and lo <= x <= (hi if hi is not None else lo + 2) and x <= 8))
            for n_ in counts:
                args = ", ".join("a%d" % k for k in range(1, n_ + 1))
                src = "program p\n  r = %s(%s)\nend program p\n" % (nm.lower(), args)
                o3 = real.try_parse(src, std="f2003", free=True)
                if o3.kind != "tree":
                    res["counts"]["intrargs-f2003-rejects"] = res["counts"].get("intrargs-f2003-rejects", 0) + 1
                    continue
                o8 = real.try_parse(src, std="f2008", free=True)
                res["keys"].append("%s/%d" % (nm, n_))
                rp = {"case": case, "source": src}
                if o8.kind != "tree":
                    res["findings"].append({"signature": "f2008-rejects-f2003-program:intrinsic-args", "what": "%s with %d argument(s): accepted by the F2003 parser, rejected by the F2008 parser: %s" % (nm, n_, str(o8.exc)[:160]), "replay": rp})
                elif fold(str(o3.tree)) != fold(str(o8.tree)):
                    res["findings"].append({"signature": "f2008-text-differs:intrinsic-args", "what": "%s/%d printed %r by f2003 and %r by f2008" % (nm, n_, str(o3.tree).split("\n")[1], str(o8.tree).split("\n")[1]), "replay": rp})
        res["evals"] = len(res["keys"])
        return res
    if kind == "textprobe":
        # valid F2003 programs whose regenerated text must be the same under both standards;
        # (name, source, known-finding key or None)
        for name, src, key in TEXT_PROBES:
            o3 = real.try_parse(src, std="f2003", free=True)
            o8 = real.try_parse(src, std="f2008", free=True)
            res.setdefault("keys", []).append(name)
            rp = {"case": case, "source": src}
            same = o3.kind == "tree" and o8.kind == "tree" and fold(str(o3.tree)) == fold(str(o8.tree))
            if key is None:
                if not same:
                    res["findings"].append({"signature": "f2008-text-differs:probe:" + name, "what": "%s: f2003 %r, f2008 %r" % (
                        name, str(o3.tree) if o3.tree is not None else o3.kind, str(o8.tree) if o8.tree is not None else o8.kind), "replay": rp})
            else:
                res["findings"].append({"signature": key if not same else "probe-now-same:" + name,
                                        "what": ("%s: f2003 prints %r, f2008 prints %r" % (name, [l.strip() for l in str(o3.tree).split("\n") if "PROCEDURE" in l.upper()],
                                                                                           [l.strip() for l in str(o8.tree).split("\n") if "PROCEDURE" in l.upper()]))
                                        if not same else ("%s, listed as known finding F-C17-2, now prints the same under both standards: remove the finding" % name),
                                        "replay": rp})
        return res
    if kind == "probe":
        name = case["probe"]
        src = F08_PROBES[name]
        o3 = real.try_parse(src, std="f2003", free=True)
        o8 = real.try_parse(src, std="f2008", free=True)
        if name in F08_ACCEPTED_BY_F03 and o3.kind != "tree":
            res["findings"].append({"signature": "probe-now-rejected:" + name, "what": "F2003 parser now rejects %s, listed as known finding F-C17-1: remove the finding" % name,
                                    "replay": {"case": case, "source": src}})
        if o8.kind != "tree":
            res["findings"].append({"signature": "f2008-rejects:" + name, "what": "F2008 parser rejects %s: %s" % (name, str(o8.exc)[:150]), "replay": {"case": case, "source": src}})
        if o3.kind == "tree":
            res["findings"].append({"signature": "pred:f2003_prefix_spec_has_f2008_prefixes" if name in F08_ACCEPTED_BY_F03 else "f2003-accepts:" + name, "what": "F2003 parser accepts the F2008-only construct %s" % name, "replay": {"case": case, "source": src}})
        return res
    if kind == "f08gen":
        p = gen.gen_program(case["seed"], std="f2008")
        if not p.f08():
            res["nontrivial"] = False
            return res
        src = p.text()
        o8 = real.try_parse(src, std="f2008", free=True)
        o3 = real.try_parse(src, std="f2003", free=True)
        if o8.kind == "tree" and o3.kind == "tree":
            res["findings"].append({"signature": "f2003-accepts:generated", "what": "F2003 parser accepts a program using F2008-only features",
                                    "replay": {"case": case, "source": src}})
        return res
    # f03 program, maybe with references to names of F2008-only intrinsics
    p = gen.gen_program(case["seed"], std="f2003")
    rng = random.Random(case["seed"] ^ 0xC17)
    uses08 = False
    if case.get("intr"):
        flat = p.flat()
        ass = [s for s in flat if "=" in s.toks and s.role == "simple" and s.cons is None and not gen.is_kw(s.toks[0])]
        for s in rng.sample(ass, min(2, len(ass))):
            nm = rng.choice(sorted(F08_INTRINSICS))
            i = s.toks.index("=")
            s.toks = s.toks[:i + 1] + [nm, "("] + F08_INTRINSICS[nm] + [")"]
            uses08 = True
    src = p.text()
    res["nontrivial"] = len(src.splitlines()) >= 10
    res["sample"] = {"seed": case["seed"], "uses_f08_intrinsic_names": uses08, "head": src[:150]}
    o3 = real.try_parse(src, std="f2003", free=True)
    if o3.kind != "tree":
        res["nontrivial"] = False
        return res
    s3 = str(o3.tree)
    o8 = real.try_parse(src, std="f2008", free=True)
    rp = {"case": case, "source": src}
    if o8.kind != "tree":
        res["findings"].append({"signature": "f2008-rejects-f2003-program:" + util.outcome_signature(o8),
                                "what": "accepted by the F2003 parser, rejected by the F2008 parser: %s" % str(o8.exc)[:200], "replay": rp})
        return res
    s8 = str(o8.tree)
    if fold(s3) != fold(s8):
        la, lb = s3.split("\n"), s8.split("\n")
        dl = next(((x, y) for x, y in zip(la, lb) if fold(x) != fold(y)), ("?", "?"))
        res["findings"].append({"signature": "f2008-text-differs:" + util.stmt_kind(dl[0]), "what": "printed text differs: f2003 %r, f2008 %r" % dl, "replay": rp})
    elif not uses08 and s3 != s8:
        la, lb = s3.split("\n"), s8.split("\n")
        dl = next(((x, y) for x, y in zip(la, lb) if x != y), ("?", "?"))
        res["findings"].append({"signature": "f2008-case-differs:" + util.stmt_kind(dl[0]),
                                "what": "no F2008-only intrinsic name is used but the printed texts differ in case: %r vs %r" % dl, "replay": rp})
    return res


def cases(tier, seed):
    n = util.tier_n(tier, 200, 2000)
    out = [{"kind": "probe", "probe": k} for k in F08_PROBES] + [{"kind": "textprobe"}]
    out.append({"kind": "registry", "seed": seed, "n": util.tier_n(tier, 10, 60), "_timeout": 900})
    out += [{"kind": "intrargs", "lo": lo, "hi": lo + 30, "_timeout": 600} for lo in range(0, 180, 30)]
    for i, s in enumerate(util.seeds(seed, n, 17)):
        out.append({"kind": "f03", "seed": s, "intr": i % 3 == 0})
    for s in util.seeds(seed, n // 3, 171):
        out.append({"kind": "f08gen", "seed": s})
    return out


def run(tier, rep, st):
    util.sub_cosim(rep, tier, "cosim_incl08", "Fp.Incl08", 100, 1000)
    results = engine.run_cases(__name__, cases(tier, rep.seed), rep)
