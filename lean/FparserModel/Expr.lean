/-!
# M-C — the fparser2 expression operator-precedence chain, over tokens   (serves C03)

Mirrors, branch for branch, `Base.__new__` (utils.py 425-518) for `str` arguments together
with `BinaryOpBase.match`, `UnaryOpBase.match`, `BracketBase.match("()", Expr, …)` and the
thirteen classes `Expr … Level_1_Expr, Primary/Parenthesis` of `Fortran2003.py` (R701-R722).

Abstraction (trusted, tested by fv/cosim_expr.py):
* the text is already cut into tokens; a token records whether white space separates it from
  the previous token (`g = true`: "glued", no white space) because
  `Pattern.rsplit` refuses to split when two operator matches touch (`"" in t[1:-1]`);
* every operand that is not `( expr )` (names, literals, `a(i)`, `f(x,y)`, `a%b`, …) is one
  opaque `atom`; `.TRUE.`/`.FALSE.` are atoms with `dotted = true` because the regular
  expression of `defined_unary_op`/`defined_binary_op` (`[.]\s*[A-Z]+\s*[.]`) also matches them;
* `string_replace_map` hides the contents of closed parenthesis groups; the model tracks the
  parenthesis depth left to right (a `)` at depth 0 is ignored exactly like `splitparen`
  does; an unclosed `(` hides the rest, whereas `splitparen` shows it - both then reject,
  since no tree renders to an unbalanced list: see `parse_balanced`).

No Mathlib. Everything total and computable.
-/
namespace Fp.Expr

/-! ## tokens -/

/-- operator tokens. `dot n` is `.name.` (a defined operator, unary or binary: lexically the
same token). `rel n dotted`: n = 0..5 for EQ NE LT LE GT GE, `dotted` = `.EQ.` spelling
(true) or `==` spelling (false). -/
inductive Op where
  | dot (n : Nat)
  | eqv | neqv | or | and | not
  | rel (n : Nat) (dotted : Bool)
  | concat | plus | minus | mul | div | pow
deriving DecidableEq, Repr

/-- tokens. `g` = glued: no white space between this token and the previous one. -/
inductive T where
  | atom (id : Nat) (dotted : Bool) (g : Bool)
  | lp | rp
  | op (o : Op) (g : Bool)
deriving DecidableEq, Repr

def Op.isDotted : Op → Bool
  | .dot _ | .eqv | .neqv | .or | .and | .not => true
  | .rel _ d => d
  | _ => false

/-- matched by the regular expression `[.]\s*[A-Z]+\s*[.]` -/
def T.isDotted : T → Bool
  | .atom _ d _ => d
  | .op o _ => o.isDotted
  | _ => false

def T.glued : T → Bool
  | .atom _ _ g => g
  | .op _ g => g
  | _ => false

/-- parse tree. Operators are kept as the token that was matched (`un` may carry *any*
dotted token, even `.TRUE.`, because `Level_1_Expr` accepts whatever the regex matches). -/
inductive Ex where
  | atom (id : Nat) (dotted : Bool) (g : Bool)
  | paren (e : Ex)
  | un (o : T) (e : Ex)
  | bin (o : T) (l r : Ex)
deriving DecidableEq, Repr

def render : Ex → List T
  | .atom i d g => [.atom i d g]
  | .paren e => .lp :: (render e ++ [.rp])
  | .un o e => o :: render e
  | .bin o l r => render l ++ o :: render r

def Ex.size : Ex → Nat
  | .atom _ _ _ => 1
  | .paren e => e.size + 2
  | .un _ e => e.size + 1
  | .bin _ l r => l.size + r.size + 1

/-! ## the level table (DATA; must equal the table extracted from the repository) -/

/-- the 13 classes of the chain, in `Base.subclasses` order -/
inductive Lv where
  | expr | l5 | equivOp | orOp | andOp | l4 | l3 | l2 | l2u | addOp | multOp | l1 | prim
deriving DecidableEq, Repr

/-- `binL`: BinaryOpBase.match with `right=True` (split at right-most operator),
`binR`: `right=False` (left-most), `unary`: UnaryOpBase.match,
`prim`: no `match`; subclasses = opaque operands, then `Parenthesis`. -/
inductive Kind where
  | binL | binR | unary | prim
deriving DecidableEq, Repr

/-- operator pattern of pattern_tools.py used by the class -/
inductive OpCls where
  | defined   -- defined_binary_op / defined_unary_op : any `.letters.`
  | equiv | or | and | not | rel | concat | add | mult | power
  | none
deriving DecidableEq, Repr

structure Row where
  lv : Lv
  kind : Kind
  cls : OpCls
  lhs : Option Lv      -- lhs_cls (binary only)
  rhs : Option Lv      -- rhs_cls; for `prim` the class inside the brackets
  next : Option Lv     -- the (single) entry of Base.subclasses[cls]
  excl : Bool          -- exclude_op_pattern = non_defined_binary_op
deriving DecidableEq, Repr

def levels : List Row := [
  ⟨.expr,    .binL,  .defined, some .expr,    some .l5,      some .l5,      true⟩,
  ⟨.l5,      .binL,  .equiv,   some .l5,      some .equivOp, some .equivOp, false⟩,
  ⟨.equivOp, .binL,  .or,      some .equivOp, some .orOp,    some .orOp,    false⟩,
  ⟨.orOp,    .binL,  .and,     some .orOp,    some .andOp,   some .andOp,   false⟩,
  ⟨.andOp,   .unary, .not,     none,          some .l4,      some .l4,      false⟩,
  ⟨.l4,      .binL,  .rel,     some .l3,      some .l3,      some .l3,      false⟩,
  ⟨.l3,      .binL,  .concat,  some .l3,      some .l2,      some .l2,      false⟩,
  ⟨.l2,      .binL,  .add,     some .l2,      some .addOp,   some .l2u,     false⟩,
  ⟨.l2u,     .unary, .add,     none,          some .addOp,   some .addOp,   false⟩,
  ⟨.addOp,   .binL,  .mult,    some .addOp,   some .multOp,  some .multOp,  false⟩,
  ⟨.multOp,  .binR,  .power,   some .l1,      some .multOp,  some .l1,      false⟩,
  ⟨.l1,      .unary, .defined, none,          some .prim,    some .prim,    false⟩,
  ⟨.prim,    .prim,  .none,    none,          some .expr,    none,          false⟩ ]

def rowOf (k : Lv) : Row :=
  match levels.find? (fun r => r.lv == k) with
  | some r => r
  | none => ⟨k, .prim, .none, none, none, none, false⟩

/-- position in the chain (prim = 0 … expr = 12); only used for the fuel bound -/
def Lv.rank : Lv → Nat
  | .expr => 12 | .l5 => 11 | .equivOp => 10 | .orOp => 9 | .andOp => 8 | .l4 => 7 | .l3 => 6
  | .l2 => 5 | .l2u => 4 | .addOp => 3 | .multOp => 2 | .l1 => 1 | .prim => 0

/-- which tokens an operator pattern matches -/
def OpCls.test : OpCls → T → Bool
  | .defined, t => t.isDotted
  | .equiv, .op .eqv _ => true
  | .equiv, .op .neqv _ => true
  | .or, .op .or _ => true
  | .and, .op .and _ => true
  | .not, .op .not _ => true
  | .rel, .op (.rel _ _) _ => true
  | .concat, .op .concat _ => true
  | .add, .op .plus _ => true
  | .add, .op .minus _ => true
  | .mult, .op .mul _ => true
  | .mult, .op .div _ => true
  | .power, .op .pow _ => true
  | _, _ => false

/-- `non_defined_binary_op.match(oper)`: the token is an intrinsic operator or a logical
literal, i.e. anything but a genuine `.name.` -/
def T.excluded : T → Bool
  | .op (.dot _) _ => false
  | _ => true

/-! ## depth-0 splitting (string_replace_map + Pattern.rsplit / lsplit) -/

/-- parenthesis depth after reading one token (`)` at depth 0 is ignored) -/
def step (d : Nat) : T → Nat
  | .lp => d + 1
  | .rp => d - 1
  | _ => d

def depthAfter (d : Nat) (ts : List T) : Nat := ts.foldl step d

def T.isParen : T → Bool
  | .lp | .rp => true
  | _ => false

/-- split at the RIGHT-most depth-0 token satisfying `p` (`Pattern.rsplit`) -/
def splitLast (p : T → Bool) : List T → Nat → Option (List T × T × List T)
  | [], _ => none
  | t :: rest, d =>
    match splitLast p rest (step d t) with
    | some (l, o, r) => some (t :: l, o, r)
    | none => if d = 0 ∧ !t.isParen ∧ p t then some ([], t, rest) else none

/-- split at the LEFT-most depth-0 token satisfying `p` (`Pattern.lsplit`) -/
def splitFirst (p : T → Bool) : List T → Nat → Option (List T × T × List T)
  | [], _ => none
  | t :: rest, d =>
    if d = 0 ∧ !t.isParen ∧ p t then some ([], t, rest)
    else match splitFirst p rest (step d t) with
      | some (l, o, r) => some (t :: l, o, r)
      | none => none

/-- `"" in t[1:-1]` of `Pattern.rsplit`: two depth-0 matches of the pattern touch -/
def gluedPair (p : T → Bool) : List T → Nat → Bool
  | t1 :: t2 :: rest, d =>
    (d = 0 ∧ !t1.isParen ∧ p t1 ∧ !t2.isParen ∧ p t2 ∧ t2.glued) || gluedPair p (t2 :: rest) (step d t1)
  | _, _ => false

/-! ## the parser -/

/-- `cls.match(string)` for the class described by `row`; `rec c s` stands for the nested
constructor call `c(s)` (a `NoMatchError` escaping from a child is caught by the calling
`Base.__new__`, so a failing child = no match). -/
def matchStep (rec : Lv → List T → Option Ex) (row : Row) (ts : List T) : Option Ex :=
  match row.kind, row.lhs, row.rhs with
  | .binL, some lhs, some rhs =>                     -- BinaryOpBase.match, right=True
    if gluedPair row.cls.test ts 0 then none         -- rsplit: `"" in t[1:-1]`
    else match splitLast row.cls.test ts 0 with
      | some (l, o, r) =>
        if l = [] ∨ r = [] then none                 -- `if not lhs or not rhs`
        else if row.excl ∧ o.excluded then none      -- exclude_op_pattern.match(oper)
        else match rec rhs r with                    -- split closest to the right: rhs first
          | some R => match rec lhs l with
            | some L => some (.bin o L R)
            | none => none
          | none => none
      | none => none
  | .binR, some lhs, some rhs =>                     -- BinaryOpBase.match, right=False
    match splitFirst row.cls.test ts 0 with
      | some (l, o, r) =>
        if l = [] ∨ r = [] then none
        else if row.excl ∧ o.excluded then none
        else match rec lhs l with                    -- lhs first
          | some L => match rec rhs r with
            | some R => some (.bin o L R)
            | none => none
          | none => none
      | none => none
  | .unary, _, some rhs =>                           -- UnaryOpBase.match
    match ts with
    | o :: r =>
      if row.cls.test o ∧ r ≠ [] then
        match rec rhs r with
        | some R => some (.un o R)
        | none => none
      else none
    | [] => none
  | .prim, _, some inner =>                          -- no match(): the subclasses of Primary
    match ts with
    | [.atom i d g] => some (.atom i d g)            -- an opaque operand class matches
    | .lp :: rest =>                                 -- Parenthesis: BracketBase.match("()", Expr, s)
      match rest.getLast?, rest.dropLast with
      | some .rp, mid =>
        if mid = [] then none
        else match rec inner mid with
          | some e => some (.paren e)
          | none => none
      | _, _ => none
    | _ => none
  | _, _, _ => none

/-- `Base.__new__(cls, string)` with `fuel` levels of Python recursion left: try
`cls.match(string)`; on `None`/`NoMatchError` loop over `Base.subclasses[cls]`. -/
def parseF : Nat → Lv → List T → Option Ex
  | 0, _, _ => none
  | fuel+1, k, ts =>
    match matchStep (parseF fuel) (rowOf k) ts with
    | some e => some e
    | none =>
      match (rowOf k).next with
      | some k' => parseF fuel k' ts
      | none => none

/-- fuel that is always enough (see `parse_fuel_enough`) -/
def need (k : Lv) (ts : List T) : Nat := k.rank + 13 * ts.length + 1

/-- `cls(string)` for a class of the chain -/
def parse (k : Lv) (ts : List T) : Option Ex := parseF (need k ts) k ts

/-! ## text encoding of tokens and trees for the driver (see FpDriver/Expr.lean) -/

def relName : Nat → String
  | 0 => "EQ" | 1 => "NE" | 2 => "LT" | 3 => "LE" | 4 => "GT" | _ => "GE"
def relSym : Nat → String
  | 0 => "==" | 1 => "/=" | 2 => "<" | 3 => "<=" | 4 => ">" | _ => ">="

/-- bijective base-26 spelling of a defined-operator number (1 = A, 26 = Z, 27 = AA …) -/
def nameOf : Nat → Nat → List Char
  | 0, _ => []
  | _, 0 => []
  | fuel+1, n+1 => nameOf fuel (n / 26) ++ [Char.ofNat (65 + n % 26)]

def numOf (s : List Char) : Nat :=
  s.foldl (fun n c => n * 26 + ((if 'a' ≤ c ∧ c ≤ 'z' then c.toNat - 32 else c.toNat) - 64)) 0

def Op.spell : Op → String
  | .dot n => "." ++ String.ofList (nameOf 64 n) ++ "."
  | .eqv => ".EQV." | .neqv => ".NEQV." | .or => ".OR." | .and => ".AND." | .not => ".NOT."
  | .rel n true => "." ++ relName n ++ "."
  | .rel n false => relSym n
  | .concat => "//" | .plus => "+" | .minus => "-" | .mul => "*" | .div => "/" | .pow => "**"

def T.spell : T → String
  | .atom i false _ => "@" ++ toString i
  | .atom i true _ => "@." ++ toString i
  | .lp => "(" | .rp => ")"
  | .op o _ => o.spell

/-- fully parenthesised S-expression (glue flags are not shown) -/
def Ex.sexp : Ex → String
  | .atom i d g => (T.atom i d g).spell
  | .paren e => "(paren " ++ e.sexp ++ ")"
  | .un o e => "(un " ++ o.spell ++ " " ++ e.sexp ++ ")"
  | .bin o l r => "(bin " ++ o.spell ++ " " ++ l.sexp ++ " " ++ r.sexp ++ ")"

def opOfWord (w : String) : Option Op :=
  match w.toLower with
  | "**" => some .pow | "*" => some .mul | "/" => some .div | "//" => some .concat
  | "+" => some .plus | "-" => some .minus
  | "==" => some (.rel 0 false) | "/=" => some (.rel 1 false) | "<" => some (.rel 2 false)
  | "<=" => some (.rel 3 false) | ">" => some (.rel 4 false) | ">=" => some (.rel 5 false)
  | ".eq." => some (.rel 0 true) | ".ne." => some (.rel 1 true) | ".lt." => some (.rel 2 true)
  | ".le." => some (.rel 3 true) | ".gt." => some (.rel 4 true) | ".ge." => some (.rel 5 true)
  | ".not." => some .not | ".and." => some .and | ".or." => some .or
  | ".eqv." => some .eqv | ".neqv." => some .neqv
  | lw =>
    match lw.toList with
    | '.' :: rest =>
      match rest.reverse with
      | '.' :: nameRev =>
        if nameRev ≠ [] ∧ nameRev.all (fun c => 'a' ≤ c ∧ c ≤ 'z') then
          some (.dot (numOf nameRev.reverse))
        else none
      | _ => none
    | _ => none

/-- one word of the request: optional `~` (glued) then `(`, `)`, `@n`, `@.n` or an operator -/
def tokOfWord (w : String) : Option T :=
  let (g, body) := match w.toList with
    | '~' :: rest => (true, rest)
    | cs => (false, cs)
  match body with
  | ['('] => some .lp
  | [')'] => some .rp
  | '@' :: '.' :: ds => if ds ≠ [] ∧ ds.all Char.isDigit then some (.atom (String.ofList ds).toNat! true g) else none
  | '@' :: ds => if ds ≠ [] ∧ ds.all Char.isDigit then some (.atom (String.ofList ds).toNat! false g) else none
  | _ => (opOfWord (String.ofList body)).map (fun o => .op o g)

def toksOfLine (s : String) : Option (List T) :=
  (s.splitOn " ").filter (· ≠ "") |>.mapM tokOfWord

def Lv.name : Lv → String
  | .expr => "Expr" | .l5 => "Level_5_Expr" | .equivOp => "Equiv_Operand" | .orOp => "Or_Operand"
  | .andOp => "And_Operand" | .l4 => "Level_4_Expr" | .l3 => "Level_3_Expr" | .l2 => "Level_2_Expr"
  | .l2u => "Level_2_Unary_Expr" | .addOp => "Add_Operand" | .multOp => "Mult_Operand"
  | .l1 => "Level_1_Expr" | .prim => "Primary"

def Kind.name : Kind → String
  | .binL => "binL" | .binR => "binR" | .unary => "unary" | .prim => "prim"

def OpCls.name : OpCls → String
  | .defined => "defined" | .equiv => "equiv" | .or => "or" | .and => "and" | .not => "not"
  | .rel => "rel" | .concat => "concat" | .add => "add" | .mult => "mult" | .power => "power"
  | .none => "none"

def optLvName : Option Lv → String
  | some k => k.name
  | none => "-"

/-- canonical one-line form of a row (compared with the table extracted from the repo) -/
def Row.text (r : Row) : String :=
  " ".intercalate [r.lv.name, r.kind.name, r.cls.name, optLvName r.lhs, optLvName r.rhs,
                   optLvName r.next, if r.excl then "excl" else "-"]

def levelsText (rows : List Row) : String := ";".intercalate (rows.map Row.text)

end Fp.Expr
