"""C13 — INCLUDE resolution is transparent; unresolved includes are kept."""
import os
import random
import shutil
import tempfile
from fv import real, gen, layout, treeutil, engine, findings
from fv.props import util
from fv.gen import St, Blk

RULE = ("generated programs; 1-3 runs of whole statements (any run, also unbalanced; nested includes) moved into files and replaced "
        "by INCLUDE lines; reader kind in {file, string}; include_dirs orderings with a decoy copy in a later directory; oracle: "
        "tree(main+includes) == tree(P). With the files absent and each run a sequence of complete sibling statements: the parse "
        "succeeds and the printed text equals that of P with the run replaced by a marker, the marker spelled INCLUDE 'file'. "
        "non-trivial = >= 2 include files or a nested include"
        " Correspondence: the reader model resolves the same INCLUDE lines over the same files and include path (Fp.Reader, file-system triples) and its item stream is compared with the real reader's on every second case.")
ASSUMPTIONS = ["include files are written so that format detection gives free form (each line indented by one blank; runs whose "
               "every line is labelled are not used): the detection boundary is C05's known finding"]
TIE_MODULES = ["FparserModel.Reader", "FparserModel.Block"]


def flat_lines(p):
    return [(s, d) for s, d in layout.flat_with_depth(p)]


def votes_free(line):
    import re
    l = line.rstrip()
    return bool(l) and l[0] != "!" and ((l[0] != "\t" and re.match(r"[^c*!]\s*[^\s\d\t]", l[:5], re.I)) or l.endswith("&"))


def choose_runs(n, rng, k):
    """k disjoint runs [a,b) of statement indices, none covering everything"""
    runs = []
    tries = 0
    while len(runs) < k and tries < 50:
        tries += 1
        a = rng.randint(0, n - 1)
        b = min(n, a + rng.randint(1, max(1, n // 3)))
        if any(not (b <= x or a >= y) for x, y in runs) or (a == 0 and b == n):
            continue
        runs.append((a, b))
    return sorted(runs)


def sibling_runs(p, rng, k):
    """runs that are sequences of complete siblings inside one body -> (body, i, j)"""
    bodies = []

    def rec(b):
        if len(b.body) >= 2:
            bodies.append(b.body)
        for y in b.body:
            if isinstance(y, Blk):
                rec(y)
    for u in p.units:
        rec(u)
    out = []
    rng.shuffle(bodies)
    for body in bodies[:k]:
        cand = [i for i, x in enumerate(body) if not (isinstance(x, St) and x.role == "mid")]
        if not cand:
            continue
        i = rng.choice(cand)
        j = i + 1
        while j < len(body) and rng.random() < 0.5 and not (isinstance(body[j], St) and body[j].role == "mid"):
            j += 1
        out.append((body, i, j))
    return out


def run_case(case):
    p = util.program_case(case)
    std = case["std"]
    rng = random.Random(case["seed"] ^ 0xC13)
    res = {"key": [case["seed"], case["mode"], case["reader"]], "counts": {"mode:" + case["mode"]: 1, "reader:" + case["reader"]: 1},
           "findings": [], "nontrivial": False}
    canon = p.text(indent=False)
    o0 = real.try_parse(canon, std=std, free=True)
    if o0.kind != "tree":
        return res
    sig0 = treeutil.sig(o0.tree)
    root = tempfile.mkdtemp(prefix="fv_c13_")
    try:
        # directory names in random alphabetical relation to their position in the path
        na, nb = rng.sample(["inc_a", "inc_b", "zz_inc", "Inc_m", "a1"], 2)
        d1, d2 = os.path.join(root, na), os.path.join(root, nb)
        os.makedirs(d1)
        os.makedirs(d2)
        if case["mode"] == "present":
            fl = flat_lines(p)
            lines = [s.text() for s, _ in fl]
            n = len(lines)
            runs = choose_runs(n, rng, rng.randint(1, 3))
            # a file boundary INSIDE a construct: an include file that ends with the opening
            # statement of a construct (block constructs, labelled and non-block DO), so that
            # the block matcher back-tracks across the boundary
            openers = [i for i, (s_, _) in enumerate(fl) if s_.role == "open" and s_.cons not in ("program", "module", "submodule", "subroutine", "function", "blockdata", "interface", "type", "enum") and i > 0]
            if openers and rng.random() < 0.6:
                op = rng.choice(openers)
                a = max(1, op - rng.randint(0, 2))
                extra = (a, op + 1)
                if not any(not (extra[1] <= x or extra[0] >= y) for x, y in runs):
                    runs = sorted(runs + [extra])
                    res["counts"]["boundary-after-opener"] = 1
            files = {}
            main = []
            pos = 0
            nested = False
            for k, (a, b) in enumerate(runs):
                main += lines[pos:a]
                body = [" " + l for l in lines[a:b]]
                if not any(votes_free(l) for l in body):
                    main += lines[a:b]
                    pos = b
                    continue
                name = "part%d.inc" % k
                if len(body) >= 3 and rng.random() < 0.4:
                    # nested include: the middle of this run goes to a second file
                    m1, m2 = 1, len(body) - 1
                    inner = body[m1:m2]
                    if any(votes_free(l) for l in inner) and any(votes_free(l) for l in body[:m1] + body[m2:]):
                        files["nest%d.inc" % k] = inner
                        body = body[:m1] + [rng.choice([" include 'nest%d.inc'", " include'nest%d.inc'", ' INCLUDE "nest%d.inc"']) % k] + body[m2:]
                        nested = True
                files[name] = body
                q = rng.choice(["'", '"'])
                main.append(rng.choice(["include ", "INCLUDE ", "  Include ", "include", "INCLUDE", " Include  "]) + q + name + q + rng.choice(["", "", "  ", " ! trailing comment"]))
                pos = b
            main += lines[pos:]
            if not files:
                return res
            res["nontrivial"] = len(files) >= 2 or nested
            res["counts"]["files"] = len(files)
            res["counts"]["nested"] = 1 if nested else 0
            placed = []
            for name, body in files.items():
                dd = d1 if rng.random() < 0.6 else d2
                with open(os.path.join(dd, name), "w") as f:
                    f.write("\n".join(body) + "\n")
                placed.append((os.path.join(na if dd == d1 else nb, name), "\n".join(body) + "\n"))
                if dd == d1 and rng.random() < 0.5:
                    # decoy with different content in the LATER directory
                    with open(os.path.join(d2, name), "w") as f:
                        f.write(" call decoy_must_not_be_read()\n")
                    placed.append((os.path.join(nb, name), " call decoy_must_not_be_read()\n"))
                    res["counts"]["decoy"] = res["counts"].get("decoy", 0) + 1
            src = "\n".join(main) + "\n"
            if case["seed"] % 2 == 0:
                # the reader model resolves the same INCLUDE lines over the same files
                res["findings"] += util.reader_cosim(src, "free", ic=(True,), dirs=[na, nb], fs=placed, case=case)
                res["counts"]["reader-cosim"] = 1
            res["sample"] = {"seed": case["seed"], "files": sorted(files), "main_head": src[:200]}
            if case["reader"] == "file":
                path = os.path.join(root, "main.f90")
                with open(path, "w") as f:
                    f.write(src)
                r = real.make_reader(None, path=path, include_dirs=[d1, d2])
            else:
                r = real.make_reader(src, include_dirs=[d1, d2], free=True)
            try:
                t = real.get_parser(std)(r)
                err = None
            except real.U.FortranSyntaxError as e:
                t, err = None, "syntax: " + str(e)[:200]
            except SystemExit:
                t, err = None, "SystemExit"
            except Exception as e:  # noqa: BLE001
                t, err = None, "%s: %s" % (type(e).__name__, str(e)[:200])
            rp = {"case": case, "main": src, "files": files, "canonical": canon}
            if t is None:
                res["findings"].append({"signature": "include-reject:" + err.split(":")[0], "what": "source split into includes rejected: " + err, "replay": rp})
            elif treeutil.sig(t) != sig0:
                d = treeutil.first_diff(sig0, treeutil.sig(t))
                res["findings"].append({"signature": "include-tree-differs", "what": "tree(main+includes) differs from tree(P) at %s: %s vs %s" % d, "replay": rp})
        else:
            # files absent: Include_Stmt nodes exactly where the lines were
            runs = sibling_runs(p, rng, rng.randint(1, 2))
            if not runs:
                return res
            import copy as _copy
            marks = []
            for k, (body, i, j) in enumerate(runs):
                body[i:j] = [St(["include", "'missing%d.inc'" % k])]
                marks.append("missing%d.inc" % k)
            src = p.text()
            # (a run inside another removed run disappears with it)
            marks = [m for m in marks if m in src]
            # reference: same program with a comment marker instead (a comment is legal anywhere)
            ref_src = src
            for k in range(3):
                ref_src = ref_src.replace("include 'missing%d.inc'" % k, "!@@mark%d" % k)
            res["nontrivial"] = len(marks) >= 2
            res["sample"] = {"seed": case["seed"], "absent": marks}
            oref = real.try_parse(ref_src, std=std, ignore_comments=False, free=True)
            if oref.kind != "tree":
                res["nontrivial"] = False
                return res
            expect = str(oref.tree)
            for k in range(3):
                expect = expect.replace("!@@mark%d" % k, "INCLUDE 'missing%d.inc'" % k)
            om = real.try_parse(src, std=std, include_dirs=[d1, d2], free=True)
            rp = {"case": case, "source": src}
            if om.kind != "tree":
                res["findings"].append({"signature": "missing-include-reject:" + util.outcome_signature(om),
                                        "what": "source with unresolvable INCLUDE lines rejected: %s" % str(om.exc)[:200], "replay": rp})
            else:
                got = str(om.tree)
                if [l.strip() for l in got.split("\n")] != [l.strip() for l in expect.split("\n")]:
                    la, lb = got.split("\n"), expect.split("\n")
                    dl = next(((x, y) for x, y in zip(la, lb) if x.strip() != y.strip()), (len(la), len(lb)))
                    res["findings"].append({"signature": "missing-include-misplaced", "what": "printed text differs from expected: %r vs %r" % dl, "replay": rp})
                ninc = len(real.walk(om.tree, real.F03.Include_Stmt))
                if ninc != len(marks):
                    res["findings"].append({"signature": "missing-include-count", "what": "%d Include_Stmt nodes for %d unresolved INCLUDE lines" % (ninc, len(marks)), "replay": rp})
    finally:
        shutil.rmtree(root, ignore_errors=True)
    return res


def cases(tier, seed):
    n = util.tier_n(tier, 150, 1500)
    out = []
    for i, s in enumerate(util.seeds(seed, n, 13)):
        out.append({"seed": s, "std": "f2008" if i % 3 else "f2003", "mode": "absent" if i % 4 == 3 else "present",
                    "reader": "file" if i % 2 else "string", "size": 0.8})
    return out


def run(tier, rep, st):
    engine.run_cases(__name__, cases(tier, rep.seed), rep)
