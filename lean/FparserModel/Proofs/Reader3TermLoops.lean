import FparserModel.Proofs.Reader3TermWeight

/-!
# Reader3TermLoops — the weight through the loops of `get_source_item`

Whatever the internal fuel of `cppLoop` / `freeLoop` / `fixLoop` is (the bounds hold for EVERY
fuel value, so running out of fuel is never needed for progress):

* `cppLoop`   does not raise the weight,
* `freeLoop`  raises it by at most 1 (the comment of the line in hand),
* `fixLoop`   does not raise it (it peeks, then consumes a line and queues its comment),
* `freeItem`, `fixedItem` raise it by at most 1 and never answer `unsup`.
-/
namespace Fp.Reader
open Fp

theorem mkCpp_sup (t : Str) (s e : Nat) : mkCpp t s e ≠ .unsup := by
  unfold mkCpp; simp only []; split <;> simp

theorem mkLine_sup (t : Str) (l : Option Nat) (n : Option Str) (s e : Nat) :
    mkLine t l n s e ≠ .unsup := by
  unfold mkLine; simp only []; split <;> simp

theorem mkSynErr_sup (t : Str) (s e : Nat) : mkSynErr t s e ≠ .unsup := by
  unfold mkSynErr; simp only []; split <;> simp

theorem cppLoop_weight : ∀ (fuel : Nat) (line acc : Str) (s : Nat) (r : Rd),
    (cppLoop fuel line acc s r).2.weight ≤ r.weight ∧ (cppLoop fuel line acc s r).1 ≠ .unsup
  | 0, _, _, _, r => by simp [cppLoop]
  | fuel + 1, line, acc, s, r => by
    unfold cppLoop
    simp only []
    split
    · cases hq : getSingleLine r with
      | mk o r' =>
        cases o with
        | none => exact ⟨getSingleLine_weight_none r r' hq, by simp⟩
        | some l2 =>
          simp only []
          have h1 := getSingleLine_weight_some r r' l2 hq
          have ih := cppLoop_weight fuel l2 (acc ++ (rstrip line).dropLast) s r'
          exact ⟨by omega, ih.2⟩
    · exact ⟨Nat.le_refl _, mkCpp_sup _ _ _⟩

theorem freeLoop_weight (hadOmp : Bool) : ∀ (fuel : Nat) (line : Option Str) (started : Bool) (acc : Str)
    (q : Option Char) (label : Option Nat) (name : Option Str) (endl : Nat) (r : Rd),
    (freeLoop hadOmp fuel line started acc q label name endl r).r.weight ≤ r.weight + optW line
  | 0, _, _, _, _, _, _, _, r => by simp only [freeLoop]; omega
  | fuel + 1, none, _, _, _, _, _, _, r => by simp only [freeLoop]; omega
  | fuel + 1, some line0, started, acc, q, label, name, endl, r => by
    unfold freeLoop
    simp only [optW]
    generalize (if hadOmp = true then (replaceSentinelFreeCont line0).1 else line0) = line
    split
    · have hw := weight_append r [Item.comment (lstrip line) r.linecount r.linecount false]
      generalize ({ r with fifo := r.fifo ++ [Item.comment (lstrip line) r.linecount r.linecount false] } : Rd) = r1
        at hw ⊢
      have hg := getSingleLine_weight r1
      have ih := freeLoop_weight hadOmp fuel (getSingleLine r1).1 started acc q label name endl
        (getSingleLine r1).2
      simp only [List.length_singleton] at hw
      omega
    · split
      · have hg := getSingleLine_weight r
        have ih := freeLoop_weight hadOmp fuel (getSingleLine r).1 started acc q label name endl
          (getSingleLine r).2
        omega
      · have hc := freeStep_weight started line r.linecount q label name
        generalize freeStep started line r.linecount q label name = stp at hc ⊢
        have hw := weight_append r stp.h.comments
        generalize ({ r with fifo := r.fifo ++ stp.h.comments } : Rd) = r1 at hw ⊢
        split
        · have hg := getSingleLine_weight r1
          have ih := freeLoop_weight hadOmp fuel (getSingleLine r1).1 true (acc ++ stp.piece) stp.h.q
            stp.label stp.name r.linecount (getSingleLine r1).2
          omega
        · simp only []; omega

theorem freeItem_weight (r : Rd) (line : Str) (hadOmp : Bool) (s : Nat) :
    (freeItem r line hadOmp s).2.weight ≤ r.weight + 1 ∧ (freeItem r line hadOmp s).1 ≠ .unsup := by
  unfold freeItem
  have hl := freeLoop_weight hadOmp (r.src.length + r.filo.length + 2) (some line) false [] none none none
    r.linecount r
  generalize freeLoop hadOmp (r.src.length + r.filo.length + 2) (some line) false [] none none none
    r.linecount r = o at hl
  simp only [optW] at hl
  simp only []
  split
  · exact ⟨hl, by simp⟩
  · split
    · exact ⟨hl, by simp⟩
    · split
      · exact ⟨hl, by split <;> simp⟩
      · split
        · rename_i it rest hf
          have := weight_setFifo o.r rest
          rw [hf] at this
          simp only [List.length_cons] at this
          refine ⟨?_, by simp⟩
          simp only []
          omega
        · exact ⟨hl, by simp⟩

theorem fixLoop_weight : ∀ (fuel : Nat) (nl : Option Str) (acc : Str) (qc : Option Char) (endl : Nat)
    (r : Rd), (fixLoop fuel nl acc qc endl r).2.2.weight ≤ r.weight
  | 0, _, _, _, _, r => by simp [fixLoop]
  | fuel + 1, nl, acc, qc, endl, r => by
    unfold fixLoop
    split
    · cases hq : getSingleLine r with
      | mk o r1 =>
        cases o with
        | none => exact getSingleLine_weight_none r r1 hq
        | some line2 =>
          simp only []
          have h1 := getSingleLine_weight_some r r1 line2 hq
          split
          · have hw := weight_append r1 [Item.comment line2 r1.linecount r1.linecount false]
            generalize ({ r1 with fifo := r1.fifo ++ [Item.comment line2 r1.linecount r1.linecount false] } : Rd) = r2
              at hw ⊢
            have hn := getNextLine_weight r2
            have ih := fixLoop_weight fuel (getNextLine r2).1 acc qc endl (getNextLine r2).2
            simp only [List.length_singleton] at hw
            omega
          · have hc := hic_weight (line2.drop 6) r1.linecount qc
            generalize handleInlineComment (line2.drop 6) r1.linecount qc = h at hc ⊢
            have hw := weight_append r1 h.comments
            generalize ({ r1 with fifo := r1.fifo ++ h.comments } : Rd) = r2 at hw ⊢
            have hn := getNextLine_weight r2
            have ih := fixLoop_weight fuel (getNextLine r2).1 (acc ++ h.line) h.q r1.linecount
              (getNextLine r2).2
            omega
    · exact Nat.le_refl _

theorem fixedItem_weight (r : Rd) (line : Str) (s : Nat) :
    (fixedItem r line s).2.weight ≤ r.weight + 1 ∧ (fixedItem r line s).1 ≠ .unsup := by
  unfold fixedItem
  cases fixedLabel line with
  | none => exact ⟨Nat.le_succ _, by simp⟩
  | some label =>
    simp only []
    generalize fixedName line = nl
    by_cases c1 : strip (nl.2.drop 6) = []
    · simp only [c1, if_true]
      by_cases c2 : nl.1.isSome = true
      · simp only [c2, if_true]
        exact ⟨Nat.le_succ _, by split <;> simp⟩
      · simp only [c2]
        by_cases c3 : (label.isSome && warnRaises r) = true
        · simp only [c3, if_true]
          exact ⟨Nat.le_succ _, by simp⟩
        · simp only [c3]
          exact ⟨Nat.le_succ _, by simp⟩
    · simp only [c1, if_false]
      have hc := hic_weight (nl.2.drop 6) s none
      generalize handleInlineComment (nl.2.drop 6) s none = h at hc ⊢
      have hw := weight_append r h.comments
      generalize ({ r with fifo := r.fifo ++ h.comments } : Rd) = r1 at hw ⊢
      have hn := getNextLine_weight r1
      have hf := fixLoop_weight (r.src.length + r.filo.length + 2) (getNextLine r1).1 h.line h.q
        r.linecount (getNextLine r1).2
      generalize fixLoop (r.src.length + r.filo.length + 2) (getNextLine r1).1 h.line h.q
        r.linecount (getNextLine r1).2 = out at hf ⊢
      exact ⟨by show out.2.2.weight ≤ _; omega, mkLine_sup _ _ _ _ _⟩

end Fp.Reader
