import FparserModel.Header
/-!
# Print — the printing of a WHOLE fparser2 tree (`str(tree)`, `tree.tofortran(tab, isfix)`)

Mirrors, branch for branch (`fparser/two/utils.py`, `fparser/two/Fortran2003.py`):

    Base.__str__            return self.tostr()
    BlockBase.tostr         return self.tofortran()                 (tab = "", isfix = None)
    Base.tofortran          this_str = str(self)
                            if this_str.strip(): return tab + this_str
                            return this_str                          (Comment, Directive, Include_Stmt, Cpp_*)
    StmtBase.tofortran      = `Fp.Header.tofortran` (label, construct name, text; Header slice)
    BlockBase.tofortran     if not content: return ""; start at `tab`; content[1:-1] at `tab + extra_tab`
                            (extra_tab = "  " iff isinstance(content[-1], EndStmtBase)); the end at `tab`
                            when len(content) > 1; "\n".join
    Component_Part.tofortran        every item at `tab`
    Where_Construct / If_Construct / Case_Construct .tofortran
                            content[0] at `tab`; content[1:-1] at `tab` when it is an
                            ELSEWHERE / ELSE [IF] / CASE statement, else at `tab + "  "`; content[-1] at `tab`
                            (UNCONDITIONALLY: a one-element content is printed TWICE; an empty one raises
                            IndexError)
    Block_Label_Do_Construct.tofortran   content[0] at `tab`, content[1:-1] at `tab + "  "`, content[-1] at
                            `tab` when len(content) > 1 (IndexError on an empty content)
    Action_Term_Do_Construct.tofortran   the same, but `extra_tab += "  "` AFTER every content[1:-1] item that
                            is an instance of `self.label_do_stmt_cls()`

`Program` has no printer of its own (`BlockBase.tofortran`): units are joined by ONE newline, no
blank line between them, no trailing newline; `str(Program([]))` is the empty string.

Classes are numbers (`cid` of Generated/Classes2008); what the printers read off a class
(`type(self).tofortran`, `isinstance(item, …)`) is the table `Tbl` (generated instance:
Generated/PrintTables.lean).

NOT modelled: `None` inside `content` (`if start is not None` of BlockBase.tofortran: no matcher
builds one; any other position raises AttributeError), `str(self)` of the leaves (the leaf slices),
newline characters inside a leaf text (then `render` still is the real string but its lines are not
the model's lines), Unicode white space in `this_str.strip()`.
-/
namespace Fp.Print
open Fp

abbrev Cls := Nat

/-- which `tofortran` a BLOCK class resolves to (MRO) -/
inductive Printer where
  | blockBase | componentPart | whereC | ifC | caseC | labelDo | actionTerm
  deriving DecidableEq, Repr, Inhabited

/-- what the printers read off class objects -/
structure Tbl where
  /-- `type(self).tofortran` of a block class -/
  printer : Cls → Printer
  /-- `issubclass(cls, EndStmtBase)` -/
  isEnd : Cls → Bool
  /-- `issubclass(cls, (Masked_Elsewhere_Stmt, Elsewhere_Stmt))` -/
  isElsewhere : Cls → Bool
  /-- `issubclass(cls, (Else_If_Stmt, Else_Stmt))` -/
  isElse : Cls → Bool
  /-- `issubclass(cls, Case_Stmt)` -/
  isCase : Cls → Bool
  /-- `issubclass(item class, blockcls.label_do_stmt_cls())` (first argument: the block class) -/
  isLabelDo : Cls → Cls → Bool

/-- a leaf of the tree as the printers see it -/
structure Leaf where
  cls : Cls
  /-- the class resolves to `StmtBase.tofortran` (else: `Base.tofortran`) -/
  stmt : Bool
  /-- `self.item.label` / `self.item.name` (`none` also when `self.item is None`) -/
  label : Option Nat := none
  name : Option Str := none
  /-- `str(self)` -/
  text : Str
  /-- identity of the reader item the leaf was built from (`Fp.Block.Item.id`) -/
  item : Nat := 0
  deriving DecidableEq, Repr, Inhabited

inductive Tree where
  | leaf (l : Leaf)
  | block (c : Cls) (content : List Tree)
  deriving Repr, Inhabited

def Tree.cls : Tree → Cls
  | .leaf l => l.cls
  | .block c _ => c

mutual
/-- the leaves, left to right -/
def Tree.frontier : Tree → List Leaf
  | .leaf l => [l]
  | .block _ content => frontierL content
def frontierL : List Tree → List Leaf
  | [] => []
  | t :: ts => t.frontier ++ frontierL ts
end

/-! ## one leaf -/

/-- `Base.tofortran(tab, isfix)` on a node whose `str(self)` is `text` -/
def baseTofortran (text tab : Str) : Str :=
  if !(strip text).isEmpty then tab ++ text else text

/-- `leaf.tofortran(tab, isfix)` -/
def Leaf.str (l : Leaf) (tab : Str) (isfix : Bool) : Str :=
  if l.stmt then Header.tofortran l.label l.name l.text tab isfix
  else baseTofortran l.text tab

/-! ## the lines -/

/-- where a printed line comes from: a leaf, or the `""` an empty-content block returns -/
inductive Src where
  | leaf (l : Leaf)
  | empty (c : Cls)
  deriving DecidableEq, Repr, Inhabited

/-- one printed line: the `tab` argument its printer received (the indentation) and its source -/
structure Line where
  tab : Str
  src : Src
  deriving DecidableEq, Repr, Inhabited

def Line.str (isfix : Bool) (ln : Line) : Str :=
  match ln.src with
  | .leaf l => l.str ln.tab isfix
  | .empty _ => []

def Src.leaf? : Src → Option Leaf
  | .leaf l => some l
  | .empty _ => none

/-- `"\n".join` -/
def joinNl : List Str → Str
  | [] => []
  | [s] => s
  | s :: r => s ++ '\n' :: joinNl r

/-- the printed text of a list of lines -/
def render (isfix : Bool) (ls : List Line) : Str := joinNl (ls.map (Line.str isfix))

/-! ## the `tab` every content element is printed with -/

def two : Str := [' ', ' ']

/-- `Action_Term_Do_Construct.tofortran`, the loop over `content[1:-1]`:
    `line.append(item.tofortran(tab=tab + extra_tab)); if isinstance(item, self.label_do_stmt_cls()): extra_tab += "  "` -/
def actionMid (T : Tbl) (c : Cls) (tab : Str) : Str → List Cls → List Str
  | _, [] => []
  | extra, k :: ks =>
    (tab ++ extra) :: actionMid T c tab (if T.isLabelDo c k then extra ++ two else extra) ks

/-- tabs of `content[1:-1]` (`mid` = their classes, `last` = class of `content[-1]`) -/
def midTabs (T : Tbl) (c : Cls) (tab : Str) (last : Cls) (mid : List Cls) : List Str :=
  match T.printer c with
  | .blockBase => mid.map fun _ => tab ++ (if T.isEnd last then two else [])
  | .componentPart => mid.map fun _ => tab
  | .whereC => mid.map fun k => if T.isElsewhere k then tab else tab ++ two
  | .ifC => mid.map fun k => if T.isElse k then tab else tab ++ two
  | .caseC => mid.map fun k => if T.isCase k then tab else tab ++ two
  | .labelDo => mid.map fun _ => tab ++ two
  | .actionTerm => actionMid T c tab two mid

/-- the tab of every element of a content with classes `cs` (one per element) -/
def childTabs (T : Tbl) (c : Cls) (tab : Str) : List Cls → List Str
  | [] => []
  | [_] => [tab]
  | _ :: k :: r => tab :: midTabs T c tab ((k :: r).getLast (by simp)) (k :: r).dropLast ++ [tab]

/-- the printers that end with an UNCONDITIONAL `tmp.append(end.tofortran(...))` -/
def Printer.endsAlways : Printer → Bool
  | .whereC | .ifC | .caseC => true
  | _ => false

/-- the printers that start with `start = self.content[0]` before any emptiness test -/
def Printer.indexesFirst : Printer → Bool
  | .blockBase | .componentPart => false
  | _ => true

mutual
/-- `t.tofortran(tab, isfix)` as the list of its lines -/
def printTree (T : Tbl) (tab : Str) : Tree → List Line
  | .leaf l => [⟨tab, .leaf l⟩]
  | .block c content =>
    match content with
    | [] => [⟨tab, .empty c⟩]
    | [x] =>
      -- `start` and `end` are the same object: where/if/case print it twice
      if (T.printer c).endsAlways then printTree T tab x ++ printTree T tab x else printTree T tab x
    | x :: y :: r => printItems T (childTabs T c tab ((x :: y :: r).map Tree.cls)) (x :: y :: r)
/-- every element with its own tab -/
def printItems (T : Tbl) : List Str → List Tree → List Line
  | tab :: tabs, t :: ts => printTree T tab t ++ printItems T tabs ts
  | _, _ => []
end

mutual
/-- the real printer raises `IndexError` (`self.content[0]` on an empty content) -/
def Tree.raises (T : Tbl) : Tree → Bool
  | .leaf _ => false
  | .block c content => (content.isEmpty && (T.printer c).indexesFirst) || raisesL T content
def raisesL (T : Tbl) : List Tree → Bool
  | [] => false
  | t :: ts => t.raises T || raisesL T ts
end

/-- `t.tofortran(tab, isfix)` as lines; `none` = IndexError -/
def printTree? (T : Tbl) (tab : Str) (t : Tree) : Option (List Line) :=
  if t.raises T then none else some (printTree T tab t)

/-! ## the string-level mirror (nested `"\n".join`s, as the code computes it) -/

mutual
def tofortran (T : Tbl) (isfix : Bool) (tab : Str) : Tree → Str
  | .leaf l => l.str tab isfix
  | .block c content =>
    match content with
    | [] => []
    | [x] =>
      if (T.printer c).endsAlways then joinNl [tofortran T isfix tab x, tofortran T isfix tab x]
      else joinNl [tofortran T isfix tab x]
    | x :: y :: r => joinNl (strItems T isfix (childTabs T c tab ((x :: y :: r).map Tree.cls)) (x :: y :: r))
def strItems (T : Tbl) (isfix : Bool) : List Str → List Tree → List Str
  | tab :: tabs, t :: ts => tofortran T isfix tab t :: strItems T isfix tabs ts
  | _, _ => []
end

/-- `str(tree)` -/
def treeStr (T : Tbl) (t : Tree) : Str := tofortran T false [] t

/-! ## nesting depth (specification side of `print_indent_depth`) -/

/-- `actionMid` in units of two blanks -/
def actionOffs (T : Tbl) (c : Cls) : Nat → List Cls → List Nat
  | _, [] => []
  | d, k :: ks => d :: actionOffs T c (if T.isLabelDo c k then d + 1 else d) ks

/-- relative depth of `content[1:-1]`, per block kind and role -/
def midOffs (T : Tbl) (c : Cls) (last : Cls) (mid : List Cls) : List Nat :=
  match T.printer c with
  | .blockBase => mid.map fun _ => if T.isEnd last then 1 else 0
  | .componentPart => mid.map fun _ => 0
  | .whereC => mid.map fun k => if T.isElsewhere k then 0 else 1
  | .ifC => mid.map fun k => if T.isElse k then 0 else 1
  | .caseC => mid.map fun k => if T.isCase k then 0 else 1
  | .labelDo => mid.map fun _ => 1
  | .actionTerm => actionOffs T c 1 mid

/-- relative depth of every content element: opener and END at 0 -/
def childOffs (T : Tbl) (c : Cls) : List Cls → List Nat
  | [] => []
  | [_] => [0]
  | _ :: k :: r => 0 :: midOffs T c ((k :: r).getLast (by simp)) (k :: r).dropLast ++ [0]

mutual
/-- (depth, source) of every printed line, `d` = depth of the root -/
def printDepths (T : Tbl) (d : Nat) : Tree → List (Nat × Src)
  | .leaf l => [(d, .leaf l)]
  | .block c content =>
    match content with
    | [] => [(d, .empty c)]
    | [x] => if (T.printer c).endsAlways then printDepths T d x ++ printDepths T d x else printDepths T d x
    | x :: y :: r => depthItems T d (childOffs T c ((x :: y :: r).map Tree.cls)) (x :: y :: r)
def depthItems (T : Tbl) (d : Nat) : List Nat → List Tree → List (Nat × Src)
  | o :: os, t :: ts => printDepths T (d + o) t ++ depthItems T d os ts
  | _, _ => []
end

/-! ## sane trees: what every matcher builds -/

mutual
/-- no block with an empty content, no where/if/case block with a single element -/
def Tree.sane (T : Tbl) : Tree → Bool
  | .leaf _ => true
  | .block c content =>
    !content.isEmpty && !((T.printer c).endsAlways && content.length == 1) && saneL T content
def saneL (T : Tbl) : List Tree → Bool
  | [] => true
  | t :: ts => t.sane T && saneL T ts
end

mutual
/-- the sources of the printed lines in general: an empty block yields one empty line, a
    one-element where/if/case content is printed twice -/
def slots (T : Tbl) : Tree → List Src
  | .leaf l => [.leaf l]
  | .block c content =>
    match content with
    | [] => [.empty c]
    | [x] => if (T.printer c).endsAlways then slots T x ++ slots T x else slots T x
    | x :: y :: r => slotsL T (x :: y :: r)
def slotsL (T : Tbl) : List Tree → List Src
  | [] => []
  | t :: ts => slots T t ++ slotsL T ts
end

/-! ## splitting the text into lines again (for the token corollary) -/

/-- `s.split("\n")` -/
def splitNl : Str → List Str
  | [] => [[]]
  | c :: cs =>
    if c = '\n' then [] :: splitNl cs
    else match splitNl cs with
      | [] => [[c]]
      | h :: t => (c :: h) :: t

/-- the lines a reader sees in a text: a final `\n` TERMINATES the last line, it does not open
    another one (`"END\n"` is one line, `""` none, `"\n"` one blank line) -/
def fileLines (s : Str) : List Str :=
  let ls := splitNl s
  if ls.getLast? = some [] then ls.dropLast else ls

/-- tokens of a text = tokens of its lines, in order -/
def tokText {τ : Type} (tokLine : Str → List τ) (s : Str) : List τ := (splitNl s).flatMap tokLine

end Fp.Print
