import FparserModel.Proofs.PrintBasic
import FparserModel.Proofs.PrintDepth
import FparserModel.Proofs.PrintRender
import FparserModel.Proofs.PrintBlock
import FparserModel.Proofs.HeaderLabel
import FparserModel.Generated.PrintTables
/-!
# Print — property theorems (C01, C02, C11, C14): the printing of a WHOLE tree

The model (`FparserModel/Print.lean`) mirrors `Base.tofortran`, `StmtBase.tofortran` (= Header's model),
`BlockBase.tofortran/tostr`, the six special block printers and (through `BlockBase`) `Program`.
All theorems hold for EVERY class table `T : Tbl`, every tree, every root `tab`, both `isfix`.

* `print_lines_eq_frontier` (C02, C01): for a *sane* tree (no empty content, no where/if/case block
  with a single element — what every matcher builds; checked on every parsed tree by the co-simulation)
  the sources of the printed lines are the frontier: every leaf once, in order, nothing else.
  `print_lines_eq_slots` is the statement for ALL trees (the two exceptions made explicit), the
  witnesses `single_element_printed_twice`, `empty_block_prints_blank_line`, `empty_special_raises` show
  that the hypothesis is needed.
* `print_indent_depth` (C01): the tab of every line is the root tab followed by `2·depth` blanks, the
  depth given per block kind and role by `childOffs` (closed forms `depth_*`).
* `print_comments_in_place` / `print_items_in_place` (C11, C14, C13): composed with the matcher
  (`Fp.Block.comments_once_in_order`): the printed comment (directive, include, cpp) lines are the
  comment items of the input, once, in order.
* `print_compositional` (+ one closed form per printer) and `tofortran_eq_render`: the nested joins of
  the code are one join over `header ++ concatMap … ++ end`; corollary `print_tokens_lift`: if every
  leaf printer is token-preserving, the whole text tokenises to the concatenation of the statements'
  tokens; `print_label_name_reread`: Header's `label_name_printed` holds for every line of every tree.
-/
namespace Fp.Print.Props
open Fp Fp.Print

/-! ## (a) nothing dropped, duplicated or reordered -/

/-- ALL trees: the sources of the printed lines are the slots (`slots`: the frontier, except that
    an empty-content block yields one empty line and a one-element where/if/case content is
    printed twice) -/
theorem print_lines_eq_slots (T : Tbl) (tab : Str) (t : Tree) :
    (printTree T tab t).map (·.src) = slots T t :=
  printTree_src T t tab

/-- sane trees: the printed lines are the leaves of the tree, each once, in order -/
theorem print_lines_eq_frontier (T : Tbl) (tab : Str) (t : Tree) (hs : t.sane T = true) :
    (printTree T tab t).map (·.src) = t.frontier.map Src.leaf := by
  rw [printTree_src, slots_sane T t hs]

/-- … as strings: line `i` of the text is the per-leaf printer applied to leaf `i` (with the tab
    of that line), and there are exactly as many lines as leaves -/
theorem print_lines_are_leaf_prints (T : Tbl) (tab : Str) (isfix : Bool) (t : Tree) (hs : t.sane T = true) :
    (printTree T tab t).length = t.frontier.length ∧
    ∀ i (h : i < (printTree T tab t).length) (h' : i < t.frontier.length),
      ((printTree T tab t)[i]).str isfix = (t.frontier[i]).str ((printTree T tab t)[i]).tab isfix := by
  have hsrc := print_lines_eq_frontier T tab t hs
  have hlen : (printTree T tab t).length = t.frontier.length := by
    have := congrArg List.length hsrc; simpa using this
  refine ⟨hlen, fun i h h' => ?_⟩
  have h1 : ((printTree T tab t).map (·.src))[i]? = (t.frontier.map Src.leaf)[i]? := by rw [hsrc]
  simp only [List.getElem?_map, List.getElem?_eq_getElem h, List.getElem?_eq_getElem h',
    Option.map_some, Option.some.injEq] at h1
  simp [Line.str, h1]

/-- every tab-carrying element: one tab per content element (what "a printer that skips the last
    content element" violates) -/
theorem one_tab_per_element (T : Tbl) (c : Cls) (tab : Str) (cs : List Cls) :
    (childTabs T c tab cs).length = cs.length :=
  childTabs_length T c tab cs

/-! ### the exceptions are real (witnesses; replayed on the real code by fv/cosim_print.py) -/

/-- a tiny class table: 1 = If_Construct, 2 = Execution_Part (BlockBase), 3 = Block_Label_Do_Construct,
    4 = Action_Term_Do_Construct, 5 = Case_Construct, 6 = Where_Construct, 7 = Component_Part;
    statements: 10 END xxx, 11 ELSE, 12 CASE, 13 ELSEWHERE, 14 label-DO statement, 20 anything else -/
def T0 : Tbl :=
  { printer := fun c => match c with
      | 1 => .ifC | 3 => .labelDo | 4 => .actionTerm | 5 => .caseC | 6 => .whereC | 7 => .componentPart
      | _ => .blockBase
    isEnd := fun c => c == 10
    isElsewhere := fun c => c == 13
    isElse := fun c => c == 11
    isCase := fun c => c == 12
    isLabelDo := fun b c => b == 4 && c == 14 }

def st (c : Cls) (s : String) (i : Nat := 0) (label : Option Nat := none) : Tree :=
  .leaf { cls := c, stmt := true, label := label, text := s.toList, item := i }
def cm (s : String) (i : Nat := 0) : Tree := .leaf { cls := 30, stmt := false, text := s.toList, item := i }

/-- `If_Construct.tofortran` appends `end.tofortran(...)` unconditionally: a content of ONE element is
    printed twice -/
theorem single_element_printed_twice :
    (printTree T0 [] (.block 1 [st 20 "IF (a) THEN"])).map (Line.str false)
      = ["IF (a) THEN".toList, "IF (a) THEN".toList] ∧
    (Tree.block 1 [st 20 "IF (a) THEN"]).sane T0 = false := by
  decide

/-- `BlockBase.tofortran` returns `""` for an empty content: a blank line inside the parent that
    belongs to no leaf -/
theorem empty_block_prints_blank_line :
    String.ofList (render false (printTree T0 [] (.block 2 [st 20 "PROGRAM p", .block 2 [], st 10 "END PROGRAM p"])))
      = "PROGRAM p\n\nEND PROGRAM p" ∧
    (Tree.block 2 [st 20 "PROGRAM p", .block 2 [], st 10 "END PROGRAM p"]).frontier.length = 2 := by
  decide

/-- the special printers index `self.content[0]` first: IndexError on an empty content -/
theorem empty_special_raises :
    printTree? T0 [] (.block 2 [st 20 "x = 1", .block 1 []]) = none ∧
    printTree? T0 [] (.block 2 [st 20 "x = 1", .block 7 []]) ≠ none := by
  decide

/-- sane trees never hit the IndexError of the special printers -/
theorem sane_prints (T : Tbl) (tab : Str) (t : Tree) (hs : t.sane T = true) :
    printTree? T tab t = some (printTree T tab t) := by
  simp [printTree?, sane_not_raises T t hs]

/-! ### round trip of the LINES (C01, C11)

FULL STATEMENT (false: `trailing_blank_comment_lost`): reading the printed text line by line gives the
printed lines, `fileLines (render isfix ls) = ls.map (Line.str isfix)`. -/

/-- PARTIAL: … unless the last printed line is empty -/
theorem print_lines_reread_partial (isfix : Bool) (ls : List Line) (hne : ls ≠ [])
    (hnl : ∀ ln ∈ ls, '\n' ∉ ln.str isfix) (hlast : (ls.getLast hne).str isfix ≠ []) :
    fileLines (render isfix ls) = ls.map (Line.str isfix) := by
  rw [fileLines_render isfix ls hne hnl, if_neg hlast]

/-- … and what happens otherwise: exactly the last (empty) line is lost -/
theorem print_lines_reread_blank_last (isfix : Bool) (ls : List Line) (hne : ls ≠ [])
    (hnl : ∀ ln ∈ ls, '\n' ∉ ln.str isfix) (hlast : (ls.getLast hne).str isfix = []) :
    fileLines (render isfix ls) = (ls.map (Line.str isfix)).dropLast := by
  rw [fileLines_render isfix ls hne hnl, if_pos hlast]

/-- WITNESS (defect, replayed on the real code): `end` followed by a blank line, comments kept: the
    tree has two leaves (`END`, `Comment('')`), `str(tree)` is `"END\n"`, which reads back as ONE line:
    the trailing blank-line comment is lost by a print / re-read round trip -/
theorem trailing_blank_comment_lost :
    String.ofList (render false (printTree T0 [] (.block 2 [st 10 "END", cm ""]))) = "END\n" ∧
    fileLines (render false (printTree T0 [] (.block 2 [st 10 "END", cm ""]))) = ["END".toList] ∧
    (Tree.block 2 [st 10 "END", cm ""]).frontier.length = 2 := by
  decide

/-! ## (b) indentation = nesting depth by role -/

/-- the tab of every printed line is the root tab followed by `2 · depth` blanks, where the depth of a
    line is the sum of the relative depths (`childOffs`) along its path -/
theorem print_indent_depth (T : Tbl) (tab : Str) (t : Tree) :
    printTree T tab t = (printDepths T 0 t).map fun p => ⟨tab ++ List.replicate (2 * p.1) ' ', p.2⟩ :=
  printTree_depths0 T tab t

/-- the relative depths of a content `start :: mid ++ [end]`: opener and END at 0 -/
theorem depth_opener_end (T : Tbl) (c s e : Cls) (mid : List Cls) :
    childOffs T c (s :: (mid ++ [e])) = 0 :: (midOffs T c e mid ++ [0]) :=
  childOffs_snoc T c s e mid

/-- `BlockBase.tofortran`: the body one level deeper iff the last element is an `EndStmtBase` -/
theorem depth_blockBase (T : Tbl) (c e : Cls) (mid : List Cls) (h : T.printer c = .blockBase) :
    midOffs T c e mid = mid.map fun _ => if T.isEnd e then 1 else 0 := by
  simp [midOffs, h]

/-- `Component_Part.tofortran`: everything at the tab of the block -/
theorem depth_componentPart (T : Tbl) (c e : Cls) (mid : List Cls) (h : T.printer c = .componentPart) :
    midOffs T c e mid = mid.map fun _ => 0 := by
  simp [midOffs, h]

/-- IF construct: ELSE IF / ELSE at the depth of the opener, everything else one deeper -/
theorem depth_if (T : Tbl) (c e : Cls) (mid : List Cls) (h : T.printer c = .ifC) :
    midOffs T c e mid = mid.map fun k => if T.isElse k then 0 else 1 := by
  simp [midOffs, h]

theorem depth_case (T : Tbl) (c e : Cls) (mid : List Cls) (h : T.printer c = .caseC) :
    midOffs T c e mid = mid.map fun k => if T.isCase k then 0 else 1 := by
  simp [midOffs, h]

theorem depth_where (T : Tbl) (c e : Cls) (mid : List Cls) (h : T.printer c = .whereC) :
    midOffs T c e mid = mid.map fun k => if T.isElsewhere k then 0 else 1 := by
  simp [midOffs, h]

/-- labelled DO (`Block_Label_Do_Construct`): the body one deeper, the terminating statement (last
    element, `END DO` or the labelled action statement) at the depth of the DO -/
theorem depth_labelDo (T : Tbl) (c e : Cls) (mid : List Cls) (h : T.printer c = .labelDo) :
    midOffs T c e mid = mid.map fun _ => 1 := by
  simp [midOffs, h]

/-- `Action_Term_Do_Construct`: body element `i` is `1 + (number of label-DO statements before it)` deep -/
theorem depth_actionTerm (T : Tbl) (c e : Cls) (mid : List Cls) (h : T.printer c = .actionTerm)
    (i : Nat) (hi : i < mid.length) :
    (midOffs T c e mid)[i]? = some (1 + ((mid.take i).filter (T.isLabelDo c)).length) := by
  simp only [midOffs, h]
  exact actionOffs_closed T c 1 mid i hi

/-! ## (d) compositionality -/

/-- the exact form every block printer realises for `content = start :: mid ++ [end]`:
    `start` at `tab`, the middle with the tabs of its kind, `end` at `tab` -/
theorem print_compositional (T : Tbl) (tab : Str) (c : Cls) (s e : Tree) (mid : List Tree) :
    printTree T tab (.block c (s :: (mid ++ [e])))
      = printTree T tab s ++ printItems T (midTabs T c tab e.cls (mid.map Tree.cls)) mid ++ printTree T tab e := by
  have hshape : s :: (mid ++ [e]) = s :: (mid ++ [e]) := rfl
  cases hm : mid ++ [e] with
  | nil => simp at hm
  | cons y r =>
    rw [printTree_block_cons2, ← hm]
    have hc : (s :: (mid ++ [e])).map Tree.cls = s.cls :: (mid.map Tree.cls ++ [e.cls]) := by simp
    rw [hc, childTabs_snoc]
    have h1 : printItems T (tab :: (midTabs T c tab e.cls (mid.map Tree.cls) ++ [tab])) (s :: (mid ++ [e]))
        = printTree T tab s ++ printItems T (midTabs T c tab e.cls (mid.map Tree.cls) ++ [tab]) (mid ++ [e]) :=
      printItems_cons T tab _ s _
    rw [h1, printItems_append T _ [tab] mid [e] (by simp [midTabs_length])]
    simp [printItems_cons, printItems_nil_right, List.append_assoc]

/-- every element printed with its own tab, in order (no element without a tab: `one_tab_per_element`) -/
theorem print_compositional_zip (T : Tbl) (tab : Str) (c : Cls) (x y : Tree) (r : List Tree) :
    printTree T tab (.block c (x :: y :: r))
      = ((childTabs T c tab ((x :: y :: r).map Tree.cls)).zip (x :: y :: r)).flatMap fun p => printTree T p.1 p.2 := by
  rw [printTree_block_cons2, printItems_eq_flatMap]

/-- `BlockBase.tofortran` (Program, program units, parts, DO / FORALL / ASSOCIATE / SELECT TYPE …) -/
theorem print_blockBase (T : Tbl) (tab : Str) (c : Cls) (s e : Tree) (mid : List Tree)
    (h : T.printer c = .blockBase) :
    printTree T tab (.block c (s :: (mid ++ [e])))
      = printTree T tab s
        ++ mid.flatMap (printTree T (tab ++ if T.isEnd e.cls then two else []))
        ++ printTree T tab e := by
  rw [print_compositional]
  have : midTabs T c tab e.cls (mid.map Tree.cls)
      = (mid.map Tree.cls).map fun _ => tab ++ if T.isEnd e.cls then two else [] := by simp [midTabs, h]
  rw [this, printItems_map]

theorem print_if (T : Tbl) (tab : Str) (c : Cls) (s e : Tree) (mid : List Tree) (h : T.printer c = .ifC) :
    printTree T tab (.block c (s :: (mid ++ [e])))
      = printTree T tab s
        ++ mid.flatMap (fun t => printTree T (if T.isElse t.cls then tab else tab ++ two) t)
        ++ printTree T tab e := by
  rw [print_compositional]
  have : midTabs T c tab e.cls (mid.map Tree.cls)
      = (mid.map Tree.cls).map fun k => if T.isElse k then tab else tab ++ two := by simp [midTabs, h]
  rw [this, printItems_map]

theorem print_case (T : Tbl) (tab : Str) (c : Cls) (s e : Tree) (mid : List Tree) (h : T.printer c = .caseC) :
    printTree T tab (.block c (s :: (mid ++ [e])))
      = printTree T tab s
        ++ mid.flatMap (fun t => printTree T (if T.isCase t.cls then tab else tab ++ two) t)
        ++ printTree T tab e := by
  rw [print_compositional]
  have : midTabs T c tab e.cls (mid.map Tree.cls)
      = (mid.map Tree.cls).map fun k => if T.isCase k then tab else tab ++ two := by simp [midTabs, h]
  rw [this, printItems_map]

theorem print_where (T : Tbl) (tab : Str) (c : Cls) (s e : Tree) (mid : List Tree) (h : T.printer c = .whereC) :
    printTree T tab (.block c (s :: (mid ++ [e])))
      = printTree T tab s
        ++ mid.flatMap (fun t => printTree T (if T.isElsewhere t.cls then tab else tab ++ two) t)
        ++ printTree T tab e := by
  rw [print_compositional]
  have : midTabs T c tab e.cls (mid.map Tree.cls)
      = (mid.map Tree.cls).map fun k => if T.isElsewhere k then tab else tab ++ two := by simp [midTabs, h]
  rw [this, printItems_map]

theorem print_labelDo (T : Tbl) (tab : Str) (c : Cls) (s e : Tree) (mid : List Tree) (h : T.printer c = .labelDo) :
    printTree T tab (.block c (s :: (mid ++ [e])))
      = printTree T tab s ++ mid.flatMap (printTree T (tab ++ two)) ++ printTree T tab e := by
  rw [print_compositional]
  have : midTabs T c tab e.cls (mid.map Tree.cls) = (mid.map Tree.cls).map fun _ => tab ++ two := by
    simp [midTabs, h]
  rw [this, printItems_map]

theorem print_componentPart (T : Tbl) (tab : Str) (c : Cls) (s e : Tree) (mid : List Tree)
    (h : T.printer c = .componentPart) :
    printTree T tab (.block c (s :: (mid ++ [e])))
      = printTree T tab s ++ mid.flatMap (printTree T tab) ++ printTree T tab e := by
  rw [print_compositional]
  have : midTabs T c tab e.cls (mid.map Tree.cls) = (mid.map Tree.cls).map fun _ => tab := by
    simp [midTabs, h]
  rw [this, printItems_map]

/-- `Action_Term_Do_Construct`: the middle with the running `extra_tab` -/
theorem print_actionTerm (T : Tbl) (tab : Str) (c : Cls) (s e : Tree) (mid : List Tree)
    (h : T.printer c = .actionTerm) :
    printTree T tab (.block c (s :: (mid ++ [e])))
      = printTree T tab s ++ printItems T (actionMid T c tab two (mid.map Tree.cls)) mid ++ printTree T tab e := by
  rw [print_compositional]
  simp [midTabs, h]

/-- the nested `"\n".join`s of the code (`tofortran`, the string-level mirror) are ONE join over the
    lines: `str(tree) = render (printTree tree)` -/
theorem tofortran_eq_render (T : Tbl) (isfix : Bool) (tab : Str) (t : Tree) :
    tofortran T isfix tab t = render isfix (printTree T tab t) :=
  Fp.Print.tofortran_eq_render T isfix t tab

/-- line by line: a line whose source is leaf `a` tokenises to the tokens of `a` -/
theorem tok_lines_aux {τ : Type} (tokLine : Str → List τ) (srcToks : Leaf → List τ) (isfix : Bool) :
    ∀ (ls : List Line) (fr : List Leaf), ls.map (·.src) = fr.map Src.leaf →
      (∀ ln ∈ ls, ∀ ch ∈ ln.tab, ch = ' ') →
      (∀ l ∈ fr, ∀ tb : Str, (∀ ch ∈ tb, ch = ' ') → tokLine (l.str tb isfix) = srcToks l) →
      (ls.flatMap fun ln => tokLine (ln.str isfix)) = fr.flatMap srcToks
  | [], [], _, _, _ => rfl
  | [], _ :: _, h, _, _ => by simp at h
  | _ :: _, [], h, _, _ => by simp at h
  | ln :: ls, a :: r, hsrc, hall, hleaf => by
    simp only [List.map_cons, List.cons.injEq] at hsrc
    have h1 : tokLine (ln.str isfix) = srcToks a := by
      have := hleaf a (by simp) ln.tab (hall ln (by simp))
      simpa [Line.str, hsrc.1] using this
    simp only [List.flatMap_cons, h1]
    rw [tok_lines_aux tokLine srcToks isfix ls r hsrc.2 (fun l hl => hall l (List.mem_cons_of_mem _ hl))
      (fun l hl => hleaf l (List.mem_cons_of_mem _ hl))]

/-- LIFTING per-statement token theorems to whole programs: if every leaf printer is
    token-preserving (for every all-blank tab), the printed text of the whole tree tokenises to the
    concatenation of the statements' tokens, in tree order -/
theorem print_tokens_lift {τ : Type} (tokLine : Str → List τ) (srcToks : Leaf → List τ)
    (T : Tbl) (isfix : Bool) (tab : Str) (t : Tree) (hs : t.sane T = true)
    (htab : ∀ ch ∈ tab, ch = ' ')
    (hleaf : ∀ l ∈ t.frontier, ∀ tb : Str, (∀ ch ∈ tb, ch = ' ') → tokLine (l.str tb isfix) = srcToks l)
    (hnl : ∀ ln ∈ printTree T tab t, '\n' ∉ ln.str isfix) :
    tokText tokLine (tofortran T isfix tab t) = t.frontier.flatMap srcToks := by
  rw [tofortran_eq_render, tokText_render tokLine isfix _ (printTree_ne_nil T t tab) hnl]
  exact tok_lines_aux tokLine srcToks isfix _ _ (print_lines_eq_frontier T tab t hs)
    (fun ln hln => printTree_tab_allBlank T tab t htab ln hln) hleaf

/-- Header's `label_name_printed` lifted to EVERY statement line of EVERY tree (free form): the
    reader's `extract_label` / `extract_construct_name` read the label, the construct name and the
    text of the statement back from its printed line, whatever the nesting depth -/
theorem print_label_name_reread (T : Tbl) (tab : Str) (t : Tree) (htab : ∀ ch ∈ tab, ch = ' ')
    (ln : Line) (hln : ln ∈ printTree T tab t) (l : Leaf) (hsrc : ln.src = .leaf l) (hstmt : l.stmt = true)
    (hl : l.label ≠ some 0) (hn : ∀ n, l.name = some n → Header.IsName n) (ht : Header.TextOK l.text) :
    (Reader.extractLabel (ln.str false)).1 = l.label ∧
    (Reader.extractName (Reader.extractLabel (ln.str false)).2).1 = l.name ∧
    lstrip (Reader.extractName (Reader.extractLabel (ln.str false)).2).2 = l.text := by
  have hb := printTree_tab_allBlank T tab t htab ln hln
  have h := Header.label_name_printed l.label l.name l.text ln.tab hl hn ht hb
  have hstr : ln.str false = Header.tofortran l.label l.name l.text ln.tab false := by
    simp [Line.str, hsrc, Leaf.str, hstmt]
  rw [hstr]
  exact h.2

/-! ## (c) comments (directives, include lines, cpp lines) in place -/

/-- for ANY class `c` that matched: the printed lines whose leaf satisfies `q` are the consumed items
    satisfying `p`, once, in order (the rest of the stream is untouched) -/
theorem print_items_in_place (p : Block.Item → Bool) (q : Leaf → Bool)
    (L : Block.Cls → Block.Item → Leaf) (hq : ∀ c i, q (L c i) = p i) (hid : ∀ c i, (L c i).item = i.id)
    (env : Block.Env) (fuel : Nat) (c : Block.Cls) (st st' : Block.St) (t : Block.Tree)
    (h : Block.run env fuel c st = (.tree t, st')) (hd : Block.D st' = Block.D st)
    (T : Tbl) (tab : Str) (hs : (ofBlock L t).sane T = true) :
    (Block.itemsOf p st.stream.all).map (·.id)
      = ((lineLeaves (printTree T tab (ofBlock L t))).filter q).map (·.item)
        ++ (Block.itemsOf p st'.stream.all).map (·.id) := by
  rw [printed_items_of_frontier p q L hq hid T tab t hs, ← List.map_append,
    ← Block.items_once_in_order p env fuel c st st' t h hd]

/-- a successful `Program` (repaired variant): the comment lines of the printed text are the comment
    items of the input — each exactly once, in source order, nothing else -/
theorem print_comments_in_place (p : Block.Item → Bool) (q : Leaf → Bool)
    (L : Block.Cls → Block.Item → Leaf) (hq : ∀ c i, q (L c i) = p i) (hid : ∀ c i, (L c i).item = i.id)
    (env : Block.Env) (fuel : Nat) (c unit main0 : Block.Cls) (st st' : Block.St) (t : Block.Tree)
    (hk : env.tbl.kind c = .program unit main0 [])
    (hquirk : env.tbl.quirks.programContinues = true)
    (h : Block.run env (fuel + 1) c st = (.tree t, st')) (hd : Block.D st' = Block.D st)
    (T : Tbl) (tab : Str) (hs : (ofBlock L t).sane T = true) :
    ((lineLeaves (printTree T tab (ofBlock L t))).filter q).map (·.item)
      = (Block.itemsOf p st.stream.all).map (·.id) := by
  rw [printed_items_of_frontier p q L hq hid T tab t hs,
    Block.comments_once_in_order p env fuel c unit main0 st st' t hk hquirk h hd]

/-! ## non-vacuity -/

/-- a program with every kind of printer:
```
PROGRAM p                      (Main_Program = BlockBase; Execution_Part = BlockBase without END)
  ! c
  IF (a) THEN
    x = 1
  ELSE
    DO 10 i = 1, 2             (Action_Term_Do_Construct with a shared label)
      DO 10 j = 1, 2
        y = 2
10  z = 3
  END IF
END PROGRAM p
``` -/
def demo : Tree :=
  .block 2 [st 20 "PROGRAM p" 0,
    .block 2 [cm "! c" 1,
      .block 1 [st 20 "IF (a) THEN" 2, st 20 "x = 1" 3, st 11 "ELSE" 4,
        .block 4 [st 14 "DO 10 i = 1, 2" 5, st 14 "DO 10 j = 1, 2" 6, st 20 "y = 2" 7, st 20 "z = 3" 8 (some 10)],
        st 10 "END IF" 9]],
    st 10 "END PROGRAM p" 10]

example : demo.sane T0 = true := by decide

/-- `print_lines_eq_frontier` / `print_indent_depth` on `demo`: eleven lines for eleven leaves, in order -/
example : (lineLeaves (printTree T0 [] demo)).map (·.item) = [0, 1, 2, 3, 4, 5, 6, 7, 8, 9, 10] ∧
    (printDepths T0 0 demo).map (·.1) = [0, 1, 1, 2, 1, 2, 3, 4, 2, 1, 0] := by
  decide

example : String.ofList (tofortran T0 false [] demo) =
    "PROGRAM p\n  ! c\n  IF (a) THEN\n    x = 1\n  ELSE\n    DO 10 i = 1, 2\n      DO 10 j = 1, 2\n        y = 2\n10  z = 3\n  END IF\nEND PROGRAM p" := by
  decide +kernel

/-- fixed form (`isfix=True`): the label padded to six columns, statements WITHOUT label start in
    column 1 + tab ("BUG allow for fixed format here" in `StmtBase.tofortran`) -/
example : String.ofList (tofortran T0 true [] (.block 3 [st 14 "DO 10 i = 1, 2" 0, st 20 "x = 1" 1, st 20 "CONTINUE" 2 (some 10)])) =
    "DO 10 i = 1, 2\n  x = 1\n 10   CONTINUE" := by
  decide

/-- a blank comment is printed without its tab (`Base.tofortran`) -/
example : (printTree T0 [' ', ' '] (.block 2 [cm "" 0, cm "! x" 1])).map (Line.str false) = ["".toList, "  ! x".toList] := by
  decide

/-- hypotheses of `print_tokens_lift` are satisfiable: tokens = the non-blank characters of a line -/
example : ∀ l ∈ (Tree.block 2 [st 20 "x = 1", cm "! c", st 10 "END"]).frontier,
    ∀ tb : Str, (∀ ch ∈ tb, ch = ' ') →
      (fun s : Str => s.filter (· != ' ')) (l.str tb false) = (fun l : Leaf => l.text.filter (· != ' ')) l := by
  intro l hl tb htb
  have hf : tb.filter (· != ' ') = [] := by
    apply List.filter_eq_nil_iff.mpr; intro a ha; simp [htb a ha]
  have hc : ¬ strip ['!', ' ', 'c'] = [] := by decide
  simp only [st, cm, Tree.frontier, frontierL, List.append_nil, List.cons_append, List.nil_append,
    List.mem_cons, List.not_mem_nil, or_false] at hl
  rcases hl with h | h | h <;> subst h
  · simp [Leaf.str, Header.tofortran_nn, List.filter_append, hf]
  · simp [Leaf.str, baseTofortran, hc, List.filter_append, hf]
  · simp [Leaf.str, Header.tofortran_nn, List.filter_append, hf]

/-- hypotheses of `print_lines_reread_partial` on `demo`: eleven lines, the last one `END PROGRAM p` -/
example : printTree T0 [] demo ≠ [] ∧ (∀ ln ∈ printTree T0 [] demo, '\n' ∉ ln.str false) ∧
    ((printTree T0 [] demo).getLast?.map (Line.str false)) = some "END PROGRAM p".toList := by
  decide

/-- hypotheses of `print_label_name_reread`: the labelled statement of `demo` -/
example : Header.TextOK "z = 3".toList ∧ (some 10 : Option Nat) ≠ some 0 := by decide

/-- hypotheses of `print_comments_in_place`: `subroutine a` / a comment / `end subroutine a` through
    the block matcher's model (`Fp.Block.W`), printed -/
def itemsC : List Block.Item :=
  [Block.W.line 0, { id := 1, kind := .comment, directive := false }, Block.W.line 2]

def orcC : Block.Oracle := fun i c =>
  match i, c with
  | 0, 3 => Block.W.ans (.matched (Block.W.subInfo 5))
  | 2, 4 => Block.W.ans (.matched (Block.W.endInfo (some 5)))
  | _, _ => Block.W.ans .none

def LC : Block.Cls → Block.Item → Leaf := fun c i =>
  { cls := c, stmt := i.kind != .comment, text := (if i.kind == .comment then "! c" else "stmt").toList, item := i.id }

/-- the matcher's table read as a printer table: class 2 (the subroutine block) ends with an END statement -/
def TC : Tbl := { T0 with isEnd := fun c => c == 4 }

theorem runC :
    (match (Block.run (Block.W.env { programContinues := true } orcC) 12 0 (Block.St.init itemsC)).1 with
      | .tree t => (ofBlock LC t).sane TC && ((lineLeaves (printTree TC [] (ofBlock LC t))).map (·.item) == [0, 1, 2])
          && ((printTree TC [] (ofBlock LC t)).map (Line.str false) == ["stmt".toList, "  ! c".toList, "stmt".toList])
      | _ => false) = true ∧
    Block.D (Block.run (Block.W.env { programContinues := true } orcC) 12 0 (Block.St.init itemsC)).2
      = Block.D (Block.St.init itemsC) := by
  decide +kernel

/-- hypotheses of `print_comments_in_place` / `print_items_in_place` for `LC`, `p` = "is a comment item",
    `q` = "does not print through StmtBase.tofortran" -/
example : (∀ c i, (fun l : Leaf => !l.stmt) (LC c i) = (fun i : Block.Item => i.kind == .comment) i) ∧
    (∀ c i, (LC c i).item = i.id) ∧
    (Block.W.env { programContinues := true } orcC).tbl.kind 0 = .program 1 7 [] := by
  refine ⟨fun c i => ?_, fun _ _ => rfl, rfl⟩
  cases i with | mk id kind d => cases kind <;> rfl

/-! ## the live class table (Generated/PrintTables.lean) -/

/-- on the table of the live code: `If_Construct` (273) with ELSE (189) inside `Execution_Part` (228) -/
example : String.ofList (tofortran Generated.tbl false []
      (.block 228 [.block 273 [st 275 "IF (a) THEN", st 20 "x = 1", st 189 "ELSE", st 20 "x = 2", st 196 "END IF"]]))
    = "IF (a) THEN\n  x = 1\nELSE\n  x = 2\nEND IF" := by
  decide +kernel

end Fp.Print.Props

#print axioms Fp.Print.Props.print_lines_eq_slots
#print axioms Fp.Print.Props.print_lines_eq_frontier
#print axioms Fp.Print.Props.print_lines_are_leaf_prints
#print axioms Fp.Print.Props.one_tab_per_element
#print axioms Fp.Print.Props.single_element_printed_twice
#print axioms Fp.Print.Props.empty_block_prints_blank_line
#print axioms Fp.Print.Props.empty_special_raises
#print axioms Fp.Print.Props.sane_prints
#print axioms Fp.Print.Props.print_lines_reread_partial
#print axioms Fp.Print.Props.print_lines_reread_blank_last
#print axioms Fp.Print.Props.trailing_blank_comment_lost
#print axioms Fp.Print.Props.print_indent_depth
#print axioms Fp.Print.Props.depth_opener_end
#print axioms Fp.Print.Props.depth_blockBase
#print axioms Fp.Print.Props.depth_componentPart
#print axioms Fp.Print.Props.depth_if
#print axioms Fp.Print.Props.depth_case
#print axioms Fp.Print.Props.depth_where
#print axioms Fp.Print.Props.depth_labelDo
#print axioms Fp.Print.Props.depth_actionTerm
#print axioms Fp.Print.Props.print_compositional
#print axioms Fp.Print.Props.print_compositional_zip
#print axioms Fp.Print.Props.print_blockBase
#print axioms Fp.Print.Props.print_if
#print axioms Fp.Print.Props.print_case
#print axioms Fp.Print.Props.print_where
#print axioms Fp.Print.Props.print_labelDo
#print axioms Fp.Print.Props.print_componentPart
#print axioms Fp.Print.Props.print_actionTerm
#print axioms Fp.Print.Props.tofortran_eq_render
#print axioms Fp.Print.Props.print_tokens_lift
#print axioms Fp.Print.Props.print_label_name_reread
#print axioms Fp.Print.Props.print_items_in_place
#print axioms Fp.Print.Props.print_comments_in_place
#print axioms Fp.Print.Props.runC
