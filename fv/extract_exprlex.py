"""Translator for the string level of model M-C (lean/FparserModel/ExprLex.lean): tabulate the
behaviour of the REAL compiled operator regexes of fparser.two.pattern_tools that the Lean hand
scanners (`Fp.ExprLex.matchAt` / `scan`) replace, over every string of <= MAXLEN letters of a
small per-pattern alphabet, and write the tables plus the checker that replays the Lean
scanners over the same enumeration to lean/FparserModel/Generated/ExprLexTables.lean.

    power mult add concat rel reldot not and or equiv defined
            `pattern.named().get_compiled().split(s)` (what Pattern.rsplit/lsplit start from),
            output = pieces joined by `|`, or "" when there is no match   vs  Fp.ExprLex.splitAll
    nondef  `non_defined_binary_op.match(s)`  (exclude_op_pattern of Expr)  vs  nonDefinedMatch
    reallit `abs_real_literal_constant.match(s)` (is_add branch of rsplit)  vs  absRealLit

The regex objects are read from the imported repo module (never re-typed here), so a change of
a pattern in the repo changes the table. The agreement obligation is discharged by the driver
command `exprlex.table <name>` (exhaustive, run by fv.cosim_exprlex); per pattern a sub-table
(all words of <= 4 letters of a 5-letter alphabet) is in addition kernel-checked
(`decide +kernel`) inside the generated file.

Table encoding as in extract_token.py: inputs enumerated in a canonical order (by length,
then lexicographically by alphabet index) by both sides; only the entries whose output differs
from the table's default are stored, as lines `index<space>output`.
"""
import itertools
import os
import sys

from fv import repo

# table name -> (pattern_tools attribute, Lean Pat constructor, alphabet, max length)
SPLIT_TABLES = {
    "power": ("power_op", "power", ["a", " ", "*", "/", "+", "."], 5),
    "mult": ("mult_op", "mult", ["a", " ", "*", "/", "=", "+"], 5),
    "add": ("add_op", "add", ["a", " ", "+", "-", "*", "e", "1"], 5),
    "concat": ("concat_op", "concat", ["a", " ", "/", "*", "=", "\t"], 5),
    "rel": ("rel_op", "rel", ["a", " ", "=", "/", "<", ">", ".", "e", "q"], 5),
    "reldot": ("rel_op", "rel", [".", " ", "e", "q", "E", "l", "t", "G"], 5),
    "not": ("not_op", "not", [".", " ", "n", "o", "t", "N", "a", "\t"], 5),
    "and": ("and_op", "and", [".", " ", "a", "n", "d", "D", "x"], 5),
    "or": ("or_op", "or", [".", " ", "o", "r", "R", "x", "\t", "1"], 5),
    "equiv": ("equiv_op", "equiv", [".", " ", "e", "q", "v", "n"], 6),
    "defined": ("defined_binary_op", "defined", [".", " ", "a", "Z", "1", "\t", "+"], 5),
    "definedu": ("defined_unary_op", "defined", [".", " ", "a", "Z", "_"], 5),
}
BOOL_TABLES = {
    "nondef": ("non_defined_binary_op", "nonDefinedMatch", [".", "t", "r", "u", "e", " "], 6),
    "nondef2": ("non_defined_binary_op", "nonDefinedMatch", ["*", "/", "=", "<", "+", ".", "a", " "], 4),
    "reallit": ("abs_real_literal_constant", "absRealLit", ["1", ".", "e", "+", "_", "a", "\t"], 6),
    "reallit2": ("abs_real_literal_constant", "absRealLit", ["2", ".", "D", "-", "_", "$", "1", "E"], 5),
}
# kernel-checked sub-tables: name -> (split table it instantiates, alphabet, max length)
KERNEL = {
    "power4": ("power", ["a", " ", "*", "/", "."], 4),
    "mult4": ("mult", ["a", " ", "*", "/", "="], 4),
    "add4": ("add", ["a", " ", "+", "-", "*"], 4),
    "concat4": ("concat", ["a", " ", "/", "*", "="], 4),
    "rel4": ("rel", ["a", "=", "/", "<", ">"], 4),
    "reldot4": ("reldot", [".", " ", "e", "q", "L"], 4),
    "not5": ("not", [".", "n", "o", "T"], 5),
    "and5": ("and", [".", "a", "n", "D"], 5),
    "or4": ("or", [".", " ", "o", "R", "x"], 4),
    "equiv5": ("equiv", [".", "e", "q", "V"], 5),
    "defined4": ("defined", [".", " ", "a", "Z", "1"], 4),
}
SEP = "|"


def patterns():
    repo.activate()
    from fparser.two import pattern_tools as pt
    return pt


def split_oracle(attr):
    pt = patterns()
    compiled = getattr(pt, attr).named().get_compiled()

    def f(s):
        t = compiled.split(s)
        return SEP.join(t) if len(t) > 1 else ""
    return f


def pieces_oracle(attr):
    pt = patterns()
    compiled = getattr(pt, attr).named().get_compiled()
    return compiled.split


def bool_oracle(attr):
    pt = patterns()
    pat = getattr(pt, attr)
    return lambda s: "1" if pat.match(s) else "0"


def enumerate_inputs(alphabet, maxlen):
    for n in range(maxlen + 1):
        for tup in itertools.product(alphabet, repeat=n):
            yield "".join(tup)


def lean_str(s):
    out = ['"']
    for ch in s:
        o = ord(ch)
        if ch == "\\":
            out.append("\\\\")
        elif ch == '"':
            out.append('\\"')
        elif ch == "\n":
            out.append("\\n")
        elif ch == "\t":
            out.append("\\t")
        elif 32 <= o < 127:
            out.append(ch)
        elif o < 256:
            out.append("\\x%02x" % o)
        else:
            out.append("\\u{%x}" % o)
    out.append('"')
    return "".join(out)


def tabulate(oracle, alphabet, maxlen):
    outs = [oracle(s) for s in enumerate_inputs(alphabet, maxlen)]
    counts = {}
    for o in outs:
        counts[o] = counts.get(o, 0) + 1
    default = max(sorted(counts), key=lambda k: counts[k])
    sparse = [(i, o) for i, o in enumerate(outs) if o != default]
    return outs, default, sparse


PREAMBLE = '''import FparserModel.ExprLex
/-!
GENERATED by fv/extract_exprlex.py - do not edit.
Tables of the behaviour of the repo's compiled operator regexes (pattern_tools.py) over all
strings of a few letters of small alphabets, and the checker `Fp.ExprLexTables.check` replaying
the Lean hand scanners of FparserModel/ExprLex.lean over the same enumeration (driver command
`exprlex.table`). The regular expressions the tables were made from:
%(regexes)s
-/
namespace Fp.ExprLexTables
open Fp Fp.ExprLex

structure Table where
  name : String
  alphabet : List String
  maxLen : Nat
  default : String
  total : Nat
  sparse : String     -- lines "index output"

/-- all words of exactly `n` letters, lexicographic by alphabet index -/
def wordsOfLen (alphabet : List String) : Nat → List String
  | 0 => [""]
  | n+1 => alphabet.flatMap fun a => (wordsOfLen alphabet n).map fun w => a ++ w

/-- canonical enumeration: by length, then lexicographic -/
def enumInputs (alphabet : List String) (maxLen : Nat) : List String :=
  (List.range (maxLen + 1)).flatMap (wordsOfLen alphabet)

def patOfName : String → Option Pat
  | "power" => some .power | "mult" => some .mult | "add" => some .add | "concat" => some .concat
  | "rel" => some .rel | "not" => some .not | "and" => some .and | "or" => some .or
  | "equiv" => some .equiv | "defined" => some .defined
  | _ => none

def bit (b : Bool) : String := if b then "1" else "0"

/-- `"|".join(compiled.split(s))`, or "" when there is no match -/
def splitOut (p : Pat) (s : String) : String :=
  let t := splitAll p s.toList
  if t.length > 1 then "|".intercalate (t.map String.ofList) else ""

def parseSparse (s : String) : List (Nat × String) :=
  (s.splitOn "\\n").filterMap fun line =>
    if line.isEmpty then none else
    let ds := line.toList.takeWhile Char.isDigit
    some ((String.ofList ds).toNat!, String.ofList (line.toList.drop (ds.length + 1)))

def expected (t : Table) : Array String :=
  (parseSparse t.sparse).foldl (fun a (p : Nat × String) => a.setIfInBounds p.1 p.2)
    (Array.replicate t.total t.default)

/-- (number of mismatches, number of inputs, description of the first mismatch) -/
def checkTable (t : Table) (f : String → String) : Nat × Nat × String :=
  let ins := enumInputs t.alphabet t.maxLen
  let exp := expected t
  let r := ins.foldl (fun (acc : Nat × Nat × String) s =>
      let (i, bad, first) := acc
      let got := f s
      let want := exp.getD i "?"
      if got == want then (i + 1, bad, first)
      else (i + 1, bad + 1,
        if bad == 0 then s!"input {s.quote} model {got.quote} regex {want.quote}" else first))
    (0, 0, "")
  (r.2.1 + (if r.1 == t.total then 0 else 1), r.1, r.2.2)

/-- the Lean scanner standing for each tabulated regex behaviour -/
def scanner : String → Option (String → String)
%(scanners)s  | _ => none
'''

TAIL = '''
def check (name : String) : Option (Nat × Nat × String) :=
  match tables.find? (·.name == name), scanner name with
  | some t, some f => some (checkTable t f)
  | _, _ => none

/-- words over a character alphabet, same canonical order, kernel-friendly (no `String`) -/
def wordsL (alphabet : List Char) : Nat → List Str
  | 0 => [[]]
  | n+1 => alphabet.flatMap fun a => (wordsL alphabet n).map fun w => a :: w
def enumL (alphabet : List Char) (maxLen : Nat) : List Str :=
  (List.range (maxLen + 1)).flatMap (wordsL alphabet)
%(kernel)s
end Fp.ExprLexTables
'''


def render():
    pt = patterns()
    regexes = []
    seen = set()
    for name, (attr, _, _, _) in list(SPLIT_TABLES.items()) + list(BOOL_TABLES.items()):
        if attr in seen:
            continue
        seen.add(attr)
        p = getattr(pt, attr)
        regexes.append("    %-26s %s   flags=%d" % (attr, p.pattern, int(p._flags)))  # pylint: disable=protected-access
    scanners = []
    for name, (_, ctor, _, _) in SPLIT_TABLES.items():
        scanners.append("  | %s => some (splitOut .%s)\n" % (lean_str(name), ctor))
    for name, (_, fn, _, _) in BOOL_TABLES.items():
        scanners.append("  | %s => some fun s => bit (%s s.toList)\n" % (lean_str(name), fn))
    parts = [PREAMBLE % {"regexes": "\n".join(regexes), "scanners": "".join(scanners)}]
    stats = {}
    names = []
    for name, (attr, _, alphabet, maxlen) in SPLIT_TABLES.items():
        outs, default, sparse = tabulate(split_oracle(attr), alphabet, maxlen)
        stats[name] = (len(outs), len(sparse))
        names.append((name, alphabet, maxlen, default, len(outs), sparse))
    for name, (attr, _, alphabet, maxlen) in BOOL_TABLES.items():
        outs, default, sparse = tabulate(bool_oracle(attr), alphabet, maxlen)
        stats[name] = (len(outs), len(sparse))
        names.append((name, alphabet, maxlen, default, len(outs), sparse))
    for name, alphabet, maxlen, default, total, sparse in names:
        body = "".join("%d %s\n" % (i, o) for i, o in sparse)
        parts.append("\ndef %sTable : Table := {\n  name := %s\n  alphabet := [%s]\n"
                     "  maxLen := %d\n  default := %s\n  total := %d\n  sparse := %s }\n"
                     % (name, lean_str(name), ", ".join(lean_str(a) for a in alphabet), maxlen,
                        lean_str(default), total, lean_str(body)))
    parts.append("\ndef tables : List Table := [%s]\n" % ", ".join(n[0] + "Table" for n in names))
    kparts = []
    for kname, (tname, alpha, mlen) in KERNEL.items():
        attr, ctor, _, _ = SPLIT_TABLES[tname]
        split = pieces_oracle(attr)
        lens = [[len(x) for x in split(w)] for w in enumerate_inputs(alpha, mlen)]
        stats[kname] = (len(lens), sum(1 for x in lens if len(x) > 1))
        kparts.append(
            "\n/-- kernel-checked instance of the agreement obligation: the lengths of the pieces of\n"
            "    `%s.named().get_compiled().split(w)` on all %d words of <= %d letters of a %d-letter\n"
            "    alphabet -/\n"
            "def %sAlphabet : List Char := [%s]\n"
            "def %sExpected : List (List Nat) := [%s]\n"
            "theorem %s_agrees :\n"
            "    (enumL %sAlphabet %d).map (fun w => (splitAll .%s w).map List.length) = %sExpected := by\n"
            "  decide +kernel\n"
            % (attr, len(lens), mlen, len(alpha), kname,
               ", ".join("Char.ofNat %d" % ord(a) for a in alpha), kname,
               ", ".join("[" + ",".join(str(n) for n in x) + "]" for x in lens),
               kname, kname, mlen, ctor, kname))
    parts.append(TAIL % {"kernel": "".join(kparts)})
    return "".join(parts), stats


TABLE_NAMES = list(SPLIT_TABLES) + list(BOOL_TABLES)


def generate(outdir=None):
    """Write ExprLexTables.lean into `outdir` (default: lean/FparserModel/Generated of this
    tree). Returns {table: (inputs, non-default entries)}."""
    if outdir is None:
        outdir = os.path.join(os.path.dirname(os.path.dirname(os.path.abspath(__file__))),
                              "lean", "FparserModel", "Generated")
    os.makedirs(outdir, exist_ok=True)
    text, stats = render()
    path = os.path.join(outdir, "ExprLexTables.lean")
    old = None
    if os.path.exists(path):
        with open(path, encoding="utf-8") as f:
            old = f.read()
    if old != text:
        with open(path, "w", encoding="utf-8") as f:
            f.write(text)
    return stats


if __name__ == "__main__":
    print(generate(sys.argv[1] if len(sys.argv) > 1 else None))
