import FparserModel.Proofs.Reader4Bridge

/-!
# Reader4Hic — `handle_inline_comment` against the character-level quote automaton

`cutBang s l` cuts `l` at the first `!` that the automaton reads outside a character literal.
`hicWalk_splitquote`: the walk of `handle_inline_comment` over the `splitquote` items finds
exactly that cut. From it the two facts used by the continuation theorems:

* `hic_code`    : no `!` outside a literal → the line is returned unchanged and the returned
                  quote character is `quoteStateAfter q line`;
* `hic_comment` : `code ++ '!' :: text` with `code` as above ending outside a literal → the
                  comment `'!' :: text` is split off (whatever quotes it contains), `code` is
                  returned and the returned quote character is `none`.
-/
namespace Fp.Reader
open Fp
open Fp.Splitline (QState qstep qrun qinit qfinal quoteStateAfter)

/-- the automaton is inside a literal -/
def isIn : QState → Bool
  | .inLit _ => true
  | _ => false

def pfx (a : Str) (o : Option (Str × Str)) : Option (Str × Str) := o.map fun r => (a ++ r.1, r.2)

@[simp] theorem pfx_none (a : Str) : pfx a none = none := rfl
@[simp] theorem pfx_some (a x y : Str) : pfx a (some (x, y)) = some (a ++ x, y) := rfl
@[simp] theorem pfx_nil (o : Option (Str × Str)) : pfx [] o = o := by
  cases o <;> simp [pfx]
theorem pfx_pfx (a b : Str) (o : Option (Str × Str)) : pfx a (pfx b o) = pfx (a ++ b) o := by
  cases o <;> simp [pfx]

/-- cut at the first `!` read outside a character literal, starting in state `s` -/
def cutBang : QState → Str → Option (Str × Str)
  | _, [] => none
  | s, c :: cs =>
    if !isIn s && c == '!' then some ([], c :: cs)
    else pfx [c] (cutBang (qstep s c) cs)

/-- no `!` outside a character literal -/
def bangFree : QState → Str → Bool
  | _, [] => true
  | s, c :: cs => (isIn s || c != '!') && bangFree (qstep s c) cs

theorem cutBang_none_iff (s : QState) (l : Str) : cutBang s l = none ↔ bangFree s l = true := by
  induction l generalizing s with
  | nil => simp [cutBang, bangFree]
  | cons c cs ih =>
    simp only [cutBang, bangFree]
    by_cases h : (!isIn s && c == '!') = true
    · simp only [h, if_true]
      constructor
      · intro h'; cases h'
      · intro h'
        simp only [Bool.and_eq_true, Bool.not_eq_true', beq_iff_eq] at h
        simp [h.1, h.2] at h'
    · simp only [h, if_false]
      have h2 : (isIn s || c != '!') = true := by
        cases hi : isIn s <;> simp_all
      simp only [h2, Bool.true_and, ← ih]
      cases cutBang (qstep s c) cs <;> simp [pfx]

theorem bangFree_append (s : QState) (a b : Str) :
    bangFree s (a ++ b) = (bangFree s a && bangFree (qrun s a) b) := by
  induction a generalizing s with
  | nil => simp [bangFree]
  | cons c cs ih => simp [bangFree, ih, Bool.and_assoc]

theorem cutBang_append_bang (s : QState) (code text : Str) (hb : bangFree s code = true)
    (hq : isIn (qrun s code) = false) :
    cutBang s (code ++ '!' :: text) = some (code, '!' :: text) := by
  induction code generalizing s with
  | nil =>
    simp only [Fp.Splitline.qrun_nil] at hq
    simp [cutBang, hq]
  | cons c cs ih =>
    simp only [bangFree, Bool.and_eq_true] at hb
    simp only [Fp.Splitline.qrun_cons] at hq
    have h : (!isIn s && c == '!') = false := by
      cases hi : isIn s <;> simp_all
    simp only [List.cons_append, cutBang, h, Bool.false_eq_true, if_false, ih _ hb.2 hq]
    rfl

/-! ### the pieces of `splitquote` seen by `cutBang` -/

theorem spanPlain_noquote (l : Str) : ∀ x ∈ (spanPlain l).1, isQuote x = false := by
  induction l with
  | nil => intro x hx; cases hx
  | cons c cs ih =>
    unfold spanPlain
    by_cases hc : isQuote c = true
    · simp [hc]
    · simp only [hc, Bool.false_eq_true, if_false]
      intro x hx
      simp only [List.mem_cons] at hx
      rcases hx with rfl | hx
      · simpa using hc
      · exact ih x hx

theorem isQuote_ne_bang {q : Char} (h : isQuote q = true) : (q == '!') = false := by
  unfold isQuote at h
  simp only [Bool.or_eq_true, beq_iff_eq] at h
  rcases h with rfl | rfl <;> decide

theorem cutBang_plain (p r : Str) (hp : ∀ x ∈ p, isQuote x = false) :
    cutBang .outside (p ++ r) =
      match find p '!' with
      | some j => some (p.take j, p.drop j ++ r)
      | none => pfx p (cutBang .outside r) := by
  induction p with
  | nil => simp [find]
  | cons c cs ih =>
    have hc : isQuote c = false := hp c List.mem_cons_self
    have hc' : Fp.Splitline.isQuote c = false := hc
    have ih' := ih (fun x hx => hp x (List.mem_cons_of_mem _ hx))
    by_cases hb : c = '!'
    · subst hb
      simp [cutBang, isIn, find, List.findIdx?_cons]
    · have hb' : (c == '!') = false := by simpa using hb
      simp only [List.cons_append, cutBang, hb', Bool.and_false, Bool.false_eq_true, if_false,
        qstep, hc', ih']
      unfold find at *
      simp only [List.findIdx?_cons, hb', Bool.false_eq_true, if_false]
      cases List.findIdx? (fun x => x == '!') cs with
      | none => simp [pfx_pfx]
      | some j => simp

theorem cutBang_inLit_cons (q c : Char) (cs : Str) :
    cutBang (.inLit q) (c :: cs) = pfx [c] (cutBang (if c == q then .pending q else .inLit q) cs) := by
  simp [cutBang, isIn, qstep]

theorem cutBang_pending_self (q : Char) (hq : isQuote q = true) (cs : Str) :
    cutBang (.pending q) (q :: cs) = pfx [q] (cutBang (.inLit q) cs) := by
  have := isQuote_ne_bang hq
  simp [cutBang, isIn, qstep, this]

theorem cutBang_spanLit_none (q : Char) (hq : isQuote q = true) (l : Str) (h : spanLit q l = none) :
    cutBang (.inLit q) l = none := by
  rw [spanLit_eq] at h
  have hqb := isQuote_ne_bang hq
  fun_induction Fp.Splitline.spanLit q l
  · rfl
  · simp_all
  · rename_i c hc
    rw [cutBang_inLit_cons]; simp [cutBang]
  · simp_all
  · rename_i c d cs hc hd hr ih
    simp only [beq_iff_eq] at hc hd
    subst hc; subst hd
    rw [cutBang_inLit_cons]
    simp only [beq_self_eq_true, if_true]
    rw [cutBang_pending_self _ hq, ih hr]; rfl
  · simp_all
  · simp_all
  · rename_i c d cs hc hr ih
    rw [cutBang_inLit_cons]
    simp only [hc, Bool.false_eq_true, if_false, ih hr]; rfl

theorem cutBang_pending (q : Char) (hq : isQuote q = true) (b : Str) (hb : b.head? ≠ some q) :
    cutBang (.pending q) b = cutBang .outside b := by
  cases b with
  | nil => rfl
  | cons c cs =>
    have : c ≠ q := by simpa using hb
    simp [cutBang, isIn, qstep, this]

theorem cutBang_spanLit_some (q : Char) (hq : isQuote q = true) (l a b : Str)
    (h : spanLit q l = some (a, b)) :
    cutBang (.inLit q) l = pfx a (cutBang .outside b) := by
  rw [spanLit_eq] at h
  have hb := (Fp.Splitline.qrun_spanLit_some q l a b h).2
  rw [← cutBang_pending q hq b hb]
  clear hb
  fun_induction Fp.Splitline.spanLit q l generalizing a b
  · cases h
  · rename_i c hc
    simp only [beq_iff_eq] at hc
    subst hc
    simp only [Option.some.injEq, Prod.mk.injEq] at h
    obtain ⟨rfl, rfl⟩ := h
    rw [cutBang_inLit_cons]; simp [cutBang]
  · simp_all
  · rename_i c d cs hc hd r hr ih
    simp only [beq_iff_eq] at hc hd
    subst hc; subst hd
    simp only [Option.some.injEq, Prod.mk.injEq] at h
    obtain ⟨rfl, rfl⟩ := h
    have := ih r.1 r.2 (by simp [hr])
    rw [cutBang_inLit_cons]
    simp only [beq_self_eq_true, if_true]
    rw [cutBang_pending_self _ hq, this, pfx_pfx, pfx_pfx]; rfl
  · simp_all
  · rename_i c d cs hc hd
    simp only [beq_iff_eq] at hc
    subst hc
    simp only [Option.some.injEq, Prod.mk.injEq] at h
    obtain ⟨rfl, rfl⟩ := h
    rw [cutBang_inLit_cons]; simp
  · rename_i c d cs hc r hr ih
    simp only [Option.some.injEq, Prod.mk.injEq] at h
    obtain ⟨rfl, rfl⟩ := h
    have := ih r.1 r.2 (by simp [hr])
    rw [cutBang_inLit_cons]
    simp only [hc, Bool.false_eq_true, if_false, this, pfx_pfx]; rfl
  · simp_all

/-! ### the walk of `handle_inline_comment` over the `splitquote` items -/

theorem hicWalk_plain (p : Str) (X : List Seg) (acc : Str) :
    hicWalk ((if p = [] then [] else [Seg.plain p]) ++ X) acc =
      match find p '!' with
      | none => hicWalk X (acc ++ p)
      | some j => some (acc ++ p.take j, p.drop j ++ (X.map Seg.str).flatten) := by
  cases p with
  | nil => simp [find]
  | cons c cs =>
    simp only [reduceCtorEq, if_false, List.cons_append, List.nil_append, hicWalk]
    cases find (c :: cs) '!' <;> rfl

theorem cutBang_outside_quote (q : Char) (hq : isQuote q = true) (body : Str) :
    cutBang .outside (q :: body) = pfx [q] (cutBang (.inLit q) body) := by
  have h1 := isQuote_ne_bang hq
  have h2 : Fp.Splitline.isQuote q = true := hq
  simp [cutBang, isIn, qstep, h1, h2]

theorem hicWalk_splitLoop (n : Nat) : ∀ (l acc : Str), l.length < n →
    hicWalk (splitLoop n l).1 acc = pfx acc (cutBang .outside l) := by
  induction n with
  | zero => intro l acc h; omega
  | succ n ih =>
    intro l acc hlen
    rw [splitLoop]
    by_cases hl : l = []
    · subst hl; simp [hicWalk, cutBang]
    · simp only [hl, if_false]
      have hj := Fp.Splitline.spanPlain_join l
      have hln := Fp.Splitline.spanPlain_length l
      have hnq := spanPlain_noquote l
      have hhd := Fp.Splitline.spanPlain_head l
      rw [← spanPlain_eq] at hj hln hhd
      rcases hsp : spanPlain l with ⟨p, r⟩
      rw [hsp] at hj hln hnq
      simp only at hj hln hnq
      cases r with
      | nil =>
        simp only [List.append_nil] at hj
        subst hj
        have := cutBang_plain p [] hnq
        simp only [List.append_nil] at this
        rw [this]
        simp only [hicWalk]
        cases find p '!' <;> simp [hicWalk, cutBang]
      | cons q body =>
        have hq : isQuote q = true := hhd p body q hsp
        simp only
        rw [← hj, cutBang_plain p (q :: body) hnq, cutBang_outside_quote q hq]
        cases hlit : spanLit q body with
        | none =>
          simp only [hicWalk_plain, cutBang_spanLit_none q hq body hlit]
          cases find p '!' <;> simp [hicWalk, Seg.str]
        | some lr =>
          rcases lr with ⟨lit, rest⟩
          have hlit' := hlit
          rw [spanLit_eq] at hlit'
          have h1 := Fp.Splitline.spanLit_join _ _ _ _ hlit'
          have h2 := Fp.Splitline.spanLit_length _ _ _ _ hlit'
          have hr : rest.length < n := by simp at hln; omega
          simp only [hicWalk_plain, cutBang_spanLit_some q hq body lit rest hlit]
          cases find p '!' with
          | none =>
            simp only [hicWalk, ih rest _ hr, pfx_pfx]
            simp [Seg.str, List.append_assoc]
          | some j =>
            simp only [List.map_cons, List.flatten_cons, Seg.str, splitLoop_flat n rest hr, pfx_some]
            simp [h1]

theorem hicWalk_splitquote (l : Str) (q : Option Char) (acc : Str)
    (hq : ∀ c, q = some c → isQuote c = true) :
    hicWalk (splitquote l q).1 acc = pfx acc (cutBang (qinit q) l) := by
  unfold splitquote
  cases q with
  | none => exact hicWalk_splitLoop _ l acc (by omega)
  | some c =>
    have hc := hq c rfl
    simp only [qinit]
    cases hlit : spanLit c l with
    | none => simp [hicWalk, cutBang_spanLit_none c hc l hlit]
    | some lr =>
      rcases lr with ⟨lit, rest⟩
      simp only [hicWalk, cutBang_spanLit_some c hc l lit rest hlit,
        hicWalk_splitLoop _ rest _ (Nat.lt_succ_self _), pfx_pfx, Seg.str]

/-! ### `handle_inline_comment` -/

theorem qrun_noquote (l : Str) (h : ∀ x ∈ l, isQuote x = false) : qrun .outside l = .outside := by
  induction l with
  | nil => rfl
  | cons c cs ih =>
    have hc : Fp.Splitline.isQuote c = false := h c List.mem_cons_self
    simp only [Fp.Splitline.qrun_cons, qstep, hc, Bool.false_eq_true, if_false]
    exact ih (fun x hx => h x (List.mem_cons_of_mem _ hx))

theorem isIn_of_final_none {s : QState} (h : qfinal s = none) : isIn s = false := by
  cases s <;> simp_all [qfinal, isIn]

theorem hicSlow_code (line : Str) (n : Nat) (q : Option Char)
    (hq : ∀ c, q = some c → isQuote c = true) (hb : bangFree (qinit q) line = true) :
    hicSlow line n q = ⟨line, quoteStateAfter q line, false, []⟩ := by
  unfold hicSlow
  have := hicWalk_splitquote line q [] hq
  rw [(cutBang_none_iff _ _).mpr hb] at this
  simp only [this, pfx_none, splitquote_flat, splitquote_snd]

theorem hicSlow_comment (code text : Str) (n : Nat) (q : Option Char)
    (hq : ∀ c, q = some c → isQuote c = true) (hb : bangFree (qinit q) code = true)
    (hout : quoteStateAfter q code = none) :
    hicSlow (code ++ '!' :: text) n q = ⟨code, none, true, [.comment ('!' :: text) n n false]⟩ := by
  unfold hicSlow
  have := hicWalk_splitquote (code ++ '!' :: text) q [] hq
  rw [cutBang_append_bang _ code text hb (isIn_of_final_none hout)] at this
  simp only [this, pfx_some, List.nil_append]

/-- a `!` found by `str.find` in a text without `!` outside literals is preceded by a quote -/
theorem bangFree_find_quote : ∀ (l : Str) (idx : Nat), bangFree .outside l = true →
    find l '!' = some idx → ∃ x ∈ l.take idx, isQuote x = true := by
  intro l
  induction l with
  | nil => intro idx _ h; simp [find] at h
  | cons c cs ih =>
    intro idx hb hf
    simp only [bangFree, isIn, Bool.false_or, Bool.and_eq_true, bne_iff_ne, ne_eq] at hb
    have hc : (c == '!') = false := by simpa using hb.1
    unfold find at hf ih
    simp only [List.findIdx?_cons, hc, Bool.false_eq_true, if_false, Option.map_eq_some_iff] at hf
    obtain ⟨j, hj, rfl⟩ := hf
    by_cases hcq : isQuote c = true
    · exact ⟨c, by simp, hcq⟩
    · have hcq0 : isQuote c = false := by simpa using hcq
      have hcq' : Fp.Splitline.isQuote c = false := hcq0
      simp only [qstep, hcq', Bool.false_eq_true, if_false] at hb
      obtain ⟨x, hx, hxq⟩ := ih j hb.2 hj
      exact ⟨x, by simp [hx], hxq⟩

theorem quote_contains {l : Str} (h : ∃ x ∈ l, isQuote x = true) :
    (!l.contains '"' && !l.contains '\'') = false := by
  obtain ⟨x, hx, hq⟩ := h
  unfold isQuote at hq
  simp only [Bool.or_eq_true, beq_iff_eq] at hq
  rcases hq with rfl | rfl
  · have : l.contains '\'' = true := List.contains_iff_mem.mpr hx
    rw [this]; simp
  · have : l.contains '"' = true := List.contains_iff_mem.mpr hx
    rw [this]; simp

theorem noquote_contains {l : Str} (h : ∀ x ∈ l, isQuote x = false) :
    l.contains '"' = false ∧ l.contains '\'' = false := by
  constructor
  · apply contains_false; intro x hx e; subst e; have := h _ hx; simp [isQuote] at this
  · apply contains_false; intro x hx e; subst e; have := h _ hx; simp [isQuote] at this

theorem hicQuick_code (line : Str) (n : Nat) (q : Option Char)
    (hb : bangFree (qinit q) line = true) : hicQuick line n q = none := by
  unfold hicQuick
  cases q with
  | some c => rfl
  | none =>
    cases hf : find line '!' with
    | none => rfl
    | some idx =>
      simp only [quote_contains (bangFree_find_quote line idx hb hf), Bool.false_eq_true, if_false]

/-- **`hic_code`**: a line without `!` outside character literals (reading from the incoming
    quote state `q`) is returned unchanged, no comment is queued, and the returned quote
    character is the state of the quote automaton after the line. -/
theorem hic_code (line : Str) (n : Nat) (q : Option Char)
    (hq : ∀ c, q = some c → isQuote c = true) (hb : bangFree (qinit q) line = true) :
    handleInlineComment line n q = ⟨line, quoteStateAfter q line, false, []⟩ := by
  unfold handleInlineComment
  split
  · rename_i h
    simp only [Bool.and_eq_true, Bool.not_eq_true', Option.isNone_iff_eq_none] at h
    obtain ⟨⟨⟨rfl, _⟩, h2⟩, h3⟩ := h
    have : ∀ x ∈ line, isQuote x = false := by
      intro x hx
      unfold isQuote
      have e1 : x ≠ '"' := fun e => by subst e; rw [List.contains_iff_mem.mpr hx] at h2; cases h2
      have e2 : x ≠ '\'' := fun e => by subst e; rw [List.contains_iff_mem.mpr hx] at h3; cases h3
      simp [e1, e2]
    simp [quoteStateAfter, qinit, qrun_noquote line this, qfinal]
  · rw [hicQuick_code line n q hb, hicSlow_code line n q hq hb]

/-- the `inline_comment` flag of the Comment item split off a line `code ! text` -/
def hicInline (q : Option Char) (code text : Str) : Bool :=
  q.isNone && !code.contains '"' && !code.contains '\'' && !startsWith ('!' :: text) kF2py
    && (lstrip code != [])

theorem find_append_left {l r : Str} {c : Char} {j : Nat} (h : find l c = some j) :
    find (l ++ r) c = some j := by
  unfold find at *
  rw [List.findIdx?_append, h]; rfl

theorem lstrip_append_of_ne {a b : Str} (h : lstrip a ≠ []) : lstrip (a ++ b) = lstrip a ++ b := by
  unfold lstrip at *
  induction a with
  | nil => simp at h
  | cons c cs ih =>
    simp only [List.cons_append, List.dropWhile_cons] at h ⊢
    by_cases hc : isSpace c = true
    · simp only [hc, if_true] at h ⊢; exact ih h
    · simp [hc]

theorem allSpace_of_lstrip_nil : ∀ (l : Str), lstrip l = [] → AllSpace l
  | [], _ => fun _ hc => by cases hc
  | c :: cs, h => by
    unfold lstrip at h
    simp only [List.dropWhile_cons] at h
    by_cases hc : isSpace c = true
    · simp only [hc, if_true] at h
      intro x hx
      simp only [List.mem_cons] at hx
      rcases hx with rfl | hx
      · exact hc
      · exact allSpace_of_lstrip_nil cs h x hx
    · simp [hc] at h

theorem noBang_of_noquote (l : Str) (h : ∀ x ∈ l, isQuote x = false)
    (hb : bangFree .outside l = true) : NoC '!' l := by
  induction l with
  | nil => exact NoC.nil
  | cons c cs ih =>
    have hc : Fp.Splitline.isQuote c = false := h c List.mem_cons_self
    simp only [bangFree, isIn, Bool.false_or, Bool.and_eq_true, bne_iff_ne, ne_eq, qstep, hc,
      Bool.false_eq_true, if_false] at hb
    intro x hx
    simp only [List.mem_cons] at hx
    rcases hx with rfl | hx
    · exact hb.1
    · exact ih (fun y hy => h y (List.mem_cons_of_mem _ hy)) hb.2 x hx

/-- **`hic_comment`**: `code ! text` where `code` has no `!` outside literals and ends outside
    a literal: the comment is split off whatever it contains (quotes, `&`, further `!`), `code`
    comes back, the returned quote character is `none`. -/
theorem hic_comment (code text : Str) (n : Nat) (q : Option Char)
    (hq : ∀ c, q = some c → isQuote c = true) (hb : bangFree (qinit q) code = true)
    (hout : quoteStateAfter q code = none) :
    handleInlineComment (code ++ '!' :: text) n q =
      ⟨code, none, true, [.comment ('!' :: text) n n (hicInline q code text)]⟩ := by
  have hcb : (code ++ '!' :: text).contains '!' = true := by simp
  unfold handleInlineComment
  simp only [hcb, Bool.not_true, Bool.and_false, Bool.false_and, Bool.false_eq_true, if_false]
  cases q with
  | some c =>
    simp only [hicQuick, hicSlow_comment code text n (some c) hq hb hout, hicInline,
      Option.isNone_some, Bool.false_and]
  | none =>
    by_cases hany : code.any isQuote = false
    · -- the quick method
      have hnq : ∀ x ∈ code, isQuote x = false := by
        intro x hx
        cases hxq : isQuote x with
        | false => rfl
        | true =>
          have : code.any isQuote = true := List.any_eq_true.mpr ⟨x, hx, hxq⟩
          rw [this] at hany; cases hany
      have hnb := noBang_of_noquote code hnq hb
      have hfind : find (code ++ '!' :: text) '!' = some code.length := find_hit hnb
      obtain ⟨c1, c2⟩ := noquote_contains hnq
      unfold hicQuick
      simp only [hfind, List.take_left', List.drop_left', c1, c2, Bool.not_false, Bool.and_self,
        if_true]
      by_cases hf : startsWith ('!' :: text) kF2py = true
      · simp only [hf, Bool.not_true, Bool.false_eq_true, if_false,
          hicSlow_comment code text n none hq hb hout, hicInline, Bool.and_false, Bool.false_and]
      · simp only [hf, Bool.not_false, if_true, hicInline, Option.isNone_none, c1, c2,
          Bool.true_and, Hic.mk.injEq, true_and, List.cons.injEq, Item.comment.injEq, and_true]
        by_cases hl : lstrip code = []
        · have hws : AllSpace code := allSpace_of_lstrip_nil code hl
          simp [hl, lstrip_ws_cons code text '!' hws (by decide)]
        · rw [lstrip_append_of_ne hl]
          have : lstrip code ++ '!' :: text ≠ '!' :: text := by
            intro e
            have := congrArg List.length e
            cases h' : lstrip code with
            | nil => exact hl h'
            | cons _ _ => rw [h'] at this; simp at this; omega
          have e1 : (lstrip code ++ '!' :: text == '!' :: text) = false := by simp [this]
          have e2 : (lstrip code != []) = true := by simp [hl]
          rw [e1, e2]; rfl
    · -- a quote before the `!`: the `splitquote` method
      have hex : ∃ x ∈ code, isQuote x = true := by
        have : code.any isQuote = true := by simpa using hany
        exact List.any_eq_true.mp this
      have hquick : hicQuick (code ++ '!' :: text) n none = none := by
        unfold hicQuick
        cases hf : find (code ++ '!' :: text) '!' with
        | none => rfl
        | some idx =>
          have : ∃ x ∈ (code ++ '!' :: text).take idx, isQuote x = true := by
            cases hfc : find code '!' with
            | some j =>
              have := find_append_left (r := '!' :: text) hfc
              rw [hf] at this
              cases this
              obtain ⟨x, hx, hxq⟩ := bangFree_find_quote code idx hb hfc
              have hj : idx ≤ code.length := by
                unfold find at hfc
                have := List.findIdx?_eq_some_iff_getElem.mp hfc
                obtain ⟨h, _⟩ := this; omega
              exact ⟨x, by rw [List.take_append_of_le_length hj]; exact hx, hxq⟩
            | none =>
              have hnb : NoC '!' code := by
                intro x hx e; subst e
                unfold find at hfc
                rw [List.findIdx?_eq_none_iff] at hfc
                simpa using hfc _ hx
              have := find_hit (c := '!') (b := text) hnb
              rw [hf] at this
              cases this
              obtain ⟨x, hx, hxq⟩ := hex
              exact ⟨x, by simp [hx], hxq⟩
          simp only [quote_contains this, Bool.false_eq_true, if_false]
      have hin : hicInline none code text = false := by
        have := quote_contains hex
        unfold hicInline
        cases h1 : code.contains '"' <;> cases h2 : code.contains '\'' <;> simp_all
      rw [hquick, hicSlow_comment code text n none hq hb hout, hin]

end Fp.Reader
