import FparserModel.Wire
import FparserModel.SymGlue
import FparserModel.Generated.SymGlueSites
import FpDriver.SymTree
/-!
Driver commands of the SymGlue model (trusted glue, no theorems).

* `symglue.run <std> <skeleton>` → status (`ok` | `abort:<kind>`), forest rendering (as `symtab`),
                                    current scope, reference kinds (comma separated)
* `symglue.sites`                 → the generated call-site facts (so that the harness can
                                    compare them with a fresh inspection of the live source)

Skeleton text, one item per line, blank separated tokens:

    S <kind> <name>          open scope (program module submodule function subroutine block main0)
    E                        close scope
    U <mod> plain|onlynone|only|ren <entry>…
                             entry = n:<name> | r:<local>:<use> | o:<local>:<use> | g:<hex> | d:<hex>
    D i:<hex>|d:<hex> <entity>…   entity = <name> | <name>@<refname>:<shapes>
    A <refname> <shapes>     shapes = string over s(ub) n(onsub) k(w), or `-` for no argument
    Q <silentkind> <name>
-/
namespace FpDriver.SymGlue
open Fp Fp.Wire Fp.SymGlue

def toks (s : String) : List String := (s.splitOn " ").filter (· ≠ "")

def parseShapes (s : String) : List Arg :=
  if s == "-" then [] else s.toList.map fun c => if c == 's' then .sub else if c == 'n' then .nonsub else .kw

def parseKind (s : String) : ScopeKind :=
  if s == "program" then .program else if s == "module" then .module
  else if s == "submodule" then .submodule else if s == "function" then .function
  else if s == "subroutine" then .subroutine else if s == "block" then .block else .main0

def parseREntry (e : String) : Option REntry :=
  match e.splitOn ":" with
  | ["r", l, u] => some (.sym l.toList u.toList)
  | ["o", l, u] => some (.op l.toList u.toList)
  | _ => none

def parseOEntry (e : String) : Option OEntry :=
  match e.splitOn ":" with
  | ["n", n] => some (.name n.toList)
  | ["g", h] => some (.generic (decL h))
  | ["d", h] => some (.dtio (decL h))
  | _ => (parseREntry e).map .ren

def parseEntity (e : String) : Entity :=
  match e.splitOn "@" with
  | [n, r] =>
    match r.splitOn ":" with
    | [rn, sh] => { name := n.toList, inner := some ⟨rn.toList, parseShapes sh⟩ }
    | _ => { name := n.toList }
  | _ => { name := e.toList }

def parseSilent (s : String) : Silent :=
  if s == "component" then .component else if s == "parameter" then .parameterStmt
  else if s == "dimension" then .dimensionStmt else if s == "external" then .externalStmt
  else if s == "stmtfunction" then .stmtFunction else .implicitName

def parseStmt (t : List String) : Option Stmt :=
  match t with
  | "U" :: m :: "plain" :: _ => some (.use m.toList .plain)
  | "U" :: m :: "onlynone" :: _ => some (.use m.toList .onlyNothing)
  | "U" :: m :: "only" :: es => some (.use m.toList (.only (es.filterMap parseOEntry)))
  | "U" :: m :: "ren" :: es => some (.use m.toList (.renames (es.filterMap parseREntry)))
  | "D" :: ts :: es =>
    let spec := match ts.splitOn ":" with
      | ["i", h] => TSpec.intrinsic (decL h)
      | [_, h] => TSpec.derived (decL h)
      | _ => TSpec.derived []
    some (.decl spec (es.map parseEntity))
  | ["A", n, sh] => some (.assign ⟨n.toList, parseShapes sh⟩)
  | ["Q", k, n] => some (.silent (parseSilent k) n.toList)
  | _ => none

/-- items until the matching `E` (or the end); returns the rest of the lines -/
def parseSk : Nat → List (List String) → Sk × List (List String)
  | 0, ls => (.nil, ls)
  | _ + 1, [] => (.nil, [])
  | fuel + 1, l :: ls =>
    match l with
    | ["E"] => (.nil, ls)
    | ["S", k, n] =>
      let (body, r1) := parseSk fuel ls
      let (rest, r2) := parseSk fuel r1
      (.scope (parseKind k) n.toList body rest, r2)
    | _ =>
      match parseStmt l with
      | some s => let (rest, r) := parseSk fuel ls; (.stmt s rest, r)
      | none => parseSk fuel ls

def parseStd (s : String) : Std := if s == "f2008" then .f2008 else .f2003

def abortStr : Abort → String
  | .syntaxError => "FortranSyntaxError"
  | .keyError => "KeyError"
  | .noMatch => "NoMatch"
  | .symtab => "SymbolTableError"

def kindStr : RefKind → String
  | .intrinsic => "I"
  | .partRef => "P"
  | .structCons => "S"

def handleRun (std text : String) : String :=
  let ls := ((text.splitOn "\n").map toks).filter (· ≠ [])
  let sk := (parseSk (2 * ls.length + 2) ls).1
  match run (parseStd std) sk {} with
  | .error a => "OK\t" ++ enc ("abort:" ++ abortStr a) ++ "\t" ++ enc "" ++ "\t" ++ enc "" ++ "\t" ++ enc ""
  | .ok st =>
    "OK\t" ++ enc "ok" ++ "\t" ++ enc (FpDriver.SymTree.renderForest st.tabs) ++ "\t"
    ++ enc (match st.tabs.cur with | none => "-" | some p => FpDriver.SymTree.showPath p) ++ "\t"
    ++ enc (",".intercalate (st.log.map kindStr))

def handleSites : String :=
  let sites := Generated.SymGlueSites.callSites.map fun e => e.1 ++ ":" ++ e.2.1 ++ ":" ++ e.2.2
  "OK\t" ++ enc ("\n".intercalate sites) ++ "\t"
  ++ enc (",".intercalate Generated.SymGlueSites.scoping2003) ++ "\t"
  ++ enc (",".intercalate Generated.SymGlueSites.scoping2008) ++ "\t"
  ++ enc (",".intercalate Generated.SymGlueSites.onlyAlternatives) ++ "\t"
  ++ enc (",".intercalate Generated.SymGlueSites.primaryAlternatives) ++ "\t"
  ++ enc (",".intercalate (Generated.SymGlueSites.onlyLoopBranches.map fun e => e.1 ++ ":" ++ e.2))

def handle : String → List String → Option String
  | "symglue.run", [s, t] => some (handleRun (dec s) (dec t))
  | "symglue.sites", _ => some handleSites
  | _, _ => none

end FpDriver.SymGlue
