import FparserModel.Wire
import FparserModel.Expr
import FparserModel.ExprCost

/-!
# driver commands of model M-C (expression chain)

`expr`        field1 = token list, words separated by blanks. A word is an optional `~`
              (glued: no white space before the token in the Fortran text) followed by
                `(`  `)`                      parentheses
                `@<n>`                        opaque operand number n (name, literal, a(i), f(x,y), a%b …)
                `@.<n>`                       operand spelled `.TRUE.`/`.FALSE.` (matched by the dotted regex)
                `** * / // + -`               arithmetic / concat operators
                `== /= < <= > >=`             relational, symbol spelling
                `.eq. .ne. .lt. .le. .gt. .ge.` relational, dotted spelling
                `.not. .and. .or. .eqv. .neqv.` logical operators
                `.<letters>.`                 any other dotted word = defined operator
              (case-insensitive). optional field2 = class name (default `Expr`).
              reply = fully parenthesised S-expression of the tree
                `@n` | `@.n` | `(paren E)` | `(un OP E)` | `(bin OP L R)`   (OP upper-case)
              or `reject`; `badtoken` when a word is not a token.
`exprcost`    field1 = token list as for `expr`, optional field2 = class name. reply =
              `<chainCalls> <parseCalls> <tree|reject>`: the number of `Base.__new__` calls the
              model predicts for the 13 chain classes (real class table / model table).
`exprlevels`  reply = the model's level table, rows separated by `;`
              `Class kind opclass lhs rhs next excl`.
-/
namespace FpDriver.Expr
open Fp.Expr Fp.Wire

def lvOfName (s : String) : Option Lv :=
  [Lv.expr, .l5, .equivOp, .orOp, .andOp, .l4, .l3, .l2, .l2u, .addOp, .multOp, .l1, .prim].find?
    (fun k => k.name == s)

def run (k : Lv) (line : String) : String :=
  match toksOfLine line with
  | none => "badtoken"
  | some ts =>
    match parse k ts with
    | some e => e.sexp
    | none => "reject"

def ok (r : String) : String := "OK\t" ++ enc r

def runCost (k : Lv) (line : String) : String :=
  match toksOfLine line with
  | none => "badtoken"
  | some ts =>
    toString (chainCalls k ts) ++ " " ++ toString (parseCalls k ts) ++ " " ++
      (match parse k ts with | some _ => "tree" | none => "reject")

/-- `args` are the raw (hex) fields of the request; the result is the complete reply line;
`none` = not a command of this model -/
def handle (cmd : String) (args : List String) : Option String :=
  match cmd, args.map dec with
  | "expr", [line] => some (ok (run .expr line))
  | "expr", [line, cls] =>
    match lvOfName cls with
    | some k => some (ok (run k line))
    | none => some (ok "badclass")
  | "exprcost", [line] => some (ok (runCost .expr line))
  | "exprcost", [line, cls] =>
    match lvOfName cls with
    | some k => some (ok (runCost k line))
    | none => some (ok "badclass")
  | "exprlevels", _ => some (ok (levelsText levels))
  | _, _ => none

end FpDriver.Expr
