import FparserModel.Py

/-!
# ReaderSrm — the part of `common/splitline.py` that the reader needs

`splitquote`, `splitparen`, `string_replace_map` (with `lower`), `StringReplaceDict.__call__`.
Branch-for-branch mirrors (ASCII domain). Written inside the reader slice so that the reader
model does not wait for `FparserModel/Splitline.lean`; to be unified later.
-/
namespace Fp.Reader
open Fp

def isQuote (c : Char) : Bool := c == '\'' || c == '"'

/-- text up to (not including) the first quote character of either kind, and the rest -/
def spanPlain : Str → Str × Str
  | [] => ([], [])
  | c :: cs => if isQuote c then ([], c :: cs) else
      let r := spanPlain cs; (c :: r.1, r.2)

/-- `_next_quote(line, quote_char=q)`: `some (text up to and including the closing q, rest)`;
    a doubled `qq` is an escaped quote unless the first `q` is the last character. -/
def spanLit (q : Char) : Str → Option (Str × Str)
  | [] => none
  | [c] => if c = q then some ([c], []) else none
  | c :: d :: cs =>
    if c = q then
      if d = q then (spanLit q cs).map fun r => (c :: d :: r.1, r.2)
      else some ([c], d :: cs)
    else (spanLit q (d :: cs)).map fun r => (c :: r.1, r.2)

inductive Seg where
  | plain (s : Str)
  | quoted (s : Str)
deriving Repr, DecidableEq

def Seg.str : Seg → Str
  | .plain s => s
  | .quoted s => s

def Seg.isQuoted : Seg → Bool
  | .plain _ => false
  | .quoted _ => true

/-- the `while pos < n` loop of `splitquote` -/
def splitLoop : Nat → Str → List Seg × Option Char
  | 0, _ => ([], none)
  | fuel+1, line =>
    if line = [] then ([], none) else
    match spanPlain line with
    | (p, []) => ([.plain p], none)
    | (p, q :: body) =>
      let pre := if p = [] then [] else [Seg.plain p]
      match spanLit q body with
      | none => (pre ++ [.quoted (q :: body)], some q)
      | some (lit, rest) =>
        let r := splitLoop fuel rest
        (pre ++ .quoted (q :: lit) :: r.1, r.2)

/-- `splitquote(line, stopchar)` with `lower=False` -/
def splitquote (line : Str) (stop : Option Char) : List Seg × Option Char :=
  match stop with
  | none => splitLoop (line.length + 1) line
  | some q =>
    match spanLit q line with
    | none => ([.quoted line], some q)
    | some (lit, rest) =>
      let r := splitLoop (rest.length + 1) rest
      (.quoted lit :: r.1, r.2)

def Seg.lower : Seg → Seg
  | .plain s => .plain (Fp.lower s)
  | .quoted s => .quoted s

/-- `splitquote(line, lower=lower)[0]` -/
def splitquoteL (line : Str) (lower : Bool) : List Seg :=
  if lower then (splitquote line none).1.map Seg.lower else (splitquote line none).1

/-! ### splitparen -/

inductive PSeg where
  | plain (s : Str)
  | paren (s : Str)
deriving Repr, DecidableEq

structure PState where
  nb : Bool := false            -- odd number of backslashes pending
  inq : Option Char := none
  stack : List Char := []
  cur : Str := []               -- reversed current piece
  out : List PSeg := []         -- reversed

def parenStep (st : PState) (c : Char) : PState :=
  let st1 := { st with cur := c :: st.cur }
  if c == '\\' then { st1 with nb := !st.nb }
  else if st.nb then { st1 with nb := false }
  else match st.inq with
  | some q => if c == q then { st1 with inq := none } else st1
  | none =>
    if isQuote c then { st1 with inq := some c }
    else if c == '(' || c == '[' then
      let close := if c == '(' then ')' else ']'
      if st.stack = [] then
        { st with cur := [c], out := .plain st.cur.reverse :: st.out, stack := [close] }
      else { st1 with stack := close :: st.stack }
    else match st.stack with
      | top :: rest =>
        if c == top then
          if rest = [] then { st with stack := [], cur := [], out := .paren (c :: st.cur).reverse :: st.out }
          else { st1 with stack := rest }
        else st1
      | [] => st1

/-- `splitparen(line)` (default brackets). Empty plain pieces are kept (they are harmless). -/
def splitparen (line : Str) : List PSeg :=
  let st := line.foldl parenStep {}
  (if st.cur = [] then st.out else .plain st.cur.reverse :: st.out).reverse

/-! ### scanners for the regexes of splitline.py -/

def allWord (s : Str) : Bool := s.all isWord

/-- `item[1:-1]` -/
def inner (s : Str) : Str := (s.drop 1).dropLast

def isExpChar (c : Char) : Bool := c == 'e' || c == 'd' || c == 'E' || c == 'D'

/-- `[edED][+-]?\d+(_\w+)?` at the start of `r`: the matched text -/
def expoAt (r : Str) : Option Str :=
  match r with
  | e :: r1 =>
    if isExpChar e then
      let (sg, r2) := match r1 with
        | c :: r2 => if c == '+' || c == '-' then ([c], r2) else ([], r1)
        | [] => ([], r1)
      let ds := r2.takeWhile isDigit
      if ds = [] then none else
      let r3 := r2.drop ds.length
      let kind := match r3 with
        | '_' :: r4 =>
          let w := r4.takeWhile isWord
          if w = [] then [] else '_' :: w
        | _ => []
      some (e :: sg ++ ds ++ kind)
    else none
  | [] => none

/-- group 1 of `exponential_constant` matched at the start of `s` -/
def expConstAt (s : Str) : Option Str :=
  let d1 := s.takeWhile isDigit
  let r1 := s.drop d1.length
  match r1 with
  | '.' :: r2 =>
    let d2 := r2.takeWhile isDigit
    if d1 = [] && d2 = [] then none else
    (expoAt (r2.drop d2.length)).map fun x => d1 ++ '.' :: d2 ++ x
  | _ => if d1 = [] then none else (expoAt r1).map fun x => d1 ++ x

/-- `[g.group(1) for g in exponential_constant.finditer(s)]` -/
def expConstFindAux : Nat → Bool → Str → List Str
  | 0, _, _ => []
  | _, _, [] => []
  | fuel+1, atStart, c :: cs =>
    let viaStart := if atStart then expConstAt (c :: cs) else none
    match viaStart with
    | some f => expConstFindAux fuel false ((c :: cs).drop f.length)
                  |> (f :: ·)
    | none =>
      if !isWord c && c != '.' then
        match expConstAt cs with
        | some f => f :: expConstFindAux fuel false (cs.drop f.length)
        | none => expConstFindAux fuel false cs
      else expConstFindAux fuel false cs

def expConstFind (s : Str) : List Str := expConstFindAux (s.length + 1) true s

/-- `\d+` then optionally a required `_` : returns the matched digits(+`_`) -/
def digitsThen (needUnderscore : Bool) (r : Str) : Option Str :=
  let ds := r.takeWhile isDigit
  if ds = [] then none else
  if needUnderscore then
    match r.drop ds.length with
    | '_' :: _ => some (ds ++ ['_'])
    | _ => none
  else some ds

def kStr : Str := "_F2PY_STRING_CONSTANT_".toList
def kReal : Str := "F2PY_REAL_CONSTANT_".toList
def kExpr : Str := "F2PY_EXPR_TUPLE_".toList

/-- one match of `_f2py_findall`'s pattern at the start of `s` -/
def f2pyKeyAt (s : Str) : Option Str :=
  let try1 (pre : Str) (u : Bool) : Option Str :=
    if startsWith s pre then (digitsThen u (s.drop pre.length)).map (pre ++ ·) else none
  match try1 kStr true with
  | some k => some k
  | none => match try1 kReal true with
    | some k => some k
    | none => try1 kExpr false

def f2pyFindallAux : Nat → Str → List Str
  | 0, _ => []
  | _, [] => []
  | fuel+1, c :: cs =>
    match f2pyKeyAt (c :: cs) with
    | some k => k :: f2pyFindallAux fuel ((c :: cs).drop k.length)
    | none => f2pyFindallAux fuel cs

/-- `_f2py_findall(s)` -/
def f2pyFindall (s : Str) : List Str := f2pyFindallAux (s.length + 1) s

/-- `s.replace(old, new)` (all non-overlapping occurrences, `old` non-empty) -/
def replaceAllAux (old new : Str) : Nat → Str → Str
  | 0, s => s
  | _, [] => []
  | fuel+1, c :: cs =>
    if old ≠ [] && startsWith (c :: cs) old then new ++ replaceAllAux old new fuel ((c :: cs).drop old.length)
    else c :: replaceAllAux old new fuel cs

def replaceAll (s old new : Str) : Str := replaceAllAux old new (s.length + 1) s

/-! ### string_replace_map -/

abbrev SMap := List (Str × Str)

def SMap.get (m : SMap) (k : Str) : Option Str := (m.find? (·.1 == k)).map (·.2)

structure Srm where
  strIdx : Nat := 0
  constIdx : Nat := 0
  parenIdx : Nat := 0
  map : SMap := []        -- string_map (latest binding first)
  rev : SMap := []        -- rev_string_map
  revParen : SMap := []   -- rev_paren_map
  exprKeys : List Str := []
  constKeys : List Str := []

def lastD (s : Str) : Str := match s.getLast? with | some c => [c] | none => []

/-- first loop: string constants (reverse map keyed by the text without delimiters) -/
def srmStrings : List Seg → Srm → Str → Srm × Str
  | [], st, acc => (st, acc)
  | seg :: rest, st, acc =>
    match seg with
    | .quoted item =>
      if !allWord (inner item) then
        let trimmed := inner item
        match st.rev.get trimmed with
        | some key => srmStrings rest st (acc ++ item.take 1 ++ key ++ lastD item)
        | none =>
          let idx := st.strIdx + 1
          let key := kStr ++ natToStr idx ++ ['_']
          let st' := { st with strIdx := idx, map := (key, trimmed) :: st.map, rev := (trimmed, key) :: st.rev }
          srmStrings rest st' (acc ++ item.take 1 ++ key ++ lastD item)
      else srmStrings rest st (acc ++ item)
    | .plain item => srmStrings rest st (acc ++ item)

/-- second loop: real constants with exponents -/
def srmConsts : List Str → Srm → Str → Srm × Str
  | [], st, nl => (st, nl)
  | found :: rest, st, nl =>
    match st.rev.get found with
    | some key => srmConsts rest st (replaceAll nl found key)
    | none =>
      let idx := st.constIdx + 1
      let key := kReal ++ natToStr idx ++ ['_']
      let st' := { st with constIdx := idx, map := (key, found) :: st.map, rev := (found, key) :: st.rev,
                           constKeys := st.constKeys ++ [key] }
      srmConsts rest st' (replaceAll nl found key)

/-- third loop: parenthesised expressions (own reverse map, keyed by the stripped interior) -/
def srmParens : List PSeg → Srm → Str → Srm × Str
  | [], st, acc => (st, acc)
  | seg :: rest, st, acc =>
    match seg with
    | .paren item =>
      if !allWord (strip (inner item)) then
        let trimmed := strip (inner item)
        match st.revParen.get trimmed with
        | some key => srmParens rest st (acc ++ item.take 1 ++ key ++ lastD item)
        | none =>
          let idx := st.parenIdx + 1
          let key := kExpr ++ natToStr idx
          let st' := { st with parenIdx := idx, map := (key, trimmed) :: st.map,
                               revParen := (trimmed, key) :: st.revParen,
                               exprKeys := st.exprKeys ++ [key] }
          srmParens rest st' (acc ++ item.take 1 ++ key ++ lastD item)
      else srmParens rest st (acc ++ item)
    | .plain item => srmParens rest st (acc ++ item)

/-- inner loop of the fix-up: `if inc_key in string_map: entry = entry.replace(inc_key, …, 1)` -/
def fixEntry (m : SMap) : List Str → Str → Str
  | [], e => e
  | k :: ks, e =>
    match m.get k with
    | none => fixEntry m ks e
    | some v => fixEntry m ks (replaceFirst e k v)

/-- the final loop: entries must not themselves contain substitutions -/
def srmFix : List Str → SMap → SMap
  | [], m => m
  | key :: ks, m =>
    match m.get key with
    | none => srmFix ks m                  -- unreachable: every key was inserted above
    | some entry =>
      let inc := f2pyFindall entry
      if inc = [] then srmFix ks m else srmFix ks ((key, fixEntry m inc entry) :: m)

/-- `string_replace_map(line, lower=lower)` -/
def stringReplaceMap (line : Str) (lower : Bool) : Str × SMap :=
  let (st1, nl1) := srmStrings (splitquoteL line lower) {} []
  let (st2, nl2) := srmConsts (expConstFind nl1) st1 nl1
  let (st3, out) := srmParens (splitparen nl2) st2 []
  (out, srmFix (st3.exprKeys ++ st3.constKeys) st3.map)

/-- `StringReplaceDict.__call__` -/
def applyMapAux (m : SMap) : List Str → Str → Str
  | [], line => line
  | k :: ks, line =>
    match m.get k with
    | some v => applyMapAux m ks (replaceFirst line k v)
    | none => applyMapAux m ks line

def applyMap (m : SMap) (line : Str) : Str := applyMapAux m (f2pyFindall line) line

end Fp.Reader
