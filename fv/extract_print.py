"""Translator of the Print slice (C01, C02, C11, C14): the printing of a whole tree.

`generate(outdir)` writes `FparserModel/Generated/PrintTables.lean` (+ `PrintInventory.lean`: the
cross-check with Rest's inventory) from the LIVE classes of /repo:

* `fingerprints` - sha1 (16 hex digits) of the normalised AST (docstrings removed, `ast.dump`) of every
  printer method FparserModel/Print.lean mirrors by hand: `Base.__str__`, `Base.tofortran`, `Base.init`,
  `BlockBase.init/tostr/tofortran`, `StmtBase.tofortran` (also pinned by the Header slice), the six special
  block printers, the `label_do_stmt_cls` of the two labelled-DO classes (both standards), `Comment.tostr`,
  `Directive.tostr`, `Include_Stmt.tostr`; each with the obligation `pin_* : live = PrintPins.expected[i]`.
  A failing `pin_*` means: MIRRORED METHOD EDITED in /repo: re-validate (see INSTRUCTION).
* `blockRows` - every subclass of `BlockBase` (cid of Generated/Classes2008, name, the class its
  `tofortran` resolves to); `printers` is DERIVED from it in Lean through `Pins.printerOfOwner`, so an
  owner the model does not know (`all_owners_known`) breaks the build;
* `ownBlockPrinters` - the (class, method) pairs of block classes that define their OWN
  `tofortran` / `tostr` / `__str__` / `torepr` / `__repr__` (obligation: exactly the six the model special-cases);
* `ownLeafPrinters` - the same for non-block rule classes and `tofortran` / `__str__` (exactly
  `Base.__str__`, `Base.tofortran`, `StmtBase.tofortran`), `stmtCls` - the classes that resolve to
  `StmtBase.tofortran` (all others: `Base.tofortran`);
* the `isinstance` tables the printers use: subclasses of `EndStmtBase`, of
  `(Masked_Elsewhere_Stmt, Elsewhere_Stmt)`, `(Else_If_Stmt, Else_Stmt)`, `Case_Stmt`, and per
  Action_Term_Do_Construct class the subclasses of its `label_do_stmt_cls()`;
* `cidNames` + `cids_agree` - every class id used here names the same class in Generated/Classes2008;
* `block_printers_mirrored` - every entry of Rest's `unmirroredTofortran` (its inventory obligation
  `block_tofortran_unmirrored`) is pinned here, and the own block `tofortran`s are exactly those six.

`python -m fv.extract_print --write-pins <lean dir>` records the live fingerprints in
FparserModel/PrintPins.lean (AFTER re-validating the mirror with fv/cosim_print.py).
"""
import ast
import hashlib
import inspect
import os
import re
import sys
import textwrap

from fv import repo
repo.activate()

INSTRUCTION = ("MIRRORED METHOD EDITED in /repo: re-validate FparserModel/Print.lean against it (fv/cosim_print.py), "
               "then `python -m fv.extract_print --write-pins <lean dir>`")

#: (owner class, method) mirrored by hand
UTILS_METHODS = [("Base", "__str__"), ("Base", "tofortran"), ("Base", "init"), ("BlockBase", "init"),
                 ("BlockBase", "tostr"), ("BlockBase", "tofortran"), ("StmtBase", "tofortran")]
F03_METHODS = [("Component_Part", "tofortran"), ("Where_Construct", "tofortran"), ("If_Construct", "tofortran"),
               ("Case_Construct", "tofortran"), ("Block_Label_Do_Construct", "tofortran"),
               ("Action_Term_Do_Construct", "tofortran"), ("Block_Label_Do_Construct", "label_do_stmt_cls"),
               ("Action_Term_Do_Construct", "label_do_stmt_cls"), ("Comment", "tostr"), ("Directive", "tostr"),
               ("Include_Stmt", "tostr")]
F08_METHODS = [("Block_Label_Do_Construct", "label_do_stmt_cls"), ("Action_Term_Do_Construct", "label_do_stmt_cls")]

BLOCK_PRINT_METHODS = ("tofortran", "tostr", "__str__", "torepr", "__repr__")
LEAF_PRINT_METHODS = ("tofortran", "__str__")


def lean_str(s):
    return '"' + s.replace("\\", "\\\\").replace('"', '\\"') + '"'


def ident(key):
    return "".join(ch if ch.isalnum() else "_" for ch in key)


def _strip_doc(tree):
    for n in ast.walk(tree):
        if isinstance(n, (ast.FunctionDef, ast.ClassDef, ast.AsyncFunctionDef, ast.Module)) and n.body \
                and isinstance(n.body[0], ast.Expr) and isinstance(getattr(n.body[0], "value", None), ast.Constant) \
                and isinstance(n.body[0].value.value, str):
            n.body = n.body[1:] or [ast.Pass()]
    return tree


def _sha(text):
    return hashlib.sha1(text.encode("utf-8")).hexdigest()[:16]


def _fn(raw):
    raw = raw.__func__ if isinstance(raw, (staticmethod, classmethod)) else raw
    return getattr(raw, "__wrapped__", raw)


def fingerprint(fn):
    tree = _strip_doc(ast.parse(textwrap.dedent(inspect.getsource(_fn(fn)))))
    return _sha(ast.dump(tree, include_attributes=False))


def _pkg(cls):
    return "Fortran2008" if cls.__module__.startswith("fparser.two.Fortran2008") else (
        "Fortran2003" if cls.__module__ == "fparser.two.Fortran2003" else cls.__module__.split(".")[-1])


def qual(cls):
    return _pkg(cls) + "." + cls.__qualname__


# --------------------------------------------------------------------------------------------- classes

_ids = None


def class_ids():
    """class object -> cid, the numbering of fv/extract_classes.py (Generated/Classes2003/2008)"""
    global _ids
    if _ids is not None:
        return _ids
    from fparser.two.parser import ParserFactory
    from fparser.two import Fortran2003, Fortran2008, C99Preprocessor
    ParserFactory().create(std="f2003")
    raw03 = inspect.getmembers(sys.modules[Fortran2003.__name__], inspect.isclass)
    raw08 = inspect.getmembers(sys.modules[Fortran2008.__name__], inspect.isclass)
    rawc99 = [(n, c) for n, c in inspect.getmembers(C99Preprocessor, inspect.isclass)
              if c.__module__ == C99Preprocessor.__name__]
    order = []
    seen = set()

    def reg(c):
        if c not in seen:
            seen.add(c)
            order.append(c)
    for _, c in raw03:
        if c.__module__ == Fortran2003.__name__:
            reg(c)
    for _, c in raw03:
        reg(c)
    for _, c in rawc99:
        reg(c)
    for _, c in raw08:
        reg(c)
    _ids = {c: i for i, c in enumerate(order)}
    return _ids


def rule_classes():
    """(cid, class) of every rule class (subclass of utils.Base) with a cid, in cid order"""
    from fparser.two import utils
    return [(i, c) for c, i in sorted(class_ids().items(), key=lambda p: p[1])
            if inspect.isclass(c) and issubclass(c, utils.Base)]


def unnumbered_rule_classes():
    """rule classes reachable as subclasses of Base that Generated/Classes2008 does not number"""
    from fparser.two import utils
    ids = class_ids()
    out = []
    todo = [utils.Base]
    seen = set()
    while todo:
        c = todo.pop()
        for s in c.__subclasses__():
            if s in seen or not s.__module__.startswith("fparser.two"):
                continue
            seen.add(s)
            todo.append(s)
            if s not in ids:
                out.append(qual(s))
    return sorted(out)


def owner(cls, name):
    for k in cls.__mro__:
        if name in k.__dict__:
            return k
    return None


def collect_fingerprints():
    from fparser.two import utils, Fortran2003, Fortran2008
    fps = []
    for cn, m in UTILS_METHODS:
        fps.append(("utils.%s.%s" % (cn, m), fingerprint(getattr(utils, cn).__dict__[m])))
    for cn, m in F03_METHODS:
        fps.append(("Fortran2003.%s.%s" % (cn, m), fingerprint(getattr(Fortran2003, cn).__dict__[m])))
    for cn, m in F08_METHODS:
        fps.append(("Fortran2008.%s.%s" % (cn, m), fingerprint(getattr(Fortran2008, cn).__dict__[m])))
    return sorted(fps)


def collect():
    from fparser.two import utils, Fortran2003
    U = utils
    rules = rule_classes()
    blocks = [(i, c) for i, c in rules if issubclass(c, U.BlockBase)]
    leaves = [(i, c) for i, c in rules if not issubclass(c, U.BlockBase)]
    block_rows = [(i, qual(c), qual(owner(c, "tofortran"))) for i, c in blocks]
    own_block = sorted("%s.%s" % (qual(c), m) for _, c in blocks if c is not U.BlockBase
                       for m in BLOCK_PRINT_METHODS if m in c.__dict__)
    own_leaf = sorted("%s.%s" % (qual(c), m) for _, c in leaves for m in LEAF_PRINT_METHODS if m in c.__dict__)
    stmt_cls = [i for i, c in leaves if owner(c, "tofortran") is U.StmtBase]
    other_leaf = sorted(qual(c) for _, c in leaves
                        if owner(c, "tofortran") not in (U.StmtBase, U.Base))
    str_other = sorted(qual(c) for _, c in rules if owner(c, "__str__") is not U.Base)
    tostr_block_other = sorted(qual(c) for _, c in blocks if owner(c, "tostr") is not U.BlockBase)

    def subs(*bases):
        return [i for i, c in rules if issubclass(c, bases)]
    F = Fortran2003
    label_do = []
    for i, c in blocks:
        if owner(c, "tofortran") is F.Action_Term_Do_Construct:
            target = c.label_do_stmt_cls()
            label_do.append((i, qual(target), subs(target)))
    used = set(i for i, _, _ in block_rows)
    tabs = {
        "endCls": subs(U.EndStmtBase),
        "elsewhereCls": subs(F.Masked_Elsewhere_Stmt, F.Elsewhere_Stmt),
        "elseCls": subs(F.Else_If_Stmt, F.Else_Stmt),
        "caseCls": subs(F.Case_Stmt),
    }
    for v in tabs.values():
        used |= set(v)
    for _, _, v in label_do:
        used |= set(v)
    byid = {i: c for i, c in rules}
    cid_names = [(i, byid[i].__name__) for i in sorted(used)]
    return {"blockRows": block_rows, "ownBlock": own_block, "ownLeaf": own_leaf, "stmtCls": stmt_cls,
            "otherLeaf": other_leaf, "strOther": str_other, "tostrBlockOther": tostr_block_other,
            "labelDo": label_do, "tabs": tabs, "cidNames": cid_names, "unnumbered": unnumbered_rule_classes()}


def read_pins(path):
    if not os.path.exists(path):
        return []
    text = open(path, encoding="utf-8").read()
    i = text.find("def expected")
    if i < 0:
        return []
    j = text.index("]", i)
    return re.findall(r'\(\s*"([^"]*)"\s*,\s*"([^"]*)"\s*\)', text[i:j])


def _nats(xs):
    return "[" + ", ".join(str(x) for x in xs) + "]"


def _strs(xs):
    return "[" + ", ".join(lean_str(x) for x in xs) + "]"


def render(fps, data, pinned=None):
    L = []
    L.append("import FparserModel.Print")
    L.append("import FparserModel.PrintPins")
    L.append("import FparserModel.Generated.Classes2008")
    L.append("/-! GENERATED by fv/extract_print.py from the fparser working tree - do not edit.")
    L.append("")
    L.append("The class table of the tree printers (`tbl`), the fingerprints of the printer methods")
    L.append("FparserModel/Print.lean mirrors by hand, the inventory of own printers; each with the kernel")
    L.append("obligation that it is what the model was written against (FparserModel/PrintPins.lean).")
    L.append("A failing `pin_*` theorem means: " + INSTRUCTION)
    L.append("-/")
    L.append("namespace Fp.Print.Generated")
    L.append("open Fp.Print")
    L.append("")
    L.append("def fingerprints : List (String × String) := [")
    L.append(",\n".join("  (%s, %s)" % (lean_str(k), lean_str(v)) for k, v in fps))
    L.append("]")
    L.append("")
    pinned = [k for k, _ in fps] if pinned is None else list(pinned)
    pos = {k: i for i, k in enumerate(pinned)}
    fresh = [k for k, _ in fps if k not in pos]
    for k, v in fps:
        if k in pos:
            what, i = " -- edited: " + k, pos[k]
        else:
            what = " -- NEW mirrored method (no pin in FparserModel/PrintPins.lean yet): " + k
            i = len(pinned) + fresh.index(k)
        L.append("theorem pin_%s : Pinned %s (some (%s, %s)) Pins.expected[%d]? := by decide +kernel"
                 % (ident(k), lean_str(INSTRUCTION + what), lean_str(k), lean_str(v), i))
    gone = [k for k in pinned if k not in {k for k, _ in fps}]
    msg = "the SET of mirrored printer methods changed: " + INSTRUCTION
    if gone:
        msg += " -- pinned but gone from /repo: " + ", ".join(gone)
    if fresh:
        msg += " -- new in /repo: " + ", ".join(fresh)
    L.append("theorem pins_complete : Pinned %s none Pins.expected[%d]? := by decide +kernel"
             % (lean_str(msg), len(fps)))
    L.append("")
    # ---- block classes
    L.append("/-- every subclass of `BlockBase`: (cid, class, the class its `tofortran` resolves to) -/")
    L.append("def blockRows : List (Nat × String × String) := [")
    L.append(",\n".join("  (%d, %s, %s)" % (i, lean_str(n), lean_str(o)) for i, n, o in data["blockRows"]))
    L.append("]")
    L.append("")
    L.append("/-- `type(self).tofortran` per block class, through `Pins.printerOfOwner` -/")
    L.append("def printers : List (Nat × Printer) :=")
    L.append("  blockRows.filterMap fun r => (Pins.printerOfOwner r.2.2).map fun p => (r.1, p)")
    L.append("")
    unknown = sorted({o for _, _, o in data["blockRows"]} - {
        "utils.BlockBase", "Fortran2003.Component_Part", "Fortran2003.Where_Construct", "Fortran2003.If_Construct",
        "Fortran2003.Case_Construct", "Fortran2003.Block_Label_Do_Construct", "Fortran2003.Action_Term_Do_Construct"})
    msg = ("A BLOCK CLASS RESOLVES `tofortran` TO A PRINTER THE MODEL DOES NOT KNOW: mirror it in FparserModel/Print.lean "
           "(Printer, midTabs, midOffs), add it to PrintPins.printerOfOwner / specialPrinters, extend fv/cosim_print.py")
    if unknown:
        msg += " -- unknown: " + ", ".join(unknown)
    L.append("theorem all_owners_known : PinnedEq %s (blockRows.all fun r => (Pins.printerOfOwner r.2.2).isSome) true := by decide +kernel"
             % lean_str(msg))
    L.append("")
    L.append("/-- block classes that define their OWN tofortran / tostr / __str__ / torepr / __repr__ -/")
    L.append("def ownBlockPrinters : List String := %s" % _strs(data["ownBlock"]))
    msg = ("THE SET OF SPECIAL BLOCK PRINTERS CHANGED (a block class gained or lost its own tofortran/tostr/__str__/torepr): "
           "mirror the new printer in FparserModel/Print.lean and update PrintPins.specialPrinters")
    L.append("theorem special_printers_as_modelled : PinnedEq %s ownBlockPrinters Pins.specialPrinters := by decide +kernel"
             % lean_str(msg))
    L.append("")
    L.append("/-- non-block rule classes that define their OWN tofortran / __str__ -/")
    L.append("def ownLeafPrinters : List String := %s" % _strs(data["ownLeaf"]))
    msg = ("A NON-BLOCK CLASS GAINED OR LOST ITS OWN tofortran / __str__: the model knows Base.tofortran and StmtBase.tofortran only "
           "(FparserModel/Print.lean `Leaf.str`); update PrintPins.leafPrinters after mirroring")
    L.append("theorem leaf_printers_as_modelled : PinnedEq %s ownLeafPrinters Pins.leafPrinters := by decide +kernel"
             % lean_str(msg))
    L.append("/-- non-block rule classes whose `tofortran` is neither `Base.tofortran` nor `StmtBase.tofortran`;")
    L.append("    rule classes whose `__str__` is not `Base.__str__`; block classes whose `tostr` is not `BlockBase.tostr`;")
    L.append("    rule classes without a class id in Generated/Classes2008 -/")
    L.append("def otherLeafPrinters : List String := %s" % _strs(data["otherLeaf"]))
    L.append("def otherStr : List String := %s" % _strs(data["strOther"]))
    L.append("def otherBlockTostr : List String := %s" % _strs(data["tostrBlockOther"]))
    L.append("def unnumberedClasses : List String := %s" % _strs(data["unnumbered"]))
    L.append("theorem no_other_printers : PinnedEq \"a class prints through a method the model does not know\" "
             "(otherLeafPrinters, otherStr, otherBlockTostr, unnumberedClasses) ([], [], [], []) := by decide +kernel")
    L.append("")
    L.append("/-- classes that resolve to `StmtBase.tofortran` (every other non-block class: `Base.tofortran`) -/")
    L.append("def stmtCls : List Nat := %s" % _nats(data["stmtCls"]))
    for k, v in data["tabs"].items():
        L.append("def %s : List Nat := %s" % (k, _nats(v)))
    L.append("/-- per class printing through Action_Term_Do_Construct.tofortran: its `label_do_stmt_cls()` and the subclasses of that -/")
    L.append("def labelDoRows : List (Nat × String × List Nat) := [")
    L.append(",\n".join("  (%d, %s, %s)" % (i, lean_str(t), _nats(v)) for i, t, v in data["labelDo"]))
    L.append("]")
    L.append("")
    L.append("def lookup {β : Type} (d : List (Nat × β)) (k : Nat) : Option β := (d.find? fun e => e.1 == k).map (·.2)")
    L.append("")
    L.append("/-- the class table of the live code -/")
    L.append("def tbl : Tbl :=")
    L.append("  { printer := fun c => (lookup printers c).getD .blockBase")
    L.append("    isEnd := fun c => endCls.contains c")
    L.append("    isElsewhere := fun c => elsewhereCls.contains c")
    L.append("    isElse := fun c => elseCls.contains c")
    L.append("    isCase := fun c => caseCls.contains c")
    L.append("    isLabelDo := fun b c => ((lookup labelDoRows b).map fun r => r.2.contains c).getD false }")
    L.append("")
    L.append("/-- is `c` a block class / a class printing through `StmtBase.tofortran` -/")
    L.append("def isBlock (c : Nat) : Bool := (lookup blockRows c).isSome")
    L.append("def isStmt (c : Nat) : Bool := stmtCls.contains c")
    L.append("")
    L.append("/-- the class ids used above name the same classes in Generated/Classes2008 -/")
    L.append("def cidNames : List (Nat × String) := [")
    L.append(",\n".join("  (%d, %s)" % (i, lean_str(n)) for i, n in data["cidNames"]))
    L.append("]")
    L.append("theorem cids_agree : PinnedEq \"class ids of PrintTables and Classes2008 differ\" "
             "(cidNames.all fun e => ((Fp.Generated.allClasses[e.1]?).bind fun f => Fp.Generated.names[f.name]?) == some e.2) true := by decide +kernel")
    L.append("")
    L.append("/-- the label-DO tables are as the model's witnesses assume -/")
    L.append("theorem label_do_targets : PinnedEq \"label_do_stmt_cls() of the Action_Term_Do_Construct classes changed\" "
             "(labelDoRows.map fun r => r.2.1) Pins.labelDoTargets := by decide +kernel")
    L.append("")
    L.append("end Fp.Print.Generated")
    return "\n".join(L) + "\n"


def render_inventory():
    """Generated/PrintInventory.lean: the cross-check with Rest's inventory (kept out of PrintTables.lean
    because the driver imports that file and RestTables.lean imports proof modules)"""
    L = []
    L.append("import FparserModel.Generated.PrintTables")
    L.append("import FparserModel.Generated.RestTables")
    L.append("/-! GENERATED by fv/extract_print.py - do not edit. -/")
    L.append("namespace Fp.Print.Generated")
    L.append("open Fp.Print")
    L.append("")
    L.append("/-- the six own `tofortran` of block classes that Rest's inventory lists as mirrored by nobody")
    L.append("    (`Fp.Rest.Generated.block_tofortran_unmirrored`) are mirrored HERE: each is a pinned method of this")
    L.append("    slice, and they are all the own block `tofortran`s of the live code -/")
    L.append("theorem block_printers_mirrored :")
    L.append("    PinnedEq \"a block tofortran listed by Rest as unmirrored is not pinned by the Print slice\"")
    L.append("      (Fp.Rest.Generated.unmirroredTofortran.all fun k => (Pins.expected.map (·.1)).contains k) true ∧")
    L.append("    PinnedEq \"the own block tofortran methods are not the six the Print slice mirrors\"")
    L.append("      (ownBlockPrinters.filter fun k => k.endsWith \".tofortran\") Pins.mirroredSix ∧")
    L.append("    PinnedEq \"a mirrored block printer has no pin\"")
    L.append("      (Pins.mirroredSix.all fun k => (fingerprints.map (·.1)).contains k) true := by")
    L.append("  refine ⟨?_, ?_, ?_⟩ <;> decide +kernel")
    L.append("")
    L.append("end Fp.Print.Generated")
    return "\n".join(L) + "\n"


def _write_if_changed(path, text):
    if os.path.exists(path):
        with open(path, encoding="utf-8") as fh:
            if fh.read() == text:
                return False
    os.makedirs(os.path.dirname(path), exist_ok=True)
    tmp = path + ".tmp"
    with open(tmp, "w", encoding="utf-8") as fh:
        fh.write(text)
    os.replace(tmp, path)
    return True


def _project_dir(outdir):
    if outdir is None:
        return os.path.join(os.path.dirname(os.path.dirname(os.path.abspath(__file__))), "lean")
    if os.path.basename(os.path.normpath(outdir)) == "Generated":
        return os.path.dirname(os.path.dirname(os.path.normpath(outdir)))
    return outdir


def generate(outdir=None):
    """write FparserModel/Generated/PrintTables.lean (only if it changed); `outdir` = the lean project dir
    or its FparserModel/Generated directory (what fv.common.run_extractors passes)"""
    outdir = _project_dir(outdir)
    path = os.path.join(outdir, "FparserModel", "Generated", "PrintTables.lean")
    pinned = [k for k, _ in read_pins(os.path.join(outdir, "FparserModel", "PrintPins.lean"))]
    text = render(collect_fingerprints(), collect(), pinned or None)
    generate.changed = _write_if_changed(path, text)
    inv = os.path.join(outdir, "FparserModel", "Generated", "PrintInventory.lean")
    generate.changed = _write_if_changed(inv, render_inventory()) or generate.changed
    return path


generate.changed = False


def write_pins(outdir):
    """record the live fingerprints as the expected ones (the `expected` block of PrintPins.lean)"""
    outdir = _project_dir(outdir)
    path = os.path.join(outdir, "FparserModel", "PrintPins.lean")
    text = open(path, encoding="utf-8").read()
    i = text.index("def expected")
    j = text.index("]", i) + 1
    body = "def expected : List (String × String) := [\n" + ",\n".join(
        "  (%s, %s)" % (lean_str(k), lean_str(v)) for k, v in collect_fingerprints()) + "\n]"
    with open(path, "w", encoding="utf-8") as fh:
        fh.write(text[:i] + body + text[j:])
    return path


if __name__ == "__main__":
    args = sys.argv[1:]
    if args and args[0] == "--write-pins":
        print(write_pins(args[1] if len(args) > 1 else None))
    else:
        print(generate(args[0] if args else None), "changed" if generate.changed else "unchanged")
