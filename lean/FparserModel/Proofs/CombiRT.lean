import FparserModel.Proofs.CombiBasic
/-!
round trips of the combinators that do not go through the tokeniser:
`BracketBase`, `KeywordValueBase`, `WORDClsBase`, `EndStmtBase`  (helper file of `Props/Combi.lean`)
-/
namespace Fp.Combi
open Fp Fp.Splitline

variable {Node : Type}

/-! ### small list facts -/

theorem startsWith_append (p r : Str) : startsWith (p ++ r) p = true := by
  simp [startsWith, List.take_left']

theorem endsWith_append (a p : Str) : endsWith (a ++ p) p = true := by
  simp [endsWith, List.drop_left']

theorem noSpaces_self {s : Str} (h : ' ' ∉ s) : noSpaces s = s := by
  simp only [noSpaces, List.filter_eq_self]
  intro c hc
  simp only [bne_iff_ne, ne_eq]
  rintro rfl
  exact h hc

theorem isEmpty_false_of_ne {s : Str} (h : s ≠ []) : s.isEmpty = false := by
  cases s with
  | nil => exact absurd rfl h
  | cons _ _ => rfl

/-! ### BracketBase -/

/-- the split of `left ++ t ++ right` -/
theorem bracketSplit_sandwich (l r t : Str) (c : ClassId) (req : Bool)
    (hlen : l.length = r.length) (hl0 : l ≠ [])
    (hls : ' ' ∉ l) (hrs : ' ' ∉ r)
    (hl : lstrip l = l) (hr : rstrip r = r)
    (ht0 : t ≠ []) (htl : lstrip t = t) :
    bracketSplit (l ++ r) (some c) req (l ++ t ++ r) = some [.str l, .child c t, .str r] := by
  have hr0 : r ≠ [] := by
    intro e; subst e; cases l with
    | nil => exact hl0 rfl
    | cons _ _ => simp at hlen
  have hns : noSpaces (l ++ r) = l ++ r := noSpaces_self (by
    simp only [List.mem_append, not_or]; exact ⟨hls, hrs⟩)
  have hstrip : strip (l ++ t ++ r) = l ++ t ++ r := strip_sandwich t hl hl0 hr hr0
  have hbl : (l ++ r).length / 2 = l.length := by simp [hlen]; omega
  have hmod : ((l ++ r).length % 2 == 1) = false := by simp [hlen]; omega
  have htake : (l ++ r).take l.length = l := List.take_left' rfl
  have hdrop : (l ++ r).drop ((l ++ r).length - l.length) = r := by
    have : (l ++ r).length - l.length = l.length := by simp [hlen]
    rw [this]; exact List.drop_left' rfl
  have hmid : midSlice (l ++ t ++ r) l.length = t := by
    unfold midSlice
    have h1 : (l ++ t ++ r).drop l.length = t ++ r := by
      rw [List.append_assoc]; exact List.drop_left' rfl
    have h2 : (l ++ t ++ r).length - 2 * l.length = t.length := by
      simp [hlen]; omega
    rw [h1, h2]; exact List.take_left' rfl
  have hsw : startsWith (l ++ t ++ r) l = true := by
    rw [List.append_assoc]; exact startsWith_append _ _
  have hew : endsWith (l ++ t ++ r) r = true := endsWith_append _ _
  have hlt : ((l ++ t ++ r).length < l.length * 2) = False := by
    simp [hlen]; omega
  unfold bracketSplit
  simp only [hns, hstrip, hbl, hmod, htake, hdrop, hmid, htl, hsw, hew]
  have e1 : (l ++ t ++ r).isEmpty = false := isEmpty_false_of_ne (by simp [hl0])
  have e2 : (l ++ r).isEmpty = false := isEmpty_false_of_ne (by simp [hl0])
  have e3 : t.isEmpty = false := isEmpty_false_of_ne ht0
  simp [e2, e3]
  exact ⟨fun h => absurd h hl0, by omega⟩

/-- the split of `left ++ right` when the content is optional -/
theorem bracketSplit_empty (l r : Str) (cls : Option ClassId)
    (hlen : l.length = r.length) (hl0 : l ≠ [])
    (hls : ' ' ∉ l) (hrs : ' ' ∉ r)
    (hl : lstrip l = l) (hr : rstrip r = r) :
    bracketSplit (l ++ r) cls false (l ++ r) = some [.str l, .none, .str r] := by
  have hr0 : r ≠ [] := by
    intro e; subst e; cases l with
    | nil => exact hl0 rfl
    | cons _ _ => simp at hlen
  have hns : noSpaces (l ++ r) = l ++ r := noSpaces_self (by
    simp only [List.mem_append, not_or]; exact ⟨hls, hrs⟩)
  have hstrip : strip (l ++ r) = l ++ r := by
    simpa using strip_sandwich [] hl hl0 hr hr0
  have hbl : (l ++ r).length / 2 = l.length := by simp [hlen]; omega
  have hmod : ((l ++ r).length % 2 == 1) = false := by simp [hlen]; omega
  have htake : (l ++ r).take l.length = l := List.take_left' rfl
  have hdrop : (l ++ r).drop ((l ++ r).length - l.length) = r := by
    have : (l ++ r).length - l.length = l.length := by simp [hlen]
    rw [this]; exact List.drop_left' rfl
  have hmid : midSlice (l ++ r) l.length = [] := by
    unfold midSlice
    have h2 : (l ++ r).length - 2 * l.length = 0 := by simp [hlen]; omega
    rw [h2]; simp
  have hsw : startsWith (l ++ r) l = true := startsWith_append _ _
  have hew : endsWith (l ++ r) r = true := endsWith_append _ _
  unfold bracketSplit
  simp only [hns, hstrip, hbl, hmod, htake, hdrop, hmid, hsw, hew]
  have e2 : (l ++ r).isEmpty = false := isEmpty_false_of_ne (by simp [hl0])
  simp [e2, lstrip_nil]
  omega

/-! ### KeywordValueBase -/

theorem contains_iff_mem (s : Str) (c : Char) : s.contains c = true ↔ c ∈ s := by
  simp

theorem kvSplit_cls (lc rc : ClassId) (q u : Bool) (a b : Str)
    (ha : '=' ∉ a) (hal : lstrip a = a) (har : rstrip a = a)
    (hbl : lstrip b = b) (hbr : rstrip b = b) (hb0 : b ≠ []) :
    kvSplit (.cls lc) rc q u (a ++ " = ".toList ++ b) = some [.child lc a, .child rc b] := by
  have hs : a ++ " = ".toList ++ b = (a ++ [' ']) ++ '=' :: (' ' :: b) := by simp
  have hna : '=' ∉ a ++ [' '] := by
    simp only [List.mem_append, List.mem_singleton, not_or]; exact ⟨ha, by decide⟩
  have hcut := cutFirst_append (c := '=') (a ++ [' ']) (' ' :: b) hna
  have hmem : (a ++ " = ".toList ++ b).contains '=' = true := by
    rw [hs]; simp
  unfold kvSplit
  rw [hmem, ← hs] at *
  rw [hs, hcut]
  simp [strip_space_right hal har, strip_space_left hbl hbr, isEmpty_false_of_ne hb0]

theorem kvSplit_kw (k : Str) (rc : ClassId) (q u : Bool) (b : Str)
    (hk : '=' ∉ k) (hkl : lstrip k = k) (hkr : rstrip k = k) (hk0 : k ≠ [])
    (hku : u = true → upper k = k)
    (hbl : lstrip b = b) (hbr : rstrip b = b) (hb0 : b ≠ []) :
    kvSplit (.kw k) rc q u (k ++ " = ".toList ++ b) = some [.str k, .child rc b] := by
  have hs : k ++ " = ".toList ++ b = (k ++ [' ']) ++ '=' :: (' ' :: b) := by simp
  have hna : '=' ∉ k ++ [' '] := by
    simp only [List.mem_append, List.mem_singleton, not_or]; exact ⟨hk, by decide⟩
  have hcut := cutFirst_append (c := '=') (k ++ [' ']) (' ' :: b) hna
  have hmem : (k ++ " = ".toList ++ b).contains '=' = true := by
    rw [hs]; simp
  have hup : (if u = true then upper k else k) = k := by
    by_cases h : u = true
    · simp [h, hku h]
    · simp [h]
  unfold kvSplit
  rw [hmem, hs, hcut]
  simp [strip_space_right hkl hkr, strip_space_left hbl hbr, isEmpty_false_of_ne hb0,
    isEmpty_false_of_ne hk0, hup]

theorem kvSplit_nolhs (la : Arg) (rc : ClassId) (u : Bool) (b : Str)
    (hb : '=' ∉ b) (hbl : lstrip b = b) (hbr : rstrip b = b) (hb0 : b ≠ []) :
    kvSplit la rc false u b = some [.none, .child rc b] := by
  unfold kvSplit
  simp [cutFirst_none b hb, strip_self hbl hbr, isEmpty_false_of_ne hb0]

/-! ### EndStmtBase -/

theorem upper_END : upper ['E', 'N', 'D'] = ['E', 'N', 'D'] := by decide

theorem endSplit_named (ty t : Str) (c : ClassId) (q : Bool)
    (hty0 : ty ≠ []) (htyl : lstrip ty = ty) (htyu : upper ty = ty)
    (ht0 : t ≠ []) (htl : lstrip t = t) :
    endSplit ty (some c) q ("END ".toList ++ ty ++ ' ' :: t) = some [.str ty, .child c t] := by
  have hs : "END ".toList ++ ty ++ ' ' :: t = 'E' :: 'N' :: 'D' :: ' ' :: (ty ++ ' ' :: t) := by simp
  have h1 : lstrip (' ' :: (ty ++ ' ' :: t)) = ty ++ ' ' :: t := by
    rw [lstrip_space_cons, lstrip_append_of_self _ htyl hty0]
  have h2 : (ty ++ ' ' :: t).take ty.length = ty := List.take_left' rfl
  have h3 : (ty ++ ' ' :: t).drop ty.length = ' ' :: t := List.drop_left' rfl
  unfold endSplit
  rw [hs]
  simp only [List.take_succ_cons, List.take_zero, List.drop_succ_cons, List.drop_zero, upper_END,
    h1, h2, h3, htyu, lstrip_space_cons, htl]
  simp [isEmpty_false_of_ne hty0, isEmpty_false_of_ne ht0]

theorem endSplit_typed (ty : Str) (nc : Option ClassId) (q : Bool)
    (hty0 : ty ≠ []) (htyl : lstrip ty = ty) (htyu : upper ty = ty) :
    endSplit ty nc q ("END ".toList ++ ty) = some [.str ty, .none] := by
  have hs : "END ".toList ++ ty = 'E' :: 'N' :: 'D' :: ' ' :: ty := by simp
  have h1 : lstrip (' ' :: ty) = ty := by rw [lstrip_space_cons, htyl]
  unfold endSplit
  rw [hs]
  simp only [List.take_succ_cons, List.take_zero, List.drop_succ_cons, List.drop_zero, upper_END,
    h1, List.take_length, List.drop_length, htyu, lstrip_nil]
  simp [isEmpty_false_of_ne hty0]

theorem endSplit_bare (ty : Str) (nc : Option ClassId) :
    endSplit ty nc false "END".toList = some [.none, .none] := by
  unfold endSplit
  simp [upper, lstrip, upperC]

/-! ### WORDClsBase -/

theorem isPrefix_cons_false {p : Str} {c d : Char} {s : Str} (h : c ≠ d) :
    isPrefix (c :: p) (d :: s) = false := by
  simp [isPrefix, h]

/-- the remainder after the keyword, as `tostr` writes it: `" " + t`, or `t` when it starts with
    `(` or `*` -/
def wordGlue (t : Str) : Str :=
  match t with
  | c :: _ => if c == '(' || c == '*' then t else ' ' :: t
  | [] => ' ' :: t

theorem wordSplit1_child (kw t : Str) (c : ClassId) (colons req : Bool)
    (hkl : lstrip kw = kw) (hk0 : kw ≠ [])
    (ht0 : t ≠ []) (htl : lstrip t = t)
    (hcol : colons = true → isPrefix [':', ':'] t = false) :
    wordSplit1 kw (some c) colons req (kw ++ wordGlue t) = some [.str kw, .child c t] := by
  have h0 : lstrip (kw ++ wordGlue t) = kw ++ wordGlue t := lstrip_append_of_self _ hkl hk0
  have h1 : (kw ++ wordGlue t).take kw.length = kw := List.take_left' rfl
  have h2 : (kw ++ wordGlue t).drop kw.length = wordGlue t := List.drop_left' rfl
  have hhc : (colons && isPrefix [':', ':'] t) = false := by
    cases colons with
    | false => rfl
    | true => simp [hcol rfl]
  unfold wordSplit1
  simp only [h0, h1, h2]
  cases t with
  | nil => exact absurd rfl ht0
  | cons d t' =>
    have hd : isSpace d = false := lstrip_self_head htl
    by_cases hp : (d == '(' || d == '*') = true
    · have hg : wordGlue (d :: t') = d :: t' := by simp [wordGlue, hp]
      have hal : isAlnumU d = false := by
        rcases Bool.or_eq_true _ _ |>.mp hp with e | e
        · have : d = '(' := by simpa using e
          subst this; decide
        · have : d = '*' := by simpa using e
          subst this; decide
      rw [hg]
      simp [hal, htl, hhc]
    · have hg : wordGlue (d :: t') = ' ' :: d :: t' := by simp [wordGlue, hp]
      have hal : isAlnumU ' ' = false := by decide
      rw [hg]
      simp [hal, lstrip_space_cons, htl, hhc]

theorem wordSplit1_bare (kw : Str) (cls : Option ClassId) (colons : Bool)
    (hkl : lstrip kw = kw) :
    wordSplit1 kw cls colons false kw = some [.str kw, .none] := by
  unfold wordSplit1
  simp [hkl]

/-- the `tostr_a` form `KW :: t` (needs `colons = True`) -/
theorem wordSplit1_colons (kw t : Str) (c : ClassId) (req : Bool)
    (hkl : lstrip kw = kw) (hk0 : kw ≠ [])
    (ht0 : t ≠ []) (htl : lstrip t = t) :
    wordSplit1 kw (some c) true req (kw ++ " :: ".toList ++ t) = some [.str kw, .child c t] := by
  have hs : kw ++ " :: ".toList ++ t = kw ++ (' ' :: ':' :: ':' :: ' ' :: t) := by simp
  have h0 : lstrip (kw ++ (' ' :: ':' :: ':' :: ' ' :: t)) = kw ++ (' ' :: ':' :: ':' :: ' ' :: t) :=
    lstrip_append_of_self _ hkl hk0
  have h1 : (kw ++ (' ' :: ':' :: ':' :: ' ' :: t)).take kw.length = kw := List.take_left' rfl
  have h2 : (kw ++ (' ' :: ':' :: ':' :: ' ' :: t)).drop kw.length = ' ' :: ':' :: ':' :: ' ' :: t :=
    List.drop_left' rfl
  have hc : isSpace ':' = false := by decide
  unfold wordSplit1
  rw [hs]
  simp only [h0, h1, h2]
  have hal : isAlnumU ' ' = false := by decide
  simp [hal, lstrip_space_cons, lstrip_cons_nonspace _ hc, isPrefix, htl, isEmpty_false_of_ne ht0]

end Fp.Combi
