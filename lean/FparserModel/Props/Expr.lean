import FparserModel.Proofs.ExprMain
import FparserModel.Proofs.ExprGroups
import FparserModel.Proofs.ExprConverse

/-!
# Property C03 — expression precedence and associativity (model M-C)

`Fp.Expr.parse k ts` is the model of `cls(string)` for the 13 classes of the fparser2
expression chain (`FparserModel/Expr.lean`, tied to the repository by
`Props/ExprTie.lean` and `fv/cosim_expr.py`). `Derives` is the grammar R701-R722 of the Fortran
standard (`Proofs/ExprSpec.lean`); the shape of a derivation tree *is* the grouping the
standard requires (`**` tightest and to the right; `* /`; unary and binary `+ -`; `//`;
relational; `.NOT.`; `.AND.`; `.OR.`; `.EQV./.NEQV.`; defined binary loosest, defined unary
tightest; equal precedence associates to the left; parentheses retained).
-/
namespace Fp.Expr

/-- Nothing is lost, duplicated or reordered: a tree returned for a token string renders
back to exactly that string (all classes, all strings). -/
theorem parse_sound (k : Lv) (ts : List T) (e : Ex) (h : parse k ts = some e) : render e = ts :=
  parseF_sound _ k ts e h

/-- The built-in fuel of `parse` is enough: any larger fuel gives the same answer
(accept with the same tree, or reject). -/
theorem parse_fuel_enough (k : Lv) (ts : List T) (n : Nat) (h : need k ts ≤ n) :
    parseF n k ts = parse k ts :=
  parseF_stable n (need k ts) k ts h (Nat.le_refl _)

/-- The fuel-free recursion equation: `parse` IS `Base.__new__` (try `match`, else the
subclass), with the nested constructor calls being `parse` itself. -/
theorem parse_unfold (k : Lv) (ts : List T) :
    parse k ts =
      match matchStep parse (rowOf k) ts with
      | some e => some e
      | none => match (rowOf k).next with
        | some k' => parse k' ts
        | none => none := parse_eq k ts

/- The property at full strength is FALSE on the pinned tree (witnesses below):

     theorem parse_render_full (e : Ex) : Derives .expr e → parse .expr (render e) = some e
-/

/-- **C03, inside the boundary.** Every expression of the standard grammar is parsed to
exactly its derivation tree (i.e. grouped as the standard requires), provided
* no defined binary operator has a `.word.` token to its right at its own parenthesis level
  (finding F-C03-1: `Expr.match` only tries the right-most `.word.`), and
* no two neighbouring tokens matched by one operator pattern are written without white space
  between them (finding F-C03-1b: `Pattern.rsplit` gives up when matches touch). -/
theorem parse_render_partial (e : Ex) (hd : Derives .expr e)
    (hb : noDottedRightOfDefinedBinary e = true) (hg : glueFree (render e) = true) :
    parse .expr (render e) = some e :=
  complete hd hb hg

/-- the same for every nonterminal (`level-2-expr` parsed by `Level_2_Expr`, …) -/
theorem parse_render_partial_at (s : SLv) (e : Ex) (hd : Derives s e)
    (hb : noDottedRightOfDefinedBinary e = true) (hg : glueFree (render e) = true) :
    parse s.toLv (render e) = some e :=
  complete hd hb hg

/-- round trip of accepted strings inside the boundary: parse ∘ render ∘ parse = parse -/
theorem parse_render_parse (ts : List T) (e : Ex) (h : parse .expr ts = some e)
    (hd : Derives .expr e) (hb : noDottedRightOfDefinedBinary e = true) (hg : glueFree ts = true) :
    parse .expr (render e) = some e := by
  have := parse_sound _ _ _ h
  exact parse_render_partial e hd hb (by rw [this]; exact hg)

/-- The first hypothesis of `parse_render_partial` is necessary, not merely sufficient (at the
node where it is violated): a valid `expr defined-binary-op level-5-expr` whose right operand
shows a `.word.` outside parentheses is NEVER parsed to the standard's tree, whatever the
operands are. (General form of `parse_render_witness`.) -/
theorem parse_render_boundary_necessary (n : Nat) (g : Bool) (l r : Ex)
    (hl : Derives .expr l) (hr : Derives .l5 r)
    (hdot : (topToks r).any T.isDotted = true) :
    Derives .expr (.bin (.op (.dot n) g) l r) ∧
    parse .expr (render (.bin (.op (.dot n) g) l r)) ≠ some (.bin (.op (.dot n) g) l r) := by
  refine ⟨Derives.expr_bin n g hl hr, ?_⟩
  apply root_boundary_necessary n g l r (derives_opsOK hl) (derives_opsOK hr)
  simpa [List.any_eq_true] using hdot

/-- Whatever is accepted (valid Fortran or not, inside the boundary or not) is grouped by
the precedence table: `Groups` is the grammar read off `levels` (see Proofs/ExprGroups.lean). -/
theorem parse_groups (k : Lv) (ts : List T) (e : Ex) (h : parse k ts = some e) : Groups k e :=
  parseF_groups _ k ts e h

/-- explicit corollary: the root operator of a tree accepted by class `k` is matched by the
pattern of `k` or of a class further down the chain (never a looser-binding one). Applied to
the operands through `parse_groups`: the right operand of a left-associative operator and the
left operand of `**` are headed by strictly tighter operators. -/
theorem parse_root_rank (k : Lv) (ts : List T) (e : Ex) (h : parse k ts = some e) :
    rootRankOK k e := groups_root (parse_groups k ts e h)

/-! ## witnesses: the boundary is real (each tree is a derivation of the standard grammar) -/

/-- builds a derivation, trying the operator productions before the inclusion rules -/
macro "derive" : tactic => `(tactic| repeat (first
  | exact Derives.operand _ _ _
  | refine Derives.parens ?_
  | refine Derives.l1_defun _ _ ?_
  | refine Derives.mult_pow _ ?_ ?_
  | refine Derives.add_bin _ _ (by rfl) ?_ ?_
  | refine Derives.l2_sign _ _ (by rfl) ?_
  | refine Derives.l2_bin _ _ (by rfl) ?_ ?_
  | refine Derives.l3_bin _ ?_ ?_
  | refine Derives.l4_bin _ _ (by rfl) ?_ ?_
  | refine Derives.and_not _ ?_
  | refine Derives.or_bin _ ?_ ?_
  | refine Derives.equiv_bin _ ?_ ?_
  | refine Derives.l5_bin _ _ (by rfl) ?_ ?_
  | refine Derives.expr_bin _ _ ?_ ?_
  | refine Derives.expr_l5 ?_
  | refine Derives.l5_equiv ?_
  | refine Derives.equiv_or ?_
  | refine Derives.or_and ?_
  | refine Derives.and_l4 ?_
  | refine Derives.l4_l3 ?_
  | refine Derives.l3_l2 ?_
  | refine Derives.l2_add ?_
  | refine Derives.add_mult ?_
  | refine Derives.mult_l1 ?_
  | refine Derives.l1_prim ?_))

def a : Ex := .atom 1 false false
def b : Ex := .atom 2 false false
def c : Ex := .atom 3 false false
def tt (g : Bool) : Ex := .atom 4 true g        -- `.TRUE.`
def dop (n : Nat) (g : Bool := false) : T := .op (.dot n) g
def iop (o : Op) (g : Bool := false) : T := .op o g

/-- `a .myop. b .and. c`  (standard: `a .myop. (b .and. c)`) -/
def w1 : Ex := .bin (dop 7) a (.bin (iop .and) b c)
/-- `a .x. .my. b` -/
def w2 : Ex := .bin (dop 1) a (.un (dop 3) b)
/-- `a .x. .true.` -/
def w3 : Ex := .bin (dop 1) a (tt false)
/-- `a .x. b .eq. c` -/
def w4 : Ex := .bin (dop 1) a (.bin (iop (.rel 0 true)) b c)
/-- `a .x. .not. b` -/
def w5 : Ex := .bin (dop 1) a (.un (iop .not) b)
/-- `a.and..not.b .x. c`  (white space: `.and.` and `.not.` touch) -/
def w6 (g : Bool) : Ex := .bin (dop 1) (.bin (iop .and) a (.un (iop .not g) b)) c
/-- `.true..x.b` -/
def w7 (g : Bool) : Ex := .bin (dop 1 g) (tt false) b

theorem witness_derives :
    Derives .expr w1 ∧ Derives .expr w2 ∧ Derives .expr w3 ∧ Derives .expr w4 ∧ Derives .expr w5 ∧
    Derives .expr (w6 true) ∧ Derives .expr (w7 true) := by
  refine ⟨?_, ?_, ?_, ?_, ?_, ?_, ?_⟩ <;> (simp only [w1, w2, w3, w4, w5, w6, w7, a, b, c, tt, dop, iop]; derive)

/-- F-C03-1: valid expressions of the first family are REJECTED (the real parser raises
`NoMatchError`; confirmed by fv/cosim_expr.py) -/
theorem parse_render_witness :
    parse .expr (render w1) = none ∧ parse .expr (render w2) = none ∧
    parse .expr (render w3) = none ∧ parse .expr (render w4) = none ∧
    parse .expr (render w5) = none := by decide

/-- F-C03-1b: the same expression is accepted with white space and rejected without -/
theorem parse_render_witness_glue :
    parse .expr (render (w6 true)) = none ∧ parse .expr (render (w6 false)) = some (w6 false) ∧
    parse .expr (render (w7 true)) = none ∧ parse .expr (render (w7 false)) = some (w7 false) := by
  decide

/-- the witnesses are outside the boundary for exactly the stated reason -/
theorem witness_outside :
    noDottedRightOfDefinedBinary w1 = false ∧ noDottedRightOfDefinedBinary w2 = false ∧
    noDottedRightOfDefinedBinary w3 = false ∧ noDottedRightOfDefinedBinary w4 = false ∧
    noDottedRightOfDefinedBinary w5 = false ∧
    (noDottedRightOfDefinedBinary (w6 true) = true ∧ glueFree (render (w6 true)) = false) ∧
    (noDottedRightOfDefinedBinary (w7 true) = true ∧ glueFree (render (w7 true)) = false) := by
  decide

/-- the spelling of a relational operator decides: `a .x. b == c` is accepted (and grouped as
the standard says) while `a .x. b .eq. c` (w4) is rejected -/
example : parse .expr (render (.bin (dop 1) a (.bin (iop (.rel 0 false)) b c)))
    = some (.bin (dop 1) a (.bin (iop (.rel 0 false)) b c)) := by decide

example : (topToks (.bin (iop .and) b c)).any T.isDotted = true := by decide
example : Derives .l5 (.bin (iop .and) b c) := by simp only [b, c, iop]; derive

/-! ## non-vacuity -/

/-- `-a**b**c + .inv. (a .x. b) * c // a == b .and. .not. c .or. a .eqv. b .myop. c` with
glued tokens where allowed: satisfies all three hypotheses of `parse_render_partial` -/
def big : Ex :=
  .bin (dop 7)
    (.bin (iop .eqv)
      (.bin (iop .or)
        (.bin (iop .and)
          (.bin (iop (.rel 0 false) true)
            (.bin (iop .concat)
              (.bin (iop .plus true)
                (.un (iop .minus) (.bin (iop .pow true) a (.bin (iop .pow true) b c)))
                (.bin (iop .mul) (.un (dop 9) (.paren (.bin (dop 1) a b))) c))
              a)
            b)
          (.un (iop .not) c))
        a)
      b)
    c

example : Derives .expr big := by simp only [big, a, b, c, dop, iop]; derive
example : noDottedRightOfDefinedBinary big = true := by decide
example : glueFree (render big) = true := by decide
example : parse .expr (render big) = some big :=
  parse_render_partial big (by simp only [big, a, b, c, dop, iop]; derive) (by decide) (by decide)
/-- … and the model really computes it (not only the theorem says so) -/
example : parse .expr (render big) = some big := by decide

/-- hypotheses of `parse_sound` / `parse_render_parse` are satisfiable -/
example : parse .expr (render (.bin (dop 7) (.bin (iop .and) a b) c))
    = some (.bin (dop 7) (.bin (iop .and) a b) c) := by decide

/-- associativity and precedence on the usual suspects (tests, not theorems) -/
example : parse .expr [.atom 1 false false, iop .minus, .atom 2 false false, iop .minus, .atom 3 false false]
    = some (.bin (iop .minus) (.bin (iop .minus) a b) c) := by decide
example : parse .expr [.atom 1 false false, iop .pow, .atom 2 false false, iop .pow, .atom 3 false false]
    = some (.bin (iop .pow) a (.bin (iop .pow) b c)) := by decide
example : parse .expr [iop .minus, .atom 1 false false, iop .pow, .atom 2 false false]
    = some (.un (iop .minus) (.bin (iop .pow) a b)) := by decide
example : parse .expr [.atom 1 false false, iop (.rel 0 false), .atom 2 false false, iop (.rel 0 false), .atom 3 false false]
    = none := by decide

end Fp.Expr
