import FparserModel.Wire
import FparserModel.Reader
import FparserModel.Header
/-!
driver commands of the Header slice (trusted glue, no theorems)

    header.classes → the class names (id order); the first `firstModelled` are opaque children
    header.match  std cls text entry*
        std = f2003 | f2008 ; entry = 6 fields, one ANSWERED child call:
            cls text kind str flags exc
            kind = ok | nomatch | raises ; flags = three characters 0/1: elemental, binding, pointer
            (the three structural questions of `HOracle`) ; exc = exception name (kind raises)
        → unmodelled | ask cls text | nomatch | raises excname
        | ok n item* (str text | strraises excname)        item = N | S text | T i
    header.plan   std cls text → unmodelled | none | nomatch | raises excname | ok n slot*
                                  slot = N | S text | C cls text | F | X excname     (call order)
    header.str    std cls item*     item = N | S text | T text → unmodelled | str text | strraises exc
    header.names  std kind openText openName openLabel endCls endText endLabel
        kind = a `BKind` constructor name; openName = "-" | "+name" (item.name); labels = "-" | digits
        endCls = the class of the closing statement ("Continue_Stmt" for the other DO terminator)
        Runs the model's `match` of the start and end class with the built-in NAME oracle
        (`*_Name`/`Name` classes and `Generic_Spec` (the name class of END INTERFACE) accept exactly
        `pattern.abs_name` after `strip`; every other class
        echoes) and `namesAgree`.
        → verdict v openerName openerStartName enderName       v = accepted | syntaxError |
              systemExit | noMatch | goesOn | openerRejected | enderRejected
    header.mid    std kind openText openName midCls midText → verdict v
    header.tofortran label name text tab isfix → text        (label/name "-" = None)
    header.reread  text → label name rest     (free form: `extract_label` then `extract_construct_name`)
    header.kinds → block start end matchNames strictNames matchLabels nameClasses… per kind
-/
namespace FpDriver.Header
open Fp Fp.Wire Fp.IoStmt Fp.Header

def ok (fs : List String) : String := "\t".intercalate ("OK" :: fs)

def excName : Exc → String
  | .indexError => "IndexError"
  | .valueError => "ValueError"
  | .assertionError => "AssertionError"
  | .typeError => "TypeError"
  | .keyError => "KeyError"
  | .internalError => "InternalError"
  | .child info => "child:" ++ String.ofList info

def stdOf (h : String) : Std := if dec h == "f2008" then .f2008 else .f2003

def nameOf (c : ClassId) : String := Header.clsNames.getD c "?"

structure Entry where
  cls : String
  text : Str
  kind : String
  str : Str
  flags : Str
  exc : String

def decEntries : List String → List Entry
  | c :: t :: k :: s :: f :: x :: rest =>
    { cls := dec c, text := decL t, kind := dec k, str := decL s, flags := decL f, exc := dec x }
      :: decEntries rest
  | _ => []

def findEntry (es : List Entry) (name : String) (t : Str) : Option (Nat × Entry) :=
  let rec go : List Entry → Nat → Option (Nat × Entry)
    | [], _ => none
    | e :: rest, i => if e.cls == name && e.text == t then some (i, e) else go rest (i + 1)
  go es 0

def flagAt (es : List Entry) (k : Nat) (i : Nat) : Bool :=
  match es[i]? with
  | some e => e.flags[k]? == some '1'
  | none => false

def tableOracle (es : List Entry) : HOracle Nat :=
  { base :=
      { call := fun c t =>
          match findEntry es (nameOf c) t with
          | none => .raises (.child ('?' :: (nameOf c).toList ++ '\t' :: t))
          | some (i, e) =>
            if e.kind == "ok" then .ok i
            else if e.kind == "nomatch" then .noMatch
            else .raises (.child e.exc.toList)
        str := fun i => (es[i]?.map (·.str)).getD []
        head := fun _ => none
        rhsStr := fun _ => []
        heads := fun _ => []
        isDataEdit := fun _ => false }
    elemental := flagAt es 0
    binding := flagAt es 1
    pointer := flagAt es 2 }

def encItem : Item Nat → List String
  | .none => [enc "N"]
  | .str s => [enc "S", encL s]
  | .node i => [enc "T", enc (toString i)]
  | .bare i => [enc "B", enc (toString i)]
  | .nodes is => [enc "L", enc (",".intercalate (is.map toString))]

def encStrRes : Res Str → List String
  | .ok t => [enc "str", encL t]
  | .noMatch => [enc "strraises", enc "NoMatch"]
  | .raises e => [enc "strraises", enc (excName e)]

def encSlot : Slot → List String
  | .none => [enc "N"]
  | .str s => [enc "S", encL s]
  | .child c s => [enc "C", enc (nameOf c), encL s]
  | .fail => [enc "F"]
  | .raise e => [enc "X", enc (excName e)]

def textOracle : Oracle Str :=
  { call := fun _ _ => .noMatch, str := id, head := fun _ => none, rhsStr := fun _ => [],
    heads := fun _ => [], isDataEdit := fun _ => false }

def decItems : List String → Option (List (Item Str))
  | [] => some []
  | k :: rest =>
    match dec k, rest with
    | "N", rest => (decItems rest).map (Item.none :: ·)
    | "S", t :: rest => (decItems rest).map (Item.str (decL t) :: ·)
    | "T", t :: rest => (decItems rest).map (Item.node (decL t) :: ·)
    | _, _ => none

/-! the built-in NAME oracle of `header.names` -/

def isNameCls (c : ClassId) : Bool :=
  let n := nameOf c
  n == "Name" || n.endsWith "_Name" || n == "Generic_Spec"

def nameOracle : HOracle Str :=
  { base :=
      { call := fun c t =>
          if isNameCls c then (if isAbsName (strip t) then .ok (strip t) else .noMatch) else .ok t
        str := id, head := fun _ => none, rhsStr := fun _ => [], heads := fun _ => [],
        isDataEdit := fun _ => false }
    elemental := fun _ => false
    binding := fun _ => false
    pointer := fun _ => true }

def kindOf (s : String) : Option BKind :=
  BKind.all.find? fun k => (reprStr k).endsWith ("." ++ s) || reprStr k == s

def optName (s : String) : Option Str :=
  match s.toList with
  | '+' :: k => some k
  | _ => none

def optNat (s : String) : Option Nat :=
  if s == "-" || s.isEmpty then none else s.toNat?

def verdictName : Verdict → String
  | .accepted => "accepted"
  | .syntaxError => "syntaxError"
  | .systemExit => "systemExit"
  | .noMatch => "noMatch"
  | .goesOn => "goesOn"

def optS : Option Str → String
  | some s => enc ("+" ++ String.ofList s)
  | none => enc "-"

def openerBy (std : Std) (k : BKind) (text : Str) (nm : Option Str) (lab : Option Nat) :
    Option Opener :=
  match clsId (cfgOf k).startCls with
  | some c =>
    (match Header.matchOf std nameOracle c text with
      | some (.ok items) => some (openerOf nameOracle.base k items nm lab)
      | _ => none)
  | none =>
    -- start classes of the IoStmt slice (IF … THEN, SELECT CASE, DO, WHERE, FORALL): nothing is
    -- read off their items, only `item.name` and the DO label
    some (openerOf nameOracle.base k ([] : List (Item Str)) nm lab)

def handle (cmd : String) (args : List String) : Option String :=
  match cmd, args with
  | "header.classes", _ => some (ok (enc (toString firstModelled) :: Header.clsNames.map enc))
  | "header.match", std :: cls :: text :: entries =>
    match clsId (dec cls) with
    | none => some (ok [enc "unmodelled"])
    | some c =>
      let es := decEntries entries
      let o := tableOracle es
      match Header.matchOf (stdOf std) o c (decL text) with
      | none => some (ok [enc "unmodelled"])
      | some .noMatch => some (ok [enc "nomatch"])
      | some (.raises (.child ('?' :: q))) =>
        let qs := String.ofList q
        (match qs.splitOn "\t" with
          | n :: rest => some (ok [enc "ask", enc n, enc ("\t".intercalate rest)])
          | [] => some (ok [enc "ask", enc "", enc ""]))
      | some (.raises e) => some (ok [enc "raises", enc (excName e)])
      | some (.ok items) =>
        let pr := match Header.tostrOf (stdOf std) o.base c items with
          | some r => encStrRes r
          | none => [enc "strraises", enc "unmodelled"]
        some (ok (enc "ok" :: enc (toString items.length) :: items.flatMap encItem ++ pr))
  | "header.plan", [std, cls, text] =>
    match clsId (dec cls) with
    | none => some (ok [enc "unmodelled"])
    | some c =>
      match Header.planOf (stdOf std) c with
      | none => some (ok [enc (if (Header.matchOf (stdOf std) (tableOracle []) c []).isSome then "none" else "unmodelled")])
      | some plan =>
        match plan (decL text) with
        | .noMatch => some (ok [enc "nomatch"])
        | .raises e => some (ok [enc "raises", enc (excName e)])
        | .ok slots => some (ok (enc "ok" :: enc (toString slots.length) :: slots.flatMap encSlot))
  | "header.str", std :: cls :: items =>
    match clsId (dec cls), decItems items with
    | some c, some its =>
      (match Header.tostrOf (stdOf std) textOracle c its with
        | some r => some (ok (encStrRes r))
        | none => some (ok [enc "unmodelled"]))
    | _, _ => some ("ERR\t" ++ enc "bad header.str request")
  | "header.names", [std, kind, otext, oname, olabel, ecls, etext, elabel] =>
    match kindOf (dec kind) with
    | none => some ("ERR\t" ++ enc "unknown kind")
    | some k =>
      match openerBy (stdOf std) k (decL otext) (optName (dec oname)) (optNat (dec olabel)) with
      | none => some (ok [enc "verdict", enc "openerRejected"])
      | some op =>
        let ecl := dec ecls
        let en : Option Ender :=
          if ecl == "Continue_Stmt" then
            (if upper (strip (decL etext)) == "CONTINUE".toList then
              some { cls := ecl, name := none, label := optNat (dec elabel), isEndDoStmt := false, named := false }
             else none)
          else match clsId ecl with
            | none => none
            | some c =>
              match Header.matchOf (stdOf std) nameOracle c (decL etext) with
              | some (.ok items) => some (enderOf nameOracle.base ecl items (optNat (dec elabel)))
              | _ => none
        match en with
        | none => some (ok [enc "verdict", enc "enderRejected"])
        | some e =>
          some (ok [enc "verdict", enc (verdictName (namesAgree (cfgOf k) op e)),
                    optS op.name, optS op.startName, optS e.name])
  | "header.mid", [std, kind, otext, oname, mcls, mtext] =>
    match kindOf (dec kind) with
    | none => some ("ERR\t" ++ enc "unknown kind")
    | some k =>
      match openerBy (stdOf std) k (decL otext) (optName (dec oname)) none with
      | none => some (ok [enc "verdict", enc "openerRejected"])
      | some op =>
        -- the name of an intermediate statement is its LAST item
        let nm : Option (Option Str) :=
          match clsId (dec mcls) with
          | none => none
          | some c =>
            match Header.matchOf (stdOf std) nameOracle c (decL mtext) with
            | some (.ok items) => some ((items.getLast?).bind (fun i => match i with | .node n => some n | _ => none))
            | _ => none
        match nm with
        | none => some (ok [enc "verdict", enc "enderRejected"])
        | some n => some (ok [enc "verdict", enc (verdictName (midAgree (cfgOf k) op (dec mcls) n))])
  | "header.tofortran", [label, name, text, tab, isfix] =>
    some (ok [encL (tofortran (optNat (dec label)) (optName (dec name)) (decL text) (decL tab)
                (dec isfix == "1"))])
  | "header.reread", [text] =>
    let l := Fp.Reader.extractLabel (decL text)
    let n := Fp.Reader.extractName l.2
    some (ok [enc (match l.1 with | some v => toString v | none => "-"), optS n.1, encL n.2])
  | "header.kinds", _ =>
    some (ok (BKind.all.flatMap fun k =>
      let c := cfgOf k
      [enc (reprStr k), enc c.block, enc c.startCls, enc c.endCls, enc (toString c.matchNames),
       enc (toString c.strictNames), enc (toString c.matchLabels), enc (",".intercalate c.nameClasses)]))
  | _, _ => none

end FpDriver.Header
