import FpDriver

/-! fpmodel — line-protocol driver for the executable models (see FparserModel/Wire.lean) -/

partial def loop (h : IO.FS.Stream) (out : IO.FS.Stream) : IO Unit := do
  let line ← h.getLine
  if line.isEmpty then return ()
  let l := (line.dropEndWhile (fun c => c == '\n' || c == '\r')).toString
  out.putStrLn (FpDriver.dispatch l)
  out.flush
  loop h out

def main : IO Unit := do
  let out ← IO.getStdout
  loop (← IO.getStdin) out
  out.flush
