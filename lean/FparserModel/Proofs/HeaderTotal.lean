import FparserModel.Header
import FparserModel.Proofs.IoStmtBasic
import FparserModel.Proofs.IoStmtTotal
/-!
Property C06 for the Header slice: which exceptions can ESCAPE from the `match` of a modelled class of
`FparserModel/Header.lean`.  Result (`matchOf_total`): with children that raise nothing but `NoMatchError`, the ONLY exception is
the `KeyError` of `string_replace_map`'s un-nesting loop (`Combi.tokenise l = none` for some `l`), which cannot happen for
`SrmOK` texts.  The `IndexError` branch of `Submodule_Stmt.match`, the `ValueError` branch of `Block_Stmt.match` and the `TypeError`
branch of the model of `Proc_Component_Def_Stmt.match` are UNREACHABLE.
-/
namespace Fp.Header
open Fp Fp.Splitline Fp.IoStmt

variable {Node : Type}

/-- the only exception of the slice: `KeyError` of an (impossible) tokeniser failure -/
def z_KE (e : Exc) : Prop := e = .keyError ∧ ∃ l, Combi.tokenise l = none

/-- the `Slot.raise`s of a slot list are tokeniser `KeyError`s (only `planEntry` has one) -/
def SlotsTotal (l : List Slot) : Prop := ∀ e, Slot.raise e ∈ l → z_KE e

/-- a plan raises nothing of its own but `tok`'s `KeyError` -/
def PlanTotalH (p : Str → Res (List Slot)) : Prop :=
  ∀ s e, p s = .raises e → e = .keyError ∧ ∃ l, Combi.tokenise l = none

def z_ResTotal (x : Res (List Slot)) : Prop :=
  (∀ e, x = .raises e → z_KE e) ∧ (∀ slots, x = .ok slots → SlotsTotal slots)

/-- raises + slots -/
def z_PlanTotal (p : Str → Res (List Slot)) : Prop := ∀ s, z_ResTotal (p s)

theorem z_planTotalH_of {p : Str → Res (List Slot)} (h : z_PlanTotal p) : PlanTotalH p :=
  fun s e he => (h s).1 e he

theorem z_slotsTotal_of_noRaise {l : List Slot} (h : NoRaise l) : SlotsTotal l :=
  fun e he => absurd he (h.not_mem e)

theorem z_ResTotal.noMatch : z_ResTotal .noMatch := ⟨fun _ h => (by cases h), fun _ h => (by cases h)⟩

theorem z_ResTotal.ok {l : List Slot} (h : NoRaise l) : z_ResTotal (.ok l) :=
  ⟨fun _ h => (by cases h), fun _ h' => (by cases h'; exact z_slotsTotal_of_noRaise h)⟩

theorem z_ResTotal.okK {l : List Slot} (h : SlotsTotal l) : z_ResTotal (.ok l) :=
  ⟨fun _ h => (by cases h), fun _ h' => (by cases h'; exact h)⟩

theorem z_ResTotal.tok_bind (l : Str) {f : SrmResult → Res (List Slot)} (h : ∀ r, z_ResTotal (f r)) :
    z_ResTotal ((tok l).bind f) := by
  constructor
  · intro e he
    rcases Res.bind_eq_raises he with h1 | ⟨r, _, h1⟩
    · exact ⟨(tok_raises h1).1, l, (tok_raises h1).2⟩
    · exact (h r).1 e h1
  · intro slots hs
    obtain ⟨r, _, h1⟩ := Res.bind_eq_ok hs
    exact (h r).2 slots h1

/-- from the sibling slice's notion (no `tok` witness needed when nothing is raised) -/
theorem z_resTotal_of_pure {x : Res (List Slot)} (h1 : ∀ e, x ≠ .raises e)
    (h2 : ∀ slots, x = .ok slots → NoRaise slots) : z_ResTotal x :=
  ⟨fun e he => absurd he (h1 e), fun slots hs => z_slotsTotal_of_noRaise (h2 slots hs)⟩

macro "z_leaf" : tactic =>
  `(tactic| first
    | with_reducible exact z_ResTotal.noMatch
    | (with_reducible refine z_ResTotal.ok ?_
       simp only [List.cons_append, List.nil_append, noRaise_cons, noRaise_nil, isRaise_none, isRaise_str,
        isRaise_child, isRaise_fail, isRaise_delim, isRaise_ite, ite_self, and_self]))

macro "z_step" : tactic =>
  `(tactic| first
    | z_leaf
    | (with_reducible apply z_ResTotal.tok_bind; intro r)
    | split
    | dsimp only)

/-! ## the plans without the tokeniser -/

theorem z_planBlockData_total : z_PlanTotal planBlockData := by
  intro s; unfold planBlockData; repeat z_step

theorem z_planPrefixSpec_total : z_PlanTotal planPrefixSpec := by
  intro s; unfold planPrefixSpec; repeat z_step

theorem z_planLanguageBinding_total : z_PlanTotal planLanguageBinding := by
  intro s; unfold planLanguageBinding; repeat z_step

theorem z_planSuffix_total : z_PlanTotal planSuffix := by
  intro s; unfold planSuffix; repeat z_step

theorem z_planDummyArg_total :
    z_PlanTotal (fun s => if s == ['*'] then Res.ok [Slot.str s] else .noMatch) := by
  intro s; dsimp only; repeat z_step

theorem z_planParentIdentifier_total : z_PlanTotal planParentIdentifier := by
  intro s; unfold planParentIdentifier; repeat z_step

theorem z_planInterface_total : z_PlanTotal planInterface := by
  intro s; unfold planInterface; repeat z_step

theorem z_planGenericSpec_total : z_PlanTotal planGenericSpec := by
  intro s; unfold planGenericSpec; repeat z_step

theorem z_dtioOne_total (rw s : Str) (r : Res (List Slot)) (h : dtioOne rw s = some r) : z_ResTotal r := by
  unfold dtioOne at h
  split at h
  · dsimp only at h
    split at h
    · cases h; z_leaf
    split at h
    · cases h; z_leaf
    split at h
    · cases h; z_leaf
    · cases h
  · cases h

theorem z_planDtio_total : z_PlanTotal planDtio := by
  intro s; unfold planDtio
  split
  · rename_i r h; exact z_dtioOne_total _ _ _ h
  · split
    · rename_i r h; exact z_dtioOne_total _ _ _ h
    · z_leaf

theorem z_planExtendedIntrinsicOp_total : z_PlanTotal planExtendedIntrinsicOp := by
  intro s; unfold planExtendedIntrinsicOp; repeat z_step

theorem z_planProcedureStmt_total (std : Std) : z_PlanTotal (planProcedureStmt std) := by
  intro s
  cases std with
  | f2003 => unfold planProcedureStmt; dsimp only; repeat z_step
  | f2008 =>
    unfold planProcedureStmt; dsimp only
    repeat (first | split | dsimp only | z_leaf)

theorem z_planTypeAttrSpec_total : z_PlanTotal planTypeAttrSpec := by
  intro s; unfold planTypeAttrSpec; repeat z_step

theorem z_planKeyword_total (kw : Str) : z_PlanTotal (planKeyword kw) := by
  intro s; unfold planKeyword; repeat z_step

theorem z_planKeywords_total (kws : List String) : z_PlanTotal (planKeywords kws) := by
  intro s; unfold planKeywords; repeat z_step

theorem z_planEnumDef_total : z_PlanTotal planEnumDef := by
  intro s; unfold planEnumDef; repeat z_step

theorem z_planGenericBinding_total : z_PlanTotal planGenericBinding := by
  intro s; unfold planGenericBinding; repeat z_step

theorem z_planProcAttrSpec_total : z_PlanTotal planProcAttrSpec := by
  intro s; unfold planProcAttrSpec; repeat z_step

theorem z_planSelectType_total : z_PlanTotal planSelectType := by
  intro s; unfold planSelectType; repeat z_step

theorem z_planTypeGuard_total : z_PlanTotal planTypeGuard := by
  intro s; unfold planTypeGuard; repeat z_step

theorem z_planElse_total : z_PlanTotal planElse := by
  intro s; unfold planElse; repeat z_step

theorem z_planElsewhere_total : z_PlanTotal planElsewhere := by
  intro s; unfold planElsewhere; repeat z_step

theorem z_planMaskedElsewhere_total : z_PlanTotal planMaskedElsewhere := by
  intro s; unfold planMaskedElsewhere; repeat z_step

theorem z_planDerivedType_total : z_PlanTotal planDerivedType := by
  intro s; unfold planDerivedType; repeat z_step

theorem z_planSpecificBinding_total : z_PlanTotal planSpecificBinding := by
  intro s; unfold planSpecificBinding; repeat z_step

/-! ## the plans with the tokeniser -/

theorem z_planBinaryArrow_total (a b : ClassId) : z_PlanTotal (planBinaryArrow a b) := by
  intro s; unfold planBinaryArrow; repeat z_step

theorem z_planProcedureDeclaration_total : z_PlanTotal planProcedureDeclaration := by
  intro s; unfold planProcedureDeclaration; repeat z_step

theorem z_planProcComponentDef_total : z_PlanTotal planProcComponentDef := by
  intro s; unfold planProcComponentDef; repeat z_step

theorem z_planSubroutine_total : z_PlanTotal planSubroutine := by
  intro s; unfold planSubroutine prefixSlot; repeat z_step

theorem z_planFunction_total : z_PlanTotal planFunction := by
  intro s; unfold planFunction prefixSlot; repeat z_step

/-! ## Prefix -/

theorem z_noRaise_map_child (c : ClassId) (l : List Str) : NoRaise (l.map (Slot.child c)) := by
  intro x hx
  obtain ⟨a, _, rfl⟩ := List.mem_map.1 hx
  rfl

theorem z_prefixCalls_noRaise (st en : List Str) (rem : Str) :
    NoRaise (st.map (Slot.child C.Prefix_Spec) ++ en.map (Slot.child C.Prefix_Spec) ++
      (if rem.isEmpty then [] else [Slot.child C.Declaration_Type_Spec rem])) := by
  refine NoRaise.append (NoRaise.append (z_noRaise_map_child _ _) (z_noRaise_map_child _ _)) ?_
  split <;> simp

theorem z_noRaise_append {a b : List Slot} : NoRaise (a ++ b) ↔ NoRaise a ∧ NoRaise b :=
  ⟨fun h => ⟨fun x hx => h x (List.mem_append_left _ hx), fun x hx => h x (List.mem_append_right _ hx)⟩,
   fun h => NoRaise.append h.1 h.2⟩

theorem z_planPrefix_total : z_PlanTotal planPrefix := by
  intro s; unfold planPrefix
  split
  rename_i st mid en _
  dsimp only
  repeat' split
  all_goals first
    | exact z_ResTotal.noMatch
    | (refine z_ResTotal.ok ?_
       simp only [z_noRaise_append, z_noRaise_map_child, noRaise_cons, noRaise_nil, isRaise_child, isRaise_fail,
         and_self, List.append_nil])

/-! ## Entry_Stmt: the one plan with a `Slot.raise` (the tokeniser is called after `Entry_Name(...)`) -/

theorem z_planEntry_total : z_PlanTotal planEntry := by
  intro s; unfold planEntry
  split
  · z_leaf
  dsimp only
  split
  · z_leaf
  · split
    · rename_i e he
      refine z_ResTotal.okK ?_
      intro e' hm
      simp only [List.mem_cons, List.not_mem_nil, or_false, reduceCtorEq, false_or, Slot.raise.injEq] at hm
      subst hm
      exact ⟨(tok_raises he).1, _, (tok_raises he).2⟩
    · z_leaf
    · repeat z_step

/-! ## Block_Stmt: `WORDClsBase.match` never returns an empty tuple -/

theorem z_wordSplit1_ne_nil (kw : Str) (c : Option ClassId) (co r : Bool) (s : Str) :
    Combi.wordSplit1 kw c co r s ≠ some [] := by
  unfold Combi.wordSplit1
  intro h
  dsimp only at h
  (repeat' split at h) <;> cases h

theorem z_planBlockStmt_total : z_PlanTotal planBlockStmt := by
  intro s; unfold planBlockStmt
  split
  · rename_i b rest h
    have h1 := (resTotal_of_planTotal (combiPlan_total specBlockWord (by decide)) s).2 _ h
    rw [noRaise_cons] at h1
    exact z_ResTotal.ok (by simp only [noRaise_cons, noRaise_nil, isRaise_str, and_self, and_true]; exact h1.1)
  · rename_i h
    exfalso
    unfold combiPlan ofCombi at h
    split at h
    · cases h
    · rename_i slots hs
      have h2 : slots = [] := by
        cases slots with
        | nil => rfl
        | cons a l => simp at h
      subst h2
      exact z_wordSplit1_ne_nil "BLOCK".toList none false false s hs
  · z_leaf
  · rename_i e h
    exact absurd h (combiPlan_not_raises _ _ _)

/-! ## Submodule_Stmt: the `IndexError` branch (`par[0]` of an empty middle piece) is unreachable: with three pieces
    the middle one of `splitparen` is a non-empty `ParenString` -/

/-- the pieces pushed so far (last first) alternate plain / paren; `true` = a paren piece was pushed last (or nothing) -/
def z_alt : Bool → List PItem → Bool
  | true, [] => true
  | false, [] => false
  | true, .paren s :: l => !s.isEmpty && z_alt false l
  | false, .plain _ :: l => z_alt true l
  | _, _ => false

def z_inv (st : PState) : Prop := z_alt st.stack.isEmpty st.items = true

theorem z_parenStep_inv (pairs : List (Char × Char)) (st : PState) (c : Char) (h : z_inv st) :
    z_inv (parenStep pairs st c) := by
  unfold parenStep
  split
  · exact h
  split
  · exact h
  split
  · split <;> exact h
  · split
    · exact h
    · split
      · split
        · rename_i hemp
          unfold z_inv at h ⊢
          rw [hemp] at h
          simpa [z_alt] using h
        · rename_i hemp
          unfold z_inv at h ⊢
          have : st.stack.isEmpty = false := by simpa using hemp
          rw [this] at h
          simpa using h
      · split
        · rename_i top rest hst
          split
          · split
            · unfold z_inv at h ⊢
              rw [hst] at h
              simpa [z_alt] using h
            · rename_i hr
              unfold z_inv at h ⊢
              rw [hst] at h
              have : rest.isEmpty = false := by simpa using hr
              simpa [this] using h
          · exact h
        · exact h

theorem z_foldl_inv (pairs : List (Char × Char)) : ∀ (l : Str) (st : PState), z_inv st →
    z_inv (l.foldl (parenStep pairs) st)
  | [], _, h => h
  | c :: cs, st, h => z_foldl_inv pairs cs _ (z_parenStep_inv pairs st c h)

theorem z_alt_three {f : Bool} {c b a : PItem} (h : z_alt f [c, b, a] = true) : b.str ≠ [] := by
  cases f <;> cases c <;> cases b <;> cases a <;> simp [z_alt, PItem.str] at h ⊢ <;> exact h

theorem z_alt_two {f : Bool} {b a : PItem} (h : z_alt f [b, a] = true) : b.str ≠ [] := by
  cases f <;> cases b <;> cases a <;> simp [z_alt, PItem.str] at h ⊢ <;> exact h

theorem z_parenFinish_mid {st : PState} (h : z_inv st) {a b c : PItem} (hf : parenFinish st = [a, b, c]) :
    b.str ≠ [] := by
  unfold parenFinish at hf
  unfold z_inv at h
  split at hf
  · have h1 : st.items = [c, b, a] := by
      have := congrArg List.reverse hf
      rw [List.reverse_reverse] at this
      exact this
    rw [h1] at h
    exact z_alt_three h
  · have h1 : PItem.plain st.cur.reverse :: st.items = [c, b, a] := by
      have := congrArg List.reverse hf
      rw [List.reverse_reverse] at this
      exact this
    have h2 : st.items = [b, a] := (List.cons.inj h1).2
    rw [h2] at h
    exact z_alt_two h

theorem z_splitparen_mid {t : Str} {x par y : Str} (h : splitparenPieces t = [x, par, y]) : par ≠ [] := by
  unfold splitparenPieces at h
  have hinv : z_inv (t.foldl (parenStep defaultPairs) {}) := z_foldl_inv _ t _ rfl
  rcases hsp : Splitline.splitparen t with _ | ⟨a, _ | ⟨b, _ | ⟨c, _ | ⟨d, l⟩⟩⟩⟩ <;> rw [hsp] at h <;>
    simp only [List.map_nil, List.map_cons, List.cons.injEq, reduceCtorEq, and_false, and_true] at h
  obtain ⟨_, rfl, _⟩ := h
  exact z_parenFinish_mid hinv hsp

theorem z_planSubmodule_total : z_PlanTotal planSubmodule := by
  intro s; unfold planSubmodule
  split
  · z_leaf
  split
  · rename_i spurious par nm hsp
    split
    · z_leaf
    split
    · repeat z_step
    · rename_i hbad
      exfalso
      obtain ⟨a, b, ha, hb⟩ := headLast_of_ne_nil (z_splitparen_mid hsp)
      exact hbad a b ha hb
  · z_leaf

/-! ## the generic-combinator classes (`specOf`): END statements, PROGRAM / MODULE / FINAL / IMPORT / ENUMERATOR / ASSOCIATE /
    CRITICAL / PASS(...) and the three lists: no spec has a non-callable argument, `ofCombi` raises nothing -/

theorem z_specOf_good (c : ClassId) (sp : Combi.Spec) (h : specOf c = some sp) : specGood sp = true := by
  unfold specOf at h
  split at h
  · cases h; rfl
  · skip
    by_cases h1 : (c == C.Program_Stmt) = true
    · rw [if_pos h1] at h; cases h; first | rfl | decide
    rw [if_neg h1] at h; clear h1
    by_cases h1 : (c == C.Module_Stmt) = true
    · rw [if_pos h1] at h; cases h; first | rfl | decide
    rw [if_neg h1] at h; clear h1
    by_cases h1 : (c == C.Final_Binding) = true
    · rw [if_pos h1] at h; cases h; first | rfl | decide
    rw [if_neg h1] at h; clear h1
    by_cases h1 : (c == C.Import_Stmt) = true
    · rw [if_pos h1] at h; cases h; first | rfl | decide
    rw [if_neg h1] at h; clear h1
    by_cases h1 : (c == C.Enumerator_Def_Stmt) = true
    · rw [if_pos h1] at h; cases h; first | rfl | decide
    rw [if_neg h1] at h; clear h1
    by_cases h1 : (c == C.Associate_Stmt) = true
    · rw [if_pos h1] at h; cases h; first | rfl | decide
    rw [if_neg h1] at h; clear h1
    by_cases h1 : (c == C.Critical_Stmt) = true
    · rw [if_pos h1] at h; cases h; first | rfl | decide
    rw [if_neg h1] at h; clear h1
    by_cases h1 : (c == C.Binding_PASS_Arg_Name) = true
    · rw [if_pos h1] at h; cases h; first | rfl | decide
    rw [if_neg h1] at h; clear h1
    by_cases h1 : (c == C.Proc_Component_PASS_Arg_Name) = true
    · rw [if_pos h1] at h; cases h; first | rfl | decide
    rw [if_neg h1] at h; clear h1
    by_cases h1 : (c == C.Dummy_Arg_List) = true
    · rw [if_pos h1] at h; cases h; first | rfl | decide
    rw [if_neg h1] at h; clear h1
    by_cases h1 : (c == C.Dummy_Arg_Name_List) = true
    · rw [if_pos h1] at h; cases h; first | rfl | decide
    rw [if_neg h1] at h; clear h1
    by_cases h1 : (c == C.Type_Attr_Spec_List) = true
    · rw [if_pos h1] at h; cases h; first | rfl | decide
    rw [if_neg h1] at h; clear h1
    cases h

/-- stronger than `PlanTotalH`: NOTHING is raised -/
theorem z_combiPlan_total (sp : Combi.Spec) (hg : specGood sp = true) : z_PlanTotal (combiPlan sp) := fun s =>
  z_resTotal_of_pure (combiPlan_not_raises sp s) (resTotal_of_planTotal (combiPlan_total sp hg) s).2

theorem z_combiPlan_specOf_total (c : ClassId) (sp : Combi.Spec) (h : specOf c = some sp) :
    z_PlanTotal (combiPlan sp) := z_combiPlan_total sp (z_specOf_good c sp h)

/-! ## the dispatch -/

theorem z_planOf_total (std : Std) (c : ClassId) (plan : Str → Res (List Slot)) (h : planOf std c = some plan) :
    z_PlanTotal plan := by
  unfold planOf at h
  by_cases h0 : (std == .f2003 && only2008 c) = true
  · rw [if_pos h0] at h; cases h
  rw [if_neg h0] at h; clear h0
  cases hsp : specOf c with
  | some sp =>
    rw [hsp] at h
    cases h
    exact z_combiPlan_specOf_total c sp hsp
  | none =>
    rw [hsp] at h
    dsimp only at h
    by_cases h1 : (c == C.Block_Data_Stmt) = true
    · rw [if_pos h1] at h; cases h; exact z_planBlockData_total
    rw [if_neg h1] at h; clear h1
    by_cases h1 : (c == C.Prefix) = true
    · rw [if_pos h1] at h; cases h; exact z_planPrefix_total
    rw [if_neg h1] at h; clear h1
    by_cases h1 : (c == C.Prefix_Spec) = true
    · rw [if_pos h1] at h; cases h; exact z_planPrefixSpec_total
    rw [if_neg h1] at h; clear h1
    by_cases h1 : (c == C.Suffix) = true
    · rw [if_pos h1] at h; cases h; exact z_planSuffix_total
    rw [if_neg h1] at h; clear h1
    by_cases h1 : (c == C.Language_Binding_Spec) = true
    · rw [if_pos h1] at h; cases h; exact z_planLanguageBinding_total
    rw [if_neg h1] at h; clear h1
    by_cases h1 : (c == C.Dummy_Arg) = true
    · rw [if_pos h1] at h; cases h; exact z_planDummyArg_total
    rw [if_neg h1] at h; clear h1
    by_cases h1 : (c == C.Entry_Stmt) = true
    · rw [if_pos h1] at h; cases h; exact z_planEntry_total
    rw [if_neg h1] at h; clear h1
    by_cases h1 : (c == C.Submodule_Stmt) = true
    · rw [if_pos h1] at h; cases h; exact z_planSubmodule_total
    rw [if_neg h1] at h; clear h1
    by_cases h1 : (c == C.Parent_Identifier) = true
    · rw [if_pos h1] at h; cases h; exact z_planParentIdentifier_total
    rw [if_neg h1] at h; clear h1
    by_cases h1 : (c == C.Interface_Stmt) = true
    · rw [if_pos h1] at h; cases h; exact z_planInterface_total
    rw [if_neg h1] at h; clear h1
    by_cases h1 : (c == C.Generic_Spec) = true
    · rw [if_pos h1] at h; cases h; exact z_planGenericSpec_total
    rw [if_neg h1] at h; clear h1
    by_cases h1 : (c == C.Dtio_Generic_Spec) = true
    · rw [if_pos h1] at h; cases h; exact z_planDtio_total
    rw [if_neg h1] at h; clear h1
    by_cases h1 : (c == C.Extended_Intrinsic_Op) = true
    · rw [if_pos h1] at h; cases h; exact z_planExtendedIntrinsicOp_total
    rw [if_neg h1] at h; clear h1
    by_cases h1 : (c == C.Procedure_Stmt) = true
    · rw [if_pos h1] at h; cases h; exact z_planProcedureStmt_total std
    rw [if_neg h1] at h; clear h1
    by_cases h1 : (c == C.Derived_Type_Stmt) = true
    · rw [if_pos h1] at h; cases h; exact z_planDerivedType_total
    rw [if_neg h1] at h; clear h1
    by_cases h1 : (c == C.Type_Attr_Spec) = true
    · rw [if_pos h1] at h; cases h; exact z_planTypeAttrSpec_total
    rw [if_neg h1] at h; clear h1
    by_cases h1 : (c == C.Private_Components_Stmt) = true
    · rw [if_pos h1] at h; cases h; exact z_planKeyword_total _
    rw [if_neg h1] at h; clear h1
    by_cases h1 : (c == C.Binding_Private_Stmt) = true
    · rw [if_pos h1] at h; cases h; exact z_planKeyword_total _
    rw [if_neg h1] at h; clear h1
    by_cases h1 : (c == C.Sequence_Stmt) = true
    · rw [if_pos h1] at h; cases h; exact z_planKeyword_total _
    rw [if_neg h1] at h; clear h1
    by_cases h1 : (c == C.Contains_Stmt) = true
    · rw [if_pos h1] at h; cases h; exact z_planKeyword_total _
    rw [if_neg h1] at h; clear h1
    by_cases h1 : (c == C.Binding_Attr) = true
    · rw [if_pos h1] at h; cases h; exact z_planKeywords_total _
    rw [if_neg h1] at h; clear h1
    by_cases h1 : (c == C.Proc_Component_Attr_Spec) = true
    · rw [if_pos h1] at h; cases h; exact z_planKeywords_total _
    rw [if_neg h1] at h; clear h1
    by_cases h1 : (c == C.Specific_Binding) = true
    · rw [if_pos h1] at h; cases h; exact z_planSpecificBinding_total
    rw [if_neg h1] at h; clear h1
    by_cases h1 : (c == C.Generic_Binding) = true
    · rw [if_pos h1] at h; cases h; exact z_planGenericBinding_total
    rw [if_neg h1] at h; clear h1
    by_cases h1 : (c == C.Procedure_Declaration_Stmt) = true
    · rw [if_pos h1] at h; cases h; exact z_planProcedureDeclaration_total
    rw [if_neg h1] at h; clear h1
    by_cases h1 : (c == C.Proc_Attr_Spec) = true
    · rw [if_pos h1] at h; cases h; exact z_planProcAttrSpec_total
    rw [if_neg h1] at h; clear h1
    by_cases h1 : (c == C.Enum_Def_Stmt) = true
    · rw [if_pos h1] at h; cases h; exact z_planEnumDef_total
    rw [if_neg h1] at h; clear h1
    by_cases h1 : (c == C.Association) = true
    · rw [if_pos h1] at h; cases h; exact z_planBinaryArrow_total _ _
    rw [if_neg h1] at h; clear h1
    by_cases h1 : (c == C.Select_Type_Stmt) = true
    · rw [if_pos h1] at h; cases h; exact z_planSelectType_total
    rw [if_neg h1] at h; clear h1
    by_cases h1 : (c == C.Type_Guard_Stmt) = true
    · rw [if_pos h1] at h; cases h; exact z_planTypeGuard_total
    rw [if_neg h1] at h; clear h1
    by_cases h1 : (c == C.Block_Stmt) = true
    · rw [if_pos h1] at h; cases h; exact z_planBlockStmt_total
    rw [if_neg h1] at h; clear h1
    by_cases h1 : (c == C.Else_Stmt) = true
    · rw [if_pos h1] at h; cases h; exact z_planElse_total
    rw [if_neg h1] at h; clear h1
    by_cases h1 : (c == C.Elsewhere_Stmt) = true
    · rw [if_pos h1] at h; cases h; exact z_planElsewhere_total
    rw [if_neg h1] at h; clear h1
    by_cases h1 : (c == C.Masked_Elsewhere_Stmt) = true
    · rw [if_pos h1] at h; cases h; exact z_planMaskedElsewhere_total
    rw [if_neg h1] at h; clear h1
    cases h

/-- every plan of `planOf` raises at most the tokeniser's `KeyError` -/
theorem planOf_totalH (std : Std) (c : ClassId) (plan : Str → Res (List Slot)) (h : planOf std c = some plan) :
    PlanTotalH plan := z_planTotalH_of (z_planOf_total std c plan h)

/-- … and every `Slot.raise` of its slots is that `KeyError` -/
theorem planOf_slotsTotal (std : Std) (c : ClassId) (plan : Str → Res (List Slot)) (h : planOf std c = some plan)
    (s : Str) (slots : List Slot) (hs : plan s = .ok slots) : SlotsTotal slots :=
  (z_planOf_total std c plan h s).2 slots hs

/-! ## `runSlots` -/

/-- total children and no `Slot.raise` but the tokeniser's: only `z_KE` escapes from the child calls -/
theorem runSlots_total {o : Oracle Node} (ho : OracleTotal o) {slots : List Slot} (hs : SlotsTotal slots) {e : Exc}
    (h : runSlots o slots = .raises e) : z_KE e := by
  rcases runSlots_raises h with h3 | ⟨c, t, _, h3⟩
  · exact hs e h3
  · exact absurd h3 (ho c t e)

theorem z_runSlot_total {o : Oracle Node} (ho : OracleTotal o) {sl : Slot} {e : Exc}
    (h : runSlot o sl = .raises e) : sl = .raise e := by
  cases sl with
  | none => cases h
  | str t => cases h
  | child c t => exact absurd (Res.map_eq_raises h) (ho c t e)
  | fail => cases h
  | raise e' => simp only [runSlot] at h; cases h; rfl

theorem z_plan_match_total (plan : Str → Res (List Slot)) (hp : z_PlanTotal plan) (o : Oracle Node) (ho : OracleTotal o)
    (s : Str) (e : Exc) (h : (plan s).bind (runSlots o) = .raises e) : z_KE e := by
  rcases Res.bind_eq_raises h with h1 | ⟨slots, h1, h2⟩
  · exact (hp s).1 e h1
  · exact runSlots_total ho ((hp s).2 slots h1) h2

/-! ## the four classes whose control flow depends on a child -/

theorem z_matchSubroutine_total (o : HOracle Node) (ho : OracleTotal o.base) (s : Str) (e : Exc)
    (h : matchSubroutine o s = .raises e) : z_KE e := by
  unfold matchSubroutine at h
  rcases Res.bind_eq_raises h with h1 | ⟨items, _, h2⟩
  · exact z_plan_match_total _ z_planSubroutine_total o.base ho s e h1
  · split at h2 <;> cases h2

theorem z_matchFunction_total (o : HOracle Node) (ho : OracleTotal o.base) (s : Str) (e : Exc)
    (h : matchFunction o s = .raises e) : z_KE e := by
  unfold matchFunction at h
  rcases Res.bind_eq_raises h with h1 | ⟨items, _, h2⟩
  · exact z_plan_match_total _ z_planFunction_total o.base ho s e h1
  · split at h2 <;> cases h2

theorem z_matchProcDecl_total (std : Std) (o : Oracle Node) (ho : OracleTotal o) (s : Str) (e : Exc)
    (h : matchProcDecl std o s = .raises e) : z_KE e := by
  unfold matchProcDecl at h
  cases std with
  | f2003 => exact z_plan_match_total _ (z_planBinaryArrow_total _ _) o ho s e (Res.map_eq_raises h)
  | f2008 =>
    dsimp only at h
    split at h
    · cases h
    · split at h
      · cases h
      · rename_i e' he'
        cases h
        exact z_plan_match_total _ (z_planBinaryArrow_total _ _) o ho s e he'
      · exact z_plan_match_total _ (z_planBinaryArrow_total _ _) o ho s e (Res.map_eq_raises h)

/-- the second slot of a four-slot plan of `Proc_Component_Def_Stmt` is a child call -/
theorem z_planProcComponentDef_shape {s : Str} {pis al pt dl : Slot}
    (h : planProcComponentDef s = .ok [pis, al, pt, dl]) : ∃ c t, al = .child c t := by
  unfold planProcComponentDef at h
  split at h
  · cases h
  obtain ⟨r, _, h1⟩ := Res.bind_eq_ok h
  dsimp only at h1
  split at h1
  · cases h1
  split at h1
  · cases h1
  split at h1
  · cases h1
  split at h1
  · cases h1
  · cases h1
    exact ⟨_, _, rfl⟩

/-- `Proc_Component_Def_Stmt.match`: the `TypeError` branch of the model (an attr-spec list that is not a node) is
    unreachable: `runSlots` maps a child slot to a node -/
theorem z_matchProcComponentDef_total (o : HOracle Node) (ho : OracleTotal o.base) (s : Str) (e : Exc)
    (h : matchProcComponentDef o s = .raises e) : z_KE e := by
  have hp := z_planProcComponentDef_total s
  unfold matchProcComponentDef at h
  split at h
  · rename_i pis al pt dl hpl
    have hst := hp.2 _ hpl
    obtain ⟨c, t, rfl⟩ := z_planProcComponentDef_shape hpl
    rcases Res.bind_eq_raises h with h1 | ⟨items, h1, h2⟩
    · refine runSlots_total ho ?_ h1
      intro e' he'
      refine hst e' ?_
      simp only [List.mem_cons, List.not_mem_nil, or_false] at he' ⊢
      rcases he' with h | h | h
      · exact .inl h
      · exact .inr (.inl h)
      · exact .inr (.inr (.inl h))
    · obtain ⟨i, is, rfl, _, h4⟩ := runSlots_cons_ok h1
      obtain ⟨j, js, rfl, h5, h6⟩ := runSlots_cons_ok h4
      obtain ⟨k, ks, rfl, _, h7⟩ := runSlots_cons_ok h6
      cases runSlots_nil_ok h7
      obtain ⟨n, rfl, _⟩ := runSlot_child_ok h5
      dsimp only at h2
      split at h2
      · cases h2
      · have h8 := z_runSlot_total ho (Res.map_eq_raises h2)
        exact hst e (by rw [h8]; simp)
  · rename_i slots _ hpl
    rcases Res.bind_eq_raises h with h1 | ⟨items, _, h2⟩
    · exact runSlots_total ho (hp.2 _ hpl) h1
    · cases h2
  · cases h
  · rename_i e' hpl
    cases h
    exact hp.1 e hpl

/-! ## **match_total** [C06] for EVERY modelled class of the slice (both standards) -/

/-- with children that let nothing but `NoMatchError` escape, the only exception escaping from the `match` of a modelled
    class is the `KeyError` of string_replace_map's un-nesting loop, on a text `l` with `Combi.tokenise l = none` -/
theorem matchOf_total (std : Std) (o : HOracle Node) (ht : OracleTotal o.base) (c : ClassId) (s : Str)
    (r : Res (List (Item Node))) (h : matchOf std o c s = some r) :
    ∀ e, r = .raises e → e = .keyError ∧ ∃ l, Combi.tokenise l = none := by
  intro e hr
  subst hr
  unfold matchOf at h
  split at h
  · cases h
  split at h
  · rename_i plan hp
    have h1 := Res.map_eq_raises (Option.some.inj h)
    exact z_plan_match_total plan (z_planOf_total std c plan hp) o.base ht s e h1
  · split at h
    · exact z_matchSubroutine_total o ht s e (Option.some.inj h)
    split at h
    · exact z_matchFunction_total o ht s e (Option.some.inj h)
    split at h
    · exact z_matchProcComponentDef_total o ht s e (Option.some.inj h)
    split at h
    · exact z_matchProcDecl_total std o.base ht s e (Option.some.inj h)
    · cases h

/-- unconditional on texts that `string_replace_map` handles: if the tokeniser is total, NOTHING escapes -/
theorem matchOf_total_of_tokenise (htk : ∀ l, Combi.tokenise l ≠ none) (std : Std) (o : HOracle Node)
    (ht : OracleTotal o.base) (c : ClassId) (s : Str) (e : Exc) : matchOf std o c s ≠ some (.raises e) := by
  intro h
  obtain ⟨_, l, hl⟩ := matchOf_total std o ht c s _ h e rfl
  exact htk l hl

/-! ## [C06/C01] the printer never raises on a tuple the matcher built (plan level, per class) -/

def z_isDead : Slot → Bool
  | .fail => true
  | .raise _ => true
  | _ => false

def z_deadB (l : List Slot) : Bool := l.any z_isDead

theorem z_runSlots_dead {o : Oracle Node} : ∀ {slots : List Slot} {items : List (Item Node)},
    z_deadB slots = true → runSlots o slots ≠ .ok items
  | [], _, h => by cases h
  | s :: ss, items, h => by
    intro hr
    obtain ⟨i, is, rfl, h1, h2⟩ := runSlots_cons_ok hr
    simp only [z_deadB, List.any_cons, Bool.or_eq_true] at h
    rcases h with h | h
    · cases s with
      | fail => exact runSlot_fail o i h1
      | raise e => exact runSlot_raise o e i h1
      | _ => cases h
    · exact z_runSlots_dead (by simpa [z_deadB] using h) h2

theorem z_runSlots_length {o : Oracle Node} : ∀ {slots : List Slot} {items : List (Item Node)},
    runSlots o slots = .ok items → items.length = slots.length
  | [], items, h => by cases runSlots_nil_ok h; rfl
  | s :: ss, items, h => by
    obtain ⟨i, is, rfl, _, h2⟩ := runSlots_cons_ok h
    simp only [List.length_cons, z_runSlots_length h2]

/-- the slot list has `n` entries or contains a `.fail` / `.raise` (then `runSlots` does not succeed) -/
def z_ResLen (n : Nat) (x : Res (List Slot)) : Prop := ∀ slots, x = .ok slots → slots.length = n ∨ z_deadB slots = true

theorem z_ResLen.noMatch {n : Nat} : z_ResLen n .noMatch := fun _ h => by cases h
theorem z_ResLen.ok {n : Nat} {l : List Slot} (h : l.length = n ∨ z_deadB l = true) : z_ResLen n (.ok l) :=
  fun _ h' => by cases h'; exact h
theorem z_ResLen.raises {n : Nat} {e : Exc} : z_ResLen n (.raises e) := fun _ h => by cases h
theorem z_ResLen.tok_bind {n : Nat} (l : Str) {f : SrmResult → Res (List Slot)} (h : ∀ r, z_ResLen n (f r)) :
    z_ResLen n ((tok l).bind f) := by
  intro slots hs
  obtain ⟨r, _, h1⟩ := Res.bind_eq_ok hs
  exact h r slots h1

macro "z_len" : tactic =>
  `(tactic| first
    | with_reducible exact z_ResLen.noMatch
    | with_reducible exact z_ResLen.raises
    | exact z_ResLen.ok (.inl rfl)
    | (with_reducible apply z_ResLen.tok_bind; intro r)
    | split
    | dsimp only
    | (refine z_ResLen.ok (.inr ?_)
       simp [z_deadB, z_isDead]))

theorem z_items_of_len {n : Nat} {plan : Str → Res (List Slot)} (hl : ∀ s, z_ResLen n (plan s)) {o : Oracle Node}
    {s : Str} {items : List (Item Node)} (h : (plan s).bind (runSlots o) = .ok items) : items.length = n := by
  obtain ⟨slots, h1, h2⟩ := Res.bind_eq_ok h
  rcases hl s slots h1 with h3 | h3
  · rw [z_runSlots_length h2, h3]
  · exact absurd h2 (z_runSlots_dead h3)

theorem z_len1 {α : Type} {l : List α} (h : l.length = 1) : ∃ a, l = [a] := by
  match l, h with
  | [a], _ => exact ⟨a, rfl⟩
theorem z_len2 {α : Type} {l : List α} (h : l.length = 2) : ∃ a b, l = [a, b] := by
  match l, h with
  | [a, b], _ => exact ⟨a, b, rfl⟩
theorem z_len3 {α : Type} {l : List α} (h : l.length = 3) : ∃ a b c, l = [a, b, c] := by
  match l, h with
  | [a, b, c], _ => exact ⟨a, b, c, rfl⟩

theorem z_tostrBlockData_total (o : Oracle Node) (items : List (Item Node)) (h : items.length = 1) :
    ∃ t, tostrBlockData o items = .ok t := by
  obtain ⟨a, rfl⟩ := z_len1 h
  unfold tostrBlockData
  first | exact ⟨_, rfl⟩ | (split <;> first | exact ⟨_, rfl⟩ | simp_all)

theorem z_tostrSuffix_total (o : Oracle Node) (items : List (Item Node)) (h : items.length = 2) :
    ∃ t, tostrSuffix o items = .ok t := by
  obtain ⟨a, b, rfl⟩ := z_len2 h
  unfold tostrSuffix
  first | exact ⟨_, rfl⟩ | (split <;> first | exact ⟨_, rfl⟩ | simp_all)

theorem z_tostrLanguageBinding_total (o : Oracle Node) (items : List (Item Node)) (h : items.length = 1) :
    ∃ t, tostrLanguageBinding o items = .ok t := by
  obtain ⟨a, rfl⟩ := z_len1 h
  unfold tostrLanguageBinding
  first | exact ⟨_, rfl⟩ | (split <;> first | exact ⟨_, rfl⟩ | simp_all)

theorem z_tostrEntry_total (o : Oracle Node) (items : List (Item Node)) (h : items.length = 3) :
    ∃ t, tostrEntry o items = .ok t := by
  obtain ⟨a, b, c, rfl⟩ := z_len3 h
  unfold tostrEntry
  repeat' split
  all_goals first | exact ⟨_, rfl⟩ | simp_all

theorem z_tostrSubmodule_total (o : Oracle Node) (items : List (Item Node)) (h : items.length = 2) :
    ∃ t, tostrSubmodule o items = .ok t := by
  obtain ⟨a, b, rfl⟩ := z_len2 h
  unfold tostrSubmodule
  first | exact ⟨_, rfl⟩ | (split <;> first | exact ⟨_, rfl⟩ | simp_all)

theorem z_tostrParentIdentifier_total (o : Oracle Node) (items : List (Item Node)) (h : items.length = 2) :
    ∃ t, tostrParentIdentifier o items = .ok t := by
  obtain ⟨a, b, rfl⟩ := z_len2 h
  unfold tostrParentIdentifier
  first | exact ⟨_, rfl⟩ | (split <;> first | exact ⟨_, rfl⟩ | simp_all)

theorem z_tostrInterface_total (o : Oracle Node) (items : List (Item Node)) (h : items.length = 1) :
    ∃ t, tostrInterface o items = .ok t := by
  obtain ⟨a, rfl⟩ := z_len1 h
  cases a with
  | str x =>
    unfold tostrInterface
    dsimp only
    split
    · exact ⟨_, rfl⟩
    · exact ⟨_, rfl⟩
  | none => exact ⟨"INTERFACE".toList, rfl⟩
  | node n => exact ⟨"INTERFACE ".toList ++ o.str n, rfl⟩
  | bare n => exact ⟨"INTERFACE ".toList ++ o.rhsStr n, rfl⟩
  | nodes ns => exact ⟨"INTERFACE ".toList ++ (Item.nodes ns).text o, rfl⟩

theorem z_tostrCallLike_total (o : Oracle Node) (items : List (Item Node)) (h : items.length = 2) :
    ∃ t, tostrCallLike o items = .ok t := by
  obtain ⟨a, b, rfl⟩ := z_len2 h
  unfold tostrCallLike
  first | exact ⟨_, rfl⟩ | (split <;> first | exact ⟨_, rfl⟩ | simp_all)

theorem z_tostrAttrSpec_total (o : Oracle Node) (items : List (Item Node)) (h : items.length = 2) :
    ∃ t, tostrAttrSpec o items = .ok t := by
  obtain ⟨a, b, rfl⟩ := z_len2 h
  unfold tostrAttrSpec
  first | exact ⟨_, rfl⟩ | (split <;> first | exact ⟨_, rfl⟩ | simp_all)

theorem z_tostrGenericBinding_total (o : Oracle Node) (items : List (Item Node)) (h : items.length = 3) :
    ∃ t, tostrGenericBinding o items = .ok t := by
  obtain ⟨a, b, c, rfl⟩ := z_len3 h
  unfold tostrGenericBinding
  first | exact ⟨_, rfl⟩ | (split <;> first | exact ⟨_, rfl⟩ | simp_all)

theorem z_tostrProcedureDeclaration_total (o : Oracle Node) (items : List (Item Node)) (h : items.length = 3) :
    ∃ t, tostrProcedureDeclaration o items = .ok t := by
  obtain ⟨a, b, c, rfl⟩ := z_len3 h
  unfold tostrProcedureDeclaration
  first | exact ⟨_, rfl⟩ | (split <;> first | exact ⟨_, rfl⟩ | simp_all)

theorem z_tostrSelectType_total (o : Oracle Node) (items : List (Item Node)) (h : items.length = 2) :
    ∃ t, tostrSelectType o items = .ok t := by
  obtain ⟨a, b, rfl⟩ := z_len2 h
  unfold tostrSelectType
  first | exact ⟨_, rfl⟩ | (split <;> first | exact ⟨_, rfl⟩ | simp_all)

theorem z_tostrTypeGuard_total (o : Oracle Node) (items : List (Item Node)) (h : items.length = 3) :
    ∃ t, tostrTypeGuard o items = .ok t := by
  obtain ⟨a, b, c, rfl⟩ := z_len3 h
  unfold tostrTypeGuard
  repeat' split
  all_goals first | exact ⟨_, rfl⟩ | simp_all

theorem z_tostrElse_total (o : Oracle Node) (items : List (Item Node)) (h : items.length = 1) :
    ∃ t, tostrElse o items = .ok t := by
  obtain ⟨a, rfl⟩ := z_len1 h
  unfold tostrElse
  first | exact ⟨_, rfl⟩ | (split <;> first | exact ⟨_, rfl⟩ | simp_all)

theorem z_tostrMaskedElsewhere_total (o : Oracle Node) (items : List (Item Node)) (h : items.length = 2) :
    ∃ t, tostrMaskedElsewhere o items = .ok t := by
  obtain ⟨a, b, rfl⟩ := z_len2 h
  unfold tostrMaskedElsewhere
  first | exact ⟨_, rfl⟩ | (split <;> first | exact ⟨_, rfl⟩ | simp_all)

theorem z_tostrString_total (o : Oracle Node) (items : List (Item Node)) (h : items.length = 1) :
    ∃ t, tostrString o items = .ok t := by
  obtain ⟨a, rfl⟩ := z_len1 h
  unfold tostrString
  first | exact ⟨_, rfl⟩ | (split <;> first | exact ⟨_, rfl⟩ | simp_all)

theorem z_planBlockData_len (s : Str) : z_ResLen 1 (planBlockData s) := by
  unfold planBlockData; repeat z_len

/-- `planBlockData` + `tostrBlockData`: the printer returns a string on every matched tuple -/
theorem BlockData_tostr_total_on_matched (o : Oracle Node) (s : Str) (items : List (Item Node))
    (h : (planBlockData s).bind (runSlots o) = .ok items) : ∃ t, tostrBlockData o items = .ok t :=
  z_tostrBlockData_total o items (z_items_of_len z_planBlockData_len h)

theorem z_planSuffix_len (s : Str) : z_ResLen 2 (planSuffix s) := by
  unfold planSuffix; repeat z_len

/-- `planSuffix` + `tostrSuffix`: the printer returns a string on every matched tuple -/
theorem Suffix_tostr_total_on_matched (o : Oracle Node) (s : Str) (items : List (Item Node))
    (h : (planSuffix s).bind (runSlots o) = .ok items) : ∃ t, tostrSuffix o items = .ok t :=
  z_tostrSuffix_total o items (z_items_of_len z_planSuffix_len h)

theorem z_planLanguageBinding_len (s : Str) : z_ResLen 1 (planLanguageBinding s) := by
  unfold planLanguageBinding; repeat z_len

/-- `planLanguageBinding` + `tostrLanguageBinding`: the printer returns a string on every matched tuple -/
theorem LanguageBinding_tostr_total_on_matched (o : Oracle Node) (s : Str) (items : List (Item Node))
    (h : (planLanguageBinding s).bind (runSlots o) = .ok items) : ∃ t, tostrLanguageBinding o items = .ok t :=
  z_tostrLanguageBinding_total o items (z_items_of_len z_planLanguageBinding_len h)

theorem z_planEntry_len (s : Str) : z_ResLen 3 (planEntry s) := by
  unfold planEntry; repeat z_len

/-- `planEntry` + `tostrEntry`: the printer returns a string on every matched tuple -/
theorem Entry_tostr_total_on_matched (o : Oracle Node) (s : Str) (items : List (Item Node))
    (h : (planEntry s).bind (runSlots o) = .ok items) : ∃ t, tostrEntry o items = .ok t :=
  z_tostrEntry_total o items (z_items_of_len z_planEntry_len h)

theorem z_planSubmodule_len (s : Str) : z_ResLen 2 (planSubmodule s) := by
  unfold planSubmodule; repeat z_len

/-- `planSubmodule` + `tostrSubmodule`: the printer returns a string on every matched tuple -/
theorem Submodule_tostr_total_on_matched (o : Oracle Node) (s : Str) (items : List (Item Node))
    (h : (planSubmodule s).bind (runSlots o) = .ok items) : ∃ t, tostrSubmodule o items = .ok t :=
  z_tostrSubmodule_total o items (z_items_of_len z_planSubmodule_len h)

theorem z_planParentIdentifier_len (s : Str) : z_ResLen 2 (planParentIdentifier s) := by
  unfold planParentIdentifier; repeat z_len

/-- `planParentIdentifier` + `tostrParentIdentifier`: the printer returns a string on every matched tuple -/
theorem ParentIdentifier_tostr_total_on_matched (o : Oracle Node) (s : Str) (items : List (Item Node))
    (h : (planParentIdentifier s).bind (runSlots o) = .ok items) : ∃ t, tostrParentIdentifier o items = .ok t :=
  z_tostrParentIdentifier_total o items (z_items_of_len z_planParentIdentifier_len h)

theorem z_planInterface_len (s : Str) : z_ResLen 1 (planInterface s) := by
  unfold planInterface; repeat z_len

/-- `planInterface` + `tostrInterface`: the printer returns a string on every matched tuple -/
theorem Interface_tostr_total_on_matched (o : Oracle Node) (s : Str) (items : List (Item Node))
    (h : (planInterface s).bind (runSlots o) = .ok items) : ∃ t, tostrInterface o items = .ok t :=
  z_tostrInterface_total o items (z_items_of_len z_planInterface_len h)

theorem z_planGenericSpec_len (s : Str) : z_ResLen 2 (planGenericSpec s) := by
  unfold planGenericSpec; repeat z_len

/-- `planGenericSpec` + `tostrCallLike`: the printer returns a string on every matched tuple -/
theorem GenericSpec_tostr_total_on_matched (o : Oracle Node) (s : Str) (items : List (Item Node))
    (h : (planGenericSpec s).bind (runSlots o) = .ok items) : ∃ t, tostrCallLike o items = .ok t :=
  z_tostrCallLike_total o items (z_items_of_len z_planGenericSpec_len h)

theorem z_planDerivedType_len (s : Str) : z_ResLen 3 (planDerivedType s) := by
  unfold planDerivedType; repeat z_len

theorem z_planTypeAttrSpec_len (s : Str) : z_ResLen 2 (planTypeAttrSpec s) := by
  unfold planTypeAttrSpec; repeat z_len

/-- `planTypeAttrSpec` + `tostrAttrSpec`: the printer returns a string on every matched tuple -/
theorem TypeAttrSpec_tostr_total_on_matched (o : Oracle Node) (s : Str) (items : List (Item Node))
    (h : (planTypeAttrSpec s).bind (runSlots o) = .ok items) : ∃ t, tostrAttrSpec o items = .ok t :=
  z_tostrAttrSpec_total o items (z_items_of_len z_planTypeAttrSpec_len h)

theorem z_planProcAttrSpec_len (s : Str) : z_ResLen 2 (planProcAttrSpec s) := by
  unfold planProcAttrSpec; repeat z_len

/-- `planProcAttrSpec` + `tostrAttrSpec`: the printer returns a string on every matched tuple -/
theorem ProcAttrSpec_tostr_total_on_matched (o : Oracle Node) (s : Str) (items : List (Item Node))
    (h : (planProcAttrSpec s).bind (runSlots o) = .ok items) : ∃ t, tostrAttrSpec o items = .ok t :=
  z_tostrAttrSpec_total o items (z_items_of_len z_planProcAttrSpec_len h)

theorem z_planGenericBinding_len (s : Str) : z_ResLen 3 (planGenericBinding s) := by
  unfold planGenericBinding; repeat z_len

/-- `planGenericBinding` + `tostrGenericBinding`: the printer returns a string on every matched tuple -/
theorem GenericBinding_tostr_total_on_matched (o : Oracle Node) (s : Str) (items : List (Item Node))
    (h : (planGenericBinding s).bind (runSlots o) = .ok items) : ∃ t, tostrGenericBinding o items = .ok t :=
  z_tostrGenericBinding_total o items (z_items_of_len z_planGenericBinding_len h)

theorem z_planProcedureDeclaration_len (s : Str) : z_ResLen 3 (planProcedureDeclaration s) := by
  unfold planProcedureDeclaration; repeat z_len

/-- `planProcedureDeclaration` + `tostrProcedureDeclaration`: the printer returns a string on every matched tuple -/
theorem ProcedureDeclaration_tostr_total_on_matched (o : Oracle Node) (s : Str) (items : List (Item Node))
    (h : (planProcedureDeclaration s).bind (runSlots o) = .ok items) : ∃ t, tostrProcedureDeclaration o items = .ok t :=
  z_tostrProcedureDeclaration_total o items (z_items_of_len z_planProcedureDeclaration_len h)

theorem z_planSelectType_len (s : Str) : z_ResLen 2 (planSelectType s) := by
  unfold planSelectType; repeat z_len

/-- `planSelectType` + `tostrSelectType`: the printer returns a string on every matched tuple -/
theorem SelectType_tostr_total_on_matched (o : Oracle Node) (s : Str) (items : List (Item Node))
    (h : (planSelectType s).bind (runSlots o) = .ok items) : ∃ t, tostrSelectType o items = .ok t :=
  z_tostrSelectType_total o items (z_items_of_len z_planSelectType_len h)

theorem z_planTypeGuard_len (s : Str) : z_ResLen 3 (planTypeGuard s) := by
  unfold planTypeGuard; repeat z_len

/-- `planTypeGuard` + `tostrTypeGuard`: the printer returns a string on every matched tuple -/
theorem TypeGuard_tostr_total_on_matched (o : Oracle Node) (s : Str) (items : List (Item Node))
    (h : (planTypeGuard s).bind (runSlots o) = .ok items) : ∃ t, tostrTypeGuard o items = .ok t :=
  z_tostrTypeGuard_total o items (z_items_of_len z_planTypeGuard_len h)

theorem z_planElse_len (s : Str) : z_ResLen 1 (planElse s) := by
  unfold planElse; repeat z_len

/-- `planElse` + `tostrElse`: the printer returns a string on every matched tuple -/
theorem Else_tostr_total_on_matched (o : Oracle Node) (s : Str) (items : List (Item Node))
    (h : (planElse s).bind (runSlots o) = .ok items) : ∃ t, tostrElse o items = .ok t :=
  z_tostrElse_total o items (z_items_of_len z_planElse_len h)

theorem z_planMaskedElsewhere_len (s : Str) : z_ResLen 2 (planMaskedElsewhere s) := by
  unfold planMaskedElsewhere; repeat z_len

/-- `planMaskedElsewhere` + `tostrMaskedElsewhere`: the printer returns a string on every matched tuple -/
theorem MaskedElsewhere_tostr_total_on_matched (o : Oracle Node) (s : Str) (items : List (Item Node))
    (h : (planMaskedElsewhere s).bind (runSlots o) = .ok items) : ∃ t, tostrMaskedElsewhere o items = .ok t :=
  z_tostrMaskedElsewhere_total o items (z_items_of_len z_planMaskedElsewhere_len h)

theorem z_planPrefixSpec_len (s : Str) : z_ResLen 1 (planPrefixSpec s) := by
  unfold planPrefixSpec; repeat z_len

/-- `planPrefixSpec` + `tostrString`: the printer returns a string on every matched tuple -/
theorem PrefixSpec_tostr_total_on_matched (o : Oracle Node) (s : Str) (items : List (Item Node))
    (h : (planPrefixSpec s).bind (runSlots o) = .ok items) : ∃ t, tostrString o items = .ok t :=
  z_tostrString_total o items (z_items_of_len z_planPrefixSpec_len h)

theorem z_planExtendedIntrinsicOp_len (s : Str) : z_ResLen 1 (planExtendedIntrinsicOp s) := by
  unfold planExtendedIntrinsicOp; repeat z_len

/-- `planExtendedIntrinsicOp` + `tostrString`: the printer returns a string on every matched tuple -/
theorem ExtendedIntrinsicOp_tostr_total_on_matched (o : Oracle Node) (s : Str) (items : List (Item Node))
    (h : (planExtendedIntrinsicOp s).bind (runSlots o) = .ok items) : ∃ t, tostrString o items = .ok t :=
  z_tostrString_total o items (z_items_of_len z_planExtendedIntrinsicOp_len h)

theorem z_planEnumDef_len (s : Str) : z_ResLen 1 (planEnumDef s) := by
  unfold planEnumDef; repeat z_len

/-- `planEnumDef` + `tostrString`: the printer returns a string on every matched tuple -/
theorem EnumDef_tostr_total_on_matched (o : Oracle Node) (s : Str) (items : List (Item Node))
    (h : (planEnumDef s).bind (runSlots o) = .ok items) : ∃ t, tostrString o items = .ok t :=
  z_tostrString_total o items (z_items_of_len z_planEnumDef_len h)


/-! ## non-vacuity -/

def z_echo : Oracle Str :=
  { call := fun _ t => .ok t, str := id, head := fun _ => none, rhsStr := fun _ => [], heads := fun _ => [],
    isDataEdit := fun _ => false }

def z_echoH : HOracle Str :=
  { base := z_echo, elemental := fun _ => false, binding := fun _ => false, pointer := fun _ => true }

theorem z_echo_total : OracleTotal z_echoH.base := fun _ _ _ h => by cases h

/-- the three-piece case of `Submodule_Stmt.match` is inhabited and its middle piece is the non-empty `(a:b)` -/
example : splitparenPieces "(a:b) c".toList = ["".toList, "(a:b)".toList, " c".toList] := by decide +kernel
example : planSubmodule "SUBMODULE (a:b) c".toList =
    .ok [.child C.Parent_Identifier "a:b".toList, .child C.Submodule_Name " c".toList] := by decide +kernel
/-- `matchOf_total` applies (hypotheses inhabited) and the matched statement raises nothing -/
example : ∀ e, (Res.ok [Item.node "a:b".toList, Item.node " c".toList] : Res (List (Item Str))) = .raises e →
    e = .keyError ∧ ∃ l, Combi.tokenise l = none :=
  matchOf_total .f2008 z_echoH z_echo_total C.Submodule_Stmt "SUBMODULE (a:b) c".toList _ (by decide +kernel)
/-- `BLOCK`: the two-item tuple (the `ValueError` branch needs an EMPTY tuple) -/
example : planBlockStmt "BLOCK".toList = .ok [.str "BLOCK".toList, .str "block:".toList] := by decide +kernel
/-- `ENTRY`: the plan with the tokeniser inside; here it succeeds -/
example : planEntry "ENTRY f(a)".toList =
    .ok [.child C.Entry_Name "f".toList, .child C.Dummy_Arg_List "a".toList, .none] := by decide +kernel
/-- `Proc_Component_Def_Stmt`: the four-slot plan whose second slot is a child (`z_planProcComponentDef_shape`) -/
example : planProcComponentDef "PROCEDURE(f), POINTER :: p".toList =
    .ok [.child C.Proc_Interface "f".toList, .child C.Proc_Component_Attr_Spec_List "POINTER".toList,
         .child C.Proc_Component_Attr_Spec "POINTER".toList, .child C.Proc_Decl_List "p".toList] := by decide +kernel
example : matchProcComponentDef z_echoH "PROCEDURE(f), POINTER :: p".toList =
    .ok [.node "f".toList, .node "POINTER".toList, .node "p".toList] := by decide +kernel
example : matchSubroutine z_echoH "SUBROUTINE s(a)".toList =
    .ok [.none, .node "s".toList, .node "a".toList, .none] := by decide +kernel
/-- a child that raises is NOT absorbed: `OracleTotal` is needed -/
def z_badH : HOracle Str :=
  { z_echoH with base := { z_echo with call := fun _ _ => .raises .valueError } }
example : matchOf .f2003 z_badH C.Else_Stmt "ELSE x".toList = some (.raises .valueError) := by decide +kernel

#print axioms z_planBlockData_total
#print axioms z_planPrefix_total
#print axioms z_planPrefixSpec_total
#print axioms z_planSuffix_total
#print axioms z_planLanguageBinding_total
#print axioms z_planDummyArg_total
#print axioms z_planEntry_total
#print axioms z_planSubmodule_total
#print axioms z_splitparen_mid
#print axioms z_planParentIdentifier_total
#print axioms z_planInterface_total
#print axioms z_planGenericSpec_total
#print axioms z_planDtio_total
#print axioms z_planExtendedIntrinsicOp_total
#print axioms z_planProcedureStmt_total
#print axioms z_planDerivedType_total
#print axioms z_planTypeAttrSpec_total
#print axioms z_planKeyword_total
#print axioms z_planKeywords_total
#print axioms z_planSpecificBinding_total
#print axioms z_planGenericBinding_total
#print axioms z_planProcedureDeclaration_total
#print axioms z_planProcComponentDef_total
#print axioms z_planProcAttrSpec_total
#print axioms z_planEnumDef_total
#print axioms z_planBinaryArrow_total
#print axioms z_planSelectType_total
#print axioms z_planTypeGuard_total
#print axioms z_planBlockStmt_total
#print axioms z_planElse_total
#print axioms z_planElsewhere_total
#print axioms z_planMaskedElsewhere_total
#print axioms z_planSubroutine_total
#print axioms z_planFunction_total
#print axioms z_combiPlan_specOf_total
#print axioms z_planOf_total
#print axioms planOf_totalH
#print axioms planOf_slotsTotal
#print axioms runSlots_total
#print axioms z_matchSubroutine_total
#print axioms z_matchFunction_total
#print axioms z_matchProcDecl_total
#print axioms z_matchProcComponentDef_total
#print axioms matchOf_total
#print axioms matchOf_total_of_tokenise
#print axioms BlockData_tostr_total_on_matched
#print axioms Suffix_tostr_total_on_matched
#print axioms LanguageBinding_tostr_total_on_matched
#print axioms Entry_tostr_total_on_matched
#print axioms Submodule_tostr_total_on_matched
#print axioms ParentIdentifier_tostr_total_on_matched
#print axioms Interface_tostr_total_on_matched
#print axioms GenericSpec_tostr_total_on_matched
#print axioms TypeAttrSpec_tostr_total_on_matched
#print axioms ProcAttrSpec_tostr_total_on_matched
#print axioms GenericBinding_tostr_total_on_matched
#print axioms ProcedureDeclaration_tostr_total_on_matched
#print axioms SelectType_tostr_total_on_matched
#print axioms TypeGuard_tostr_total_on_matched
#print axioms Else_tostr_total_on_matched
#print axioms MaskedElsewhere_tostr_total_on_matched
#print axioms PrefixSpec_tostr_total_on_matched
#print axioms ExtendedIntrinsicOp_tostr_total_on_matched
#print axioms EnumDef_tostr_total_on_matched

end Fp.Header
