import FparserModel.Proofs.Reader3FixSrc

/-!
# Reader3FixStmt — one fixed-form statement given as physical source lines (C05/C12)

The statement is `first :: follow`; `follow` are the physical lines up to (not including) the next
initial line: continuation lines and comment/blank lines — including the comment lines AFTER the
last continuation line, which the loop of `get_source_item` also consumes.
-/
namespace Fp.Reader
open Fp

/-- columns 7… of the continuation lines, concatenated verbatim -/
def srcPieces : List Str → Str
  | [] => []
  | l :: ls => (if isFixCommentS (cook l) then [] else (cook l).drop 6) ++ srcPieces ls

/-- the comment items queued for the lines `ls` that follow physical line `lc` (none when
    comments are ignored: they never leave `get_single_line`) -/
def srcComments (ic : Bool) : Nat → List Str → List Item
  | _, [] => []
  | lc, l :: ls =>
    (if !ic && isFixCommentS (cook l) then [Item.comment (cook l) (lc + 1) (lc + 1) false] else []) ++
      srcComments ic (lc + 1) ls

/-- number of the last continuation line among the lines following physical line `lc` -/
def srcEnd (e : Nat) : Nat → List Str → Nat
  | _, [] => e
  | lc, l :: ls => srcEnd (if isFixCommentS (cook l) then e else lc + 1) (lc + 1) ls

theorem fixPieces_surf (ic : Bool) : ∀ (ls : List Str) (lc : Nat), fixPieces (surf ic lc ls) = srcPieces ls
  | [], _ => rfl
  | l :: ls, lc => by
    by_cases hc : isFixCommentS (cook l) = true
    · cases ic <;> simp [surf, srcPieces, fixPieces, hc, fixPieces_surf]
    · have hc' : isFixCommentS (cook l) = false := by simpa using hc
      simp [surf, srcPieces, fixPieces, hc', fixPieces_surf]

theorem fixComments_surf (ic : Bool) : ∀ (ls : List Str) (lc : Nat),
    fixComments (surf ic lc ls) = srcComments ic lc ls
  | [], _ => rfl
  | l :: ls, lc => by
    by_cases hc : isFixCommentS (cook l) = true
    · cases ic <;> simp [surf, srcComments, fixComments, hc, fixComments_surf]
    · have hc' : isFixCommentS (cook l) = false := by simpa using hc
      simp [surf, srcComments, fixComments, hc', fixComments_surf]

theorem fixEnd_surf (ic : Bool) : ∀ (ls : List Str) (lc e : Nat),
    fixEnd e (surf ic lc ls) = srcEnd e lc ls
  | [], _, _ => rfl
  | l :: ls, lc, e => by
    by_cases hc : isFixCommentS (cook l) = true
    · cases ic <;> simp [surf, srcEnd, fixEnd, hc, fixEnd_surf]
    · have hc' : isFixCommentS (cook l) = false := by simpa using hc
      simp [surf, srcEnd, fixEnd, hc', fixEnd_surf]

theorem mem_surf (ic : Bool) : ∀ (ls : List Str) (lc : Nat) (p : Str × Nat), p ∈ surf ic lc ls →
    ∃ l ∈ ls, p.1 = cook l
  | [], _, p, h => by cases h
  | l :: ls, lc, p, h => by
    simp only [surf] at h
    split at h
    · obtain ⟨l', hl, he⟩ := mem_surf ic ls (lc + 1) p h
      exact ⟨l', List.mem_cons_of_mem _ hl, he⟩
    · rcases List.mem_cons.mp h with rfl | h
      · exact ⟨l, List.mem_cons_self, rfl⟩
      · obtain ⟨l', hl, he⟩ := mem_surf ic ls (lc + 1) p h
        exact ⟨l', List.mem_cons_of_mem _ hl, he⟩

/-- a physical follow line: continuation line with clean body, or comment line -/
def followOk (l : Str) : Bool :=
  isFollow (cook l) && (isFixCommentS (cook l) || fixClean ((cook l).drop 6))

theorem followOk_surf (ic : Bool) (ls : List Str) (lc : Nat) (h : ∀ l ∈ ls, followOk l = true) :
    FollowOk (surf ic lc ls) := by
  intro p hp
  obtain ⟨l, hl, he⟩ := mem_surf ic ls lc p hp
  have := h l hl
  simp only [followOk, Bool.and_eq_true, Bool.or_eq_true] at this
  rw [he]
  refine ⟨this.1, fun hc => ?_⟩
  rcases this.2 with h2 | h2
  · rw [h2] at hc; cases hc
  · exact h2

/-- the lines after the statement do not begin with a follow line (end of source, or an initial
    line / preprocessor line / anything that is neither a continuation nor a comment line) -/
def stopsAt : List Str → Bool
  | [] => true
  | nx :: _ => !isFollow (cook nx)

theorem stopsAt_cons {nx : Str} {rest' : List Str} (h : stopsAt (nx :: rest') = true) :
    isFollow (cook nx) = false := by
  simpa [stopsAt] using h

/-- the reader after a statement: the next initial line has been peeked (it sits in `filo_line`,
    is already recorded in `source_lines`, `linecount` does not count it), or the source is closed -/
def afterStmt (r1 : Rd) (ls : List Str) (rest : List Str) (f : List Item) : Rd :=
  match rest with
  | [] => { r1 with src := [], linecount := r1.linecount + ls.length,
                    linesRev := (ls.map cook).reverse ++ r1.linesRev, closed := true, fifo := f }
  | nx :: rest' => { r1 with src := rest', filo := [cook nx], linecount := r1.linecount + ls.length,
                             linesRev := cook nx :: ((ls.map cook).reverse ++ r1.linesRev), fifo := f }

theorem unread_tailRead (r1 : Rd) (ls rest : List Str) (f : List Item) (h : r1.filo = []) :
    unread { (tailRead r1 ls rest).2 with fifo := f } (tailRead r1 ls rest).1 = afterStmt r1 ls rest f := by
  cases rest with
  | nil => rfl
  | cons nx rest' =>
    simp only [tailRead, unread, putSingleLine, adv, afterStmt, h, List.length_append, List.length_cons,
      List.length_nil, List.map_append, List.map_cons, List.map_nil, List.reverse_append,
      List.reverse_cons, List.reverse_nil, List.nil_append, List.singleton_append, List.cons_append,
      Rd.mk.injEq, true_and, and_true]
    omega

/-- C05/C12, ONE fixed-form statement whose follow lines come from the source. `r0` is any reader
    whose next `get_single_line` returns the initial line and leaves a plain fixed-form reader
    `r1` (so `r0` may hold the line in `filo_line` — the usual state after the previous statement —
    or pull it from the source, skipping comment lines when they are ignored). -/
theorem getSourceItem_fixed_src (r0 r1 : Rd) (line line' : Str) (lab : Option Nat) (nam : Option Str)
    (ls rest : List Str)
    (hg : getSingleLine r0 = (some line, r1)) (hp : FixedPlain r1) (hsrc : r1.src = ls ++ rest)
    (hcpp : startsWith (lstrip line) ['#'] = false) (hnc : isFixCommentS line = false)
    (hcol : colCheck line = .fine)
    (hlab : fixedLabel line = some lab) (hnam : fixedName line = (nam, line'))
    (hcl : fixClean (line'.drop 6) = true) (hne : strip (line'.drop 6) ≠ [])
    (hfol : ∀ l ∈ ls, followOk l = true)
    (hnx : stopsAt rest = true) :
    getSourceItem r0 =
      (.ok (.line (strip (line'.drop 6 ++ srcPieces ls)) lab nam r1.linecount
              (srcEnd r1.linecount r1.linecount ls)),
       afterStmt r1 ls rest (r1.fifo ++ srcComments r1.ignoreComments r1.linecount ls)) := by
  obtain ⟨r_end, hr, ht⟩ := readsAt_fixed ls rest r1 hp hsrc (fun nx rest' he => by
    have := stopsAt_cons (he ▸ hnx)
    simp only [isFollow, Bool.or_eq_false_iff] at this
    rw [this.2, Bool.and_false])
  have hstop : (isFixCont (tailRead r1 ls rest).1 || isFixComment (tailRead r1 ls rest).1) = false := by
    cases rest with
    | nil => rfl
    | cons nx rest' => exact stopsAt_cons hnx
  have := getSourceItem_fixed r0 r1 r_end (tailRead r1 ls rest).2 line line' lab nam
    (surf r1.ignoreComments r1.linecount ls) (tailRead r1 ls rest).1 hg hp.fixed hcpp hnc hcol hlab hnam
    hcl hne hr (followOk_surf _ ls _ hfol) ht hstop
  rw [this, fixPieces_surf, fixEnd_surf, fixComments_surf, unread_tailRead _ _ _ _ hp.filo]

end Fp.Reader
