import FparserModel.Py
import FparserModel.One2Re

/-!
# One3Re — the regular expressions of fparser1's STATEMENT classes

The `match` attributes of `fparser/one/statements.py` / `typedecl_statements.py` need more of
Python's `re` syntax than the Begin/End classes of `One2Re.lean`: character sets
(`[\s\w\(\)\%]`, `[a-zA-Z]`, `[^=]`), a word boundary before a word character (`\b\w`), `+` on a
group, a non-greedy `.*?`, `re.I` against text that is not entirely lower case (simple character
literals keep their case), and the END position of the match (`m.end()` is used by
`ModuleProcedure.process_item` and by the `<type> function` dance of the type declarations).

`Re3` is that fragment; `Re3.m` is a backtracking matcher in continuation-passing style that
explores the alternatives in the priority order of Python's engine (left alternative first, greedy
repetition longest first, non-greedy shortest first) and returns the remainder of the text at the
FIRST success — so `Re3.run` is `re.match`, including `m.end()`.  The previous character is
threaded for `\b`.  The One2 fragment embeds (`Re3.ofRe`).  No Mathlib.
-/
namespace Fp.One3
open Fp

/-- an item of a character set -/
inductive SetItem
  | ch (c : Char)
  | range (a b : Char)
  | space | word | digit
  deriving DecidableEq, Repr, Inhabited

/-- Python's `\s` for `str` patterns is `str.isspace` -/
def SetItem.test (ic : Bool) : SetItem → Char → Bool
  | .ch c, d => if ic then lowerC c == lowerC d else c == d
  | .range a b, d =>
    (a.toNat ≤ d.toNat && d.toNat ≤ b.toNat) ||
    (ic && ((a.toNat ≤ (lowerC d).toNat && (lowerC d).toNat ≤ b.toNat) ||
            (a.toNat ≤ (upperC d).toNat && (upperC d).toNat ≤ b.toNat)))
  | .space, d => isSpace d
  | .word, d => isWord d
  | .digit, d => isDigit d

/-- one-character matchers -/
inductive C3
  | any                                   -- `.` (no DOTALL)
  | set (neg : Bool) (items : List SetItem)  -- `[...]`, `[^...]`, a literal, `\s`, `\w`, `\d`
  deriving DecidableEq, Repr, Inhabited

def C3.test (ic : Bool) : C3 → Char → Bool
  | .any, d => d != '\n'
  | .set neg items, d => (items.any fun i => i.test ic d) != neg

inductive Re3
  | eps
  | chr (c : C3)
  | many (c : C3)            -- `c*`  greedy
  | many1 (c : C3)           -- `c+`  greedy
  | lazy (c : C3)            -- `c*?` non-greedy
  | seq (a b : Re3)
  | alt (a b : Re3)
  | opt (a : Re3)            -- `(a)?`
  | star (a : Re3)           -- `(a)*`
  | plus (a : Re3)           -- `(a)+`
  | eoi                      -- `\Z`
  | eol                      -- `$`
  | bos                      -- `^` (no MULTILINE) / `\A`
  | wb                       -- `\b`
  | unsupported
  deriving DecidableEq, Repr, Inhabited

/-- literal text (case folded when `ic`) -/
def Re3.lit : Str → Re3
  | [] => .eps
  | [c] => .chr (.set false [.ch c])
  | c :: cs => .seq (.chr (.set false [.ch c])) (Re3.lit cs)

abbrev K := Option Char → Str → Option Str

/-- `c*` then continuation: longest first -/
def manyK3 (p : Char → Bool) (k : K) : Option Char → Str → Option Str
  | pc, [] => k pc []
  | pc, c :: s =>
    if p c then
      match manyK3 p k (some c) s with
      | some r => some r
      | none => k pc (c :: s)
    else k pc (c :: s)

/-- `c*?` then continuation: shortest first -/
def lazyK3 (p : Char → Bool) (k : K) : Option Char → Str → Option Str
  | pc, [] => k pc []
  | pc, c :: s =>
    match k pc (c :: s) with
    | some r => some r
    | none => if p c then lazyK3 p k (some c) s else none

/-- `(a)*`: at most `n` iterations, each must consume input (Python stops at an empty iteration) -/
def starK3 (am : K → K) (k : K) : Nat → Option Char → Str → Option Str
  | 0, pc, s => k pc s
  | n + 1, pc, s =>
    match am (fun pc' s' => if s'.length < s.length then starK3 am k n pc' s' else none) pc s with
    | some r => some r
    | none => k pc s

def isWordO : Option Char → Bool
  | some c => isWord c
  | none => false

/-- `r.m ic k pc s` : the remainder at the first success, in Python's priority order -/
def Re3.m (ic : Bool) : Re3 → K → Option Char → Str → Option Str
  | .eps, k, pc, s => k pc s
  | .chr c, k, _, s => match s with
    | d :: t => if c.test ic d then k (some d) t else none
    | [] => none
  | .many c, k, pc, s => manyK3 (c.test ic) k pc s
  | .many1 c, k, _, s => match s with
    | d :: t => if c.test ic d then manyK3 (c.test ic) k (some d) t else none
    | [] => none
  | .lazy c, k, pc, s => lazyK3 (c.test ic) k pc s
  | .seq a b, k, pc, s => a.m ic (fun pc' s' => b.m ic k pc' s') pc s
  | .alt a b, k, pc, s =>
    match a.m ic k pc s with
    | some r => some r
    | none => b.m ic k pc s
  | .opt a, k, pc, s =>
    match a.m ic k pc s with
    | some r => some r
    | none => k pc s
  | .star a, k, pc, s => starK3 (fun k' pc' s' => a.m ic k' pc' s') k s.length pc s
  | .plus a, k, pc, s =>
    a.m ic (fun pc' s' => starK3 (fun k' pc'' s'' => a.m ic k' pc'' s'') k s'.length pc' s') pc s
  | .eoi, k, pc, s => if s.isEmpty then k pc s else none
  | .eol, k, pc, s => if s.isEmpty || s == ['\n'] then k pc s else none
  | .bos, k, pc, s => if pc.isNone then k pc s else none
  | .wb, k, pc, s =>
    if isWordO pc != isWordO s.head? then k pc s else none
  | .unsupported, _, _, _ => none

/-- `re.compile(p, flags).match(s)`: the text after the match (`s[m.end():]`), `none` = no match -/
def Re3.run (r : Re3) (ic : Bool) (s : Str) : Option Str := r.m ic (fun _ s' => some s') none s

def Re3.matches (r : Re3) (ic : Bool) (s : Str) : Bool := (r.run ic s).isSome

/-- `m.end()` -/
def Re3.endPos (r : Re3) (ic : Bool) (s : Str) : Option Nat :=
  (r.run ic s).map fun rest => s.length - rest.length

/-- nothing outside the fragment -/
def Re3.supported : Re3 → Bool
  | .unsupported => false
  | .seq a b => a.supported && b.supported
  | .alt a b => a.supported && b.supported
  | .opt a => a.supported
  | .star a => a.supported
  | .plus a => a.supported
  | _ => true

/-- embedding of the One2 character classes -/
def C3.ofCC : Fp.One2.CC → C3
  | .lit c => .set false [.ch c]
  | .nlit c => .set true [.ch c]
  | .space => .set false [.space]
  | .word => .set false [.word]
  | .digit => .set false [.digit]
  | .any => .any

/-- embedding of the One2 fragment (`nwl` is `\b` after a word character) -/
def Re3.ofRe : Fp.One2.Re → Re3
  | .eps => .eps
  | .str s => Re3.lit s
  | .chr c => .chr (C3.ofCC c)
  | .many c => .many (C3.ofCC c)
  | .many1 c => .many1 (C3.ofCC c)
  | .seq a b => .seq (Re3.ofRe a) (Re3.ofRe b)
  | .alt a b => .alt (Re3.ofRe a) (Re3.ofRe b)
  | .opt a => .opt (Re3.ofRe a)
  | .star a => .star (Re3.ofRe a)
  | .eoi => .eoi
  | .eol => .eol
  | .nwl => .wb
  | .unsupported => .unsupported

end Fp.One3
