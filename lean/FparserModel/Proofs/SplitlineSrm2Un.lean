import FparserModel.Proofs.SplitlineSrm2P3
/-!
The un-nesting loop of `string_replace_map`, and the round trip from phase 3 on.
-/
namespace Fp.Splitline
open Fp

theorem keyFindAll_noF (x : Str) (h : Free x) : keyFindAll x = [] := by
  have := keyFindAll_toks (m := []) [.chunk x] ⟨trivial, by simpa [Tok.val] using h⟩
  simpa [Tok.raw, tkeys] using this

theorem applyMap_noF (m : Map) (x : Str) (h : Free x) : applyMap m x = x := by
  rw [applyMap_eq, keyFindAll_noF x h]; rfl

theorem unnestEntry_eq (d : Discipline) (hf : d.foreignKeyRaises = false) (m : Map) :
    ∀ (incs : List Str) (entry : Str),
      unnestEntry d m entry incs = some (incs.foldl (applyStep m) entry)
  | [], _ => rfl
  | inc :: incs, entry => by
    unfold unnestEntry
    cases h : m.get? inc with
    | none =>
      simp only [hf]
      rw [unnestEntry_eq d hf m incs entry]
      simp [applyStep, h]
    | some v =>
      simp only
      rw [unnestEntry_eq d hf m incs _]
      simp [applyStep, h]

section
variable (d : Discipline) (hf : d.foreignKeyRaises = false) (m2 m3 : Map)
  (hm2c : ∀ k v, m2.get? k = some v → ClosedKey k)
  (hm2v : ∀ k v, m2.get? k = some v → Free v)
  (hent : ∀ k v, m3.get? k = some v → m2.get? k = some v ∨ (∃ j, k = exprKey j ∧ HasToks m2 v))

/-- loop invariant of the un-nesting loop -/
def UInv (m : Map) : Prop :=
  MapExt m2 m ∧ ∀ k v3, m3.get? k = some v3 → m.get? k = some v3 ∨ m.get? k = some (applyMap m2 v3)

/-- the entry of `k` has been expanded -/
def Done (m : Map) (k : Str) : Prop :=
  ∀ j v3, k = exprKey j → m3.get? k = some v3 → m.get? k = some (applyMap m2 v3)

include hf hm2c hm2v hent in
theorem unnest_step (m : Map) (key : Str) (keys : List Str) (inv : UInv m2 m3 m) (v3 : Str)
    (hk : m3.get? key = some v3) :
    ∃ m', unnest d m (key :: keys) = unnest d m' keys ∧ UInv m2 m3 m' ∧ Done m2 m3 m' key ∧
      (∀ k, Done m2 m3 m k → Done m2 m3 m' k) := by
  rcases hent key v3 hk with h2 | ⟨j, hj, ts, hts, hwts, hcts⟩
  · -- a key of the phase-2 map: its value has no keys
    have hno := hm2v key v3 h2
    have hget : m.get? key = some v3 := inv.1 key v3 h2
    refine ⟨m, ?_, inv, ?_, fun k h => h⟩
    · conv => lhs; unfold unnest
      simp [hget, keyFindAll_noF v3 hno]
    · intro j _ hj _
      exact absurd hj (closed_ne_expr (hm2c key v3 h2) j)
  · -- an EXPR_TUPLE key
    have hexp : applyMap m2 v3 = valJoin ts := by rw [← hts]; exact applyMap_toks ts hwts
    have hnoF : Free (applyMap m2 v3) := by rw [hexp]; exact hwts.2
    rcases inv.2 key v3 hk with hget | hget
    · by_cases hkeys : keyFindAll v3 = []
      · refine ⟨m, ?_, inv, ?_, fun k h => h⟩
        · conv => lhs; unfold unnest
          simp [hget, hkeys]
        · intro _ v3' _ hk'
          rw [hk] at hk'; cases hk'
          rw [hget, applyMap_eq, hkeys]; rfl
      · have hnew : applyMap m v3 = applyMap m2 v3 := by
          rw [hexp, ← hts]
          exact applyMap_toks ts (WF_mono inv.1 ts hwts)
        have hnotin : ∀ k v, m2.get? k = some v → key ≠ k := by
          intro k v h e; subst e
          exact closed_ne_expr (hm2c _ v h) j hj
        refine ⟨Map.set m key (applyMap m2 v3), ?_, ⟨?_, ?_⟩, ?_, ?_⟩
        · conv => lhs; unfold unnest
          simp only [hget]
          have : (keyFindAll v3).isEmpty = false := by
            cases hh : keyFindAll v3 with
            | nil => exact absurd hh hkeys
            | cons a b => rfl
          simp only [this, Bool.false_eq_true, if_false]
          rw [unnestEntry_eq d hf m]
          simp only
          rw [← applyMap_eq, hnew]
        · intro k v h
          rw [Map.get?_set_ne _ _ _ _ (hnotin k v h)]
          exact inv.1 k v h
        · intro k v3' hk'
          by_cases e : key = k
          · subst e
            rw [hk] at hk'; cases hk'
            exact .inr (Map.get?_set_self _ _ _)
          · rw [Map.get?_set_ne _ _ _ _ e]
            exact inv.2 k v3' hk'
        · intro _ v3' _ hk'
          rw [hk] at hk'; cases hk'
          exact Map.get?_set_self _ _ _
        · intro k hdone j' v3' hj' hk'
          by_cases e : key = k
          · subst e
            rw [hk] at hk'; cases hk'
            exact Map.get?_set_self _ _ _
          · rw [Map.get?_set_ne _ _ _ _ e]
            exact hdone j' v3' hj' hk'
    · -- already expanded
      refine ⟨m, ?_, inv, ?_, fun k h => h⟩
      · conv => lhs; unfold unnest
        simp [hget, keyFindAll_noF _ hnoF]
      · intro _ v3' _ hk'
        rw [hk] at hk'; cases hk'
        exact hget

include hf hm2c hm2v hent in
theorem unnest_spec : ∀ (keys : List Str) (m : Map), UInv m2 m3 m →
    (∀ k ∈ keys, ∃ v, m3.get? k = some v) →
    ∃ mF, unnest d m keys = some mF ∧ UInv m2 m3 mF ∧
      (∀ k, (k ∈ keys ∨ Done m2 m3 m k) → Done m2 m3 mF k)
  | [], m, inv, _ => ⟨m, rfl, inv, by intro k h; rcases h with h | h; (· simp at h); exact h⟩
  | key :: keys, m, inv, hin => by
    obtain ⟨v3, hk⟩ := hin key (by simp)
    obtain ⟨m', h1, h2, h3, h4⟩ := unnest_step d hf m2 m3 hm2c hm2v hent m key keys inv v3 hk
    obtain ⟨mF, g1, g2, g3⟩ := unnest_spec keys m' h2 (fun k hk' => hin k (by simp [hk']))
    refine ⟨mF, by rw [h1, g1], g2, ?_⟩
    intro k hk'
    rcases hk' with hk' | hk'
    · rcases List.mem_cons.mp hk' with e | e
      · subst e; exact g3 _ (.inr h3)
      · exact g3 k (.inl e)
    · exact g3 k (.inr (h4 k hk'))
end

/-- **the round trip from phase 3 on**: a well-formed token text over the phase-2 map is
    recovered, modulo blanks just inside the replaced groups. -/
theorem srm_core (d : Discipline) (hd : d.lookupTrimmed = true) (hs : d.separateParenMap = true)
    (hf : d.foreignKeyRaises = false) (st2 : SrmState) (ts2 : List Tok) (hM : M2OK st2)
    (hw : WF st2.map ts2) (hc : Closed ts2) :
    ∃ mF, unnest d (phase3 d st2 (splitparen (rawJoin ts2))).1.map
        ((phase3 d st2 (splitparen (rawJoin ts2))).1.exprKeys ++
          (phase3 d st2 (splitparen (rawJoin ts2))).1.constKeys) = some mF ∧
      squeeze (applyMap mF (phase3 d st2 (splitparen (rawJoin ts2))).2) = squeeze (valJoin ts2) := by
  have inv0 : P3Inv st2.map st2 := by
    refine ⟨MapExt.refl _, fun k v h => .inl h, ?_, ?_, ?_⟩
    · intro t k h; rw [hM.revParen] at h; simp [Map.get?] at h
    · intro j v h; exact absurd rfl (closed_ne_expr (hM.closedKeys _ v h) j)
    · intro k hk; rw [hM.exprKeys] at hk; simp at hk
  obtain ⟨tsOut, ps, h1, h2, h3, h4, h5, h6, h7, h8, h9⟩ :=
    phase3_toks d hd hs st2.map hM.closedKeys (splitparen (rawJoin ts2)) st2 [] ts2 inv0
      (by simp [splitparen_join']) hw hc (fun s hs' => splitparen_shape _ s hs')
  generalize phase3 d st2 (splitparen (rawJoin ts2)) = r3 at *
  have hent : ∀ k v, r3.1.map.get? k = some v →
      st2.map.get? k = some v ∨ (∃ j, k = exprKey j ∧ HasToks st2.map v) := by
    intro k v h
    rcases h5.entries k v h with h | ⟨j, _, hj, ht⟩
    · exact .inl h
    · exact .inr ⟨j, hj, ht⟩
  have hinv : UInv st2.map r3.1.map r3.1.map := ⟨h5.base, fun k v h => .inl h⟩
  have hkeys : ∀ k ∈ r3.1.exprKeys ++ r3.1.constKeys, ∃ v, r3.1.map.get? k = some v := by
    intro k hk
    rcases List.mem_append.mp hk with hk | hk
    · exact h5.inMap k hk
    · rw [h7] at hk
      obtain ⟨v, hv⟩ := hM.constKeys k hk
      exact ⟨v, h6 k v hv⟩
  obtain ⟨mF, g1, g2, g3⟩ := unnest_spec d hf st2.map r3.1.map hM.closedKeys hM.valsFree hent
    _ r3.1.map hinv hkeys
  refine ⟨mF, g1, ?_⟩
  have hgood : GoodFinal st2.map r3.1.map mF := by
    refine ⟨g2.1, ?_⟩
    intro j raw hraw
    exact g3 (exprKey j) (.inl (List.mem_append_left _ (h5.listed j raw hraw))) j raw rfl hraw
  have hwF : WF mF tsOut := ⟨h8 mF hgood, h9⟩
  simp only [List.nil_append] at h1
  rw [h1, applyMap_toks tsOut hwF, ← h3, ← h2]
  exact squeeze_pieces_nil ps h4

end Fp.Splitline
