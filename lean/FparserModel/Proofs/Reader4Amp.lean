import FparserModel.Proofs.Reader4Layout

/-!
# Reader4Amp — `&` only inside character literals ⇒ the last-line condition of `QLine.ok`

If `&` occurs in the body of the last line only inside character literals and the body ends
outside a literal, the last `&` is followed by the closing delimiter of its literal, so it is no
continuation mark (`lastAmpOk`).
-/
namespace Fp.Reader
open Fp
open Fp.Splitline (QState qstep qrun qinit qfinal quoteStateAfter)

/-- no `&` outside a character literal -/
def ampFree : QState → Str → Bool
  | _, [] => true
  | s, c :: cs => (isIn s || c != '&') && ampFree (qstep s c) cs

theorem ampFree_append (s : QState) (a b : Str) :
    ampFree s (a ++ b) = (ampFree s a && ampFree (qrun s a) b) := by
  induction a generalizing s with
  | nil => simp [ampFree]
  | cons c cs ih => simp [ampFree, ih, Bool.and_assoc]

theorem last_occurrence (c : Char) : ∀ s : Str, NoC c s ∨ ∃ a b, s = a ++ c :: b ∧ NoC c b
  | [] => Or.inl NoC.nil
  | x :: s => by
    rcases last_occurrence c s with h | ⟨a, b, rfl, hb⟩
    · by_cases hx : x = c
      · subst hx; exact Or.inr ⟨[], s, rfl, h⟩
      · exact Or.inl (fun y hy => by
          simp only [List.mem_cons] at hy
          rcases hy with rfl | hy
          · exact hx
          · exact h y hy)
    · exact Or.inr ⟨x :: a, b, rfl, hb⟩

theorem qrun_inLit_noC (q : Char) : ∀ b : Str, (∀ x ∈ b, x ≠ q) → qrun (.inLit q) b = .inLit q
  | [], _ => rfl
  | x :: b, h => by
    have hx : (x == q) = false := by simpa using h x List.mem_cons_self
    simp only [Fp.Splitline.qrun_cons, qstep, hx, Bool.false_eq_true, if_false]
    exact qrun_inLit_noC q b (fun y hy => h y (List.mem_cons_of_mem _ hy))

theorem rstrip_ne_nil {s : Str} {c : Char} (hc : c ∈ s) (hn : isSpace c = false) : rstrip s ≠ [] := by
  intro h
  have := strip_ne_nil hc hn
  unfold strip at this
  rw [h] at this
  exact this rfl

theorem isQuote_not_space {c : Char} (h : isQuote c = true) : isSpace c = false := by
  unfold isQuote at h
  simp only [Bool.or_eq_true, beq_iff_eq] at h
  rcases h with rfl | rfl <;> decide

/-- `&` only inside literals + balanced body ⇒ the last `&` is no continuation mark -/
theorem lastAmpOk_of_ampFree (q : Option Char) (hq : ∀ c, q = some c → isQuote c = true)
    (lead : Option Str) (body : Str) (hl : AllSpace (lead.getD []))
    (ha : ampFree (qinit q) body = true) (hbal : quoteStateAfter q body = none)
    (hlead : lead.isSome = true → rstrip body ≠ []) : lastAmpOk (leadTxt lead ++ body) := by
  unfold lastAmpOk
  rcases last_occurrence '&' body with hno | ⟨a, b, rfl, hb⟩
  · cases lead with
    | none => simp only [leadTxt, List.nil_append, rfind_none hno]
    | some pre =>
      have hr : rfind (leadTxt (some pre) ++ body) '&' = some pre.length := by
        simp only [leadTxt, List.append_assoc, List.singleton_append]
        exact rfind_hit hno
      rw [hr]
      simp only [leadTxt, List.append_assoc, List.singleton_append]
      have : List.drop (pre.length + 1) (pre ++ '&' :: body) = body := by simp
      rw [this]
      exact hlead rfl
  · have hr : rfind (leadTxt lead ++ (a ++ '&' :: b)) '&' = some (leadTxt lead ++ a).length := by
      rw [← List.append_assoc]; exact rfind_hit hb
    rw [hr]
    have hd : List.drop ((leadTxt lead ++ a).length + 1) (leadTxt lead ++ (a ++ '&' :: b)) = b := by
      rw [← List.append_assoc]
      generalize leadTxt lead ++ a = X
      simp
    simp only [hd]
    rw [ampFree_append, Bool.and_eq_true] at ha
    have hin : isIn (qrun (qinit q) a) = true := by
      have := ha.2
      simp only [ampFree, Bool.and_eq_true, Bool.or_eq_true, bne_self_eq_false, Bool.false_eq_true,
        or_false] at this
      exact this.1
    have hs : (qrun (qinit q) a).quoteOnly := Fp.Splitline.qrun_quoteOnly _ _ (qinit_quoteOnly q hq)
    cases hst : qrun (qinit q) a with
    | outside => rw [hst] at hin; cases hin
    | pending c => rw [hst] at hin; cases hin
    | inLit c =>
      rw [hst] at hs
      have hcq : isQuote c = true := hs
      have hamp : ('&' == c) = false := by
        cases h : '&' == c with
        | false => rfl
        | true => rw [← beq_iff_eq.mp h] at hcq; cases hcq
      unfold quoteStateAfter at hbal
      rw [Fp.Splitline.qrun_append, hst] at hbal
      simp only [Fp.Splitline.qrun_cons, qstep, hamp, Bool.false_eq_true, if_false] at hbal
      by_cases hany : b.any (· == c) = true
      · obtain ⟨x, hx, hxc⟩ := List.any_eq_true.mp hany
        have : x = c := by simpa using hxc
        subst this
        exact rstrip_ne_nil hx (isQuote_not_space hcq)
      · exfalso
        have hall : ∀ x ∈ b, x ≠ c := by
          intro x hx e
          apply hany
          exact List.any_eq_true.mpr ⟨x, hx, by simp [e]⟩
        rw [qrun_inLit_noC c b hall] at hbal
        cases hbal

end Fp.Reader
