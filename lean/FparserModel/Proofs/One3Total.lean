import FparserModel.One3
/-!
`Raises S x` : the computation `x` raises nothing outside `S`.  Compositional lemmas and the
per-function bounds used by `Props/One3.lean : process_total`.
-/
namespace Fp.One3
open Fp Fp.Splitline

structure Raises {α : Type} (S : List Exc) (x : M α) : Prop where
  out : ∀ e, x = .error e → e ∈ S

theorem Raises.ok {α} {S : List Exc} (a : α) : Raises S (.ok a : M α) := ⟨by
  intro e h; cases h⟩
theorem Raises.pure {α} {S : List Exc} (a : α) : Raises S (pure a : M α) := ⟨by
  intro e h; cases h⟩
theorem Raises.err {α} {S : List Exc} {e : Exc} (h : e ∈ S) : Raises S (.error e : M α) := ⟨by
  intro e' h'; cases h'; exact h⟩
theorem Raises.bind {α β} {S : List Exc} {x : M α} {f : α → M β}
    (hx : Raises S x) (hf : ∀ a, Raises S (f a)) : Raises S (x >>= f) := ⟨by
  intro e h
  cases x with
  | error e' => cases h; exact hx.out _ rfl
  | ok a => exact (hf a).out e h⟩
theorem Raises.mono {α} {S S' : List Exc} {x : M α} (h : Raises S x) (hs : ∀ e ∈ S, e ∈ S') :
    Raises S' x := ⟨fun e he => hs e (h.out e he)⟩
theorem Raises.valid {S : List Exc} (n : Node) : Raises S (valid n) := Raises.ok _
theorem Raises.invalid {S : List Exc} : Raises S invalid := Raises.ok _

theorem Raises.mapM {α β} {S : List Exc} (f : α → M β) (hf : ∀ a, Raises S (f a)) :
    ∀ l : List α, Raises S (l.mapM f)
  | [] => by simp [List.mapM_nil]; exact Raises.pure _
  | a :: l => by
    simp only [List.mapM_cons]
    exact Raises.bind (hf a) fun _ => Raises.bind (Raises.mapM f hf l) fun _ => Raises.pure _

/-- the workhorse: peel binds / matches / ifs; leaves are closed by `ok`, `err` + `decide`,
    or a hypothesis -/
macro "raises" : tactic => `(tactic|
  repeat (first
    | (dsimp only)
    | with_reducible exact Raises.ok _
    | with_reducible exact Raises.pure _
    | with_reducible exact Raises.valid _
    | with_reducible exact Raises.invalid
    | with_reducible exact Raises.err (by decide)
    | with_reducible assumption
    | (with_reducible apply Raises.bind)
    | (intro _)
    | split))

theorem mkItem_raises (line : Str) (l : Option Nat) : Raises [.readerError] (mkItem line l) := by
  unfold mkItem; raises

theorem getLine_raises (it : Item) : Raises [.keyError] (getLine it) := by
  unfold getLine; raises

theorem copyItem_raises (it : Item) (r : SrmResult) (line : Str) (b : Bool) :
    Raises [.readerError] (copyItem it r line b) := mkItem_raises _ _

/-- the two exceptions that every use of `split_comma(…, item)` can raise -/
abbrev SC : List Exc := [.keyError, .readerError]

theorem splitCommaC_raises (it : Item) (r : SrmResult) (line : Str) (c : Char) (k : Bool) :
    Raises SC (splitCommaC it r line c k) := by
  unfold splitCommaC
  have h1 := fun l b => (copyItem_raises it r l b).mono (S' := SC) (by decide)
  have h2 := fun i => (getLine_raises i).mono (S' := SC) (by decide)
  simp only
  split
  · exact Raises.ok _
  · exact Raises.bind (h1 _ _) fun ni => Raises.bind (h2 ni) fun _ => Raises.ok _

theorem splitComma_raises (it : Item) (r : SrmResult) (line : Str) :
    Raises SC (splitComma it r line) := splitCommaC_raises ..

theorem specsSplitComma_raises (it : Item) (r : SrmResult) (line : Str) (u : Bool) :
    Raises SC (specsSplitComma it r line u) := by
  unfold specsSplitComma
  exact Raises.bind (splitComma_raises ..) fun _ => Raises.ok _


macro "raises'" : tactic => `(tactic|
  repeat (first
    | (dsimp only)
    | with_reducible exact Raises.ok _
    | with_reducible exact Raises.pure _
    | with_reducible exact Raises.valid _
    | with_reducible exact Raises.invalid
    | with_reducible exact Raises.err (by decide)
    | with_reducible exact (getLine_raises _).mono (by decide)
    | with_reducible exact (copyItem_raises ..).mono (by decide)
    | with_reducible exact (mkItem_raises ..).mono (by decide)
    | with_reducible exact (splitComma_raises ..).mono (by decide)
    | with_reducible exact (splitCommaC_raises ..).mono (by decide)
    | with_reducible exact (specsSplitComma_raises ..).mono (by decide)
    | with_reducible assumption
    | (with_reducible apply Raises.bind)
    | (intro _)
    | split))

macro "raises_t " t:tacticSeq : tactic => `(tactic|
  repeat (first
    | (dsimp only)
    | with_reducible exact Raises.ok _
    | with_reducible exact Raises.pure _
    | with_reducible exact Raises.valid _
    | with_reducible exact Raises.invalid
    | with_reducible exact Raises.err (by decide)
    | with_reducible exact (getLine_raises _).mono (by decide)
    | with_reducible exact (copyItem_raises ..).mono (by decide)
    | with_reducible exact (mkItem_raises ..).mono (by decide)
    | with_reducible exact (splitComma_raises ..).mono (by decide)
    | with_reducible exact (splitCommaC_raises ..).mono (by decide)
    | with_reducible exact (specsSplitComma_raises ..).mono (by decide)
    | with_reducible assumption
    | (with_reducible ($t))
    | (with_reducible apply Raises.bind)
    | (intro _)
    | split))

abbrev K1 : List Exc := [.keyError]

theorem processAssign_raises (c : ClassId) (it : Item) : Raises K1 (processAssign c it) := by
  unfold processAssign; raises'
theorem processAssignTo_raises (it : Item) : Raises [.keyError, .assertion] (processAssignTo it) := by
  unfold processAssignTo; raises'
theorem processCall_raises (it : Item) : Raises SC (processCall it) := by
  unfold processCall; raises'
theorem processGoto_raises (it : Item) : Raises [.keyError, .assertion] (processGoto it) := by
  unfold processGoto; raises'
theorem processCGoto_raises (it : Item) : Raises [.keyError, .readerError, .valueError] (processCGoto it) := by
  unfold processCGoto; raises'
theorem processAGoto_raises (it : Item) : Raises [.keyError, .readerError, .assertion] (processAGoto it) := by
  unfold processAGoto; raises'
theorem processOneAm_raises (c : ClassId) (n : Nat) (it : Item) : Raises K1 (processOneAm c n it) := by
  unfold processOneAm; raises'
theorem processOneRaw_raises (c : ClassId) (n : Nat) (it : Item) : Raises K1 (processOneRaw c n it) := by
  unfold processOneRaw; raises'
theorem processFmtItems_raises (c : ClassId) (n : Nat) (it : Item) :
    Raises [.keyError, .readerError, .indexError] (processFmtItems c n it) := by
  unfold processFmtItems; raises'
theorem processRead0_raises (it : Item) : Raises SC (processRead0 it) := by
  unfold processRead0; raises'
theorem processRead_raises (it : Item) : Raises [.keyError, .readerError, .indexError] (processRead it) := by
  unfold processRead
  have h0 := (processRead0_raises it).mono (S' := [.keyError, .readerError, .indexError]) (by decide)
  have h1 := processFmtItems_raises .Read1 4 it
  raises'
theorem processWrite_raises (it : Item) : Raises [.keyError, .readerError, .assertion] (processWrite it) := by
  unfold processWrite; raises'
theorem processFlush_raises (it : Item) : Raises [.keyError, .readerError, .assertion] (processFlush it) := by
  unfold processFlush; raises'
theorem processParenSpecs_raises (c : ClassId) (n : Nat) (it : Item) : Raises SC (processParenSpecs c n it) := by
  unfold processParenSpecs; raises'
theorem processParenItems_raises (c : ClassId) (n : Nat) (it : Item) : Raises SC (processParenItems c n it) := by
  unfold processParenItems; raises'
theorem processKwItems_raises (c : ClassId) (n : Nat) (it : Item) : Raises SC (processKwItems c n it) := by
  unfold processKwItems; raises'
theorem processNamelistStmt_raises (c : ClassId) (it : Item) : Raises K1 (processNamelistStmt c it) := by
  unfold processNamelistStmt; raises'
theorem processModuleProcedure_raises (T : Tables) (it : Item) :
    Raises [.keyError, .readerError, .assertion] (processModuleProcedure T it) := by
  unfold processModuleProcedure; raises'
theorem processAccess_raises (c : ClassId) (it : Item) : Raises SC (processAccess c it) := by
  unfold processAccess; raises'
theorem processFilePos_raises (c : ClassId) (it : Item) :
    Raises [.keyError, .readerError, .assertion] (processFilePos c it) := by
  unfold processFilePos; raises'
theorem processFormat_raises (it : Item) :
    Raises [.keyError, .readerError, .typeError, .indexError, .assertion] (processFormat it) := by
  unfold processFormat; raises'

theorem saveLoopLR_raises : ∀ (l acc : List Str), Raises [.keyError, .assertion] (saveLoopLR l acc)
  | [], _ => by unfold saveLoopLR; raises'
  | s :: rest, acc => by
    unfold saveLoopLR
    have ih := fun a => saveLoopLR_raises rest a
    raises_t (exact ih _)
    all_goals first | exact ih _ | skip
theorem processSave_raises (it : Item) : Raises [.keyError, .assertion] (processSave it) := by
  unfold processSave
  have := fun l a => saveLoopLR_raises l a
  raises_t (exact this _ _)

theorem dataLoop_raises (it : Item) (r : SrmResult) :
    ∀ (fuel : Nat) (line : Str) (acc), Raises SC (dataLoop it r fuel line acc)
  | 0, _, _ => by unfold dataLoop; raises'
  | fuel + 1, line, acc => by
    unfold dataLoop
    have ih := fun l a => dataLoop_raises it r fuel l a
    raises_t (exact ih _ _)
    all_goals first | exact ih _ _ | skip
theorem processData_raises (it : Item) : Raises SC (processData it) := by
  unfold processData
  have := fun r f l a => dataLoop_raises it r f l a
  raises_t (exact this _ _ _ _)

theorem processUse_raises (it : Item) : Raises SC (processUse it) := by
  unfold processUse; raises'

theorem equivLoop_raises (it : Item) (r : SrmResult) :
    ∀ l, Raises [.keyError, .readerError, .indexError, .assertion] (equivLoop it r l)
  | [] => by unfold equivLoop; raises'
  | s :: rest => by
    unfold equivLoop
    have ih := equivLoop_raises it r rest
    raises'
theorem processEquivalence_raises (it : Item) :
    Raises [.keyError, .readerError, .indexError, .assertion] (processEquivalence it) := by
  unfold processEquivalence
  have := fun r l => equivLoop_raises it r l
  raises_t (exact this _ _)

theorem processAIf_raises (it : Item) : Raises [.keyError, .valueError] (processAIf it) := by
  unfold processAIf; raises'
theorem processInquire_raises (it : Item) : Raises [.keyError, .readerError, .valueError] (processInquire it) := by
  unfold processInquire; raises'

theorem namelistLoop_raises : ∀ (fuel : Nat) (line : Str) (acc), Raises [.keyError, .assertion] (namelistLoop fuel line acc)
  | 0, _, _ => by unfold namelistLoop; raises'
  | fuel + 1, line, acc => by
    unfold namelistLoop
    have ih := fun l a => namelistLoop_raises fuel l a
    raises_t (exact ih _ _)
    all_goals first | exact ih _ _ | skip
theorem processNamelist_raises (it : Item) : Raises [.keyError, .assertion] (processNamelist it) := by
  unfold processNamelist
  have := fun f l a => namelistLoop_raises f l a
  raises_t (exact this _ _ _)

theorem commonLoop_raises (it : Item) (r : SrmResult) :
    ∀ (fuel : Nat) (line : Str) (acc), Raises [.keyError, .readerError, .assertion] (commonLoop it r fuel line acc)
  | 0, _, _ => by unfold commonLoop; raises'
  | fuel + 1, line, acc => by
    unfold commonLoop
    have ih := fun l a => commonLoop_raises it r fuel l a
    raises_t (exact ih _ _)
    all_goals first | exact ih _ _ | skip
theorem processCommon_raises (it : Item) : Raises [.keyError, .readerError, .assertion] (processCommon it) := by
  unfold processCommon
  have := fun r f l a => commonLoop_raises it r f l a
  raises_t (exact this _ _ _ _)

theorem processIntent_raises (it : Item) : Raises SC (processIntent it) := by
  unfold processIntent; raises'

theorem parseBind_raises (it : Item) (r : SrmResult) (line : Str) :
    Raises [.keyError, .readerError, .assertion] (parseBind it r line) := by
  unfold parseBind; raises'
theorem parseResult_raises (line : Str) : Raises [.assertion] (parseResult line) := by
  unfold parseResult; raises'

abbrev EntryS : List Exc := [.keyError, .readerError, .assertion, .attributeError]
theorem processEntry_raises (it : Item) : Raises EntryS (processEntry it) := by
  unfold processEntry
  have hb := fun r l => (parseBind_raises it r l).mono (S' := EntryS) (by decide)
  have hr := fun l => (parseResult_raises l).mono (S' := EntryS) (by decide)
  raises_t (first | exact hb _ _ | exact hr _)

abbrev ForallS : List Exc := [.keyError, .readerError, .valueError, .assertion]
theorem forallSpecs_raises (it : Item) (r : SrmResult) :
    ∀ l specs mask, Raises ForallS (forallSpecs it r l specs mask)
  | [], _, _ => by unfold forallSpecs; raises'
  | l :: rest, specs, mask => by
    unfold forallSpecs
    have ih := fun s m => forallSpecs_raises it r rest s m
    raises_t (exact ih _ _)
    all_goals first | exact ih _ _ | skip
theorem processForall_raises (it : Item) : Raises ForallS (processForall it) := by
  unfold processForall
  have h1 := fun c i => (processAssign_raises c i).mono (S' := ForallS) (by decide)
  have h2 := fun r l s m => forallSpecs_raises it r l s m
  raises_t (first | exact h1 _ _ | exact h2 _ _ _ _)

theorem bindingAttr_raises (a : Str) : Raises [.assertion] (bindingAttr a) := by
  unfold bindingAttr; raises'
theorem processSpecific_raises (it : Item) : Raises ForallS (processSpecific it) := by
  unfold processSpecific
  have h := fun l => Raises.mapM (S := ForallS) bindingAttr (fun a => (bindingAttr_raises a).mono (by decide)) l
  raises_t (exact h _)
theorem processGeneric_raises (it : Item) : Raises [.keyError, .valueError] (processGeneric it) := by
  unfold processGeneric; raises'

theorem bindItems_raises : ∀ l, Raises [.assertion] (bindItems l)
  | [] => by unfold bindItems; raises'
  | x :: rest => by
    unfold bindItems
    have ih := bindItems_raises rest
    raises'
abbrev BindS : List Exc := [.keyError, .readerError, .assertion, .typeError]
theorem processBind_raises (it : Item) : Raises BindS (processBind it) := by
  unfold processBind
  have hb := fun r l => (parseBind_raises it r l).mono (S' := BindS) (by decide)
  have hi := fun l => (bindItems_raises l).mono (S' := BindS) (by decide)
  raises_t (first | exact hb _ _ | exact hi _)

theorem processElse_raises (ctx : Ctx) (it : Item) : Raises K1 (processElse ctx it) := by
  unfold processElse; raises'
theorem processElseIf_raises (ctx : Ctx) (it : Item) :
    Raises [.keyError, .indexError, .assertion] (processElseIf ctx it) := by
  unfold processElseIf; raises'
theorem processElseWhere_raises (ctx : Ctx) (it : Item) :
    Raises [.keyError, .valueError] (processElseWhere ctx it) := by
  unfold processElseWhere; raises'
theorem processWhere_raises (T : Tables) (it : Item) :
    Raises [.keyError, .readerError, .valueError] (processWhere T it) := by
  unfold processWhere
  have h1 := fun c i => (processAssign_raises c i).mono (S' := [.keyError, .readerError, .valueError]) (by decide)
  raises_t (exact h1 _ _)

abbrev SCP : List Exc := [.keyError, .readerError, .parseError]
theorem splitCommaBr_raises (it : Item) (r : SrmResult) (line : Str) : Raises SC (splitCommaBr it r line) := by
  unfold splitCommaBr; raises'
theorem extractBracketed_raises (it : Item) (r : SrmResult) (line : Str) :
    Raises SCP (extractBracketed it r line) := by
  unfold extractBracketed
  have h1 := fun l => (splitCommaBr_raises it r l).mono (S' := SCP) (by decide)
  have h2 : ∀ l : List Str, Raises SCP (l.mapM fun x => do
      let itm ← copyItem it r x false
      let r2 ← getLine itm
      .ok ((splitOnChar r2.text ':').map fun p => am r2 (strip p))) := by
    intro l
    apply Raises.mapM
    intro a
    raises'
  raises_t (first | exact h1 _ | exact h2 _)

/-- `except ParseError` : what escapes the `try` of `Case` / `ClassIs` -/
theorem processCaseLike_raises (c : ClassId) (n : Nat) (ctx : Ctx) (it : Item) :
    Raises SC (processCaseLike c n ctx it) := by
  unfold processCaseLike
  apply Raises.bind ((getLine_raises _).mono (by decide))
  intro r
  dsimp only
  have h := extractBracketed_raises it r (lstrip (r.text.drop n))
  generalize extractBracketed it r (lstrip (r.text.drop n)) = x at h
  cases x with
  | ok items => dsimp only; raises'
  | error e =>
    have he := h.out e rfl
    cases e <;> first
      | (exfalso; revert he; decide)
      | (dsimp only; raises')

theorem processTypeIs_raises (ctx : Ctx) (it : Item) : Raises SCP (processTypeIs ctx it) := by
  unfold processTypeIs
  have h := fun r l => extractBracketed_raises it r l
  raises_t (exact h _ _)

abbrev TD : List Exc := [.keyError, .readerError, .assertion, .indexError, .attributeError]
theorem parseKindSelector_raises (sel : Str) : Raises [.indexError, .assertion] (parseKindSelector sel) := by
  unfold parseKindSelector; raises'
theorem parseCharSelector_raises (it : Item) (r : SrmResult) (sel : Str) :
    Raises [.keyError, .readerError, .indexError, .assertion] (parseCharSelector it r sel) := by
  unfold parseCharSelector; raises'
theorem processTypeDecl_raises (T : Tables) (c : ClassId) (ctx : Ctx) (hp : Bool) (it : Item) :
    Raises TD (processTypeDecl T c ctx hp it) := by
  unfold processTypeDecl
  have h1 := fun s => (parseKindSelector_raises s).mono (S' := TD) (by decide)
  have h2 := fun r s => (parseCharSelector_raises it r s).mono (S' := TD) (by decide)
  raises_t (first | exact h1 _ | exact h2 _ _)

theorem typeSpecLoop_raises (T : Tables) (ctx : Ctx) (it : Item) (spec : Str) :
    ∀ cs acc, Raises TD (typeSpecLoop T ctx it spec cs acc)
  | [], _ => by unfold typeSpecLoop; raises'
  | c :: cs, acc => by
    unfold typeSpecLoop
    have ih := fun a => typeSpecLoop_raises T ctx it spec cs a
    have h := fun c x b i => processTypeDecl_raises T c x b i
    raises_t (first | exact ih _ | exact h _ _ _ _)

abbrev AL : List Exc := [.keyError, .readerError, .assertion, .indexError, .attributeError, .parseError]
theorem allocPrefix_raises (T : Tables) (spec : Str) : Raises [.keyError, .attributeError] (allocPrefix T spec) := by
  unfold allocPrefix; raises'
theorem processAllocate_raises (T : Tables) (ctx : Ctx) (it : Item) : Raises AL (processAllocate T ctx it) := by
  unfold processAllocate
  have h1 := fun s => (allocPrefix_raises T s).mono (S' := AL) (by decide)
  have h2 := fun i s cs a => (typeSpecLoop_raises T ctx i s cs a).mono (S' := AL) (by decide)
  raises_t (first | exact h1 _ | exact h2 _ _ _ _)

abbrev IM : List Exc := [.keyError, .readerError, .assertion, .indexError, .attributeError, .valueError]
theorem letterSpec_raises (s : Str) : Raises [.assertion, .valueError] (letterSpec s) := by
  unfold letterSpec; raises'
theorem implicitItem_raises (T : Tables) (ctx : Ctx) (it : Item) (r : SrmResult) (item : Str) :
    Raises IM (implicitItem T ctx it r item) := by
  unfold implicitItem
  have h1 := fun l => Raises.mapM (S := IM) letterSpec (fun a => (letterSpec_raises a).mono (by decide)) l
  have h2 := fun s cs a => (typeSpecLoop_raises T ctx it s cs a).mono (S' := IM) (by decide)
  raises_t (first | exact h1 _ | exact h2 _ _ _)
theorem processImplicit_raises (T : Tables) (ctx : Ctx) (it : Item) : Raises IM (processImplicit T ctx it) := by
  unfold processImplicit
  have h := fun r l => Raises.mapM (S := IM) (implicitItem T ctx it r) (fun a => implicitItem_raises T ctx it r a) l
  raises_t (exact h _ _)

/-- the exceptions a class can raise: the EXACT set (every member has a witness in
    `Props/One3.lean`, replayed on the real code by the ZOO of `fv/cosim_one3.py`) -/
def allowed : ClassId → List Exc
  | .Assignment | .PointerAssignment | .GeneralAssignment => K1
  | .Assign | .Goto => [.keyError, .assertion]
  | .Call => SC
  | .ComputedGoto => [.keyError, .readerError, .valueError]
  | .AssignedGoto => [.keyError, .readerError, .assertion]
  | .Continue | .Contains | .Sequence | .Return | .Stop | .Pause | .Cycle | .Exit | .Else => K1
  | .Print | .Read | .Read1 => [.keyError, .readerError, .indexError]
  | .Read0 => SC
  | .Write | .Flush | .Backspace | .Endfile | .Rewind | .ModuleProcedure | .Common =>
    [.keyError, .readerError, .assertion]
  | .Wait | .Close | .Open | .Deallocate | .Nullify | .Parameter | .Public | .Private
  | .Dimension | .Target | .Pointer | .Allocatable | .Enumerator | .Data | .Use | .Intent
  | .Case | .ClassIs => SC
  | .Protected | .Volatile | .Value | .Intrinsic | .External | .Optional | .Import
  | .FinalBinding | .Asynchronous => K1
  | .Format => [.keyError, .readerError, .typeError, .indexError, .assertion]
  | .Save | .Namelist => [.keyError, .assertion]
  | .Equivalence => [.keyError, .readerError, .indexError, .assertion]
  | .ArithmeticIf | .GenericBinding | .ElseWhere => [.keyError, .valueError]
  | .Inquire | .Where => [.keyError, .readerError, .valueError]
  | .Entry => EntryS
  | .Forall | .SpecificBinding => ForallS
  | .Bind => BindS
  | .ElseIf => [.keyError, .indexError, .assertion]
  | .TypeIs => SCP
  | .Integer | .Real | .DoublePrecision | .Complex | .DoubleComplex | .Character | .Logical
  | .Byte | .Type | .Class => TD
  | .Allocate => AL
  | .Implicit => IM

theorem processItem_raises (T : Tables) (ctx : Ctx) (c : ClassId) (it : Item) :
    Raises (allowed c) (processItem T ctx c it) := by
  cases c <;> unfold processItem <;> dsimp only [allowed] <;>
    first
    | with_reducible exact processAssign_raises _ _
    | with_reducible exact processAssignTo_raises _
    | with_reducible exact processCall_raises _
    | with_reducible exact processGoto_raises _
    | with_reducible exact processCGoto_raises _
    | with_reducible exact processAGoto_raises _
    | with_reducible exact processOneAm_raises _ _ _
    | with_reducible exact processOneRaw_raises _ _ _
    | with_reducible exact processFmtItems_raises _ _ _
    | with_reducible exact processRead_raises _
    | with_reducible exact processRead0_raises _
    | with_reducible exact processWrite_raises _
    | with_reducible exact processFlush_raises _
    | with_reducible exact processParenSpecs_raises _ _ _
    | with_reducible exact processAllocate_raises _ _ _
    | with_reducible exact processModuleProcedure_raises _ _
    | with_reducible exact processAccess_raises _ _
    | with_reducible exact processFilePos_raises _ _
    | with_reducible exact processFormat_raises _
    | with_reducible exact processSave_raises _
    | with_reducible exact processData_raises _
    | with_reducible exact processUse_raises _
    | with_reducible exact processEquivalence_raises _
    | with_reducible exact processKwItems_raises _ _ _
    | with_reducible exact processNamelistStmt_raises _ _
    | with_reducible exact processAIf_raises _
    | with_reducible exact processInquire_raises _
    | with_reducible exact processNamelist_raises _
    | with_reducible exact processCommon_raises _
    | with_reducible exact processIntent_raises _
    | with_reducible exact processEntry_raises _
    | with_reducible exact processForall_raises _
    | with_reducible exact processSpecific_raises _
    | with_reducible exact processGeneric_raises _
    | with_reducible exact processBind_raises _
    | with_reducible exact processElse_raises _ _
    | with_reducible exact processElseIf_raises _ _
    | with_reducible exact processCaseLike_raises _ _ _ _
    | with_reducible exact processTypeIs_raises _ _
    | with_reducible exact processWhere_raises _ _
    | with_reducible exact processElseWhere_raises _ _
    | with_reducible exact processTypeDecl_raises _ _ _ _ _
    | with_reducible exact processImplicit_raises _ _ _
    | raises'

end Fp.One3
