import FparserModel.Wire
import FparserModel.Combi
import FparserModel.Generated.Combi
/-!
driver commands of the combinator slice (trusted glue, no theorems)

    combi      classId string [value haskind kind]
        → nospec
        | split none | split some slot*
        | alts (none | some n slot*)*                 (WORDClsBase with a list keyword)
        | string x litOk reIds                        (x = the text compared / handed to the regexes,
                                                       litOk = some literal atom accepts, reIds = "3,7")
        | number x reId VALUE haskind kind            (x = the text handed to the regex; VALUE = upper(value))
      slot = N | S text | C classId text | X (TypeError) | F (return None after the calls so far)
    combi_str  classId item*          item = N | S text | T text (a child node, by its printed text)
        → some text | none
-/
namespace FpDriver.Combi
open Fp Fp.Wire Fp.Combi

def ok (fs : List String) : String := "\t".intercalate ("OK" :: fs)

def encSlot : Slot → List String
  | .none => [enc "N"]
  | .str s => [enc "S", encL s]
  | .child c s => [enc "C", enc (toString c), encL s]
  | .crash => [enc "X"]
  | .fail => [enc "F"]

def slotWidth : Slot → Nat
  | .none => 1 | .str _ => 2 | .child _ _ => 3 | .crash => 1 | .fail => 1

def encPlan : Option (List Slot) → List String
  | none => [enc "none"]
  | some slots => enc "some" :: enc (toString slots.length) :: slots.flatMap encSlot

def preApply (p : Pre) (s : Str) : Str := p.apply s

/-- items of `combi_str`: nodes are represented by their printed text -/
def decItems : List String → Option (List (Item Str))
  | [] => some []
  | k :: rest =>
    match dec k, rest with
    | "N", rest => (decItems rest).map (Item.none :: ·)
    | "S", t :: rest => (decItems rest).map (Item.str (decL t) :: ·)
    | "T", t :: rest => (decItems rest).map (Item.node (decL t) :: ·)
    | _, _ => none

def textOracle : Oracle Str := { childMatch := fun _ s => some s, childStr := id }

def handle (cmd : String) (args : List String) : Option String :=
  match cmd, args with
  | "combi", cid :: str :: extra =>
    let s := decL str
    match Fp.Combi.Generated.specOf (dec cid).toNat! with
    | none => some (ok [enc "nospec"])
    | some sp =>
      match sp with
      | .word kws true c co r _ =>
        some (ok (enc "alts" :: (wordAlts kws c co r s).flatMap encPlan))
      | .string up pre atoms =>
        let x0 := pre.apply s
        let x := if up then upper x0 else x0
        let litOk := atoms.any fun a => match a with
          | .lit p => p.length == x.length && p == x
          | .re _ => false
        let res := atoms.filterMap fun a => match a with
          | .re i => some (toString i)
          | .lit _ => none
        some (ok [enc "string", encL x, enc (if litOk then "1" else "0"), enc (",".intercalate res)])
      | .number pre re =>
        let x := noSpaces (pre.apply s)
        match extra with
        | [v, hk, k] =>
          some (ok [enc "number", encL x, enc (toString re), encL (upper (decL v)), hk, k])
        | _ => some (ok [enc "number", encL x, enc (toString re)])
      | sp => some (ok (enc "split" :: encPlan (sp.split s)))
  | "combi_str", cid :: items =>
    match Fp.Combi.Generated.specOf (dec cid).toNat!, decItems items with
    | some sp, some its =>
      let r : Option Str :=
        match sp with
        | .string _ _ _ => (match its with | [.str x] => some (stringStr x) | _ => none)
        | .number _ _ =>
          (match its with
            | [.str v, .none] => some (numberStr (v, none))
            | [.str v, .str k] => some (numberStr (v, some k))
            | _ => none)
        | sp => sp.str textOracle its
      match r with
      | some t => some (ok [enc "some", encL t])
      | none => some (ok [enc "none"])
    | _, _ => some ("ERR\t" ++ enc "bad combi_str request")
  | _, _ => none

end FpDriver.Combi
