import FparserModel.Proofs.IoStmtLayoutWrite
/-!
`*_tostr_match_tokens` for the classes that are INSTANCES of the generic combinators of
`FparserModel/Combi.lean` (`WORDClsBase`, `BracketBase`, `CALLBase`/`CallBase`, `SequenceBase`,
`SeparatorBase`, `KeywordValueBase`), generic in the combinator arguments, and the corollaries for
the modelled classes by instantiation.

The balance clause is stated over the CHILD NODES of the items
(`∀ n, Item.node n ∈ items → net (o.str n) = 0`); it implies the `∀ i ∈ items, net (i.text o) = 0`
form of the brief (`bal_of_all`), which would be vacuous for `BracketBase` (the items `"("`, `")"`).
-/
namespace Fp.IoStmt
open Fp Fp.Splitline
open Fp.Combi (noBlank)

variable {Node : Type}

/-! ## infrastructure -/

/-- the brief's balance hypothesis implies the one used here -/
theorem bal_of_all {o : Oracle Node} {items : List (Item Node)}
    (h : ∀ i ∈ items, net (i.text o) = 0) : ∀ n, Item.node n ∈ items → net (o.str n) = 0 :=
  fun n hn => h (.node n) hn

theorem combiPlan_bind_ok {o : Oracle Node} {sp : Combi.Spec} {s : Str} {items : List (Item Node)}
    (hm : (combiPlan sp s).bind (runSlots o) = .ok items) :
    ∃ cs, sp.split s = some cs ∧ runSlots o (cs.map ofCombiSlot) = .ok items := by
  obtain ⟨slots, hp, hr⟩ := Res.bind_eq_ok hm
  unfold combiPlan at hp
  cases hsp : sp.split s with
  | none => rw [hsp] at hp; simp only [ofCombi] at hp; cases hp
  | some cs => rw [hsp] at hp; simp only [ofCombi] at hp; cases hp; exact ⟨cs, rfl, hr⟩

theorem text_toCombiItem (o : Oracle Node) (i : Item Node) :
    Combi.Item.text textOracle (toCombiItem o i) = i.text o := by
  cases i <;> rfl

theorem runSlots_pair_ok {o : Oracle Node} {a b : Slot} {items : List (Item Node)}
    (h : runSlots o [a, b] = .ok items) :
    ∃ i j, items = [i, j] ∧ runSlot o a = .ok i ∧ runSlot o b = .ok j := by
  obtain ⟨i, is, rfl, hi, his⟩ := runSlots_cons_ok h
  obtain ⟨j, js, rfl, hj, hjs⟩ := runSlots_cons_ok his
  have := runSlots_nil_ok hjs; subst this
  exact ⟨i, j, rfl, hi, hj⟩

theorem toks_sp : toks " ".toList = [] := by decide
theorem net_lp : net "(".toList = 1 := by decide
theorem net_rp : net ")".toList = -1 := by decide

theorem cons_eq_append (c : Char) (X : Str) : c :: X = [c] ++ X := rfl

/-! ## WORDClsBase -/

theorem wordStr_node (w x : Str) :
    toks (Combi.wordStr textOracle [.str w, .node x]) = toks w ++ toks x ∧
    net (Combi.wordStr textOracle [.str w, .node x]) = net w + net x := by
  have e : ∀ X : Str, ' ' :: X = " ".toList ++ X := fun _ => rfl
  have n0 : net " ".toList = 0 := by decide
  cases x with
  | nil =>
    simp only [Combi.wordStr, Combi.Item.text, textOracle, id]
    rw [e]; simp only [toks_append, net_append, toks_sp, n0]; simp
  | cons c x =>
    simp only [Combi.wordStr, Combi.Item.text, textOracle, id]
    split
    · simp only [toks_append, net_append]; simp
    · rw [e]; simp only [toks_append, net_append, toks_sp, n0]; simp

/-- **WORDClsBase** (`keyword` a single `str`, `colons=False`, plain `tostr`): the keyword (matched
    case-insensitively, printed as given) and the text handed to the child carry all the tokens of
    the input.  No side condition on the keyword (`ERROR STOP` with its inner blank included). -/
theorem word_tostr_match_tokens (o : Oracle Node) (ho : OracleTok o) (kw : Str)
    (cls : Option ClassId) (req : Bool) (s : Str) (items : List (Item Node))
    (hk : net kw = 0)
    (hm : (combiPlan (.word [kw] false cls false req false) s).bind (runSlots o) = .ok items) :
    ∃ t, combiStr o (.word [kw] false cls false req false) items = .ok t ∧ toks t = toks s ∧
      ((∀ n, Item.node n ∈ items → net (o.str n) = 0) → net t = 0) := by
  obtain ⟨cs, hsp, hr⟩ := combiPlan_bind_ok hm
  have hsp' : Combi.wordSplit1 kw cls false req s = some cs := hsp
  unfold Combi.wordSplit1 at hsp'
  dsimp only at hsp'
  split at hsp'
  · cases hsp'
  rename_i hne
  have hkw : upper ((lstrip s).take kw.length) = upper kw := by simpa using hne
  have hS : toks s = toks kw ++ toks ((lstrip s).drop kw.length) := by
    rw [← toks_lstrip s]
    conv => lhs; rw [← List.take_append_drop kw.length (lstrip s)]
    rw [toks_append, ← toks_upper (List.take kw.length (lstrip s)), hkw, toks_upper]
  -- the two outcomes
  have bare : cs = [.str kw, .none] → toks ((lstrip s).drop kw.length) = [] →
      ∃ t, combiStr o (.word [kw] false cls false req false) items = .ok t ∧ toks t = toks s ∧
        ((∀ n, Item.node n ∈ items → net (o.str n) = 0) → net t = 0) := by
    intro hcs h0
    subst hcs
    obtain ⟨i, j, rfl, hi, hj⟩ := runSlots_pair_ok hr
    have := runSlot_str_ok hi; subst this
    have := runSlot_none_ok hj; subst this
    refine ⟨kw, rfl, ?_, fun _ => hk⟩
    rw [hS, h0]; simp
  split at hsp'
  · rename_i hnil
    split at hsp'
    · cases hsp'
    · cases hsp'
      exact bare rfl (by rw [hnil]; rfl)
  · rename_i c rest hcons
    split at hsp'
    · cases hsp'
    simp only [Bool.false_and, Bool.false_eq_true, if_false, Bool.false_or] at hsp'
    split at hsp'
    · rename_i hemp
      split at hsp'
      · cases hsp'
      · cases hsp'
        refine bare rfl ?_
        rw [← toks_lstrip]
        have : lstrip (List.drop (List.length kw) (lstrip s)) = [] := by simpa using hemp
        rw [this]; rfl
    · split at hsp'
      · cases hsp'
      · rename_i k
        cases hsp'
        obtain ⟨i, j, rfl, hi, hj⟩ := runSlots_pair_ok hr
        have := runSlot_str_ok hi; subst this
        have hj' := toks_item_of_child ho hj
        obtain ⟨n, rfl, _⟩ := runSlot_child_ok hj
        obtain ⟨w1, w2⟩ := wordStr_node kw (o.str n)
        refine ⟨Combi.wordStr textOracle [.str kw, .node (o.str n)], rfl, ?_, ?_⟩
        · rw [w1, hS]
          have : toks (o.str n) = toks (lstrip (List.drop (List.length kw) (lstrip s))) := hj'
          rw [this, toks_lstrip]
        · intro hb
          rw [w2, hk, hb n (by simp)]; rfl

/-! ## BracketBase -/

theorem bracket_shape (ss : Str) (hl : ¬ ss.length < 2) (h1 : startsWith ss ['('] = true)
    (h2 : endsWith ss [')'] = true) : ss = '(' :: Combi.midSlice ss 1 ++ [')'] := by
  cases ss with
  | nil => simp at hl
  | cons x tl =>
    have hx : x = '(' := by simpa [startsWith] using h1
    subst hx
    have htl : tl.length ≥ 1 := by simp at hl; omega
    have h3 : tl.drop (tl.length - 1) = [')'] := by
      simp only [endsWith, List.length_cons, List.length_nil, Bool.and_eq_true, beq_iff_eq] at h2
      have h2' := h2.2
      have e : tl.length + 1 - (0 + 1) = (tl.length - 1) + 1 := by omega
      rw [e, List.drop_succ_cons] at h2'
      exact h2'
    have h4 : Combi.midSlice ('(' :: tl) 1 = tl.take (tl.length - 1) := by
      simp only [Combi.midSlice, List.drop_succ_cons, List.drop_zero, List.length_cons]
      congr 1
    rw [h4]
    conv => lhs; rw [← List.take_append_drop (tl.length - 1) tl, h3]
    rfl

/-- **BracketBase** with brackets `"()"`: the parentheses and the child's text carry all the tokens;
    `()` prints `()` -/
theorem bracket_tostr_match_tokens (o : Oracle Node) (ho : OracleTok o) (c : ClassId) (req : Bool)
    (s : Str) (items : List (Item Node))
    (hm : (combiPlan (.bracket "()".toList (some c) req) s).bind (runSlots o) = .ok items) :
    ∃ t, combiStr o (.bracket "()".toList (some c) req) items = .ok t ∧ toks t = toks s ∧
      ((∀ n, Item.node n ∈ items → net (o.str n) = 0) → net t = 0) := by
  obtain ⟨cs, hsp, hr⟩ := combiPlan_bind_ok hm
  have hsp' : Combi.bracketSplit "()".toList (some c) req s = some cs := hsp
  unfold Combi.bracketSplit at hsp'
  have hbn : Combi.noSpaces "()".toList = "()".toList := by decide
  simp only [hbn] at hsp'
  simp only [Option.isNone_some, Bool.false_and, Bool.false_eq_true, if_false, Option.isSome_some,
    Bool.and_true, Bool.and_false, Bool.or_false, Bool.false_or] at hsp'
  split at hsp'
  · cases hsp'
  have k1 : "()".toList.isEmpty = false := by decide
  have k2 : ("()".toList.length % 2 == 1) = false := by decide
  have k3 : "()".toList.length / 2 = 1 := by decide
  have k4 : List.take 1 "()".toList = ['('] := by decide
  have k5 : List.drop ("()".toList.length - 1) "()".toList = [')'] := by decide
  simp only [k1, k2, k3, k4, k5, Bool.false_eq_true, if_false] at hsp'
  split at hsp'
  · cases hsp'
  rename_i hlen
  split at hsp'
  · cases hsp'
  rename_i hse
  have hse' : startsWith (strip s) ['('] = true ∧ endsWith (strip s) [')'] = true := by
    simpa using hse
  have hshape := bracket_shape (strip s) (by simpa using hlen) hse'.1 hse'.2
  have e1 : ∀ X : Str, '(' :: X = "(".toList ++ X := fun _ => rfl
  have hS : toks s = toks "(".toList ++ (toks (lstrip (Combi.midSlice (strip s) 1)) ++ toks ")".toList) := by
    rw [← toks_strip s]
    conv => lhs; rw [hshape]
    rw [e1]; simp only [toks_append, toks_lstrip, List.append_assoc]; rfl
  split at hsp'
  · cases hsp'
  split at hsp'
  · rename_i hemp
    cases hsp'
    obtain ⟨i, is, rfl, hi, his⟩ := runSlots_cons_ok hr
    obtain ⟨j, k, rfl, hj, hk⟩ := runSlots_pair_ok his
    have := runSlot_str_ok hi; subst this
    have := runSlot_none_ok hj; subst this
    have := runSlot_str_ok hk; subst this
    refine ⟨"()".toList, rfl, ?_, fun _ => by decide⟩
    have : lstrip (Combi.midSlice (strip s) 1) = [] := by
      have := hemp; simp only [Bool.and_eq_true] at this
      simpa using this.1
    rw [hS, this]; decide
  · cases hsp'
    obtain ⟨i, is, rfl, hi, his⟩ := runSlots_cons_ok hr
    obtain ⟨j, k, rfl, hj, hk⟩ := runSlots_pair_ok his
    have := runSlot_str_ok hi; subst this
    have := runSlot_str_ok hk; subst this
    have hj' := toks_item_of_child ho hj
    obtain ⟨n, rfl, _⟩ := runSlot_child_ok hj
    refine ⟨"(".toList ++ o.str n ++ ")".toList, rfl, ?_, ?_⟩
    · rw [hS]
      have : toks (o.str n) = toks (lstrip (Combi.midSlice (strip s) 1)) := hj'
      simp only [toks_append, this, List.append_assoc]
    · intro hb
      simp only [net_append, hb n (by simp), net_lp, net_rp]; rfl

/-! ## KeywordValueBase (class-valued left-hand side) -/

/-- **KeywordValueBase** with a class on the left: `lhs = rhs`; with `require_lhs=False` and no
    `=` the whole text goes to the right-hand class and is printed alone -/
theorem kvcls_tostr_match_tokens (o : Oracle Node) (ho : OracleTok o) (l r : ClassId) (q u : Bool)
    (s : Str) (items : List (Item Node))
    (hm : (combiPlan (.kv (.cls l) r q u) s).bind (runSlots o) = .ok items) :
    ∃ t, combiStr o (.kv (.cls l) r q u) items = .ok t ∧ toks t = toks s ∧
      ((∀ n, Item.node n ∈ items → net (o.str n) = 0) → net t = 0) := by
  obtain ⟨cs, hsp, hr⟩ := combiPlan_bind_ok hm
  have hsp' : Combi.kvSplit (.cls l) r q u s = some cs := hsp
  unfold Combi.kvSplit at hsp'
  split at hsp'
  · cases hsp'
  cases hc : Combi.cutFirst '=' s with
  | none =>
    simp only [hc] at hsp'
    split at hsp'
    · cases hsp'
    rename_i rhs hrhs
    split at hrhs
    · cases hrhs
    cases hrhs
    cases hsp'
    obtain ⟨i, j, rfl, hi, hj⟩ := runSlots_pair_ok hr
    have := runSlot_none_ok hi; subst this
    split at hj
    · exact absurd hj (runSlot_fail o _)
    have hj' := toks_item_of_child ho hj
    obtain ⟨n, rfl, _⟩ := runSlot_child_ok hj
    refine ⟨o.str n, rfl, ?_, fun hb => hb n (by simp)⟩
    have : toks (o.str n) = toks (strip s) := hj'
    rw [this, toks_strip]
  | some p =>
    obtain ⟨p0, p1⟩ := p
    obtain ⟨hs, _⟩ := Combi.cutFirst_spec s p0 p1 hc
    simp only [hc] at hsp'
    cases hsp'
    obtain ⟨i, j, rfl, hi, hj⟩ := runSlots_pair_ok hr
    split at hj
    · exact absurd hj (runSlot_fail o _)
    have hi' := toks_item_of_child ho hi
    have hj' := toks_item_of_child ho hj
    obtain ⟨n, rfl, _⟩ := runSlot_child_ok hi
    obtain ⟨n2, rfl, _⟩ := runSlot_child_ok hj
    refine ⟨o.str n ++ " = ".toList ++ o.str n2, rfl, ?_, ?_⟩
    · have a1 : toks (o.str n) = toks (strip p0) := hi'
      have a2 : toks (o.str n2) = toks (strip p1) := hj'
      have e : ∀ X : Str, '=' :: X = "=".toList ++ X := fun _ => rfl
      have k : toks " = ".toList = toks "=".toList := by decide
      rw [hs, e]
      simp only [toks_append, a1, a2, toks_strip, k, List.append_assoc]
    · intro hb
      have k : net " = ".toList = 0 := by decide
      simp only [net_append, hb n (by simp), hb n2 (by simp), k]; rfl

/-! ## SequenceBase (separator `","`) -/

/-- the inherited `tostr` of a `","` list class IS `tostrList` -/
theorem combiStr_seq (o : Oracle Node) (elem : ClassId) (items : List (Item Node)) :
    combiStr o (.seq ",".toList elem) items = tostrList o items := by
  have h : (items.map (toCombiItem o)).map (Combi.Item.text textOracle) = items.map (Item.text o) := by
    rw [List.map_map]; apply List.map_congr_left; intro i _; exact text_toCombiItem o i
  show (match some (Combi.joinStr (Combi.seqSepText ",".toList)
      ((items.map (toCombiItem o)).map (Combi.Item.text textOracle))) with
    | some t => Res.ok t | none => Res.raises Exc.internalError) = _
  rw [h]; rfl

theorem seq_core (o : Oracle Node) (ho : OracleTok o) (c : ClassId) (f g : Str → Str) :
    ∀ (pieces : List Str) (items : List (Item Node)),
      runSlots o (pieces.map fun e => Slot.child c (f e)) = .ok items →
      (∀ p ∈ pieces, toks (f p) = toks (g p)) →
      toks (Combi.joinStr ", ".toList (items.map (Item.text o))) =
        toks (Combi.joinStr [','] (pieces.map g)) ∧
      ((∀ n, Item.node n ∈ items → net (o.str n) = 0) →
        net (Combi.joinStr ", ".toList (items.map (Item.text o))) = 0) := by
  intro pieces
  induction pieces with
  | nil =>
    intro items h _
    have := runSlots_nil_ok h; subst this
    exact ⟨rfl, fun _ => rfl⟩
  | cons p ps ih =>
    intro items h hfg
    rw [List.map_cons] at h
    obtain ⟨i, is, rfl, hi, his⟩ := runSlots_cons_ok h
    have hi' := toks_item_of_child ho hi
    obtain ⟨n, rfl, _⟩ := runSlot_child_ok hi
    have hp : toks (o.str n) = toks (g p) := by
      have : toks (o.str n) = toks (f p) := hi'
      rw [this]; exact hfg p (by simp)
    obtain ⟨ih1, ih2⟩ := ih is his (fun q hq => hfg q (List.mem_cons_of_mem _ hq))
    cases ps with
    | nil =>
      have := runSlots_nil_ok his; subst this
      refine ⟨?_, fun hb => ?_⟩
      · show toks (o.str n) = toks (g p)
        exact hp
      · show net (o.str n) = 0
        exact hb n (by simp)
    | cons q qs =>
      rw [List.map_cons] at his
      obtain ⟨j, js, rfl, _, _⟩ := runSlots_cons_ok his
      have e1 : Combi.joinStr ", ".toList (List.map (Item.text o) (Item.node n :: j :: js)) =
          o.str n ++ ", ".toList ++ Combi.joinStr ", ".toList (List.map (Item.text o) (j :: js)) := rfl
      have e2 : Combi.joinStr [','] (List.map g (p :: q :: qs)) =
          g p ++ [','] ++ Combi.joinStr [','] (List.map g (q :: qs)) := rfl
      have k : toks ", ".toList = toks [','] := by decide
      have kn : net ", ".toList = 0 := by decide
      refine ⟨?_, fun hb => ?_⟩
      · rw [e1, e2]
        simp only [toks_append, hp, ih1, k]
      · rw [e1]
        simp only [net_append, hb n (by simp), kn,
          ih2 (fun m hm => hb m (List.mem_cons_of_mem _ hm))]
        rfl

/-- **SequenceBase** with separator `","`: every piece of `line.split(",")` reaches a child, the
    pieces are printed in order, joined by `", "` -/
theorem seq_tostr_match_tokens (o : Oracle Node) (ho : OracleTok o) (elem : ClassId) (s : Str)
    (items : List (Item Node))
    (hm : (combiPlan (.seq ",".toList elem) s).bind (runSlots o) = .ok items) (hs : SrmOK s) :
    ∃ t, combiStr o (.seq ",".toList elem) items = .ok t ∧ toks t = toks s ∧
      ((∀ n, Item.node n ∈ items → net (o.str n) = 0) → net t = 0) := by
  obtain ⟨cs, hsp, hr⟩ := combiPlan_bind_ok hm
  have hsp' : Combi.seqSplit ",".toList elem s = some cs := hsp
  unfold Combi.seqSplit at hsp'
  have k0 : (",".toList == [' ']) = false := by decide
  simp only [k0, Bool.false_eq_true, if_false] at hsp'
  cases ht : Combi.tokenise s with
  | none => simp only [ht] at hsp'; cases hsp'
  | some r =>
    simp only [ht] at hsp'
    have k1 : Combi.splitStr r.text ",".toList = some (splitC ',' r.text) := rfl
    simp only [k1] at hsp'
    cases hsp'
    obtain ⟨hseg, hexp⟩ := seg_of_tokenise hs ht
    obtain ⟨hpieces, hjoin⟩ := Seg.splitC isWord_comma hseg
    have hr' : runSlots o ((splitC ',' r.text).map fun e =>
        Slot.child elem ((fun e => applyMap r.map (strip e)) e)) = .ok items := by
      rw [List.map_map] at hr; exact hr
    obtain ⟨c1, c2⟩ := seq_core o ho elem (fun e => applyMap r.map (strip e)) (applyMap r.map)
      (splitC ',' r.text) items hr'
      (fun p hp => toks_of_noBlank (Seg.strip (hpieces p hp)).2)
    rw [combiStr_seq]
    refine ⟨_, rfl, ?_, c2⟩
    rw [c1, ← hjoin]
    exact toks_of_noBlank hexp

/-- the list classes print through `tostrList` -/
theorem list_tostr_match_tokens (o : Oracle Node) (ho : OracleTok o) (elem : ClassId) (s : Str)
    (items : List (Item Node))
    (hm : (combiPlan (specList elem) s).bind (runSlots o) = .ok items) (hs : SrmOK s) :
    ∃ t, tostrList o items = .ok t ∧ toks t = toks s ∧
      ((∀ n, Item.node n ∈ items → net (o.str n) = 0) → net t = 0) := by
  rw [← combiStr_seq o elem items]
  exact seq_tostr_match_tokens o ho elem s items hm hs

/-! ## CallBase / CALLBase -/

/-- the decidable hypothesis under which `CallBase.match` provably drops nothing: the TOKENISED
    line, like the line itself (`string.rstrip()[-1] == ")"` is tested by the code), ends with `)`.
    (`close_idx = line.rfind(")")` is computed on the tokenised line: what follows it is dropped.) -/
def CallEndOK (s : Str) : Prop :=
  ∀ r, Combi.tokenise s = some r → (rstrip r.text).getLast? = some ')'

instance (s : Str) : Decidable (CallEndOK s) :=
  match h : Combi.tokenise s with
  | none => isTrue (fun r hr => by rw [h] at hr; cases hr)
  | some r0 =>
    if h2 : (rstrip r0.text).getLast? = some ')' then
      isTrue (fun r hr => by rw [h] at hr; cases hr; exact h2)
    else isFalse (fun hh => h2 (hh r0 h))

/-- the slots of `CallBase.match` as a function of the two texts `lhs`, `rhs` after `repmap` -/
def callSlots (lhsA rhsA : Combi.Arg) (upperLhs requireRhs : Bool) (lhs1 rhs : Str) :
    Option (List Combi.Slot) :=
  let lhs := if upperLhs then upper lhs1 else lhs1
  let lhsSlot : Option Combi.Slot :=
    match lhsA with
    | .kw k => if k != lhs then Option.none else some (.str lhs)
    | .cls c => some (.child c lhs)
    | .bad => some .crash
  match lhsSlot with
  | Option.none => Option.none
  | some ls =>
    let rs : Combi.Slot :=
      if !rhs.isEmpty then
        match rhsA with
        | .kw k => if k != rhs then .fail else .str rhs
        | .cls c => .child c rhs
        | .bad => .crash
      else if requireRhs then .fail else .none
    some [ls, rs]

theorem call_text_shape {m : Map} {text pre post : Str} (hseg : Seg m text)
    (hcut : Combi.cutLast '(' text = some (pre, post))
    (hend : (rstrip text).getLast? = some ')') :
    ∃ p1, Combi.callRhsRaw pre post = p1 ∧ Seg m pre ∧ Seg m p1 ∧
      toks (applyMap m text) =
        toks (applyMap m pre) ++ (toks "(".toList ++ (toks (applyMap m p1) ++ toks ")".toList)) := by
  obtain ⟨htext, hno⟩ := Combi.cutLast_spec _ _ _ hcut
  obtain ⟨w, hw, hwb⟩ := rstrip_decomp text
  obtain ⟨X, hX⟩ := List.getLast?_eq_some_iff.mp hend
  have hnw : ∀ c : Char, isSpace c = false → c ∉ w := by
    intro c hc hm; rw [hwb c hm] at hc; cases hc
  have h1 : pre ++ '(' :: post = X ++ ')' :: w := by
    rw [← htext, hw, hX]; simp
  have hpost : ∃ p1, post = p1 ++ ')' :: w := by
    rcases List.append_eq_append_iff.mp h1 with ⟨a', _, h2⟩ | ⟨c', _, h2⟩
    · cases a' with
      | nil => simp at h2
      | cons x a'' =>
        simp only [List.cons_append, List.cons.injEq] at h2
        exact ⟨a'', h2.2⟩
    · exfalso
      have hm : '(' ∈ ')' :: w := by rw [h2]; simp
      rcases List.mem_cons.mp hm with e | e
      · exact absurd e (by decide)
      · exact hnw '(' (by decide) e
  obtain ⟨p1, rfl⟩ := hpost
  have hcl : Combi.cutLast ')' (p1 ++ ')' :: w) = some (p1, w) :=
    Combi.cutLast_append p1 w (hnw ')' (by decide))
  refine ⟨p1, by simp only [Combi.callRhsRaw, hcl], ?_⟩
  rw [htext] at hseg ⊢
  obtain ⟨sPre, sPost, e1⟩ := Seg.sep isWord_lparen hseg
  obtain ⟨sP1, _, e2⟩ := Seg.sep isWord_rparen sPost
  refine ⟨sPre, sP1, ?_⟩
  have a1 : ∀ X : Str, '(' :: X = "(".toList ++ X := fun _ => rfl
  have a2 : ∀ X : Str, ')' :: X = ")".toList ++ X := fun _ => rfl
  rw [e1, e2, applyMap_blanks m hwb, a1, a2]
  simp only [toks_append, toks_blanks hwb, List.append_nil]

theorem callSplit_shape {la ra : Combi.Arg} {u q : Bool} {s : Str} {cs : List Combi.Slot}
    (hs : SrmOK s) (hend : CallEndOK s) (h : Combi.callSplit la ra u q s = some cs) :
    ∃ lhs1 rhs, toks s = toks lhs1 ++ (toks "(".toList ++ (toks rhs ++ toks ")".toList)) ∧
      callSlots la ra u q lhs1 rhs = some cs := by
  unfold Combi.callSplit at h
  split at h
  · cases h
  cases ht : Combi.tokenise s with
  | none => simp only [ht] at h; cases h
  | some r =>
    simp only [ht] at h
    cases hc : Combi.cutLast '(' r.text with
    | none => simp only [hc] at h; cases h
    | some p =>
      obtain ⟨pre, post⟩ := p
      simp only [hc] at h
      split at h
      · cases h
      obtain ⟨hseg, hexp⟩ := seg_of_tokenise hs ht
      obtain ⟨p1, hraw, sPre, sP1, hT⟩ := call_text_shape hseg hc (hend r ht)
      rw [hraw] at h
      refine ⟨applyMap r.map (rstrip pre), applyMap r.map (strip p1), ?_, h⟩
      rw [← toks_of_noBlank hexp, hT, toks_of_noBlank (Seg.rstrip sPre).2,
        toks_of_noBlank (Seg.strip sP1).2]

/-- **CALLBase** (`KEYWORD(rhs)`), under `CallEndOK`.

    The natural statement

        theorem callkw_tostr_match_tokens … (hm : (combiPlan (.call (.kw k) (.cls c) u q) s).bind (runSlots o) = .ok items)
            (hs : SrmOK s) : ∃ t, combiStr o (.call (.kw k) (.cls c) u q) items = .ok t ∧ toks t = toks s ∧ …

    (without `hend`) is FALSE: `CallBase.match` tests `string.rstrip()[-1] == ")"` on the ORIGINAL
    string but computes `close_idx = line.rfind(")")` on the TOKENISED line.  When the final `)` of
    the string sits inside an unterminated character literal followed by a blank, the tokeniser hides
    it in a placeholder: text after the last visible `)` is DROPPED (`call_drops_text`), or — no
    visible `)` at all, `close_idx = -1` — the last character is cut and a `)` is INVENTED
    (`call_invents_paren`).  `CallEndOK s` (decidable) excludes exactly this. -/
theorem callkw_tostr_match_tokens_partial (o : Oracle Node) (ho : OracleTok o) (k : Str) (c : ClassId)
    (u q : Bool) (s : Str) (items : List (Item Node)) (hk : net k = 0)
    (hm : (combiPlan (.call (.kw k) (.cls c) u q) s).bind (runSlots o) = .ok items)
    (hs : SrmOK s) (hend : CallEndOK s) :
    ∃ t, combiStr o (.call (.kw k) (.cls c) u q) items = .ok t ∧ toks t = toks s ∧
      ((∀ n, Item.node n ∈ items → net (o.str n) = 0) → net t = 0) := by
  obtain ⟨cs, hsp, hr⟩ := combiPlan_bind_ok hm
  have hsp' : Combi.callSplit (.kw k) (.cls c) u q s = some cs := hsp
  obtain ⟨lhs1, rhs, hS, h2⟩ := callSplit_shape hs hend hsp'
  unfold callSlots at h2
  dsimp only at h2
  have hlt : toks (if u = true then upper lhs1 else lhs1) = toks lhs1 := by
    split
    · exact toks_upper _
    · rfl
  generalize (if u = true then upper lhs1 else lhs1) = lhs at h2 hlt
  split at h2
  · cases h2
  rename_i ls hls
  split at hls
  · cases hls
  rename_i hkeq
  have hkeq' : k = lhs := by simpa using hkeq
  subst hkeq'
  have hkt : toks k = toks lhs1 := hlt
  cases hls
  cases h2
  obtain ⟨i, j, rfl, hi, hj⟩ := runSlots_pair_ok hr
  have := runSlot_str_ok hi; subst this
  have a1 : ∀ X : Str, '(' :: X = "(".toList ++ X := fun _ => rfl
  split at hj
  · -- a right-hand side
    have hj' := toks_item_of_child ho hj
    obtain ⟨n, rfl, _⟩ := runSlot_child_ok hj
    refine ⟨k ++ '(' :: o.str n ++ [')'], rfl, ?_, ?_⟩
    · have : toks (o.str n) = toks rhs := hj'
      rw [hS, a1]
      simp only [toks_append, hkt, this, List.append_assoc]; rfl
    · intro hb
      rw [a1]
      simp only [net_append, hk, hb n (by simp), net_lp]; rfl
  · rename_i hemp
    have hrhs : rhs = [] := by simpa using hemp
    split at hj
    · exact absurd hj (runSlot_fail o _)
    have := runSlot_none_ok hj; subst this
    refine ⟨k ++ ['(', ')'], rfl, ?_, ?_⟩
    · rw [hS, hrhs]
      simp only [toks_append, hkt, toks_nil, List.nil_append]; rfl
    · intro _
      simp only [net_append, hk]; rfl

/-- **CallBase** (`lhs(rhs)`, both classes), under `CallEndOK` (see `callkw_…`) -/
theorem callcls_tostr_match_tokens_partial (o : Oracle Node) (ho : OracleTok o) (a b : ClassId)
    (u q : Bool) (s : Str) (items : List (Item Node))
    (hm : (combiPlan (.call (.cls a) (.cls b) u q) s).bind (runSlots o) = .ok items)
    (hs : SrmOK s) (hend : CallEndOK s) :
    ∃ t, combiStr o (.call (.cls a) (.cls b) u q) items = .ok t ∧ toks t = toks s ∧
      ((∀ n, Item.node n ∈ items → net (o.str n) = 0) → net t = 0) := by
  obtain ⟨cs, hsp, hr⟩ := combiPlan_bind_ok hm
  have hsp' : Combi.callSplit (.cls a) (.cls b) u q s = some cs := hsp
  obtain ⟨lhs1, rhs, hS, h2⟩ := callSplit_shape hs hend hsp'
  unfold callSlots at h2
  dsimp only at h2
  cases h2
  have hlt : toks (if u = true then upper lhs1 else lhs1) = toks lhs1 := by
    split
    · exact toks_upper _
    · rfl
  obtain ⟨i, j, rfl, hi, hj⟩ := runSlots_pair_ok hr
  have hi' := toks_item_of_child ho hi
  obtain ⟨n1, rfl, _⟩ := runSlot_child_ok hi
  have hi'' : toks (o.str n1) = toks lhs1 := by
    have : toks (o.str n1) = toks (if u = true then upper lhs1 else lhs1) := hi'
    rw [this, hlt]
  have a1 : ∀ X : Str, '(' :: X = "(".toList ++ X := fun _ => rfl
  split at hj
  · have hj' := toks_item_of_child ho hj
    obtain ⟨n, rfl, _⟩ := runSlot_child_ok hj
    refine ⟨o.str n1 ++ '(' :: o.str n ++ [')'], rfl, ?_, ?_⟩
    · have : toks (o.str n) = toks rhs := hj'
      rw [hS, a1]
      simp only [toks_append, hi'', this, List.append_assoc]; rfl
    · intro hb
      rw [a1]
      simp only [net_append, hb n1 (by simp), hb n (by simp), net_lp]; rfl
  · rename_i hemp
    have hrhs : rhs = [] := by simpa using hemp
    split at hj
    · exact absurd hj (runSlot_fail o _)
    have := runSlot_none_ok hj; subst this
    refine ⟨o.str n1 ++ ['(', ')'], rfl, ?_, ?_⟩
    · rw [hS, hrhs]
      simp only [toks_append, hi'', toks_nil, List.nil_append]; rfl
    · intro hb
      simp only [net_append, hb n1 (by simp)]; rfl

/-! ### the counter-examples to the statement without `CallEndOK` -/

/-- a toy oracle: nodes are texts, every class accepts every text as it is -/
def echoO : Oracle Str :=
  { call := fun _ t => .ok t, str := id, head := fun _ => none, rhsStr := id,
    heads := fun _ => [], isDataEdit := fun _ => false }

theorem echoO_tok : OracleTok echoO := by
  intro c t n h
  have : t = n := by simpa [echoO] using h
  subst this; rfl

/-- `Open_Stmt("OPEN(1)'a) ")` (an `SrmOK` line ending in `)` + blank, the `)` inside an
    unterminated literal): the tokenised line is `OPEN(1)'_F2PY_STRING_CONSTANT_1_ `, the match
    succeeds with the child text `1`, and `'a)` is DROPPED: printed `OPEN(1)` -/
theorem call_drops_text :
    SrmOK "OPEN(1)'a) ".toList ∧ ¬ CallEndOK "OPEN(1)'a) ".toList ∧
    (combiPlan specOpen "OPEN(1)'a) ".toList).bind (runSlots echoO)
      = .ok [.str "OPEN".toList, .node "1".toList] ∧
    combiStr echoO specOpen [.str "OPEN".toList, .node "1".toList] = .ok "OPEN(1)".toList ∧
    toks "OPEN(1)".toList ≠ toks "OPEN(1)'a) ".toList := by
  decide +kernel

/-- `Open_Stmt("OPEN('a) ")`: the tokenised line `OPEN('_F2PY_STRING_CONSTANT_1_ ` has no `)`,
    `close_idx = -1` cuts its last character (the blank), the child gets `'a)` and a closing
    parenthesis is INVENTED: printed `OPEN('a))` -/
theorem call_invents_paren :
    SrmOK "OPEN('a) ".toList ∧ ¬ CallEndOK "OPEN('a) ".toList ∧
    (combiPlan specOpen "OPEN('a) ".toList).bind (runSlots echoO)
      = .ok [.str "OPEN".toList, .node "'a)".toList] ∧
    combiStr echoO specOpen [.str "OPEN".toList, .node "'a)".toList] = .ok "OPEN('a))".toList ∧
    toks "OPEN('a))".toList ≠ toks "OPEN('a) ".toList := by
  decide +kernel

/-- the same for `CallBase` with two classes (`Allocation`): `a(1)'b) ` prints `a(1)` -/
theorem callcls_drops_text :
    SrmOK "a(1)'b) ".toList ∧
    (combiPlan specAllocation "a(1)'b) ".toList).bind (runSlots echoO)
      = .ok [.node "a".toList, .node "1".toList] ∧
    combiStr echoO specAllocation [.node "a".toList, .node "1".toList] = .ok "a(1)".toList ∧
    toks "a(1)".toList ≠ toks "a(1)'b) ".toList := by
  decide +kernel

/-! ## SeparatorBase -/

/-- **SeparatorBase** (`lhs : rhs`, both sides classes): cut at the FIRST `:` of the tokenised line;
    printed `a : b`, `a :`, `: b`, `:` -/
theorem sep_tostr_match_tokens (o : Oracle Node) (ho : OracleTok o) (a b : ClassId) (ql qr : Bool)
    (s : Str) (items : List (Item Node))
    (hm : (combiPlan (.sep (some a) (some b) ql qr) s).bind (runSlots o) = .ok items)
    (hs : SrmOK s) :
    ∃ t, combiStr o (.sep (some a) (some b) ql qr) items = .ok t ∧ toks t = toks s ∧
      ((∀ n, Item.node n ∈ items → net (o.str n) = 0) → net t = 0) := by
  obtain ⟨cs, hsp, hr⟩ := combiPlan_bind_ok hm
  have hsp' : Combi.sepSplit (some a) (some b) ql qr s = some cs := hsp
  unfold Combi.sepSplit at hsp'
  cases ht : Combi.tokenise s with
  | none => simp only [ht] at hsp'; cases hsp'
  | some r =>
    simp only [ht] at hsp'
    cases hc : Combi.cutFirst ':' r.text with
    | none => simp only [hc] at hsp'; cases hsp'
    | some p =>
      obtain ⟨l0, r0⟩ := p
      simp only [hc] at hsp'
      obtain ⟨htext, _⟩ := Combi.cutFirst_spec _ _ _ hc
      obtain ⟨hseg, hexp⟩ := seg_of_tokenise hs ht
      rw [htext] at hseg hexp
      obtain ⟨sL, sR, e⟩ := Seg.sep isWord_colon hseg
      have a1 : ∀ X : Str, ':' :: X = ":".toList ++ X := fun _ => rfl
      have hL : toks (applyMap r.map (rstrip l0)) = toks (applyMap r.map l0) :=
        toks_of_noBlank (Seg.rstrip sL).2
      have hR : toks (applyMap r.map (lstrip r0)) = toks (applyMap r.map r0) :=
        toks_of_noBlank (Seg.lstrip sR).2
      have hS : toks s = toks (applyMap r.map (rstrip l0)) ++
          (toks ":".toList ++ toks (applyMap r.map (lstrip r0))) := by
        rw [← toks_of_noBlank hexp, e, a1, hL, hR]
        simp only [toks_append]
      have k1 : toks " :".toList = toks ":".toList := by decide
      have k2 : toks " ".toList = [] := by decide
      have n1 : net " :".toList = 0 := by decide
      have n2 : net " ".toList = 0 := by decide
      have n3 : net ":".toList = 0 := by decide
      have b1 : ∀ X : Str, ' ' :: X = " ".toList ++ X := fun _ => rfl
      split at hsp'
      · cases hsp'
      rename_i ls hls
      cases hsp'
      obtain ⟨i, j, rfl, hi, hj⟩ := runSlots_pair_ok hr
      split at hls
      · -- a left-hand side
        cases hls
        have hi' := toks_item_of_child ho hi
        obtain ⟨n1', rfl, _⟩ := runSlot_child_ok hi
        have hi'' : toks (o.str n1') = toks (applyMap r.map (rstrip l0)) := hi'
        split at hj
        · have hj' := toks_item_of_child ho hj
          obtain ⟨n2', rfl, _⟩ := runSlot_child_ok hj
          have hj'' : toks (o.str n2') = toks (applyMap r.map (lstrip r0)) := hj'
          refine ⟨(o.str n1' ++ " :".toList) ++ ' ' :: o.str n2', rfl, ?_, ?_⟩
          · rw [hS, b1]
            simp only [toks_append, hi'', hj'', k1, k2, List.nil_append, List.append_assoc]
          · intro hb
            rw [b1]
            simp only [net_append, hb n1' (by simp), hb n2' (by simp), n1, n2]; rfl
        · rename_i hemp
          have hr0 : lstrip r0 = [] := by simpa using hemp
          split at hj
          · exact absurd hj (runSlot_fail o _)
          have := runSlot_none_ok hj; subst this
          refine ⟨(o.str n1' ++ " :".toList) ++ [], rfl, ?_, ?_⟩
          · rw [hS, hr0, applyMap_empty]
            simp only [toks_append, hi'', k1, toks_nil, List.append_nil]
          · intro hb
            simp only [net_append, hb n1' (by simp), n1]; rfl
      · rename_i hemp
        have hl0 : rstrip l0 = [] := by simpa using hemp
        split at hls
        · cases hls
        cases hls
        have := runSlot_none_ok hi; subst this
        split at hj
        · have hj' := toks_item_of_child ho hj
          obtain ⟨n2', rfl, _⟩ := runSlot_child_ok hj
          have hj'' : toks (o.str n2') = toks (applyMap r.map (lstrip r0)) := hj'
          refine ⟨":".toList ++ ' ' :: o.str n2', rfl, ?_, ?_⟩
          · rw [hS, hl0, applyMap_empty, b1]
            simp only [toks_append, hj'', k2, toks_nil, List.nil_append]
          · intro hb
            rw [b1]
            simp only [net_append, hb n2' (by simp), n2, n3]; rfl
        · rename_i hemp2
          have hr0 : lstrip r0 = [] := by simpa using hemp2
          split at hj
          · exact absurd hj (runSlot_fail o _)
          have := runSlot_none_ok hj; subst this
          refine ⟨":".toList ++ [], rfl, ?_, fun _ => by decide⟩
          rw [hS, hl0, hr0, applyMap_empty]
          simp only [toks_nil, List.nil_append, List.append_nil]

/-! ## the modelled classes, by instantiation -/

/-- **Open_Stmt** (F2003: `CALLBase.match("OPEN", Connect_Spec_List, string, require_rhs=True)`) -/
theorem open2003_tostr_match_tokens_partial (o : Oracle Node) (ho : OracleTok o) (s : Str)
    (items : List (Item Node))
    (hm : (combiPlan specOpen s).bind (runSlots o) = .ok items) (hs : SrmOK s)
    (hend : CallEndOK s) :
    ∃ t, combiStr o specOpen items = .ok t ∧ toks t = toks s ∧
      ((∀ n, Item.node n ∈ items → net (o.str n) = 0) → net t = 0) :=
  callkw_tostr_match_tokens_partial o ho _ _ _ _ s items (by decide) hm hs hend

/-- the F2008 `Open_Stmt.match` returns the F2003 items unchanged when the constraints hold -/
theorem matchOpen_f2008_ok {o : Oracle Node} {s : Str} {items : List (Item Node)}
    (hm : matchOpen .f2008 o s = .ok items) :
    (combiPlan specOpen s).bind (runSlots o) = .ok items := by
  unfold matchOpen at hm
  obtain ⟨its, h1, h2⟩ := Res.bind_eq_ok hm
  split at h2
  · split at h2
    · cases h2; exact h1
    · cases h2
  · cases h2

/-- **Open_Stmt** (F2008) -/
theorem open2008_tostr_match_tokens_partial (o : Oracle Node) (ho : OracleTok o) (s : Str)
    (items : List (Item Node)) (hm : matchOpen .f2008 o s = .ok items) (hs : SrmOK s)
    (hend : CallEndOK s) :
    ∃ t, combiStr o specOpen items = .ok t ∧ toks t = toks s ∧
      ((∀ n, Item.node n ∈ items → net (o.str n) = 0) → net t = 0) :=
  open2003_tostr_match_tokens_partial o ho s items (matchOpen_f2008_ok hm) hs hend

/-- **Close_Stmt** -/
theorem close_tostr_match_tokens_partial (o : Oracle Node) (ho : OracleTok o) (s : Str)
    (items : List (Item Node))
    (hm : (combiPlan specClose s).bind (runSlots o) = .ok items) (hs : SrmOK s)
    (hend : CallEndOK s) :
    ∃ t, combiStr o specClose items = .ok t ∧ toks t = toks s ∧
      ((∀ n, Item.node n ∈ items → net (o.str n) = 0) → net t = 0) :=
  callkw_tostr_match_tokens_partial o ho _ _ _ _ s items (by decide) hm hs hend

/-- **Nullify_Stmt** -/
theorem nullify_tostr_match_tokens_partial (o : Oracle Node) (ho : OracleTok o) (s : Str)
    (items : List (Item Node))
    (hm : (combiPlan specNullify s).bind (runSlots o) = .ok items) (hs : SrmOK s)
    (hend : CallEndOK s) :
    ∃ t, combiStr o specNullify items = .ok t ∧ toks t = toks s ∧
      ((∀ n, Item.node n ∈ items → net (o.str n) = 0) → net t = 0) :=
  callkw_tostr_match_tokens_partial o ho _ _ _ _ s items (by decide) hm hs hend

/-- **Allocation** (`CallBase.match(Allocate_Object, Allocate_Shape_Spec_List, string, require_rhs=True)`) -/
theorem allocation_tostr_match_tokens_partial (o : Oracle Node) (ho : OracleTok o) (s : Str)
    (items : List (Item Node))
    (hm : (combiPlan specAllocation s).bind (runSlots o) = .ok items) (hs : SrmOK s)
    (hend : CallEndOK s) :
    ∃ t, combiStr o specAllocation items = .ok t ∧ toks t = toks s ∧
      ((∀ n, Item.node n ∈ items → net (o.str n) = 0) → net t = 0) :=
  callcls_tostr_match_tokens_partial o ho _ _ _ _ s items hm hs hend

/-- **Format_Stmt** -/
theorem formatStmt_tostr_match_tokens (o : Oracle Node) (ho : OracleTok o) (s : Str)
    (items : List (Item Node))
    (hm : (combiPlan specFormatStmt s).bind (runSlots o) = .ok items) :
    ∃ t, combiStr o specFormatStmt items = .ok t ∧ toks t = toks s ∧
      ((∀ n, Item.node n ∈ items → net (o.str n) = 0) → net t = 0) :=
  word_tostr_match_tokens o ho _ _ _ s items (by decide) hm

/-- **Nonlabel_Do_Stmt** -/
theorem nonlabelDo_tostr_match_tokens (o : Oracle Node) (ho : OracleTok o) (s : Str)
    (items : List (Item Node))
    (hm : (combiPlan specNonlabelDo s).bind (runSlots o) = .ok items) :
    ∃ t, combiStr o specNonlabelDo items = .ok t ∧ toks t = toks s ∧
      ((∀ n, Item.node n ∈ items → net (o.str n) = 0) → net t = 0) :=
  word_tostr_match_tokens o ho _ _ _ s items (by decide) hm

/-- **Stop_Stmt** -/
theorem stop_tostr_match_tokens (o : Oracle Node) (ho : OracleTok o) (s : Str)
    (items : List (Item Node))
    (hm : (combiPlan specStop s).bind (runSlots o) = .ok items) :
    ∃ t, combiStr o specStop items = .ok t ∧ toks t = toks s ∧
      ((∀ n, Item.node n ∈ items → net (o.str n) = 0) → net t = 0) :=
  word_tostr_match_tokens o ho _ _ _ s items (by decide) hm

/-- **Error_Stop_Stmt (keyword `ERROR STOP`, blank inside)** -/
theorem errorStop_tostr_match_tokens (o : Oracle Node) (ho : OracleTok o) (s : Str)
    (items : List (Item Node))
    (hm : (combiPlan specErrorStop s).bind (runSlots o) = .ok items) :
    ∃ t, combiStr o specErrorStop items = .ok t ∧ toks t = toks s ∧
      ((∀ n, Item.node n ∈ items → net (o.str n) = 0) → net t = 0) :=
  word_tostr_match_tokens o ho _ _ _ s items (by decide) hm

/-- **Forall_Construct_Stmt** -/
theorem forallConstruct_tostr_match_tokens (o : Oracle Node) (ho : OracleTok o) (s : Str)
    (items : List (Item Node))
    (hm : (combiPlan specForallConstruct s).bind (runSlots o) = .ok items) :
    ∃ t, combiStr o specForallConstruct items = .ok t ∧ toks t = toks s ∧
      ((∀ n, Item.node n ∈ items → net (o.str n) = 0) → net t = 0) :=
  word_tostr_match_tokens o ho _ _ _ s items (by decide) hm

/-- **Format_Specification** -/
theorem formatSpecification_tostr_match_tokens (o : Oracle Node) (ho : OracleTok o) (s : Str)
    (items : List (Item Node))
    (hm : (combiPlan specFormatSpecification s).bind (runSlots o) = .ok items) :
    ∃ t, combiStr o specFormatSpecification items = .ok t ∧ toks t = toks s ∧
      ((∀ n, Item.node n ∈ items → net (o.str n) = 0) → net t = 0) :=
  bracket_tostr_match_tokens o ho _ _ s items hm

/-- **Case_Value_Range** -/
theorem caseValueRange_tostr_match_tokens (o : Oracle Node) (ho : OracleTok o) (s : Str)
    (items : List (Item Node))
    (hm : (combiPlan specCaseValueRange s).bind (runSlots o) = .ok items) (hs : SrmOK s) :
    ∃ t, combiStr o specCaseValueRange items = .ok t ∧ toks t = toks s ∧
      ((∀ n, Item.node n ∈ items → net (o.str n) = 0) → net t = 0) :=
  sep_tostr_match_tokens o ho _ _ _ _ s items hm hs

/-- **Actual_Arg_Spec** -/
theorem actualArgSpec_tostr_match_tokens (o : Oracle Node) (ho : OracleTok o) (s : Str)
    (items : List (Item Node))
    (hm : (combiPlan specActualArgSpec s).bind (runSlots o) = .ok items) :
    ∃ t, combiStr o specActualArgSpec items = .ok t ∧ toks t = toks s ∧
      ((∀ n, Item.node n ∈ items → net (o.str n) = 0) → net t = 0) :=
  kvcls_tostr_match_tokens o ho _ _ _ _ s items hm

/-- **Actual_Arg_Spec_List** -/
theorem actualArgSpecList_tostr_match_tokens (o : Oracle Node) (ho : OracleTok o) (s : Str)
    (items : List (Item Node))
    (hm : (combiPlan (specList C.Actual_Arg_Spec) s).bind (runSlots o) = .ok items) (hs : SrmOK s) :
    ∃ t, tostrList o items = .ok t ∧ toks t = toks s ∧
      ((∀ n, Item.node n ∈ items → net (o.str n) = 0) → net t = 0) :=
  list_tostr_match_tokens o ho _ s items hm hs

/-- **Connect_Spec_List** -/
theorem connectSpecList_tostr_match_tokens (o : Oracle Node) (ho : OracleTok o) (s : Str)
    (items : List (Item Node))
    (hm : (combiPlan (specList C.Connect_Spec) s).bind (runSlots o) = .ok items) (hs : SrmOK s) :
    ∃ t, tostrList o items = .ok t ∧ toks t = toks s ∧
      ((∀ n, Item.node n ∈ items → net (o.str n) = 0) → net t = 0) :=
  list_tostr_match_tokens o ho _ s items hm hs

/-- **Close_Spec_List** -/
theorem closeSpecList_tostr_match_tokens (o : Oracle Node) (ho : OracleTok o) (s : Str)
    (items : List (Item Node))
    (hm : (combiPlan (specList C.Close_Spec) s).bind (runSlots o) = .ok items) (hs : SrmOK s) :
    ∃ t, tostrList o items = .ok t ∧ toks t = toks s ∧
      ((∀ n, Item.node n ∈ items → net (o.str n) = 0) → net t = 0) :=
  list_tostr_match_tokens o ho _ s items hm hs

/-- **Inquire_Spec_List** -/
theorem inquireSpecList_tostr_match_tokens (o : Oracle Node) (ho : OracleTok o) (s : Str)
    (items : List (Item Node))
    (hm : (combiPlan (specList C.Inquire_Spec) s).bind (runSlots o) = .ok items) (hs : SrmOK s) :
    ∃ t, tostrList o items = .ok t ∧ toks t = toks s ∧
      ((∀ n, Item.node n ∈ items → net (o.str n) = 0) → net t = 0) :=
  list_tostr_match_tokens o ho _ s items hm hs

/-- **Alloc_Opt_List** -/
theorem allocOptList_tostr_match_tokens (o : Oracle Node) (ho : OracleTok o) (s : Str)
    (items : List (Item Node))
    (hm : (combiPlan (specList C.Alloc_Opt) s).bind (runSlots o) = .ok items) (hs : SrmOK s) :
    ∃ t, tostrList o items = .ok t ∧ toks t = toks s ∧
      ((∀ n, Item.node n ∈ items → net (o.str n) = 0) → net t = 0) :=
  list_tostr_match_tokens o ho _ s items hm hs

/-- **Dealloc_Opt_List** -/
theorem deallocOptList_tostr_match_tokens (o : Oracle Node) (ho : OracleTok o) (s : Str)
    (items : List (Item Node))
    (hm : (combiPlan (specList C.Dealloc_Opt) s).bind (runSlots o) = .ok items) (hs : SrmOK s) :
    ∃ t, tostrList o items = .ok t ∧ toks t = toks s ∧
      ((∀ n, Item.node n ∈ items → net (o.str n) = 0) → net t = 0) :=
  list_tostr_match_tokens o ho _ s items hm hs

/-- **Allocation_List** -/
theorem allocationList_tostr_match_tokens (o : Oracle Node) (ho : OracleTok o) (s : Str)
    (items : List (Item Node))
    (hm : (combiPlan (specList C.Allocation) s).bind (runSlots o) = .ok items) (hs : SrmOK s) :
    ∃ t, tostrList o items = .ok t ∧ toks t = toks s ∧
      ((∀ n, Item.node n ∈ items → net (o.str n) = 0) → net t = 0) :=
  list_tostr_match_tokens o ho _ s items hm hs

/-- **Case_Value_Range_List** -/
theorem caseValueRangeList_tostr_match_tokens (o : Oracle Node) (ho : OracleTok o) (s : Str)
    (items : List (Item Node))
    (hm : (combiPlan (specList C.Case_Value_Range) s).bind (runSlots o) = .ok items) (hs : SrmOK s) :
    ∃ t, tostrList o items = .ok t ∧ toks t = toks s ∧
      ((∀ n, Item.node n ∈ items → net (o.str n) = 0) → net t = 0) :=
  list_tostr_match_tokens o ho _ s items hm hs

/-- **Forall_Triplet_Spec_List** -/
theorem forallTripletSpecList_tostr_match_tokens (o : Oracle Node) (ho : OracleTok o) (s : Str)
    (items : List (Item Node))
    (hm : (combiPlan (specList C.Forall_Triplet_Spec) s).bind (runSlots o) = .ok items) (hs : SrmOK s) :
    ∃ t, tostrList o items = .ok t ∧ toks t = toks s ∧
      ((∀ n, Item.node n ∈ items → net (o.str n) = 0) → net t = 0) :=
  list_tostr_match_tokens o ho _ s items hm hs

end Fp.IoStmt

#print axioms Fp.IoStmt.word_tostr_match_tokens
#print axioms Fp.IoStmt.bracket_tostr_match_tokens
#print axioms Fp.IoStmt.kvcls_tostr_match_tokens
#print axioms Fp.IoStmt.seq_tostr_match_tokens
#print axioms Fp.IoStmt.list_tostr_match_tokens
#print axioms Fp.IoStmt.callkw_tostr_match_tokens_partial
#print axioms Fp.IoStmt.callcls_tostr_match_tokens_partial
#print axioms Fp.IoStmt.sep_tostr_match_tokens
#print axioms Fp.IoStmt.open2003_tostr_match_tokens_partial
#print axioms Fp.IoStmt.open2008_tostr_match_tokens_partial
#print axioms Fp.IoStmt.close_tostr_match_tokens_partial
#print axioms Fp.IoStmt.nullify_tostr_match_tokens_partial
#print axioms Fp.IoStmt.allocation_tostr_match_tokens_partial
#print axioms Fp.IoStmt.formatStmt_tostr_match_tokens
#print axioms Fp.IoStmt.nonlabelDo_tostr_match_tokens
#print axioms Fp.IoStmt.stop_tostr_match_tokens
#print axioms Fp.IoStmt.errorStop_tostr_match_tokens
#print axioms Fp.IoStmt.forallConstruct_tostr_match_tokens
#print axioms Fp.IoStmt.formatSpecification_tostr_match_tokens
#print axioms Fp.IoStmt.caseValueRange_tostr_match_tokens
#print axioms Fp.IoStmt.actualArgSpec_tostr_match_tokens
#print axioms Fp.IoStmt.actualArgSpecList_tostr_match_tokens
#print axioms Fp.IoStmt.connectSpecList_tostr_match_tokens
#print axioms Fp.IoStmt.closeSpecList_tostr_match_tokens
#print axioms Fp.IoStmt.inquireSpecList_tostr_match_tokens
#print axioms Fp.IoStmt.allocOptList_tostr_match_tokens
#print axioms Fp.IoStmt.deallocOptList_tostr_match_tokens
#print axioms Fp.IoStmt.allocationList_tostr_match_tokens
#print axioms Fp.IoStmt.caseValueRangeList_tostr_match_tokens
#print axioms Fp.IoStmt.forallTripletSpecList_tostr_match_tokens
#print axioms Fp.IoStmt.call_drops_text
#print axioms Fp.IoStmt.call_invents_paren
#print axioms Fp.IoStmt.callcls_drops_text
