import FparserModel.Tree3
import FparserModel.Proofs.TreeShape
/-!
# The construction discipline implies a well-formed tree (helper lemmas, C10)
-/
namespace Fp.Tree3
open Fp.Tree

theorem par_eq (a : Arena) (n : Nat) : par a n = parentOf a n := rfl

theorem kids_of_get {a : Arena} {c : Nat} {nd : Node} (h : a[c]? = some nd) :
    kids a c = spList nd.children := by
  simp [kids, h]

theorem kids_lt_length {a : Arena} {c n : Nat} (h : n ∈ kids a c) : c < a.length := by
  by_contra hc
  have : a[c]? = none := by simp; omega
  simp [kids, this] at h

/-! ## `par` / `kids` after one event -/

theorem kids_setParent (a : Arena) (m : Nat) (p : Option Nat) (n : Nat) :
    kids (setParent a m p) n = kids a n := by
  unfold kids setParent
  rw [List.getElem?_modify]
  by_cases h : m = n
  · subst h; cases a[m]? <;> simp
  · cases a[n]? <;> simp [h]

theorem kids_foldl_setParent (ms : List Nat) (p : Option Nat) (a : Arena) (n : Nat) :
    kids (ms.foldl (fun a n => setParent a n p) a) n = kids a n := by
  induction ms generalizing a with
  | nil => rfl
  | cons m ms ih => simp [List.foldl, ih, kids_setParent]

theorem par_alloc (a : Arena) (cls n : Nat) : par (a ++ [({ cls := cls } : Node)]) n = par a n := by
  unfold par
  by_cases hl : n < a.length
  · simp [List.getElem?_append_left hl]
  · have h1 : a[n]? = none := by simp; omega
    by_cases h2 : n = a.length
    · subst h2; simp
    · have : (a ++ [({ cls := cls } : Node)])[n]? = none := by simp; omega
      simp [h1, this]

theorem kids_alloc (a : Arena) (cls n : Nat) : kids (a ++ [({ cls := cls } : Node)]) n = kids a n := by
  unfold kids
  by_cases hl : n < a.length
  · simp [List.getElem?_append_left hl]
  · have h1 : a[n]? = none := by simp; omega
    by_cases h2 : n = a.length
    · subst h2; simp [spList]
    · have : (a ++ [({ cls := cls } : Node)])[n]? = none := by simp; omega
      simp [h1, this]

theorem par_children (a : Arena) (c : Nat) (items : List Item) (n : Nat) :
    par (a.modify c (fun nd => { nd with children := items })) n = par a n := by
  unfold par
  rw [List.getElem?_modify]
  cases a[n]? <;> simp
  split <;> rfl

theorem kids_children (a : Arena) (c : Nat) (items : List Item) (n : Nat) :
    kids (a.modify c (fun nd => { nd with children := items })) n
      = if c = n ∧ n < a.length then spList items else kids a n := by
  unfold kids
  rw [List.getElem?_modify]
  by_cases h : c = n
  · subst h
    by_cases hl : c < a.length
    · simp [hl, List.getElem?_eq_getElem hl]
    · have : a[c]? = none := by simp; omega
      simp [hl, this]
  · cases a[n]? <;> simp [h]

/-! ## ancestors -/

theorem anc_head (a : Arena) (f n c : Nat) (hf : 0 < f) (h : par a n = some c) :
    c ∈ ancestors a f n := by
  cases f with
  | zero => omega
  | succ f => simp [ancestors, h]

theorem anc_closed (a : Arena) (hup : ∀ x c, par a x = some c → x < c ∧ c < a.length) :
    ∀ f n, a.length ≤ f + n → ∀ m ∈ ancestors a f n, ∀ c, par a m = some c → c ∈ ancestors a f n := by
  intro f
  induction f with
  | zero => intro n _ m hm; simp [ancestors] at hm
  | succ f ih =>
    intro n hlen m hm c hc
    unfold ancestors at hm ⊢
    cases hp : par a n with
    | none => simp [hp] at hm
    | some p =>
      simp only [hp, List.mem_cons] at hm ⊢
      have hnp := hup n p hp
      right
      rcases hm with rfl | hm
      · have hmc := hup m c hc
        exact anc_head a f m c (by omega) hc
      · exact ih p (by omega) m hm c hc

/-! ## the invariant -/

structure Inv (s : BuState) : Prop where
  /-- parents are younger objects -/
  up : ∀ n c, par s.a n = some c → n < c ∧ c < s.a.length
  /-- a live container owns everything it lists -/
  own : ∀ c, c ∉ s.dead → ∀ n ∈ kids s.a c, par s.a n = some c
  /-- death propagates upwards -/
  deadUp : ∀ n, n ∈ s.dead → ∀ c, par s.a n = some c → c ∈ s.dead
  /-- a live container lists distinct, older objects -/
  shape : ∀ c, c ∉ s.dead → (kids s.a c).Nodup ∧ ∀ n ∈ kids s.a c, n < c

theorem inv_init : Inv {} := by
  refine ⟨?_, ?_, ?_, ?_⟩ <;> simp [par, kids]

theorem inv_step (s : BuState) (ev : Ev) (inv : Inv s) (hok : buOk s ev = true) : Inv (buStep s ev) := by
  obtain ⟨up, own, deadUp, shape⟩ := inv
  cases ev with
  | alloc cls =>
    refine ⟨?_, ?_, ?_, ?_⟩
    · intro n c h
      simp only [buStep, step, par_alloc] at h
      have := up n c h
      simp only [buStep, step, List.length_append, List.length_singleton]
      omega
    · intro c hc n hn
      simp only [buStep, step, par_alloc, kids_alloc] at hc hn ⊢
      exact own c hc n hn
    · intro n hn c h
      simp only [buStep, step, par_alloc] at hn h ⊢
      exact deadUp n hn c h
    · intro c hc
      simp only [buStep, step, kids_alloc] at hc ⊢
      exact shape c hc
  | attach p items =>
    simp only [buOk, Bool.and_eq_true, decide_eq_true_eq, List.all_eq_true, List.isEmpty_iff,
      Option.isNone_iff_eq_none, Bool.not_eq_true', List.contains_eq_mem, decide_eq_false_iff_not] at hok
    obtain ⟨⟨⟨⟨⟨hp, hkp⟩, hpp⟩, hpd⟩, hnd⟩, hall⟩ := hok
    have hpar : ∀ n, par (buStep s (.attach p items)).a n
        = if n ∈ spList items then some p else par s.a n := by
      intro n
      simp only [buStep, step, par_eq, parentOf_foldl_setParent]
      by_cases hn : n ∈ spList items
      · have := (hall n hn).1
        simp [hn]; omega
      · simp [hn]
    have hkids : ∀ n, kids (buStep s (.attach p items)).a n = kids s.a n := by
      intro n; simp only [buStep, step, kids_foldl_setParent]
    have hlen : (buStep s (.attach p items)).a.length = s.a.length := by
      simp only [buStep, step, length_foldl_setParent]
    have hdead : (buStep s (.attach p items)).dead = s.dead := rfl
    refine ⟨?_, ?_, ?_, ?_⟩
    · intro n c h
      rw [hpar] at h
      rw [hlen]
      by_cases hn : n ∈ spList items
      · simp only [hn, if_true, Option.some.injEq] at h
        subst h
        exact ⟨(hall n hn).1, hp⟩
      · simp only [hn, if_false] at h
        exact up n c h
    · intro c hc n hn
      rw [hdead] at hc
      rw [hkids] at hn
      rw [hpar]
      have hold := own c hc n hn
      by_cases hL : n ∈ spList items
      · exfalso
        have hfree := (hall n hL).2
        simp only [freeNode, hold, Bool.and_eq_true, Bool.not_eq_true', List.contains_eq_mem,
          decide_eq_false_iff_not] at hfree
        exact hfree.2 hn
      · simp [hL, hold]
    · intro n hn c h
      rw [hdead] at hn ⊢
      rw [hpar] at h
      by_cases hL : n ∈ spList items
      · exfalso
        have hfree := (hall n hL).2
        simp only [freeNode, Bool.and_eq_true, Bool.not_eq_true', List.contains_eq_mem,
          decide_eq_false_iff_not] at hfree
        exact hfree.1 hn
      · simp only [hL, if_false] at h
        exact deadUp n hn c h
    · intro c hc
      rw [hdead] at hc
      rw [hkids]
      exact shape c hc
  | reset n0 =>
    simp only [buOk, decide_eq_true_eq] at hok
    have hpar : ∀ n, par (buStep s (.reset n0)).a n = if n0 = n then none else par s.a n := by
      intro n
      simp only [buStep, step, par_eq, parentOf_setParent]
      by_cases h : n0 = n
      · subst h; simp [hok]
      · simp [h]
    have hkids : ∀ n, kids (buStep s (.reset n0)).a n = kids s.a n := by
      intro n; simp only [buStep, step, kids_setParent]
    have hlen : (buStep s (.reset n0)).a.length = s.a.length := by
      simp only [buStep, step, length_setParent]
    have hsub : ∀ x, x ∈ s.dead → x ∈ (buStep s (.reset n0)).dead := by
      intro x hx
      simp only [buStep]
      cases hp : par s.a n0 with
      | none => exact hx
      | some c =>
        simp only []
        split
        · simp [hx]
        · exact hx
    refine ⟨?_, ?_, ?_, ?_⟩
    · intro n c h
      rw [hpar] at h
      rw [hlen]
      by_cases hn : n0 = n
      · simp [hn] at h
      · simp only [hn, if_false] at h
        exact up n c h
    · intro c hc n hn
      rw [hkids] at hn
      have hcd : c ∉ s.dead := fun h => hc (hsub c h)
      have hold := own c hcd n hn
      rw [hpar]
      by_cases h0 : n0 = n
      · exfalso
        subst h0
        apply hc
        simp only [buStep, hold]
        simp [hn]
      · simp [h0, hold]
    · intro n hn c h
      rw [hpar] at h
      by_cases h0 : n0 = n
      · simp [h0] at h
      · simp only [h0, if_false] at h
        simp only [buStep] at hn ⊢
        cases hp : par s.a n0 with
        | none =>
          simp only [hp] at hn ⊢
          exact deadUp n hn c h
        | some c0 =>
          simp only [hp] at hn ⊢
          by_cases hk : (kids s.a c0).contains n0 = true
          · simp only [hk, if_true, List.mem_cons, List.mem_append] at hn ⊢
            have hc0 := up n0 c0 hp
            rcases hn with rfl | hn | hn
            · right; left
              exact anc_head s.a s.a.length n c (by omega) h
            · right; left
              exact anc_closed s.a up s.a.length c0 (by omega) n hn c h
            · right; right
              exact deadUp n hn c h
          · simp only [hk] at hn ⊢
            exact deadUp n hn c h
    · intro c hc
      rw [hkids]
      exact shape c (fun h => hc (hsub c h))
  | children c0 items =>
    simp only [buOk, Bool.and_eq_true, Bool.or_eq_true, decide_eq_true_eq, List.all_eq_true,
      List.contains_eq_mem, beq_iff_eq] at hok
    obtain ⟨hc0, hchk⟩ := hok
    have hpar : ∀ n, par (buStep s (.children c0 items)).a n = par s.a n := by
      intro n; simp only [buStep, step, par_children]
    have hkids : ∀ n, kids (buStep s (.children c0 items)).a n
        = if c0 = n then spList items else kids s.a n := by
      intro n
      simp only [buStep, step, kids_children]
      by_cases h : c0 = n
      · subst h; simp [hc0]
      · simp [h]
    have hlen : (buStep s (.children c0 items)).a.length = s.a.length := by
      simp only [buStep, step, List.length_modify]
    have hdead : (buStep s (.children c0 items)).dead = s.dead := rfl
    refine ⟨?_, ?_, ?_, ?_⟩
    · intro n c h
      rw [hpar] at h; rw [hlen]; exact up n c h
    · intro c hc n hn
      rw [hdead] at hc
      rw [hkids] at hn
      rw [hpar]
      by_cases h : c0 = c
      · subst h
        simp only [if_true] at hn
        rcases hchk with hd | hchk
        · exact absurd (by simpa using hd) hc
        · exact (hchk.2 n hn).2
      · simp only [h, if_false] at hn
        exact own c hc n hn
    · intro n hn c h
      rw [hdead] at hn ⊢
      rw [hpar] at h
      exact deadUp n hn c h
    · intro c hc
      rw [hdead] at hc
      rw [hkids]
      by_cases h : c0 = c
      · subst h
        simp only [if_true]
        rcases hchk with hd | hchk
        · exact absurd (by simpa using hd) hc
        · exact ⟨hchk.1, fun n hn => (hchk.2 n hn).1⟩
      · simp only [h, if_false]
        exact shape c hc

theorem buRun_inv : ∀ (evs : List Ev) (s s' : BuState), Inv s → buRun s evs = some s' →
    Inv s' ∧ s'.a = run s.a evs := by
  intro evs
  induction evs with
  | nil =>
    intro s s' inv h
    simp only [buRun, Option.some.injEq] at h
    subst h
    exact ⟨inv, rfl⟩
  | cons ev rest ih =>
    intro s s' inv h
    simp only [buRun] at h
    by_cases hok : buOk s ev = true
    · simp only [hok, if_true] at h
      obtain ⟨i', ha⟩ := ih (buStep s ev) s' (inv_step s ev inv hok) h
      exact ⟨i', by rw [ha]; rfl⟩
    · simp [hok] at h

/-! ## consequences for the final tree -/

theorem mapO_total {α β} (f : α → Option β) : ∀ xs : List α, (∀ x ∈ xs, ∃ t, f x = some t) →
    ∃ ts, mapO f xs = some ts := by
  intro xs
  induction xs with
  | nil => intro _; exact ⟨[], rfl⟩
  | cons x xs ih =>
    intro h
    obtain ⟨t, ht⟩ := h x (by simp)
    obtain ⟨ts, hts⟩ := ih (fun y hy => h y (by simp [hy]))
    exact ⟨t :: ts, by simp [mapO, ht, hts]⟩

section final
variable {s : BuState} (inv : Inv s) {root : Nat} (hr : root < s.a.length)
  (hrp : par s.a root = none) (hrd : root ∉ s.dead)
include inv hr hrp hrd

theorem reach_live : ∀ n, Reach s.a root n → n ∉ s.dead ∧ n ≤ root := by
  intro n h
  induction h with
  | refl => exact ⟨hrd, Nat.le_refl _⟩
  | step c n nd _ hc hn ih =>
    have hk : n ∈ kids s.a c := by rw [kids_of_get hc]; exact hn
    have hp := inv.own c ih.1 n hk
    refine ⟨fun hd => ih.1 (inv.deadUp n hd c hp), ?_⟩
    have := (inv.shape c ih.1).2 n hk
    omega

theorem treeWF : TreeWF s.a root := by
  refine ⟨hrp, ?_, ?_⟩
  · intro c nd n hc hnd hn
    have hl := (reach_live inv hr hrp hrd c hc).1
    exact inv.own c hl n (by rw [kids_of_get hnd]; exact hn)
  · intro c nd hc hnd
    have hl := (reach_live inv hr hrp hrd c hc).1
    have := (inv.shape c hl).1
    rwa [kids_of_get hnd] at this

theorem abs_exists : ∀ h c, c < h → Reach s.a root c → ∃ t, absNode s.a h c = some t := by
  intro h
  induction h with
  | zero => intro c hc; omega
  | succ h ih =>
    intro c hch hc
    obtain ⟨hl, hle⟩ := reach_live inv hr hrp hrd c hc
    have hca : c < s.a.length := by omega
    have hget : s.a[c]? = some s.a[c] := List.getElem?_eq_getElem hca
    have hk := kids_of_get hget
    obtain ⟨ts, hts⟩ := mapO_total (absNode s.a h) (spList s.a[c].children) (fun k hkm => by
      have hkk : k ∈ kids s.a c := by rw [hk]; exact hkm
      have hlt := (inv.shape c hl).2 k hkk
      exact ih k (by omega) (.step c k _ hc hget hkm))
    exact ⟨.mk c ts, by unfold absNode; simp [hget, hts]⟩

theorem up_chain : ∀ n, Reach s.a root n → ∃ k, UpChain s.a n root k ∧ k + n ≤ root := by
  intro n h
  induction h with
  | refl => exact ⟨0, .root root hrp, by omega⟩
  | step c n nd hc hnd hn ih =>
    obtain ⟨k, hch, hk⟩ := ih
    have hl := (reach_live inv hr hrp hrd c hc).1
    have hkk : n ∈ kids s.a c := by rw [kids_of_get hnd]; exact hn
    have hp := inv.own c hl n hkk
    have hlt := (inv.shape c hl).2 n hkk
    exact ⟨k + 1, .up n c root k hp hch, by omega⟩

end final

/-- unfolding of `BottomUp` into the invariant -/
theorem bottomUp_inv {evs : List Ev} {root : Nat} (h : BottomUp evs root) :
    ∃ s, Inv s ∧ s.a = run [] evs ∧ root < s.a.length ∧ par s.a root = none ∧ root ∉ s.dead := by
  obtain ⟨s, hrun, hr, hp, hd⟩ := h
  obtain ⟨inv, ha⟩ := buRun_inv evs {} s inv_init hrun
  refine ⟨s, inv, ha, hr, hp, ?_⟩
  intro hm
  have : s.dead.contains root = true := by simp [hm]
  rw [hd] at this
  cases this

theorem bottomUpB_iff (evs : List Ev) (root : Nat) : bottomUpB evs root = true ↔ BottomUp evs root := by
  unfold bottomUpB BottomUp
  cases h : buRun {} evs with
  | none => simp
  | some s =>
    simp only [Bool.and_eq_true, decide_eq_true_eq, Option.isNone_iff_eq_none, Bool.not_eq_true',
      Option.some.injEq, exists_eq_left']
    constructor
    · rintro ⟨⟨h1, h2⟩, h3⟩; exact ⟨h1, h2, h3⟩
    · rintro ⟨h1, h2, h3⟩; exact ⟨⟨h1, h2⟩, h3⟩

instance (evs : List Ev) (root : Nat) : Decidable (BottomUp evs root) :=
  decidable_of_iff _ (bottomUpB_iff evs root)

/-! ## the last assignment determines the parent (converse of `parent_of_lastAttachedBy`) -/

theorem par_unalloc (a : Arena) (n : Nat) (h : a.length ≤ n) : parentOf a n = none := by
  have : a[n]? = none := by simp; omega
  simp [parentOf, this]

end Fp.Tree3
