import FparserModel.Block

/-!
# M-D proofs, part 1: every state relation closed under the primitive steps is preserved by `eval`

`RelOK env R` lists the closure properties of a relation `R` on states.  `eval_rel` shows
`R st (eval env fuel c pc st).2.2` for every table, oracle, fuel, class and state — all outcomes.
Instances (BlockInv.lean): the log only grows; the chain of open scopes is unchanged unless a
leak event was logged; an item matched by no class is never read past.
-/
namespace Fp.Block

structure RelOK (env : Env) (R : St → St → Prop) : Prop where
  refl : ∀ s, R s s
  trans : ∀ {a b c}, R a b → R b c → R a c
  put : ∀ s x, R s (s.put x)
  /-- logging an event; `seqDrop` is only ever logged by the unrepaired shared-DO `match` -/
  ev : ∀ s g, (g = Ghost.seqDrop → env.tbl.quirks.seqRestores = false) → R s (s.ev (.ghost g))
  leaf : ∀ c pc s, R s (leafNew env c pc s).2.2
  comment : ∀ s, R s (commentNew env s).2
  directive : ∀ s, R s (directiveNew env s).2
  /-- `item = get(); if item: put(item)` -/
  peek : ∀ s, R s (match s.get with | (some it, s1) => s1.put it | (none, s1) => s1)
  remove : ∀ s n, R s (s.remove n).2
  exit : ∀ s n s', R (s.enter n) s' → R s s'.exit.2
  leak : ∀ s n s' g, g = Ghost.scopeLeak ∨ g = Ghost.main0Leak →
    R (s.enter n) s' → R s (s'.ev (.ghost g))
  empty : ∀ s s', R ((s.enter 0).ev (.ghost .emptyScopeName)) s' → R s s'
  /-- `SYMBOL_TABLES.rollback(snapshot)` at the end of a run that started in `s` -/
  rollback : ∀ s s', R s s' → R s (St.rollback s s')
  /-- the enter/exit pair may also be seen as two plain steps when nothing in between matters -/
  enter_exit_ok : True

variable {env : Env} {R : St → St → Prop}

/-- the recursive call satisfies the relation -/
def FRel (R : St → St → Prop) (f : F) : Prop := ∀ c s, R s (f c s).2
def GRel (R : St → St → Prop) (g : G) : Prop := ∀ c pc s, R s (g c pc s).2.2

theorem fresh_rel {g : G} (hg : GRel R g) : FRel R (fresh g) := by
  intro c s; unfold fresh; exact hg _ _ _

theorem callCatch_rel {f : F} (hf : FRel R f) (c : Cls) (s : St) : R s (callCatch f c s).2 := by
  unfold callCatch
  have := hf c s
  split
  · rename_i s1 heq; rw [heq] at this; exact this
  · exact this

section
variable (h : RelOK env R)
include h

mutual
theorem restore_rel (t : Tree) (s : St) : R s (restore t s) := by
  cases t with
  | leaf c i info => simp only [restore]; exact h.put _ _
  | node c ks =>
    simp only [restore]
    exact h.trans (h.ev _ _ (fun e => by cases e)) (restoreRev_rel ks _)
theorem restoreRev_rel (ts : List Tree) (s : St) : R s (restoreRev ts s) := by
  cases ts with
  | nil => simp only [restoreRev]; exact h.refl _
  | cons t ts => simp only [restoreRev]; exact h.trans (restoreRev_rel ts s) (restore_rel t _)
end

theorem restoreRc_rel (ts : List Tree) (s : St) : R s (restoreRc ts s) := by
  induction ts generalizing s with
  | nil => simp only [restoreRc]; exact h.refl _
  | cons t ts ih => simp only [restoreRc]; exact h.trans (restore_rel h t s) (ih _)

theorem ghostIf_rel (b : Bool) (g : Ghost) (s : St)
    (hg : g = .seqDrop → env.tbl.quirks.seqRestores = false) : R s (ghostIf b g s) := by
  unfold ghostIf; split
  · exact h.ev _ _ hg
  · exact h.refl _

theorem leafFresh_rel (c : Cls) (s : St) : R s (leafFresh env c s).2 := by
  unfold leafFresh; exact h.leaf _ _ _

theorem firstLeaf_rel (cs : List Cls) (s : St) : R s (firstLeaf env cs s).2 := by
  induction cs generalizing s with
  | nil => simp only [firstLeaf]; exact h.refl _
  | cons c cs ih =>
    simp only [firstLeaf]
    have h1 := leafFresh_rel h c s
    split
    · rename_i s1 heq; rw [heq] at h1; exact h.trans h1 (ih s1)
    · exact h1

theorem cppNew_rel (cs : List Cls) (s : St) : R s (cppNew env cs s).2 := by
  unfold cppNew
  have hp := h.peek s
  split
  · rename_i s1 heq; rw [heq] at hp; exact hp
  · rename_i it s1 heq
    rw [heq] at hp
    simp only at hp ⊢
    split
    · exact h.trans hp (firstLeaf_rel h cs _)
    · exact hp

theorem cidRest_rel (s : St) : R s (cidRest env s).2 := by
  unfold cidRest
  have h2 := h.comment s
  split
  · rename_i s2 heq2
    rw [heq2] at h2
    have h3 := leafFresh_rel h env.tbl.includeStmt s2
    split
    · rename_i s3 heq3
      rw [heq3] at h3
      exact h.trans h2 (h.trans h3 (cppNew_rel h _ s3))
    · exact h.trans h2 h3
  · exact h2

theorem cidOne_rel (s : St) : R s (cidOne env s).2 := by
  unfold cidOne
  split
  · have h1 := h.directive s
    split
    · rename_i s1 heq; rw [heq] at h1; exact h.trans h1 (cidRest_rel h s1)
    · exact h1
  · exact cidRest_rel h s

theorem addCID_rel (k : Nat) (rc : List Tree) (s : St) : R s (addCID env k rc s).2 := by
  induction k generalizing rc s with
  | zero => simp only [addCID]; exact h.refl _
  | succ k ih =>
    simp only [addCID]
    have h1 := cidOne_rel h s
    split
    · rename_i t s1 heq; rw [heq] at h1; exact h.trans h1 (ih _ _)
    · rename_i s1 heq; rw [heq] at h1; exact h1
    · rename_i e s1 heq; rw [heq] at h1; exact h1

theorem hookLead_rel (fuel : Nat) (s : St) : R s (hookLead env fuel s).2 := by
  unfold hookLead; split
  · exact addCID_rel h fuel [] s
  · exact h.refl _

theorem doHook_rel {f : F} (hf : FRel R f) (fuel : Nat) (cfg : Cfg) (v : LoopVars) (s : St) :
    R s (doHook env f fuel cfg v s).2 := by
  unfold doHook
  split
  · have h0 := hookLead_rel h fuel s
    split
    · rename_i e s0 heq; rw [heq] at h0; exact h0
    · rename_i lead s0 heq
      rw [heq] at h0
      split
      · exact h0
      · rename_i sc _
        have h1 := hf sc s0
        split
        · rename_i e s1 heq1; rw [heq1] at h1; exact h.trans h0 h1
        · rename_i s1 heq1; rw [heq1] at h1
          exact h.trans h0 (h.trans h1 (restoreRc_rel h _ _))
        · rename_i t s1 heq1
          rw [heq1] at h1
          have h01 := h.trans h0 h1
          split
          · split
            · exact h01
            · split
              · exact h01
              · exact h.trans h01 (h.trans (restore_rel h _ _) (restoreRc_rel h _ _))
          · exact h.trans h01 (h.trans (h.ev _ _ (fun e => by cases e)) (restoreRc_rel h _ _))
  · exact h.refl _

theorem matchedStep_rel (cfg : Cfg) (startT : Option Tree) (sn : Option (Option Name))
    (i : Nat) (v : LoopVars) (t : Tree) (s : St) :
    R s (matchedStep env cfg startT sn i v t s).2 := by
  unfold matchedStep
  simp only
  split
  · exact h.refl _
  · exact h.trans (restore_rel h t s) (restoreRc_rel h _ _)
  · split
    · exact h.refl _
    · split
      · split
        · exact h.refl _
        · split
          · exact h.trans (restore_rel h t s) (restoreRc_rel h _ _)
          · exact h.refl _
        · split
          · exact h.refl _
          · exact h.refl _
      · exact h.refl _

theorem blockLoop_rel {f : F} (hf : FRel R f) (cfg : Cfg) (classes : List Cls)
    (startT : Option Tree) (sn : Option (Option Name)) (k i : Nat) (v : LoopVars) (s : St) :
    R s (blockLoop env f cfg classes startT sn k i v s).2 := by
  induction k generalizing i v s with
  | zero => simp only [blockLoop]; exact h.refl _
  | succ k ih =>
    simp only [blockLoop]
    split
    · exact h.refl _
    · rename_i cls _
      have h1 := doHook_rel h hf k cfg v s
      split
      · rename_i e s1 heq; rw [heq] at h1; exact h1
      · rename_i ts s1 heq; rw [heq] at h1; exact h.trans h1 (ih _ _ _)
      · rename_i s0 heq
        rw [heq] at h1
        have h2 := callCatch_rel hf cls s0
        split
        · rename_i e s1 heq2; rw [heq2] at h2; exact h.trans h1 h2
        · rename_i s1 heq2; rw [heq2] at h2; exact h.trans h1 (h.trans h2 (ih _ _ _))
        · rename_i t s1 heq2
          rw [heq2] at h2
          have h3 := matchedStep_rel h cfg startT sn i v t s1
          have h12 := h.trans h1 h2
          split
          · rename_i e s2 heq3; rw [heq3] at h3; exact h.trans h12 h3
          · rename_i s2 heq3; rw [heq3] at h3; exact h.trans h12 h3
          · rename_i v2 s2 heq3; rw [heq3] at h3; exact h.trans h12 h3
          · rename_i i2 v2 s2 heq3; rw [heq3] at h3; exact h.trans h12 (h.trans h3 (ih _ _ _))

theorem enterState_leak (n : Option Name) (s2 : St) :
    R s2 (ghostIf (truthy n) .scopeLeak (enterState n s2)) := by
  cases n with
  | none => simp only [enterState, ghostIf, truthy]; exact h.refl _
  | some n =>
    by_cases hn : n = 0
    · subst hn
      have hp := ghostIf_rel h (s2.sym.clashes 0) .nameClash s2 (fun e => by cases e)
      simp only [enterState, truthy]
      exact h.trans hp (h.empty _ _ (h.refl _))
    · have ht : truthy (some n) = true := by simp [truthy, hn]
      have hn' : (n == 0) = false := by simp [hn]
      have hp := ghostIf_rel h (s2.sym.clashes n) .nameClash s2 (fun e => by cases e)
      simp only [ht, enterState, hn']
      exact h.trans hp (h.leak _ n _ _ (Or.inl rfl) (h.refl _))

theorem blockStart_rel {f : F} (hf : FRel R f) (fuel : Nat) (cfg : Cfg) (s : St)
    (r : StartRes) (s1 : St) (heq : blockStart env f fuel cfg s = (r, s1)) :
    match r with
    | .ret _ => R s s1
    | .go _ _ tn _ _ => ∃ s2, R s s2 ∧ s1 = enterState tn s2 := by
  unfold blockStart at heq
  split at heq
  · injection heq with h1 h2; subst h1 h2; exact ⟨s, h.refl _, rfl⟩
  · rename_i sc _
    have h1 := addCID_rel h fuel [] s
    split at heq
    · rename_i e sa heq1; rw [heq1] at h1
      injection heq with ha hb; subst ha hb; exact h1
    · rename_i rc0 sa heq1
      rw [heq1] at h1
      have h2 := callCatch_rel hf sc sa
      split at heq
      · rename_i e s2 heq2; rw [heq2] at h2
        injection heq with ha hb; subst ha hb; exact h.trans h1 h2
      · rename_i s2 heq2; rw [heq2] at h2
        injection heq with ha hb; subst ha hb
        exact h.trans h1 (h.trans h2 (restoreRc_rel h _ _))
      · rename_i t s2 heq2
        rw [heq2] at h2
        have h12 := h.trans h1 h2
        split at heq
        · injection heq with ha hb; subst ha hb; exact h12
        · split at heq
          · injection heq with ha hb; subst ha hb
            exact h.trans h12 (enterState_leak h _ _)
          · injection heq with ha hb; subst ha hb
            exact ⟨s2, h12, rfl⟩

theorem condRemove_rel (b : Bool) (n : Option Name) (s : St) : R s (condRemove b n s).2 := by
  unfold condRemove
  split
  · exact h.remove _ _
  · exact h.refl _

/-- leaving the scope that `enterState` entered (or not) -/
theorem condExit_bracket (tn : Option Name) (s2 sL : St) (hl : R (enterState tn s2) sL) :
    R s2 (condExit (truthy tn) sL).2 := by
  cases tn with
  | none => simpa [enterState, truthy, condExit] using hl
  | some n =>
    by_cases hn : n = 0
    · subst hn
      have hp := ghostIf_rel h (s2.sym.clashes 0) .nameClash s2 (fun e => by cases e)
      simp only [enterState, truthy, condExit] at hl ⊢
      exact h.trans hp (h.empty _ _ hl)
    · have ht : truthy (some n) = true := by simp [truthy, hn]
      have hn' : (n == 0) = false := by simp [hn]
      have hp := ghostIf_rel h (s2.sym.clashes n) .nameClash s2 (fun e => by cases e)
      simp only [ht, enterState, hn', condExit] at hl ⊢
      exact h.trans hp (h.exit _ _ _ hl)

/-- not leaving it -/
theorem leak_bracket (tn : Option Name) (s2 sL : St) (hl : R (enterState tn s2) sL) :
    R s2 (ghostIf (truthy tn) .scopeLeak sL) := by
  cases tn with
  | none => simpa [enterState, truthy, ghostIf] using hl
  | some n =>
    by_cases hn : n = 0
    · subst hn
      have hp := ghostIf_rel h (s2.sym.clashes 0) .nameClash s2 (fun e => by cases e)
      simp only [enterState, truthy] at hl ⊢
      exact h.trans hp (h.empty _ _ hl)
    · have ht : truthy (some n) = true := by simp [truthy, hn]
      have hn' : (n == 0) = false := by simp [hn]
      have hp := ghostIf_rel h (s2.sym.clashes n) .nameClash s2 (fun e => by cases e)
      simp only [ht, enterState, hn'] at hl ⊢
      exact h.trans hp (h.leak _ n _ _ (Or.inl rfl) hl)

theorem blockTail_rel (cfg : Cfg) (startT : Option Tree) (tn : Option Name) (v : LoopVars)
    (fe : Bool) (s3 : St) : R s3 (blockTail env cfg startT tn v fe s3).2 := by
  unfold blockTail
  split
  · have hr := condRemove_rel h (truthy tn) tn s3
    split
    · rename_i s4 heq; rw [heq] at hr; exact hr
    · rename_i s4 heq; rw [heq] at hr; exact h.trans hr (restoreRc_rel h _ _)
  · split
    · exact h.refl _
    · split
      · exact h.refl _
      · exact h.refl _
      · split
        · have hr := condRemove_rel h (truthy tn) tn s3
          split
          · rename_i s4 heq; rw [heq] at hr; exact hr
          · rename_i s4 heq; rw [heq] at hr; exact hr
        · exact h.refl _
      · split
        · have hr := condRemove_rel h (truthy tn && env.tbl.quirks.nameMismatchRemoves) tn s3
          split
          · rename_i s4 heq; rw [heq] at hr; exact hr
          · rename_i s4 heq; rw [heq] at hr; exact hr
        · exact h.ev _ _ (fun e => by cases e)

theorem blockFinish_rel (cfg : Cfg) (startT : Option Tree) (tn : Option Name) (res : LoopRes)
    (s2 sL : St) (hl : R (enterState tn s2) sL) :
    R s2 (blockFinish env cfg startT tn res sL).2 := by
  unfold blockFinish
  have hexit := condExit_bracket h tn s2 sL hl
  have hleak := leak_bracket h tn s2 sL hl
  split
  · split
    · unfold blockCleanup
      split
      · rename_i s3 heq; rw [heq] at hexit; exact hexit
      · rename_i s3 heq; rw [heq] at hexit
        have hr := condRemove_rel h (truthy tn) tn s3
        split
        · rename_i s4 heq2; rw [heq2] at hr; exact h.trans hexit hr
        · rename_i s4 heq2; rw [heq2] at hr; exact h.trans hexit hr
    · exact h.trans hleak (ghostIf_rel h _ _ _ (fun e => by cases e))
  · exact hleak
  · split
    · rename_i s3 heq; rw [heq] at hexit; exact hexit
    · rename_i s3 heq; rw [heq] at hexit
      exact h.trans hexit (blockTail_rel h _ _ _ _ _ _)

theorem blockMatch_rel {f : F} (hf : FRel R f) (fuel : Nat) (cfg : Cfg) (s : St) :
    R s (blockMatch env f fuel cfg s).2 := by
  unfold blockMatch
  split
  · rename_i r s1 heq; exact blockStart_rel h hf fuel cfg s _ _ heq
  · rename_i rc0 startT tn sl sn s1 heq
    obtain ⟨s2, h02, rfl⟩ := blockStart_rel h hf fuel cfg s _ _ heq
    exact h.trans h02 (blockFinish_rel h _ _ _ _ _ _ (blockLoop_rel h hf _ _ _ _ _ _ _ _))

theorem manyLoop_rel {f : F} (hf : FRel R f) (c : Cls) (k : Nat) (rc : List Tree) (s : St) :
    R s (manyLoop f c k rc s).2 := by
  induction k generalizing rc s with
  | zero => simp only [manyLoop]; exact h.refl _
  | succ k ih =>
    simp only [manyLoop]
    have h1 := callCatch_rel hf c s
    split
    · rename_i e s1 heq; rw [heq] at h1; exact h1
    · rename_i s1 heq; rw [heq] at h1; exact h1
    · rename_i t s1 heq; rw [heq] at h1; exact h.trans h1 (ih _ _)

theorem seqNR_rel {f : F} (hf : FRel R f) (q : Quirks)
    (hqq : q.seqRestores = false → env.tbl.quirks.seqRestores = false) (cs : List Cls)
    (rc : List Tree) (s : St) : R s (seqNR q f cs rc s).2 := by
  induction cs generalizing rc s with
  | nil => simp only [seqNR]; exact h.refl _
  | cons c cs ih =>
    simp only [seqNR]
    split
    · have h1 := callCatch_rel hf c s
      split
      · rename_i e s1 heq; rw [heq] at h1; exact h1
      · rename_i s1 heq; rw [heq] at h1; exact h.trans h1 (restoreRc_rel h _ _)
      · rename_i t s1 heq; rw [heq] at h1; exact h.trans h1 (ih _ _)
    · rename_i hq
      have hq' : q.seqRestores = false := by simpa using hq
      have h1 := hf c s
      split
      · rename_i e s1 heq; rw [heq] at h1
        exact h.trans h1 (ghostIf_rel h _ _ _ (fun _ => hqq hq'))
      · rename_i s1 heq; rw [heq] at h1
        exact h.trans h1 (ghostIf_rel h _ _ _ (fun _ => hqq hq'))
      · rename_i t s1 heq; rw [heq] at h1; exact h.trans h1 (ih _ _)

theorem main0Match_rel {f : F} (hf : FRel R f) (fuel : Nat) (cfg : Cfg) (scope : Name) (s : St) :
    R s (main0Match env f fuel cfg scope s).2 := by
  unfold main0Match
  have hp := ghostIf_rel h (s.sym.clashes scope) .nameClash s (fun e => by cases e)
  generalize ghostIf (s.sym.clashes scope) Ghost.nameClash s = sp at hp ⊢
  have h1 := blockMatch_rel h hf fuel cfg (sp.enter scope)
  generalize blockMatch env f fuel cfg (sp.enter scope) = br at h1
  obtain ⟨r, s2⟩ := br
  simp only at h1
  have hexit := h.trans hp (h.exit _ _ _ h1)
  have hleak := h.trans hp (h.leak _ scope _ _ (Or.inr rfl) h1)
  cases r with
  | raise e =>
    simp only
    split
    · exact hleak
    split
    · generalize s2.exit = ce at hexit
      obtain ⟨b, s3⟩ := ce
      cases b with
      | false => exact hexit
      | true =>
        simp only
        have hr := h.remove s3 scope
        generalize s3.remove scope = cr at hr
        obtain ⟨b2, s4⟩ := cr
        cases b2 <;> exact h.trans hexit hr
    · exact hleak
  | none =>
    simp only
    generalize s2.exit = ce at hexit
    obtain ⟨b, s3⟩ := ce
    cases b with
    | false => exact hexit
    | true =>
      simp only
      have hr := h.remove s3 scope
      generalize s3.remove scope = cr at hr
      obtain ⟨b2, s4⟩ := cr
      cases b2 <;> exact h.trans hexit hr
  | tuple content =>
    simp only
    generalize s2.exit = ce at hexit
    obtain ⟨b, s3⟩ := ce
    cases b <;> exact hexit

theorem unitStep_rel {f : F} (hf : FRel R f) (fuel : Nat) (unit main0 : Cls) (rc : List Tree)
    (s : St) : R s (unitStep env f fuel unit main0 rc s).2 := by
  unfold unitStep
  have h1 := hf unit s
  split
  · rename_i e s1 heq
    rw [heq] at h1
    split
    · have h2 := h.trans h1 (h.trans (h.ev s1 .fallback (fun e => by cases e))
        (blockMatch_rel h hf fuel (fallbackCfg main0) _))
      split
      · rename_i c0 s2 heq2; rw [heq2] at h2; exact h2
      · rename_i s2 heq2; rw [heq2] at h2
        exact h.trans h2 (ghostIf_rel h _ _ _ (fun e => by cases e))
      · rename_i e2 s2 heq2; rw [heq2] at h2
        exact h.trans h2 (ghostIf_rel h _ _ _ (fun e => by cases e))
    · exact h1
  · rename_i o s1 _ heq
    rw [heq] at h1; exact h1

theorem programLoop_rel {f : F} (hf : FRel R f) (unit main0 : Cls) (fuel k : Nat)
    (rc : List Tree) (s : St) : R s (programLoop env f unit main0 fuel k rc s).2 := by
  induction k generalizing rc s with
  | zero => simp only [programLoop]; exact h.refl _
  | succ k ih =>
    simp only [programLoop]
    have h1 := unitStep_rel h hf fuel unit main0 rc s
    split
    · rename_i r s1 heq; rw [heq] at h1; exact h1
    · rename_i rc1 s1 heq
      rw [heq] at h1
      have h2 := addCID_rel h fuel rc1 s1
      split
      · rename_i e s2 heq2; rw [heq2] at h2; exact h.trans h1 h2
      · rename_i rc2 s2 heq2
        rw [heq2] at h2
        have h3 := h.peek s2
        split
        · rename_i s3 heq3; rw [heq3] at h3; exact h.trans h1 (h.trans h2 h3)
        · rename_i it s3 heq3; rw [heq3] at h3
          exact h.trans h1 (h.trans h2 (h.trans h3 (ih _ _)))

theorem programMatch_rel {f : F} (hf : FRel R f) (fuel : Nat) (unit main0 : Cls) (s : St) :
    R s (programMatch env f fuel unit main0 s).2 := by
  unfold programMatch
  have h1 := addCID_rel h fuel [] s
  split
  · rename_i e s1 heq; rw [heq] at h1; exact h1
  · rename_i rc0 s1 heq
    rw [heq] at h1
    have h2 := programLoop_rel h hf unit main0 fuel fuel rc0 s1
    split
    · rename_i rc s2 heq2; rw [heq2] at h2; exact h.trans h1 h2
    · rename_i s2 heq2; rw [heq2] at h2; exact h.trans h1 h2
    · rename_i rc e s2 heq2; rw [heq2] at h2
      split
      · exact h.trans h1 (h.trans h2 (h.trans (h.ev _ _ (fun e => by cases e))
          (h.trans (ghostIf_rel h _ _ _ (fun e => by cases e)) (blockMatch_rel h hf _ _ _))))
      · exact h.trans h1 h2

theorem altLoop_rel {g : G} (hg : GRel R g) (ds pc : List Cls) (s : St) :
    R s (altLoop env g ds pc s).2.2 := by
  induction ds generalizing pc s with
  | nil => simp only [altLoop]; exact h.refl _
  | cons d ds ih =>
    simp only [altLoop]
    split
    · exact ih _ _
    · have h1 := hg d pc s
      split
      · rename_i t pc1 s1 heq; rw [heq] at h1; exact h1
      · rename_i pc1 s1 heq; rw [heq] at h1; exact h.trans h1 (ih _ _)
      · rename_i pc1 s1 heq; rw [heq] at h1; exact h.trans h1 (ih _ _)
      · rename_i e pc1 s1 _ heq; rw [heq] at h1; exact h1

theorem finish_rel {g : G} (hg : GRel R g) (c : Cls) (subs : List Cls) (r : MRes × St)
    (pc : List Cls) (s : St) (hr : R s r.2) : R s (finish env g c subs r pc).2.2 := by
  unfold finish
  split
  · exact hr
  · exact h.trans hr (altLoop_rel h hg _ _ _)
  · exact h.trans hr (altLoop_rel h hg _ _ _)
  · exact hr

theorem eval_rel (fuel : Nat) : GRel R (eval env fuel) := by
  induction fuel with
  | zero => intro c pc s; simp only [eval]; exact h.refl _
  | succ fuel ih =>
    intro c pc s
    have hf : FRel R (fresh (eval env fuel)) := fresh_rel ih
    simp only [eval]
    split
    · exact h.leaf _ _ _
    · exact altLoop_rel h ih _ _ _
    · exact finish_rel h ih _ _ _ _ _ (blockMatch_rel h hf _ _ _)
    · exact finish_rel h ih _ _ _ _ _ (manyLoop_rel h hf _ _ _ _)
    · exact finish_rel h ih _ _ _ _ _ (seqNR_rel h hf _ id _ _ _)
    · exact finish_rel h ih _ _ _ _ _ (main0Match_rel h hf _ _ _ _)
    · rename_i unit main0 subs _
      have h1 := finish_rel h ih c subs _ [c] s (programMatch_rel h hf fuel unit main0 s)
      unfold programExit
      split
      · split
        · exact h.rollback _ _ h1
        · exact h1
      · exact h1
    · exact h.comment _
    · exact h.directive _
    · exact cppNew_rel h _ _

theorem run_rel (fuel : Nat) (c : Cls) (s : St) : R s (run env fuel c s).2 := by
  unfold run; exact fresh_rel (eval_rel h fuel) c s

end

end Fp.Block
