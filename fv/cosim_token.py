"""Co-simulation of the tokeniser / format-detection models (Lean `Fp.Splitline`,
`Fp.SourceInfo`, driver commands splitquote / splitparen / srm / srcinfo / tokenlex) against
the REAL functions of the repo:

    fparser.common.splitline.splitquote / splitparen / string_replace_map / StringReplaceDict
    fparser.common.sourceinfo.get_source_info_str

    timeout 900 /venv/bin/python -m fv.cosim_token --seed 0 --n 20000

A case is a dict:
    {"kind": "line", "line": str, "stop": None|str, "lower": bool, "popen": str, "pclose": str}
    {"kind": "src",  "text": str, "ignore_encoding": bool}
`check_case(model, case)` returns None on agreement, otherwise a dict describing the first
disagreement (which function, what the real code returned, what the model returned).
Inputs are ASCII (the models' character domain).
"""
import argparse
import json
import random
import sys
import time

from fv import repo
from fv.model import Model, get_model

repo.activate()
from fparser.common import splitline as _sl  # noqa: E402
from fparser.common import sourceinfo as _si  # noqa: E402


# --------------------------------------------------------------------------- real side

def real_splitquote(line, stop, lower):
    segs, st = _sl.splitquote(line, stop, lower)
    return [("Q" if isinstance(s, _sl.String) else "P", str(s)) for s in segs], (st or "")


def real_splitparen(line, popen, pclose):
    try:
        items = _sl.splitparen(line, popen, pclose)
    except AssertionError:
        return "AssertionError"
    return [("B" if isinstance(s, _sl.ParenString) else "P", str(s)) for s in items]


def real_srm(line, lower):
    try:
        text, smap = _sl.string_replace_map(line, lower=lower)
    except KeyError:
        return ("keyerror",)
    if not isinstance(smap, _sl.StringReplaceDict):
        return ("badtype", type(smap).__name__)
    # memoisation: a second call must hand back an equal result
    text2, smap2 = _sl.string_replace_map(line, lower=lower)
    if text2 != text or dict(smap2) != dict(smap):
        return ("memo-changed",)
    return ("ok", text, smap(text), [(k, v) for k, v in smap.items()])


def real_srcinfo(text, ignore_encoding):
    fmt = _si.get_source_info_str(text, ignore_encoding=ignore_encoding)
    if fmt.is_strict or fmt.f2py_enabled:
        return "strict-or-f2py"
    return "free" if fmt.is_free else "fixed"


# --------------------------------------------------------------------------- model side

def _pairs(fields):
    return [(fields[i], fields[i + 1]) for i in range(0, len(fields), 2)]


def model_splitquote(model, line, stop, lower):
    r = model.ask("splitquote", line, stop or "", "1" if lower else "0")
    return _pairs(r[1:]), r[0]


def model_splitparen(model, line, popen, pclose):
    try:
        r = model.ask("splitparen", line, popen, pclose)
    except RuntimeError as e:
        if "AssertionError" in str(e):
            return "AssertionError"
        raise
    if r == [""]:
        r = []
    return _pairs(r)


# which lookup discipline of the model to compare with: "" = the model's own switch
# (`Fp.Splitline.discipline`, the mirror of /repo HEAD); "legacy" = the code before the fixes
# 979b666/c764ae8 (development-time run against an old checkout, FV_REPO=...).
DISCIPLINE = ""


def model_srm(model, line, lower):
    if DISCIPLINE:
        r = model.ask("srm", line, "1" if lower else "0", DISCIPLINE)
    else:
        r = model.ask("srm", line, "1" if lower else "0")
    if r[0] != "ok":
        return (r[0],)
    return ("ok", r[1], r[2], _pairs(r[3:]))


def model_srcinfo(model, text):
    return model.ask("srcinfo", text)[0]


# --------------------------------------------------------------------------- comparison

def check_case(model, case):
    """None when the real code and the model agree on every observable of the case."""
    if case["kind"] == "line":
        line, stop, lower = case["line"], case.get("stop"), bool(case.get("lower"))
        popen, pclose = case.get("popen", "(["), case.get("pclose", ")]")
        real = real_splitquote(line, stop, lower)
        mod = model_splitquote(model, line, stop, lower)
        if real != mod:
            return {"function": "splitquote", "case": case, "real": real, "model": mod}
        if "".join(s for _, s in real[0]) != line and not lower:
            return {"function": "splitquote-join", "case": case, "real": real}
        real = real_splitparen(line, popen, pclose)
        mod = model_splitparen(model, line, popen, pclose)
        if real != mod:
            return {"function": "splitparen", "case": case, "real": real, "model": mod}
        real = real_srm(line, lower)
        mod = model_srm(model, line, lower)
        if real != mod:
            return {"function": "string_replace_map", "case": case, "real": real, "model": mod}
        return None
    if case["kind"] == "src":
        real = real_srcinfo(case["text"], case.get("ignore_encoding", True))
        mod = model_srcinfo(model, case["text"])
        if real != mod:
            return {"function": "get_source_info_str", "case": case, "real": real, "model": mod}
        return None
    raise ValueError(case["kind"])


# --------------------------------------------------------------------------- generators

NAMES = ["a", "b", "x", "i", "n", "foo", "bar", "arr", "Aa", "XyZ", "e1", "d2", "x1e5", "c_char",
         "res_2", "E"]
MAGIC = ["F2PY_EXPR_TUPLE_1", "F2PY_EXPR_TUPLE_2", "F2PY_EXPR_TUPLE_10", "F2PY_REAL_CONSTANT_1_",
         "_F2PY_STRING_CONSTANT_1_", "F2PY_EXPR_TUPLE_", "F2PY_REAL_CONSTANT_7",
         "_F2PY_STRING_CONSTANT_3_x", "F2PY_EXPR_TUPLE_7"]
NUMS = ["1", "2", "10", "0", "1_8", "3_i4", "1.0", "2.5", ".5", "3.", "1.0e-3", "2d+5", "1E5",
        ".5E3", "1.e5_dp", "3.14_wp", "6.02D23", "1e5", "1.0e-3", "4e-2_8", "1.5d0", "9.e+1"]
STRS = ["'a b'", "'abc'", "''", '""', "'it''s'", '"say ""hi"""', '"(x)"', "'(a+b)'", "'1.0e-3'",
        "\"'a b'\"", "'\"'", '"\'"', "'A, B'", '"Hello World"', "'(a, i3)'", "'F2PY_EXPR_TUPLE_1'",
        "' '", "'x(1)'", "'a''b''c'", '"""quoted"""', "'back\\slash'", "'a b'", "'!not comment'",
        "'&'", "'(/'"]
PREFIXED = ["c_char_'abc'", "1_'a b'", "z'ff'", "b\"1 01\"", "k_\"x y\""]
BINOPS = ["+", "-", "*", "/", "**", "//", " + ", " .and. ", " == ", " > ", ".eq.", " % ", "%"]


class Gen:
    def __init__(self, rng):
        self.rng = rng
        self.pool = []      # sub-expressions to repeat (provokes rev_string_map hits)

    def name(self):
        r = self.rng
        if r.random() < 0.04:
            return r.choice(MAGIC)
        return r.choice(NAMES)

    def literal(self):
        r = self.rng
        k = r.random()
        if k < 0.45:
            return r.choice(NUMS)
        if k < 0.9:
            return r.choice(STRS)
        return r.choice(PREFIXED)

    def sp(self):
        return self.rng.choice(["", "", "", " ", " ", "  ", "\t"])

    def expr(self, d=0):
        r = self.rng
        if self.pool and r.random() < 0.12:
            return r.choice(self.pool)
        k = r.random()
        if d > 3 or k < 0.25:
            e = self.name()
        elif k < 0.45:
            e = self.literal()
        elif k < 0.62:
            e = self.expr(d + 1) + r.choice(BINOPS) + self.expr(d + 1)
        elif k < 0.74:
            e = "(" + self.sp() + self.expr(d + 1) + self.sp() + ")"
        elif k < 0.78:
            e = "((" + self.expr(d + 1) + "))"
        elif k < 0.90:
            args = ",".join(self.sp() + self.arg(d + 1) for _ in range(r.randint(0, 3)))
            e = self.name() + self.sp() + "(" + args + self.sp() + ")"
        elif k < 0.95:
            e = "[" + ", ".join(self.expr(d + 1) for _ in range(r.randint(0, 3))) + "]"
        else:
            e = "(/" + self.sp() + ", ".join(self.expr(d + 1) for _ in range(r.randint(1, 3))) + self.sp() + "/)"
        if r.random() < 0.3:
            self.pool.append(e)
        return e

    def arg(self, d):
        r = self.rng
        k = r.random()
        if k < 0.15:
            return self.expr(d) + ":" + self.expr(d)
        if k < 0.2:
            return ":"
        if k < 0.3:
            return r.choice(["kind", "len", "fmt", "unit"]) + "=" + self.expr(d)
        return self.expr(d)

    def statement(self):
        r = self.rng
        self.pool = []
        k = r.random()
        if k < 0.35:
            return self.expr(2) + " = " + self.expr()
        if k < 0.45:
            return "call " + self.name() + "(" + ", ".join(self.arg(1) for _ in range(r.randint(0, 4))) + ")"
        if k < 0.55:
            return (r.choice(["real", "integer", "REAL(KIND=8)", "character(len=*)", "type(t)",
                              "character*(*)", "real(wp)", "Character(LEN = 10, kind=c_char)"])
                    + r.choice(["", ", parameter", ", dimension(3, 0:n)", ", intent(in)"])
                    + " :: " + self.name() + r.choice(["", "(10)", " = " + self.expr(),
                                                       "(2,2) = reshape((/1,2,3,4/), (/2,2/))"]))
        if k < 0.68:
            fmt = r.choice(["*", "'(a, i3)'", '"(a)"', "'(''x='', f8.3)'", "100", "fmt='(2(a,1x))'",
                            "'(1p, e12.4e3)'", "'(a,\"''\",a)'"])
            items = ", ".join(self.expr(1) for _ in range(r.randint(0, 3)))
            kind = r.random()
            if kind < 0.4:
                return "write(" + r.choice(["*", "6", "unit=u"]) + ", " + fmt + ") " + items
            if kind < 0.7:
                return "print " + fmt + ", " + items
            if kind < 0.85:
                return "read(5, " + fmt + ", iostat=ios) " + items
            return "100 format(1x, 'a''b', i3, " + r.choice(STRS) + ", 2(f8.3, 1x))"
        if k < 0.76:
            return "if (" + self.expr() + ") " + self.expr(2) + " = " + self.expr()
        if k < 0.82:
            return "do " + self.name() + " = " + self.expr(2) + ", " + self.expr(2)
        if k < 0.88:
            return r.choice(["Program ", "SUBROUTINE ", "end function ", "use ", "module "]) + self.name() \
                + r.choice(["", "(a, b)", "()", ", only: x => y"])
        if k < 0.94:
            return self.expr() + r.choice([" ! comment 'q", " ! (", "; ", " &"]) + self.expr(2)
        return "data " + self.name() + " / " + ", ".join(self.literal() for _ in range(r.randint(1, 4))) + " /"

    MUT = "'\"()[]\\ "

    def malformed(self):
        """a statement with quotes/parentheses unbalanced by one or two edits"""
        r = self.rng
        s = self.statement()
        for _ in range(r.randint(1, 2)):
            k = r.random()
            special = [i for i, ch in enumerate(s) if ch in "'\"()[]"]
            if k < 0.4 and special:
                i = r.choice(special)
                s = s[:i] + s[i + 1:]
            elif k < 0.8:
                i = r.randint(0, len(s))
                s = s[:i] + r.choice(self.MUT) + s[i:]
            elif k < 0.9 and s:
                s = s[: r.randint(0, len(s))]
            else:
                s = r.choice([")", "]", "(", "'", '"']) + s
        return s

    def soup(self):
        """short random strings over the characters the scanners care about"""
        r = self.rng
        alpha = r.choice(["ab1 .eE+-_'\"()[]\\,", "'\" a(", "()[]'\"\\ab ", "1.eD+-_a ", "aA'\"\\",
                          "F2PY_EXRTULCONSAIG12_ ('"])
        return "".join(r.choice(alpha) for _ in range(r.randint(0, 14)))

    def magic_soup(self):
        r = self.rng
        toks = MAGIC + ["(", ")", " ", "+", "'", "a b", "1e5", "1", "_", "x"]
        return "".join(r.choice(toks) for _ in range(r.randint(1, 7)))

    def line_case(self):
        r = self.rng
        k = r.random()
        if k < 0.55:
            line, cls = self.statement(), "statement"
        elif k < 0.75:
            line, cls = self.malformed(), "malformed"
        elif k < 0.93:
            line, cls = self.soup(), "soup"
        else:
            line, cls = self.magic_soup(), "magic"
        stop = r.choice([None, None, None, "'", '"', '"', "'", "x", ""])
        case = {"kind": "line", "line": line, "stop": stop, "lower": r.random() < 0.4, "class": cls}
        if r.random() < 0.1:
            case["popen"], case["pclose"] = r.choice([("(", ")"), ("[(", "])"), ("", ""), ("({[", ")}]"),
                                                       ("(", ")]"), ("((", ")]"), ("()", ")(")])
        return case

    # ---- sources for get_source_info_str

    FIXED_LINES = ["      x = 1", "      program p", "   10 continue", "  100 format(1x, a)",
                   "c comment", "C Comment here", "* star comment", "! bang comment", "",
                   "     &   + 2", "     1   + 3", "\tx = 1", "1\tx = 2", "      end", "      call foo()",
                   "   ", "      write(*,*) 'a &'", "c     x = 1 &", "12345 x = 2", "      y = 'abc'   ",
                   "*", "C", "      x = 1 ! trailing &", " \t x = 1", "     ", "99999"]
    FREE_LINES = ["x = 1", "program p", "  call foo() &", "call foo()", "10 a = b", "integer :: i",
                  "  x = 1", "end program", "character(len=3) :: s", "contains", "      y = 2 &",
                  "! comment", "  ! indented comment", "& + 3", "module m", "  10 continue",
                  "a", " a", "  a", "   a", "    a", "     a", "1 a", "1  a", "&", " &", "*x", "Call foo()",
                  "\tcall foo() &", "x = 1 &   ", "#include 'f'", "!$omp parallel &", "-*- f90 -*-",
                  "! -*- fortran -*-", "1234 a", "12345a", "\x1fa", " \x1f a"]
    SEPS = ["\n", "\n", "\n", "\n", "\r\n", "\r", "\x0c", "\x0b", "\x1c", "\x1d", "\x1e"]

    def src_case(self):
        r = self.rng
        k = r.random()
        if k < 0.35:
            pool = self.FIXED_LINES
        elif k < 0.6:
            pool = self.FREE_LINES
        else:
            pool = self.FIXED_LINES + self.FREE_LINES
        n = r.randint(0, 8)
        lines = [r.choice(pool) for _ in range(n)]
        if r.random() < 0.15:
            lines = [l + r.choice(["", " ", "\t", " &", "&  "]) for l in lines]
        if r.random() < 0.15 and lines:
            i = r.randrange(len(lines))
            lines[i] = self.soup5()
        sep = r.choice(self.SEPS) if r.random() < 0.2 else "\n"
        text = sep.join(lines)
        if r.random() < 0.7 and lines:
            text += sep
        cls = "src"
        if r.random() < 0.003:
            # the 10000-line cap: only non-blank, non-'!' lines are counted
            filler = r.choice(["      x = 1", "c comment", "   10 continue"])
            count = r.choice([9999, 10000, 10001])
            noise = ["! skip", ""] if r.random() < 0.5 else []
            text = "\n".join(noise + [filler] * count + ["x = 1", ""])
            cls = "src-cap"
        first = text.splitlines()[0] if text.splitlines() else ""
        ignore = True if "-*-" in first else r.random() < 0.5
        return {"kind": "src", "text": text, "ignore_encoding": ignore, "class": cls}

    def soup5(self):
        r = self.rng
        return "".join(r.choice("cC*! \t1a&x\x1f") for _ in range(r.randint(0, 8)))


def gen_cases(rng, n):
    """n cases: ~80% statement lines (valid, malformed, random soup, placeholder look-alikes),
    ~20% multi-line sources for the format detection."""
    g = Gen(rng)
    for _ in range(n):
        if rng.random() < 0.8:
            yield g.line_case()
        else:
            yield g.src_case()


# --------------------------------------------------------------------------- features

def features(case):
    f = [case.get("class", case["kind"])]
    if case["kind"] == "line":
        line = case["line"]
        segs, st = _sl.splitquote(line, case.get("stop"))
        if st:
            f.append("open-quote-at-end")
        if case.get("stop"):
            f.append("starts-in-quote")
        if case.get("lower"):
            f.append("lower")
        if "''" in line or '""' in line:
            f.append("doubled-quote")
        if _sl.exponential_constant.search(line):
            f.append("exponent-literal")
        if _sl._f2py_findall(line):
            f.append("placeholder-lookalike")
        items = _sl.splitparen(line)
        depth_ok = not (items and not isinstance(items[-1], _sl.ParenString)
                        and any(ch in "([" for ch in items[-1]))
        if not depth_ok:
            f.append("unmatched-opener")
        try:
            text, smap = _sl.string_replace_map(line, lower=bool(case.get("lower")))
            if smap:
                f.append("map-nonempty")
            if any(k.startswith("F2PY_EXPR") for k in smap):
                f.append("expr-tuple")
            if not case.get("lower") and _squeeze(smap(text)) != _squeeze(line):
                f.append("roundtrip-differs")
        except KeyError:
            f.append("KeyError")
        if "popen" in case:
            f.append("custom-parens")
    else:
        f.append("free" if _si.get_source_info_str(case["text"]).is_free else "fixed")
        if not case.get("ignore_encoding", True):
            f.append("ignore_encoding=False")
    return f


def _squeeze(s):
    """drop blanks adjacent to a parenthesis (what string_replace_map's strip() loses)"""
    out = s
    for a in (" ", "\t"):
        prev = None
        while prev != out:
            prev = out
            for p in "()[]":
                out = out.replace(a + p, p).replace(p + a, p)
    return out


# --------------------------------------------------------------------------- main

def run(seed, n, model=None, max_report=10, verbose=True):
    rng = random.Random(seed)
    model = model or get_model()
    t0 = time.time()
    counts, bad = {}, []
    lex = {}
    from fv import extract_token
    for name in extract_token.TABLE_NAMES:
        r = model.ask("tokenlex", name)
        lex[name] = {"mismatches": int(r[0]), "inputs": int(r[1]), "first": r[2]}
        if int(r[0]):
            bad.append({"function": "tokenlex:" + name, "detail": r[2]})
    total = 0
    for case in gen_cases(rng, n):
        total += 1
        for f in features(case):
            counts[f] = counts.get(f, 0) + 1
        try:
            d = check_case(model, case)
        except Exception as e:  # unexpected exception on either side is a finding
            d = {"function": "exception", "case": case, "error": "%s: %s" % (type(e).__name__, e)}
        if d is not None:
            bad.append(d)
    summary = {"seed": seed, "cases": total, "disagreements": len(bad), "features": counts,
               "tokenlex": lex, "seconds": round(time.time() - t0, 1)}
    if verbose:
        print("cosim_token: seed=%d cases=%d disagreements=%d (%.1fs)"
              % (seed, total, len(bad), summary["seconds"]))
        print("tokenlex (regex tables vs Lean scanners, exhaustive):")
        for name, v in lex.items():
            print("   %-8s inputs=%-7d mismatches=%d %s" % (name, v["inputs"], v["mismatches"], v["first"]))
        print("features:")
        for k in sorted(counts, key=lambda k: -counts[k]):
            print("   %-26s %d" % (k, counts[k]))
        for d in bad[:max_report]:
            print("DISAGREEMENT", json.dumps(d, default=repr)[:1500])
    return summary, bad


def main(argv=None):
    ap = argparse.ArgumentParser()
    ap.add_argument("--seed", type=int, default=0)
    ap.add_argument("--n", type=int, default=20000)
    ap.add_argument("--exe", default=None, help="path of the fpmodel driver (default: built tree)")
    ap.add_argument("--discipline", default="", choices=["", "legacy", "repaired"],
                    help="force the model's rev_string_map lookup discipline (development only)")
    a = ap.parse_args(argv)
    global DISCIPLINE
    DISCIPLINE = a.discipline
    model = Model(a.exe) if a.exe else get_model()
    summary, bad = run(a.seed, a.n, model)
    return 1 if bad else 0


if __name__ == "__main__":
    sys.exit(main())
