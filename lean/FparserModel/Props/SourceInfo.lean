import FparserModel.Proofs.SourceInfo
/-!
# Properties of the free/fixed heuristic (`get_source_info_str`)  — serves C05, C13

`detect src = true` ⇔ the source is taken to be free form.
-/
namespace Fp.SourceInfo
open Fp

/-- A line that can never make the heuristic answer "free":
    blank, or a `!` comment (not even counted), or — provided it does not END in `&` —
    a `c`/`C`/`*` comment, a TAB-initial line, or a line whose first five columns hold only
    blanks and digits (label field + continuation column of fixed form). -/
def FixedShaped (line : Str) : Prop :=
  rstrip line = [] ∨ (rstrip line).head? = some '!' ∨
  (endsAmp (rstrip line) = false ∧
    ((rstrip line).head? = some 'c' ∨ (rstrip line).head? = some 'C' ∨
     (rstrip line).head? = some '*' ∨ (rstrip line).head? = some '\t' ∨
     ∀ c ∈ (rstrip line).take 5, isSpace c = true ∨ isDigit c = true))

theorem votesFree_of_fixedShaped (line : Str) (h : FixedShaped line) : votesFree line = false := by
  unfold FixedShaped at h
  unfold votesFree counted
  cases hr : rstrip line with
  | nil => simp
  | cons c cs =>
    rw [hr] at h
    rcases h with h | h | ⟨hamp, h⟩
    · simp at h
    · simp at h; simp [h]
    · have : freeLine (c :: cs) = false := by
        unfold freeLine
        rw [hamp]
        rcases h with h | h | h | h | h
        · simp at h; subst h; simp [freeStart_comment]
        · simp at h; subst h; simp [freeStart_comment]
        · simp at h; subst h; simp [freeStart_comment]
        · simp at h; subst h; simp
        · have := freeStart_label_field _ h
          simp only [List.take_succ_cons] at this
          simp [this]
      simp [this]

/-- **detect_fixed**: a source made only of fixed-shaped lines is detected as fixed form
    (whatever its length). -/
theorem detect_fixed (src : Str) (h : ∀ line ∈ splitlines src, FixedShaped line) :
    detect src = false :=
  detectLoop_false _ _ fun l hl => votesFree_of_fixedShaped l (h l hl)

/-- **detect_free**: if one of the first 10000 counted lines (non-blank, non-`!`) votes free —
    its 5-column window matches `_FREE_FORMAT_START` and it does not start with a TAB, or it
    ends in `&` — the source is detected as free form. -/
theorem detect_free (src : Str) (pre : List Str) (l : Str) (post : List Str)
    (hs : splitlines src = pre ++ l :: post)
    (hcount : (pre.filter counted).length < 10000) (hl : votesFree l = true) :
    detect src = true := by
  unfold detect; rw [hs]; exact detectLoop_true pre l post _ hcount hl

/-- and conversely: "free" is only ever answered because some counted line voted free -/
theorem detect_free_only_if (src : Str) (h : detect src = true) :
    ∃ l ∈ splitlines src, votesFree l = true := by
  apply Classical.byContradiction
  intro hn
  have : ∀ l ∈ splitlines src, votesFree l = false := by
    intro l hl
    cases hv : votesFree l with
    | false => rfl
    | true => exact absurd ⟨l, hl, hv⟩ hn
  have := detectLoop_false (splitlines src) lineTally this
  unfold detect at h
  rw [h] at this; exact absurd this (by simp)

/-- first statement indented by 1–4 blanks (first character in columns 2–5), beginning with a
    character that is neither blank nor digit: free. -/
theorem detect_free_first_stmt_indented (src : Str) (pre : List Str) (l : Str) (post : List Str)
    (hs : splitlines src = pre ++ l :: post) (hpre : ∀ p ∈ pre, counted p = false)
    (k : Nat) (hk : 1 ≤ k ∧ k ≤ 4) (ch : Char) (rest : Str)
    (hr : rstrip l = List.replicate k ' ' ++ ch :: rest)
    (hch : isSpace ch = false ∧ isDigit ch = false) : detect src = true := by
  apply detect_free src pre l post hs
  · have : pre.filter counted = [] := by
      simp only [List.filter_eq_nil_iff]; intro p hp; simp [hpre p hp]
    simp [this]
  · unfold votesFree counted freeLine
    rw [hr]
    have hct : ch ≠ '\t' := by intro h; subst h; exact absurd hch.1 (by decide)
    obtain rfl | rfl | rfl | rfl : k = 1 ∨ k = 2 ∨ k = 3 ∨ k = 4 := by omega
    all_goals simp [List.replicate, freeStart, List.dropWhile_cons, (by decide : isSpace ' ' = true), hch.1, hch.2, hct]

/-- first statement starting in column 1 with a character other than `c C * !` and TAB, whose
    next non-blank character is still inside the 5-column window and is not a digit: free. -/
theorem detect_free_first_stmt_col1 (src : Str) (pre : List Str) (l : Str) (post : List Str)
    (hs : splitlines src = pre ++ l :: post) (hpre : ∀ p ∈ pre, counted p = false)
    (ch d : Char) (k : Nat) (hk : k ≤ 3) (rest : Str)
    (hr : rstrip l = ch :: (List.replicate k ' ' ++ d :: rest))
    (hch : ch ≠ 'c' ∧ ch ≠ 'C' ∧ ch ≠ '*' ∧ ch ≠ '!' ∧ ch ≠ '\t')
    (hd : isSpace d = false ∧ isDigit d = false) : detect src = true := by
  apply detect_free src pre l post hs
  · have : pre.filter counted = [] := by
      simp only [List.filter_eq_nil_iff]; intro p hp; simp [hpre p hp]
    simp [this]
  · unfold votesFree counted freeLine
    rw [hr]
    have hdt : d ≠ '\t' := by intro h; subst h; exact absurd hd.1 (by decide)
    obtain rfl | rfl | rfl | rfl : k = 0 ∨ k = 1 ∨ k = 2 ∨ k = 3 := by omega
    all_goals simp [List.replicate, freeStart, List.dropWhile_cons, (by decide : isSpace ' ' = true), hch, hd.1, hd.2, hdt]

/-! ## non-vacuity -/

-- a fixed-form source: every line is FixedShaped, so `detect_fixed` applies
example : detect "C comment\n      program p\n   10 continue\n     &  + 1\n\tx = 1\n      end\n".toList = false := by
  decide
example : FixedShaped "   10 continue  ".toList := by
  right; right; refine ⟨by decide, ?_⟩; right; right; right; right; decide
-- `detect_free` instances
example : detect "! header\n\nprogram p\nend program p\n".toList = true := by decide
example : votesFree "  x = 1".toList = true ∧ votesFree "      y = 2 &".toList = true := by decide
example : detect "  x = 1\n".toList = true :=
  detect_free_first_stmt_indented _ [] "  x = 1".toList [] (by decide) (by simp) 2 (by omega)
    'x' " = 1".toList (by decide) (by decide)
example : detect "a = b\n".toList = true :=
  detect_free_first_stmt_col1 _ [] "a = b".toList [] (by decide) (by simp) 'a' '=' 1 (by omega)
    " b".toList (by decide) (by decide) (by decide)

/-! ## the known misdetections (explicit NON-theorems, F-C05-1)

`detect_free` cannot be strengthened to "every free-form source is detected as free": a
free-form text in which NO line votes free is detected as fixed.  (One later line such as `end`
in column 1 rescues the whole file, which is why complete programs are rarely hit and
single-statement snippets are.) -/

/-- a labelled first statement is read as a fixed-form label field -/
theorem misdetect_labelled_first_stmt : detect "10 a = b\n20 b = c\n".toList = false := by decide
/-- a first statement beginning with `c` in column 1 (`call`, `character`, `complex`,
    `contains`, `common`, `close`, `cycle`, …) is read as a fixed-form comment line -/
theorem misdetect_c_in_column_1 : detect "call foo()\ncall bar()\n".toList = false := by decide
theorem misdetect_character_decl : detect "character(len=3) :: s\ncontains\n".toList = false := by decide
/-- a first statement whose name carries a digit in its second column (`x1 = 2`, `i2 = 0`):
    the digit fails `[^\s\d\t]` -/
theorem misdetect_digit_in_column_2 : detect "x1 = 2\ni2 = x1\n".toList = false := by decide
/-- a one-character first line -/
theorem misdetect_single_char : detect "a\n".toList = false := by decide
/-- and `detect_fixed` needs its "no trailing `&`" side condition: a fixed-form source with a
    `C`/`*` comment line that happens to end in `&` is detected as free -/
theorem misdetect_fixed_comment_amp :
    detect "C     see Smith &\n      x = 1\n      end\n".toList = true := by decide
/-- a fixed-form source whose statement text reaches column 1–5 only through a TAB after a
    label digit is fine, but a TAB *after* a blank is not -/
theorem misdetect_fixed_blank_tab : detect " \tx = 1\n      end\n".toList = true := by decide

end Fp.SourceInfo
