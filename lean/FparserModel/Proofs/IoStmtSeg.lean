import FparserModel.Proofs.IoStmtSrm
import FparserModel.Proofs.IoStmtBasic
import FparserModel.Proofs.CombiTok
/-!
Pieces of a tokenised line.  `Seg m X`: `X` is a well-formed token text over the map `m`.  A cut of
such a text at a place that cannot be inside a placeholder key (`Bnd`) gives two such texts, and
`repmap` (`applyMap`) distributes over the cut.  Consequences for the string operations used by the
statement matchers: cutting at a non-word character, `strip`/`lstrip`/`rstrip`, `split(c)`.
Entry point: `seg_of_tokenise`.
-/
namespace Fp.IoStmt
open Fp Fp.Splitline
open Fp.Combi (noBlank)

/-- `X` is a well-formed token text over the map `m` (a piece of a tokenised line) -/
def Seg (m : Map) (X : Str) : Prop := ∃ ts, rawJoin ts = X ∧ WF m ts

/-- a cut that cannot fall inside a placeholder key (keys consist of word characters) -/
def Bnd (A B : Str) : Prop :=
  A = [] ∨ B = [] ∨ (∃ c, A.getLast? = some c ∧ isWord c = false) ∨ (∃ c, B.head? = some c ∧ isWord c = false)

/-! ## characters -/

theorem isWord_of_isSpace {c : Char} (h : isSpace c = true) : isWord c = false := by
  rcases isSpace_cases h with h | h | h | h | h | h | h | h | h | h <;> subst h <;> decide

theorem nonword_ne {c : Char} (hc : isWord c = false) : c ≠ 'F' ∧ c ≠ '_' := by
  constructor
  · intro e; subst e; exact absurd hc (by decide)
  · intro e; subst e; exact absurd hc (by decide)

theorem IsKey_word (k : Str) (hk : IsKey k) : ∀ c ∈ k, isWord c = true := by
  have hp1 : ∀ c ∈ strPrefix, isWord c = true := by unfold strPrefix; decide
  have hp2 : ∀ c ∈ realPrefix, isWord c = true := by unfold realPrefix; decide
  have hp3 : ∀ c ∈ exprPrefix, isWord c = true := by unfold exprPrefix; decide
  have hd : ∀ n, ∀ c ∈ natStr n, isWord c = true :=
    fun n c hc => (isDigit_props c ((natStr_spec n).2.1 c hc)).2.2.1
  have hu : isWord '_' = true := by decide
  obtain ⟨n, h | h | h⟩ := hk <;> subst h <;> intro c hc
  · simp only [strKey, List.mem_append, List.mem_singleton] at hc
    rcases hc with (hc | hc) | hc
    · exact hp1 c hc
    · exact hd n c hc
    · subst hc; exact hu
  · simp only [realKey, List.mem_append, List.mem_singleton] at hc
    rcases hc with (hc | hc) | hc
    · exact hp2 c hc
    · exact hd n c hc
    · subst hc; exact hu
  · simp only [exprKey, List.mem_append] at hc
    rcases hc with hc | hc
    · exact hp3 c hc
    · exact hd n c hc

/-! ## cutting a token text -/

theorem KeyOK_prefix {k a b : Str} (h : KeyOK k (a ++ b)) : KeyOK k a := by
  rcases h with h | h | ⟨n, h, hr⟩
  · exact .inl h
  · exact .inr (.inl h)
  · refine .inr (.inr ⟨n, h, ?_⟩)
    intro c hc
    cases a with
    | nil => simp at hc
    | cons x a => exact hr c (by simpa using hc)

theorem Bnd.dropLeft {s a B : Str} (h : Bnd (s ++ a) B) : Bnd a B := by
  by_cases ha : a = []
  · exact .inl ha
  · rcases h with h | h | ⟨c, h1, h2⟩ | h
    · simp at h; exact .inl h.2
    · exact .inr (.inl h)
    · refine .inr (.inr (.inl ⟨c, ?_, h2⟩))
      rw [List.getLast?_append] at h1
      cases hl : a.getLast? with
      | none => exact absurd (List.getLast?_eq_none_iff.mp hl) ha
      | some x => rw [hl] at h1; simpa using h1
    · exact .inr (.inr (.inr h))

theorem split_core {m : Map} {B : Str} (ts : List Tok) : ∀ (A : Str), rawJoin ts = A ++ B →
    WFk m ts → Bnd A B →
    ∃ ts1 ts2, rawJoin ts1 = A ∧ rawJoin ts2 = B ∧ WFk m ts1 ∧ WFk m ts2 ∧
      valJoin ts = valJoin ts1 ++ valJoin ts2 := by
  induction ts with
  | nil =>
    intro A h _ _
    have h' : A = [] ∧ B = [] := by simpa using h.symm
    exact ⟨[], [], h'.1.symm, h'.2.symm, trivial, trivial, rfl⟩
  | cons t ts ih =>
    intro A h hw hb
    cases t with
    | chunk s =>
      rw [rawJoin_cons] at h
      simp only [Tok.raw] at h
      rcases List.append_eq_append_iff.mp h with ⟨a', hA, h2⟩ | ⟨c', hs, h2⟩
      · subst hA
        obtain ⟨ts1, ts2, e1, e2, w1, w2, ev⟩ := ih a' h2 hw hb.dropLeft
        exact ⟨.chunk s :: ts1, ts2, by simp [Tok.raw, e1], e2, w1, w2, by simp [Tok.val, ev]⟩
      · subst hs
        exact ⟨[.chunk A], .chunk c' :: ts, by simp [Tok.raw], by simp [Tok.raw, h2], trivial, hw,
          by simp [Tok.val]⟩
    | key k v =>
      rw [rawJoin_cons] at h
      simp only [Tok.raw] at h
      have hw1 : KeyOK k (rawJoin ts) := hw.1
      have hw2 : m.get? k = some v := hw.2.1
      have hw3 : WFk m ts := hw.2.2
      rcases List.append_eq_append_iff.mp h with ⟨a', hA, h2⟩ | ⟨c', hk, h2⟩
      · subst hA
        obtain ⟨ts1, ts2, e1, e2, w1, w2, ev⟩ := ih a' h2 hw3 hb.dropLeft
        have hk1 : KeyOK k (rawJoin ts1) := by
          rw [e1]; rw [h2] at hw1; exact KeyOK_prefix hw1
        exact ⟨.key k v :: ts1, ts2, by simp [Tok.raw, e1], e2, ⟨hk1, hw2, w1⟩, w2,
          by simp [Tok.val, ev]⟩
      · by_cases hA : A = []
        · subst hA
          exact ⟨[], .key k v :: ts, rfl, by simpa [Tok.raw] using h, trivial, hw, by simp⟩
        · by_cases hc : c' = []
          · subst hc
            have hk' : k = A := by simpa using hk
            have h2' : B = rawJoin ts := by simpa using h2
            subst hk'
            have hk1 : KeyOK k (rawJoin []) := KeyOK_prefix (a := []) (b := rawJoin ts) (by simpa using hw1)
            exact ⟨[.key k v], ts, by simp [Tok.raw], h2'.symm, ⟨hk1, hw2, trivial⟩, hw3, by simp⟩
          · exfalso
            have hkw := IsKey_word k hw1.isKey
            rcases hb with h0 | h0 | ⟨c, h1, h3⟩ | ⟨c, h1, h3⟩
            · exact hA h0
            · rw [h2] at h0; simp at h0; exact hc h0.1
            · have hm : c ∈ k := by
                rw [hk]; exact List.mem_append_left _ (List.mem_of_getLast? h1)
              rw [hkw c hm] at h3; cases h3
            · have hm : c ∈ k := by
                rw [hk]; apply List.mem_append_right
                cases c' with
                | nil => exact absurd rfl hc
                | cons x c'' =>
                  rw [h2] at h1
                  have : x = c := by simpa using h1
                  subst this; simp
              rw [hkw c hm] at h3; cases h3

theorem Seg.split {m : Map} {A B : Str} (h : Seg m (A ++ B)) (hb : Bnd A B) :
    Seg m A ∧ Seg m B ∧ applyMap m (A ++ B) = applyMap m A ++ applyMap m B := by
  obtain ⟨ts, e, hw⟩ := h
  obtain ⟨ts1, ts2, e1, e2, w1, w2, ev⟩ := split_core ts A e hw.1 hb
  have hf : Free (valJoin ts1 ++ valJoin ts2) := ev ▸ hw.2
  have f1 : Free (valJoin ts1) := Free_append_left _ _ hf
  have f2 : Free (valJoin ts2) := Free_append_right _ _ hf
  refine ⟨⟨ts1, e1, w1, f1⟩, ⟨ts2, e2, w2, f2⟩, ?_⟩
  rw [← e, applyMap_toks ts hw, ev, ← e1, ← e2, applyMap_toks ts1 ⟨w1, f1⟩,
    applyMap_toks ts2 ⟨w2, f2⟩]

/-! ## texts without key characters -/

theorem keyFindAllAux_noKeyChars : ∀ (w : Str), (∀ c ∈ w, c ≠ 'F' ∧ c ≠ '_') →
    ∀ fuel, keyFindAllAux fuel w = []
  | [], _, fuel => by cases fuel <;> rfl
  | c :: w, h, fuel => by
    cases fuel with
    | zero => rfl
    | succ f =>
      unfold keyFindAllAux
      rw [matchKey_other c w (h c (by simp)).1 (h c (by simp)).2]
      exact keyFindAllAux_noKeyChars w (fun d hd => h d (List.mem_cons_of_mem _ hd)) f

theorem applyMap_noKeyChars (m : Map) (w : Str) (h : ∀ c ∈ w, c ≠ 'F' ∧ c ≠ '_') : applyMap m w = w := by
  unfold applyMap keyFindAll
  rw [keyFindAllAux_noKeyChars w h]
  rfl

theorem applyMap_blanks (m : Map) {w : Str} (h : ∀ c ∈ w, isSpace c = true) : applyMap m w = w :=
  applyMap_noKeyChars m w (fun c hc => nonword_ne (isWord_of_isSpace (h c hc)))

/-! ## cutting at a non-word character -/

theorem Seg.sep {m : Map} {A B : Str} {c : Char} (hc : isWord c = false) (h : Seg m (A ++ c :: B)) :
    Seg m A ∧ Seg m B ∧ applyMap m (A ++ c :: B) = applyMap m A ++ c :: applyMap m B := by
  obtain ⟨sA, sCB, e1⟩ := Seg.split h (.inr (.inr (.inr ⟨c, rfl, hc⟩)))
  have sCB' : Seg m ([c] ++ B) := sCB
  obtain ⟨_, sB, e2⟩ := Seg.split sCB' (.inr (.inr (.inl ⟨c, rfl, hc⟩)))
  have e3 : applyMap m [c] = [c] :=
    applyMap_noKeyChars m [c] (fun d hd => by
      have : d = c := by simpa using hd
      subst this; exact nonword_ne hc)
  refine ⟨sA, sB, ?_⟩
  rw [e1]
  show applyMap m A ++ applyMap m ([c] ++ B) = _
  rw [e2, e3]; rfl

theorem applyMap_empty (m : Map) : applyMap m [] = [] :=
  applyMap_noKeyChars m [] (fun c hc => by simp at hc)

theorem Seg.drop1 {m : Map} {c : Char} {X : Str} (hc : isWord c = false) (h : Seg m (c :: X)) :
    Seg m X ∧ applyMap m (c :: X) = c :: applyMap m X := by
  have h' : Seg m ([] ++ c :: X) := h
  obtain ⟨_, sX, e⟩ := Seg.sep hc h'
  refine ⟨sX, ?_⟩
  have e' : applyMap m (c :: X) = applyMap m [] ++ c :: applyMap m X := e
  rw [e', applyMap_empty]; rfl

theorem Seg.dropLast1 {m : Map} {c : Char} {X : Str} (hc : isWord c = false) (h : Seg m (X ++ [c])) :
    Seg m X ∧ applyMap m (X ++ [c]) = applyMap m X ++ [c] := by
  obtain ⟨sX, _, e⟩ := Seg.sep hc h
  refine ⟨sX, ?_⟩
  rw [e, applyMap_empty]

/-! ## the strip family -/

theorem rstrip_decomp (s : Str) : ∃ w, s = rstrip s ++ w ∧ ∀ c ∈ w, isSpace c = true := by
  refine ⟨(s.reverse.takeWhile isSpace).reverse, ?_, ?_⟩
  · unfold rstrip
    rw [← List.reverse_append, List.takeWhile_append_dropWhile, List.reverse_reverse]
  · intro c hc
    exact mem_takeWhile_p _ _ _ (List.mem_reverse.mp hc)

/-- a blank prefix can be cut off -/
theorem Seg.dropBlanksLeft {m : Map} {w Y : Str} (hw : ∀ c ∈ w, isSpace c = true) (h : Seg m (w ++ Y)) :
    Seg m Y ∧ noBlank (applyMap m Y) = noBlank (applyMap m (w ++ Y)) := by
  have hb : Bnd w Y := by
    cases hl : w.getLast? with
    | none => exact .inl (List.getLast?_eq_none_iff.mp hl)
    | some c => exact .inr (.inr (.inl ⟨c, hl, isWord_of_isSpace (hw c (List.mem_of_getLast? hl))⟩))
  obtain ⟨_, sY, e⟩ := Seg.split h hb
  refine ⟨sY, ?_⟩
  rw [e, applyMap_blanks m hw, Combi.noBlank_append, Combi.noBlank_blanks hw]; rfl

/-- a blank suffix can be cut off -/
theorem Seg.dropBlanksRight {m : Map} {w Y : Str} (hw : ∀ c ∈ w, isSpace c = true) (h : Seg m (Y ++ w)) :
    Seg m Y ∧ noBlank (applyMap m Y) = noBlank (applyMap m (Y ++ w)) := by
  have hb : Bnd Y w := by
    cases w with
    | nil => exact .inr (.inl rfl)
    | cons c w' => exact .inr (.inr (.inr ⟨c, rfl, isWord_of_isSpace (hw c (by simp))⟩))
  obtain ⟨sY, _, e⟩ := Seg.split h hb
  refine ⟨sY, ?_⟩
  rw [e, applyMap_blanks m hw, Combi.noBlank_append, Combi.noBlank_blanks hw]; simp

theorem Seg.lstrip {m : Map} {X : Str} (h : Seg m X) :
    Seg m (lstrip X) ∧ noBlank (applyMap m (lstrip X)) = noBlank (applyMap m X) := by
  obtain ⟨w, e, hw⟩ := Combi.lstrip_decomp X
  generalize Fp.lstrip X = Y at e ⊢
  subst e
  exact Seg.dropBlanksLeft hw h

theorem Seg.rstrip {m : Map} {X : Str} (h : Seg m X) :
    Seg m (rstrip X) ∧ noBlank (applyMap m (rstrip X)) = noBlank (applyMap m X) := by
  obtain ⟨w, e, hw⟩ := rstrip_decomp X
  generalize Fp.rstrip X = Y at e ⊢
  subst e
  exact Seg.dropBlanksRight hw h

theorem Seg.strip {m : Map} {X : Str} (h : Seg m X) :
    Seg m (strip X) ∧ noBlank (applyMap m (strip X)) = noBlank (applyMap m X) := by
  obtain ⟨s1, e1⟩ := Seg.rstrip h
  obtain ⟨s2, e2⟩ := Seg.lstrip s1
  exact ⟨s2, e2.trans e1⟩

/-! ## `split(c)` -/

theorem exists_first {c : Char} : ∀ (X : Str), c ∈ X → ∃ a b, X = a ++ c :: b ∧ c ∉ a
  | [], h => by simp at h
  | x :: X, h => by
    by_cases hx : x = c
    · subst hx; exact ⟨[], X, rfl, by simp⟩
    · have hm : c ∈ X := by
        rcases List.mem_cons.mp h with e | e
        · exact absurd e.symm hx
        · exact e
      obtain ⟨a, b, e, ha⟩ := exists_first X hm
      refine ⟨x :: a, b, by simp [e], ?_⟩
      simp only [List.mem_cons, not_or]
      exact ⟨fun e' => hx e'.symm, ha⟩

theorem Seg.splitC_aux {m : Map} {c : Char} (hc : isWord c = false) (n : Nat) :
    ∀ (X : Str), X.length ≤ n → Seg m X →
      (∀ p ∈ splitC c X, Seg m p) ∧
      applyMap m X = Combi.joinStr [c] ((splitC c X).map (applyMap m)) := by
  induction n with
  | zero =>
    intro X hn h
    have : X = [] := by simpa using hn
    subst this
    refine ⟨?_, ?_⟩
    · intro p hp
      have : p = [] := by simpa [splitC, Combi.splitGo] using hp
      subst this; exact h
    · simp [splitC, Combi.splitGo, Combi.joinStr]
  | succ n ih =>
    intro X hn h
    by_cases hm : c ∈ X
    · obtain ⟨a, b, rfl, ha⟩ := exists_first X hm
      obtain ⟨sa, sb, e⟩ := Seg.sep hc h
      obtain ⟨i1, i2⟩ := ih b (by simp at hn; omega) sb
      have hs : splitC c (a ++ c :: b) = a :: splitC c b := Combi.splitGo_char_append c a b ha
      rw [hs]
      refine ⟨?_, ?_⟩
      · intro p hp
        rcases List.mem_cons.mp hp with rfl | hp
        · exact sa
        · exact i1 p hp
      · have hne : (splitC c b).map (applyMap m) ≠ [] := by
          simpa [splitC] using Combi.splitGo_ne_nil [c] b 0
        rw [List.map_cons, Combi.joinStr_cons_ne _ _ hne, e, ← i2]
        simp
    · have hs : splitC c X = [X] := Combi.splitGo_char_last c X hm
      rw [hs]
      exact ⟨by simpa using h, by simp [Combi.joinStr]⟩

/-- pieces of `X.split(c)` for a non-word separator -/
theorem Seg.splitC {m : Map} {X : Str} {c : Char} (hc : isWord c = false) (h : Seg m X) :
    (∀ p ∈ splitC c X, Seg m p) ∧
    applyMap m X = Combi.joinStr [c] ((splitC c X).map (applyMap m)) :=
  Seg.splitC_aux hc X.length X (Nat.le_refl _) h

/-! ## `squeeze` keeps the non-blank characters -/

theorem noBlank_dropAfter (p : Char → Bool) : ∀ (s : Str) (sk : Bool),
    noBlank (dropAfter p sk s) = noBlank s
  | [], sk => by simp
  | c :: cs, sk => by
    rw [dropAfter_cons]
    by_cases h : (sk && isSpace c) = true
    · rw [if_pos h, noBlank_dropAfter p cs true]
      have hsp : isSpace c = true := by
        simp only [Bool.and_eq_true] at h; exact h.2
      simp [noBlank, hsp]
    · rw [if_neg h]
      have ih := noBlank_dropAfter p cs (p c)
      simp only [noBlank, List.filter_cons] at ih ⊢
      rw [ih]

theorem noBlank_reverse (u : Str) : noBlank u.reverse = (noBlank u).reverse := by
  simp [noBlank, List.filter_reverse]

theorem noBlank_squeeze (s : Str) : noBlank (squeeze s) = noBlank s := by
  unfold squeeze
  rw [noBlank_reverse, noBlank_dropAfter, noBlank_reverse, List.reverse_reverse, noBlank_dropAfter]

/-! ## entry point -/

/-- the entry point: the tokenised text of an `SrmOK` line -/
theorem seg_of_tokenise {l : Str} {r : SrmResult} (hs : SrmOK l) (hr : Combi.tokenise l = some r) :
    Seg r.map r.text ∧ noBlank (applyMap r.map r.text) = noBlank l := by
  obtain ⟨r', ts, h1, h2, h3, h4⟩ := srm_toks_io l hs.1 hs.2
  have hr' : stringReplaceMap l false = some r := hr
  rw [h1] at hr'
  cases hr'
  refine ⟨⟨ts, h2.symm, h3⟩, ?_⟩
  rw [h2, applyMap_toks ts h3, ← noBlank_squeeze (valJoin ts), h4, noBlank_squeeze]

theorem tokenise_some_of_srmOK {l : Str} (hs : SrmOK l) : ∃ r, Combi.tokenise l = some r := by
  obtain ⟨r, _, h1, _⟩ := srm_toks_io l hs.1 hs.2
  exact ⟨r, h1⟩

end Fp.IoStmt

#print axioms Fp.IoStmt.IsKey_word
#print axioms Fp.IoStmt.Seg.split
#print axioms Fp.IoStmt.applyMap_noKeyChars
#print axioms Fp.IoStmt.Seg.sep
#print axioms Fp.IoStmt.Seg.drop1
#print axioms Fp.IoStmt.Seg.dropLast1
#print axioms Fp.IoStmt.Seg.lstrip
#print axioms Fp.IoStmt.Seg.rstrip
#print axioms Fp.IoStmt.Seg.strip
#print axioms Fp.IoStmt.Seg.splitC
#print axioms Fp.IoStmt.noBlank_squeeze
#print axioms Fp.IoStmt.seg_of_tokenise
#print axioms Fp.IoStmt.tokenise_some_of_srmOK
