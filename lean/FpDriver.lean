import FparserModel.Wire

/-! dispatcher: one handler per model; each handler lives in FpDriver/<Model>.lean -/
namespace FpDriver
open Fp.Wire

def dispatch (line : String) : String :=
  match fields line with
  | "ping" :: rest => "OK\t" ++ "\t".intercalate rest
  | cmd :: _ => "ERR\t" ++ enc ("unknown command " ++ cmd)
  | [] => "ERR"

end FpDriver
