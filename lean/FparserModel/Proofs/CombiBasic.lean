import FparserModel.Combi
import FparserModel.Proofs.Norm
import FparserModel.Proofs.SplitlineSrm2Split
/-!
helper lemmas for `Props/Combi.lean` (no Mathlib): Python `strip` family, `split`/`join`,
`cutFirst`/`cutLast`, and the fail-fast child runner.
-/
namespace Fp.Combi
open Fp Fp.Splitline

variable {Node : Type}

/-! ### strip family -/

theorem isSpace_space : isSpace ' ' = true := by decide

theorem lstrip_nil : lstrip [] = [] := rfl

theorem lstrip_cons_space {c : Char} (s : Str) (h : isSpace c = true) :
    lstrip (c :: s) = lstrip s := by
  simp [lstrip, List.dropWhile_cons, h]

theorem lstrip_cons_nonspace {c : Char} (s : Str) (h : isSpace c = false) :
    lstrip (c :: s) = c :: s := by
  simp [lstrip, List.dropWhile_cons, h]

theorem lstrip_length_le (s : Str) : (lstrip s).length ≤ s.length :=
  (List.dropWhile_suffix _).length_le

/-- `s.lstrip() == s` means: empty or the first character is not a blank -/
theorem lstrip_self_head {c : Char} {s : Str} (h : lstrip (c :: s) = c :: s) : isSpace c = false := by
  cases hc : isSpace c with
  | false => rfl
  | true =>
    rw [lstrip_cons_space s hc] at h
    have := lstrip_length_le s
    rw [h] at this
    simp at this
    omega

theorem lstrip_append_of_self {a : Str} (b : Str) (h : lstrip a = a) (hne : a ≠ []) :
    lstrip (a ++ b) = a ++ b := by
  cases a with
  | nil => exact absurd rfl hne
  | cons c a' =>
    have hc := lstrip_self_head h
    simpa using lstrip_cons_nonspace (a' ++ b) hc

theorem lstrip_space_cons (s : Str) : lstrip (' ' :: s) = lstrip s :=
  lstrip_cons_space s isSpace_space

theorem rstrip_eq (s : Str) : rstrip s = (lstrip s.reverse).reverse := rfl

theorem rstrip_append_of_self (a : Str) {b : Str} (h : rstrip b = b) (hne : b ≠ []) :
    rstrip (a ++ b) = a ++ b := by
  have h' : lstrip b.reverse = b.reverse := by
    have := congrArg List.reverse h
    simpa [rstrip_eq] using this
  have hne' : b.reverse ≠ [] := by simpa using hne
  rw [rstrip_eq, List.reverse_append, lstrip_append_of_self _ h' hne']
  simp

theorem rstrip_append_space (s : Str) : rstrip (s ++ [' ']) = rstrip s := by
  rw [rstrip_eq, rstrip_eq]
  simp [lstrip_space_cons]

theorem rstrip_length_le (s : Str) : (rstrip s).length ≤ s.length := by
  rw [rstrip_eq]
  simpa using lstrip_length_le s.reverse

/-- `" " + t` and `t + " "` strip back to a tight `t` -/
theorem strip_space_left {t : Str} (hl : lstrip t = t) (hr : rstrip t = t) :
    strip (' ' :: t) = t := by
  cases t with
  | nil => decide
  | cons c t' =>
    have : rstrip (' ' :: c :: t') = ' ' :: c :: t' := by
      simpa using rstrip_append_of_self [' '] hr (by simp)
    rw [strip, this, lstrip_space_cons, hl]

theorem strip_space_right {t : Str} (hl : lstrip t = t) (hr : rstrip t = t) :
    strip (t ++ [' ']) = t := by
  rw [strip, rstrip_append_space, hr, hl]

theorem strip_self {t : Str} (hl : lstrip t = t) (hr : rstrip t = t) : strip t = t := by
  rw [strip, hr, hl]

/-- `(left + t + right).strip()` is the identity when `left` starts and `right` ends with a
    non-blank -/
theorem strip_sandwich {l r : Str} (m : Str) (hl : lstrip l = l) (hln : l ≠ [])
    (hr : rstrip r = r) (hrn : r ≠ []) : strip (l ++ m ++ r) = l ++ m ++ r := by
  rw [strip, rstrip_append_of_self _ hr hrn, List.append_assoc, lstrip_append_of_self _ hl hln]

/-! ### deleting all blanks: the "modulo blanks" of the soundness statements -/

/-- the text with every white-space character deleted -/
def noBlank (s : Str) : Str := s.filter (fun c => !isSpace c)

theorem noBlank_append (a b : Str) : noBlank (a ++ b) = noBlank a ++ noBlank b :=
  List.filter_append _ _

theorem noBlank_blanks {w : Str} (h : ∀ c ∈ w, isSpace c = true) : noBlank w = [] := by
  simp only [noBlank, List.filter_eq_nil_iff]
  intro c hc
  simp [h c hc]

theorem noBlank_strip (s : Str) : noBlank (strip s) = noBlank s := by
  obtain ⟨w1, w2, h, h1, h2⟩ := strip_decomp s
  conv => rhs; rw [h]
  simp [noBlank_append, noBlank_blanks h1, noBlank_blanks h2]

theorem lstrip_decomp (s : Str) : ∃ w, s = w ++ lstrip s ∧ ∀ c ∈ w, isSpace c = true :=
  ⟨s.takeWhile isSpace, by simp [lstrip, List.takeWhile_append_dropWhile],
    fun c hc => mem_takeWhile_p _ _ _ hc⟩

theorem noBlank_lstrip (s : Str) : noBlank (lstrip s) = noBlank s := by
  obtain ⟨w, h, h1⟩ := lstrip_decomp s
  conv => rhs; rw [h]
  simp [noBlank_append, noBlank_blanks h1]

theorem noBlank_rstrip (s : Str) : noBlank (rstrip s) = noBlank s := by
  have key : ∀ u : Str, noBlank u.reverse = (noBlank u).reverse := by
    intro u; simp [noBlank, List.filter_reverse]
  rw [rstrip_eq, key, noBlank_lstrip, key]
  simp

/-! ### `cutFirst` / `cutLast` -/

theorem cutFirst_append {c : Char} : ∀ (a b : Str), c ∉ a → cutFirst c (a ++ c :: b) = some (a, b)
  | [], b, _ => by simp [cutFirst]
  | x :: a, b, h => by
    have hx : (x == c) = false := by
      simp only [List.mem_cons, not_or] at h
      simpa using fun e => h.1 e.symm
    have ih := cutFirst_append a b (fun hm => h (List.mem_cons_of_mem _ hm))
    simp [cutFirst, hx, ih]

/-- nothing is dropped at the cut -/
theorem cutFirst_spec {c : Char} : ∀ (s a b : Str), cutFirst c s = some (a, b) →
    s = a ++ c :: b ∧ c ∉ a
  | [], a, b, h => by simp [cutFirst] at h
  | x :: s, a, b, h => by
    unfold cutFirst at h
    by_cases hx : (x == c) = true
    · simp only [hx, if_true, Option.some.injEq, Prod.mk.injEq] at h
      obtain ⟨rfl, rfl⟩ := h
      have : x = c := by simpa using hx
      subst this
      simp
    · simp only [hx] at h
      cases hr : cutFirst c s with
      | none => simp [hr] at h
      | some p =>
        simp only [hr, Option.some.injEq, Prod.mk.injEq] at h
        obtain ⟨rfl, rfl⟩ := h
        obtain ⟨h1, h2⟩ := cutFirst_spec s p.1 p.2 (by rw [hr])
        refine ⟨by rw [h1]; simp, ?_⟩
        simp only [List.mem_cons, not_or]
        exact ⟨fun e => hx (by simp [e]), h2⟩

theorem cutFirst_none {c : Char} : ∀ (s : Str), c ∉ s → cutFirst c s = none
  | [], _ => rfl
  | x :: s, h => by
    have hx : (x == c) = false := by
      simp only [List.mem_cons, not_or] at h
      simpa using fun e => h.1 e.symm
    simp [cutFirst, hx, cutFirst_none s (fun hm => h (List.mem_cons_of_mem _ hm))]

theorem cutLast_none {c : Char} : ∀ (s : Str), c ∉ s → cutLast c s = none
  | [], _ => rfl
  | x :: s, h => by
    have hx : (x == c) = false := by
      simp only [List.mem_cons, not_or] at h
      simpa using fun e => h.1 e.symm
    simp [cutLast, hx, cutLast_none s (fun hm => h (List.mem_cons_of_mem _ hm))]

theorem cutLast_append {c : Char} : ∀ (a b : Str), c ∉ b → cutLast c (a ++ c :: b) = some (a, b)
  | [], b, h => by simp [cutLast, cutLast_none b h]
  | x :: a, b, h => by
    simp [cutLast, cutLast_append a b h]

theorem cutLast_spec {c : Char} : ∀ (s a b : Str), cutLast c s = some (a, b) →
    s = a ++ c :: b ∧ c ∉ b
  | [], a, b, h => by simp [cutLast] at h
  | x :: s, a, b, h => by
    unfold cutLast at h
    cases hr : cutLast c s with
    | some p =>
      simp only [hr, Option.some.injEq, Prod.mk.injEq] at h
      obtain ⟨rfl, rfl⟩ := h
      obtain ⟨h1, h2⟩ := cutLast_spec s p.1 p.2 (by rw [hr])
      exact ⟨by rw [h1]; simp, h2⟩
    | none =>
      simp only [hr] at h
      by_cases hx : (x == c) = true
      · simp only [hx, if_true, Option.some.injEq, Prod.mk.injEq] at h
        obtain ⟨rfl, rfl⟩ := h
        have : x = c := by simpa using hx
        subst this
        refine ⟨by simp, ?_⟩
        intro hm
        have : ∀ (t : Str), x ∈ t → cutLast x t ≠ none := by
          intro t
          induction t with
          | nil => simp
          | cons y t ih =>
            intro hy
            unfold cutLast
            cases hq : cutLast x t with
            | some q => simp
            | none =>
              rcases List.mem_cons.mp hy with e | e
              · simp [e]
              · exact absurd hq (ih e)
        exact this s hm hr
      · simp [hx] at h

/-! ### the child runner -/

/-- the children of a tuple re-match from their printed texts -/
def ChildRT (o : Oracle Node) (c : ClassId) (x : Node) : Prop :=
  o.childMatch c (o.childStr x) = some x

theorem runSlots_pair (o : Oracle Node) (a b : Slot) (ia ib : Item Node)
    (ha : runSlot o a = some ia) (hb : runSlot o b = some ib) :
    runSlots o [a, b] = some [ia, ib] := by
  simp [runSlots, ha, hb]

theorem runSlot_child (o : Oracle Node) (c : ClassId) (x : Node) (h : ChildRT o c x) :
    runSlot o (.child c (o.childStr x)) = some (.node x) := by
  unfold ChildRT at h
  simp [runSlot, h]

end Fp.Combi
