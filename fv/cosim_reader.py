"""Co-simulation of the reader model M-B (lean/FparserModel/Reader.lean) against the real
`fparser.common.readfortran` reader.

  check_case(model, case) -> None | dict     compare one case
  gen_cases(rng, n)       -> iterator of cases (layout generator, see below)
  main()                  -> `python -m fv.cosim_reader --seed 0 --n 3000`

A case is a dict:
  src    main source text (read through FortranStringReader)
  mode   'free' | 'fixed'   (forced with set_format(FortranFormat(is_free, False)))
  ic, omp, pd              ignore_comments, include_omp_conditional_lines, process_directives
  dirs   include_dirs, relative to a scratch root
  fs     list of (relative path, text | None)    None = a directory
  script None (drain with get_item) or a string over {g, p} (get_item / put back last item)
  feat   set of feature tags (statistics only)
"""
import argparse
import logging
import os
import random
import shutil
import sys
import tempfile
import time

from fv import repo

repo.activate()

from fparser.common.readfortran import (  # noqa: E402
    FortranStringReader, Line, Comment, CppDirective, SyntaxErrorLine)
from fparser.common.sourceinfo import FortranFormat, get_source_info  # noqa: E402
from fv.model import Model  # noqa: E402

logging.disable(logging.CRITICAL)


# ----------------------------------------------------------------------------- real side
def canon(item):
    if item is None:
        return "NONE"
    if isinstance(item, Comment):
        return "C\t-\t-\t%d\t%d\t%s\t%s" % (item.span[0], item.span[1],
                                           "1" if item.inline else "0", item.comment)
    if isinstance(item, SyntaxErrorLine):
        k = "S"
    elif isinstance(item, CppDirective):
        k = "P"
    elif isinstance(item, Line):
        k = "L"
    else:
        return "OTHER\t" + repr(item)
    lab = "-" if item.label is None else str(item.label)
    nam = "-" if item.name is None else item.name
    return "%s\t%s\t%s\t%d\t%d\t-\t%s" % (k, lab, nam, item.span[0], item.span[1], item.line)


def _exhausted(r):
    return r.reader is None and r.isclosed and not r.filo_line and not r.fifo_item


def _mk_reader(case, root):
    dirs = [os.path.join(root, d) if d != "" else root + "/" for d in case["dirs"]]
    r = FortranStringReader(case["src"], include_dirs=dirs, ignore_comments=case["ic"],
                            include_omp_conditional_lines=case["omp"],
                            process_directives=case["pd"])
    r.set_format(FortranFormat(case["mode"] == "free", False))
    return r, dirs


def run_real(case, root):
    """-> list of event strings (same format as the model driver)"""
    r, _ = _mk_reader(case, root)
    out = []
    if case.get("script") is None:
        cap = 4 * sum(len(t or "") + 2 for _, t in case["fs"]) + 4 * (len(case["src"]) + 2) + 64
        for _ in range(cap):
            try:
                item = r.get_item()
            except SystemExit:
                out.append("EXIT")
                break
            if item is None:
                if _exhausted(r):
                    break
                out.append("NONE")
            else:
                out.append(canon(item))
        out.append("LC %d %d" % (r.linecount, len(r.source_lines)))
        return out
    got = []
    dead = False
    for op in case["script"]:
        if op == "g":
            if dead:
                out.append("EXIT\t@%d" % r.linecount)
                continue
            try:
                item = r.get_item()
            except SystemExit:
                out.append("EXIT\t@%d" % r.linecount)
                dead = True
                continue
            if item is not None:
                got.append(item)
            out.append("%s\t@%d" % (canon(item), r.linecount))
        elif op == "p":
            if got:
                r.put_item(got.pop())
                out.append("PUT\t@%d" % r.linecount)
            else:
                out.append("NOP\t@%d" % r.linecount)
    return out


def materialise(case, root):
    """write the abstract file system under root; -> model fs triples with absolute paths"""
    triples = []
    for rel, text in case["fs"]:
        path = os.path.join(root, rel)
        if text is None:
            os.makedirs(path, exist_ok=True)
            triples.append((path, "D", ""))
        else:
            os.makedirs(os.path.dirname(path), exist_ok=True)
            with open(path, "w", encoding="utf-8", newline="") as f:
                f.write(text)
    for rel, text in case["fs"]:
        if text is None:
            continue
        path = os.path.join(root, rel)
        fmt = get_source_info(path)           # format detection is another slice: oracle
        kind = "S" if fmt.is_strict else ("F" if fmt.is_free else "X")
        triples.append((path, kind, text))
    # every directory that exists is visible to os.path.exists
    seen = {t[0] for t in triples}
    for dp, dns, _ in os.walk(root):
        for d in dns:
            p = os.path.join(dp, d)
            if p not in seen:
                triples.append((p, "D", ""))
    return triples


def run_model(model, case, root, triples):
    dirs = [os.path.join(root, d) if d != "" else root + "/" for d in case["dirs"]]
    flags = "".join("1" if case[k] else "0" for k in ("ic", "omp", "pd"))
    fields = [case["src"], case["mode"], flags, str(len(dirs))] + dirs
    for t in triples:
        fields.extend(t)
    if case.get("script") is None:
        return model.ask("read", *fields)
    rep = model.ask("readwalk", case["script"], *fields)
    # after EXIT the model keeps answering from the state; normalise like the real side
    out, dead = [], None
    for op, x in zip([c for c in case["script"] if c in "gp"], rep):
        if dead is not None:
            if op == "g":
                out.append(dead)
            else:
                out.append(x.split("\t")[0] + "\t@" + dead.rsplit("@", 1)[1])
            continue
        if x.startswith("EXIT"):
            dead = x
        out.append(x)
    return out


def _cut_at_exit(evs):
    """SystemExit ends the session: nothing after the first EXIT is compared"""
    for i, e in enumerate(evs):
        if e.startswith("EXIT"):
            return evs[:i + 1]
    return evs


def check_case(model, case):
    """None when model and real reader agree, else a dict describing the first difference"""
    root = tempfile.mkdtemp(prefix="fvrd")
    try:
        triples = materialise(case, root)
        try:
            real = run_real(case, root)
        except BaseException as e:  # the harness itself must never die on a case
            real = ["RAISED %s: %s" % (type(e).__name__, e)]
        mod = run_model(model, case, root, triples)
        mod = [m.replace(root, "<root>") for m in mod]
        real = [m.replace(root, "<root>") for m in real]
        real, mod = _cut_at_exit(real), _cut_at_exit(mod)
        if real == mod:
            return None
        i = 0
        while i < min(len(real), len(mod)) and real[i] == mod[i]:
            i += 1
        return {"case": {k: (sorted(v) if isinstance(v, set) else v) for k, v in case.items()},
                "index": i,
                "real": real[i] if i < len(real) else "<end>",
                "model": mod[i] if i < len(mod) else "<end>",
                "real_len": len(real), "model_len": len(mod)}
    finally:
        shutil.rmtree(root, ignore_errors=True)


# ----------------------------------------------------------------------------- generators
STMTS = [
    ["x", "=", "1"],
    ["Aa", "=", "Bb", "+", "Cc", "*", "Dd"],
    ["call", "foo", "(", "a", ",", "b", ")"],
    ["print", "*", ",", "'it''s'", ",", '"q!r"'],
    ["s", "=", "'a&b'", "//", '"c;d"'],
    ["if", "(", "a", ">", "b", ")", "then"],
    ["end", "if"],
    ["do", "i", "=", "1", ",", "10"],
    ["end", "do"],
    ["integer", "::", "i", ",", "j"],
    ["write", "(", "*", ",", "'(a)'", ")", "'x ! y'"],
    ["y", "=", "1.0e-3", "*", "2.5D0", "+", ".5e1_dp"],
    ["z", "=", "(/", "1", ",", "2", "/)"],
    ["format", "(", "a", ",", "i3", ")"],
    ["t", "=", "'don''t & stop'", "//", "''"],
    ["w", "(", "i", "+", "1", ")", "=", "v", "(", "(", "j", ")", ")"],
    ["program", "p"],
    ["end", "program", "p"],
    ["c", "=", '"say ""hi"" ;"'],
    ["a", "(", "1", ":", "2", ")", "=", "b", "(", ":", ")"],
]
COMMENTS = ["! plain", "!", "! it's", '! "q', "! a & b", "! x ! y", "!$omp parallel do", "!f2py x",
            "!! ;", "!$ompx"]


def _is_lit(tok):
    return tok[0] in "'\""


def _case(rng, tok):
    if _is_lit(tok):
        return tok
    r = rng.random()
    return tok.upper() if r < 0.2 else tok.lower() if r < 0.4 else tok


def _wordy(tok):
    return tok[-1].isalnum() or tok[-1] == "_"


def render_tokens(rng, toks):
    """-> list of (text, in_literal_cut_allowed positions) : one string with token offsets"""
    s = ""
    spans = []
    for i, t in enumerate(toks):
        t = _case(rng, t)
        if i:
            need = _wordy(toks[i - 1]) and (t[0].isalnum() or t[0] == "_")
            s += " " * (rng.choice([1, 1, 2]) if need else rng.choice([0, 1, 1, 2]))
        spans.append((len(s), len(s) + len(t), _is_lit(t)))
        s += t
    return s, spans


def free_layout(rng, toks, feat, label=None, name=None):
    """physical free-form lines for one statement"""
    s, spans = render_tokens(rng, toks)
    head = ""
    if label is not None:
        head += "%d%s" % (label, " " * rng.choice([1, 1, 2]))
        feat.add("label")
    if name is not None:
        head += name + rng.choice([":", " :", ": ", " : "])
        feat.add("name")
    cuts = []
    if rng.random() < 0.45 and len(s) > 3:
        ncut = rng.choice([1, 1, 2, 3])
        for _ in range(ncut):
            a, b, lit = rng.choice(spans)
            if lit and b - a > 2 and rng.random() < 0.6:
                cuts.append((rng.randrange(a + 1, b), True))
            else:
                cuts.append((rng.choice([a, b]), False))
    cuts = sorted(set(c for c in cuts if 0 < c[0] < len(s)))
    lines = []
    pos = 0
    lead = False
    ind = rng.choice(["", " ", "  ", "    ", "\t", "  \t"])
    for c, inlit in cuts + [(len(s), False)]:
        piece = s[pos:c]
        last = c == len(s)
        text = ind + (head if pos == 0 else "")
        if lead:
            text += rng.choice(["&", "& ", " &"]) if not lead_inlit else "&"
        text += piece
        if not last:
            feat.add("cont")
            if inlit:
                feat.add("cont-in-literal")
                text += "&"
            else:
                text += rng.choice(["&", " &", "  & "])
            if rng.random() < 0.3 and not inlit:
                text += " " + rng.choice(COMMENTS)
                feat.add("trail-comment-on-cont")
            lines.append(text)
            # blank / comment lines between continuation lines
            while rng.random() < 0.25:
                lines.append(rng.choice(["", "   ", ind + rng.choice(COMMENTS)]))
                feat.add("gap-in-cont")
            lead_inlit = inlit
            lead = inlit or rng.random() < 0.5
            if inlit and rng.random() < 0.15:
                lead = False                    # invalid: literal continued without leading &
                feat.add("lit-cont-no-amp")
            if lead:
                feat.add("lead-amp")
            ind = rng.choice(["", " ", "   ", "\t"])
        else:
            if rng.random() < 0.3:
                text += rng.choice(["", " ", "  "]) + rng.choice(COMMENTS)
                feat.add("trail-comment")
            lines.append(text)
        pos = c
    return lines


INCS = ["inc1.h", "inc2.h", "sub/inc3.h", "missing.h", "empty.h", "dec.h", "incfix.h"]


def gen_free(rng, feat, nst=None, incs=INCS):
    lines = []
    nst = nst or rng.randrange(1, 7)
    i = 0
    while i < nst:
        i += 1
        r = rng.random()
        if r < 0.07:
            k = rng.choice([0, 1, 2])
            body = ["#define X" + " \\" * (k > 0)] + ["  line%d%s" % (j, " \\" if j < k - 1 else "")
                                                      for j in range(k)]
            if rng.random() < 0.2:
                body = [rng.choice(["#if a;b", "  # ifdef Q", "#define s 'a;b' ; c", "#x \\"])]
            lines += body
            feat.add("cpp")
            continue
        if r < 0.15:
            lines.append(rng.choice(["", "  ", "\t"]) + rng.choice(COMMENTS))
            feat.add("comment-line")
            continue
        if r < 0.20:
            lines.append(rng.choice(["", "   "]))
            feat.add("blank-line")
            continue
        if r < 0.30:
            st = rng.choice(STMTS)
            ls = free_layout(rng, st, feat)
            sent = rng.choice(["!$ ", "!$ ", "  !$ ", "!$", "!$  "])
            out = []
            for j, l in enumerate(ls):
                if j == 0:
                    out.append(sent + l.lstrip("\t"))
                else:
                    out.append(rng.choice(["!$ ", "!$", "!$ &", "  !$  ", ""]) + l.lstrip("\t"))
            lines += out
            feat.add("omp-sentinel")
            continue
        if r < 0.36:
            q = rng.choice("'\"")
            fn = rng.choice(incs)
            lines.append(rng.choice(["", "  "]) + rng.choice(["include", "INCLUDE", "Include"]) +
                         rng.choice([" ", "", "  "]) + q + fn + q + rng.choice(["", " ", " ! c"]))
            feat.add("include")
            continue
        # ordinary statement(s), maybe joined by ';'
        label = rng.choice([10, 20, 100, 7]) if rng.random() < 0.15 else None
        name = rng.choice(["nm", "Outer", "l1"]) if rng.random() < 0.12 else None
        st = list(rng.choice(STMTS))
        if rng.random() < 0.25:
            feat.add("semicolon")
            k = rng.choice([1, 1, 2])
            for _ in range(k):
                st = st + [rng.choice([";", ";", " ; ", ";;"])]
                nxt = list(rng.choice(STMTS))
                if rng.random() < 0.2:
                    nxt = [str(rng.choice([30, 40]))] + nxt
                    feat.add("semicolon-label")
                if rng.random() < 0.15:
                    nxt = ["n2", ":"] + nxt
                    feat.add("semicolon-name")
                st += nxt
            if rng.random() < 0.15:
                st = [";"] + st
                feat.add("leading-semicolon")
            if rng.random() < 0.2:
                st = st + [";"]
                feat.add("trailing-semicolon")
        lines += free_layout(rng, st, feat, label, name)
    return lines


FIX_MARKS = "&1+*$xX.9!"


def gen_fixed(rng, feat):
    lines = []
    for _ in range(rng.randrange(1, 7)):
        r = rng.random()
        if r < 0.15:
            lines.append(rng.choice(["C comment", "c it's", "* star", "! bang", "", "      ! col7",
                                     "   ! early bang", "C$omp parallel", "!$omp do", "*"]))
            feat.add("fix-comment-line")
            continue
        if r < 0.2:
            lines.append(rng.choice(["#define A 1", "#if x \\", "#define B \\"]))
            feat.add("cpp")
            continue
        if r < 0.26:
            q = rng.choice("'\"")
            lines.append("      include " + q + rng.choice(["incfix.h", "inc1.h", "missing.h"]) + q)
            feat.add("include")
            continue
        st = rng.choice(STMTS)
        s, _ = render_tokens(rng, st)
        if rng.random() < 0.15:
            s = rng.choice(["nm", "L1"]) + rng.choice([":", ": ", " : "]) + s
            feat.add("name")
        if rng.random() < 0.15:
            s += rng.choice(["; ", ";"]) + render_tokens(rng, rng.choice(STMTS))[0]
            feat.add("semicolon")
        if rng.random() < 0.2:
            s += rng.choice([" ", ""]) + rng.choice(COMMENTS)
            feat.add("trail-comment")
        lab = ""
        if rng.random() < 0.25:
            lab = rng.choice(["10", " 20", "100", "    5", "7  ", "00030"])
            feat.add("label")
        sentinel = None
        if rng.random() < 0.15:
            sentinel = rng.choice(["!$", "c$", "*$", "C$"])
            feat.add("omp-sentinel")
            lab = lab[2:] if len(lab) > 2 else ""
        width = rng.choice([6, 12, 20, 66, 66]) if rng.random() < 0.45 else 1000
        chunks = [s[i:i + width] for i in range(0, len(s), width)] or [""]
        for j, ch in enumerate(chunks):
            if j == 0:
                pre = (lab + "     ")[:5]
                if sentinel:
                    pre = sentinel + (lab + "   ")[:3]
                col6 = rng.choice([" ", " ", " ", "0"])
            else:
                feat.add("fix-cont")
                pre = "     " if not sentinel else sentinel + "   "
                col6 = rng.choice(FIX_MARKS)
                if rng.random() < 0.05:
                    col6 = "0"
                    feat.add("fix-cont-zero")
                while rng.random() < 0.2:
                    lines.append(rng.choice(["C between", "* btw", "! btw", "", "      ! btw7", "c 'q"]))
                    feat.add("fix-comment-in-cont")
            if rng.random() < 0.06:
                pre = "\t"
                col6 = ""
                feat.add("tab")
            lines.append(pre + col6 + ch)
    return lines


MUT_ALPHA = list("'\"&!;#$: \t0123456789abxXcC*=()\\_") + ["include 'inc1.h'", "!$ ", "&&", "''", " ; "]


def mutate(rng, lines, feat):
    feat.add("malformed")
    lines = list(lines) or [""]
    for _ in range(rng.choice([1, 1, 2, 3])):
        i = rng.randrange(len(lines))
        l = lines[i]
        op = rng.random()
        p = rng.randrange(len(l) + 1)
        if op < 0.45:
            l = l[:p] + rng.choice(MUT_ALPHA) + l[p:]
        elif op < 0.7 and l:
            p = rng.randrange(len(l))
            l = l[:p] + l[p + 1:]
        elif op < 0.8:
            lines.insert(i, rng.choice(["&", " & ", "&&", "'", "1 2   x = 1", "nm:", "10", "10 nm:", ";",
                                        "  ;  ;", "x = 'abc", "!$ &", "#", "# \\", "a(;", "10 20 x",
                                        "nm: ! c", " 1 2  y", "F2PY_EXPR_TUPLE_1 = (a+b); c",
                                        "x = \"'a;b'\" // 'a;b' ; y", "call s((a+b), (a+b)); z"]))
            continue
        elif op < 0.9:
            del lines[i]
            if not lines:
                lines = [""]
            continue
        else:
            l = l[:p]
        lines[i] = l
    return lines


def random_lines(rng, feat):
    feat.add("random-soup")
    alpha = rng.choice(["a1 &!'\";:", " 1a&'!:;$#c*\\", "x=;'& !\t", "12 &c!$0*"])
    return ["".join(rng.choice(alpha) for _ in range(rng.randrange(0, 9))) for _ in range(rng.randrange(1, 5))]


SRM_TOKS = ["'a;b'", "\"'a;b'\"", "(a+b)", "((a+b))", "( a+b )", "1e5", "11e5", "1.e5", "'1.e5'", ".5d0_k", ";", ";",
            " ; ", "F2PY_EXPR_TUPLE_1", "_F2PY_STRING_CONSTANT_1_", "F2PY_REAL_CONSTANT_1_", "\\", "[", "]", "(", ")",
            "x", "Yy", " ", "=", "'", "\"", "10", "nm:", "''", "(;)", "a(1;2)", "1e5_", "-1E+3", "&", "!"]


def srm_soup(rng, feat):
    """lines that stress string_replace_map / apply_map as used by the `;` splitting"""
    feat.add("srm-soup")
    return ["".join(rng.choice(SRM_TOKS) for _ in range(rng.randrange(1, 9))) for _ in range(rng.randrange(1, 4))]


def gen_fs(rng, feat, mode):
    """a small include universe; `decoy` holds a DIRECTORY named inc2.h"""
    f = set()
    # no include cycles (Python's recursion limit is not modelled): inc1 may include inc2/inc3 only
    inc1 = "\n".join(gen_free(rng, f, 2, ["inc2.h", "sub/inc3.h", "missing.h", "empty.h"])) + "\n"
    fs = [("d1/inc1.h", inc1 if mode == "free" else "      k = 1\n      m = 2 ! c\n"),
          ("d2/inc1.h", "shadowed = 1\n"),
          ("d2/inc2.h", "v = 2 &\n  + 3\ninclude 'sub/inc3.h'\nafter3 = 1\n"),
          ("d1/sub/inc3.h", "deep = 'x' ! c\n"),
          ("d2/sub/inc3.h", "deep2 = 1; deep3 = 2\n"),
          ("d1/empty.h", ""),
          ("d1/dec.h", None if rng.random() < 0.5 else "real_file = 1\n"),
          ("d2/dec.h", "behind_decoy = 1\n"),
          ("d1/incfix.h", "C fixed comment\n      q = 1\n     &  + 2\n"),
          ("decoy/inc2.h", None)]
    dirs = rng.choice([["d1", "d2"], ["d2", "d1"], ["decoy", "d2", "d1"], ["d1"], ["nowhere", "d1", "d2"],
                       ["d1", "d2"]])
    return fs, dirs


def gen_case(rng):
    feat = set()
    mode = "free" if rng.random() < 0.62 else "fixed"
    r = rng.random()
    if mode == "free":
        lines = gen_free(rng, feat)
    else:
        lines = gen_fixed(rng, feat)
    if r < 0.22:
        lines = mutate(rng, lines, feat)
    elif r < 0.27:
        lines = random_lines(rng, feat)
    elif r < 0.33:
        lines = srm_soup(rng, feat)
        if mode == "fixed":
            lines = ["      " + l for l in lines]
    src = "\n".join(lines) + ("\n" if rng.random() < 0.9 else "")
    fs, dirs = gen_fs(rng, feat, mode)
    case = {"src": src, "mode": mode, "ic": rng.random() < 0.5, "omp": rng.random() < 0.5,
            "pd": rng.random() < 0.1, "dirs": dirs, "fs": fs, "script": None, "feat": feat}
    feat.add(mode)
    feat.add("ic" if case["ic"] else "keep-comments")
    if case["omp"]:
        feat.add("omp-on")
    if rng.random() < 0.3:
        n = rng.randrange(2, 14)
        case["script"] = "".join(rng.choice("ggp") for _ in range(n)) + "gggg"
        feat.add("walk")
    return case


def gen_cases(rng, n):
    for _ in range(n):
        yield gen_case(rng)


# fixed regression inputs (every surprise met while building the model)
REGRESSION = [
    ("free", "a = b // &\n'&' // c\n"),
    ("free", "Aa = Bb; Cc = 1\n"),
    ("free", "program p\n; x = 1\ny = 2\nend program p\n"),
    ("free", "x = 1;\ny = 2;;\n"),
    ("free", "10\nx = 1\n"),
    ("free", "x = 1\n10\ny = 2\n"),
    ("free", "nm:\nx = 1\n"),
    ("free", "x = 1\nnm: ! c\ny = 2\n"),
    ("free", "#define X a;b\ny = 1\n"),
    ("free", "#define X \\\n"),
    ("free", "a = 1; 10\nb = 2\n"),
    ("free", "x = \"'a;b'\" // 'a;b' ; y\n"),
    ("free", "call s(F2PY_EXPR_TUPLE_9 + 1); b\nc = 1\n"),
    ("free", "!$ x = 1 &\n!$omp foo\n"),
    ("free", "!$ !$x = 1\n"),
    ("free", "include 'empty.h'\nx = 1\n"),
    ("free", "include 'inc2.h'\nx = 1\n"),
    ("free", "include 'dec.h'\nx = 1\n"),
    ("fixed", "   10 x = 1\n 1 2  y = 2\n      z = 3\n"),
    ("fixed", " ab   x = 1\n      y = 2\n"),
    ("fixed", " a    x = 1 &\n  + 2\n      y = 2\n"),
    ("fixed", "      x = 'a\n     &b'\nC c\n     0 + 1\n"),
    ("fixed", "10    !c\n      y = 1\n"),
    ("fixed", "!$    x = 1\nc$   &  + 2\n*$ 10 y = 2\n!$omp do\n"),
    ("fixed", "      nm:\n      x = 1\n"),
    ("fixed", "x = 1\n      y = 1\n"),
]


def regression_cases():
    rng = random.Random(1)
    for mode, src in REGRESSION:
        for ic in (True, False):
            for omp in (False, True):
                fs, _ = gen_fs(rng, set(), mode)
                for script in (None, "ggpgppgggggg"):
                    yield {"src": src, "mode": mode, "ic": ic, "omp": omp, "pd": False,
                           "dirs": ["decoy", "d1", "d2"], "fs": fs, "script": script,
                           "feat": {"regression", mode}}


def main(argv=None):
    ap = argparse.ArgumentParser()
    ap.add_argument("--seed", type=int, default=0)
    ap.add_argument("--n", type=int, default=3000)
    ap.add_argument("--exe", default=None)
    ap.add_argument("--show", type=int, default=5)
    args = ap.parse_args(argv)
    model = Model(args.exe)
    rng = random.Random(args.seed)
    counts, bad = {}, []
    t0 = time.time()
    total = 0
    import itertools
    for case in itertools.chain(regression_cases(), gen_cases(rng, args.n)):
        total += 1
        for f in case["feat"]:
            counts[f] = counts.get(f, 0) + 1
        d = check_case(model, case)
        if d is not None:
            bad.append(d)
    model.close()
    print("cosim_reader: %d cases, %d disagreements, %.1fs" % (total, len(bad), time.time() - t0))
    for f in sorted(counts):
        print("  %-26s %d" % (f, counts[f]))
    for d in bad[:args.show]:
        c = d["case"]
        print("DISAGREE mode=%s ic=%s omp=%s pd=%s script=%r dirs=%r" %
              (c["mode"], c["ic"], c["omp"], c["pd"], c["script"], c["dirs"]))
        print("  src   = %r" % c["src"])
        print("  index = %d" % d["index"])
        print("  real  = %r" % d["real"])
        print("  model = %r" % d["model"])
    return 1 if bad else 0


if __name__ == "__main__":
    sys.exit(main())
