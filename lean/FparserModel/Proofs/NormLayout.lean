import FparserModel.Proofs.NormScan

/-! `lexF_layout`: the lexer reads a rendered file back, token lemma per token class and
layout lemma per layout element, all phrased with `Lexes` (no fuel accounting). -/
namespace Fp.Norm
open Fp

/-- `lexGo` yields `ts` on `s` for every sufficient fuel -/
def Lexes (m : Mode) (s : Str) (ts : List Tok) : Prop := ∀ n, s.length < n → lexGo n m s = ts

theorem Lexes.lexF {s : Str} {ts : List Tok} (h : Lexes .bol s ts) : lexF s = ts :=
  h _ (Nat.lt_succ_self _)

theorem Lexes.nil_bol : Lexes .bol [] [] := by
  intro n hn
  cases n with
  | zero => simp at hn
  | succ n => simp [lexGo]

/-- dispatch: `c` is none of the layout characters -/
def plain (c : Char) : Bool :=
  !isBlank c && c != '!' && c != '\n' && c != ';' && c != '&'

theorem plain_parts {c : Char} (hp : plain c = true) :
    isBlank c = false ∧ (c == '!') = false ∧ (c == '\n' || c == ';') = false ∧ (c == '&') = false := by
  simp only [plain, Bool.and_eq_true, Bool.not_eq_true', bne_iff_ne, ne_eq] at hp
  obtain ⟨⟨⟨⟨h1, h2⟩, h3⟩, h4⟩, h5⟩ := hp
  exact ⟨h1, by simpa using h2, by simp [h3, h4], by simpa using h5⟩

theorem nameStartOK_plain {c : Char} (h : nameStartOK c = true) : plain c = true := by
  simp only [nameStartOK, Bool.and_eq_true] at h
  simp only [plain, Bool.and_eq_true]
  obtain ⟨⟨⟨⟨⟨⟨⟨⟨⟨h1, h2⟩, h3⟩, h4⟩, h5⟩, h6⟩, h7⟩, h8⟩, h9⟩, h10⟩ := h
  exact ⟨⟨⟨⟨h3, h4⟩, h5⟩, h6⟩, h7⟩

/-- a name followed by any text it accepts -/
theorem Lexes.name {w s : Str} {ts : List Tok} (m : Mode) (hw : nameOK w = true)
    (ha : okAfter (.name w) s = true) (h : Lexes .mid s ts) :
    Lexes m (w ++ s) (.name w :: ts) := by
  intro n hn
  cases w with
  | nil => simp [nameOK] at hw
  | cons c cs =>
    cases n with
    | zero => simp at hn
    | succ n =>
      simp only [nameOK, Bool.and_eq_true] at hw
      obtain ⟨hc, hcs⟩ := hw
      obtain ⟨h1, e2, e3, e5⟩ := plain_parts (nameStartOK_plain hc)
      simp only [nameStartOK, Bool.and_eq_true, Bool.not_eq_true', bne_iff_ne, ne_eq] at hc
      obtain ⟨⟨⟨⟨⟨⟨⟨⟨⟨c1, c2⟩, _⟩, _⟩, _⟩, _⟩, _⟩, c8⟩, c9⟩, c10⟩ := hc
      simp only [okAfter, Bool.and_eq_true, Bool.not_eq_true'] at ha
      obtain ⟨ha1, ha2⟩ := ha
      have hall : (c :: cs).all isWord = true := by simp [c2, hcs]
      have htw : (c :: (cs ++ s)).takeWhile isWord = c :: cs := by
        simpa using takeWhile_append_stop isWord (c :: cs) s hall ha1
      have hdr : (c :: (cs ++ s)).drop (c :: cs).length = s := by
        simp
      have e10 : (c == '.') = false := by simpa using c10
      have hrest := h n (by simp at hn ⊢; omega)
      simp only [List.cons_append, lexGo, h1, e2, e3, e5, c8, c9, e10, c1, htw, hdr,
        Bool.false_eq_true, if_false, if_true, Bool.false_and, Bool.false_or]
      cases s with
      | nil => simp [hrest]
      | cons q r' =>
        simp only [headIs] at ha2
        simp [ha2, hrest]

theorem opChar_parts {c : Char} (h : opChar c = true) :
    plain c = true ∧ isQuote c = false ∧ c.isDigit = false ∧ (c == '.') = false
      ∧ isNameStart c = false := by
  simp only [opChar, Bool.and_eq_true, Bool.not_eq_true', bne_iff_ne, ne_eq] at h
  obtain ⟨⟨⟨⟨⟨⟨⟨⟨h1, h2⟩, h3⟩, h4⟩, h5⟩, h6⟩, h7⟩, h8⟩, h9⟩ := h
  refine ⟨?_, h6, h7, by simpa using h8, h9⟩
  simp [plain, h1, h2, h3, h4, h5]

theorem isOp2_first {a b : Char} (h : isOp2 a b = true) : opChar a = true := by
  simp only [isOp2, Bool.or_eq_true, Bool.and_eq_true, beq_iff_eq] at h
  rcases h with ((((h | h) | h) | h) | h) | h <;> (obtain ⟨rfl, _⟩ := h; decide)

theorem Lexes.op1 {c : Char} {s : Str} {ts : List Tok} (m : Mode) (hc : opChar c = true)
    (ha : okAfter (.op1 c) s = true) (h : Lexes .mid s ts) :
    Lexes m (c :: s) (.op [c] :: ts) := by
  intro n hn
  cases n with
  | zero => simp at hn
  | succ n =>
    obtain ⟨hp, c6, c7, c8, c9⟩ := opChar_parts hc
    obtain ⟨h1, e2, e3, e5⟩ := plain_parts hp
    have hrest := h n (by simp at hn ⊢; omega)
    simp only [okAfter, Bool.not_eq_true'] at ha
    simp only [lexGo, h1, e2, e3, e5, c6, c7, c8, c9, Bool.false_eq_true, if_false,
      Bool.false_and, Bool.false_or]
    cases s with
    | nil => simp [hrest]
    | cons c2 r =>
      simp only [headIs] at ha
      simp [ha, hrest]

theorem Lexes.op2 {a b : Char} {s : Str} {ts : List Tok} (m : Mode) (hab : isOp2 a b = true)
    (h : Lexes .mid s ts) : Lexes m (a :: b :: s) (.op [a, b] :: ts) := by
  intro n hn
  cases n with
  | zero => simp at hn
  | succ n =>
    obtain ⟨hp, c6, c7, c8, c9⟩ := opChar_parts (isOp2_first hab)
    obtain ⟨h1, e2, e3, e5⟩ := plain_parts hp
    have hrest := h n (by simp at hn ⊢; omega)
    simp only [lexGo, h1, e2, e3, e5, c6, c7, c8, c9, Bool.false_eq_true, if_false,
      Bool.false_and, Bool.false_or, hab, if_true, hrest]

theorem digit_parts {c : Char} (h : c.isDigit = true) :
    plain c = true ∧ isQuote c = false := by
  have hb : ∀ d : Char, d.isDigit = false → c ≠ d := by
    intro d hd e; subst e; rw [h] at hd; cases hd
  have b1 := hb ' ' (by decide)
  have b2 := hb '\t' (by decide)
  have b3 := hb '\r' (by decide)
  have b4 := hb '!' (by decide)
  have b5 := hb '\n' (by decide)
  have b6 := hb ';' (by decide)
  have b7 := hb '&' (by decide)
  have b8 := hb '\'' (by decide)
  have b9 := hb '"' (by decide)
  simp [plain, isBlank, isQuote, b1, b2, b3, b4, b5, b6, b7, b8, b9]

theorem Lexes.label {ds s : Str} {ts : List Tok} (h1 : ds ≠ []) (h2 : ds.all isDigit = true)
    (ha : okAfter (.label ds) s = true) (h : Lexes .mid s ts) :
    Lexes .bol (ds ++ s) (.label ds :: ts) := by
  intro n hn
  cases ds with
  | nil => exact absurd rfl h1
  | cons c cs =>
    cases n with
    | zero => simp at hn
    | succ n =>
      have hc : c.isDigit = true := by
        simp only [List.all_cons, Bool.and_eq_true] at h2; exact h2.1
      obtain ⟨hp, c6⟩ := digit_parts hc
      obtain ⟨b1, e2, e3, e5⟩ := plain_parts hp
      simp only [okAfter, Bool.not_eq_true'] at ha
      have htw : (c :: (cs ++ s)).takeWhile isDigit = c :: cs := by
        simpa using takeWhile_append_stop isDigit (c :: cs) s h2 ha
      have hdr : (c :: (cs ++ s)).drop (c :: cs).length = s := by simp
      have hrest := h n (by simp at hn ⊢; omega)
      simp only [List.cons_append, lexGo, b1, e2, e3, e5, c6, hc, htw, hdr, Bool.false_eq_true,
        if_false, Bool.true_or, if_true, beq_self_eq_true, Bool.and_self, hrest]

theorem Lexes.dot {ls s : Str} {kd : Option Str} {ts : List Tok} (m : Mode)
    (hok : (WTok.dot ls kd).ok = true) (ha : okAfter (.dot ls kd) s = true)
    (h : Lexes .mid s ts) :
    Lexes m ('.' :: (ls ++ '.' :: kindText kd) ++ s) (.dot ('.' :: (ls ++ '.' :: kindText kd)) :: ts) := by
  intro n hn
  cases n with
  | zero => simp at hn
  | succ n =>
    simp only [WTok.ok, Bool.and_eq_true, Bool.not_eq_true', List.isEmpty_eq_false_iff] at hok
    obtain ⟨⟨hne, hal⟩, hkd⟩ := hok
    have hdl := dottedLen_letters ls (kindText kd ++ s) hne hal
    have hsk : scanKind (kindText kd ++ s) = (kindText kd, s) :=
      scanKind_text kd s hkd (by
        simp only [okAfter] at ha
        cases kd with
        | none => simpa using ha
        | some k => simpa using ha)
    have hhead : ((ls ++ '.' :: (kindText kd ++ s)).head?.map Char.isDigit).getD false = false := by
      cases ls with
      | nil => exact absurd rfl hne
      | cons l r =>
        simp only [List.all_cons, Bool.and_eq_true] at hal
        simp [alpha_not_digit hal.1]
    have hrest := h n (by simp at hn ⊢; omega)
    have e1 : ('.' :: (ls ++ '.' :: kindText kd) ++ s) = '.' :: (ls ++ '.' :: (kindText kd ++ s)) := by
      simp
    rw [e1]
    have hd : (ls ++ '.' :: (kindText kd ++ s)).drop (ls.length + 1) = kindText kd ++ s := by
      rw [← List.drop_drop]; simp
    have htk : (ls ++ '.' :: (kindText kd ++ s)).take ls.length = ls := by simp
    have p1 : isBlank '.' = false := by decide
    have p2 : ('.' == '!') = false := by decide
    have p3 : ('.' == '\n' || '.' == ';') = false := by decide
    have p4 : ('.' == '&') = false := by decide
    have p5 : isQuote '.' = false := by decide
    have p6 : ('.' : Char).isDigit = false := by decide
    simp only [lexGo, p1, p2, p3, p4, p5, p6, hhead, hdl, hd, htk, hsk, hrest, Bool.false_eq_true,
      if_false, Bool.false_or, Bool.and_false, beq_self_eq_true, if_true]
    simp

theorem quote_parts {q : Char} (h : isQuote q = true) : plain q = true := by
  simp only [isQuote, Bool.or_eq_true, beq_iff_eq] at h
  rcases h with h | h <;> subst h <;> decide

/-- character literal without kind prefix -/
theorem Lexes.chr0 {q : Char} {raw s : Str} {ts : List Tok} (m : Mode) (hq : isQuote q = true)
    (hraw : rawOK raw = true) (ha : okAfter (.chr [] q raw) s = true) (h : Lexes .mid s ts) :
    Lexes m (q :: (encBody q raw ++ [q]) ++ s) (.chr (q :: (encBody q raw ++ [q])) :: ts) := by
  intro n hn
  cases n with
  | zero => simp at hn
  | succ n =>
    obtain ⟨h1, e2, e3, e5⟩ := plain_parts (quote_parts hq)
    simp only [okAfter, Bool.not_eq_true'] at ha
    have hsc := scanChr_lit q hq raw s hraw ha
    have hrest := h n (by simp at hn ⊢; omega)
    have e1 : q :: (encBody q raw ++ [q]) ++ s = q :: (encBody q raw ++ q :: s) := by simp
    rw [e1]
    simp only [lexGo, h1, e2, e3, e5, hq, hsc, hrest, Bool.false_eq_true, if_false, if_true]

theorem bozLetter_last {w : Str} (h : isBozLetter w = true) : (w.getLast? == some '_') = false := by
  simp only [isBozLetter, Bool.or_eq_true, beq_iff_eq] at h
  rcases h with ((((((h | h) | h) | h) | h) | h) | h) | h <;> subst h <;> decide

theorem last_us_not_boz {w : Str} (h : w.getLast? = some '_') : isBozLetter w = false := by
  cases hb : isBozLetter w
  · rfl
  · have := bozLetter_last hb
    simp [h] at this

/-- character literal with a kind prefix `name_` -/
theorem Lexes.chrP {pfx : Str} {q : Char} {raw s : Str} {ts : List Tok} (m : Mode)
    (hq : isQuote q = true) (hraw : rawOK raw = true) (hp : nameOK pfx = true)
    (hl : pfx.getLast? = some '_') (ha : okAfter (.chr pfx q raw) s = true)
    (h : Lexes .mid s ts) :
    Lexes m (pfx ++ q :: (encBody q raw ++ [q]) ++ s)
      (.chr (pfx ++ q :: (encBody q raw ++ [q])) :: ts) := by
  intro n hn
  cases pfx with
  | nil => simp [nameOK] at hp
  | cons c cs =>
    cases n with
    | zero => simp at hn
    | succ n =>
      simp only [nameOK, Bool.and_eq_true] at hp
      obtain ⟨hc, hcs⟩ := hp
      obtain ⟨h1, e2, e3, e5⟩ := plain_parts (nameStartOK_plain hc)
      simp only [nameStartOK, Bool.and_eq_true, Bool.not_eq_true', bne_iff_ne, ne_eq] at hc
      obtain ⟨⟨⟨⟨⟨⟨⟨⟨⟨c1, c2⟩, _⟩, _⟩, _⟩, _⟩, _⟩, c8⟩, c9⟩, c10⟩ := hc
      simp only [okAfter, Bool.not_eq_true'] at ha
      have hsc := scanChr_lit q hq raw s hraw ha
      have hall : (c :: cs).all isWord = true := by simp [c2, hcs]
      have e1 : (c :: cs) ++ q :: (encBody q raw ++ [q]) ++ s
          = c :: (cs ++ q :: (encBody q raw ++ q :: s)) := by simp
      have htw : (c :: (cs ++ q :: (encBody q raw ++ q :: s))).takeWhile isWord = c :: cs := by
        simpa using takeWhile_append_stop isWord (c :: cs) (q :: (encBody q raw ++ q :: s)) hall
          (by simp [headIs, quote_not_word hq])
      have hdr : (c :: (cs ++ q :: (encBody q raw ++ q :: s))).drop (c :: cs).length
          = q :: (encBody q raw ++ q :: s) := by simp
      have e10 : (c == '.') = false := by simpa using c10
      have hnb := last_us_not_boz hl
      have hrest := h n (by simp at hn ⊢; omega)
      rw [e1]
      simp only [lexGo, h1, e2, e3, e5, c8, c9, e10, c1, htw, hdr, hq, hl, hnb, hsc, hrest,
        Bool.false_eq_true, if_false, if_true, Bool.false_and, Bool.false_or, beq_self_eq_true,
        Bool.true_or, Bool.and_self]

/-- BOZ literal -/
theorem Lexes.boz {w q : Char} {raw s : Str} {ts : List Tok} (m : Mode)
    (hok : (WTok.boz w q raw).ok = true) (ha : okAfter (.boz w q raw) s = true)
    (h : Lexes .mid s ts) :
    Lexes m (w :: q :: (encBody q raw ++ [q]) ++ s) (.boz (w :: q :: (encBody q raw ++ [q])) :: ts) := by
  intro n hn
  cases n with
  | zero => simp at hn
  | succ n =>
    simp only [WTok.ok, Bool.and_eq_true] at hok
    obtain ⟨⟨⟨hq, hraw⟩, hb⟩, hc⟩ := hok
    obtain ⟨h1, e2, e3, e5⟩ := plain_parts (nameStartOK_plain hc)
    simp only [nameStartOK, Bool.and_eq_true, Bool.not_eq_true', bne_iff_ne, ne_eq] at hc
    obtain ⟨⟨⟨⟨⟨⟨⟨⟨⟨c1, c2⟩, _⟩, _⟩, _⟩, _⟩, _⟩, c8⟩, c9⟩, c10⟩ := hc
    simp only [okAfter, Bool.not_eq_true'] at ha
    have hsc := scanChr_lit q hq raw s hraw ha
    have e1 : w :: q :: (encBody q raw ++ [q]) ++ s = w :: (q :: (encBody q raw ++ q :: s)) := by simp
    have htw : (w :: (q :: (encBody q raw ++ q :: s))).takeWhile isWord = [w] := by
      simp [List.takeWhile, c2, quote_not_word hq]
    have e10 : (w == '.') = false := by simpa using c10
    have hrest := h n (by simp at hn ⊢; omega)
    rw [e1]
    simp only [lexGo, h1, e2, e3, e5, c8, c9, e10, c1, htw, hq, hb, hsc, hrest, List.length_singleton,
      List.drop_succ_cons, List.drop_zero,
      Bool.false_eq_true, if_false, if_true, Bool.false_and, Bool.false_or, Bool.or_true, Bool.and_self]
    simp

theorem num_head {n : NumLit} (hok : n.ok = true) (s : Str) :
    ∃ c cs, n.text ++ s = c :: cs ∧
      (c.isDigit = true ∨ (c = '.' ∧ n.int = [] ∧ (cs.head?.map Char.isDigit).getD false = true)) := by
  obtain ⟨hint, _, _, hfrac⟩ := NumLit.ok_parts hok
  cases hi : n.int with
  | cons c r =>
    refine ⟨c, r ++ (fracText n.frac ++ (expText n.exp ++ kindText n.kind)) ++ s, ?_, Or.inl ?_⟩
    · simp [NumLit.text, hi]
    · rw [hi] at hint
      simp only [List.all_cons, Bool.and_eq_true] at hint
      exact hint.1
  | nil =>
    cases hf : n.frac with
    | none => rw [hf] at hfrac; exact absurd hi hfrac
    | some d =>
      rw [hf] at hfrac
      obtain ⟨hd, hne⟩ := hfrac
      cases d with
      | nil => rcases hne with h | h <;> simp_all
      | cons d0 dr =>
        refine ⟨'.', (d0 :: dr) ++ (expText n.exp ++ kindText n.kind) ++ s, ?_, Or.inr ⟨rfl, rfl, ?_⟩⟩
        · simp [NumLit.text, hi, hf, fracText]
        · simp only [List.all_cons, Bool.and_eq_true] at hd
          simpa [isDigit] using hd.1

theorem NumLit.text_ne_nil {n : NumLit} (hok : n.ok = true) : 1 ≤ n.text.length := by
  obtain ⟨c, cs, h, _⟩ := num_head hok []
  simp at h
  rw [h]; simp

theorem Lexes.num {n : NumLit} {s : Str} {ts : List Tok} (m : Mode) (hok : n.ok = true)
    (hm : m ≠ .bol ∨ n.int = []) (ha : okAfter (.num n) s = true) (h : Lexes .mid s ts) :
    Lexes m (n.text ++ s) (.num n.text :: ts) := by
  intro k hk
  have hsn := scanNum_text n s hok ha
  obtain ⟨c, cs, hcs, hc⟩ := num_head hok s
  have hlen := NumLit.text_ne_nil hok
  rw [hcs] at hsn hk ⊢
  cases k with
  | zero => simp at hk
  | succ k =>
    have hrest := h k (by
      have := congrArg List.length hcs
      simp at this hk ⊢; omega)
    simp only [okAfter, Bool.and_eq_true, Bool.not_eq_true'] at ha
    have hs_us : ∀ q r', s ≠ '_' :: q :: r' := by
      intro q r' e
      have := ha.1
      rw [e] at this
      simp only [headIs] at this
      exact absurd this (by decide)
    rcases hc with hc | ⟨rfl, hi, hd⟩
    · obtain ⟨hp, c6⟩ := digit_parts hc
      obtain ⟨b1, e2, e3, e5⟩ := plain_parts hp
      have hmb : (m == Mode.bol) = false := by
        rcases hm with hm | hm
        · cases m <;> simp_all
        · exfalso
          have : n.text ++ s = fracText n.frac ++ (expText n.exp ++ kindText n.kind) ++ s := by
            simp [NumLit.text, hm]
          obtain ⟨_, _, _, hfrac⟩ := NumLit.ok_parts hok
          cases hf : n.frac with
          | none => rw [hf] at hfrac; exact hfrac hm
          | some d =>
            rw [hf] at this
            simp [fracText] at this
            rw [hcs] at this
            simp at this
            rw [this.1] at hc
            exact absurd hc (by decide)
      simp only [lexGo, b1, e2, e3, e5, c6, hc, hmb, hsn, Bool.false_eq_true, if_false,
        Bool.true_or, if_true, Bool.false_and]
      rw [hrest]
    · have p1 : isBlank '.' = false := by decide
      have p2 : ('.' == '!') = false := by decide
      have p3 : ('.' == '\n' || '.' == ';') = false := by decide
      have p4 : ('.' == '&') = false := by decide
      have p5 : isQuote '.' = false := by decide
      have p6 : ('.' : Char).isDigit = false := by decide
      simp only [lexGo, p1, p2, p3, p4, p5, p6, hd, hsn, Bool.false_eq_true, if_false,
        Bool.false_or, beq_self_eq_true, Bool.and_self, if_true, Bool.and_false]
      rw [hrest]

/-! ### layout steps -/

theorem Lexes.blanks {m : Mode} {s : Str} {ts : List Tok} (k : Nat) (h : Lexes m s ts) :
    Lexes m (Fp.Norm.blanks k ++ s) ts := by
  induction k with
  | zero => simpa [Fp.Norm.blanks] using h
  | succ k ih =>
    intro n hn
    cases n with
    | zero => simp at hn
    | succ n =>
      have e : Fp.Norm.blanks (k + 1) ++ s = ' ' :: (Fp.Norm.blanks k ++ s) := by
        simp [Fp.Norm.blanks, List.replicate_succ]
      rw [e] at hn ⊢
      have hb : isBlank ' ' = true := by decide
      simp only [lexGo, hb, if_true]
      exact ih n (by simp at hn ⊢; omega)

theorem dropWhile_cmt (cm s : Str) (h : cm.all (· != '\n') = true) :
    (cm ++ '\n' :: s).dropWhile (· != '\n') = '\n' :: s := by
  induction cm with
  | nil => simp
  | cons c cm ih =>
    simp only [List.all_cons, Bool.and_eq_true] at h
    simp only [List.cons_append, List.dropWhile_cons, h.1, if_true]
    exact ih h.2

/-- optional trailing comment before a newline -/
theorem Lexes.cmt {m : Mode} {s : Str} {ts : List Tok} (cm : Option Str) (hc : cmtOK cm = true)
    (h : Lexes m ('\n' :: s) ts) : Lexes m (cmtText cm ++ '\n' :: s) ts := by
  cases cm with
  | none => simpa [cmtText] using h
  | some cm =>
    intro n hn
    cases n with
    | zero => simp at hn
    | succ n =>
      have hd := dropWhile_cmt cm s (by simpa [cmtOK] using hc)
      have p1 : isBlank '!' = false := by decide
      simp only [cmtText, List.cons_append, lexGo, p1, beq_self_eq_true, if_true, hd,
        Bool.false_eq_true, if_false]
      exact h n (by simp [cmtText] at hn ⊢; omega)

theorem Lexes.nl_mid {s : Str} {ts : List Tok} (h : Lexes .bol s ts) :
    Lexes .mid ('\n' :: s) (.eos :: ts) := by
  intro n hn
  cases n with
  | zero => simp at hn
  | succ n =>
    have := h n (by simp at hn ⊢; omega)
    simp [lexGo, isBlank, this]

theorem Lexes.semi_mid {s : Str} {ts : List Tok} (h : Lexes .bol s ts) :
    Lexes .mid (';' :: s) (.eos :: ts) := by
  intro n hn
  cases n with
  | zero => simp at hn
  | succ n =>
    have := h n (by simp at hn ⊢; omega)
    simp [lexGo, isBlank, this]

theorem Lexes.nl_bol {s : Str} {ts : List Tok} (h : Lexes .bol s ts) :
    Lexes .bol ('\n' :: s) ts := by
  intro n hn
  cases n with
  | zero => simp at hn
  | succ n =>
    have := h n (by simp at hn ⊢; omega)
    simp [lexGo, isBlank, this]

theorem Lexes.semi_bol {s : Str} {ts : List Tok} (h : Lexes .bol s ts) :
    Lexes .bol (';' :: s) ts := by
  intro n hn
  cases n with
  | zero => simp at hn
  | succ n =>
    have := h n (by simp at hn ⊢; omega)
    simp [lexGo, isBlank, this]

theorem Lexes.nl_cont {s : Str} {ts : List Tok} (h : Lexes .cont s ts) :
    Lexes .cont ('\n' :: s) ts := by
  intro n hn
  cases n with
  | zero => simp at hn
  | succ n =>
    have := h n (by simp at hn ⊢; omega)
    simp [lexGo, isBlank, this]

theorem Lexes.amp_cont {s : Str} {ts : List Tok} (h : Lexes .mid s ts) :
    Lexes .cont ('&' :: s) ts := by
  intro n hn
  cases n with
  | zero => simp at hn
  | succ n =>
    have := h n (by simp at hn ⊢; omega)
    simp [lexGo, isBlank, this]

theorem dropWhile_blanks' (k : Nat) (s : Str) (hs : headIs isBlank s = false) :
    (Fp.Norm.blanks k ++ s).dropWhile isBlank = s := by
  induction k with
  | zero =>
    cases s with
    | nil => rfl
    | cons c r => simp only [headIs] at hs; simp [Fp.Norm.blanks, hs]
  | succ k ih =>
    have hb : isBlank ' ' = true := by decide
    simpa [Fp.Norm.blanks, List.replicate_succ, hb] using ih

/-- `&` inside a statement, then blanks, then a comment or the newline: continuation -/
theorem Lexes.amp_mid {s : Str} {ts : List Tok} (k : Nat) (cm : Option Str)
    (h : Lexes .cont (Fp.Norm.blanks k ++ (cmtText cm ++ '\n' :: s)) ts) :
    Lexes .mid ('&' :: (Fp.Norm.blanks k ++ (cmtText cm ++ '\n' :: s))) ts := by
  intro n hn
  cases n with
  | zero => simp at hn
  | succ n =>
    have hrest := h n (by simp at hn ⊢; omega)
    have hdw : (Fp.Norm.blanks k ++ (cmtText cm ++ '\n' :: s)).dropWhile isBlank
        = cmtText cm ++ '\n' :: s :=
      dropWhile_blanks' k _ (by cases cm <;> simp [cmtText, headIs] <;> decide)
    have p1 : isBlank '&' = false := by decide
    have p2 : ('&' == '!') = false := by decide
    have p3 : ('&' == '\n' || '&' == ';') = false := by decide
    simp only [lexGo, p1, p2, p3, beq_self_eq_true, if_true, hdw, Bool.false_eq_true, if_false]
    cases cm with
    | none => simp only [cmtText, List.nil_append] at hrest ⊢; simp [hrest]
    | some c => simp only [cmtText, List.cons_append] at hrest ⊢; simp [hrest]

end Fp.Norm
