"""C10 — the parse tree is a well-formed tree with consistent navigation."""
import random
from fv import real, gen, layout, treeutil, engine, findings
from fv.props import util

RULE = ("trees of generated programs (both standards; comments dropped / kept / directives processed; cpp lines and unresolved "
        "INCLUDE lines inserted) and of their re-parse (C01): every node object occurs once; parent == container (through nested "
        "tuples/lists); root has no parent; get_root() is the root from every node; walk() == independent pre-order of children; "
        "statement leaves print in the order of the regenerated source. non-trivial = tree has >= 50 nodes"
        " Correspondence: on every third program the tree model Fp.Tree replays the recorded _set_parent / Base.__init__ events and its parent map, walk(), get_root() and get_child() are compared with the real tree's, node for node.")
ASSUMPTIONS = ["string-level nodes: freshness of construction events is checked on observed trees, not proved"]
TIE_MODULES = ["FparserModel.Tree", "FparserModel.Tree3", "FparserModel.Generated.Tree3Proto", "FparserModel.Props.Tree3"]


def decorate(p, seed, mode):
    L = layout.render_free(p, seed ^ 0xC10, layout.FreeOpts(p_cont=0.1, comments=(mode != "drop")))
    lines = list(L.lines)
    rng = random.Random(seed)
    if mode == "extras":
        # cpp + unresolved include lines at statement boundaries
        firsts = sorted(f for f, _ in L.spans.values())
        for f in sorted(rng.sample(firsts, min(4, len(firsts))), reverse=True):
            lines.insert(f - 1, rng.choice(["#ifdef FOO", "#endif", "#define X 1", "include 'nofile.inc'", "#include \"x.h\""]))
    return "\n".join(lines) + "\n"


def check_tree(t, res, case, tag, src):
    probs = treeutil.wellformed_problems(t)
    for pr in probs:
        res["findings"].append({"signature": "malformed:" + pr.split(":")[0][:40].split(" of ")[0],
                                "what": "%s tree: %s" % (tag, pr), "replay": {"case": case, "source": src, "which": tag}})
    # statement order == printed order
    stmts = treeutil.statement_nodes(t)
    printed = [l.strip() for l in str(t).split("\n") if l.strip()]
    mine = [str(s).strip() for s in stmts if str(s).strip()]
    mine_lines = []
    for s in mine:
        mine_lines += [x.strip() for x in s.split("\n") if x.strip()]
    # BlockBase.tofortran prints `label ` and `name:` in front of the statement's own text
    def core(l):
        parts = l.split(None, 1)
        if len(parts) > 1 and parts[0].isdigit():
            l = parts[1].strip()
        return l
    ok = len(mine_lines) == len(printed)
    k = 0
    if ok:
        for k, (a, b) in enumerate(zip(mine_lines, printed)):
            b2 = core(b)
            if not (a == b or a == b2 or (b2.endswith(a) and b2[: len(b2) - len(a)].rstrip().endswith(":"))):
                ok = False
                break
    if not ok:
        res["findings"].append({"signature": "walk-order-differs-from-print", "what": "%s tree: statement %d in tree order %r vs printed %r (%d vs %d lines)" % (
            tag, k, mine_lines[k:k + 1], printed[k:k + 1], len(mine_lines), len(printed)), "replay": {"case": case, "source": src, "which": tag}})
    return len(treeutil.all_nodes(t))


def run_case(case):
    p = util.program_case(case)
    std, mode = case["std"], case["mode"]
    res = {"key": [case["seed"], std, mode], "counts": {"mode:" + mode: 1}, "findings": []}
    src = decorate(p, case["seed"], mode)
    o = real.try_parse(src, std=std, ignore_comments=(mode == "drop"), process_directives=(mode == "directives"), free=True)
    if o.kind != "tree":
        res["nontrivial"] = False
        res["counts"]["rejected"] = 1
        return res
    n = check_tree(o.tree, res, case, "parse", src)
    res["nontrivial"] = n >= 50
    res["counts"]["nodes"] = n
    res["sample"] = {"seed": case["seed"], "mode": mode, "nodes": n}
    if case["seed"] % 3 == 0:
        fs, info = util.tree_cosim(src, std=std, case=case)
        res["findings"] += fs
        res["counts"]["tree-cosim"] = 1
        res["counts"]["tree-nodes-tied"] = info.get("nodes", 0)
    s1 = str(o.tree)
    o2 = real.try_parse(s1, std=std, ignore_comments=(mode == "drop"), process_directives=(mode == "directives"), free=True)
    if o2.kind == "tree":
        check_tree(o2.tree, res, case, "re-parse", s1)
    return res


def cases(tier, seed):
    n = util.tier_n(tier, 120, 1200)
    modes = ["drop", "keep", "directives", "extras"]
    return [{"seed": s, "std": "f2008" if i % 3 else "f2003", "mode": modes[i % 4]} for i, s in enumerate(util.seeds(seed, n, 10))]


def run(tier, rep, st):
    util.sub_cosim(rep, tier, "cosim_tree3", "Fp.Tree3", 60, 600)
    engine.run_cases(__name__, cases(tier, rep.seed), rep)
